import Lean.Data.Json
import E3fpVerif.Model.Fprint
/-! JSON codecs for the line protocol (not part of the model; trusted glue). -/
namespace E3fpVerif
open Lean

def ratToJson (q : Rat) : Json :=
  if q.den = 1 then Json.str (toString q.num) else Json.str s!"{q.num}/{q.den}"

def parseInt? (s : String) : Option Int := s.toInt?

def ratOfString? (s : String) : Option Rat :=
  match s.splitOn "/" with
  | [a] => (parseInt? a).map (fun n => (n : Rat))
  | [a, b] => do
    let n ← parseInt? a
    let d ← b.toNat?
    if d = 0 then none else some ((n : Rat) / (d : Rat))
  | _ => none

def jRat (j : Json) : Except String Rat :=
  match j with
  | .str s => match ratOfString? s with | some q => .ok q | none => .error s!"bad rat {s}"
  | .num n => if n.exponent = 0 then .ok (n.mantissa : Rat) else .ok ((n.mantissa : Rat) / ((10 ^ n.exponent : Nat) : Rat))
  | _ => .error "rat expected"

def jNat (j : Json) : Except String Nat := j.getNat?
def jInt (j : Json) : Except String Int := j.getInt?
def jStr (j : Json) : Except String String := j.getStr?
def jBool (j : Json) : Except String Bool := j.getBool?
def jArr (j : Json) : Except String (List Json) := do return (← j.getArr?).toList
def jList {α} (f : Json → Except String α) (j : Json) : Except String (List α) := do (← jArr j).mapM f
def jOpt {α} (f : Json → Except String α) (j : Json) : Except String (Option α) :=
  match j with | .null => .ok none | _ => (f j).map some
def jField (j : Json) (k : String) : Except String Json := j.getObjVal? k
def jFieldD (j : Json) (k : String) : Json := (j.getObjVal? k).toOption.getD .null
def jPair {α β} (f : Json → Except String α) (g : Json → Except String β) (j : Json) : Except String (α × β) := do
  match ← jArr j with
  | [a, b] => return (← f a, ← g b)
  | _ => .error "pair expected"

def kindToString : Kind → String | .bit => "bit" | .count => "count" | .float => "float"
def jKind (j : Json) : Except String Kind := do
  match ← jStr j with
  | "bit" => .ok .bit | "count" => .ok .count | "float" => .ok .float
  | s => .error s!"bad kind {s}"

def errToString : Err → String
  | .bitsValue => "BitsValueError" | .invalidFp => "InvalidFingerprintError" | .counts => "CountsError"
  | .option => "OptionError" | .value => "ValueError" | .type => "TypeError" | .index => "IndexError"
  | .key => "KeyError" | .zeroDiv => "ZeroDivisionError" | .other => "Other"

def natJ (n : Nat) : Json := Json.num (Int.ofNat n)
def natsToJson (l : List Nat) : Json := Json.arr (l.map natJ).toArray
def cntToJson (c : List (Nat × Rat)) : Json :=
  Json.arr (c.map (fun p => Json.arr #[Json.num ((p.1 : Nat) : Int), ratToJson p.2])).toArray

def fpToJson (f : Fp) : Json := Json.mkObj [
  ("kind", kindToString f.kind), ("bits", Json.num ((f.bits : Nat) : Int)), ("level", Json.num f.level),
  ("idx", natsToJson f.idx), ("cnt", cntToJson f.cnt)]

def jCnt (j : Json) : Except String (List (Nat × Rat)) := jList (jPair jNat jRat) j

def jFp (j : Json) : Except String Fp := do
  return { kind := ← jKind (← jField j "kind"), bits := ← jNat (← jField j "bits"),
           level := ← jInt (← jField j "level"), idx := ← jList jNat (← jField j "idx"),
           cnt := ← jCnt (← jField j "cnt") }

def okJ (j : Json) : Json := Json.mkObj [("ok", j)]
def errJ (e : Err) : Json := Json.mkObj [("err", errToString e)]
def exJ {α} (f : α → Json) : Except Err α → Json
  | .ok a => okJ (f a)
  | .error e => errJ e

end E3fpVerif
