import E3fpVerif.Codec
import E3fpVerif.Model.Batch
namespace E3fpVerif
open Lean

def batchOp (op : String) (j : Json) : Except String Json := do
  match op with
  | "batch.collect" =>
    let outs ← jList (jOpt (jList jStr)) (← jField j "outcomes")
    return okJ (Json.arr ((collect outs).map Json.str).toArray)
  | "batch.files" =>
    -- the output files of a batch run with the save option: `jobs` = (output path, content a clean run writes | null for a
    -- failing input) in processing order, `fs` = the files present before the run
    let overwrite ← jBool (← jField j "overwrite")
    let jobs ← jList (jPair jStr (jOpt jStr)) (← jField j "jobs")
    let fs ← jList (jPair jStr jStr) (← jField j "fs")
    let out := batchFiles overwrite jobs fs
    let paths := (out.map Prod.fst).foldl (fun acc p => if acc.contains p then acc else acc ++ [p]) ([] : List String)
    return okJ (Json.arr (paths.map (fun p => Json.arr #[Json.str p, Json.str ((fsGet out p).getD "")])).toArray)
  | _ => .error s!"unknown op {op}"

end E3fpVerif
