import E3fpVerif.Codec
import E3fpVerif.Model.Batch
namespace E3fpVerif
open Lean

def batchOp (op : String) (j : Json) : Except String Json := do
  match op with
  | "batch.collect" =>
    let outs ← jList (jOpt (jList jStr)) (← jField j "outcomes")
    return okJ (Json.arr ((collect outs).map Json.str).toArray)
  | _ => .error s!"unknown op {op}"

end E3fpVerif
