import E3fpVerif.Codec
import E3fpVerif.Model.Config
import E3fpVerif.Model.ConfigState
import E3fpVerif.Gen.Defaults
namespace E3fpVerif
open Lean

def jCVal (j : Json) : Except String CVal := do
  if let .ok _ := j.getObjVal? "none" then return .none
  if let .ok v := j.getObjVal? "bool" then return .bool (← jBool v)
  if let .ok v := j.getObjVal? "int" then return .int (← jInt v)
  if let .ok v := j.getObjVal? "float" then return .float (← jStr v)
  if let .ok v := j.getObjVal? "str" then return .str (← jStr v)
  .error "bad cval"

def cvalJ : CVal → Json
  | .none => Json.mkObj [("none", Json.bool true)]
  | .bool b => Json.mkObj [("bool", Json.bool b)]
  | .int i => Json.mkObj [("int", Json.num i)]
  | .float r => Json.mkObj [("float", Json.str r)]
  | .str s => Json.mkObj [("str", Json.str s)]

def configOp (op : String) (j : Json) : Except String Json := do
  match op with
  | "cfg.roundtrip" =>
    let vs ← jList jCVal (← jField j "vals")
    return okJ (Json.arr ((vs.map (fun v => cvalJ (parseVal (showVal v)))).toArray))
  | "cfg.hist" =>
    -- a history on the parameter state; the packaged defaults are the table regenerated from defaults.cfg
    let packaged : CTable := Gen.cfgTable.map (fun t => ((t.1, t.2.1), t.2.2))
    let jEntry := fun (e : Json) => do
      match ← jArr e with
      | [sec, opt, v] => return (((← jStr sec), (← jStr opt)), (← jCVal v))
      | _ => .error "entry expected"
    let ops ← (← jArr (← jField j "ops")).mapM (fun o => do
      match ← jStr (← jField o "o") with
      | "derive" => return CfgOp.derive (← jStr (← jField o "sec")) (← jList (jPair jStr jCVal) (← jField o "kv"))
      | "read" => return CfgOp.read (← jList jEntry (← jField o "user")) (← jBool (← jField o "fill"))
      | "get_default" => return CfgOp.getDefault ((← jStr (← jField o "sec")), (← jStr (← jField o "opt")))
      | s => .error s!"bad cfg op {s}")
    let (_, out) := cfgRun ⟨packaged, packaged⟩ ops
    return okJ (Json.arr (out.map (fun a => match a with
      | .table t => Json.arr (t.map (fun e => Json.arr #[Json.str e.1.1, Json.str e.1.2, cvalJ e.2])).toArray
      | .val v => (match v with | some x => cvalJ x | none => Json.null)
      | .unit => Json.null)).toArray)
  | _ => .error s!"unknown op {op}"

end E3fpVerif
