import E3fpVerif.Codec
import E3fpVerif.Model.Config
namespace E3fpVerif
open Lean

def jCVal (j : Json) : Except String CVal := do
  if let .ok _ := j.getObjVal? "none" then return .none
  if let .ok v := j.getObjVal? "bool" then return .bool (← jBool v)
  if let .ok v := j.getObjVal? "int" then return .int (← jInt v)
  if let .ok v := j.getObjVal? "float" then return .float (← jStr v)
  if let .ok v := j.getObjVal? "str" then return .str (← jStr v)
  .error "bad cval"

def cvalJ : CVal → Json
  | .none => Json.mkObj [("none", Json.bool true)]
  | .bool b => Json.mkObj [("bool", Json.bool b)]
  | .int i => Json.mkObj [("int", Json.num i)]
  | .float r => Json.mkObj [("float", Json.str r)]
  | .str s => Json.mkObj [("str", Json.str s)]

def configOp (op : String) (j : Json) : Except String Json := do
  match op with
  | "cfg.roundtrip" =>
    let vs ← jList jCVal (← jField j "vals")
    return okJ (Json.arr ((vs.map (fun v => cvalJ (parseVal (showVal v)))).toArray))
  | _ => .error s!"unknown op {op}"

end E3fpVerif
