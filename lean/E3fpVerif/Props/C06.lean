import E3fpVerif.Model.Metrics
import E3fpVerif.Model.MetricsDispatch
import E3fpVerif.Lemmas.MergeSD
import E3fpVerif.Lemmas.Binary
import E3fpVerif.Lemmas.Dense
import E3fpVerif.Lemmas.FpRows
import E3fpVerif.Lemmas.Dispatch
import E3fpVerif.Props.C05
/-!
# C06 — similarity measures equal their definitions in every representation

Helper lemmas live in `Lemmas/MergeSD.lean` (merge kernel, `sortRow`, `soergelDef` with an empty
operand), `Lemmas/Binary.lean` (indicator sums, intersection counts, 0/1 rows), `Lemmas/Dense.lean`
(the dense Soergel loop), `Lemmas/FpRows.lean` (count dictionaries as rows) and `Lemmas/Dispatch.lean`
(the public dispatching functions unfolded, rows of a fingerprint in a database, 0/1 rows with explicit
zeros, empty rows); all in namespace `E3fpVerif.C06L`.  Section 10 is about the calling forms of the
public functions; its real-number capstone (`routes_agree_real`) is in `Props/C06Real.lean`.
-/
namespace E3fpVerif.Props.C06
open E3fpVerif E3fpVerif.C06L

/-- a zero denominator scores 0 (never NaN, never an error) in the generated ratio expressions -/
theorem divNan_zero (a : Rat) : Gen.divNan a 0 = 0 := by simp [Gen.divNan]

/-! ## 1. the sparse Soergel merge kernel -/

/-- recursive specification (see `C06L.mergeSD_spec_rec`): on rows with strictly ascending columns
and non-negative values, `mergeSD x y = (Σ_{i∈cols} |x_i − y_i|, Σ_{i∈cols} max x_i y_i)`, `cols` the
merge of the two column lists -/
theorem mergeSD_spec_rec (x y : Row) (hx : SortedRow x) (hy : SortedRow y)
    (nx : NonnegRow x) (ny : NonnegRow y) :
    mergeSD x y = (colSumAbs x y (mergeCols (x.map Prod.fst) (y.map Prod.fst)),
                   colSumMax x y (mergeCols (x.map Prod.fst) (y.map Prod.fst))) :=
  C06L.mergeSD_spec_rec x y hx hy nx ny

/-- the merged column list is `unionCols` -/
theorem unionCols_eq_mergeCols (x y : Row) (hx : SortedRow x) (hy : SortedRow y) :
    unionCols x y = mergeCols (x.map Prod.fst) (y.map Prod.fst) :=
  C06L.unionCols_eq_mergeCols x y hx hy

/-- **`mergeSD_spec`** -/
theorem mergeSD_spec (x y : Row)
    (hx : (x.map Prod.fst).Pairwise (· < ·)) (hy : (y.map Prod.fst).Pairwise (· < ·))
    (nx : ∀ p ∈ x, 0 ≤ p.2) (ny : ∀ p ∈ y, 0 ≤ p.2) :
    (mergeSD x y).1 = sumQ ((unionCols x y).map (fun i => absQ (rowVal x i - rowVal y i))) ∧
    (mergeSD x y).2 = sumQ ((unionCols x y).map (fun i => maxQ (rowVal x i) (rowVal y i))) :=
  C06L.mergeSD_spec x y hx hy nx ny

example : mergeSD [(0, 2), (3, 1)] [(3, 4), (5, 1)] = (6, 7) := by
  have h := mergeSD_spec [(0, 2), (3, 1)] [(3, 4), (5, 1)] (by decide) (by decide)
    (by intro p hp; simp at hp; rcases hp with rfl | rfl <;> grind)
    (by intro p hp; simp at hp; rcases hp with rfl | rfl <;> grind)
  simp [mergeSD]; grind

/-- The non-negativity hypothesis cannot be dropped: the kernel adds an unmatched value as it stands,
the definition takes its absolute value.  (The implementation is only meant for count matrices.) -/
theorem mergeSD_spec_false_for_negative :
    ¬ ((mergeSD [] [(0, -1)]).1
        = sumQ ((unionCols [] [(0, -1)]).map (fun i => absQ (rowVal [] i - rowVal [(0, -1)] i)))) := by
  simp [mergeSD, unionCols, uniq, insertU, sumQ, rowVal, lookupQ, absQ]
  grind

/-- sorting a row that is already sorted is the identity -/
theorem sortRow_of_sorted (r : Row) (h : (r.map Prod.fst).Pairwise (· < ·)) : sortRow r = r :=
  C06L.sortRow_of_sorted r h

example : sortRow [(0, 2), (3, 1)] = [(0, 2), (3, 1)] := sortRow_of_sorted _ (by decide)

/-- **sparse Soergel = definition** on non-empty sorted duplicate-free non-negative rows -/
theorem arrSoergelSparse_eq_def (x y : Row) (ex : x ≠ []) (ey : y ≠ [])
    (hx : SortedRow x) (hy : SortedRow y) (nx : NonnegRow x) (ny : NonnegRow y) :
    arrSoergelSparse x y = soergelDef x y := by
  unfold arrSoergelSparse
  rw [if_neg (by simp [ex, ey]), C06L.sortRow_of_sorted x hx, C06L.sortRow_of_sorted y hy,
    soergelDef_eq]
  have h := C06L.mergeSD_spec x y hx hy nx ny
  simp only [h.1, h.2]
  rfl

example : arrSoergelSparse [(0, 2), (3, 1)] [(3, 4), (5, 1)] = soergelDef [(0, 2), (3, 1)] [(3, 4), (5, 1)] :=
  arrSoergelSparse_eq_def _ _ (by simp) (by simp) (by decide) (by decide)
    (by intro p hp; simp at hp; rcases hp with rfl | rfl <;> grind)
    (by intro p hp; simp at hp; rcases hp with rfl | rfl <;> grind)

/-- with an empty operand the definition is 0 when the values are non-negative … -/
theorem soergelDef_nil_left (y : Row) (ny : ∀ p ∈ y, 0 ≤ p.2) : soergelDef [] y = 0 :=
  C06L.soergelDef_nil_left y ny
theorem soergelDef_nil_right (x : Row) (nx : ∀ p ∈ x, 0 ≤ p.2) : soergelDef x [] = 0 :=
  C06L.soergelDef_nil_right x nx
/-- … and so is the sparse route, unconditionally -/
theorem arrSoergelSparse_nil_left (y : Row) : arrSoergelSparse [] y = 0 := by simp [arrSoergelSparse]
theorem arrSoergelSparse_nil_right (x : Row) : arrSoergelSparse x [] = 0 := by simp [arrSoergelSparse]

/-- sparse Soergel = definition on all sorted duplicate-free non-negative rows, empty or not -/
theorem arrSoergelSparse_eq_def_all (x y : Row)
    (hx : SortedRow x) (hy : SortedRow y) (nx : NonnegRow x) (ny : NonnegRow y) :
    arrSoergelSparse x y = soergelDef x y := by
  by_cases ex : x = []
  · subst ex; rw [arrSoergelSparse_nil_left, C06L.soergelDef_nil_left y ny]
  · by_cases ey : y = []
    · subst ey; rw [arrSoergelSparse_nil_right, C06L.soergelDef_nil_right x nx]
    · exact arrSoergelSparse_eq_def x y ex ey hx hy nx ny

/-! ## 2. symmetry -/

theorem mergeSD_symm (x y : Row) : mergeSD x y = mergeSD y x := C06L.mergeSD_symm x y

theorem unionCols_symm (x y : Row) : unionCols x y = unionCols y x := unionCols_comm x y

theorem soergelDef_symm (x y : Row) : soergelDef x y = soergelDef y x := C06L.soergelDef_symm x y

theorem arrSoergelSparse_symm (x y : Row) : arrSoergelSparse x y = arrSoergelSparse y x := by
  unfold arrSoergelSparse
  rw [C06L.mergeSD_symm (sortRow x) (sortRow y)]
  by_cases h : x = [] ∨ y = []
  · rw [if_pos h, if_pos (Or.symm h)]
  · rw [if_neg h, if_neg (fun h' => h (Or.symm h'))]

theorem strictAsc_rowSupport (x : Row) : StrictAsc (rowSupport x) :=
  strictAsc_filter (strictAsc_rowCols x) _

theorem tanimotoDef_symm (x y : Row) : tanimotoDef x y = tanimotoDef y x := by
  unfold tanimotoDef
  simp only [interCount_comm _ _ (strictAsc_rowSupport x) (strictAsc_rowSupport y),
    Nat.add_comm (rowSupport x).length]

theorem diceDef_symm (x y : Row) : diceDef x y = diceDef y x := by
  unfold diceDef
  simp only [interCount_comm _ _ (strictAsc_rowSupport x) (strictAsc_rowSupport y),
    Nat.add_comm (rowSupport x).length]

theorem dotQ_symm (x y : Row) : dotQ x y = dotQ y x := by
  unfold dotQ
  rw [unionCols_comm x y]
  congr 1
  exact List.map_congr_left (fun k _ => Rat.mul_comm _ _)

theorem cosineDef_symm (x y : Row) :
    (cosineDef x y).1 = (cosineDef y x).1 ∧ (cosineDef x y).2 = (cosineDef y x).2 := by
  unfold cosineDef
  exact ⟨dotQ_symm x y, Rat.mul_comm _ _⟩

theorem pearsonDef_symm (b : Nat) (x y : Row) : pearsonDef b x y = pearsonDef b y x := by
  unfold pearsonDef
  simp only [dotQ_symm x y]
  refine Prod.ext ?_ ?_ <;> simp only <;> grind

theorem arrPearson_symm (b : Nat) (x y : Row) : arrPearson b x y = arrPearson b y x := by
  unfold arrPearson
  simp only [dotQ_symm x y]
  refine Prod.ext ?_ ?_ <;> simp only <;> grind

/-! ## 3. fingerprint Tanimoto / Dice: symmetry, range, self-similarity, empty operands -/

theorem fpTanimoto_symm (f g : Fp) (hf : StrictAsc f.idx) (hg : StrictAsc g.idx) :
    fpTanimoto f g = fpTanimoto g f := by
  unfold fpTanimoto Gen.fpTanimotoExpr
  rw [interCount_comm _ _ hf hg, Rat.add_comm]

theorem fpDice_symm (f g : Fp) (hf : StrictAsc f.idx) (hg : StrictAsc g.idx) :
    fpDice f g = fpDice g f := by
  unfold fpDice Gen.fpDiceExpr
  rw [interCount_comm _ _ hf hg, Rat.add_comm]

example : fpTanimoto ⟨.bit, 8, 0, [1, 2], []⟩ ⟨.bit, 8, 0, [2, 5], []⟩
    = fpTanimoto ⟨.bit, 8, 0, [2, 5], []⟩ ⟨.bit, 8, 0, [1, 2], []⟩ :=
  fpTanimoto_symm _ _ (by decide) (by decide)

/-- `nan_to_num(a / b)` lies in `[0, 1]` whenever `0 ≤ a ≤ b` -/
theorem divNan_range (a b : Rat) (h0 : 0 ≤ a) (h : a ≤ b) :
    0 ≤ Gen.divNan a b ∧ Gen.divNan a b ≤ 1 := by
  unfold Gen.divNan
  by_cases hb : b = 0
  · rw [if_pos hb]; grind
  · rw [if_neg hb]
    have hpos : 0 < b := by grind
    constructor
    · rw [Rat.div_def]
      exact Rat.mul_nonneg h0 (Rat.le_of_lt (Rat.inv_pos.2 hpos))
    · apply Rat.not_lt.1
      intro hlt
      have := (Rat.lt_div_iff hpos).1 hlt
      grind

theorem fpTanimoto_range (f g : Fp) (hf : StrictAsc f.idx) (hg : StrictAsc g.idx) :
    0 ≤ fpTanimoto f g ∧ fpTanimoto f g ≤ 1 := by
  unfold fpTanimoto Gen.fpTanimotoExpr
  have h1 : interCount f.idx g.idx ≤ f.idx.length := interCount_le_left _ _
  have h2 : interCount f.idx g.idx ≤ g.idx.length := interCount_le_right _ _ hf hg
  have h1' := Rat.natCast_le_natCast.2 h1
  have h2' := Rat.natCast_le_natCast.2 h2
  have h0 : (0 : Rat) ≤ (interCount f.idx g.idx : Nat) := Rat.natCast_nonneg
  apply divNan_range _ _ h0
  grind

example : 0 ≤ fpTanimoto ⟨.bit, 8, 0, [1, 2], []⟩ ⟨.bit, 8, 0, [2, 5], []⟩ ∧
    fpTanimoto ⟨.bit, 8, 0, [1, 2], []⟩ ⟨.bit, 8, 0, [2, 5], []⟩ ≤ 1 :=
  fpTanimoto_range _ _ (by decide) (by decide)

theorem fpDice_range (f g : Fp) (hf : StrictAsc f.idx) (hg : StrictAsc g.idx) :
    0 ≤ fpDice f g ∧ fpDice f g ≤ 1 := by
  unfold fpDice Gen.fpDiceExpr
  have h1 : interCount f.idx g.idx ≤ f.idx.length := interCount_le_left _ _
  have h2 : interCount f.idx g.idx ≤ g.idx.length := interCount_le_right _ _ hf hg
  have h1' := Rat.natCast_le_natCast.2 h1
  have h2' := Rat.natCast_le_natCast.2 h2
  have h0 : (0 : Rat) ≤ (interCount f.idx g.idx : Nat) := Rat.natCast_nonneg
  apply divNan_range <;> grind

/-- self-similarity (only non-emptiness is needed) -/
theorem fpTanimoto_self (f : Fp) (h : f.idx ≠ []) : fpTanimoto f f = 1 := by
  unfold fpTanimoto Gen.fpTanimotoExpr Gen.divNan
  rw [interCount_self]
  have : f.idx.length ≠ 0 := by simpa using h
  have : (f.idx.length : Rat) ≠ 0 := by simpa using h
  grind

theorem fpDice_self (f : Fp) (h : f.idx ≠ []) : fpDice f f = 1 := by
  unfold fpDice Gen.fpDiceExpr Gen.divNan
  rw [interCount_self]
  have : (f.idx.length : Rat) ≠ 0 := by simpa using h
  grind

example : fpTanimoto ⟨.bit, 8, 0, [1, 2], []⟩ ⟨.bit, 8, 0, [1, 2], []⟩ = 1 :=
  fpTanimoto_self _ (by simp)

/-- all fingerprint measures are 0 (numerator and radicand 0 for the two root measures) when both
operands are empty -/
theorem zero_is_zero (f g : Fp) (hf : f.idx = []) (hg : g.idx = []) :
    fpTanimoto f g = 0 ∧ fpDice f g = 0 ∧ fpSoergel f g = 0 ∧
    fpCosine f g = (0, 0) ∧ fpPearson f g = (0, 0) := by
  have hT : fpTanimoto f g = 0 := by
    simp [fpTanimoto, Gen.fpTanimotoExpr, Gen.divNan, interCount, hf, hg]; grind
  refine ⟨hT, ?_, ?_, ?_, ?_⟩
  · simp [fpDice, Gen.fpDiceExpr, Gen.divNan, interCount, hf, hg]; grind
  · unfold fpSoergel
    split
    · exact hT
    · simp [hf, hg, uniq]
  · simp [fpCosine, fpDot, fpSq, hf, hg, sumQ]
  · simp [fpPearson, fpDot, fpSq, fpSumC, hf, hg, sumQ]; grind

/-- the same for the matrix measures and the definitions on two empty rows -/
theorem zero_is_zero_rows :
    arrTanimoto [] [] = 0 ∧ arrDice [] [] = 0 ∧ arrSoergelSparse [] [] = 0 ∧
    arrSoergelDense [] [] = 0 ∧ arrCosine [] [] = (0, 0) ∧
    tanimotoDef [] [] = 0 ∧ diceDef [] [] = 0 ∧ soergelDef [] [] = 0 ∧ cosineDef [] [] = (0, 0) := by
  have hd : dotQ [] [] = 0 := by simp [dotQ, unionCols, uniq, sumQ]
  have hs : rowSum [] = 0 := by simp [rowSum, rowCols, uniq, sumQ]
  refine ⟨?_, ?_, ?_, ?_, ?_, ?_, ?_, ?_, ?_⟩
  · simp [arrTanimoto, Gen.arrTanimotoExpr, Gen.divNan, hd, hs]; grind
  · simp [arrDice, Gen.arrDiceExpr, Gen.divNan, hd, hs]; grind
  · simp [arrSoergelSparse]
  · simp [arrSoergelDense]
  · simp [arrCosine, hd]
  · simp [tanimotoDef, divNan, rowSupport, rowCols, uniq, interCount]
  · simp [diceDef, divNan, rowSupport, rowCols, uniq]
  · exact C06L.soergelDef_nil_left [] (fun p hp => by cases hp)
  · simp [cosineDef, hd]

/-! ## 4. Soergel on bit rows is Tanimoto -/

/-- on rows whose stored values are all 1 the Soergel definition is the Tanimoto definition
(sortedness of the columns is not needed: the definitions work on `uniq` of the columns) -/
theorem soergel_binary (x y : Row) (hx : BinaryRow x) (hy : BinaryRow y) :
    soergelDef x y = tanimotoDef x y := by
  rw [soergelDef_eq, colSumMax_binary x y hx hy, colSumAbs_binary x y hx hy,
    tanimotoDef_binary x y hx hy]
  unfold Gen.fpTanimotoExpr Gen.divNan
  split <;> grind

example : soergelDef [(1, 1), (2, 1)] [(2, 1), (5, 1)] = tanimotoDef [(1, 1), (2, 1)] [(2, 1), (5, 1)] :=
  soergel_binary _ _ (by intro p hp; simp at hp; rcases hp with rfl | rfl <;> rfl)
    (by intro p hp; simp at hp; rcases hp with rfl | rfl <;> rfl)

/-! ## 5. fingerprint Tanimoto = definition on the rows of the fingerprints -/

/-- the matrix row of a bit fingerprint -/
def bitRow (f : Fp) : Row := f.idx.map (fun i => (i, (1 : Rat)))

theorem binaryRow_bitRow (f : Fp) : BinaryRow (bitRow f) := by
  intro p hp
  unfold bitRow at hp
  obtain ⟨i, _, rfl⟩ := List.mem_map.1 hp
  rfl

theorem rowCols_bitRow (f : Fp) (h : StrictAsc f.idx) : rowCols (bitRow f) = f.idx := by
  unfold rowCols bitRow
  rw [List.map_map]
  have : (Prod.fst ∘ fun i : Nat => (i, (1 : Rat))) = id := rfl
  rw [this, List.map_id, uniq_of_strictAsc _ h]

theorem fp_eq_def_tanimoto (f g : Fp) (hf : f.WF) (hg : g.WF) :
    fpTanimoto f g = tanimotoDef (bitRow f) (bitRow g) := by
  rw [tanimotoDef_binary _ _ (binaryRow_bitRow f) (binaryRow_bitRow g),
    rowCols_bitRow f hf.1, rowCols_bitRow g hg.1]
  rfl

theorem diceDef_binary (x y : Row) (hx : BinaryRow x) (hy : BinaryRow y) :
    diceDef x y = Gen.fpDiceExpr (interCount (rowCols x) (rowCols y))
      (rowCols x).length (rowCols y).length := by
  unfold diceDef Gen.fpDiceExpr divNan Gen.divNan
  simp only [rowSupport_binary x hx, rowSupport_binary y hy, Rat.natCast_add]

theorem fp_eq_def_dice (f g : Fp) (hf : f.WF) (hg : g.WF) :
    fpDice f g = diceDef (bitRow f) (bitRow g) := by
  rw [diceDef_binary _ _ (binaryRow_bitRow f) (binaryRow_bitRow g),
    rowCols_bitRow f hf.1, rowCols_bitRow g hg.1]
  rfl

/-- bit fingerprints: `fpSoergel` is the Soergel definition on the rows as well -/
theorem fp_eq_def_soergel_bit (f g : Fp) (hf : f.WF) (hg : g.WF)
    (kf : f.kind = .bit) (kg : g.kind = .bit) :
    fpSoergel f g = soergelDef (bitRow f) (bitRow g) := by
  unfold fpSoergel
  rw [if_pos ⟨kf, kg⟩, soergel_binary _ _ (binaryRow_bitRow f) (binaryRow_bitRow g)]
  exact fp_eq_def_tanimoto f g hf hg

theorem wf_example_bit (l : List Nat) (h1 : StrictAsc l) (h2 : ∀ i ∈ l, i < 8) :
    Fp.WF ⟨.bit, 8, 0, l, []⟩ :=
  ⟨h1, h2, fun _ => rfl, fun h => absurd rfl h⟩

example : fpTanimoto ⟨.bit, 8, 0, [1, 2], []⟩ ⟨.bit, 8, 0, [2, 5], []⟩
    = tanimotoDef (bitRow ⟨.bit, 8, 0, [1, 2], []⟩) (bitRow ⟨.bit, 8, 0, [2, 5], []⟩) :=
  fp_eq_def_tanimoto _ _ (wf_example_bit _ (by decide) (by decide)) (wf_example_bit _ (by decide) (by decide))

/-! ## 6. matrix Tanimoto / Dice = definition on bit rows -/

/-- `X·Yᵀ = |X ∩ Y|` and row sum `= |X|` on bit rows -/
theorem dotQ_binary (x y : Row) (hx : BinaryRow x) (hy : BinaryRow y) :
    dotQ x y = (interCount (rowSupport x) (rowSupport y) : Nat) := by
  rw [rowSupport_binary x hx, rowSupport_binary y hy]; exact C06L.dotQ_binary x y hx hy

theorem rowSum_binary (x : Row) (hx : BinaryRow x) : rowSum x = ((rowSupport x).length : Nat) := by
  rw [rowSupport_binary x hx]; exact C06L.rowSum_binary x hx

theorem arrTanimoto_eq_def (x y : Row) (hx : BinaryRow x) (hy : BinaryRow y) :
    arrTanimoto x y = tanimotoDef x y := by
  rw [tanimotoDef_binary x y hx hy]
  unfold arrTanimoto
  rw [C06L.dotQ_binary x y hx hy, C06L.rowSum_binary x hx, C06L.rowSum_binary y hy]
  rfl

theorem arrDice_eq_def (x y : Row) (hx : BinaryRow x) (hy : BinaryRow y) :
    arrDice x y = diceDef x y := by
  rw [diceDef_binary x y hx hy]
  unfold arrDice
  rw [C06L.dotQ_binary x y hx hy, C06L.rowSum_binary x hx, C06L.rowSum_binary y hy]
  rfl

example : arrTanimoto [(1, 1), (2, 1)] [(2, 1), (5, 1)] = tanimotoDef [(1, 1), (2, 1)] [(2, 1), (5, 1)] :=
  arrTanimoto_eq_def _ _ (by intro p hp; simp at hp; rcases hp with rfl | rfl <;> rfl)
    (by intro p hp; simp at hp; rcases hp with rfl | rfl <;> rfl)

/-- all three routes agree on bit fingerprints -/
theorem tanimoto_three_routes (f g : Fp) (hf : f.WF) (hg : g.WF) :
    fpTanimoto f g = arrTanimoto (bitRow f) (bitRow g) ∧
    arrTanimoto (bitRow f) (bitRow g) = tanimotoDef (bitRow f) (bitRow g) := by
  have h := arrTanimoto_eq_def _ _ (binaryRow_bitRow f) (binaryRow_bitRow g)
  exact ⟨(fp_eq_def_tanimoto f g hf hg).trans h.symm, h⟩

/-! ## 7. self-similarity -/

theorem colSumAbs_self (x : Row) (cols : List Nat) : colSumAbs x x cols = 0 := by
  unfold colSumAbs
  have e : cols.map (fun i => absQ (rowVal x i - rowVal x i)) = cols.map (fun _ => (0 : Rat)) :=
    List.map_congr_left (fun k _ => absQ_self _)
  rw [e, sumQ_map_zero]

/-- Soergel self-similarity is 1 for a non-negative row with a positive entry -/
theorem soergelDef_self_one (x : Row) (nx : NonnegRow x) (k : Nat) (hk : 0 < rowVal x k) :
    soergelDef x x = 1 := by
  rw [soergelDef_eq, colSumAbs_self]
  have hmem : k ∈ unionCols x x := by
    apply Classical.byContradiction
    intro hn
    have : k ∉ x.map Prod.fst := by
      intro h; apply hn; unfold unionCols; rw [mem_uniq]; exact List.mem_append_left _ h
    rw [rowVal_of_not_mem x k this] at hk
    exact Rat.lt_irrefl hk
  have hpos : 0 < colSumMax x x (unionCols x x) := by
    unfold colSumMax
    apply sumQ_map_pos _ _ _ k hmem
    · rw [maxQ_self]; exact hk
    · intro a _; rw [maxQ_self]; exact rowVal_nonneg x nx a
  rw [if_neg (Rat.ne_of_gt hpos)]
  grind

theorem rowVal_of_mem_sorted (r : Row) (h : SortedRow r) (p : Nat × Rat) (hp : p ∈ r) :
    rowVal r p.1 = p.2 := by
  induction r with
  | nil => cases hp
  | cons q qs ih =>
    obtain ⟨j, w⟩ := q
    rcases List.mem_cons.1 hp with rfl | hp'
    · exact rowVal_cons_self _ _ _
    · have := h.head_lt p.1 (List.mem_map_of_mem hp')
      rw [rowVal_cons_ne j p.1 w qs (by simp only at this; omega)]
      exact ih h.tail hp'

/-- the same for a sorted duplicate-free row with a positive stored value; both routes -/
theorem self_one (x : Row) (hx : SortedRow x) (nx : NonnegRow x) (p : Nat × Rat) (hp : p ∈ x)
    (hpos : 0 < p.2) : soergelDef x x = 1 ∧ arrSoergelSparse x x = 1 := by
  have h : soergelDef x x = 1 :=
    soergelDef_self_one x nx p.1 (by rw [rowVal_of_mem_sorted x hx p hp]; exact hpos)
  refine ⟨h, ?_⟩
  rw [arrSoergelSparse_eq_def_all x x hx hx nx nx, h]

example : soergelDef [(0, 2), (3, 1)] [(0, 2), (3, 1)] = 1 ∧ arrSoergelSparse [(0, 2), (3, 1)] [(0, 2), (3, 1)] = 1 :=
  self_one _ (by decide) (by intro p hp; simp at hp; rcases hp with rfl | rfl <;> grind)
    (0, 2) (by simp) (by grind)

/-- cosine self-similarity: `num² = rad`, i.e. `num / sqrt rad = 1` when `num > 0` -/
theorem cosine_self (x : Row) : (cosineDef x x).1 ^ 2 = (cosineDef x x).2 ∧ 0 ≤ (cosineDef x x).1 := by
  unfold cosineDef
  refine ⟨by grind, ?_⟩
  unfold dotQ
  apply sumQ_map_nonneg
  intro a _
  have := Rat.nonneg_total (rowVal x a)
  rcases this with h | h
  · exact Rat.mul_nonneg h h
  · have := Rat.mul_nonneg h h; grind

/-! ## 8. the two Pearson normalisations give the same ratio -/

/-- `num² / rad` is the same with the `b − 1` (sparse route) and the `b` (definition) normalisation -/
theorem pearson_routes_agree (b : Nat) (hb : 2 ≤ b) (x y : Row) :
    (arrPearson b x y).1 ^ 2 * (pearsonDef b x y).2 = (pearsonDef b x y).1 ^ 2 * (arrPearson b x y).2 := by
  have h0 : (b : Rat) ≠ 0 := by
    intro h; have := Rat.natCast_eq_zero_iff.1 h; omega
  have h1 : (b : Rat) - 1 ≠ 0 := by
    intro h
    have : (b : Rat) = ((1 : Nat) : Rat) := by simp; grind
    have := Rat.natCast_inj.1 this; omega
  unfold arrPearson pearsonDef
  simp only
  generalize dotQ x y = dxy
  generalize dotQ x x = dxx
  generalize dotQ y y = dyy
  generalize rowSum x = sx
  generalize rowSum y = sy
  generalize (b : Rat) = n at *
  grind

/-- and the signs of the numerators agree, so the two correlation values are equal -/
theorem pearson_num_sign (b : Nat) (hb : 2 ≤ b) (x y : Row) :
    (arrPearson b x y).1 = (pearsonDef b x y).1 * ((b : Rat) / ((b : Rat) - 1)) := by
  have h0 : (b : Rat) ≠ 0 := by
    intro h; have := Rat.natCast_eq_zero_iff.1 h; omega
  have h1 : (b : Rat) - 1 ≠ 0 := by
    intro h
    have : (b : Rat) = ((1 : Nat) : Rat) := by simp; grind
    have := Rat.natCast_inj.1 this; omega
  unfold arrPearson pearsonDef
  simp only
  generalize (b : Rat) = n at *
  grind

example : (arrPearson 4 [(0, 2), (3, 1)] [(3, 4)]).1 ^ 2 * (pearsonDef 4 [(0, 2), (3, 1)] [(3, 4)]).2
    = (pearsonDef 4 [(0, 2), (3, 1)] [(3, 4)]).1 ^ 2 * (arrPearson 4 [(0, 2), (3, 1)] [(3, 4)]).2 :=
  pearson_routes_agree 4 (by decide) _ _

/-! ## 9. further routes: dense Soergel, and the count-dictionary measures -/

/-- the dense double loop equals the definition on the dense forms of two rows (any sign, any order,
duplicates resolved by first entry as in `rowVal`) -/
theorem arrSoergelDense_eq_def (b : Nat) (x y : Row)
    (hx : ∀ p ∈ x, p.1 < b) (hy : ∀ p ∈ y, p.1 < b) :
    arrSoergelDense ((List.range b).map (rowVal x)) ((List.range b).map (rowVal y)) = soergelDef x y :=
  C06L.arrSoergelDense_eq_def b x y hx hy

/-- dense and sparse Soergel routes agree on sorted duplicate-free non-negative rows -/
theorem soergel_dense_sparse_agree (b : Nat) (x y : Row)
    (hx : SortedRow x) (hy : SortedRow y) (nx : NonnegRow x) (ny : NonnegRow y)
    (bx : ∀ p ∈ x, p.1 < b) (bY : ∀ p ∈ y, p.1 < b) :
    arrSoergelDense ((List.range b).map (rowVal x)) ((List.range b).map (rowVal y))
      = arrSoergelSparse x y := by
  rw [arrSoergelDense_eq_def b x y bx bY, arrSoergelSparse_eq_def_all x y hx hy nx ny]

example : arrSoergelDense ((List.range 6).map (rowVal [(0, 2), (3, 1)])) ((List.range 6).map (rowVal [(3, 4), (5, 1)]))
    = arrSoergelSparse [(0, 2), (3, 1)] [(3, 4), (5, 1)] :=
  soergel_dense_sparse_agree 6 _ _ (by decide) (by decide)
    (by intro p hp; simp at hp; rcases hp with rfl | rfl <;> grind)
    (by intro p hp; simp at hp; rcases hp with rfl | rfl <;> grind)
    (by intro p hp; simp at hp; rcases hp with rfl | rfl <;> simp)
    (by intro p hp; simp at hp; rcases hp with rfl | rfl <;> simp)

/-- with a negative value the sparse route leaves the definition (and hence the dense route) -/
theorem arrSoergelSparse_ne_def_negative :
    arrSoergelSparse [(0, 1)] [(1, -1)] = 0 ∧ soergelDef [(0, 1)] [(1, -1)] = -1 := by
  constructor
  · simp [arrSoergelSparse, sortRow, rowCols, uniq, insertU, mergeSD]
    grind
  · simp [soergelDef, unionCols, uniq, insertU, sumQ, rowVal, lookupQ, absQ, maxQ]
    grind

theorem arrCosine_eq_def (x y : Row) : arrCosine x y = cosineDef x y := rfl

/-- `fpCosine` is the cosine definition on the rows of the two fingerprints -/
theorem fp_eq_def_cosine (f g : Fp) (hf : f.WF) (hg : g.WF) :
    fpCosine f g = cosineDef (cntRow f) (cntRow g) := by
  unfold fpCosine cosineDef
  rw [fpDot_eq_dotQ f g hf hg, fpSq_eq_dotQ f hf, fpSq_eq_dotQ g hg]

/-- `fpPearson` is the Pearson definition on the rows, for fingerprints of equal length -/
theorem fp_eq_def_pearson (f g : Fp) (hf : f.WF) (hg : g.WF) (hb : f.bits = g.bits) :
    fpPearson f g = pearsonDef f.bits (cntRow f) (cntRow g) := by
  unfold fpPearson pearsonDef
  rw [fpDot_eq_dotQ f g hf hg, fpSq_eq_dotQ f hf, fpSq_eq_dotQ g hg, fpSumC_eq_rowSum f hf,
    fpSumC_eq_rowSum g hg, ← hb]

theorem bitRow_eq_cntRow (f : Fp) (h : f.kind = .bit) : bitRow f = cntRow f := (cntRow_bit f h).symm

/-- `fpSoergel` is the Soergel definition on the rows, whatever the kinds -/
theorem fp_eq_def_soergel (f g : Fp) (hf : f.WF) (hg : g.WF) :
    fpSoergel f g = soergelDef (cntRow f) (cntRow g) := by
  by_cases hk : f.kind = .bit ∧ g.kind = .bit
  · rw [fp_eq_def_soergel_bit f g hf hg hk.1 hk.2, bitRow_eq_cntRow f hk.1, bitRow_eq_cntRow g hk.2]
  · unfold fpSoergel
    rw [if_neg hk, soergelDef_eq]
    unfold colSumMax colSumAbs
    rw [unionCols_cntRow]
    have e1 : (uniq (f.idx ++ g.idx)).map (fun i => maxQ (rowVal (cntRow f) i) (rowVal (cntRow g) i))
        = (uniq (f.idx ++ g.idx)).map (fun i => maxQ (f.count i) (g.count i)) :=
      List.map_congr_left (fun k _ => by rw [rowVal_cntRow f hf, rowVal_cntRow g hg])
    have e2 : (uniq (f.idx ++ g.idx)).map (fun i => absQ (rowVal (cntRow f) i - rowVal (cntRow g) i))
        = (uniq (f.idx ++ g.idx)).map (fun i => absQ (f.count i - g.count i)) :=
      List.map_congr_left (fun k _ => by rw [rowVal_cntRow f hf, rowVal_cntRow g hg])
    rw [e1, e2]
    simp only
    by_cases hu : uniq (f.idx ++ g.idx) = []
    · rw [if_pos hu, hu]; simp [sumQ]
    · rw [if_neg hu]

theorem wf_example_count : Fp.WF ⟨.count, 8, 0, [1, 2], [(1, 3), (2, 1)]⟩ := by
  refine ⟨by decide, by decide, ?_, ?_⟩
  · intro h; exact absurd h (by decide)
  · intro _; rfl

example : fpSoergel ⟨.count, 8, 0, [1, 2], [(1, 3), (2, 1)]⟩ ⟨.bit, 8, 0, [2, 5], []⟩
    = soergelDef (cntRow ⟨.count, 8, 0, [1, 2], [(1, 3), (2, 1)]⟩) (cntRow ⟨.bit, 8, 0, [2, 5], []⟩) :=
  fp_eq_def_soergel _ _ wf_example_count (wf_example_bit _ (by decide) (by decide))

example : fpPearson ⟨.count, 8, 0, [1, 2], [(1, 3), (2, 1)]⟩ ⟨.bit, 8, 0, [2, 5], []⟩
    = pearsonDef 8 (cntRow ⟨.count, 8, 0, [1, 2], [(1, 3), (2, 1)]⟩) (cntRow ⟨.bit, 8, 0, [2, 5], []⟩) :=
  fp_eq_def_pearson _ _ wf_example_count (wf_example_bit _ (by decide) (by decide)) rfl


/-! ## the public dispatching functions (`metrics.__init__`) -/

/-- operands of different length are rejected, whatever their kinds and whichever measure -/
theorem dispatch_length_mismatch (m : Measure) (a b : Item) (h : a.bits ≠ b.bits) :
    metricDispatch m a (some b) = .error .bitsValue := by
  unfold metricDispatch checkPair
  simp only [bind, Except.bind]
  rw [if_pos h]
  rfl

/-- two fingerprints of equal length go to the pairwise formulas unchanged (no cast: the binary
measures read a count fingerprint through its index set) -/
theorem dispatch_fp_fp (m : Measure) (f g : Fp) (h : f.bits = g.bits) :
    metricDispatch m (.fp f) (some (.fp g)) = .ok (.inl (simFp m f g)) := by
  unfold metricDispatch checkPair checkItem
  have : ¬ (Item.fp f).bits ≠ (Item.fp g).bits := by simp [Item.bits, h]
  simp only [bind, Except.bind, this, ↓reduceIte, pure, Except.pure]
  cases m <;> rfl

/-! ## 10. the calling forms of the public functions

`metricDispatch m a (some b)` with at least one database operand is the matrix of the row measure over the
operands' rows (`C06L.itemRows`): a database contributes its rows, cast to the bit kind for Tanimoto and
Dice unless it is a bit database already (`C06L.dbRows`); a lone fingerprint contributes the one row of
the database it is wrapped into, which has the bit kind for Tanimoto/Dice and the fingerprint's own kind
for the other three.  Wrapping is never refused (`C06L.add_single`: the wrapper takes the level from the
fingerprint).  The only way a database operand can be refused is `from_array`'s column-length check during
the cast (`C06L.Castable`), which the representation invariant `Db.Inv` excludes. -/

/-- a database with rows that satisfies the invariant can be cast -/
theorem castable_of_inv (t : Option Kind) (d : Db) (h : d.Inv) : Castable t d := by
  cases t with
  | none => trivial
  | some k =>
    right
    intro c hc
    rw [h.col_length c hc, h.names_length]

/-- **fingerprint against database**: one row, its `j`-th entry the row measure of the wrapped
fingerprint's row against the `j`-th (cast) row of the database -/
theorem dispatch_fp_db (m : Measure) (f : Fp) (d : Db) (a : List Row) (ha : d.array = some a)
    (hb : f.bits = d.bits) (hc : Castable (measureCast m) d) :
    metricDispatch m (.fp f) (some (.db d)) =
      .ok (.inr [ (dbRows (measureCast m) d).map
        (fun s => simRows m f.bits (fpRow ((measureCast m).getD f.kind) f) s) ]) :=
  metricDispatch_matrix m (.fp f) (.db d) f.bits rfl (by simp [Item.bits, ha, hb]) (Or.inr rfl) trivial hc

/-- **database against fingerprint**: a one-column matrix -/
theorem dispatch_db_fp (m : Measure) (f : Fp) (d : Db) (a : List Row) (ha : d.array = some a)
    (hb : d.bits = f.bits) (hc : Castable (measureCast m) d) :
    metricDispatch m (.db d) (some (.fp f)) =
      .ok (.inr ((dbRows (measureCast m) d).map
        (fun r => [ simRows m d.bits r (fpRow ((measureCast m).getD f.kind) f) ]))) :=
  metricDispatch_matrix m (.db d) (.fp f) d.bits (by simp [Item.bits, ha]) (by simp [Item.bits, hb])
    (Or.inl rfl) hc trivial

/-- **database against database** -/
theorem dispatch_db_db (m : Measure) (d e : Db) (a a' : List Row) (ha : d.array = some a)
    (ha' : e.array = some a') (hb : d.bits = e.bits)
    (hc : Castable (measureCast m) d) (hc' : Castable (measureCast m) e) :
    metricDispatch m (.db d) (some (.db e)) =
      .ok (.inr ((dbRows (measureCast m) d).map (fun r =>
        (dbRows (measureCast m) e).map (fun s => simRows m d.bits r s)))) :=
  metricDispatch_matrix m (.db d) (.db e) d.bits (by simp [Item.bits, ha]) (by simp [Item.bits, ha', hb])
    (Or.inl rfl) hc hc'

/-- **a single database** (`B=None`) is compared with itself; a single fingerprint likewise -/
theorem dispatch_single (m : Measure) (d : Db) (a : List Row) (ha : d.array = some a)
    (hc : Castable (measureCast m) d) :
    metricDispatch m (.db d) none = metricDispatch m (.db d) (some (.db d)) := by
  rw [dispatch_db_db m d d a a ha ha rfl hc hc, metricDispatch_single_db m d a ha hc]

theorem dispatch_single_fp (m : Measure) (f : Fp) :
    metricDispatch m (.fp f) none = metricDispatch m (.fp f) (some (.fp f)) := by
  rw [dispatch_fp_fp m f f rfl, metricDispatch_single_fp]

/-- wrapping a lone fingerprint is never refused, whatever its level, kind or length: the wrapper creates
the database with the fingerprint's own level (so `add_fingerprints`' level check cannot fail) -/
theorem dispatch_wrap_accepts (k : Kind) (f : Fp) :
    (Db.new k f.level none).add [⟨f, none, []⟩] = (wrapDb k f, none) ∧
    (wrapDb k f).array = some [fpRow k f] ∧ (wrapDb k f).bits = f.bits :=
  ⟨add_single k f, rfl, rfl⟩

/-- a database without rows has no length: against a fingerprint it is a length mismatch -/
theorem dispatch_fp_emptydb (m : Measure) (f : Fp) (d : Db) (h : d.array = none) :
    metricDispatch m (.fp f) (some (.db d)) = .error .bitsValue ∧
    metricDispatch m (.db d) (some (.fp f)) = .error .bitsValue := by
  constructor <;> apply dispatch_length_mismatch <;> simp [Item.bits, h]

attribute [local instance] decEqExcept in
/-- `Castable` cannot be dropped for the binary measures: a count database whose property column has the
wrong length is refused by the cast (`from_array`'s check), although Soergel accepts it as it is.
Such a database violates `Db.Inv`; it cannot be built through the library's functions. -/
theorem dispatch_uncastable :
    let d : Db := { fpType := .count, level := 0, name := none, array := some [[(1, 2)]], bits := 8,
                    fpNames := [none], namesMap := [(none, [0])], props := [("p", [])] }
    metricDispatch .tanimoto (.db d) none = .error .value ∧
    metricDispatch .soergel (.db d) none = .ok (.inr [[.q 1]]) := by
  refine ⟨?_, ?_⟩ <;> decide +kernel

/-! ### databases built from fingerprints -/

/-- the cast asked for by the measure, on one row (`none`: no cast) -/
def castRowO (t : Option Kind) (r : Row) : Row :=
  match t with
  | none => r
  | some k => castRow k r

theorem castRow_idem (k : Kind) (r : Row) : castRow k (castRow k r) = castRow k r := by
  unfold castRow
  rw [List.map_map]
  exact List.map_congr_left (fun p _ => by simp [castVal_idem])

/-- an accepted `add_fingerprints` on a new database of kind `k`: the rows are the fingerprints' vectors
in the dtype of `k`; all fingerprints have the database's length and level; the invariant holds -/
theorem built_db (k : Kind) (lvl : Int) (nm : Option String) (fps : List FpIn)
    (hok : ((Db.new k lvl nm).add fps).2 = none) :
    ((Db.new k lvl nm).add fps).1.array = some (fps.map (fun x => fpRow k x.fp)) ∧
    ((Db.new k lvl nm).add fps).1.fpType = k ∧
    ((Db.new k lvl nm).add fps).1.Inv ∧
    (∀ x ∈ fps, x.fp.bits = ((Db.new k lvl nm).add fps).1.bits) ∧
    (∀ x ∈ fps, x.fp.level = lvl) := by
  obtain ⟨_, h1, h2, _⟩ := (C05.add_ok_iff _ fps).1 hok
  have hi := C05.inv_add _ fps (C05.inv_new k lvl nm) hok
  rw [C05.add_ok_eq _ fps hok] at hi ⊢
  refine ⟨by simp [Db.addOk, Db.new], rfl, hi, ?_, ?_⟩
  · intro x hx
    have := List.any_eq_false.1 h2 x hx
    simpa [Db.addOk] using this
  · intro x hx
    have := List.any_eq_false.1 h1 x hx
    simpa [Db.new] using this

/-- the rows the measure sees of a built database: each fingerprint's vector in the dtype of the
database, then cast as the measure asks -/
theorem dbRows_built (t : Option Kind) (d : Db) (fps : List FpIn)
    (ha : d.array = some (fps.map (fun x => fpRow d.fpType x.fp))) :
    dbRows t d = fps.map (fun x => castRowO t (fpRow d.fpType x.fp)) := by
  cases t with
  | none => simp [dbRows, ha, castRowO]
  | some k =>
    by_cases hk : k = d.fpType
    · subst hk
      simp only [dbRows, if_true, ha, Option.getD_some, castRowO]
      apply List.map_congr_left
      intro x _
      unfold fpRow
      rw [castRow]
      rw [List.map_map]
      exact List.map_congr_left (fun i _ => by simp [castVal_idem])
    · simp [dbRows, hk, ha, castRowO, List.map_map]

/-- **fingerprint against a database built from fingerprints**, spelled out: entry `j` compares the
vector of `f` (bit dtype for Tanimoto/Dice, own dtype otherwise) with the vector of the `j`-th
fingerprint in the dtype of the database, cast to bit for Tanimoto/Dice -/
theorem dispatch_fp_builtdb (m : Measure) (f : Fp) (k : Kind) (lvl : Int) (nm : Option String)
    (fps : List FpIn) (hok : ((Db.new k lvl nm).add fps).2 = none)
    (hb : ∀ x ∈ fps, f.bits = x.fp.bits) :
    metricDispatch m (.fp f) (some (.db ((Db.new k lvl nm).add fps).1)) =
      .ok (.inr [ fps.map (fun x => simRows m f.bits (fpRow ((measureCast m).getD f.kind) f)
        (castRowO (measureCast m) (fpRow k x.fp))) ]) := by
  obtain ⟨h1, h2, h3, h4, _⟩ := built_db k lvl nm fps hok
  have hne : fps ≠ [] := ((C05.add_ok_iff _ fps).1 hok).1
  obtain ⟨x0, hx0⟩ := List.exists_mem_of_ne_nil fps hne
  rw [dispatch_fp_db m f _ _ h1 ((hb x0 hx0).trans (h4 x0 hx0)) (castable_of_inv _ _ h3),
    dbRows_built _ _ fps (by rw [h1, h2]), h2, List.map_map]
  rfl

/-! ### one fingerprint per operand: every calling form gives the value of the two-fingerprint form -/

/-- the operand presents the single fingerprint `f`, held in a vector of kind `k`: `f` itself
(`k` its own kind), or a database of kind `k` whose one row is the vector of `f` -/
inductive Presents : Item → Fp → Kind → Prop
  | fp (f : Fp) : Presents (.fp f) f f.kind
  | db (d : Db) (f : Fp) (ha : d.array = some [fpRow d.fpType f]) (hb : d.bits = f.bits) :
      Presents (.db d) f d.fpType

/-- the database `add_fingerprints([g])` makes of one fingerprint presents it -/
theorem presents_single (k : Kind) (nm : Option String) (x : FpIn) :
    ((Db.new k x.fp.level nm).add [x]).2 = none ∧
    Presents (.db ((Db.new k x.fp.level nm).add [x]).1) x.fp k ∧
    ((Db.new k x.fp.level nm).add [x]).1.Inv := by
  have hok : ((Db.new k x.fp.level nm).add [x]).2 = none := by
    rw [C05.add_ok_iff]
    refine ⟨by simp, by simp [Db.badLevel, Db.new], by simp [Db.badBits, Db.expectedBits, Db.fpNum, Db.new], ?_⟩
    simp only [Db.badProps, Db.expectedProps, Db.fpNum, Db.new, List.any_cons, List.any_nil, Bool.or_false,
      Nat.lt_irrefl, if_false, List.head?_cons, Option.map_some, Option.getD_some]
    rw [List.any_eq_false]
    intro key hkey
    obtain ⟨c, hc, rfl⟩ := List.mem_map.1 hkey
    have : ∀ (ps : List (String × PVal)) (c : String × PVal), c ∈ ps → (propLookup ps c.1).isNone = false := by
      intro ps
      induction ps with
      | nil => intro c hc; cases hc
      | cons q qs ih =>
        intro c hc
        obtain ⟨a, v⟩ := q
        unfold propLookup
        by_cases e : a = c.1
        · simp [e]
        · rw [if_neg e]
          rcases List.mem_cons.1 hc with rfl | hc
          · exact absurd rfl e
          · exact ih c hc
    have h' := this x.props c hc
    cases hl : propLookup x.props c.1 with
    | none => rw [hl] at h'; simp at h'
    | some v => simp
  obtain ⟨h1, h2, h3, h4, _⟩ := built_db k x.fp.level nm [x] hok
  refine ⟨hok, ?_, h3⟩
  have hp := Presents.db ((Db.new k x.fp.level nm).add [x]).1 x.fp (by rw [h1, h2]; rfl)
    (h4 x (by simp)).symm
  rw [h2] at hp
  exact hp

/-- the row the measure works on: the index set as a 0/1 row for Tanimoto and Dice, the counts otherwise -/
def canonRow (m : Measure) (f : Fp) : Row :=
  match measureCast m with
  | some _ => onesRow f
  | none => cntRow f

/-- an operand presenting `f` contributes exactly the canonical row, provided the vector of kind `k`
holds the counts of `f` unchanged and — for the measures that cast to bit — no count is an explicit zero -/
theorem itemRows_presents (m : Measure) (it : Item) (f : Fp) (k : Kind) (hp : Presents it f k)
    (hs : StoredAs k f) (hz : measureCast m ≠ none → NoZero f) :
    itemRows (measureCast m) it = [canonRow m f] := by
  cases hp with
  | fp =>
    unfold itemRows canonRow
    cases ht : measureCast m with
    | none => simp only [Option.getD_none]; rw [fpRow_eq_cntRow _ f hs]
    | some k' =>
      have : k' = .bit := by cases m <;> simp [measureCast] at ht <;> exact ht.symm
      subst this
      simp only [Option.getD_some]
      rw [fpRow_bit_eq_ones f (hz (by simp [ht]))]
  | db d _ ha hb =>
    unfold itemRows canonRow dbRows
    cases ht : measureCast m with
    | none => simp only [ha, Option.getD_some]; rw [fpRow_eq_cntRow _ f hs]
    | some k' =>
      have : k' = .bit := by cases m <;> simp [measureCast] at ht <;> exact ht.symm
      subst this
      have hz' := hz (by simp [ht])
      simp only [ha, Option.getD_some]
      by_cases hk : Kind.bit = d.fpType
      · rw [if_pos hk, ← hk, fpRow_bit_eq_ones f hz']
      · rw [if_neg hk]
        simp only [List.map_cons, List.map_nil]
        rw [castRow_bit_fpRow_eq_ones _ f hs hz']

theorem presents_bits (it : Item) (f : Fp) (k : Kind) (hp : Presents it f k) : it.bits = some f.bits := by
  cases hp with
  | fp => rfl
  | db d _ ha hb => simp [Item.bits, ha, hb]

/-- **every matrix form on two presented fingerprints is the 1×1 matrix of the row measure on the
canonical rows** (fingerprint/database, database/fingerprint, database/database) -/
theorem dispatch_presented (m : Measure) (a b : Item) (f g : Fp) (ka kb : Kind)
    (pa : Presents a f ka) (pb : Presents b g kb) (hb : f.bits = g.bits)
    (hdb : a.isDb = true ∨ b.isDb = true)
    (ca : ItemCastable (measureCast m) a) (cb : ItemCastable (measureCast m) b)
    (sf : StoredAs ka f) (sg : StoredAs kb g)
    (zf : measureCast m ≠ none → NoZero f) (zg : measureCast m ≠ none → NoZero g) :
    metricDispatch m a (some b) =
      .ok (.inr [[ simRows m f.bits (canonRow m f) (canonRow m g) ]]) := by
  rw [metricDispatch_matrix m a b f.bits (presents_bits a f ka pa)
    (by rw [presents_bits b g kb pb, hb]) hdb ca cb,
    itemRows_presents m a f ka pa sf zf, itemRows_presents m b g kb pb sg zg]
  rfl

/-- the sparse Pearson pair is the definition's pair scaled by `c = b/(b−1)` and `c²`: the value
`num / sqrt rad` is the same -/
theorem arrPearson_scaled (b : Nat) (hb : 2 ≤ b) (x y : Row) :
    arrPearson b x y = (((b : Rat) / ((b : Rat) - 1)) * (pearsonDef b x y).1,
                        ((b : Rat) / ((b : Rat) - 1)) ^ 2 * (pearsonDef b x y).2) := by
  have h0 : (b : Rat) ≠ 0 := by
    intro h; have := Rat.natCast_eq_zero_iff.1 h; omega
  have h1 : (b : Rat) - 1 ≠ 0 := by
    intro h
    have : (b : Rat) = ((1 : Nat) : Rat) := by simp; grind
    have := Rat.natCast_inj.1 this; omega
  unfold arrPearson pearsonDef
  simp only
  generalize dotQ x y = dxy
  generalize dotQ x x = dxx
  generalize dotQ y y = dyy
  generalize rowSum x = sx
  generalize rowSum y = sy
  generalize (b : Rat) = n at *
  refine Prod.ext ?_ ?_ <;> simp only <;> grind

theorem pearson_scale_pos (b : Nat) (hb : 2 ≤ b) : 0 < (b : Rat) / ((b : Rat) - 1) := by
  have h2 : ((2 : Nat) : Rat) ≤ (b : Rat) := Rat.natCast_le_natCast.2 hb
  have h2' : (2 : Rat) ≤ (b : Rat) := by simpa using h2
  have hpos : 0 < (b : Rat) - 1 := by grind
  have hb0 : 0 < (b : Rat) := by grind
  rw [Rat.div_def]
  exact Rat.mul_pos hb0 (Rat.inv_pos.2 hpos)

/-- the value the matrix forms return for the pair `(f, g)`, in terms of the two-fingerprint form:
the same `Sim` for Tanimoto, Dice, Soergel and cosine; for Pearson the pair scaled by `c`, `c²`
(`c = b/(b−1) > 0`), which denotes the same number `num / sqrt rad` -/
def matrixEntry (m : Measure) (f g : Fp) : Sim :=
  match m with
  | .pearson =>
    let p := fpPearson f g
    let c : Rat := (f.bits : Rat) / ((f.bits : Rat) - 1)
    .root (c * p.1) (c ^ 2 * p.2)
  | _ => simFp m f g

theorem arrDice_ones (f g : Fp) (hf : f.WF) (hg : g.WF) :
    arrDice (onesRow f) (onesRow g) = fpDice f g := by
  have h := arrDice_eq_def _ _ (binaryRow_bitRow f) (binaryRow_bitRow g)
  exact h.trans (fp_eq_def_dice f g hf hg).symm

theorem arrTanimoto_ones (f g : Fp) (hf : f.WF) (hg : g.WF) :
    arrTanimoto (onesRow f) (onesRow g) = fpTanimoto f g :=
  ((tanimoto_three_routes f g hf hg).1).symm

/-- **row measure on the canonical rows = two-fingerprint measure** -/
theorem simRows_canon (m : Measure) (f g : Fp) (hf : f.WF) (hg : g.WF) (hb : f.bits = g.bits)
    (hn : m = .soergel → NonnegFp f ∧ NonnegFp g) (h2 : m = .pearson → 2 ≤ f.bits) :
    simRows m f.bits (canonRow m f) (canonRow m g) = matrixEntry m f g := by
  cases m with
  | tanimoto =>
    show Sim.q (arrTanimoto (onesRow f) (onesRow g)) = Sim.q (fpTanimoto f g)
    rw [arrTanimoto_ones f g hf hg]
  | dice =>
    show Sim.q (arrDice (onesRow f) (onesRow g)) = Sim.q (fpDice f g)
    rw [arrDice_ones f g hf hg]
  | soergel =>
    show Sim.q (arrSoergelSparse (cntRow f) (cntRow g)) = Sim.q (fpSoergel f g)
    obtain ⟨nf, ng⟩ := hn rfl
    rw [arrSoergelSparse_eq_def_all _ _ (sortedRow_cntRow f hf) (sortedRow_cntRow g hg)
      (nonnegRow_cntRow f nf) (nonnegRow_cntRow g ng), fp_eq_def_soergel f g hf hg]
  | cosine =>
    show Sim.root (arrCosine (cntRow f) (cntRow g)).1 (arrCosine (cntRow f) (cntRow g)).2
      = Sim.root (fpCosine f g).1 (fpCosine f g).2
    rw [arrCosine_eq_def, fp_eq_def_cosine f g hf hg]
  | pearson =>
    show Sim.root (arrPearson f.bits (cntRow f) (cntRow g)).1 (arrPearson f.bits (cntRow f) (cntRow g)).2 = _
    rw [arrPearson_scaled f.bits (h2 rfl), ← fp_eq_def_pearson f g hf hg hb]
    rfl

/-- **Routes agree** — the headline.  `a` and `b` each present one fingerprint (`f`, `g`), at least one
of them as a database: the public function returns the 1×1 matrix whose entry is `matrixEntry m f g`,
i.e. the value `metricDispatch m (.fp f) (some (.fp g))` returns (`dispatch_fp_fp`), with the Pearson
pair rescaled by a positive factor that cancels in `num / sqrt rad`.

Hypotheses: well-formed fingerprints of equal length; the stored vectors hold the counts unchanged
(`StoredAs`: automatic for bit and float fingerprints in databases of their own kind, integrality
for count fingerprints); Tanimoto/Dice: no explicit zero counts; Soergel: non-negative counts;
Pearson: at least two positions; a database operand that needs the bit cast passes `from_array`'s
column check (`Castable`, implied by `Db.Inv`). -/
theorem routes_agree (m : Measure) (a b : Item) (f g : Fp) (ka kb : Kind)
    (pa : Presents a f ka) (pb : Presents b g kb)
    (hf : f.WF) (hg : g.WF) (hb : f.bits = g.bits)
    (hdb : a.isDb = true ∨ b.isDb = true)
    (ca : ItemCastable (measureCast m) a) (cb : ItemCastable (measureCast m) b)
    (sf : StoredAs ka f) (sg : StoredAs kb g)
    (hz : m = .tanimoto ∨ m = .dice → NoZero f ∧ NoZero g)
    (hn : m = .soergel → NonnegFp f ∧ NonnegFp g) (h2 : m = .pearson → 2 ≤ f.bits) :
    metricDispatch m a (some b) = .ok (.inr [[ matrixEntry m f g ]]) ∧
    metricDispatch m (.fp f) (some (.fp g)) = .ok (.inl (simFp m f g)) := by
  refine ⟨?_, dispatch_fp_fp m f g hb⟩
  have zz : measureCast m ≠ none → m = .tanimoto ∨ m = .dice := by
    cases m <;> simp [measureCast]
  rw [dispatch_presented m a b f g ka kb pa pb hb hdb ca cb sf sg
    (fun h => (hz (zz h)).1) (fun h => (hz (zz h)).2), simRows_canon m f g hf hg hb hn h2]

/-! ### zero denominators -/

theorem interCount_nil_left (b : List Nat) : interCount [] b = 0 := rfl
theorem interCount_nil_right (a : List Nat) : interCount a [] = 0 := by
  simp [interCount]

theorem cntRow_of_empty (f : Fp) (h : f.idx = []) : cntRow f = [] := by simp [cntRow, h]

/-- two-fingerprint form, empty left operand: 0 under every measure.  Soergel needs the other operand
non-negative (see `soergel_empty_negative`). -/
theorem simFp_empty_left (m : Measure) (f g : Fp) (he : f.idx = []) (hf : f.WF) (hg : g.WF)
    (hn : m = .soergel → NonnegFp g) : (simFp m f g).IsZero := by
  cases m with
  | tanimoto =>
    show fpTanimoto f g = 0
    unfold fpTanimoto Gen.fpTanimotoExpr Gen.divNan
    rw [he, interCount_nil_left]; split <;> simp <;> grind
  | dice =>
    show fpDice f g = 0
    unfold fpDice Gen.fpDiceExpr Gen.divNan
    rw [he, interCount_nil_left]; split <;> simp <;> grind
  | soergel =>
    show fpSoergel f g = 0
    rw [fp_eq_def_soergel f g hf hg, cntRow_of_empty f he]
    exact C06L.soergelDef_nil_left _ (nonnegRow_cntRow g (hn rfl))
  | cosine =>
    show (fpCosine f g).1 = 0 ∧ (fpCosine f g).2 = 0
    simp [fpCosine, fpDot, fpSq, he, sumQ]
  | pearson =>
    show (fpPearson f g).1 = 0 ∧ (fpPearson f g).2 = 0
    simp [fpPearson, fpDot, fpSq, fpSumC, he, sumQ]; constructor <;> grind

theorem fpDot_empty_right (f g : Fp) (he : g.idx = []) (hg : g.WF) : fpDot f g = 0 := by
  unfold fpDot
  have e : f.idx.map (fun i => f.count i * g.count i) = f.idx.map (fun _ => (0 : Rat)) :=
    List.map_congr_left (fun i _ => by
      rw [Fp.count_of_not_mem g hg i (by rw [he]; simp)]; grind)
  rw [e, sumQ_map_zero]

theorem simFp_empty_right (m : Measure) (f g : Fp) (he : g.idx = []) (hf : f.WF) (hg : g.WF)
    (hn : m = .soergel → NonnegFp f) : (simFp m f g).IsZero := by
  cases m with
  | tanimoto =>
    show fpTanimoto f g = 0
    unfold fpTanimoto Gen.fpTanimotoExpr Gen.divNan
    rw [he, interCount_nil_right]; split <;> simp <;> grind
  | dice =>
    show fpDice f g = 0
    unfold fpDice Gen.fpDiceExpr Gen.divNan
    rw [he, interCount_nil_right]; split <;> simp <;> grind
  | soergel =>
    show fpSoergel f g = 0
    rw [fp_eq_def_soergel f g hf hg, cntRow_of_empty g he]
    exact C06L.soergelDef_nil_right _ (nonnegRow_cntRow f (hn rfl))
  | cosine =>
    show (fpCosine f g).1 = 0 ∧ (fpCosine f g).2 = 0
    have : fpSq g = 0 := by simp [fpSq, he, sumQ]
    simp [fpCosine, fpDot_empty_right f g he hg, this]
  | pearson =>
    show (fpPearson f g).1 = 0 ∧ (fpPearson f g).2 = 0
    have h1 : fpSq g = 0 := by simp [fpSq, he, sumQ]
    have h2 : fpSumC g = 0 := by simp [fpSumC, he, sumQ]
    simp [fpPearson, fpDot_empty_right f g he hg, h1, h2]; constructor <;> grind

/-- every value of a result (the scalar, or every matrix entry) is 0 -/
def AllZero : Sum Sim (List (List Sim)) → Prop
  | .inl s => s.IsZero
  | .inr M => ∀ row ∈ M, ∀ s ∈ row, s.IsZero

/-- **zero denominators**: an empty (all-zero) fingerprint as the first operand scores 0 against a
fingerprint or against every row of a database, under every measure (for cosine and Pearson: numerator
and radicand are both 0, which the code maps to 0).  Only the two-fingerprint Soergel needs the other
operand non-negative. -/
theorem dispatch_zero_denominator (m : Measure) (f : Fp) (he : f.idx = []) (b : Item)
    (hb : b.bits = some f.bits) (cb : ItemCastable (measureCast m) b)
    (hfp : ∀ g, b = .fp g → f.WF ∧ g.WF ∧ (m = .soergel → NonnegFp g)) :
    ∃ r, metricDispatch m (.fp f) (some b) = .ok r ∧ AllZero r := by
  cases b with
  | fp g =>
    obtain ⟨hf, hg, hn⟩ := hfp g rfl
    refine ⟨_, dispatch_fp_fp m f g (by simpa [Item.bits] using hb.symm), ?_⟩
    exact simFp_empty_left m f g he hf hg hn
  | db d =>
    refine ⟨_, metricDispatch_matrix m (.fp f) (.db d) f.bits rfl hb (Or.inr rfl) trivial cb, ?_⟩
    intro row hrow s hs
    simp only [itemRows, fpRow_of_empty _ f he, List.map_cons, List.map_nil, List.mem_singleton] at hrow
    subst hrow
    obtain ⟨y, _, rfl⟩ := List.mem_map.1 hs
    exact simRows_nil_left m f.bits y

/-- the same with the empty fingerprint as the second operand -/
theorem dispatch_zero_denominator_right (m : Measure) (f : Fp) (he : f.idx = []) (a : Item)
    (ha : a.bits = some f.bits) (ca : ItemCastable (measureCast m) a)
    (hfp : ∀ g, a = .fp g → f.WF ∧ g.WF ∧ (m = .soergel → NonnegFp g)) :
    ∃ r, metricDispatch m a (some (.fp f)) = .ok r ∧ AllZero r := by
  cases a with
  | fp g =>
    obtain ⟨hf, hg, hn⟩ := hfp g rfl
    refine ⟨_, dispatch_fp_fp m g f (by simpa [Item.bits] using ha), ?_⟩
    exact simFp_empty_right m g f he hg hf hn
  | db d =>
    refine ⟨_, metricDispatch_matrix m (.db d) (.fp f) f.bits ha rfl (Or.inl rfl) ca trivial, ?_⟩
    intro row hrow s hs
    obtain ⟨x, _, rfl⟩ := List.mem_map.1 hrow
    simp only [itemRows, fpRow_of_empty _ f he, List.map_cons, List.map_nil, List.mem_singleton] at hs
    subst hs
    exact simRows_nil_right m f.bits x

/-- in a database-against-database matrix, the row (column) of an empty database row is 0 -/
theorem dispatch_db_db_zero_row (m : Measure) (n : Nat) (s : Row) :
    (simRows m n (castRowO (measureCast m) []) s).IsZero ∧ (simRows m n s (castRowO (measureCast m) [])).IsZero := by
  have : castRowO (measureCast m) [] = [] := by cases m <;> rfl
  rw [this]
  exact ⟨simRows_nil_left m n s, simRows_nil_right m n s⟩

attribute [local instance] decEqExcept in
/-- The non-negativity in the two-fingerprint Soergel case cannot be dropped: against an empty
fingerprint, a float fingerprint with counts `1, −1` scores `−1` as two fingerprints, and `0` in the
database form. -/
theorem soergel_empty_negative :
    metricDispatch .soergel (.fp ⟨.float, 8, 0, [], []⟩)
      (some (.fp ⟨.float, 8, 0, [0, 1], [(0, 1), (1, -1)]⟩)) = .ok (.inl (.q (-1))) ∧
    metricDispatch .soergel (.fp ⟨.float, 8, 0, [], []⟩)
      (some (.db ((Db.new .float 0 none).add [⟨⟨.float, 8, 0, [0, 1], [(0, 1), (1, -1)]⟩, none, []⟩]).1))
        = .ok (.inr [[.q 0]]) := by
  decide +kernel

/-! ### the hypotheses of `routes_agree` cannot be dropped: witnesses -/

/-- witnesses -/
def witZeroCount : Fp := ⟨.count, 8, 0, [1, 2], [(1, 0), (2, 3)]⟩
def witBit2 : Fp := ⟨.bit, 8, 0, [2], []⟩
def witPos : Fp := ⟨.float, 8, 0, [0], [(0, 1)]⟩
def witNeg : Fp := ⟨.float, 8, 0, [1], [(1, -1)]⟩

theorem wit_wf : witZeroCount.WF ∧ witBit2.WF ∧ witPos.WF ∧ witNeg.WF := by
  unfold Fp.WF; decide

attribute [local instance] decEqExcept in
/-- **An explicit zero count.**  A count fingerprint that lists position 1 with count 0 (well-formed:
`CountFingerprint(counts={1: 0, 2: 3})`) counts position 1 as set in the two-fingerprint Tanimoto and
Dice (they read the index array), but not in any database form (the bit cast of the stored 0 is 0):
`1/2` against `1`, `2/3` against `1`. -/
theorem explicit_zero_count_routes_differ :
    metricDispatch .tanimoto (.fp witZeroCount) (some (.fp witBit2)) = .ok (.inl (.q (1 / 2))) ∧
    metricDispatch .tanimoto (.fp witZeroCount)
      (some (.db ((Db.new .bit 0 none).add [⟨witBit2, none, []⟩]).1)) = .ok (.inr [[.q 1]]) ∧
    metricDispatch .dice (.fp witZeroCount) (some (.fp witBit2)) = .ok (.inl (.q (2 / 3))) ∧
    metricDispatch .dice (.fp witZeroCount)
      (some (.db ((Db.new .bit 0 none).add [⟨witBit2, none, []⟩]).1)) = .ok (.inr [[.q 1]]) := by
  refine ⟨?_, ?_, ?_, ?_⟩ <;> decide +kernel

attribute [local instance] decEqExcept in
/-- **Negative counts under Soergel.**  Two float fingerprints `{0: 1}` and `{1: −1}`: the
two-fingerprint form follows the definition (`1 − 2/1 = −1`), the sparse merge kernel of the database
form adds unmatched values as they stand (`sum_max = 0`, result `0`). -/
theorem negative_count_soergel_routes_differ :
    metricDispatch .soergel (.fp witPos) (some (.fp witNeg)) = .ok (.inl (.q (-1))) ∧
    metricDispatch .soergel (.fp witPos)
      (some (.db ((Db.new .float 0 none).add [⟨witNeg, none, []⟩]).1)) = .ok (.inr [[.q 0]]) := by
  refine ⟨?_, ?_⟩ <;> decide +kernel

attribute [local instance] decEqExcept in
/-- **Lossy storage.**  A float fingerprint `{0: 1/2}` held in a *count* database is stored as an
explicit 0 (`int(0.5)`), so Tanimoto against the bit fingerprint `{0}` is 0 instead of 1; held in a
float database the bit cast sees a non-zero value and the routes agree. -/
theorem lossy_storage_routes_differ :
    let f : Fp := ⟨.bit, 8, 0, [0], []⟩
    let g : Fp := ⟨.float, 8, 0, [0], [(0, 1 / 2)]⟩
    metricDispatch .tanimoto (.fp f) (some (.fp g)) = .ok (.inl (.q 1)) ∧
    metricDispatch .tanimoto (.fp f) (some (.db ((Db.new .count 0 none).add [⟨g, none, []⟩]).1))
      = .ok (.inr [[.q 0]]) ∧
    metricDispatch .tanimoto (.fp f) (some (.db ((Db.new .float 0 none).add [⟨g, none, []⟩]).1))
      = .ok (.inr [[.q 1]]) := by
  refine ⟨?_, ?_, ?_⟩ <;> decide +kernel

/-! ### every route equals the mathematical definition -/

/-- the mathematical definition of each measure on two vectors given as rows -/
def defSim (m : Measure) (n : Nat) (x y : Row) : Sim :=
  match m with
  | .tanimoto => .q (tanimotoDef x y)
  | .dice => .q (diceDef x y)
  | .soergel => .q (soergelDef x y)
  | .cosine => .root (cosineDef x y).1 (cosineDef x y).2
  | .pearson => .root (pearsonDef n x y).1 (pearsonDef n x y).2

/-- the representation of the value in the matrix forms: unchanged, except that the sparse Pearson
route normalises with `n − 1`, which multiplies numerator and radicand by `c` and `c²`,
`c = n/(n−1) > 0` — the same number `num / sqrt rad` (see `Sim.val_scaleFor` in `Props/C06Real.lean`) -/
def scaleFor (m : Measure) (n : Nat) (s : Sim) : Sim :=
  match m, s with
  | .pearson, .root a r => .root (((n : Rat) / ((n : Rat) - 1)) * a) (((n : Rat) / ((n : Rat) - 1)) ^ 2 * r)
  | _, s => s

theorem matrixEntry_eq_scale (m : Measure) (f g : Fp) :
    matrixEntry m f g = scaleFor m f.bits (simFp m f g) := by
  cases m <;> rfl

/-- the row measure after the cast the measure asks for = the definition on the rows as stored:
Tanimoto and Dice for arbitrary rows (the definition reads supports, and so does the bit cast);
Soergel on sorted duplicate-free non-negative rows; cosine always; Pearson for `n ≥ 2` -/
theorem simRows_cast_eq_def (m : Measure) (n : Nat) (x y : Row)
    (hs : m = .soergel → SortedRow x ∧ SortedRow y ∧ NonnegRow x ∧ NonnegRow y)
    (h2 : m = .pearson → 2 ≤ n) :
    simRows m n (castRowO (measureCast m) x) (castRowO (measureCast m) y) = scaleFor m n (defSim m n x y) := by
  cases m with
  | tanimoto => show Sim.q (arrTanimoto (castRow .bit x) (castRow .bit y)) = _; rw [arrTanimoto_castBit]; rfl
  | dice => show Sim.q (arrDice (castRow .bit x) (castRow .bit y)) = _; rw [arrDice_castBit]; rfl
  | soergel =>
    obtain ⟨a, b, c, d⟩ := hs rfl
    show Sim.q (arrSoergelSparse x y) = _
    rw [arrSoergelSparse_eq_def_all x y a b c d]; rfl
  | cosine => rfl
  | pearson =>
    show Sim.root (arrPearson n x y).1 (arrPearson n x y).2 = _
    rw [arrPearson_scaled n (h2 rfl)]; rfl

theorem castRow_bit_of_zeroOne (r : Row) (h : ZeroOne r) : castRow .bit r = r := by
  unfold castRow
  refine (List.map_congr_left (g := id) ?_).trans (List.map_id r)
  intro p hp
  rcases h p hp with h0 | h1
  · exact Prod.ext rfl (by simp [castVal, h0])
  · exact Prod.ext rfl (by simp [castVal, h1])

/-- the vectors an operand stands for -/
def storedRows : Item → List Row
  | .fp f => [cntRow f]
  | .db d => d.array.getD []

/-- side conditions under which the rows handed to the row measure are the cast of `storedRows`:
a lone fingerprint under Soergel/cosine/Pearson is stored in its own kind without loss; a database can be
cast; a bit database holds 0/1 values (as every bit database built by the library does) -/
def ItemOK (m : Measure) : Item → Prop
  | .fp f => measureCast m = none → StoredAs f.kind f
  | .db d => Castable (measureCast m) d ∧
      (measureCast m ≠ none → d.fpType = .bit → ∀ r ∈ d.array.getD [], ZeroOne r)

theorem itemRows_eq_cast (m : Measure) (it : Item) (h : ItemOK m it) :
    itemRows (measureCast m) it = (storedRows it).map (castRowO (measureCast m)) := by
  cases it with
  | fp f =>
    cases ht : measureCast m with
    | none =>
      simp only [itemRows, storedRows, Option.getD_none, castRowO, List.map_cons, List.map_nil]
      rw [fpRow_eq_cntRow _ f (h ht)]
    | some k =>
      have : k = .bit := by cases m <;> simp [measureCast] at ht <;> exact ht.symm
      subst this
      simp only [itemRows, storedRows, Option.getD_some, castRowO, List.map_cons, List.map_nil]
      rw [fpRow_bit_eq_castRow]
  | db d =>
    cases ht : measureCast m with
    | none =>
      simp only [itemRows, storedRows, dbRows]
      exact (List.map_id _).symm
    | some k =>
      have : k = .bit := by cases m <;> simp [measureCast] at ht <;> exact ht.symm
      subst this
      simp only [itemRows, storedRows, dbRows]
      by_cases hk : Kind.bit = d.fpType
      · rw [if_pos hk]
        have h01 := h.2 (by simp [ht]) hk.symm
        symm
        refine (List.map_congr_left (g := id) ?_).trans (List.map_id _)
        intro r hr
        exact castRow_bit_of_zeroOne r (h01 r hr)
      · rw [if_neg hk]; rfl

theorem itemCastable_of_ok (m : Measure) (it : Item) (h : ItemOK m it) : ItemCastable (measureCast m) it := by
  cases it with
  | fp f => trivial
  | db d => exact h.1

/-- **every matrix form returns the definition on the vectors the operands stand for**
(for a lone fingerprint its count vector, for a database its rows as stored) -/
theorem dispatch_eq_def (m : Measure) (a b : Item) (n : Nat)
    (ha : a.bits = some n) (hb : b.bits = some n) (hdb : a.isDb = true ∨ b.isDb = true)
    (oka : ItemOK m a) (okb : ItemOK m b)
    (hs : m = .soergel → ∀ r, r ∈ storedRows a ∨ r ∈ storedRows b → SortedRow r ∧ NonnegRow r)
    (h2 : m = .pearson → 2 ≤ n) :
    metricDispatch m a (some b) =
      .ok (.inr ((storedRows a).map (fun r => (storedRows b).map (fun s => scaleFor m n (defSim m n r s))))) := by
  rw [metricDispatch_matrix m a b n ha hb hdb (itemCastable_of_ok m a oka) (itemCastable_of_ok m b okb),
    itemRows_eq_cast m a oka, itemRows_eq_cast m b okb]
  simp only [List.map_map]
  congr 2
  apply List.map_congr_left
  intro r hr
  simp only [Function.comp_apply]
  apply List.map_congr_left
  intro s hs'
  simp only [Function.comp_apply]
  exact simRows_cast_eq_def m n r s
    (fun hm => ⟨(hs hm r (Or.inl hr)).1, (hs hm s (Or.inr hs')).1, (hs hm r (Or.inl hr)).2, (hs hm s (Or.inr hs')).2⟩) h2

theorem castRow_bit_cntRow_eq_ones (f : Fp) (h : NoZero f) : castRow .bit (cntRow f) = onesRow f := by
  rw [← fpRow_bit_eq_castRow, fpRow_bit_eq_ones f h]

/-- **the two-fingerprint form returns the definition on the two count vectors** (Tanimoto/Dice: when
no count is an explicit zero — they read the index arrays; see `explicit_zero_count_routes_differ`) -/
theorem simFp_eq_def (m : Measure) (f g : Fp) (hf : f.WF) (hg : g.WF) (hb : f.bits = g.bits)
    (hz : m = .tanimoto ∨ m = .dice → NoZero f ∧ NoZero g) :
    simFp m f g = defSim m f.bits (cntRow f) (cntRow g) := by
  cases m with
  | tanimoto =>
    obtain ⟨zf, zg⟩ := hz (Or.inl rfl)
    show Sim.q (fpTanimoto f g) = Sim.q (tanimotoDef (cntRow f) (cntRow g))
    rw [fp_eq_def_tanimoto f g hf hg, ← tanimotoDef_castBit (cntRow f), castRow_bit_cntRow_eq_ones f zf,
      castRow_bit_cntRow_eq_ones g zg]
    rfl
  | dice =>
    obtain ⟨zf, zg⟩ := hz (Or.inr rfl)
    show Sim.q (fpDice f g) = Sim.q (diceDef (cntRow f) (cntRow g))
    rw [fp_eq_def_dice f g hf hg, ← diceDef_castBit (cntRow f), castRow_bit_cntRow_eq_ones f zf,
      castRow_bit_cntRow_eq_ones g zg]
    rfl
  | soergel => show Sim.q (fpSoergel f g) = _; rw [fp_eq_def_soergel f g hf hg]; rfl
  | cosine => show Sim.root (fpCosine f g).1 (fpCosine f g).2 = _; rw [fp_eq_def_cosine f g hf hg]; rfl
  | pearson =>
    show Sim.root (fpPearson f g).1 (fpPearson f g).2 = _
    rw [fp_eq_def_pearson f g hf hg hb]; rfl

theorem zeroOne_fpRow_bit (f : Fp) : ZeroOne (fpRow .bit f) := by
  rw [fpRow_bit_eq_castRow]; exact zeroOne_castRow_bit _

/-- **fingerprint against a database built from fingerprints = the definition** on the count vector of
the fingerprint and the vectors of the database's fingerprints in the database's dtype
(`fpRow k g = cntRow g` when `StoredAs k g`, `fpRow_eq_cntRow`).  No condition about explicit zeros:
the database forms follow the definition on supports. -/
theorem dispatch_fp_builtdb_eq_def (m : Measure) (f : Fp) (k : Kind) (lvl : Int) (nm : Option String)
    (fps : List FpIn) (hok : ((Db.new k lvl nm).add fps).2 = none)
    (hb : ∀ x ∈ fps, f.bits = x.fp.bits) (hf : f.WF) (hfs : ∀ x ∈ fps, x.fp.WF)
    (sf : measureCast m = none → StoredAs f.kind f)
    (hn : m = .soergel → NonnegFp f ∧ ∀ x ∈ fps, NonnegRow (fpRow k x.fp))
    (h2 : m = .pearson → 2 ≤ f.bits) :
    metricDispatch m (.fp f) (some (.db ((Db.new k lvl nm).add fps).1)) =
      .ok (.inr [ fps.map (fun x => scaleFor m f.bits (defSim m f.bits (cntRow f) (fpRow k x.fp))) ]) := by
  obtain ⟨h1, hk, h3, h4, _⟩ := built_db k lvl nm fps hok
  have hne : fps ≠ [] := ((C05.add_ok_iff _ fps).1 hok).1
  obtain ⟨x0, hx0⟩ := List.exists_mem_of_ne_nil fps hne
  have hbits : (Item.db ((Db.new k lvl nm).add fps).1).bits = some f.bits := by
    simp only [Item.bits, h1, Option.map_some]
    rw [← h4 x0 hx0, hb x0 hx0]
  have hrows : storedRows (.db ((Db.new k lvl nm).add fps).1) = fps.map (fun x => fpRow k x.fp) := by
    simp [storedRows, h1]
  have okb : ItemOK m (.db ((Db.new k lvl nm).add fps).1) := by
    refine ⟨castable_of_inv _ _ h3, ?_⟩
    intro _ hbit r hr
    rw [h1, Option.getD_some] at hr
    obtain ⟨x, _, rfl⟩ := List.mem_map.1 hr
    rw [hk] at hbit; subst hbit
    exact zeroOne_fpRow_bit _
  rw [dispatch_eq_def m (.fp f) _ f.bits rfl hbits (Or.inr rfl) sf okb ?_ h2, hrows]
  · simp only [storedRows, List.map_cons, List.map_nil, List.map_map]
    rfl
  · intro hm r hr
    obtain ⟨nf, nfs⟩ := hn hm
    rcases hr with hr | hr
    · simp only [storedRows, List.mem_singleton] at hr
      subst hr
      exact ⟨sortedRow_cntRow f hf, nonnegRow_cntRow f nf⟩
    · rw [hrows] at hr
      obtain ⟨x, hx, rfl⟩ := List.mem_map.1 hr
      exact ⟨sortedRow_fpRow k x.fp (hfs x hx), nfs x hx⟩

/-! ### whole databases: the matrix is the table of the two-fingerprint values -/

theorem fpSide_canon (m : Measure) (f : Fp) (sf : measureCast m = none → StoredAs f.kind f)
    (zf : measureCast m ≠ none → NoZero f) :
    fpRow ((measureCast m).getD f.kind) f = canonRow m f := by
  unfold canonRow
  cases ht : measureCast m with
  | none => simp only [Option.getD_none]; exact fpRow_eq_cntRow _ f (sf ht)
  | some k =>
    have : k = .bit := by cases m <;> simp [measureCast] at ht <;> exact ht.symm
    subst this
    simp only [Option.getD_some]
    exact fpRow_bit_eq_ones f (zf (by simp [ht]))

theorem dbSide_canon (m : Measure) (k : Kind) (g : Fp) (sg : StoredAs k g)
    (zg : measureCast m ≠ none → NoZero g) :
    castRowO (measureCast m) (fpRow k g) = canonRow m g := by
  unfold canonRow castRowO
  cases ht : measureCast m with
  | none => exact fpRow_eq_cntRow _ g sg
  | some k' =>
    have : k' = .bit := by cases m <;> simp [measureCast] at ht <;> exact ht.symm
    subst this
    exact castRow_bit_fpRow_eq_ones k g sg (zg (by simp [ht]))

/-- **fingerprint against a database of fingerprints = the list of the two-fingerprint values**:
entry `j` is `matrixEntry m f gⱼ`, the value of `metricDispatch m (.fp f) (some (.fp gⱼ))` -/
theorem dispatch_fp_builtdb_routes (m : Measure) (f : Fp) (k : Kind) (lvl : Int) (nm : Option String)
    (fps : List FpIn) (hok : ((Db.new k lvl nm).add fps).2 = none)
    (hb : ∀ x ∈ fps, f.bits = x.fp.bits) (hf : f.WF) (hfs : ∀ x ∈ fps, x.fp.WF)
    (sf : measureCast m = none → StoredAs f.kind f) (sfs : ∀ x ∈ fps, StoredAs k x.fp)
    (hz : m = .tanimoto ∨ m = .dice → NoZero f ∧ ∀ x ∈ fps, NoZero x.fp)
    (hn : m = .soergel → NonnegFp f ∧ ∀ x ∈ fps, NonnegFp x.fp)
    (h2 : m = .pearson → 2 ≤ f.bits) :
    metricDispatch m (.fp f) (some (.db ((Db.new k lvl nm).add fps).1)) =
      .ok (.inr [ fps.map (fun x => matrixEntry m f x.fp) ]) := by
  have zz : measureCast m ≠ none → m = .tanimoto ∨ m = .dice := by
    cases m <;> simp [measureCast]
  rw [dispatch_fp_builtdb m f k lvl nm fps hok hb, fpSide_canon m f sf (fun h => (hz (zz h)).1)]
  congr 3
  apply List.map_congr_left
  intro x hx
  rw [dbSide_canon m k x.fp (sfs x hx) (fun h => (hz (zz h)).2 x hx)]
  exact simRows_canon m f x.fp hf (hfs x hx) (hb x hx)
    (fun h => ⟨(hn h).1, (hn h).2 x hx⟩) h2

/-- **database against database = the table of the two-fingerprint values** -/
theorem dispatch_builtdb_builtdb_routes (m : Measure) (k k' : Kind) (lvl lvl' : Int) (nm nm' : Option String)
    (fps gps : List FpIn) (hok : ((Db.new k lvl nm).add fps).2 = none)
    (hok' : ((Db.new k' lvl' nm').add gps).2 = none)
    (hb : ∀ x ∈ fps, ∀ y ∈ gps, x.fp.bits = y.fp.bits)
    (hfs : ∀ x ∈ fps, x.fp.WF) (hgs : ∀ y ∈ gps, y.fp.WF)
    (sfs : ∀ x ∈ fps, StoredAs k x.fp) (sgs : ∀ y ∈ gps, StoredAs k' y.fp)
    (hz : m = .tanimoto ∨ m = .dice → (∀ x ∈ fps, NoZero x.fp) ∧ ∀ y ∈ gps, NoZero y.fp)
    (hn : m = .soergel → (∀ x ∈ fps, NonnegFp x.fp) ∧ ∀ y ∈ gps, NonnegFp y.fp)
    (h2 : m = .pearson → ∀ x ∈ fps, 2 ≤ x.fp.bits) :
    metricDispatch m (.db ((Db.new k lvl nm).add fps).1) (some (.db ((Db.new k' lvl' nm').add gps).1)) =
      .ok (.inr (fps.map (fun x => gps.map (fun y => matrixEntry m x.fp y.fp)))) := by
  have zz : measureCast m ≠ none → m = .tanimoto ∨ m = .dice := by
    cases m <;> simp [measureCast]
  obtain ⟨h1, hk, h3, h4, _⟩ := built_db k lvl nm fps hok
  obtain ⟨h1', hk', h3', h4', _⟩ := built_db k' lvl' nm' gps hok'
  obtain ⟨x0, hx0⟩ := List.exists_mem_of_ne_nil fps ((C05.add_ok_iff _ fps).1 hok).1
  obtain ⟨y0, hy0⟩ := List.exists_mem_of_ne_nil gps ((C05.add_ok_iff _ gps).1 hok').1
  have hbits : ((Db.new k lvl nm).add fps).1.bits = ((Db.new k' lvl' nm').add gps).1.bits := by
    rw [← h4 x0 hx0, ← h4' y0 hy0]; exact hb x0 hx0 y0 hy0
  rw [dispatch_db_db m _ _ _ _ h1 h1' hbits (castable_of_inv _ _ h3) (castable_of_inv _ _ h3'),
    dbRows_built (measureCast m) ((Db.new k lvl nm).add fps).1 fps (by rw [h1, hk]),
    dbRows_built (measureCast m) ((Db.new k' lvl' nm').add gps).1 gps (by rw [h1', hk']), hk, hk']
  simp only [List.map_map]
  congr 2
  apply List.map_congr_left
  intro x hx
  simp only [Function.comp_apply]
  apply List.map_congr_left
  intro y hy
  simp only [Function.comp_apply]
  rw [dbSide_canon m k x.fp (sfs x hx) (fun h => (hz (zz h)).1 x hx),
    dbSide_canon m k' y.fp (sgs y hy) (fun h => (hz (zz h)).2 y hy), ← h4 x hx]
  exact simRows_canon m x.fp y.fp (hfs x hx) (hgs y hy) (hb x hx y hy)
    (fun h => ⟨(hn h).1 x hx, (hn h).2 y hy⟩) (fun h => h2 h x hx)

/-- a single database holding one fingerprint, compared with itself (`B=None`) -/
theorem routes_agree_single (m : Measure) (d : Db) (f : Fp) (k : Kind) (pd : Presents (.db d) f k)
    (hf : f.WF) (cd : Castable (measureCast m) d) (sf : StoredAs k f)
    (hz : m = .tanimoto ∨ m = .dice → NoZero f) (hn : m = .soergel → NonnegFp f)
    (h2 : m = .pearson → 2 ≤ f.bits) :
    metricDispatch m (.db d) none = .ok (.inr [[ matrixEntry m f f ]]) := by
  have ha : ∃ a, d.array = some a := by cases pd with | db _ _ ha _ => exact ⟨_, ha⟩
  obtain ⟨a, ha⟩ := ha
  rw [dispatch_single m d a ha cd]
  exact (routes_agree m (.db d) (.db d) f f k k pd pd hf hf rfl (Or.inl rfl) cd cd sf sf
    (fun h => ⟨hz h, hz h⟩) (fun h => ⟨hn h, hn h⟩) h2).1

/-! ### non-vacuity: the theorems applied to concrete operands -/

/-- count fingerprint `{1: 3, 2: 1}` -/
def exCount : Fp := ⟨.count, 8, 0, [1, 2], [(1, 3), (2, 1)]⟩
/-- bit fingerprint `{2, 5}` -/
def exBit : Fp := ⟨.bit, 8, 0, [2, 5], []⟩
/-- float fingerprint `{2: 1/2, 7: 4}` -/
def exFloat : Fp := ⟨.float, 8, 0, [2, 7], [(2, 1 / 2), (7, 4)]⟩
/-- the empty count fingerprint -/
def exEmpty : Fp := ⟨.count, 8, 0, [], []⟩

theorem ex_wf : exCount.WF ∧ exBit.WF ∧ exFloat.WF ∧ exEmpty.WF := by unfold Fp.WF; decide

theorem ex_storedAs : StoredAs .count exCount ∧ StoredAs .bit exBit ∧ StoredAs .float exFloat := by
  refine ⟨storedAs_own_count exCount rfl ?_, storedAs_own_bit exBit rfl, storedAs_float exFloat⟩
  intro i hi
  simp only [exCount, List.mem_cons, List.not_mem_nil, or_false] at hi
  rcases hi with rfl | rfl
  · exact ⟨3, by decide +kernel⟩
  · exact ⟨1, by decide +kernel⟩

theorem ex_noZero : NoZero exCount ∧ NoZero exBit ∧ NoZero exFloat := by
  refine ⟨?_, noZero_bit exBit rfl, ?_⟩ <;>
  · intro i hi
    simp only [exCount, exFloat, List.mem_cons, List.not_mem_nil, or_false] at hi
    rcases hi with rfl | rfl <;> decide +kernel

theorem ex_nonneg : NonnegFp exCount ∧ NonnegFp exBit ∧ NonnegFp exFloat := by
  refine ⟨?_, nonneg_bit exBit rfl, ?_⟩ <;>
  · intro i hi
    simp only [exCount, exFloat, List.mem_cons, List.not_mem_nil, or_false] at hi
    rcases hi with rfl | rfl <;> decide +kernel

/-- a count database of two fingerprints (the second one a bit fingerprint, stored as counts) -/
def exDb : Db := ((Db.new .count 0 (some "db")).add [⟨exCount, some "a", []⟩, ⟨exBit, some "b", []⟩]).1

theorem exDb_ok : ((Db.new .count 0 (some "db")).add [⟨exCount, some "a", []⟩, ⟨exBit, some "b", []⟩]).2 = none := by
  decide +kernel

theorem exDb_facts : exDb.array = some [fpRow .count exCount, fpRow .count exBit] ∧ exDb.Inv ∧ exDb.bits = 8 := by
  obtain ⟨h1, _, h3, h4, _⟩ := built_db .count 0 (some "db") _ exDb_ok
  exact ⟨h1, h3, (h4 ⟨exCount, some "a", []⟩ (by simp)).symm⟩

/-- `dispatch_fp_db`, `dispatch_db_fp`, `dispatch_db_db`, `dispatch_single` apply (all five measures) -/
example (m : Measure) : metricDispatch m (.fp exFloat) (some (.db exDb)) =
    .ok (.inr [ (dbRows (measureCast m) exDb).map
      (fun s => simRows m 8 (fpRow ((measureCast m).getD .float) exFloat) s) ]) :=
  dispatch_fp_db m exFloat exDb _ exDb_facts.1 exDb_facts.2.2.symm (castable_of_inv _ _ exDb_facts.2.1)

example (m : Measure) : metricDispatch m (.db exDb) (some (.fp exFloat)) =
    .ok (.inr ((dbRows (measureCast m) exDb).map
      (fun r => [ simRows m exDb.bits r (fpRow ((measureCast m).getD .float) exFloat) ]))) :=
  dispatch_db_fp m exFloat exDb _ exDb_facts.1 exDb_facts.2.2 (castable_of_inv _ _ exDb_facts.2.1)

example (m : Measure) : metricDispatch m (.db exDb) none = metricDispatch m (.db exDb) (some (.db exDb)) :=
  dispatch_single m exDb _ exDb_facts.1 (castable_of_inv _ _ exDb_facts.2.1)

/-- `dispatch_fp_builtdb`: the entries spelled out against a built database -/
example (m : Measure) : metricDispatch m (.fp exFloat) (some (.db exDb)) =
    .ok (.inr [ [ simRows m 8 (fpRow ((measureCast m).getD .float) exFloat) (castRowO (measureCast m) (fpRow .count exCount)),
                  simRows m 8 (fpRow ((measureCast m).getD .float) exFloat) (castRowO (measureCast m) (fpRow .count exBit)) ] ]) :=
  dispatch_fp_builtdb m exFloat .count 0 (some "db") _ exDb_ok (by intro x hx; simp at hx; rcases hx with rfl | rfl <;> rfl)

/-- `routes_agree` on a count fingerprint against a float fingerprint stored alone in a float database:
all five measures (Tanimoto/Dice: the bit cast of the database agrees with the index sets) -/
example (m : Measure) :
    metricDispatch m (.fp exCount) (some (.db ((Db.new .float 0 none).add [⟨exFloat, none, []⟩]).1))
      = .ok (.inr [[ matrixEntry m exCount exFloat ]]) ∧
    metricDispatch m (.fp exCount) (some (.fp exFloat)) = .ok (.inl (simFp m exCount exFloat)) := by
  obtain ⟨_, hp, hi⟩ := presents_single .float none ⟨exFloat, none, []⟩
  exact routes_agree m _ _ exCount exFloat .count .float (Presents.fp exCount) hp ex_wf.1 ex_wf.2.2.1 rfl
    (Or.inr rfl) trivial (castable_of_inv _ _ hi) ex_storedAs.1 ex_storedAs.2.2
    (fun _ => ⟨ex_noZero.1, ex_noZero.2.2⟩) (fun _ => ⟨ex_nonneg.1, ex_nonneg.2.2⟩) (fun _ => by decide)

/-- the same with both operands as databases of different kinds, and the single-database form -/
example (m : Measure) :
    metricDispatch m (.db ((Db.new .count 0 none).add [⟨exCount, none, []⟩]).1)
      (some (.db ((Db.new .bit 0 none).add [⟨exBit, none, []⟩]).1))
      = .ok (.inr [[ matrixEntry m exCount exBit ]]) := by
  obtain ⟨_, hp, hi⟩ := presents_single .count none ⟨exCount, none, []⟩
  obtain ⟨_, hp', hi'⟩ := presents_single .bit none ⟨exBit, none, []⟩
  exact (routes_agree m _ _ exCount exBit .count .bit hp hp' ex_wf.1 ex_wf.2.1 rfl
    (Or.inl rfl) (castable_of_inv _ _ hi) (castable_of_inv _ _ hi') ex_storedAs.1 ex_storedAs.2.1
    (fun _ => ⟨ex_noZero.1, ex_noZero.2.1⟩) (fun _ => ⟨ex_nonneg.1, ex_nonneg.2.1⟩) (fun _ => by decide)).1

example (m : Measure) :
    metricDispatch m (.db ((Db.new .count 0 none).add [⟨exCount, none, []⟩]).1) none
      = .ok (.inr [[ matrixEntry m exCount exCount ]]) := by
  obtain ⟨_, hp, hi⟩ := presents_single .count none ⟨exCount, none, []⟩
  exact routes_agree_single m _ exCount .count hp ex_wf.1 (castable_of_inv _ _ hi) ex_storedAs.1
    (fun _ => ex_noZero.1) (fun _ => ex_nonneg.1) (fun _ => by decide)

attribute [local instance] decEqExcept in
/-- the concrete values: Tanimoto of `{1,2}` and `{2,7}` is `1/3` by both routes; the Pearson pairs differ
by the factor `8/7` and its square -/
example :
    metricDispatch .tanimoto (.fp exCount) (some (.fp exFloat)) = .ok (.inl (.q (1 / 3))) ∧
    metricDispatch .tanimoto (.fp exCount) (some (.db ((Db.new .float 0 none).add [⟨exFloat, none, []⟩]).1))
      = .ok (.inr [[.q (1 / 3)]]) ∧
    metricDispatch .pearson (.fp exCount) (some (.fp exFloat)) = .ok (.inl (.root (-7 / 32) (439 / 256))) ∧
    metricDispatch .pearson (.fp exCount) (some (.db ((Db.new .float 0 none).add [⟨exFloat, none, []⟩]).1))
      = .ok (.inr [[.root (8 / 7 * (-7 / 32)) ((8 / 7) ^ 2 * (439 / 256))]]) := by
  refine ⟨?_, ?_, ?_, ?_⟩ <;> decide +kernel

theorem exBit_storedAs_count : StoredAs .count exBit := by
  intro i hi
  have : exBit.count i = ((1 : Int) : Rat) := by
    show (if i ∈ exBit.idx then (1 : Rat) else 0) = _
    rw [if_pos hi]; rfl
  rw [this]; exact truncQ_intCast 1

/-- `dispatch_fp_builtdb_eq_def` applies (all five measures): the entries are the definitions on the
count vectors -/
example (m : Measure) : metricDispatch m (.fp exFloat) (some (.db exDb)) =
    .ok (.inr [ [ scaleFor m 8 (defSim m 8 (cntRow exFloat) (cntRow exCount)),
                  scaleFor m 8 (defSim m 8 (cntRow exFloat) (cntRow exBit)) ] ]) := by
  have h := dispatch_fp_builtdb_eq_def m exFloat .count 0 (some "db") _ exDb_ok
    (by intro x hx; simp at hx; rcases hx with rfl | rfl <;> rfl) ex_wf.2.2.1
    (by intro x hx; simp at hx; rcases hx with rfl | rfl; exact ex_wf.1; exact ex_wf.2.1)
    (fun _ => ex_storedAs.2.2)
    (fun _ => ⟨ex_nonneg.2.2, by
      intro x hx; simp at hx
      rcases hx with rfl | rfl
      · rw [fpRow_eq_cntRow _ _ ex_storedAs.1]; exact nonnegRow_cntRow _ ex_nonneg.1
      · rw [fpRow_eq_cntRow _ _ exBit_storedAs_count]; exact nonnegRow_cntRow _ ex_nonneg.2.1⟩)
    (fun _ => by decide)
  simp only [List.map_cons, List.map_nil] at h
  rw [fpRow_eq_cntRow .count exCount ex_storedAs.1, fpRow_eq_cntRow .count exBit exBit_storedAs_count] at h
  exact h

/-- `dispatch_fp_builtdb_routes` applies (all five measures): a float fingerprint against a count database
holding a count and a bit fingerprint returns the two two-fingerprint values -/
example (m : Measure) : metricDispatch m (.fp exFloat) (some (.db exDb)) =
    .ok (.inr [ [ matrixEntry m exFloat exCount, matrixEntry m exFloat exBit ] ]) :=
  dispatch_fp_builtdb_routes m exFloat .count 0 (some "db") _ exDb_ok
    (by intro x hx; simp at hx; rcases hx with rfl | rfl <;> rfl) ex_wf.2.2.1
    (by intro x hx; simp at hx; rcases hx with rfl | rfl; exact ex_wf.1; exact ex_wf.2.1)
    (fun _ => ex_storedAs.2.2)
    (by intro x hx; simp at hx; rcases hx with rfl | rfl; exact ex_storedAs.1; exact exBit_storedAs_count)
    (fun _ => ⟨ex_noZero.2.2, by intro x hx; simp at hx; rcases hx with rfl | rfl; exact ex_noZero.1; exact ex_noZero.2.1⟩)
    (fun _ => ⟨ex_nonneg.2.2, by intro x hx; simp at hx; rcases hx with rfl | rfl; exact ex_nonneg.1; exact ex_nonneg.2.1⟩)
    (fun _ => by decide)

/-- `simFp_eq_def` applies -/
example (m : Measure) : simFp m exCount exFloat = defSim m 8 (cntRow exCount) (cntRow exFloat) :=
  simFp_eq_def m exCount exFloat ex_wf.1 ex_wf.2.2.1 rfl (fun _ => ⟨ex_noZero.1, ex_noZero.2.2⟩)

/-- `dispatch_zero_denominator` applies: the empty fingerprint against a database, and against a fingerprint -/
example (m : Measure) : ∃ r, metricDispatch m (.fp exEmpty) (some (.db exDb)) = .ok r ∧ AllZero r :=
  dispatch_zero_denominator m exEmpty rfl (.db exDb) (by simp [Item.bits, exDb_facts.1, exDb_facts.2.2]; rfl)
    (castable_of_inv _ _ exDb_facts.2.1) (fun g h => by cases h)

example (m : Measure) : ∃ r, metricDispatch m (.fp exEmpty) (some (.fp exFloat)) = .ok r ∧ AllZero r :=
  dispatch_zero_denominator m exEmpty rfl (.fp exFloat) rfl trivial
    (fun g h => by cases h; exact ⟨ex_wf.2.2.2, ex_wf.2.2.1, fun _ => ex_nonneg.2.2⟩)

end E3fpVerif.Props.C06
