import E3fpVerif.Model.Metrics
import E3fpVerif.Lemmas.MergeSD
import E3fpVerif.Lemmas.Binary
import E3fpVerif.Lemmas.Dense
import E3fpVerif.Lemmas.FpRows
/-!
# C06 — similarity measures equal their definitions in every representation

Helper lemmas live in `Lemmas/MergeSD.lean` (merge kernel, `sortRow`, `soergelDef` with an empty
operand), `Lemmas/Binary.lean` (indicator sums, intersection counts, 0/1 rows), `Lemmas/Dense.lean`
(the dense Soergel loop) and `Lemmas/FpRows.lean` (count dictionaries as rows); all in namespace
`E3fpVerif.C06L`.
-/
namespace E3fpVerif.Props.C06
open E3fpVerif E3fpVerif.C06L

/-- a zero denominator scores 0 (never NaN, never an error) in the generated ratio expressions -/
theorem divNan_zero (a : Rat) : Gen.divNan a 0 = 0 := by simp [Gen.divNan]

/-! ## 1. the sparse Soergel merge kernel -/

/-- recursive specification (see `C06L.mergeSD_spec_rec`): on rows with strictly ascending columns
and non-negative values, `mergeSD x y = (Σ_{i∈cols} |x_i − y_i|, Σ_{i∈cols} max x_i y_i)`, `cols` the
merge of the two column lists -/
theorem mergeSD_spec_rec (x y : Row) (hx : SortedRow x) (hy : SortedRow y)
    (nx : NonnegRow x) (ny : NonnegRow y) :
    mergeSD x y = (colSumAbs x y (mergeCols (x.map Prod.fst) (y.map Prod.fst)),
                   colSumMax x y (mergeCols (x.map Prod.fst) (y.map Prod.fst))) :=
  C06L.mergeSD_spec_rec x y hx hy nx ny

/-- the merged column list is `unionCols` -/
theorem unionCols_eq_mergeCols (x y : Row) (hx : SortedRow x) (hy : SortedRow y) :
    unionCols x y = mergeCols (x.map Prod.fst) (y.map Prod.fst) :=
  C06L.unionCols_eq_mergeCols x y hx hy

/-- **`mergeSD_spec`** -/
theorem mergeSD_spec (x y : Row)
    (hx : (x.map Prod.fst).Pairwise (· < ·)) (hy : (y.map Prod.fst).Pairwise (· < ·))
    (nx : ∀ p ∈ x, 0 ≤ p.2) (ny : ∀ p ∈ y, 0 ≤ p.2) :
    (mergeSD x y).1 = sumQ ((unionCols x y).map (fun i => absQ (rowVal x i - rowVal y i))) ∧
    (mergeSD x y).2 = sumQ ((unionCols x y).map (fun i => maxQ (rowVal x i) (rowVal y i))) :=
  C06L.mergeSD_spec x y hx hy nx ny

example : mergeSD [(0, 2), (3, 1)] [(3, 4), (5, 1)] = (6, 7) := by
  have h := mergeSD_spec [(0, 2), (3, 1)] [(3, 4), (5, 1)] (by decide) (by decide)
    (by intro p hp; simp at hp; rcases hp with rfl | rfl <;> grind)
    (by intro p hp; simp at hp; rcases hp with rfl | rfl <;> grind)
  simp [mergeSD]; grind

/-- The non-negativity hypothesis cannot be dropped: the kernel adds an unmatched value as it stands,
the definition takes its absolute value.  (The implementation is only meant for count matrices.) -/
theorem mergeSD_spec_false_for_negative :
    ¬ ((mergeSD [] [(0, -1)]).1
        = sumQ ((unionCols [] [(0, -1)]).map (fun i => absQ (rowVal [] i - rowVal [(0, -1)] i)))) := by
  simp [mergeSD, unionCols, uniq, insertU, sumQ, rowVal, lookupQ, absQ]
  grind

/-- sorting a row that is already sorted is the identity -/
theorem sortRow_of_sorted (r : Row) (h : (r.map Prod.fst).Pairwise (· < ·)) : sortRow r = r :=
  C06L.sortRow_of_sorted r h

example : sortRow [(0, 2), (3, 1)] = [(0, 2), (3, 1)] := sortRow_of_sorted _ (by decide)

/-- **sparse Soergel = definition** on non-empty sorted duplicate-free non-negative rows -/
theorem arrSoergelSparse_eq_def (x y : Row) (ex : x ≠ []) (ey : y ≠ [])
    (hx : SortedRow x) (hy : SortedRow y) (nx : NonnegRow x) (ny : NonnegRow y) :
    arrSoergelSparse x y = soergelDef x y := by
  unfold arrSoergelSparse
  rw [if_neg (by simp [ex, ey]), C06L.sortRow_of_sorted x hx, C06L.sortRow_of_sorted y hy,
    soergelDef_eq]
  have h := C06L.mergeSD_spec x y hx hy nx ny
  simp only [h.1, h.2]
  rfl

example : arrSoergelSparse [(0, 2), (3, 1)] [(3, 4), (5, 1)] = soergelDef [(0, 2), (3, 1)] [(3, 4), (5, 1)] :=
  arrSoergelSparse_eq_def _ _ (by simp) (by simp) (by decide) (by decide)
    (by intro p hp; simp at hp; rcases hp with rfl | rfl <;> grind)
    (by intro p hp; simp at hp; rcases hp with rfl | rfl <;> grind)

/-- with an empty operand the definition is 0 when the values are non-negative … -/
theorem soergelDef_nil_left (y : Row) (ny : ∀ p ∈ y, 0 ≤ p.2) : soergelDef [] y = 0 :=
  C06L.soergelDef_nil_left y ny
theorem soergelDef_nil_right (x : Row) (nx : ∀ p ∈ x, 0 ≤ p.2) : soergelDef x [] = 0 :=
  C06L.soergelDef_nil_right x nx
/-- … and so is the sparse route, unconditionally -/
theorem arrSoergelSparse_nil_left (y : Row) : arrSoergelSparse [] y = 0 := by simp [arrSoergelSparse]
theorem arrSoergelSparse_nil_right (x : Row) : arrSoergelSparse x [] = 0 := by simp [arrSoergelSparse]

/-- sparse Soergel = definition on all sorted duplicate-free non-negative rows, empty or not -/
theorem arrSoergelSparse_eq_def_all (x y : Row)
    (hx : SortedRow x) (hy : SortedRow y) (nx : NonnegRow x) (ny : NonnegRow y) :
    arrSoergelSparse x y = soergelDef x y := by
  by_cases ex : x = []
  · subst ex; rw [arrSoergelSparse_nil_left, C06L.soergelDef_nil_left y ny]
  · by_cases ey : y = []
    · subst ey; rw [arrSoergelSparse_nil_right, C06L.soergelDef_nil_right x nx]
    · exact arrSoergelSparse_eq_def x y ex ey hx hy nx ny

/-! ## 2. symmetry -/

theorem mergeSD_symm (x y : Row) : mergeSD x y = mergeSD y x := C06L.mergeSD_symm x y

theorem unionCols_symm (x y : Row) : unionCols x y = unionCols y x := unionCols_comm x y

theorem soergelDef_symm (x y : Row) : soergelDef x y = soergelDef y x := C06L.soergelDef_symm x y

theorem arrSoergelSparse_symm (x y : Row) : arrSoergelSparse x y = arrSoergelSparse y x := by
  unfold arrSoergelSparse
  rw [C06L.mergeSD_symm (sortRow x) (sortRow y)]
  by_cases h : x = [] ∨ y = []
  · rw [if_pos h, if_pos (Or.symm h)]
  · rw [if_neg h, if_neg (fun h' => h (Or.symm h'))]

theorem strictAsc_rowSupport (x : Row) : StrictAsc (rowSupport x) :=
  strictAsc_filter (strictAsc_rowCols x) _

theorem tanimotoDef_symm (x y : Row) : tanimotoDef x y = tanimotoDef y x := by
  unfold tanimotoDef
  simp only [interCount_comm _ _ (strictAsc_rowSupport x) (strictAsc_rowSupport y),
    Nat.add_comm (rowSupport x).length]

theorem diceDef_symm (x y : Row) : diceDef x y = diceDef y x := by
  unfold diceDef
  simp only [interCount_comm _ _ (strictAsc_rowSupport x) (strictAsc_rowSupport y),
    Nat.add_comm (rowSupport x).length]

theorem dotQ_symm (x y : Row) : dotQ x y = dotQ y x := by
  unfold dotQ
  rw [unionCols_comm x y]
  congr 1
  exact List.map_congr_left (fun k _ => Rat.mul_comm _ _)

theorem cosineDef_symm (x y : Row) :
    (cosineDef x y).1 = (cosineDef y x).1 ∧ (cosineDef x y).2 = (cosineDef y x).2 := by
  unfold cosineDef
  exact ⟨dotQ_symm x y, Rat.mul_comm _ _⟩

theorem pearsonDef_symm (b : Nat) (x y : Row) : pearsonDef b x y = pearsonDef b y x := by
  unfold pearsonDef
  simp only [dotQ_symm x y]
  refine Prod.ext ?_ ?_ <;> simp only <;> grind

theorem arrPearson_symm (b : Nat) (x y : Row) : arrPearson b x y = arrPearson b y x := by
  unfold arrPearson
  simp only [dotQ_symm x y]
  refine Prod.ext ?_ ?_ <;> simp only <;> grind

/-! ## 3. fingerprint Tanimoto / Dice: symmetry, range, self-similarity, empty operands -/

theorem fpTanimoto_symm (f g : Fp) (hf : StrictAsc f.idx) (hg : StrictAsc g.idx) :
    fpTanimoto f g = fpTanimoto g f := by
  unfold fpTanimoto Gen.fpTanimotoExpr
  rw [interCount_comm _ _ hf hg, Rat.add_comm]

theorem fpDice_symm (f g : Fp) (hf : StrictAsc f.idx) (hg : StrictAsc g.idx) :
    fpDice f g = fpDice g f := by
  unfold fpDice Gen.fpDiceExpr
  rw [interCount_comm _ _ hf hg, Rat.add_comm]

example : fpTanimoto ⟨.bit, 8, 0, [1, 2], []⟩ ⟨.bit, 8, 0, [2, 5], []⟩
    = fpTanimoto ⟨.bit, 8, 0, [2, 5], []⟩ ⟨.bit, 8, 0, [1, 2], []⟩ :=
  fpTanimoto_symm _ _ (by decide) (by decide)

/-- `nan_to_num(a / b)` lies in `[0, 1]` whenever `0 ≤ a ≤ b` -/
theorem divNan_range (a b : Rat) (h0 : 0 ≤ a) (h : a ≤ b) :
    0 ≤ Gen.divNan a b ∧ Gen.divNan a b ≤ 1 := by
  unfold Gen.divNan
  by_cases hb : b = 0
  · rw [if_pos hb]; grind
  · rw [if_neg hb]
    have hpos : 0 < b := by grind
    constructor
    · rw [Rat.div_def]
      exact Rat.mul_nonneg h0 (Rat.le_of_lt (Rat.inv_pos.2 hpos))
    · apply Rat.not_lt.1
      intro hlt
      have := (Rat.lt_div_iff hpos).1 hlt
      grind

theorem fpTanimoto_range (f g : Fp) (hf : StrictAsc f.idx) (hg : StrictAsc g.idx) :
    0 ≤ fpTanimoto f g ∧ fpTanimoto f g ≤ 1 := by
  unfold fpTanimoto Gen.fpTanimotoExpr
  have h1 : interCount f.idx g.idx ≤ f.idx.length := interCount_le_left _ _
  have h2 : interCount f.idx g.idx ≤ g.idx.length := interCount_le_right _ _ hf hg
  have h1' := Rat.natCast_le_natCast.2 h1
  have h2' := Rat.natCast_le_natCast.2 h2
  have h0 : (0 : Rat) ≤ (interCount f.idx g.idx : Nat) := Rat.natCast_nonneg
  apply divNan_range _ _ h0
  grind

example : 0 ≤ fpTanimoto ⟨.bit, 8, 0, [1, 2], []⟩ ⟨.bit, 8, 0, [2, 5], []⟩ ∧
    fpTanimoto ⟨.bit, 8, 0, [1, 2], []⟩ ⟨.bit, 8, 0, [2, 5], []⟩ ≤ 1 :=
  fpTanimoto_range _ _ (by decide) (by decide)

theorem fpDice_range (f g : Fp) (hf : StrictAsc f.idx) (hg : StrictAsc g.idx) :
    0 ≤ fpDice f g ∧ fpDice f g ≤ 1 := by
  unfold fpDice Gen.fpDiceExpr
  have h1 : interCount f.idx g.idx ≤ f.idx.length := interCount_le_left _ _
  have h2 : interCount f.idx g.idx ≤ g.idx.length := interCount_le_right _ _ hf hg
  have h1' := Rat.natCast_le_natCast.2 h1
  have h2' := Rat.natCast_le_natCast.2 h2
  have h0 : (0 : Rat) ≤ (interCount f.idx g.idx : Nat) := Rat.natCast_nonneg
  apply divNan_range <;> grind

/-- self-similarity (only non-emptiness is needed) -/
theorem fpTanimoto_self (f : Fp) (h : f.idx ≠ []) : fpTanimoto f f = 1 := by
  unfold fpTanimoto Gen.fpTanimotoExpr Gen.divNan
  rw [interCount_self]
  have : f.idx.length ≠ 0 := by simpa using h
  have : (f.idx.length : Rat) ≠ 0 := by simpa using h
  grind

theorem fpDice_self (f : Fp) (h : f.idx ≠ []) : fpDice f f = 1 := by
  unfold fpDice Gen.fpDiceExpr Gen.divNan
  rw [interCount_self]
  have : (f.idx.length : Rat) ≠ 0 := by simpa using h
  grind

example : fpTanimoto ⟨.bit, 8, 0, [1, 2], []⟩ ⟨.bit, 8, 0, [1, 2], []⟩ = 1 :=
  fpTanimoto_self _ (by simp)

/-- all fingerprint measures are 0 (numerator and radicand 0 for the two root measures) when both
operands are empty -/
theorem zero_is_zero (f g : Fp) (hf : f.idx = []) (hg : g.idx = []) :
    fpTanimoto f g = 0 ∧ fpDice f g = 0 ∧ fpSoergel f g = 0 ∧
    fpCosine f g = (0, 0) ∧ fpPearson f g = (0, 0) := by
  have hT : fpTanimoto f g = 0 := by
    simp [fpTanimoto, Gen.fpTanimotoExpr, Gen.divNan, interCount, hf, hg]; grind
  refine ⟨hT, ?_, ?_, ?_, ?_⟩
  · simp [fpDice, Gen.fpDiceExpr, Gen.divNan, interCount, hf, hg]; grind
  · unfold fpSoergel
    split
    · exact hT
    · simp [hf, hg, uniq]
  · simp [fpCosine, fpDot, fpSq, hf, hg, sumQ]
  · simp [fpPearson, fpDot, fpSq, fpSumC, hf, hg, sumQ]; grind

/-- the same for the matrix measures and the definitions on two empty rows -/
theorem zero_is_zero_rows :
    arrTanimoto [] [] = 0 ∧ arrDice [] [] = 0 ∧ arrSoergelSparse [] [] = 0 ∧
    arrSoergelDense [] [] = 0 ∧ arrCosine [] [] = (0, 0) ∧
    tanimotoDef [] [] = 0 ∧ diceDef [] [] = 0 ∧ soergelDef [] [] = 0 ∧ cosineDef [] [] = (0, 0) := by
  have hd : dotQ [] [] = 0 := by simp [dotQ, unionCols, uniq, sumQ]
  have hs : rowSum [] = 0 := by simp [rowSum, rowCols, uniq, sumQ]
  refine ⟨?_, ?_, ?_, ?_, ?_, ?_, ?_, ?_, ?_⟩
  · simp [arrTanimoto, Gen.arrTanimotoExpr, Gen.divNan, hd, hs]; grind
  · simp [arrDice, Gen.arrDiceExpr, Gen.divNan, hd, hs]; grind
  · simp [arrSoergelSparse]
  · simp [arrSoergelDense]
  · simp [arrCosine, hd]
  · simp [tanimotoDef, divNan, rowSupport, rowCols, uniq, interCount]
  · simp [diceDef, divNan, rowSupport, rowCols, uniq]
  · exact C06L.soergelDef_nil_left [] (fun p hp => by cases hp)
  · simp [cosineDef, hd]

/-! ## 4. Soergel on bit rows is Tanimoto -/

/-- on rows whose stored values are all 1 the Soergel definition is the Tanimoto definition
(sortedness of the columns is not needed: the definitions work on `uniq` of the columns) -/
theorem soergel_binary (x y : Row) (hx : BinaryRow x) (hy : BinaryRow y) :
    soergelDef x y = tanimotoDef x y := by
  rw [soergelDef_eq, colSumMax_binary x y hx hy, colSumAbs_binary x y hx hy,
    tanimotoDef_binary x y hx hy]
  unfold Gen.fpTanimotoExpr Gen.divNan
  split <;> grind

example : soergelDef [(1, 1), (2, 1)] [(2, 1), (5, 1)] = tanimotoDef [(1, 1), (2, 1)] [(2, 1), (5, 1)] :=
  soergel_binary _ _ (by intro p hp; simp at hp; rcases hp with rfl | rfl <;> rfl)
    (by intro p hp; simp at hp; rcases hp with rfl | rfl <;> rfl)

/-! ## 5. fingerprint Tanimoto = definition on the rows of the fingerprints -/

/-- the matrix row of a bit fingerprint -/
def bitRow (f : Fp) : Row := f.idx.map (fun i => (i, (1 : Rat)))

theorem binaryRow_bitRow (f : Fp) : BinaryRow (bitRow f) := by
  intro p hp
  unfold bitRow at hp
  obtain ⟨i, _, rfl⟩ := List.mem_map.1 hp
  rfl

theorem rowCols_bitRow (f : Fp) (h : StrictAsc f.idx) : rowCols (bitRow f) = f.idx := by
  unfold rowCols bitRow
  rw [List.map_map]
  have : (Prod.fst ∘ fun i : Nat => (i, (1 : Rat))) = id := rfl
  rw [this, List.map_id, uniq_of_strictAsc _ h]

theorem fp_eq_def_tanimoto (f g : Fp) (hf : f.WF) (hg : g.WF) :
    fpTanimoto f g = tanimotoDef (bitRow f) (bitRow g) := by
  rw [tanimotoDef_binary _ _ (binaryRow_bitRow f) (binaryRow_bitRow g),
    rowCols_bitRow f hf.1, rowCols_bitRow g hg.1]
  rfl

theorem diceDef_binary (x y : Row) (hx : BinaryRow x) (hy : BinaryRow y) :
    diceDef x y = Gen.fpDiceExpr (interCount (rowCols x) (rowCols y))
      (rowCols x).length (rowCols y).length := by
  unfold diceDef Gen.fpDiceExpr divNan Gen.divNan
  simp only [rowSupport_binary x hx, rowSupport_binary y hy, Rat.natCast_add]

theorem fp_eq_def_dice (f g : Fp) (hf : f.WF) (hg : g.WF) :
    fpDice f g = diceDef (bitRow f) (bitRow g) := by
  rw [diceDef_binary _ _ (binaryRow_bitRow f) (binaryRow_bitRow g),
    rowCols_bitRow f hf.1, rowCols_bitRow g hg.1]
  rfl

/-- bit fingerprints: `fpSoergel` is the Soergel definition on the rows as well -/
theorem fp_eq_def_soergel_bit (f g : Fp) (hf : f.WF) (hg : g.WF)
    (kf : f.kind = .bit) (kg : g.kind = .bit) :
    fpSoergel f g = soergelDef (bitRow f) (bitRow g) := by
  unfold fpSoergel
  rw [if_pos ⟨kf, kg⟩, soergel_binary _ _ (binaryRow_bitRow f) (binaryRow_bitRow g)]
  exact fp_eq_def_tanimoto f g hf hg

theorem wf_example_bit (l : List Nat) (h1 : StrictAsc l) (h2 : ∀ i ∈ l, i < 8) :
    Fp.WF ⟨.bit, 8, 0, l, []⟩ :=
  ⟨h1, h2, fun _ => rfl, fun h => absurd rfl h⟩

example : fpTanimoto ⟨.bit, 8, 0, [1, 2], []⟩ ⟨.bit, 8, 0, [2, 5], []⟩
    = tanimotoDef (bitRow ⟨.bit, 8, 0, [1, 2], []⟩) (bitRow ⟨.bit, 8, 0, [2, 5], []⟩) :=
  fp_eq_def_tanimoto _ _ (wf_example_bit _ (by decide) (by decide)) (wf_example_bit _ (by decide) (by decide))

/-! ## 6. matrix Tanimoto / Dice = definition on bit rows -/

/-- `X·Yᵀ = |X ∩ Y|` and row sum `= |X|` on bit rows -/
theorem dotQ_binary (x y : Row) (hx : BinaryRow x) (hy : BinaryRow y) :
    dotQ x y = (interCount (rowSupport x) (rowSupport y) : Nat) := by
  rw [rowSupport_binary x hx, rowSupport_binary y hy]; exact C06L.dotQ_binary x y hx hy

theorem rowSum_binary (x : Row) (hx : BinaryRow x) : rowSum x = ((rowSupport x).length : Nat) := by
  rw [rowSupport_binary x hx]; exact C06L.rowSum_binary x hx

theorem arrTanimoto_eq_def (x y : Row) (hx : BinaryRow x) (hy : BinaryRow y) :
    arrTanimoto x y = tanimotoDef x y := by
  rw [tanimotoDef_binary x y hx hy]
  unfold arrTanimoto
  rw [C06L.dotQ_binary x y hx hy, C06L.rowSum_binary x hx, C06L.rowSum_binary y hy]
  rfl

theorem arrDice_eq_def (x y : Row) (hx : BinaryRow x) (hy : BinaryRow y) :
    arrDice x y = diceDef x y := by
  rw [diceDef_binary x y hx hy]
  unfold arrDice
  rw [C06L.dotQ_binary x y hx hy, C06L.rowSum_binary x hx, C06L.rowSum_binary y hy]
  rfl

example : arrTanimoto [(1, 1), (2, 1)] [(2, 1), (5, 1)] = tanimotoDef [(1, 1), (2, 1)] [(2, 1), (5, 1)] :=
  arrTanimoto_eq_def _ _ (by intro p hp; simp at hp; rcases hp with rfl | rfl <;> rfl)
    (by intro p hp; simp at hp; rcases hp with rfl | rfl <;> rfl)

/-- all three routes agree on bit fingerprints -/
theorem tanimoto_three_routes (f g : Fp) (hf : f.WF) (hg : g.WF) :
    fpTanimoto f g = arrTanimoto (bitRow f) (bitRow g) ∧
    arrTanimoto (bitRow f) (bitRow g) = tanimotoDef (bitRow f) (bitRow g) := by
  have h := arrTanimoto_eq_def _ _ (binaryRow_bitRow f) (binaryRow_bitRow g)
  exact ⟨(fp_eq_def_tanimoto f g hf hg).trans h.symm, h⟩

/-! ## 7. self-similarity -/

theorem colSumAbs_self (x : Row) (cols : List Nat) : colSumAbs x x cols = 0 := by
  unfold colSumAbs
  have e : cols.map (fun i => absQ (rowVal x i - rowVal x i)) = cols.map (fun _ => (0 : Rat)) :=
    List.map_congr_left (fun k _ => absQ_self _)
  rw [e, sumQ_map_zero]

/-- Soergel self-similarity is 1 for a non-negative row with a positive entry -/
theorem soergelDef_self_one (x : Row) (nx : NonnegRow x) (k : Nat) (hk : 0 < rowVal x k) :
    soergelDef x x = 1 := by
  rw [soergelDef_eq, colSumAbs_self]
  have hmem : k ∈ unionCols x x := by
    apply Classical.byContradiction
    intro hn
    have : k ∉ x.map Prod.fst := by
      intro h; apply hn; unfold unionCols; rw [mem_uniq]; exact List.mem_append_left _ h
    rw [rowVal_of_not_mem x k this] at hk
    exact Rat.lt_irrefl hk
  have hpos : 0 < colSumMax x x (unionCols x x) := by
    unfold colSumMax
    apply sumQ_map_pos _ _ _ k hmem
    · rw [maxQ_self]; exact hk
    · intro a _; rw [maxQ_self]; exact rowVal_nonneg x nx a
  rw [if_neg (Rat.ne_of_gt hpos)]
  grind

theorem rowVal_of_mem_sorted (r : Row) (h : SortedRow r) (p : Nat × Rat) (hp : p ∈ r) :
    rowVal r p.1 = p.2 := by
  induction r with
  | nil => cases hp
  | cons q qs ih =>
    obtain ⟨j, w⟩ := q
    rcases List.mem_cons.1 hp with rfl | hp'
    · exact rowVal_cons_self _ _ _
    · have := h.head_lt p.1 (List.mem_map_of_mem hp')
      rw [rowVal_cons_ne j p.1 w qs (by simp only at this; omega)]
      exact ih h.tail hp'

/-- the same for a sorted duplicate-free row with a positive stored value; both routes -/
theorem self_one (x : Row) (hx : SortedRow x) (nx : NonnegRow x) (p : Nat × Rat) (hp : p ∈ x)
    (hpos : 0 < p.2) : soergelDef x x = 1 ∧ arrSoergelSparse x x = 1 := by
  have h : soergelDef x x = 1 :=
    soergelDef_self_one x nx p.1 (by rw [rowVal_of_mem_sorted x hx p hp]; exact hpos)
  refine ⟨h, ?_⟩
  rw [arrSoergelSparse_eq_def_all x x hx hx nx nx, h]

example : soergelDef [(0, 2), (3, 1)] [(0, 2), (3, 1)] = 1 ∧ arrSoergelSparse [(0, 2), (3, 1)] [(0, 2), (3, 1)] = 1 :=
  self_one _ (by decide) (by intro p hp; simp at hp; rcases hp with rfl | rfl <;> grind)
    (0, 2) (by simp) (by grind)

/-- cosine self-similarity: `num² = rad`, i.e. `num / sqrt rad = 1` when `num > 0` -/
theorem cosine_self (x : Row) : (cosineDef x x).1 ^ 2 = (cosineDef x x).2 ∧ 0 ≤ (cosineDef x x).1 := by
  unfold cosineDef
  refine ⟨by grind, ?_⟩
  unfold dotQ
  apply sumQ_map_nonneg
  intro a _
  have := Rat.nonneg_total (rowVal x a)
  rcases this with h | h
  · exact Rat.mul_nonneg h h
  · have := Rat.mul_nonneg h h; grind

/-! ## 8. the two Pearson normalisations give the same ratio -/

/-- `num² / rad` is the same with the `b − 1` (sparse route) and the `b` (definition) normalisation -/
theorem pearson_routes_agree (b : Nat) (hb : 2 ≤ b) (x y : Row) :
    (arrPearson b x y).1 ^ 2 * (pearsonDef b x y).2 = (pearsonDef b x y).1 ^ 2 * (arrPearson b x y).2 := by
  have h0 : (b : Rat) ≠ 0 := by
    intro h; have := Rat.natCast_eq_zero_iff.1 h; omega
  have h1 : (b : Rat) - 1 ≠ 0 := by
    intro h
    have : (b : Rat) = ((1 : Nat) : Rat) := by simp; grind
    have := Rat.natCast_inj.1 this; omega
  unfold arrPearson pearsonDef
  simp only
  generalize dotQ x y = dxy
  generalize dotQ x x = dxx
  generalize dotQ y y = dyy
  generalize rowSum x = sx
  generalize rowSum y = sy
  generalize (b : Rat) = n at *
  grind

/-- and the signs of the numerators agree, so the two correlation values are equal -/
theorem pearson_num_sign (b : Nat) (hb : 2 ≤ b) (x y : Row) :
    (arrPearson b x y).1 = (pearsonDef b x y).1 * ((b : Rat) / ((b : Rat) - 1)) := by
  have h0 : (b : Rat) ≠ 0 := by
    intro h; have := Rat.natCast_eq_zero_iff.1 h; omega
  have h1 : (b : Rat) - 1 ≠ 0 := by
    intro h
    have : (b : Rat) = ((1 : Nat) : Rat) := by simp; grind
    have := Rat.natCast_inj.1 this; omega
  unfold arrPearson pearsonDef
  simp only
  generalize (b : Rat) = n at *
  grind

example : (arrPearson 4 [(0, 2), (3, 1)] [(3, 4)]).1 ^ 2 * (pearsonDef 4 [(0, 2), (3, 1)] [(3, 4)]).2
    = (pearsonDef 4 [(0, 2), (3, 1)] [(3, 4)]).1 ^ 2 * (arrPearson 4 [(0, 2), (3, 1)] [(3, 4)]).2 :=
  pearson_routes_agree 4 (by decide) _ _

/-! ## 9. further routes: dense Soergel, and the count-dictionary measures -/

/-- the dense double loop equals the definition on the dense forms of two rows (any sign, any order,
duplicates resolved by first entry as in `rowVal`) -/
theorem arrSoergelDense_eq_def (b : Nat) (x y : Row)
    (hx : ∀ p ∈ x, p.1 < b) (hy : ∀ p ∈ y, p.1 < b) :
    arrSoergelDense ((List.range b).map (rowVal x)) ((List.range b).map (rowVal y)) = soergelDef x y :=
  C06L.arrSoergelDense_eq_def b x y hx hy

/-- dense and sparse Soergel routes agree on sorted duplicate-free non-negative rows -/
theorem soergel_dense_sparse_agree (b : Nat) (x y : Row)
    (hx : SortedRow x) (hy : SortedRow y) (nx : NonnegRow x) (ny : NonnegRow y)
    (bx : ∀ p ∈ x, p.1 < b) (bY : ∀ p ∈ y, p.1 < b) :
    arrSoergelDense ((List.range b).map (rowVal x)) ((List.range b).map (rowVal y))
      = arrSoergelSparse x y := by
  rw [arrSoergelDense_eq_def b x y bx bY, arrSoergelSparse_eq_def_all x y hx hy nx ny]

example : arrSoergelDense ((List.range 6).map (rowVal [(0, 2), (3, 1)])) ((List.range 6).map (rowVal [(3, 4), (5, 1)]))
    = arrSoergelSparse [(0, 2), (3, 1)] [(3, 4), (5, 1)] :=
  soergel_dense_sparse_agree 6 _ _ (by decide) (by decide)
    (by intro p hp; simp at hp; rcases hp with rfl | rfl <;> grind)
    (by intro p hp; simp at hp; rcases hp with rfl | rfl <;> grind)
    (by intro p hp; simp at hp; rcases hp with rfl | rfl <;> simp)
    (by intro p hp; simp at hp; rcases hp with rfl | rfl <;> simp)

/-- with a negative value the sparse route leaves the definition (and hence the dense route) -/
theorem arrSoergelSparse_ne_def_negative :
    arrSoergelSparse [(0, 1)] [(1, -1)] = 0 ∧ soergelDef [(0, 1)] [(1, -1)] = -1 := by
  constructor
  · simp [arrSoergelSparse, sortRow, rowCols, uniq, insertU, mergeSD]
    grind
  · simp [soergelDef, unionCols, uniq, insertU, sumQ, rowVal, lookupQ, absQ, maxQ]
    grind

theorem arrCosine_eq_def (x y : Row) : arrCosine x y = cosineDef x y := rfl

/-- `fpCosine` is the cosine definition on the rows of the two fingerprints -/
theorem fp_eq_def_cosine (f g : Fp) (hf : f.WF) (hg : g.WF) :
    fpCosine f g = cosineDef (cntRow f) (cntRow g) := by
  unfold fpCosine cosineDef
  rw [fpDot_eq_dotQ f g hf hg, fpSq_eq_dotQ f hf, fpSq_eq_dotQ g hg]

/-- `fpPearson` is the Pearson definition on the rows, for fingerprints of equal length -/
theorem fp_eq_def_pearson (f g : Fp) (hf : f.WF) (hg : g.WF) (hb : f.bits = g.bits) :
    fpPearson f g = pearsonDef f.bits (cntRow f) (cntRow g) := by
  unfold fpPearson pearsonDef
  rw [fpDot_eq_dotQ f g hf hg, fpSq_eq_dotQ f hf, fpSq_eq_dotQ g hg, fpSumC_eq_rowSum f hf,
    fpSumC_eq_rowSum g hg, ← hb]

theorem bitRow_eq_cntRow (f : Fp) (h : f.kind = .bit) : bitRow f = cntRow f := (cntRow_bit f h).symm

/-- `fpSoergel` is the Soergel definition on the rows, whatever the kinds -/
theorem fp_eq_def_soergel (f g : Fp) (hf : f.WF) (hg : g.WF) :
    fpSoergel f g = soergelDef (cntRow f) (cntRow g) := by
  by_cases hk : f.kind = .bit ∧ g.kind = .bit
  · rw [fp_eq_def_soergel_bit f g hf hg hk.1 hk.2, bitRow_eq_cntRow f hk.1, bitRow_eq_cntRow g hk.2]
  · unfold fpSoergel
    rw [if_neg hk, soergelDef_eq]
    unfold colSumMax colSumAbs
    rw [unionCols_cntRow]
    have e1 : (uniq (f.idx ++ g.idx)).map (fun i => maxQ (rowVal (cntRow f) i) (rowVal (cntRow g) i))
        = (uniq (f.idx ++ g.idx)).map (fun i => maxQ (f.count i) (g.count i)) :=
      List.map_congr_left (fun k _ => by rw [rowVal_cntRow f hf, rowVal_cntRow g hg])
    have e2 : (uniq (f.idx ++ g.idx)).map (fun i => absQ (rowVal (cntRow f) i - rowVal (cntRow g) i))
        = (uniq (f.idx ++ g.idx)).map (fun i => absQ (f.count i - g.count i)) :=
      List.map_congr_left (fun k _ => by rw [rowVal_cntRow f hf, rowVal_cntRow g hg])
    rw [e1, e2]
    simp only
    by_cases hu : uniq (f.idx ++ g.idx) = []
    · rw [if_pos hu, hu]; simp [sumQ]
    · rw [if_neg hu]

theorem wf_example_count : Fp.WF ⟨.count, 8, 0, [1, 2], [(1, 3), (2, 1)]⟩ := by
  refine ⟨by decide, by decide, ?_, ?_⟩
  · intro h; exact absurd h (by decide)
  · intro _; rfl

example : fpSoergel ⟨.count, 8, 0, [1, 2], [(1, 3), (2, 1)]⟩ ⟨.bit, 8, 0, [2, 5], []⟩
    = soergelDef (cntRow ⟨.count, 8, 0, [1, 2], [(1, 3), (2, 1)]⟩) (cntRow ⟨.bit, 8, 0, [2, 5], []⟩) :=
  fp_eq_def_soergel _ _ wf_example_count (wf_example_bit _ (by decide) (by decide))

example : fpPearson ⟨.count, 8, 0, [1, 2], [(1, 3), (2, 1)]⟩ ⟨.bit, 8, 0, [2, 5], []⟩
    = pearsonDef 8 (cntRow ⟨.count, 8, 0, [1, 2], [(1, 3), (2, 1)]⟩) (cntRow ⟨.bit, 8, 0, [2, 5], []⟩) :=
  fp_eq_def_pearson _ _ wf_example_count (wf_example_bit _ (by decide) (by decide)) rfl

end E3fpVerif.Props.C06
