import E3fpVerif.Model.Metrics
namespace E3fpVerif.Props.C06
open E3fpVerif

/-- a zero denominator scores 0 (never NaN, never an error) in the generated ratio expressions -/
theorem divNan_zero (a : Rat) : Gen.divNan a 0 = 0 := by simp [Gen.divNan]

end E3fpVerif.Props.C06
