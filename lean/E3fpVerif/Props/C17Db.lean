import E3fpVerif.Model.Db
import E3fpVerif.Lemmas.DbCols
import E3fpVerif.Lemmas.DbCast
/-!
# C17 — converting whole databases between kinds preserves the non-zero positions and, where representable, the values

`db.as_type(T)` re-casts every stored entry with `castVal T`.  For every database (any stored matrix, also with negative
entries, explicit zeros, unsorted rows), every row and every column:

* to the **bit** kind: the entry is 1 exactly where the stored value is non-zero (`asType_bit_entry`) - negative values are
  non-zero positions like any other;
* to the **float** kind: every value is kept (`asType_float_entry`);
* to the **count** kind: a whole-number value is kept (`asType_count_entry_int`); a value is non-zero afterwards exactly when
  its integer part is (`asType_count_nonzero` - "where representable": 1/2 has no count).
-/
namespace E3fpVerif.Props.C17Db
open E3fpVerif

/-- the matrix of the converted database: every stored entry re-cast, row by row, position by position -/
theorem asType_rows (db d : Db) (a : List Row) (k : Kind) (ha : db.array = some a) (h : db.asType k = .ok d) :
    d.array = some (a.map (fun r => r.map (fun p => (p.1, castVal k p.2)))) ∧ d.fpType = k ∧ d.bits = db.bits ∧
      d.level = db.level ∧ d.fpNames = db.fpNames := by
  unfold Db.asType at h
  rw [ha] at h
  simp only at h
  split at h
  · rename_i d' heq
    cases h
    by_cases hc : ∀ c ∈ db.props, c.2.length = db.fpNames.length
    · rw [fromArray_ok a db.bits db.fpNames k db.level db.name db.props hc] at heq
      cases heq
      exact ⟨rfl, rfl, rfl, rfl, rfl⟩
    · have hne : (Db.fromArray a db.bits db.fpNames k db.level db.name db.props).2 ≠ none := by
        intro hn; exact hc ((fromArray_ok_iff a db.bits db.fpNames k db.level db.name db.props).1 hn)
      rw [heq] at hne; exact absurd rfl hne
  · cases h

/-- row `i` of the converted database is row `i` of the source with every entry re-cast: same length, same columns, in
the same storage order -/
theorem asType_row (db d : Db) (a : List Row) (k : Kind) (ha : db.array = some a) (h : db.asType k = .ok d)
    (i : Nat) (r : Row) (hr : a[i]? = some r) :
    ∃ a', d.array = some a' ∧ a'[i]? = some (r.map (fun p => (p.1, castVal k p.2))) := by
  refine ⟨_, (asType_rows db d a k ha h).1, ?_⟩
  simp [List.getElem?_map, hr]

/-- to the bit kind: 1 exactly on the non-zero entries (whatever their sign) -/
theorem asType_bit_entry (v : Rat) : castVal .bit v = (if v ≠ 0 then 1 else 0) := by
  unfold castVal; by_cases h : v = 0 <;> simp [h]

theorem asType_bit_nonzero (v : Rat) : castVal .bit v ≠ 0 ↔ v ≠ 0 := by
  rw [asType_bit_entry]; by_cases h : v = 0 <;> simp [h]

/-- to the float kind: every value is kept -/
theorem asType_float_entry (v : Rat) : castVal .float v = v := rfl

/-- to the count kind: whole numbers are kept -/
theorem asType_count_entry_int (n : Int) : castVal .count (n : Rat) = (n : Rat) := by
  unfold castVal; exact truncQ_intCast n

/-- ... and a value has a non-zero count exactly when its integer part is non-zero -/
theorem asType_count_nonzero (v : Rat) : castVal .count v ≠ 0 ↔ truncQ v ≠ 0 := by
  unfold castVal; rfl

theorem castVal_nonzero (k : Kind) (hk : k ≠ .count) (v : Rat) : (castVal k v ≠ 0) ↔ (v ≠ 0) := by
  cases k with
  | bit => exact asType_bit_nonzero v
  | count => exact absurd rfl hk
  | float => exact Iff.rfl

/-- re-casting a row to the bit or float kind keeps its non-zero columns, in storage order -/
theorem support_cast (k : Kind) (hk : k ≠ .count) (r : Row) :
    ((r.map (fun p => (p.1, castVal k p.2))).filter (fun p => decide (p.2 ≠ 0))).map Prod.fst =
      (r.filter (fun p => decide (p.2 ≠ 0))).map Prod.fst := by
  induction r with
  | nil => rfl
  | cons p ps ih =>
    simp only [List.map_cons]
    by_cases h0 : p.2 = 0
    · have hc : castVal k p.2 = 0 :=
        Classical.byContradiction (fun hc => ((castVal_nonzero k hk p.2).1 hc) h0)
      rw [List.filter_cons_of_neg (by simp [hc]), List.filter_cons_of_neg (by simp [h0])]
      exact ih
    · have hc : castVal k p.2 ≠ 0 := (castVal_nonzero k hk p.2).2 h0
      rw [List.filter_cons_of_pos (by simp [hc]), List.filter_cons_of_pos (by simp [h0])]
      simp only [List.map_cons]
      rw [ih]

/-- **the set of non-zero positions of every row is preserved** by a conversion to the bit or float kind -/
theorem asType_support (db d : Db) (a : List Row) (k : Kind) (hk : k ≠ .count) (ha : db.array = some a)
    (h : db.asType k = .ok d) (i : Nat) (r : Row) (hr : a[i]? = some r) :
    ∃ a' r', d.array = some a' ∧ a'[i]? = some r' ∧
      (r'.filter (fun p => decide (p.2 ≠ 0))).map Prod.fst = (r.filter (fun p => decide (p.2 ≠ 0))).map Prod.fst := by
  obtain ⟨a', ha', hr'⟩ := asType_row db d a k ha h i r hr
  exact ⟨a', _, ha', hr', support_cast k hk r⟩

/-- non-vacuity: a float database holding a difference fingerprint (negative entries) and an explicit zero -/
def exDb : Db := { fpType := .float, level := 5, name := none, array := some [[(3, -1), (7, (1 : Rat) / 2), (9, 0), (12, 4)]], bits := 16,
                   fpNames := [some "d"], namesMap := updateNamesMap [] [some "d"] 0, props := [] }

example : ∃ d, exDb.asType .bit = .ok d ∧ d.array = some [[(3, 1), (7, 1), (9, 0), (12, 1)]] := by
  refine ⟨_, rfl, ?_⟩; decide +kernel

example : ∃ d, exDb.asType .count = .ok d ∧ d.array = some [[(3, -1), (7, 0), (9, 0), (12, 4)]] := by
  refine ⟨_, rfl, ?_⟩; decide +kernel

end E3fpVerif.Props.C17Db
