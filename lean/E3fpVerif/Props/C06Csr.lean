import E3fpVerif.Model.Csr
import E3fpVerif.Lemmas.Csr
import E3fpVerif.Lemmas.MergeSD
import E3fpVerif.Props.C06
/-!
# C06 (CSR level) — the index walk of `_sparse_soergel` computes the row-level sparse Soergel

`Model/Csr.lean` mirrors the source loop on the raw `data` / `indices` / `indptr` arrays (two emptiness
shortcuts, merge loop, two tail loops, `sum_max == 0` test).  Here: every entry it produces is the
row-level value (`mergeSD`, `arrSoergelSparse`, `soergelDef`) of the two rows the arrays denote
(`Csr.row`).  Helper lemmas are in `Lemmas/Csr.lean` (namespace `E3fpVerif.CsrL`); the loop invariant
is `CsrL.loops_eq`.
-/
namespace E3fpVerif.Props.C06Csr
open E3fpVerif E3fpVerif.C06L E3fpVerif.CsrL

/-- **(a)** the index-walking loop computes `mergeSD` of the two rows it denotes; no sortedness -/
theorem soergelEntry_eq_rows (X Y : Csr) (ncx ncy : Nat) (hX : X.WF ncx) (hY : Y.WF ncy)
    (ix iy : Nat) (hix : ix < X.nrows) (hiy : iy < Y.nrows) :
    X.soergelEntry Y ix iy =
      (if X.row ix = [] ∨ Y.row iy = [] then 0
       else
         let r := mergeSD (X.row ix) (Y.row iy)
         if r.2 = 0 then 0 else 1 - r.1 / r.2) :=
  soergelEntry_eq_rows_of_step X Y ix iy (WF.step hX hix) (WF.step hY hiy)

/-- **(b)** on rows with sorted column indices the entry is `arrSoergelSparse` of the denoted rows -/
theorem soergelEntry_eq_arr (X Y : Csr) (ncx ncy : Nat) (hX : X.WF ncx) (hY : Y.WF ncy)
    (ix iy : Nat) (hix : ix < X.nrows) (hiy : iy < Y.nrows)
    (sx : SortedRow (X.row ix)) (sy : SortedRow (Y.row iy)) :
    X.soergelEntry Y ix iy = arrSoergelSparse (X.row ix) (Y.row iy) := by
  rw [soergelEntry_eq_rows X Y ncx ncy hX hY ix iy hix hiy]
  unfold arrSoergelSparse
  rw [sortRow_of_sorted _ sx, sortRow_of_sorted _ sy]

/-- **(c)** on non-empty sorted non-negative rows the entry is the Soergel similarity by definition -/
theorem soergelEntry_eq_def (X Y : Csr) (ncx ncy : Nat) (hX : X.WF ncx) (hY : Y.WF ncy)
    (ix iy : Nat) (hix : ix < X.nrows) (hiy : iy < Y.nrows)
    (ex : X.row ix ≠ []) (ey : Y.row iy ≠ [])
    (sx : SortedRow (X.row ix)) (sy : SortedRow (Y.row iy))
    (nx : NonnegRow (X.row ix)) (ny : NonnegRow (Y.row iy)) :
    X.soergelEntry Y ix iy = soergelDef (X.row ix) (Y.row iy) := by
  rw [soergelEntry_eq_arr X Y ncx ncy hX hY ix iy hix hiy sx sy]
  exact C06.arrSoergelSparse_eq_def _ _ ex ey sx sy nx ny

/-- **(c)** an empty denoted row scores 0 against every row — whatever the neighbouring rows hold -/
theorem soergelEntry_empty_row (X Y : Csr) (ncx ncy : Nat) (hX : X.WF ncx) (hY : Y.WF ncy)
    (ix iy : Nat) (hix : ix < X.nrows) (hiy : iy < Y.nrows)
    (h : X.row ix = [] ∨ Y.row iy = []) :
    X.soergelEntry Y ix iy = 0 := by
  rw [soergelEntry_eq_rows X Y ncx ncy hX hY ix iy hix hiy, if_pos h]

/-- **(d)** the result matrix holds `soergelEntry` at every position in range -/
theorem soergel_entry (X Y : Csr) (ix iy : Nat) (hix : ix < X.nrows) (hiy : iy < Y.nrows) :
    ((X.soergel Y)[ix]?.bind (·[iy]?)) = some (X.soergelEntry Y ix iy) := by
  unfold Csr.soergel
  rw [List.getElem?_map, List.getElem?_range hix]
  simp only [Option.map_some, Option.bind_some]
  rw [List.getElem?_map, List.getElem?_range hiy]
  rfl

/-- the result matrix has the shape `X.nrows × Y.nrows` -/
theorem soergel_shape (X Y : Csr) :
    (X.soergel Y).length = X.nrows ∧ ∀ r ∈ X.soergel Y, r.length = Y.nrows := by
  unfold Csr.soergel
  refine ⟨by simp, ?_⟩
  intro r hr
  rw [List.mem_map] at hr
  obtain ⟨_, _, rfl⟩ := hr
  simp

/-- the whole result matrix on matrices with sorted rows: `arrSoergelSparse` on all pairs of rows -/
theorem soergel_eq_arr (X Y : Csr) (ncx ncy : Nat) (hX : X.WF ncx) (hY : Y.WF ncy)
    (sx : ∀ r ∈ X.rows, SortedRow r) (sy : ∀ r ∈ Y.rows, SortedRow r) :
    X.soergel Y = X.rows.map (fun x => Y.rows.map (arrSoergelSparse x)) := by
  unfold Csr.soergel Csr.rows
  rw [List.map_map]
  apply List.map_congr_left
  intro ix hix
  rw [List.mem_range] at hix
  simp only [Function.comp_apply]
  rw [List.map_map]
  apply List.map_congr_left
  intro iy hiy
  rw [List.mem_range] at hiy
  exact soergelEntry_eq_arr X Y ncx ncy hX hY ix iy hix hiy
    (sx _ (List.mem_map.mpr ⟨ix, List.mem_range.mpr hix, rfl⟩))
    (sy _ (List.mem_map.mpr ⟨iy, List.mem_range.mpr hiy, rfl⟩))

/-! ## (e) non-vacuity: a 2 × 3 problem, empty rows before non-empty ones

`X` (2 × 4): row 0 empty, row 1 = `{0: 2, 3: 1}`.
`Y` (3 × 4): row 0 = `{3: 4}`, row 1 empty, row 2 = `{0: 1, 2: 3/2, 3: 1}`. -/

def exX : Csr := { data := [2, 1], indices := [0, 3], indptr := [0, 0, 2] }
def exY : Csr := { data := [4, 1, 3/2, 1], indices := [3, 0, 2, 3], indptr := [0, 1, 1, 4] }

example : exX.WF 4 ∧ exY.WF 4 := by decide
example : exX.wfb 4 = true ∧ exY.wfb 4 = true := by decide
example : exX.nrows = 2 ∧ exY.nrows = 3 := by decide
example : exX.rows = [[], [(0, 2), (3, 1)]] := by decide +kernel
example : exY.rows = [[(3, 4)], [], [(0, 1), (2, 3/2), (3, 1)]] := by decide +kernel
example : (∀ r ∈ exX.rows, SortedRow r) ∧ (∀ r ∈ exY.rows, SortedRow r) := by decide +kernel
/-- the loop itself, run on the raw arrays -/
example : exX.soergel exY = [[0, 0, 0], [1/6, 0, 4/9]] := by decide +kernel
/-- the row-level model on the denoted rows gives the same matrix -/
example : exX.rows.map (fun x => exY.rows.map (arrSoergelSparse x)) = [[0, 0, 0], [1/6, 0, 4/9]] := by
  decide +kernel
/-- the entry after an empty `Y` row and after an empty `X` row is a genuine ratio … -/
example : exX.soergelEntry exY 1 2 = 4/9 := by decide +kernel
/-- … and the entry of the empty `Y` row between two non-empty ones is 0 (theorem, not evaluation) -/
example : exX.soergelEntry exY 1 1 = 0 :=
  soergelEntry_empty_row exX exY 4 4 (by decide) (by decide) 1 1 (by decide) (by decide)
    (Or.inr (by decide +kernel))
/-- not well-formed: `indptr` decreasing / not ending at `len(data)` -/
example : ¬ ({ data := [1], indices := [0], indptr := [0, 1, 0] } : Csr).WF 1 := by decide
/-- the theorems' hypotheses hold for the example (instantiating (c)) -/
example : exX.soergelEntry exY 1 2 = soergelDef (exX.row 1) (exY.row 2) :=
  soergelEntry_eq_def exX exY 4 4 (by decide) (by decide) 1 2 (by decide) (by decide)
    (by decide +kernel) (by decide +kernel) (by decide +kernel) (by decide +kernel)
    (by unfold NonnegRow; decide +kernel) (by unfold NonnegRow; decide +kernel)

end E3fpVerif.Props.C06Csr
