import E3fpVerif.Model.DbHist
import E3fpVerif.Props.C16
import E3fpVerif.Props.C05Hist
/-!
# C16 (histories) — a refused operation changes nothing, anywhere in a history

`Props/C16.lean` shows that `add_fingerprints`, `set_prop`, `update_props` validate before the first
mutation.  Here the statement is lifted to the whole operation language of `Model/DbHist.lean`:

* `refusal_atomic` / `spec_refusal_atomic`: a step that answers an error leaves the *pool* as it was
  (every live database, not only the operand), on the operational model and on the specification;
  no invariant is needed;
* `history_refusals_skip`: the refused operations of a history can be struck out — running only the
  accepted ones reaches the same final pool, with the answers of the accepted ones;
  `refused_op_deletable`: a single refused operation can be deleted from any position;
* `add_refused_iff`, `setProp_refused_iff`, `updateProps_refused_iff`, `concat_refused_iff`: when the
  specification refuses.
-/
namespace E3fpVerif.Props.C16Hist
open E3fpVerif

/-! ## pools -/

/-- writing back the value already stored changes nothing -/
theorem _root_.E3fpVerif.PoolOf.put_get_self {α : Type} (p : PoolOf α) (id : String) (d : α)
    (h : p.get? id = some d) : p.put id d = p := by
  induction p with
  | nil => cases h
  | cons e rest ih =>
    obtain ⟨k, w⟩ := e
    by_cases hk : k = id
    · simp only [PoolOf.get?, hk, if_true, Option.some.injEq] at h
      simp [PoolOf.put, hk, h]
    · simp only [PoolOf.get?, hk, if_false] at h
      simp only [PoolOf.put, hk, if_false, List.cons.injEq, true_and]
      exact ih h

theorem putRes_refused {α : Type} (p p' : PoolOf α) (out : String) (r : Except Err α) (e : Err)
    (h : putRes p out r = (p', some e)) : p' = p := by
  cases r with
  | error e' => simp only [putRes, Prod.mk.injEq] at h; exact h.1.symm
  | ok d => simp [putRes] at h

/-- an in-place update that is atomic at the database level is atomic at the pool level -/
theorem inplace_refused {α : Type} (p p' : PoolOf α) (id : String) (f : α → α × Ans) (e : Err)
    (hf : ∀ d, (f d).2.isSome → (f d).1 = d)
    (h : (p.get? id).map (fun d => (p.put id (f d).1, (f d).2)) = some (p', some e)) : p' = p := by
  cases hg : p.get? id with
  | none => rw [hg] at h; cases h
  | some d =>
    rw [hg] at h
    simp only [Option.map_some, Option.some.injEq, Prod.mk.injEq] at h
    obtain ⟨h1, h2⟩ := h
    rw [← h1, hf d (by rw [h2]; rfl)]
    exact PoolOf.put_get_self p id d hg

theorem derive_refused {α : Type} (p p' : PoolOf α) (id out : String) (f : α → Except Err α) (e : Err)
    (h : (p.get? id).map (fun d => putRes p out (f d)) = some (p', some e)) : p' = p := by
  cases hg : p.get? id with
  | none => rw [hg] at h; cases h
  | some d =>
    rw [hg] at h
    simp only [Option.map_some, Option.some.injEq] at h
    exact putRes_refused p p' out _ e h

/-! ## one step -/

/-- **a refused operation leaves the whole pool unchanged** (operational model; no invariant needed) -/
theorem refusal_atomic (p : Pool) (op : DbOp) (p' : Pool) (e : Err) (h : stepOp p op = some (p', some e)) :
    p' = p := by
  cases op with
  | new id k level name => simp [stepOp] at h
  | add id fps => exact inplace_refused p p' id (fun d => d.add fps) e (fun d hd => C16.add_atomic d fps hd) h
  | fromArray id rows bits names k level name props =>
    simp only [stepOp, Option.some.injEq] at h
    cases hr : (Db.fromArray rows bits names k level name props).2 with
    | none => rw [hr] at h; simp at h
    | some e' => rw [hr] at h; simp only [Prod.mk.injEq] at h; exact h.1.symm
  | subset id out names newName => exact derive_refused p p' id out _ e h
  | asType id out k => exact derive_refused p p' id out _ e h
  | fold id out bits k newName => exact derive_refused p p' id out _ e h
  | concat ids out =>
    simp only [stepOp] at h
    cases hg : p.getAll? ids with
    | none => rw [hg] at h; cases h
    | some ds =>
      rw [hg] at h
      simp only [Option.map_some, Option.some.injEq] at h
      exact putRes_refused p p' out _ e h
  | setProp id key vals =>
    exact inplace_refused p p' id (fun d => d.setProp key vals) e (fun d hd => C16.setProp_atomic d key vals hd) h
  | updateProps id cols =>
    exact inplace_refused p p' id (fun d => d.updateProps cols) e (fun d hd => C16.updateProps_atomic d cols hd) h
  | pickle id out => exact derive_refused p p' id out _ e h
  | savezLoad id out => exact derive_refused p p' id out _ e h

theorem spec_add_atomic (s : SDb) (fps : List FpIn) (h : (s.add fps).2.isSome) : (s.add fps).1 = s := by
  unfold SDb.add at h ⊢
  split
  · rfl
  · split
    · rfl
    · split
      · rfl
      · split
        · rfl
        · rename_i h0 h1 h2 h3
          simp [h0, h1, h2, h3] at h

theorem spec_setProp_atomic (s : SDb) (key : String) (vals : List PVal) (h : (s.setProp key vals).2.isSome) :
    (s.setProp key vals).1 = s := by
  unfold SDb.setProp at h ⊢
  split
  · rfl
  · rename_i h0; simp [h0] at h

theorem spec_updateProps_atomic (s : SDb) (cols : List (String × List PVal)) (h : (s.updateProps cols).2.isSome) :
    (s.updateProps cols).1 = s := by
  unfold SDb.updateProps at h ⊢
  by_cases c : cols.any (fun c => decide (c.2.length ≠ s.rows.length)) = true
  · rw [if_pos c]
  · rw [if_neg c] at h; simp at h

/-- **a refused operation leaves the whole pool unchanged** (specification) -/
theorem spec_refusal_atomic (p : SPool) (op : DbOp) (p' : SPool) (e : Err)
    (h : specStep p op = some (p', some e)) : p' = p := by
  cases op with
  | new id k level name => simp [specStep] at h
  | add id fps => exact inplace_refused p p' id (fun d => d.add fps) e (fun d hd => spec_add_atomic d fps hd) h
  | fromArray id rows bits names k level name props =>
    simp only [specStep, Option.some.injEq] at h
    exact putRes_refused p p' id _ e h
  | subset id out names newName => exact derive_refused p p' id out _ e h
  | asType id out k => exact derive_refused p p' id out _ e h
  | fold id out bits k newName => exact derive_refused p p' id out _ e h
  | concat ids out =>
    simp only [specStep] at h
    cases hg : p.getAll? ids with
    | none => rw [hg] at h; cases h
    | some ds =>
      rw [hg] at h
      simp only [Option.map_some, Option.some.injEq] at h
      exact putRes_refused p p' out _ e h
  | setProp id key vals =>
    exact inplace_refused p p' id (fun d => d.setProp key vals) e (fun d hd => spec_setProp_atomic d key vals hd) h
  | updateProps id cols =>
    exact inplace_refused p p' id (fun d => d.updateProps cols) e (fun d hd => spec_updateProps_atomic d cols hd) h
  | pickle id out => exact derive_refused p p' id out _ e h
  | savezLoad id out => exact derive_refused p p' id out _ e h

/-! ## histories -/

/-- the operations of a history that were accepted (answer `none`), given the answers -/
def accepted : List DbOp → List Ans → List DbOp
  | op :: ops, a :: as => if a.isNone then op :: accepted ops as else accepted ops as
  | _, _ => []

theorem runOps_cons (p : Pool) (op : DbOp) (rest : List DbOp) (q : Pool) (as : List Ans)
    (h : runOps p (op :: rest) = some (q, as)) :
    ∃ p' a as', stepOp p op = some (p', a) ∧ runOps p' rest = some (q, as') ∧ as = a :: as' := by
  unfold runOps at h
  cases hst : stepOp p op with
  | none => rw [hst] at h; cases h
  | some r =>
    obtain ⟨p', a⟩ := r
    rw [hst] at h
    dsimp only at h
    cases hr : runOps p' rest with
    | none => rw [hr] at h; cases h
    | some r' =>
      obtain ⟨p'', as'⟩ := r'
      rw [hr] at h
      simp only [Option.some.injEq, Prod.mk.injEq] at h
      exact ⟨p', a, as', rfl, by rw [← h.1]; exact hr, h.2.symm⟩

theorem runOps_cons_eq (p p' q : Pool) (op : DbOp) (rest : List DbOp) (a : Ans) (as' : List Ans)
    (h1 : stepOp p op = some (p', a)) (h2 : runOps p' rest = some (q, as')) :
    runOps p (op :: rest) = some (q, a :: as') := by
  unfold runOps; rw [h1]; dsimp only; rw [h2]

/-- **the refused operations of a history can be struck out**: running only the accepted operations
reaches the same final pool, and each of them is accepted again -/
theorem history_refusals_skip (p : Pool) (ops : List DbOp) (q : Pool) (as : List Ans)
    (h : runOps p ops = some (q, as)) :
    runOps p (accepted ops as) = some (q, as.filter (·.isNone)) := by
  induction ops generalizing p as with
  | nil =>
    simp only [runOps, Option.some.injEq, Prod.mk.injEq] at h
    obtain ⟨rfl, rfl⟩ := h
    rfl
  | cons op rest ih =>
    obtain ⟨p', a, as', hst, hr, rfl⟩ := runOps_cons p op rest q as h
    cases a with
    | none =>
      simp only [accepted, Option.isNone_none, if_true, List.filter_cons_of_pos]
      exact runOps_cons_eq p p' q op _ none _ hst (ih p' as' hr)
    | some e =>
      have : p' = p := refusal_atomic p op p' e hst
      subst this
      simp only [accepted, Option.isNone_some, Bool.false_eq_true, if_false]
      rw [List.filter_cons_of_neg (by simp)]
      exact ih p' as' hr

/-- every answer of the struck-out history is an acceptance, and there are as many as accepted operations -/
theorem accepted_answers (ops : List DbOp) (as : List Ans) (hl : as.length = ops.length) :
    (as.filter (·.isNone)).length = (accepted ops as).length ∧ ∀ a ∈ as.filter (·.isNone), a = none := by
  constructor
  · induction ops generalizing as with
    | nil => cases as <;> simp_all [accepted]
    | cons op rest ih =>
      cases as with
      | nil => simp at hl
      | cons a as' =>
        have := ih as' (by simpa using hl)
        cases a <;> simp [accepted, this]
  · intro a ha
    have := (List.mem_filter.1 ha).2
    cases a <;> simp_all

theorem runOps_length (p : Pool) (ops : List DbOp) (q : Pool) (as : List Ans) (h : runOps p ops = some (q, as)) :
    as.length = ops.length := by
  induction ops generalizing p as with
  | nil =>
    simp only [runOps, Option.some.injEq, Prod.mk.injEq] at h
    rw [← h.2]; rfl
  | cons op rest ih =>
    obtain ⟨p', a, as', _, hr, rfl⟩ := runOps_cons p op rest q as h
    simp [ih p' as' hr]

/-- **a refused operation can be deleted from any position of a history**: the final pool and all
other answers stay -/
theorem refused_op_deletable (p : Pool) (xs ys : List DbOp) (op : DbOp) (q : Pool) (as : List Ans) (e : Err)
    (h : runOps p (xs ++ op :: ys) = some (q, as)) (ha : as[xs.length]? = some (some e)) :
    runOps p (xs ++ ys) = some (q, as.eraseIdx xs.length) := by
  induction xs generalizing p as with
  | nil =>
    obtain ⟨p', a, as', hst, hr, rfl⟩ := runOps_cons p op ys q as h
    simp only [List.length_nil, List.getElem?_cons_zero, Option.some.injEq] at ha
    subst ha
    have : p' = p := refusal_atomic p op p' e hst
    subst this
    simpa using hr
  | cons x xs ih =>
    obtain ⟨p', a, as', hst, hr, rfl⟩ := runOps_cons p x (xs ++ op :: ys) q as h
    simp only [List.length_cons, List.getElem?_cons_succ] at ha
    have := ih p' as' hr ha
    simp only [List.cons_append, List.length_cons, List.eraseIdx_cons_succ]
    exact runOps_cons_eq p p' q x _ a _ hst this

/-! ## when the specification refuses -/

theorem add_refused_iff (s : SDb) (fps : List FpIn) :
    (s.add fps).2.isSome ↔
      fps = [] ∨ (∃ f ∈ fps, f.fp.level ≠ s.level) ∨ (∃ f ∈ fps, f.fp.bits ≠ s.expectedBits fps) ∨
        (∃ f ∈ fps, ∃ k ∈ s.expectedKeys fps, propLookup f.props k = none) := by
  have e0 : fps.isEmpty = true ↔ fps = [] := List.isEmpty_iff
  have e1 : fps.any (fun f => f.fp.level != s.level) = true ↔ ∃ f ∈ fps, f.fp.level ≠ s.level := by simp
  have e2 : fps.any (fun f => f.fp.bits != s.expectedBits fps) = true ↔ ∃ f ∈ fps, f.fp.bits ≠ s.expectedBits fps := by
    simp
  have e3 : fps.any (fun f => (s.expectedKeys fps).any (fun k => (propLookup f.props k).isNone)) = true ↔
      ∃ f ∈ fps, ∃ k ∈ s.expectedKeys fps, propLookup f.props k = none := by simp
  unfold SDb.add
  rw [← e0, ← e1, ← e2, ← e3]
  by_cases c0 : fps.isEmpty = true <;> by_cases c1 : fps.any (fun f => f.fp.level != s.level) = true <;>
    by_cases c2 : fps.any (fun f => f.fp.bits != s.expectedBits fps) = true <;>
    by_cases c3 : fps.any (fun f => (s.expectedKeys fps).any (fun k => (propLookup f.props k).isNone)) = true <;>
    simp [c0, c1, c2, c3]

theorem setProp_refused_iff (s : SDb) (key : String) (vals : List PVal) :
    (s.setProp key vals).2.isSome ↔ vals.length ≠ s.rows.length := by
  unfold SDb.setProp
  by_cases c : vals.length ≠ s.rows.length <;> simp [c]

theorem updateProps_refused_iff (s : SDb) (cols : List (String × List PVal)) :
    (s.updateProps cols).2.isSome ↔ ∃ c ∈ cols, c.2.length ≠ s.rows.length := by
  have e : cols.any (fun c => decide (c.2.length ≠ s.rows.length)) = true ↔ ∃ c ∈ cols, c.2.length ≠ s.rows.length := by
    simp
  unfold SDb.updateProps
  rw [← e]
  by_cases c : cols.any (fun c => decide (c.2.length ≠ s.rows.length)) = true
  · rw [if_pos c]; exact ⟨fun _ => c, fun _ => rfl⟩
  · rw [if_neg c]; exact ⟨fun h => by simp at h, fun h => absurd h c⟩

/-- `concat` of a non-empty list is refused exactly when an operand differs in level, length or kind,
an operand has no rows yet (`bits = none`), or an operand that has rows lacks a column another has -/
theorem concat_refused_iff (s0 : SDb) (rest : List SDb) :
    (∃ e, SDb.concat (s0 :: rest) = .error e) ↔
      (∃ d ∈ s0 :: rest, d.level ≠ s0.level) ∨ (∃ d ∈ s0 :: rest, d.bits ≠ s0.bits) ∨
      (∃ d ∈ s0 :: rest, d.kind ≠ s0.kind) ∨ (∃ d ∈ s0 :: rest, d.bits = none) ∨
      (∃ d ∈ s0 :: rest, d.rows ≠ [] ∧ ∃ k ∈ concatKeysS (s0 :: rest), k ∉ d.keys) := by
  have e1 : (s0 :: rest).any (fun d => d.level != s0.level) = true ↔ ∃ d ∈ s0 :: rest, d.level ≠ s0.level := by simp
  have e2 : (s0 :: rest).any (fun d => d.bits != s0.bits) = true ↔ ∃ d ∈ s0 :: rest, d.bits ≠ s0.bits := by simp
  have e3 : (s0 :: rest).any (fun d => d.kind != s0.kind) = true ↔ ∃ d ∈ s0 :: rest, d.kind ≠ s0.kind := by simp
  have e4 : (s0 :: rest).any (fun d => d.bits.isNone) = true ↔ ∃ d ∈ s0 :: rest, d.bits = none := by simp
  have e5 : (s0 :: rest).any (fun d => !d.rows.isEmpty && (concatKeysS (s0 :: rest)).any (fun k => !d.keys.contains k)) = true ↔
      ∃ d ∈ s0 :: rest, d.rows ≠ [] ∧ ∃ k ∈ concatKeysS (s0 :: rest), k ∉ d.keys := by
    simp only [List.any_eq_true, Bool.and_eq_true, Bool.not_eq_true', List.isEmpty_eq_false_iff,
      List.contains_eq_mem, decide_eq_false_iff_not, ne_eq]
  unfold SDb.concat
  simp only
  rw [← e1, ← e2, ← e3, ← e4, ← e5]
  generalize (s0 :: rest).any (fun d => d.level != s0.level) = c1
  generalize (s0 :: rest).any (fun d => d.bits != s0.bits) = c2
  generalize (s0 :: rest).any (fun d => d.kind != s0.kind) = c3
  generalize (s0 :: rest).any (fun d => d.bits.isNone) = c4
  generalize (s0 :: rest).any (fun d => !d.rows.isEmpty && (concatKeysS (s0 :: rest)).any (fun k => !d.keys.contains k)) = c5
  cases c1 <;> cases c2 <;> cases c3 <;> cases c4 <;> cases c5 <;> simp

/-! ## non-vacuity -/

section Examples

private def f0 : Fp := ⟨.bit, 8, 0, [1, 2], []⟩
private def f1 : Fp := ⟨.bit, 8, 0, [3], []⟩
private def fBad : Fp := ⟨.bit, 8, 1, [4], []⟩

private def o0 : DbOp := .new "a" .bit 0 none
private def o1 : DbOp := .add "a" [⟨f0, some "x", []⟩]
/-- refused: the second fingerprint has level 1, the database level 0 -/
private def o2 : DbOp := .add "a" [⟨f1, some "y", []⟩, ⟨fBad, some "z", []⟩]
private def o3 : DbOp := .add "a" [⟨f1, some "y", []⟩]
private def o4 : DbOp := .subset "a" "s" ["y"] none

/-- a history with a refused `add` (a fingerprint of level 1 for a level-0 database) in the middle -/
def exOps : List DbOp := [o0, o1, o2, o3, o4]

theorem exOps_accepted : accepted exOps [none, none, some .value, none, none] = [o0, o1, o3, o4] := rfl

/-- the third operation is refused with a `ValueError`, the others are accepted; striking it out gives
the history of the four accepted operations, which reaches the same pool (two rows `x`, `y` in `"a"`,
not three or four) -/
theorem exOps_refused :
    (runOps [] exOps).map (·.2) = some [none, none, some .value, none, none] ∧
    (runOps [] [o0, o1, o3, o4]).map (·.2) = some [none, none, none, none] ∧
    (runOps [] [o0, o1, o3, o4]).map (fun r => absPool r.1) = (runOps [] exOps).map (fun r => absPool r.1) ∧
    ((runOps [] exOps).bind (fun r => (absPool r.1).get? "a")).map (fun s => s.rows.map (·.name)) =
      some [some "x", some "y"] := by
  decide +kernel

/-- `history_refusals_skip` and `refused_op_deletable` apply to it -/
example : ∃ q, runOps [] exOps = some (q, [none, none, some .value, none, none]) ∧
    runOps [] [o0, o1, o3, o4] = some (q, [none, none, none, none]) ∧
    runOps [] ([o0, o1] ++ [o3, o4]) = some (q, [none, none, none, none]) := by
  have h : (runOps [] exOps).map (·.2) = some [none, none, some .value, none, none] := exOps_refused.1
  cases hr : runOps [] exOps with
  | none => rw [hr] at h; cases h
  | some r =>
    obtain ⟨q, as⟩ := r
    rw [hr] at h
    simp only [Option.map_some, Option.some.injEq] at h
    subst h
    refine ⟨q, rfl, ?_, ?_⟩
    · have := history_refusals_skip [] exOps q _ hr
      rwa [exOps_accepted] at this
    · exact refused_op_deletable [] [o0, o1] [o3, o4] o2 q _ .value hr rfl

end Examples

end E3fpVerif.Props.C16Hist
