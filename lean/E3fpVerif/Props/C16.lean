import E3fpVerif.Model.Db
/-!
# C16 — a database refuses incompatible input atomically

`Db.add`, `Db.setProp`, `Db.updateProps`, `Db.concat` model `add_fingerprints`, `set_prop`,
`update_props`, `concat` as the code performs them: every validation before the first mutation.
-/
namespace E3fpVerif.Props.C16
open E3fpVerif

/-- a refused addition leaves every component of the database (rows, names, name index,
properties) as it was -/
theorem add_atomic (db : Db) (fps : List FpIn) (h : (db.add fps).2.isSome) : (db.add fps).1 = db := by
  unfold Db.add at h ⊢
  by_cases c0 : fps.isEmpty = true
  · simp [c0]
  · by_cases c1 : db.badLevel fps = true
    · simp [c0, c1]
    · by_cases c2 : db.badBits fps = true
      · simp [c0, c1, c2]
      · by_cases c3 : db.badProps fps = true
        · simp [c0, c1, c2, c3]
        · simp [c0, c1, c2, c3] at h

/-- refusal happens exactly when some fingerprint of the (non-empty) batch has the wrong level,
the wrong length, or lacks one of the database's properties — wherever in the batch it sits -/
theorem add_refuses_iff (db : Db) (fps : List FpIn) (hne : fps ≠ []) :
    (db.add fps).2.isSome ↔
      (∃ f ∈ fps, f.fp.level ≠ db.level) ∨
      (∃ f ∈ fps, f.fp.bits ≠ db.expectedBits fps) ∨
      (∃ f ∈ fps, ∃ k ∈ db.expectedProps fps, propLookup f.props k = none) := by
  have c0 : fps.isEmpty = false := by cases fps <;> simp_all
  have e1 : db.badLevel fps = true ↔ ∃ f ∈ fps, f.fp.level ≠ db.level := by simp [Db.badLevel]
  have e2 : db.badBits fps = true ↔ ∃ f ∈ fps, f.fp.bits ≠ db.expectedBits fps := by simp [Db.badBits]
  have e3 : db.badProps fps = true ↔ ∃ f ∈ fps, ∃ k ∈ db.expectedProps fps, propLookup f.props k = none := by
    simp [Db.badProps]
  unfold Db.add
  rw [← e1, ← e2, ← e3]
  by_cases c1 : db.badLevel fps = true <;> by_cases c2 : db.badBits fps = true <;>
    by_cases c3 : db.badProps fps = true <;> simp [c0, c1, c2, c3]

/-- the position of the offending fingerprint is irrelevant: any permutation of the batch that
keeps the first element is refused alike (the first element fixes the expected length of an
empty database) -/
theorem add_refusal_position_free (db : Db) (f0 : FpIn) (r₁ r₂ : List FpIn) (hp : r₁.Perm r₂) :
    (db.add (f0 :: r₁)).2.isSome = (db.add (f0 :: r₂)).2.isSome := by
  have key : ∀ r, (db.add (f0 :: r)).2.isSome = true ↔ _ := fun r => add_refuses_iff db (f0 :: r) (by simp)
  have hx : ∀ (P : FpIn → Prop), (∃ f ∈ f0 :: r₁, P f) ↔ (∃ f ∈ f0 :: r₂, P f) := by
    intro P; simp only [List.mem_cons]
    constructor <;> rintro ⟨f, hf | hf, hP⟩
    · exact ⟨f, Or.inl hf, hP⟩
    · exact ⟨f, Or.inr (hp.mem_iff.1 hf), hP⟩
    · exact ⟨f, Or.inl hf, hP⟩
    · exact ⟨f, Or.inr (hp.mem_iff.2 hf), hP⟩
  have hb : db.expectedBits (f0 :: r₁) = db.expectedBits (f0 :: r₂) := by simp [Db.expectedBits]
  have hq : db.expectedProps (f0 :: r₁) = db.expectedProps (f0 :: r₂) := by simp [Db.expectedProps]
  rw [Bool.eq_iff_iff, key r₁, key r₂, hb, hq, hx, hx, hx]

theorem setProp_atomic (db : Db) (k : String) (v : List PVal) (h : (db.setProp k v).2.isSome) :
    (db.setProp k v).1 = db := by
  unfold Db.setProp at h ⊢
  by_cases c : v.length ≠ db.fpNames.length
  · simp [c]
  · simp [c] at h

theorem setProp_refuses_iff (db : Db) (k : String) (v : List PVal) :
    (db.setProp k v).2.isSome ↔ v.length ≠ db.fpNames.length := by
  unfold Db.setProp
  by_cases c : v.length ≠ db.fpNames.length <;> simp [c]

theorem updateProps_atomic (db : Db) (ps : List (String × List PVal)) (h : (db.updateProps ps).2.isSome) :
    (db.updateProps ps).1 = db := by
  unfold Db.updateProps at h ⊢
  by_cases c : db.badCols ps = true
  · simp [c]
  · simp [c] at h

theorem updateProps_refuses_iff (db : Db) (ps : List (String × List PVal)) :
    (db.updateProps ps).2.isSome ↔ ∃ c ∈ ps, c.2.length ≠ db.fpNames.length := by
  have e : db.badCols ps = true ↔ ∃ c ∈ ps, c.2.length ≠ db.fpNames.length := by simp [Db.badCols]
  unfold Db.updateProps
  rw [← e]
  by_cases c : db.badCols ps = true <;> simp [c]

/-- non-vacuity: a batch whose last fingerprint has the wrong level is refused and the (non-empty)
database keeps its row -/
example :
    let f : Fp := ⟨.bit, 8, 0, [1, 2], []⟩
    let g : Fp := ⟨.bit, 8, 1, [3], []⟩
    let db := (Db.new .bit 0 none).addOk [⟨f, some "a", []⟩]
    (db.add [⟨f, some "b", []⟩, ⟨g, some "c", []⟩]).2 = some .value ∧
      (db.add [⟨f, some "b", []⟩, ⟨g, some "c", []⟩]).1 = db := by decide

end E3fpVerif.Props.C16
