import E3fpVerif.Model.Db
import E3fpVerif.Props.C05
/-!
# C16 — a database refuses incompatible input atomically

`Db.add`, `Db.setProp`, `Db.updateProps`, `Db.concat` model `add_fingerprints`, `set_prop`,
`update_props`, `concat` as the code performs them: every validation before the first mutation.
-/
namespace E3fpVerif.Props.C16
open E3fpVerif

/-- a refused addition leaves every component of the database (rows, names, name index,
properties) as it was -/
theorem add_atomic (db : Db) (fps : List FpIn) (h : (db.add fps).2.isSome) : (db.add fps).1 = db := by
  unfold Db.add at h ⊢
  by_cases c0 : fps.isEmpty = true
  · simp [c0]
  · by_cases c1 : db.badLevel fps = true
    · simp [c0, c1]
    · by_cases c2 : db.badBits fps = true
      · simp [c0, c1, c2]
      · by_cases c3 : db.badProps fps = true
        · simp [c0, c1, c2, c3]
        · simp [c0, c1, c2, c3] at h

/-- refusal happens exactly when some fingerprint of the (non-empty) batch has the wrong level,
the wrong length, or lacks one of the database's properties — wherever in the batch it sits -/
theorem add_refuses_iff (db : Db) (fps : List FpIn) (hne : fps ≠ []) :
    (db.add fps).2.isSome ↔
      (∃ f ∈ fps, f.fp.level ≠ db.level) ∨
      (∃ f ∈ fps, f.fp.bits ≠ db.expectedBits fps) ∨
      (∃ f ∈ fps, ∃ k ∈ db.expectedProps fps, propLookup f.props k = none) := by
  have c0 : fps.isEmpty = false := by cases fps <;> simp_all
  have e1 : db.badLevel fps = true ↔ ∃ f ∈ fps, f.fp.level ≠ db.level := by simp [Db.badLevel]
  have e2 : db.badBits fps = true ↔ ∃ f ∈ fps, f.fp.bits ≠ db.expectedBits fps := by simp [Db.badBits]
  have e3 : db.badProps fps = true ↔ ∃ f ∈ fps, ∃ k ∈ db.expectedProps fps, propLookup f.props k = none := by
    simp [Db.badProps]
  unfold Db.add
  rw [← e1, ← e2, ← e3]
  by_cases c1 : db.badLevel fps = true <;> by_cases c2 : db.badBits fps = true <;>
    by_cases c3 : db.badProps fps = true <;> simp [c0, c1, c2, c3]

/-- the position of the offending fingerprint is irrelevant: any permutation of the batch that
keeps the first element is refused alike (the first element fixes the expected length of an
empty database) -/
theorem add_refusal_position_free (db : Db) (f0 : FpIn) (r₁ r₂ : List FpIn) (hp : r₁.Perm r₂) :
    (db.add (f0 :: r₁)).2.isSome = (db.add (f0 :: r₂)).2.isSome := by
  have key : ∀ r, (db.add (f0 :: r)).2.isSome = true ↔ _ := fun r => add_refuses_iff db (f0 :: r) (by simp)
  have hx : ∀ (P : FpIn → Prop), (∃ f ∈ f0 :: r₁, P f) ↔ (∃ f ∈ f0 :: r₂, P f) := by
    intro P; simp only [List.mem_cons]
    constructor <;> rintro ⟨f, hf | hf, hP⟩
    · exact ⟨f, Or.inl hf, hP⟩
    · exact ⟨f, Or.inr (hp.mem_iff.1 hf), hP⟩
    · exact ⟨f, Or.inl hf, hP⟩
    · exact ⟨f, Or.inr (hp.mem_iff.2 hf), hP⟩
  have hb : db.expectedBits (f0 :: r₁) = db.expectedBits (f0 :: r₂) := by simp [Db.expectedBits]
  have hq : db.expectedProps (f0 :: r₁) = db.expectedProps (f0 :: r₂) := by simp [Db.expectedProps]
  rw [Bool.eq_iff_iff, key r₁, key r₂, hb, hq, hx, hx, hx]

theorem setProp_atomic (db : Db) (k : String) (v : List PVal) (h : (db.setProp k v).2.isSome) :
    (db.setProp k v).1 = db := by
  unfold Db.setProp at h ⊢
  by_cases c : v.length ≠ db.fpNames.length
  · simp [c]
  · simp [c] at h

theorem setProp_refuses_iff (db : Db) (k : String) (v : List PVal) :
    (db.setProp k v).2.isSome ↔ v.length ≠ db.fpNames.length := by
  unfold Db.setProp
  by_cases c : v.length ≠ db.fpNames.length <;> simp [c]

theorem updateProps_atomic (db : Db) (ps : List (String × List PVal)) (h : (db.updateProps ps).2.isSome) :
    (db.updateProps ps).1 = db := by
  unfold Db.updateProps at h ⊢
  by_cases c : db.badCols ps = true
  · simp [c]
  · simp [c] at h

theorem updateProps_refuses_iff (db : Db) (ps : List (String × List PVal)) :
    (db.updateProps ps).2.isSome ↔ ∃ c ∈ ps, c.2.length ≠ db.fpNames.length := by
  have e : db.badCols ps = true ↔ ∃ c ∈ ps, c.2.length ≠ db.fpNames.length := by simp [Db.badCols]
  unfold Db.updateProps
  rw [← e]
  by_cases c : db.badCols ps = true <;> simp [c]

/-- non-vacuity: a batch whose last fingerprint has the wrong level is refused and the (non-empty)
database keeps its row -/
example :
    let f : Fp := ⟨.bit, 8, 0, [1, 2], []⟩
    let g : Fp := ⟨.bit, 8, 1, [3], []⟩
    let db := (Db.new .bit 0 none).addOk [⟨f, some "a", []⟩]
    (db.add [⟨f, some "b", []⟩, ⟨g, some "c", []⟩]).2 = some .value ∧
      (db.add [⟨f, some "b", []⟩, ⟨g, some "c", []⟩]).1 = db := by decide

/-! ## `concat`

`Db.concat` takes its operands by value and returns a new database (or an error): the operands
are unchanged by construction, so a refusal is trivially atomic.  What remains to be said is
*when* it refuses. -/

/-- the property keys of a concatenation: every key of every operand, in order of first occurrence -/
def concatKeys (dbs : List Db) : List String :=
  dbs.foldl (fun acc d => d.props.foldl (fun acc2 c => if acc2.contains c.1 then acc2 else acc2 ++ [c.1]) acc)
    ([] : List String)

/-- the rows of a concatenation: the rows of the operands, in order -/
def concatRows (dbs : List Db) : List Row := dbs.flatMap (fun d => d.array.getD [])

/-- the column a concatenation builds for key `k`: the operands' columns (nothing for an operand
without the key), in order -/
def concatCol (dbs : List Db) (k : String) : List PVal := dbs.flatMap (fun d => (colLookup d.props k).getD [])

/-- the checks of `concat`, as one decision: which error, if any -/
theorem concat_eq (d0 : Db) (rest : List Db) :
    Db.concat (d0 :: rest) =
      if (d0 :: rest).any (fun d => d.level != d0.level) then .error .type
      else if (d0 :: rest).any (fun d => (d.array.map (fun _ => d.bits)) != (d0.array.map (fun _ => d0.bits))) then .error .type
      else if (d0 :: rest).any (fun d => d.fpType != d0.fpType) then .error .type
      else if (d0 :: rest).any (fun d => d.array.isNone) then .error .other
      else if (concatKeys (d0 :: rest)).any (fun k => decide ((concatCol (d0 :: rest) k).length ≠ (concatRows (d0 :: rest)).length))
        then .error .value
      else .ok { fpType := d0.fpType, level := d0.level, name := none, array := some (concatRows (d0 :: rest)),
                 bits := d0.bits, fpNames := (d0 :: rest).flatMap (·.fpNames),
                 namesMap := updateNamesMap [] ((d0 :: rest).flatMap (·.fpNames)) 0,
                 props := (concatKeys (d0 :: rest)).map (fun k => (k, concatCol (d0 :: rest) k)) } := by
  simp only [Db.concat, concatKeys, concatRows, concatCol, List.any_map, Function.comp_def]
  rfl

/-- **`concat` refuses a non-empty list of databases exactly when** some operand has a different
level, some operand has no matrix yet, some operand has a different length or a different kind, or
the operands' property columns do not add up to the number of rows (a key missing from an operand
that has rows, or an operand whose column is not as long as its matrix) -/
theorem concat_refuses (d0 : Db) (rest : List Db) :
    (∃ e, Db.concat (d0 :: rest) = .error e) ↔
      (∃ d ∈ d0 :: rest, d.level ≠ d0.level) ∨
      (∃ d ∈ d0 :: rest, d.array = none) ∨
      (∃ d ∈ d0 :: rest, d.bits ≠ d0.bits) ∨
      (∃ d ∈ d0 :: rest, d.fpType ≠ d0.fpType) ∨
      (∃ k ∈ concatKeys (d0 :: rest), (concatCol (d0 :: rest) k).length ≠ (concatRows (d0 :: rest)).length) := by
  rw [concat_eq]
  generalize hdbs : d0 :: rest = dbs
  have hd0 : d0 ∈ dbs := by rw [← hdbs]; simp
  have e1 : dbs.any (fun d => d.level != d0.level) = true ↔ ∃ d ∈ dbs, d.level ≠ d0.level := by simp
  have e3 : dbs.any (fun d => d.fpType != d0.fpType) = true ↔ ∃ d ∈ dbs, d.fpType ≠ d0.fpType := by simp
  have e4 : dbs.any (fun d => d.array.isNone) = true ↔ ∃ d ∈ dbs, d.array = none := by simp
  have e5 : (concatKeys dbs).any (fun k => decide ((concatCol dbs k).length ≠ (concatRows dbs).length)) = true ↔
      ∃ k ∈ concatKeys dbs, (concatCol dbs k).length ≠ (concatRows dbs).length := by simp
  have e2 : dbs.any (fun d => (d.array.map (fun _ => d.bits)) != (d0.array.map (fun _ => d0.bits))) = true ↔
      ∃ d ∈ dbs, d.array.map (fun _ => d.bits) ≠ d0.array.map (fun _ => d0.bits) := by simp
  -- the length check compares `None` with `None` for operands without a matrix
  have e24 : ((∃ d ∈ dbs, d.array.map (fun _ => d.bits) ≠ d0.array.map (fun _ => d0.bits)) ∨ ∃ d ∈ dbs, d.array = none) ↔
      ((∃ d ∈ dbs, d.array = none) ∨ ∃ d ∈ dbs, d.bits ≠ d0.bits) := by
    constructor
    · rintro (⟨d, hd, hne⟩ | h)
      · cases ha : d.array with
        | none => exact Or.inl ⟨d, hd, ha⟩
        | some a =>
          cases ha0 : d0.array with
          | none => exact Or.inl ⟨d0, hd0, ha0⟩
          | some a0 =>
            refine Or.inr ⟨d, hd, ?_⟩
            intro hb; apply hne; simp [ha, ha0, hb]
      · exact Or.inl h
    · rintro (h | ⟨d, hd, hne⟩)
      · exact Or.inr h
      · cases ha : d.array with
        | none => exact Or.inr ⟨d, hd, ha⟩
        | some a =>
          cases ha0 : d0.array with
          | none => exact Or.inr ⟨d0, hd0, ha0⟩
          | some a0 =>
            refine Or.inl ⟨d, hd, ?_⟩
            simp [ha, hne]
  have key : ∀ (c1 c2 c3 c4 c5 : Bool) (d : Db),
      (∃ e, (if c1 = true then Except.error Err.type else if c2 = true then Except.error Err.type
          else if c3 = true then Except.error Err.type else if c4 = true then Except.error Err.other
          else if c5 = true then Except.error Err.value else Except.ok d) = Except.error e) ↔
        (c1 = true ∨ c2 = true ∨ c3 = true ∨ c4 = true ∨ c5 = true) := by
    intro c1 c2 c3 c4 c5 d
    cases c1 <;> cases c2 <;> cases c3 <;> cases c4 <;> cases c5 <;> simp
  rw [key, e1, e2, e3, e4, e5]
  generalize (∃ d ∈ dbs, d.level ≠ d0.level) = A at *
  generalize (∃ d ∈ dbs, d.array.map (fun _ => d.bits) ≠ d0.array.map (fun _ => d0.bits)) = B at *
  generalize (∃ d ∈ dbs, d.fpType ≠ d0.fpType) = C at *
  generalize (∃ d ∈ dbs, d.array = none) = D at *
  generalize (∃ d ∈ dbs, d.bits ≠ d0.bits) = F at *
  generalize (∃ k ∈ concatKeys dbs, (concatCol dbs k).length ≠ (concatRows dbs).length) = E at *
  clear e1 e2 e3 e4 e5 key
  constructor
  · rintro (h | h | h | h | h)
    · exact Or.inl h
    · rcases e24.1 (Or.inl h) with h | h
      · exact Or.inr (Or.inl h)
      · exact Or.inr (Or.inr (Or.inl h))
    · exact Or.inr (Or.inr (Or.inr (Or.inl h)))
    · exact Or.inr (Or.inl h)
    · exact Or.inr (Or.inr (Or.inr (Or.inr h)))
  · rintro (h | h | h | h | h)
    · exact Or.inl h
    · exact Or.inr (Or.inr (Or.inr (Or.inl h)))
    · rcases e24.2 (Or.inr h) with h | h
      · exact Or.inr (Or.inl h)
      · exact Or.inr (Or.inr (Or.inr (Or.inl h)))
    · exact Or.inr (Or.inr (Or.inl h))
    · exact Or.inr (Or.inr (Or.inr (Or.inr h)))

/-- which exception: a level, length or kind mismatch is a `TypeError`, a database without matrix
among otherwise compatible ones an `AttributeError` (modelled `.other`), columns that do not add
up a `ValueError` -/
theorem concat_error_code (d0 : Db) (rest : List Db) (e : Err) (h : Db.concat (d0 :: rest) = .error e) :
    e = .type ∨ e = .other ∨ e = .value := by
  rw [concat_eq] at h
  split at h
  · cases h; simp
  · split at h
    · cases h; simp
    · split at h
      · cases h; simp
      · split at h
        · cases h; simp
        · split at h
          · cases h; simp
          · cases h

/-- an accepted concatenation keeps rows and names in operand order and carries the canonical index -/
theorem concat_ok_rows (d0 : Db) (rest : List Db) (d : Db) (h : Db.concat (d0 :: rest) = .ok d) :
    d.array = some (concatRows (d0 :: rest)) ∧ d.fpNames = (d0 :: rest).flatMap (·.fpNames) ∧
      d.namesMap = updateNamesMap [] d.fpNames 0 ∧
      d.props = (concatKeys (d0 :: rest)).map (fun k => (k, concatCol (d0 :: rest) k)) ∧
      d.level = d0.level ∧ d.bits = d0.bits ∧ d.fpType = d0.fpType := by
  rw [concat_eq] at h
  split at h
  · cases h
  · split at h
    · cases h
    · split at h
      · cases h
      · split at h
        · cases h
        · split at h
          · cases h
          · cases h; exact ⟨rfl, rfl, rfl, rfl, rfl, rfl, rfl⟩

theorem concat_nil : Db.concat [] = .error .index := rfl

/-! ### the keys of a concatenation, and the refusal under the invariant -/

private theorem addKeys_spec (ps : Cols) : ∀ (acc : List String), acc.Nodup →
    let r := ps.foldl (fun acc2 c => if acc2.contains c.1 then acc2 else acc2 ++ [c.1]) acc
    r.Nodup ∧ ∀ k, k ∈ r ↔ k ∈ acc ∨ k ∈ ps.map Prod.fst := by
  induction ps with
  | nil => intro acc h; exact ⟨h, by simp⟩
  | cons c rest ih =>
    intro acc h
    simp only [List.foldl_cons]
    by_cases hc : acc.contains c.1 = true
    · simp only [hc, if_true]
      obtain ⟨h1, h2⟩ := ih acc h
      refine ⟨h1, fun k => ?_⟩
      rw [h2 k]
      have : c.1 ∈ acc := by simpa using hc
      simp only [List.map_cons, List.mem_cons]
      constructor
      · rintro (h | h)
        · exact Or.inl h
        · exact Or.inr (Or.inr h)
      · rintro (h | h | h)
        · exact Or.inl h
        · exact Or.inl (h ▸ this)
        · exact Or.inr h
    · have hcf : acc.contains c.1 = false := by simpa using hc
      simp only [hcf, Bool.false_eq_true, ↓reduceIte]
      have hn : c.1 ∉ acc := by simpa using hc
      have hnd : (acc ++ [c.1]).Nodup := by
        rw [List.nodup_append]
        refine ⟨h, by simp, ?_⟩
        intro a ha b hb
        simp only [List.mem_singleton] at hb
        subst hb; intro e; subst e; exact hn ha
      obtain ⟨h1, h2⟩ := ih (acc ++ [c.1]) hnd
      refine ⟨h1, fun k => ?_⟩
      rw [h2 k]
      simp [or_assoc]

private theorem concatKeys_spec (dbs : List Db) : ∀ (acc : List String), acc.Nodup →
    let r := dbs.foldl (fun acc d => d.props.foldl (fun acc2 c => if acc2.contains c.1 then acc2 else acc2 ++ [c.1]) acc) acc
    r.Nodup ∧ ∀ k, k ∈ r ↔ k ∈ acc ∨ ∃ d ∈ dbs, k ∈ d.props.map Prod.fst := by
  induction dbs with
  | nil => intro acc h; exact ⟨h, by simp⟩
  | cons d rest ih =>
    intro acc h
    simp only [List.foldl_cons]
    obtain ⟨a1, a2⟩ := addKeys_spec d.props acc h
    obtain ⟨h1, h2⟩ := ih _ a1
    refine ⟨h1, fun k => ?_⟩
    rw [h2 k, a2 k]
    simp only [List.mem_cons, exists_eq_or_imp, or_assoc]

/-- the keys of a concatenation are duplicate free … -/
theorem concatKeys_nodup (dbs : List Db) : (concatKeys dbs).Nodup :=
  (concatKeys_spec dbs [] (by simp)).1

/-- … and are exactly the keys of the operands -/
theorem mem_concatKeys (dbs : List Db) (k : String) :
    k ∈ concatKeys dbs ↔ ∃ d ∈ dbs, k ∈ d.props.map Prod.fst := by
  have := (concatKeys_spec dbs [] (by simp)).2 k
  simpa [concatKeys] using this

private theorem colLookup_none_of_not_mem (ps : Cols) (k : String) (h : k ∉ ps.map Prod.fst) :
    colLookup ps k = none := by
  induction ps with
  | nil => rfl
  | cons c rest ih =>
    obtain ⟨a, w⟩ := c
    simp only [List.map_cons, List.mem_cons, not_or] at h
    have : ¬ a = k := fun e => h.1 e.symm
    simp [colLookup, this, ih h.2]

/-- for an operand satisfying the invariant, its contribution to column `k` has one cell per row
if it has the key, and no cell otherwise -/
private theorem col_contrib (d : Db) (hi : d.Inv) (k : String) :
    ((colLookup d.props k).getD []).length = if k ∈ d.props.map Prod.fst then d.fpNum else 0 := by
  by_cases hk : k ∈ d.props.map Prod.fst
  · obtain ⟨v, hv1, hv2⟩ := colLookup_of_mem_keys d.props k hk
    simp [hk, hv1, hi.col_length _ hv2]
  · simp [hk, colLookup_none_of_not_mem d.props k hk]

private theorem concat_lengths (k : String) (dbs : List Db) (hi : ∀ d ∈ dbs, d.Inv) :
    (concatCol dbs k).length ≤ (concatRows dbs).length ∧
      ((concatCol dbs k).length = (concatRows dbs).length ↔
        ∀ d ∈ dbs, d.fpNum = 0 ∨ k ∈ d.props.map Prod.fst) := by
  induction dbs with
  | nil => simp [concatCol, concatRows]
  | cons d rest ih =>
    obtain ⟨ih1, ih2⟩ := ih (fun d hd => hi d (by simp [hd]))
    have hc := col_contrib d (hi d (by simp)) k
    have hr : (d.array.getD []).length = d.fpNum := by
      unfold Db.fpNum; cases d.array <;> simp
    simp only [concatCol, concatRows, List.flatMap_cons, List.length_append] at ih1 ih2 ⊢
    rw [hc, hr]
    simp only [List.mem_cons, forall_eq_or_imp]
    by_cases hk : k ∈ d.props.map Prod.fst
    · simp only [hk, if_true, or_true, true_and]
      refine ⟨by omega, ?_⟩
      rw [← ih2]; omega
    · simp only [hk, if_false, or_false]
      refine ⟨by omega, ?_⟩
      rw [← ih2]; omega

/-- **refusal of `concat` for databases satisfying the invariant**: besides the level / matrix /
length / kind mismatches, exactly when some operand that has rows lacks a property column another
operand has -/
theorem concat_refuses_inv (d0 : Db) (rest : List Db) (hi : ∀ d ∈ d0 :: rest, d.Inv) :
    (∃ e, Db.concat (d0 :: rest) = .error e) ↔
      (∃ d ∈ d0 :: rest, d.level ≠ d0.level) ∨
      (∃ d ∈ d0 :: rest, d.array = none) ∨
      (∃ d ∈ d0 :: rest, d.bits ≠ d0.bits) ∨
      (∃ d ∈ d0 :: rest, d.fpType ≠ d0.fpType) ∨
      (∃ d ∈ d0 :: rest, ∃ d' ∈ d0 :: rest, ∃ k ∈ d'.props.map Prod.fst,
        d.fpNum > 0 ∧ k ∉ d.props.map Prod.fst) := by
  rw [concat_refuses]
  have : (∃ k ∈ concatKeys (d0 :: rest), (concatCol (d0 :: rest) k).length ≠ (concatRows (d0 :: rest)).length) ↔
      (∃ d ∈ d0 :: rest, ∃ d' ∈ d0 :: rest, ∃ k ∈ d'.props.map Prod.fst,
        d.fpNum > 0 ∧ k ∉ d.props.map Prod.fst) := by
    constructor
    · rintro ⟨k, hk, hne⟩
      obtain ⟨d', hd', hkd'⟩ := (mem_concatKeys _ k).1 hk
      have h2 := (concat_lengths k (d0 :: rest) hi).2
      have : ¬ ∀ d ∈ d0 :: rest, d.fpNum = 0 ∨ k ∈ d.props.map Prod.fst := fun h => hne (h2.2 h)
      obtain ⟨d, hd, hnot⟩ : ∃ d ∈ d0 :: rest, ¬ (d.fpNum = 0 ∨ k ∈ d.props.map Prod.fst) :=
        Classical.byContradiction fun hcon => this fun d hd =>
          Classical.byContradiction fun hcon2 => hcon ⟨d, hd, hcon2⟩
      exact ⟨d, hd, d', hd', k, hkd', by omega, fun h => hnot (Or.inr h)⟩
    · rintro ⟨d, hd, d', hd', k, hk, hpos, hnk⟩
      refine ⟨k, (mem_concatKeys _ k).2 ⟨d', hd', hk⟩, ?_⟩
      intro e
      rcases (concat_lengths k (d0 :: rest) hi).2.1 e d hd with h | h
      · omega
      · exact hnk h
  rw [this]

private theorem concat_names_length (dbs : List Db) (hi : ∀ d ∈ dbs, d.Inv) :
    (dbs.flatMap (·.fpNames)).length = (concatRows dbs).length := by
  induction dbs with
  | nil => simp [concatRows]
  | cons x xs ih =>
    have hx := (hi x (by simp)).names_length
    have hr : (x.array.getD []).length = x.fpNum := by
      unfold Db.fpNum; cases x.array <;> simp
    have := ih (fun d hd => hi d (by simp [hd]))
    simp only [concatRows, List.flatMap_cons, List.length_append] at this ⊢
    omega

/-- an accepted concatenation of databases satisfying the invariant satisfies it -/
theorem concat_inv (d0 : Db) (rest : List Db) (d : Db) (hi : ∀ d ∈ d0 :: rest, d.Inv)
    (h : Db.concat (d0 :: rest) = .ok d) : d.Inv := by
  have hne : ¬ ∃ e, Db.concat (d0 :: rest) = .error e := by rw [h]; rintro ⟨e, he⟩; cases he
  rw [concat_refuses] at hne
  simp only [not_or] at hne
  obtain ⟨_, hnone, _, _, hcols⟩ := hne
  obtain ⟨h1, h2, h3, h4, _⟩ := concat_ok_rows d0 rest d h
  rw [C05.inv_some h1]
  generalize d0 :: rest = dbs at *
  refine ⟨?_, ?_, h3, ?_⟩
  · rw [h2]; exact concat_names_length dbs hi
  · intro c hc
    rw [h4] at hc
    obtain ⟨k, hk, rfl⟩ := List.mem_map.1 hc
    false_or_by_contra
    rename_i hcon
    exact hcols ⟨k, hk, hcon⟩
  · rw [h4]; simpa [List.map_map, Function.comp_def] using concatKeys_nodup dbs

/-- non-vacuity of `concat_refuses` (both directions): two compatible one-row databases are
concatenated, rows and names in order; a database of another level, or a fresh database without
matrix, is refused -/
example :
    let f : Fp := ⟨.bit, 8, 0, [1, 2], []⟩
    let g : Fp := ⟨.bit, 8, 1, [3], []⟩
    let da := (Db.new .bit 0 none).addOk [⟨f, some "a", [("w", .int 1)]⟩]
    let db := (Db.new .bit 0 none).addOk [⟨f, some "b", [("w", .int 2)]⟩]
    let dc := (Db.new .bit 1 none).addOk [⟨g, some "c", [("w", .int 3)]⟩]
    let dn := (Db.new .bit 0 none).addOk [⟨f, some "d", []⟩]
    ((Db.concat [da, db]).toOption.map (fun d => (d.fpNames, d.props, d.fpNum))) =
        some ([some "a", some "b"], [("w", [.int 1, .int 2])], 2) ∧
      (Db.concat [da, dc]).toOption = none ∧ (∃ d ∈ [da, dc], d.level ≠ da.level) ∧
      (Db.concat [da, Db.new .bit 0 none]).toOption = none ∧ (∃ d ∈ [da, Db.new .bit 0 none], d.array = none) ∧
      (Db.concat [da, dn]).toOption = none ∧
      (∃ k ∈ concatKeys [da, dn], (concatCol [da, dn] k).length ≠ (concatRows [da, dn]).length) := by decide

/-- non-vacuity of `concat_refuses_inv`, `concat_inv`: the operands satisfy the invariant; the one
with a row but without the column `"w"` is the reason for the refusal -/
example :
    let f : Fp := ⟨.bit, 8, 0, [1, 2], []⟩
    let da := (Db.new .bit 0 none).addOk [⟨f, some "a", [("w", .int 1)]⟩]
    let dn := (Db.new .bit 0 none).addOk [⟨f, some "d", []⟩]
    (∀ d ∈ [da, dn], d.Inv) ∧ (∀ d ∈ [da, da], d.Inv) ∧ (Db.concat [da, da]).toOption.isSome ∧
      (dn.fpNum > 0 ∧ "w" ∈ da.props.map Prod.fst ∧ "w" ∉ dn.props.map Prod.fst) := by
  refine ⟨?_, ?_, by decide, by decide⟩
  · intro d hd
    simp only [List.mem_cons, List.not_mem_nil, or_false] at hd
    rcases hd with rfl | rfl <;> exact C05.inv_addOk _ _ (C05.inv_new _ _ _)
  · intro d hd
    simp only [List.mem_cons, List.not_mem_nil, or_false] at hd
    rcases hd with rfl | rfl <;> exact C05.inv_addOk _ _ (C05.inv_new _ _ _)

end E3fpVerif.Props.C16
