import E3fpVerif.Model.Batch
/-!
# C15 — batch runs are schedule-independent, isolate failures, and resume safely
-/
namespace E3fpVerif.Props.C15
open E3fpVerif

variable {ι ρ κ : Type}

/-- whatever the completion order, the same named rows are collected (only row order may differ) -/
theorem schedule_free (outcome : ι → Outcome ρ) (s₁ s₂ : List ι) (h : s₁.Perm s₂) :
    (batchRows outcome s₁).Perm (batchRows outcome s₂) := by
  unfold batchRows collect
  exact (h.map outcome).flatMap_right _

/-- an input that fails contributes nothing and does not affect the others -/
theorem isolation (outcome : ι → Outcome ρ) (s : List ι) :
    batchRows outcome s = batchRows outcome (s.filter (fun i => (outcome i).isSome)) := by
  unfold batchRows collect
  induction s with
  | nil => rfl
  | cons a t ih =>
    simp only [List.map_cons, List.flatMap_cons, List.filter_cons]
    cases ha : outcome a with
    | none => simp [ih]
    | some r => simp [ih, ha]

theorem fsGet_put_other (fs : FS κ) (p q : String) (c : κ) (h : q ≠ p) : fsGet (fsPut fs p c) q = fsGet fs q := by
  unfold fsGet fsPut
  simp only [List.find?_cons]
  have : (decide (p = q)) = false := by simp; exact fun e => h e.symm
  simp only [this]
  congr 1
  induction fs with
  | nil => rfl
  | cons e t ih =>
    by_cases he : e.1 = p
    · have hq : ¬ e.1 = q := by rw [he]; exact fun x => h x.symm
      rw [List.filter_cons_of_neg (by simp [he]), List.find?_cons_of_neg (by simp [hq])]
      exact ih
    · rw [List.filter_cons_of_pos (by simp [he])]
      by_cases hq : e.1 = q
      · rw [List.find?_cons_of_pos (by simp [hq]), List.find?_cons_of_pos (by simp [hq])]
      · rw [List.find?_cons_of_neg (by simp [hq]), List.find?_cons_of_neg (by simp [hq])]
        exact ih

/-- without `overwrite`, a file that exists before the (re-)run is never written again -/
theorem resume_safe (jobs : List (String × Option κ)) (fs : FS κ) (p : String) (c : κ) (h : fsGet fs p = some c) :
    fsGet (batchFiles false jobs fs) p = some c := by
  unfold batchFiles
  induction jobs generalizing fs with
  | nil => exact h
  | cons j t ih =>
    simp only [List.foldl_cons]
    apply ih
    unfold processInput
    cases hj : j.2 with
    | none => exact h
    | some cj =>
      simp only [Bool.not_false, Bool.and_true]
      by_cases hex : (fsGet fs j.1).isSome = true
      · simp [hex, h]
      · simp only [hex, Bool.false_eq_true, ↓reduceIte]
        have hne : p ≠ j.1 := by
          intro e; subst e; rw [h] at hex; simp at hex
        rw [fsGet_put_other _ _ _ _ hne]; exact h

end E3fpVerif.Props.C15
