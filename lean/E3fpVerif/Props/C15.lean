import E3fpVerif.Model.Batch
/-!
# C15 — batch runs are schedule-independent, isolate failures, and resume safely
-/
namespace E3fpVerif.Props.C15
open E3fpVerif

variable {ι ρ κ : Type}

/-- whatever the completion order, the same named rows are collected (only row order may differ) -/
theorem schedule_free (outcome : ι → Outcome ρ) (s₁ s₂ : List ι) (h : s₁.Perm s₂) :
    (batchRows outcome s₁).Perm (batchRows outcome s₂) := by
  unfold batchRows collect
  exact (h.map outcome).flatMap_right _

/-- an input that fails contributes nothing and does not affect the others -/
theorem isolation (outcome : ι → Outcome ρ) (s : List ι) :
    batchRows outcome s = batchRows outcome (s.filter (fun i => (outcome i).isSome)) := by
  unfold batchRows collect
  induction s with
  | nil => rfl
  | cons a t ih =>
    simp only [List.map_cons, List.flatMap_cons, List.filter_cons]
    cases ha : outcome a with
    | none => simp [ih]
    | some r => simp [ih, ha]

theorem fsGet_put_other (fs : FS κ) (p q : String) (c : κ) (h : q ≠ p) : fsGet (fsPut fs p c) q = fsGet fs q := by
  unfold fsGet fsPut
  simp only [List.find?_cons]
  have : (decide (p = q)) = false := by simp; exact fun e => h e.symm
  simp only [this]
  congr 1
  induction fs with
  | nil => rfl
  | cons e t ih =>
    by_cases he : e.1 = p
    · have hq : ¬ e.1 = q := by rw [he]; exact fun x => h x.symm
      rw [List.filter_cons_of_neg (by simp [he]), List.find?_cons_of_neg (by simp [hq])]
      exact ih
    · rw [List.filter_cons_of_pos (by simp [he])]
      by_cases hq : e.1 = q
      · rw [List.find?_cons_of_pos (by simp [hq]), List.find?_cons_of_pos (by simp [hq])]
      · rw [List.find?_cons_of_neg (by simp [hq]), List.find?_cons_of_neg (by simp [hq])]
        exact ih

/-- without `overwrite`, a file that exists before the (re-)run is never written again -/
theorem resume_safe (jobs : List (String × Option κ)) (fs : FS κ) (p : String) (c : κ) (h : fsGet fs p = some c) :
    fsGet (batchFiles false jobs fs) p = some c := by
  unfold batchFiles
  induction jobs generalizing fs with
  | nil => exact h
  | cons j t ih =>
    simp only [List.foldl_cons]
    apply ih
    unfold processInput
    cases hj : j.2 with
    | none => exact h
    | some cj =>
      simp only [Bool.not_false, Bool.and_true]
      by_cases hex : (fsGet fs j.1).isSome = true
      · simp [hex, h]
      · simp only [hex, Bool.false_eq_true, ↓reduceIte]
        have hne : p ≠ j.1 := by
          intro e; subst e; rw [h] at hex; simp at hex
        rw [fsGet_put_other _ _ _ _ hne]; exact h

/-! ## the collected rows as a multiset do not depend on the input order -/

/-- every row is collected the same number of times whatever the order of the inputs -/
theorem input_order [DecidableEq ρ] (outcome : ι → Outcome ρ) (s₁ s₂ : List ι) (h : s₁.Perm s₂) (x : ρ) :
    (batchRows outcome s₁).count x = (batchRows outcome s₂).count x :=
  (schedule_free outcome s₁ s₂ h).count_eq x

/-- the same rows are present -/
theorem input_order_mem (outcome : ι → Outcome ρ) (s₁ s₂ : List ι) (h : s₁.Perm s₂) (x : ρ) :
    x ∈ batchRows outcome s₁ ↔ x ∈ batchRows outcome s₂ :=
  (schedule_free outcome s₁ s₂ h).mem_iff

/-- the same number of rows is collected -/
theorem input_order_length (outcome : ι → Outcome ρ) (s₁ s₂ : List ι) (h : s₁.Perm s₂) :
    (batchRows outcome s₁).length = (batchRows outcome s₂).length :=
  (schedule_free outcome s₁ s₂ h).length_eq

/-- in particular for the reversed input list -/
theorem input_order_reverse (outcome : ι → Outcome ρ) (s : List ι) :
    (batchRows outcome s.reverse).Perm (batchRows outcome s) :=
  schedule_free outcome _ _ (List.reverse_perm s)

/-- a row is collected iff some input succeeds with it -/
theorem mem_batchRows (outcome : ι → Outcome ρ) (s : List ι) (x : ρ) :
    x ∈ batchRows outcome s ↔ ∃ i ∈ s, ∃ rows, outcome i = some rows ∧ x ∈ rows := by
  unfold batchRows collect
  simp only [List.mem_flatMap, List.mem_map]
  constructor
  · rintro ⟨o, ⟨i, hi, rfl⟩, hx⟩
    cases ho : outcome i with
    | none => rw [ho] at hx; simp at hx
    | some rows => rw [ho] at hx; exact ⟨i, hi, rows, ho, by simpa using hx⟩
  · rintro ⟨i, hi, rows, ho, hx⟩
    exact ⟨outcome i, ⟨i, hi, rfl⟩, by rw [ho]; simpa using hx⟩

example : batchRows (fun i : Nat => if i = 1 then none else some [i, 10 * i]) [2, 1, 3] = [2, 20, 3, 30] ∧
    (batchRows (fun i : Nat => if i = 1 then none else some [i, 10 * i]) [3, 2, 1]).count 20 = 1 := by decide

/-! ## what a run writes -/

theorem fsGet_put_same (fs : FS κ) (p : String) (c : κ) : fsGet (fsPut fs p c) p = some c := by
  simp [fsGet, fsPut]

/-- processing an input touches no path but its own -/
theorem processInput_other (ow : Bool) (fs : FS κ) (path : String) (content : Option κ) (q : String)
    (h : q ≠ path) : fsGet (processInput ow fs path content) q = fsGet fs q := by
  unfold processInput
  cases content with
  | none => rfl
  | some c =>
    simp only
    split
    · rfl
    · exact fsGet_put_other fs path q c h

/-- a run leaves alone every path that is not the output path of one of its inputs -/
theorem batchFiles_other (ow : Bool) (jobs : List (String × Option κ)) (fs : FS κ) (q : String)
    (h : q ∉ jobs.map Prod.fst) : fsGet (batchFiles ow jobs fs) q = fsGet fs q := by
  unfold batchFiles
  induction jobs generalizing fs with
  | nil => rfl
  | cons j t ih =>
    simp only [List.map_cons, List.mem_cons, not_or] at h
    simp only [List.foldl_cons]
    rw [ih _ h.2]
    exact processInput_other ow fs j.1 j.2 q h.1

/-- failed inputs write nothing -/
theorem failed_writes_nothing (ow : Bool) (fs : FS κ) (path : String) :
    processInput ow fs path (none : Option κ) = fs := rfl

/-- with `overwrite` on, every input that succeeds ends with the content of this run, whatever
the file system held before -/
theorem overwrite_regenerates (jobs : List (String × Option κ)) (fs : FS κ)
    (hnd : (jobs.map Prod.fst).Nodup) (p : String) (c : κ) (hj : (p, some c) ∈ jobs) :
    fsGet (batchFiles true jobs fs) p = some c := by
  induction jobs generalizing fs with
  | nil => simp at hj
  | cons j t ih =>
    simp only [List.map_cons, List.nodup_cons] at hnd
    have hstep : batchFiles true (j :: t) fs = batchFiles true t (processInput true fs j.1 j.2) := rfl
    rw [hstep]
    rcases List.mem_cons.mp hj with hj | hj
    · subst hj
      rw [batchFiles_other true t _ p hnd.1]
      simp [processInput, fsGet_put_same]
    · exact ih _ hnd.2 hj

/-- without `overwrite`, every input that succeeds and whose output was absent before the run ends
with the content of this run -/
theorem resume_complete (jobs : List (String × Option κ)) (fs : FS κ)
    (hnd : (jobs.map Prod.fst).Nodup) (p : String) (c : κ) (hj : (p, some c) ∈ jobs)
    (habs : fsGet fs p = none) :
    fsGet (batchFiles false jobs fs) p = some c := by
  induction jobs generalizing fs with
  | nil => simp at hj
  | cons j t ih =>
    simp only [List.map_cons, List.nodup_cons] at hnd
    have hstep : batchFiles false (j :: t) fs = batchFiles false t (processInput false fs j.1 j.2) := rfl
    rw [hstep]
    rcases List.mem_cons.mp hj with hj | hj
    · subst hj
      apply resume_safe
      simp [processInput, habs, fsGet_put_same]
    · apply ih _ hnd.2 hj
      have hne : p ≠ j.1 := by
        intro e
        apply hnd.1
        rw [← e]
        exact List.mem_map.mpr ⟨(p, some c), hj, rfl⟩
      rw [processInput_other false fs j.1 j.2 p hne]
      exact habs

/-- a resumed run completes the batch: outputs present before are kept (`resume_safe`), the others
are written -/
theorem resume_total (jobs : List (String × Option κ)) (fs : FS κ)
    (hnd : (jobs.map Prod.fst).Nodup) (p : String) (c : κ) (hj : (p, some c) ∈ jobs) :
    fsGet (batchFiles false jobs fs) p = some ((fsGet fs p).getD c) := by
  cases h : fsGet fs p with
  | none => simpa using resume_complete jobs fs hnd p c hj h
  | some old => simpa using resume_safe jobs fs p old h

/-- non-vacuity: "b" is absent and gets written, "a" is present and kept, "c" fails -/
example : fsGet (batchFiles false [("a", some 1), ("b", some 2), ("c", none)] [("a", 7)]) "b" = some 2 ∧
    fsGet (batchFiles false [("a", some 1), ("b", some 2), ("c", none)] [("a", 7)]) "a" = some 7 ∧
    fsGet (batchFiles false [("a", some 1), ("b", some 2), ("c", none)] [("a", 7)]) "c" = none ∧
    fsGet (batchFiles true [("a", some 1), ("b", some 2), ("c", none)] [("a", 7)]) "a" = some 1 := by decide

/-- distinct output paths are needed for `overwrite_regenerates`: the last writer wins -/
example : fsGet (batchFiles true [("a", some 1), ("a", some 2)] ([] : FS Nat)) "a" = some 2 := by decide

/-! ## an interrupted run, resumed, ends where an uninterrupted run ends -/

/-- the content the first successful job for path `p` writes -/
def firstContent (jobs : List (String × Option κ)) (p : String) : Option κ :=
  (jobs.find? (fun j => decide (j.1 = p) && j.2.isSome)).bind Prod.snd

/-- without `overwrite` a run is "first writer wins, existing files win over all" -/
theorem batchFiles_false_get (jobs : List (String × Option κ)) (fs : FS κ) (p : String) :
    fsGet (batchFiles false jobs fs) p = (fsGet fs p).or (firstContent jobs p) := by
  induction jobs generalizing fs with
  | nil => simp [batchFiles, firstContent]
  | cons j t ih =>
    have hstep : batchFiles false (j :: t) fs = batchFiles false t (processInput false fs j.1 j.2) := rfl
    rw [hstep, ih]
    obtain ⟨q, content⟩ := j
    cases content with
    | none =>
      have : firstContent ((q, none) :: t) p = firstContent t p := by
        simp [firstContent]
      rw [this]; rfl
    | some c =>
      by_cases hq : q = p
      · subst hq
        have hfc : firstContent ((q, some c) :: t) q = some c := by
          simp [firstContent]
        rw [hfc]
        cases hget : fsGet fs q with
        | some x => simp [processInput, hget]
        | none => simp [processInput, hget, fsGet_put_same]
      · have : firstContent ((q, some c) :: t) p = firstContent t p := by
          simp [firstContent, hq]
        rw [this, processInput_other false fs q (some c) p (fun e => hq e.symm)]

theorem firstContent_take (jobs : List (String × Option κ)) (k : Nat) (p : String) :
    (firstContent (jobs.take k) p).or (firstContent jobs p) = firstContent jobs p := by
  have hsplit : firstContent jobs p = firstContent (jobs.take k ++ jobs.drop k) p := by
    rw [List.take_append_drop]
  rw [hsplit]
  unfold firstContent
  rw [List.find?_append]
  cases List.find? (fun j => decide (j.1 = p) && j.2.isSome) (jobs.take k) with
  | none => simp
  | some j => simp

/-- a run without `overwrite` that is interrupted after any number of inputs and then started
again over the whole input list leaves every path as an uninterrupted run would -/
theorem resume_equals_clean (jobs : List (String × Option κ)) (fs : FS κ) (k : Nat) (p : String) :
    fsGet (batchFiles false jobs (batchFiles false (jobs.take k) fs)) p = fsGet (batchFiles false jobs fs) p := by
  rw [batchFiles_false_get, batchFiles_false_get, batchFiles_false_get]
  cases fsGet fs p with
  | some x => simp
  | none => simpa using firstContent_take jobs k p

/-- running the finished batch again changes nothing -/
theorem rerun_noop (jobs : List (String × Option κ)) (fs : FS κ) (p : String) :
    fsGet (batchFiles false jobs (batchFiles false jobs fs)) p = fsGet (batchFiles false jobs fs) p := by
  have := resume_equals_clean jobs fs jobs.length p
  rwa [List.take_length] at this

example : fsGet (batchFiles false [("a", some 1), ("b", some 2)] (batchFiles false [("a", some 1)] [("z", 0)])) "b"
    = fsGet (batchFiles false [("a", some 1), ("b", some 2)] [("z", 0)]) "b" := by decide

end E3fpVerif.Props.C15
