import E3fpVerif.Model.Fprint
import E3fpVerif.Lemmas.Uniq
namespace E3fpVerif.Props.C11
open E3fpVerif

/-- `|` / `+` : union -/
theorem or_union (a b : List Nat) (x : Nat) : x ∈ setOpIdx .or a b ↔ x ∈ a ∨ x ∈ b := by
  simp [setOpIdx, mem_uniq]

end E3fpVerif.Props.C11
