import E3fpVerif.Model.Fprint
import E3fpVerif.Lemmas.Uniq
import E3fpVerif.Lemmas.FpAux
namespace E3fpVerif.Props.C11
open E3fpVerif

/-- `|` / `+` : union -/
theorem or_union (a b : List Nat) (x : Nat) : x ∈ setOpIdx .or a b ↔ x ∈ a ∨ x ∈ b := by
  simp [setOpIdx, mem_uniq]

/-! ## set algebra on index arrays -/

/-- `+` on bit fingerprints is the same union as `|` -/
theorem add_union (a b : List Nat) (x : Nat) : x ∈ setOpIdx .add a b ↔ x ∈ a ∨ x ∈ b := by
  simp [setOpIdx, mem_uniq]

/-- `&` : intersection -/
theorem and_inter (a b : List Nat) (x : Nat) : x ∈ setOpIdx .and a b ↔ x ∈ a ∧ x ∈ b := by
  simp [setOpIdx]

/-- `-` : difference -/
theorem sub_diff (a b : List Nat) (x : Nat) : x ∈ setOpIdx .sub a b ↔ x ∈ a ∧ x ∉ b := by
  simp [setOpIdx]

/-- `^` : symmetric difference -/
theorem xor_symmdiff (a b : List Nat) (x : Nat) :
    x ∈ setOpIdx .xor a b ↔ (x ∈ a ∧ x ∉ b) ∨ (x ∈ b ∧ x ∉ a) := by
  simp [setOpIdx, mem_uniq]

/-- the set-theoretic meaning of each operator -/
def memSpec (op : SetOp) (a b : List Nat) (x : Nat) : Prop :=
  match op with
  | .or | .add => x ∈ a ∨ x ∈ b
  | .and => x ∈ a ∧ x ∈ b
  | .sub => x ∈ a ∧ x ∉ b
  | .xor => (x ∈ a ∧ x ∉ b) ∨ (x ∈ b ∧ x ∉ a)

/-- all five membership characterisations at once -/
theorem mem_setOpIdx (op : SetOp) (a b : List Nat) (x : Nat) :
    x ∈ setOpIdx op a b ↔ memSpec op a b x := by
  cases op
  · exact or_union a b x
  · exact add_union a b x
  · exact and_inter a b x
  · exact sub_diff a b x
  · exact xor_symmdiff a b x

/-- every element of a set-operator result comes from one of the operands -/
theorem setOpIdx_subset (op : SetOp) (a b : List Nat) (x : Nat) (h : x ∈ setOpIdx op a b) :
    x ∈ a ∨ x ∈ b := by
  rw [mem_setOpIdx] at h
  cases op <;> simp only [memSpec] at h
  · exact h
  · exact h
  · exact Or.inl h.1
  · exact Or.inl h.1
  · rcases h with h | h
    · exact Or.inl h.1
    · exact Or.inr h.1

/-- on ascending operands the result is ascending (so `numpy.unique` in the constructor is the identity) -/
theorem setOpIdx_strictAsc (op : SetOp) (a b : List Nat) (ha : StrictAsc a) :
    StrictAsc (setOpIdx op a b) := by
  cases op
  · exact strictAsc_uniq _
  · exact strictAsc_uniq _
  · exact List.Pairwise.filter _ ha
  · exact List.Pairwise.filter _ ha
  · exact strictAsc_uniq _

/-- the set operators on bit fingerprints of equal length succeed; the result is a well-formed bit
fingerprint of the same length and level -1 whose index array is ascending and has exactly the
members the set operation prescribes -/
theorem setOp_ok (op : SetOp) (f g : Fp) (hf : f.WF) (hg : g.WF) (hb : f.bits = g.bits) :
    ∃ h, Fp.setOp op f g = .ok h ∧ h.WF ∧ h.bits = f.bits ∧ h.kind = .bit ∧ h.level = -1 ∧
      h.idx = setOpIdx op f.idx g.idx ∧ StrictAsc h.idx ∧
      ∀ x, x ∈ h.idx ↔ memSpec op f.idx g.idx x := by
  have hlt : ∀ i ∈ setOpIdx op f.idx g.idx, i < f.bits := by
    intro i hi
    rcases setOpIdx_subset op _ _ i hi with h | h
    · exact hf.2.1 i h
    · rw [hb]; exact hg.2.1 i h
  have hasc := setOpIdx_strictAsc op f.idx g.idx hf.1
  refine ⟨⟨.bit, f.bits, -1, setOpIdx op f.idx g.idx, []⟩, ?_, ?_, rfl, rfl, rfl, rfl, hasc, ?_⟩
  · unfold Fp.setOp mkBit
    rw [if_neg (by simpa using hb), any_ge_false _ _ hlt, uniq_of_strictAsc _ hasc]
    rfl
  · exact ⟨hasc, hlt, fun _ => rfl, fun h => absurd rfl h⟩
  · intro x; exact mem_setOpIdx op _ _ x

/-- the result of a successful set operator, whichever way it was obtained -/
theorem setOp_spec (op : SetOp) (f g h : Fp) (hf : f.WF) (hg : g.WF) (hb : f.bits = g.bits)
    (hr : Fp.setOp op f g = .ok h) :
    h.WF ∧ h.bits = f.bits ∧ h.kind = .bit ∧ StrictAsc h.idx ∧
      ∀ x, x ∈ h.idx ↔ memSpec op f.idx g.idx x := by
  obtain ⟨h', hr', hw, hbits, hk, _, _, hs, hm⟩ := setOp_ok op f g hf hg hb
  rw [hr] at hr'
  cases hr'
  exact ⟨hw, hbits, hk, hs, hm⟩

example : Fp.setOp .xor ⟨.bit, 8, 5, [1, 3], []⟩ ⟨.bit, 8, 5, [3, 4], []⟩ = .ok ⟨.bit, 8, -1, [1, 4], []⟩ := by
  rfl

example : ∃ h, Fp.setOp .sub ⟨.bit, 8, 5, [1, 3], []⟩ ⟨.bit, 8, 5, [3, 4], []⟩ = .ok h ∧ h.WF ∧
    ∀ x, x ∈ h.idx ↔ x ∈ [1, 3] ∧ x ∉ [3, 4] := by
  obtain ⟨h, h1, h2, _, _, _, _, _, h3⟩ := setOp_ok .sub ⟨.bit, 8, 5, [1, 3], []⟩ ⟨.bit, 8, 5, [3, 4], []⟩
    ⟨by decide, by decide, by simp, by simp⟩ ⟨by decide, by decide, by simp, by simp⟩ rfl
  exact ⟨h, h1, h2, h3⟩

/-- operands of different length are rejected -/
theorem setOp_length_mismatch (op : SetOp) (f g : Fp) (h : f.bits ≠ g.bits) :
    Fp.setOp op f g = .error .bitsValue := by
  unfold Fp.setOp
  rw [if_pos h]

example : Fp.setOp .and ⟨.bit, 8, 5, [1, 3], []⟩ ⟨.bit, 16, 5, [3, 4], []⟩ = .error .bitsValue :=
  setOp_length_mismatch _ _ _ (by decide)

/-! ## pointwise arithmetic on count / float fingerprints -/

/-- the explicit result of `f + g` / `f - g` -/
theorem addSub_eq (sign : Int) (f g : Fp) (hg : g.kind ≠ .bit) (hb : f.bits = g.bits) :
    Fp.addSub sign f g = .ok
      ⟨resultKind f g, f.bits, resultLevel f g,
        (uniq (f.idx ++ g.idx)).filter
          (fun i => sign = 1 || decide (coerce (resultKind f g) (f.count i + sign * g.count i) ≠ 0)),
        ((uniq (f.idx ++ g.idx)).filter
          (fun i => sign = 1 || decide (coerce (resultKind f g) (f.count i + sign * g.count i) ≠ 0))).map
          (fun i => (i, coerce (resultKind f g) (f.count i + sign * g.count i)))⟩ := by
  unfold Fp.addSub
  split
  · rename_i hk; exact absurd hk hg
  · rw [if_neg (by simpa using hb)]

theorem resultKind_ne_bit (f g : Fp) (hf : f.kind ≠ .bit) : resultKind f g ≠ .bit := by
  unfold resultKind; split
  · simp
  · exact hf

/-- general form: the result of `f + sign·g` has, at every position, the coerced pointwise value -/
theorem addSub_count_general (sign : Int) (f g h : Fp) (hf : f.WF) (hg : g.WF)
    (hfk : f.kind ≠ .bit) (hgk : g.kind ≠ .bit) (hb : f.bits = g.bits)
    (hr : Fp.addSub sign f g = .ok h) (i : Nat) :
    h.count i = coerce (resultKind f g) (f.count i + sign * g.count i) := by
  rw [addSub_eq sign f g hgk hb] at hr
  cases hr
  have hk := resultKind_ne_bit f g hfk
  refine (Fp.count_of_ne_bit _ hk i).trans ?_
  · simp only
    generalize hu : (uniq (f.idx ++ g.idx)).filter _ = u
    by_cases hi : i ∈ u
    · exact lookupQ_map_of_mem (fun i => coerce (resultKind f g) (f.count i + sign * g.count i)) u i hi
    · rw [lookupQ_map_of_not_mem (fun i => coerce (resultKind f g) (f.count i + sign * g.count i)) u i hi]
      rw [← hu, List.mem_filter, mem_uniq, List.mem_append] at hi
      by_cases hm : i ∈ f.idx ∨ i ∈ g.idx
      · have : ¬ (sign = 1 || decide (coerce (resultKind f g) (f.count i + sign * g.count i) ≠ 0)) = true :=
          fun h => hi ⟨hm, h⟩
        simp only [Bool.or_eq_true, decide_eq_true_eq, not_or, ne_eq, Decidable.not_not] at this
        exact this.2.symm
      · rw [not_or] at hm
        rw [Fp.count_of_not_mem f hf i hm.1, Fp.count_of_not_mem g hg i hm.2]
        have : (0 : Rat) + (sign : Rat) * 0 = 0 := by grind
        rw [this, coerce_zero]

/-- `f + g` is pointwise addition -/
theorem addSub_count (f g h : Fp) (hf : f.WF) (hg : g.WF)
    (hfk : f.kind ≠ .bit) (hgk : g.kind ≠ .bit) (hb : f.bits = g.bits)
    (hr : Fp.addSub 1 f g = .ok h) (i : Nat) :
    h.kind = resultKind f g ∧ h.count i = coerce (resultKind f g) (f.count i + g.count i) := by
  refine ⟨?_, ?_⟩
  · rw [addSub_eq 1 f g hgk hb] at hr; cases hr; rfl
  · have := addSub_count_general 1 f g h hf hg hfk hgk hb hr i
    simpa using this

/-- `f - g` is pointwise subtraction (positions whose difference is 0 are dropped from the index array,
so their count reads 0 again) -/
theorem addSub_count_sub (f g h : Fp) (hf : f.WF) (hg : g.WF)
    (hfk : f.kind ≠ .bit) (hgk : g.kind ≠ .bit) (hb : f.bits = g.bits)
    (hr : Fp.addSub (-1) f g = .ok h) (i : Nat) :
    h.kind = resultKind f g ∧ h.count i = coerce (resultKind f g) (f.count i - g.count i) := by
  refine ⟨?_, ?_⟩
  · rw [addSub_eq (-1) f g hgk hb] at hr; cases hr; rfl
  · have := addSub_count_general (-1) f g h hf hg hfk hgk hb hr i
    rw [this]; congr 1; grind

/-- the dropped positions of a difference are exactly the cancelling ones -/
theorem addSub_sub_idx (f g h : Fp) (hgk : g.kind ≠ .bit) (hb : f.bits = g.bits)
    (hr : Fp.addSub (-1) f g = .ok h) (i : Nat) :
    i ∈ h.idx ↔ (i ∈ f.idx ∨ i ∈ g.idx) ∧ coerce (resultKind f g) (f.count i - g.count i) ≠ 0 := by
  rw [addSub_eq (-1) f g hgk hb] at hr; cases hr
  have e : f.count i + -1 * g.count i = f.count i - g.count i := by grind
  simp [mem_uniq, e]

/-- a sum keeps every position of either operand -/
theorem addSub_add_idx (f g h : Fp) (hgk : g.kind ≠ .bit) (hb : f.bits = g.bits)
    (hr : Fp.addSub 1 f g = .ok h) : h.idx = uniq (f.idx ++ g.idx) := by
  rw [addSub_eq 1 f g hgk hb] at hr; cases hr
  simp

/-- the result of `f ± g` is well formed -/
theorem addSub_wf (sign : Int) (f g h : Fp) (hf : f.WF) (hg : g.WF) (hgk : g.kind ≠ .bit)
    (hfk : f.kind ≠ .bit) (hb : f.bits = g.bits) (hr : Fp.addSub sign f g = .ok h) : h.WF := by
  rw [addSub_eq sign f g hgk hb] at hr; cases hr
  refine ⟨List.Pairwise.filter _ (strictAsc_uniq _), ?_, ?_, ?_⟩
  · intro i hi
    simp only [List.mem_filter, mem_uniq, List.mem_append] at hi
    rcases hi.1 with h | h
    · exact hf.2.1 i h
    · simp only; rw [hb]; exact hg.2.1 i h
  · intro e; exact absurd e (resultKind_ne_bit f g hfk)
  · intro _; simp [List.map_map, Function.comp_def]

/-- operands of different length are rejected -/
theorem addSub_length_mismatch (sign : Int) (f g : Fp) (hgk : g.kind ≠ .bit) (h : f.bits ≠ g.bits) :
    Fp.addSub sign f g = .error .bitsValue := by
  unfold Fp.addSub
  split
  · rename_i hk; exact absurd hk hgk
  · rw [if_pos h]

/-- a bit fingerprint on the right of `+` / `-` is rejected -/
theorem addSub_bit_operand_rejected (sign : Int) (f g : Fp) (hgk : g.kind = .bit) :
    Fp.addSub sign f g = .error .invalidFp := by
  unfold Fp.addSub
  rw [hgk]

/-! ### non-vacuity of the arithmetic theorems -/

def exF : Fp := ⟨.count, 8, 5, [1, 3], [(1, 2), (3, 1)]⟩
def exG : Fp := ⟨.count, 8, 5, [3, 4], [(3, 1), (4, 5)]⟩

theorem exF_wf : exF.WF := ⟨by decide, by decide, by simp [exF], by simp [exF]⟩
theorem exG_wf : exG.WF := ⟨by decide, by decide, by simp [exG], by simp [exG]⟩

example : ∃ h, Fp.addSub 1 exF exG = .ok h ∧ h.count 3 = coerce .count (exF.count 3 + exG.count 3) :=
  ⟨_, addSub_eq 1 exF exG (by simp [exG]) rfl,
    (addSub_count exF exG _ exF_wf exG_wf (by simp [exF]) (by simp [exG]) rfl
      (addSub_eq 1 exF exG (by simp [exG]) rfl) 3).2⟩

example : ∃ h, Fp.addSub (-1) exF exG = .ok h ∧ h.count 3 = coerce .count (exF.count 3 - exG.count 3) :=
  ⟨_, addSub_eq (-1) exF exG (by simp [exG]) rfl,
    (addSub_count_sub exF exG _ exF_wf exG_wf (by simp [exF]) (by simp [exG]) rfl
      (addSub_eq (-1) exF exG (by simp [exG]) rfl) 3).2⟩

example : Fp.addSub 1 exF ⟨.count, 16, 5, [], []⟩ = .error .bitsValue :=
  addSub_length_mismatch _ _ _ (by simp) (by decide)

example : Fp.addSub 1 exF ⟨.bit, 8, 5, [1], []⟩ = .error .invalidFp :=
  addSub_bit_operand_rejected _ _ _ rfl

/-! ## scalar multiplication and division -/

/-- `f * x` in closed form (count / float `f` with positive counts) -/
theorem mul_eq (f : Fp) (x : Rat) (hk : f.kind ≠ .bit) (hwf : f.WF) (hpos : ∀ p ∈ f.cnt, 0 < p.2) :
    f.mul x = .ok ⟨f.kind, f.bits, f.level, f.idx, f.idx.map (fun i => (i, coerce f.kind (f.count i * x)))⟩ := by
  unfold Fp.mul
  rw [fromFingerprint_eq f.kind hk f hwf hpos]
  rfl

/-- `f * x` multiplies every count, through the class's value setter -/
theorem mul_count (f h : Fp) (x : Rat) (hk : f.kind ≠ .bit) (hwf : f.WF) (hpos : ∀ p ∈ f.cnt, 0 < p.2)
    (hr : f.mul x = .ok h) (i : Nat) :
    h.idx = f.idx ∧ h.kind = f.kind ∧ h.count i = coerce f.kind (f.count i * x) := by
  rw [mul_eq f x hk hwf hpos] at hr
  cases hr
  refine ⟨rfl, rfl, ?_⟩
  rw [Fp.count_of_ne_bit (⟨f.kind, f.bits, f.level, f.idx,
    f.idx.map (fun i => (i, coerce f.kind (f.count i * x)))⟩ : Fp) hk i]
  simp only
  by_cases hi : i ∈ f.idx
  · exact lookupQ_map_of_mem (fun i => coerce f.kind (f.count i * x)) f.idx i hi
  · rw [lookupQ_map_of_not_mem (fun i => coerce f.kind (f.count i * x)) f.idx i hi,
      Fp.count_of_not_mem f hwf i hi]
    have : (0 : Rat) * x = 0 := by grind
    rw [this, coerce_zero]

/-- `f / x` in closed form -/
theorem div_eq (f : Fp) (x : Rat) (hx : x ≠ 0) (hwf : f.WF) (hpos : ∀ p ∈ f.cnt, 0 < p.2) :
    f.div x = .ok ⟨.float, f.bits, f.level, f.idx, f.idx.map (fun i => (i, f.count i / x))⟩ := by
  unfold Fp.div
  rw [fromFingerprint_eq .float (by simp) f hwf hpos]
  simp only [if_neg hx]
  rfl

/-- `f / x` divides every count exactly and is always a float fingerprint -/
theorem div_count (f h : Fp) (x : Rat) (hx : x ≠ 0) (hwf : f.WF) (hpos : ∀ p ∈ f.cnt, 0 < p.2)
    (hr : f.div x = .ok h) (i : Nat) :
    h.idx = f.idx ∧ h.kind = .float ∧ h.count i = f.count i / x := by
  rw [div_eq f x hx hwf hpos] at hr
  cases hr
  refine ⟨rfl, rfl, ?_⟩
  refine (Fp.count_of_ne_bit _ (by simp) i).trans ?_
  simp only
  by_cases hi : i ∈ f.idx
  · exact lookupQ_map_of_mem (fun i => f.count i / x) f.idx i hi
  · rw [lookupQ_map_of_not_mem (fun i => f.count i / x) f.idx i hi, Fp.count_of_not_mem f hwf i hi]
    grind

/-- division by zero raises -/
theorem div_zero (f : Fp) : f.div 0 = .error .zeroDiv := by
  unfold Fp.div
  simp
  rfl

theorem floordiv_zero (f : Fp) : f.floordiv 0 = .error .zeroDiv := by
  unfold Fp.floordiv
  simp
  rfl

/-- `f // x` keeps the positions whose count reaches `x` and stores `int(count / x)` there -/
theorem floordiv_count (f h : Fp) (x : Rat) (hx : x ≠ 0) (hwf : f.WF) (hr : f.floordiv x = .ok h) (i : Nat) :
    h.kind = .count ∧ (i ∈ h.idx ↔ i ∈ f.idx ∧ x ≤ f.count i) ∧
      h.count i = if x ≤ f.count i then truncQ (f.count i / x) else 0 := by
  have he : f.floordiv x = .ok ⟨.count, f.bits, f.level, f.idx.filter (fun i => decide (f.count i ≥ x)),
      (f.idx.filter (fun i => decide (f.count i ≥ x))).map (fun i => (i, truncQ (f.count i / x)))⟩ := by
    unfold Fp.floordiv
    simp only [if_neg hx]
  rw [he] at hr
  cases hr
  refine ⟨rfl, by simp, ?_⟩
  refine (Fp.count_of_ne_bit _ (by simp) i).trans ?_
  simp only
  by_cases hi : i ∈ f.idx.filter (fun i => decide (f.count i ≥ x))
  · rw [lookupQ_map_of_mem (fun i => truncQ (f.count i / x)) _ i hi]
    have := (List.mem_filter.1 hi).2
    simp only [ge_iff_le, decide_eq_true_eq] at this
    rw [if_pos this]
  · rw [lookupQ_map_of_not_mem (fun i => truncQ (f.count i / x)) _ i hi]
    simp only [List.mem_filter, ge_iff_le, decide_eq_true_eq, not_and] at hi
    by_cases hm : i ∈ f.idx
    · rw [if_neg (hi hm)]
    · rw [Fp.count_of_not_mem f hwf i hm]
      split
      · have : (0 : Rat) / x = 0 := by grind
        rw [this]; exact (coerce_zero .count).symm
      · rfl

example : ∃ h, exF.mul 3 = .ok h ∧ h.count 1 = coerce .count (exF.count 1 * 3) := by
  have hpos : ∀ p ∈ exF.cnt, 0 < p.2 := by
    intro p hp; simp only [exF, List.mem_cons, List.not_mem_nil, or_false] at hp
    rcases hp with rfl | rfl <;> grind
  exact ⟨_, mul_eq exF 3 (by simp [exF]) exF_wf hpos,
    (mul_count exF _ 3 (by simp [exF]) exF_wf hpos (mul_eq exF 3 (by simp [exF]) exF_wf hpos) 1).2.2⟩

/-! ## batch addition -/

theorem sumQ_eq_zero (l : List Rat) (h : ∀ x ∈ l, x = 0) : sumQ l = 0 := by
  induction l with
  | nil => rfl
  | cons a as ih =>
    simp only [sumQ]
    rw [h a (by simp), ih (fun x hx => h x (by simp [hx]))]
    grind

theorem sumQ_isInt (l : List Rat) (h : ∀ x ∈ l, ∃ z : Int, x = (z : Rat)) : ∃ z : Int, sumQ l = (z : Rat) := by
  induction l with
  | nil => exact ⟨0, by simp [sumQ]⟩
  | cons a as ih =>
    obtain ⟨z1, h1⟩ := h a (by simp)
    obtain ⟨z2, h2⟩ := ih (fun x hx => h x (by simp [hx]))
    exact ⟨z1 + z2, by simp [sumQ, h1, h2, Rat.intCast_add]⟩

/-- the kind `fprint.add` gives its result when no weights are passed -/
def batchKind (fs : List Fp) : Kind := if fs.any (fun f => f.kind == .float) then Kind.float else Kind.count

theorem addBatch_none_eq (f0 : Fp) (rest : List Fp) :
    addBatch (f0 :: rest) none = .ok (some
      ⟨batchKind (f0 :: rest), f0.bits, f0.level, uniq ((f0 :: rest).flatMap (·.idx)),
        (uniq ((f0 :: rest).flatMap (·.idx))).map
          (fun i => (i, coerce (batchKind (f0 :: rest)) (sumQ ((f0 :: rest).map (·.count i)))))⟩) := rfl

theorem addBatch_some_eq (f0 : Fp) (rest : List Fp) (w : List Rat) (hl : w.length = (f0 :: rest).length) :
    addBatch (f0 :: rest) (some w) = .ok (some
      ⟨.float, f0.bits, f0.level, uniq ((f0 :: rest).flatMap (·.idx)),
        (uniq ((f0 :: rest).flatMap (·.idx))).map
          (fun i => (i, sumQ (((f0 :: rest).zip w).map (fun p => p.1.count i * p.2))))⟩) := by
  unfold addBatch
  simp only
  rw [if_neg (by simpa using hl)]

theorem batchKind_ne_bit (fs : List Fp) : batchKind fs ≠ .bit := by
  unfold batchKind; split <;> simp

/-- unweighted `fprint.add`: every position holds the (coerced) sum of the operands' counts there -/
theorem addBatch_count (fs : List Fp) (h : Fp) (hwf : ∀ f ∈ fs, f.WF)
    (hr : addBatch fs none = .ok (some h)) (i : Nat) :
    h.kind = batchKind fs ∧ h.count i = coerce (batchKind fs) (sumQ (fs.map (·.count i))) := by
  cases fs with
  | nil => simp [addBatch] at hr
  | cons f0 rest =>
    rw [addBatch_none_eq] at hr
    cases hr
    refine ⟨rfl, ?_⟩
    refine (Fp.count_of_ne_bit _ (batchKind_ne_bit _) i).trans ?_
    simp only
    generalize hu : uniq ((f0 :: rest).flatMap (·.idx)) = u
    by_cases hi : i ∈ u
    · exact lookupQ_map_of_mem (fun i => coerce (batchKind (f0 :: rest)) (sumQ ((f0 :: rest).map (fun x : Fp => x.count i)))) u i hi
    · rw [lookupQ_map_of_not_mem (fun i => coerce (batchKind (f0 :: rest)) (sumQ ((f0 :: rest).map (fun x : Fp => x.count i)))) u i hi]
      rw [← hu, mem_uniq, List.mem_flatMap] at hi
      rw [sumQ_eq_zero, coerce_zero]
      intro x hx
      obtain ⟨f, hf, rfl⟩ := List.mem_map.1 hx
      exact Fp.count_of_not_mem f (hwf f hf) i (fun hm => hi ⟨f, hf, hm⟩)

/-- with a float operand present the sums are stored as they are -/
theorem addBatch_count_float (fs : List Fp) (h : Fp) (hwf : ∀ f ∈ fs, f.WF)
    (hfl : fs.any (fun f => f.kind == .float) = true)
    (hr : addBatch fs none = .ok (some h)) (i : Nat) :
    h.kind = .float ∧ h.count i = sumQ (fs.map (·.count i)) := by
  have := addBatch_count fs h hwf hr i
  have hk : batchKind fs = .float := by unfold batchKind; rw [if_pos hfl]
  rw [hk] at this
  exact this

/-- with integral counts throughout (bit and count operands built by the constructors) the sums are exact -/
theorem addBatch_count_integral (fs : List Fp) (h : Fp) (hwf : ∀ f ∈ fs, f.WF)
    (hint : ∀ f ∈ fs, ∀ j, ∃ z : Int, f.count j = (z : Rat))
    (hr : addBatch fs none = .ok (some h)) (i : Nat) :
    h.count i = sumQ (fs.map (·.count i)) := by
  rw [(addBatch_count fs h hwf hr i).2]
  obtain ⟨z, hz⟩ := sumQ_isInt (fs.map (·.count i)) (by
    intro x hx
    obtain ⟨f, hf, rfl⟩ := List.mem_map.1 hx
    exact hint f hf i)
  rw [hz, coerce_intCast]

/-- a weight list of the wrong length is rejected -/
theorem addBatch_weights_mismatch (f0 : Fp) (rest : List Fp) (w : List Rat) (h : w.length ≠ (f0 :: rest).length) :
    addBatch (f0 :: rest) (some w) = .error .value := by
  simp only [addBatch]
  rw [if_pos h]

/-- the support of the sum is the union of the supports, and the result is well formed -/
theorem addBatch_idx (fs : List Fp) (h : Fp) (hwf : ∀ f ∈ fs, f.WF) (hbits : ∀ f ∈ fs, f.bits = (fs.headD default).bits)
    (w : Option (List Rat)) (hr : addBatch fs w = .ok (some h)) :
    h.idx = uniq (fs.flatMap (·.idx)) ∧ h.WF := by
  cases fs with
  | nil => cases w <;> simp [addBatch] at hr
  | cons f0 rest =>
    have hlt : ∀ i ∈ uniq ((f0 :: rest).flatMap (·.idx)), i < f0.bits := by
      intro i hi
      rw [mem_uniq, List.mem_flatMap] at hi
      obtain ⟨f, hf, hm⟩ := hi
      have := hbits f hf
      simp only [List.headD_cons] at this
      rw [← this]; exact (hwf f hf).2.1 i hm
    cases w with
    | none =>
      rw [addBatch_none_eq] at hr
      cases hr
      refine ⟨rfl, strictAsc_uniq _, hlt, ?_, ?_⟩
      · intro e; exact absurd e (batchKind_ne_bit _)
      · intro _; simp [List.map_map, Function.comp_def]
    | some w =>
      by_cases hl : w.length = (f0 :: rest).length
      · rw [addBatch_some_eq f0 rest w hl] at hr
        cases hr
        refine ⟨rfl, strictAsc_uniq _, hlt, ?_, ?_⟩
        · intro e; cases e
        · intro _; simp [List.map_map, Function.comp_def]
      · rw [addBatch_weights_mismatch f0 rest w hl] at hr; cases hr

/-- weighted `fprint.add`: every position holds the weighted sum of the operands' counts -/
theorem addBatch_count_weighted (fs : List Fp) (w : List Rat) (h : Fp) (hwf : ∀ f ∈ fs, f.WF)
    (hr : addBatch fs (some w) = .ok (some h)) (i : Nat) :
    h.kind = .float ∧ h.count i = sumQ ((fs.zip w).map (fun p => p.1.count i * p.2)) := by
  cases fs with
  | nil => simp [addBatch] at hr
  | cons f0 rest =>
    by_cases hl : w.length = (f0 :: rest).length
    case neg => rw [addBatch_weights_mismatch f0 rest w hl] at hr; cases hr
    case pos =>
      rw [addBatch_some_eq f0 rest w hl] at hr
      cases hr
      refine ⟨rfl, ?_⟩
      refine (Fp.count_of_ne_bit _ (by simp) i).trans ?_
      simp only
      generalize hu : uniq ((f0 :: rest).flatMap (·.idx)) = u
      by_cases hi : i ∈ u
      · exact lookupQ_map_of_mem (fun i => sumQ (((f0 :: rest).zip w).map (fun p : Fp × Rat => p.1.count i * p.2))) u i hi
      · rw [lookupQ_map_of_not_mem (fun i => sumQ (((f0 :: rest).zip w).map (fun p : Fp × Rat => p.1.count i * p.2))) u i hi]
        rw [← hu, mem_uniq, List.mem_flatMap] at hi
        rw [sumQ_eq_zero]
        intro x hx
        obtain ⟨p, hp, rfl⟩ := List.mem_map.1 hx
        have hf := (List.of_mem_zip hp).1
        rw [Fp.count_of_not_mem p.1 (hwf p.1 hf) i (fun hm => hi ⟨p.1, hf, hm⟩)]
        grind

example : ∃ h, addBatch [exF, exG] none = .ok (some h) ∧ h.count 3 = sumQ ([exF, exG].map (·.count 3)) := by
  refine ⟨_, rfl, ?_⟩
  apply addBatch_count_integral [exF, exG] _ _ _ rfl
  · intro f hf
    simp only [List.mem_cons, List.not_mem_nil, or_false] at hf
    rcases hf with rfl | rfl
    · exact exF_wf
    · exact exG_wf
  · intro f hf j
    simp only [List.mem_cons, List.not_mem_nil, or_false] at hf
    rcases hf with rfl | rfl
    · simp only [exF, Fp.count, lookupQ]
      split
      · exact ⟨2, by simp⟩
      · split
        · exact ⟨1, by simp⟩
        · exact ⟨0, by simp⟩
    · simp only [exG, Fp.count, lookupQ]
      split
      · exact ⟨1, by simp⟩
      · split
        · exact ⟨5, by simp⟩
        · exact ⟨0, by simp⟩

def exH : Fp := ⟨.float, 8, 5, [2], [(2, 1 / 2)]⟩
theorem exH_wf : exH.WF := ⟨by decide, by decide, by simp [exH], by simp [exH]⟩

theorem ex_all_wf : ∀ f ∈ [exF, exH], f.WF := by
  intro f hf
  simp only [List.mem_cons, List.not_mem_nil, or_false] at hf
  rcases hf with rfl | rfl
  · exact exF_wf
  · exact exH_wf

example : ∃ h, addBatch [exF, exH] none = .ok (some h) ∧ h.kind = .float ∧
    h.count 2 = sumQ ([exF, exH].map (·.count 2)) :=
  ⟨_, addBatch_none_eq exF [exH], addBatch_count_float [exF, exH] _ ex_all_wf rfl (addBatch_none_eq exF [exH]) 2⟩

example : ∃ h, addBatch [exF, exH] (some [2, 3]) = .ok (some h) ∧
    h.count 2 = sumQ (([exF, exH].zip [2, 3]).map (fun p => p.1.count 2 * p.2)) ∧ h.WF :=
  ⟨_, addBatch_some_eq exF [exH] [2, 3] rfl,
    (addBatch_count_weighted [exF, exH] [2, 3] _ ex_all_wf (addBatch_some_eq exF [exH] [2, 3] rfl) 2).2,
    (addBatch_idx [exF, exH] _ ex_all_wf (by
      intro f hf
      simp only [List.mem_cons, List.not_mem_nil, or_false] at hf
      rcases hf with rfl | rfl <;> rfl) _ (addBatch_some_eq exF [exH] [2, 3] rfl)).2⟩

example : addBatch [exF, exH] (some [2]) = .error .value := addBatch_weights_mismatch _ _ _ (by decide)

end E3fpVerif.Props.C11
