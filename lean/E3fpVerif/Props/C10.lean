import E3fpVerif.Model.Fprint
import E3fpVerif.Lemmas.Uniq
import E3fpVerif.Lemmas.FpAux
namespace E3fpVerif.Props.C10
open E3fpVerif

/-- index-array round trip for bit fingerprints -/
theorem indices_rt_bit (f : Fp) (hk : f.kind = .bit) (hwf : f.WF) :
    mkBit f.idx f.bits f.level = .ok f := by
  obtain ⟨hs, hb, hc, _⟩ := hwf
  unfold mkBit
  have : f.idx.any (fun i => decide (i ≥ f.bits)) = false := by
    rw [List.any_eq_false]; intro i hi; simp; exact hb i hi
  rw [this, uniq_of_strictAsc _ hs]
  cases f; simp_all

/-- the stored counts survive the class's value setter (`int(v)` for counts; always true for floats) -/
def Stable (f : Fp) : Prop := ∀ p ∈ f.cnt, coerce f.kind p.2 = p.2

theorem stable_float (f : Fp) (hk : f.kind = .float) : Stable f := by
  intro p _; rw [hk]; rfl

/-- index-array + counts round trip for count / float fingerprints -/
theorem indices_rt_count (f : Fp) (hk : f.kind ≠ .bit) (hwf : f.WF) (hst : Stable f) :
    mkCount f.kind (some f.idx) (some f.cnt) f.bits f.level = .ok f := by
  rw [mkCount_some_some_eq _ _ _ _ _ hwf.2.1 (by rw [hwf.2.2.2 hk]; intro x; rfl),
    uniq_of_strictAsc _ hwf.1]
  have := map_count_self f hk hwf f.kind hst
  simp only [Fp.count_of_ne_bit f hk] at this
  rw [this]

/-- `from_indices` round trip, every class -/
theorem indices_rt (f : Fp) (hwf : f.WF) (hst : Stable f) :
    fromIndices f.kind f.idx (if f.kind = .bit then none else some f.cnt) f.bits f.level = .ok f := by
  unfold fromIndices
  split
  · rename_i hk; exact indices_rt_bit f hk hwf
  · rename_i hk
    rw [if_neg (fun e => hk e)]
    exact indices_rt_count f (fun e => hk e) hwf hst

/-! ## bitstring -/

theorem toBitstring_length (f : Fp) : f.toBitstring.length = f.bits := by
  simp [Fp.toBitstring]

/-- the set positions of the bitstring are exactly the indices -/
theorem toBitstring_get (f : Fp) (i : Nat) (hi : i < f.toBitstring.length) :
    f.toBitstring[i] = decide (i ∈ f.idx) := by
  simp [Fp.toBitstring]

theorem toBitstring_on (f : Fp) (hwf : f.WF) :
    (f.toBitstring.zipIdx.filter (fun p => p.1)).map Prod.snd = f.idx := by
  unfold Fp.toBitstring
  rw [filter_zipIdx_map_range (fun i => decide (i ∈ f.idx)) (fun b => b)]
  simp only [List.map_map, Function.comp_def, List.map_id']
  exact filter_range_eq f.idx f.bits _ hwf.1 hwf.2.1 (fun i _ => by simp)

/-- `from_bitstring(to_bitstring())` -/
theorem bitstring_rt (f : Fp) (hk : f.kind = .bit) (hwf : f.WF) :
    fromBitstring .bit f.toBitstring f.level = .ok f := by
  unfold fromBitstring fromIndices
  simp only
  rw [toBitstring_on f hwf, toBitstring_length]
  exact indices_rt_bit f hk hwf

/-! ## dense vectors -/

theorem toDense_length (f : Fp) : f.toDense.length = f.bits := by
  simp [Fp.toDense]

theorem toDense_get (f : Fp) (i : Nat) (hi : i < f.toDense.length) : f.toDense[i] = f.count i := by
  simp [Fp.toDense]

/-- all stored counts are non-zero (always so for a bit fingerprint) -/
def NonZero (f : Fp) : Prop := ∀ p ∈ f.cnt, p.2 ≠ 0

theorem count_ne_zero_iff (f : Fp) (hwf : f.WF) (hnz : NonZero f) (i : Nat) : f.count i ≠ 0 ↔ i ∈ f.idx := by
  constructor
  · intro h; apply Decidable.by_contra; intro hi; exact h (Fp.count_of_not_mem f hwf i hi)
  · intro hi
    by_cases hk : f.kind = .bit
    · rw [Fp.count_of_bit f hk, if_pos hi]; grind
    · rw [Fp.count_of_ne_bit f hk]
      have hkeys := hwf.2.2.2 hk
      rw [← hkeys] at hi
      obtain ⟨p, hp, rfl⟩ := List.mem_map.1 hi
      rw [lookupQ_of_mem f.cnt (by rw [hkeys]; exact strictAsc_nodup _ hwf.1) p hp]
      exact hnz p hp

/-- the non-zero positions of the dense vector are exactly the indices -/
theorem toDense_nz (f : Fp) (hwf : f.WF) (hnz : NonZero f) :
    f.toDense.zipIdx.filter (fun p => decide (p.1 ≠ 0)) = f.idx.map (fun i => (f.count i, i)) := by
  unfold Fp.toDense
  rw [filter_zipIdx_map_range f.count (fun v => decide (v ≠ 0))]
  rw [filter_range_eq f.idx f.bits _ hwf.1 hwf.2.1
    (fun i _ => by simpa using count_ne_zero_iff f hwf hnz i)]

/-- `from_vector(to_vector(sparse=False))`, bit class -/
theorem dense_rt_bit (f : Fp) (hk : f.kind = .bit) (hwf : f.WF) :
    fromDense .bit f.toDense f.level = .ok f := by
  have hnz : NonZero f := by intro p hp; rw [hwf.2.2.1 hk] at hp; cases hp
  unfold fromDense fromIndices
  simp only
  rw [toDense_nz f hwf hnz, toDense_length]
  simp only [List.map_map, Function.comp_def, List.map_id']
  exact indices_rt_bit f hk hwf

/-- `from_vector(to_vector(sparse=False))`, count and float classes: needs every stored count non-zero
(a stored zero is indistinguishable from an absent position in the dense vector) -/
theorem dense_rt_count (f : Fp) (hk : f.kind ≠ .bit) (hwf : f.WF) (hnz : NonZero f) (hst : Stable f) :
    fromDense f.kind f.toDense f.level = .ok f := by
  unfold fromDense fromIndices
  simp only
  rw [toDense_nz f hwf hnz, toDense_length]
  simp only [List.map_map, Function.comp_def, List.map_id']
  have hc : f.idx.map (fun i => (i, f.count i)) = f.cnt := by
    have := map_count_self f hk hwf .float (fun _ _ => rfl)
    simpa [coerce] using this
  rw [hc]
  exact indices_rt_count f hk hwf hst

/-- every class at once -/
theorem dense_rt (f : Fp) (hwf : f.WF) (hnz : NonZero f) (hst : Stable f) :
    fromDense f.kind f.toDense f.level = .ok f := by
  by_cases hk : f.kind = .bit
  · have := dense_rt_bit f hk hwf; rwa [← hk] at this
  · exact dense_rt_count f hk hwf hnz hst

/-- the non-zero hypothesis of `dense_rt_count` cannot be dropped -/
theorem dense_loses_zero_count :
    let f : Fp := ⟨.float, 4, 0, [1], [(1, 0)]⟩
    f.WF ∧ fromDense .float f.toDense f.level = .ok ⟨.float, 4, 0, [], []⟩ := by
  refine ⟨⟨by decide, by decide, by simp, by simp⟩, ?_⟩
  simp [fromDense, fromIndices, Fp.toDense, Fp.count, lookupQ, List.range, List.range.loop, mkCount, uniq]

/-! ## sparse vectors -/

/-- `from_vector(to_vector(sparse=True))`, count and float classes: explicit zeros are stored, so no
non-zero hypothesis is needed -/
theorem sparse_rt_count (f : Fp) (hk : f.kind ≠ .bit) (hwf : f.WF) (hst : Stable f) :
    fromSparse f.kind f.cnt f.bits f.level = .ok f := by
  unfold fromSparse fromIndices
  rw [hwf.2.2.2 hk]
  split
  · rename_i e; exact absurd e hk
  · exact indices_rt_count f hk hwf hst

/-- bit class: the stored entries are the indices with value 1 -/
theorem sparse_rt_bit (f : Fp) (hk : f.kind = .bit) (hwf : f.WF) :
    fromSparse .bit (f.idx.map (fun i => (i, 1))) f.bits f.level = .ok f := by
  unfold fromSparse fromIndices
  simp only [List.map_map, Function.comp_def, List.map_id']
  exact indices_rt_bit f hk hwf

/-- every class at once, through `fp.counts` -/
theorem sparse_rt (f : Fp) (hwf : f.WF) (hst : Stable f) :
    fromSparse f.kind f.countsDict f.bits f.level = .ok f := by
  by_cases hk : f.kind = .bit
  · have := sparse_rt_bit f hk hwf
    unfold Fp.countsDict; rw [hk]; exact this
  · have := sparse_rt_count f hk hwf hst
    unfold Fp.countsDict
    split
    · rename_i e; exact absurd e hk
    · exact this

/-! ## RDKit bit vectors -/

/-- below 2^31 bits `to_rdkit` loses nothing but the level -/
theorem rdkit_rt (f : Fp) (hk : f.kind = .bit) (hwf : f.WF) (hb : f.bits < 2 ^ 31) :
    fromRdkit .bit f.toRdkit.1 f.toRdkit.2 = .ok { f with level := -1 } := by
  have hmin : min f.bits (2 ^ 31 - 1) = f.bits := by omega
  have hmap : f.idx.map (· % (2 ^ 31 - 1)) = f.idx := by
    conv => rhs; rw [← List.map_id f.idx]
    apply List.map_congr_left
    intro i hi
    have := hwf.2.1 i hi
    simp only [id]
    exact Nat.mod_eq_of_lt (by omega)
  unfold fromRdkit Fp.toRdkit fromIndices
  simp only
  rw [hmin, hmap, uniq_of_strictAsc _ hwf.1, if_neg (by omega)]
  have hwf' : ({ f with level := -1 } : Fp).WF := hwf
  exact indices_rt_bit { f with level := -1 } hk hwf'

/-- at the default length 2^32 the RDKit round trip does not give the fingerprint back: RDKit's
`ExplicitBitVect` holds 2^31 - 1 bits, and only the exact value 2^32 - 1 is mapped back to 2^32 -/
theorem rdkit_loses_length :
    let f : Fp := ⟨.bit, 2 ^ 32, -1, [], []⟩
    f.WF ∧ fromRdkit .bit f.toRdkit.1 f.toRdkit.2 = .ok ⟨.bit, 2 ^ 31 - 1, -1, [], []⟩ := by
  refine ⟨⟨by simp [StrictAsc], by simp, by simp, by simp⟩, ?_⟩
  rfl

/-! ## pickling -/

theorem pickle_rt (f : Fp) (hwf : f.WF) : Fp.pickleRoundTrip f = f := by
  unfold Fp.pickleRoundTrip
  split
  · rfl
  · rename_i hk
    rw [hwf.2.2.2 (fun e => hk e), uniq_of_strictAsc _ hwf.1]

/-! ## non-vacuity -/

def exB : Fp := ⟨.bit, 8, 5, [1, 3], []⟩
def exC : Fp := ⟨.count, 8, 5, [1, 3], [(1, 2), (3, 1)]⟩
theorem exB_wf : exB.WF := ⟨by decide, by decide, by simp [exB], by simp [exB]⟩
theorem exC_wf : exC.WF := ⟨by decide, by decide, by simp [exC], by simp [exC]⟩
theorem exC_stable : Stable exC := by
  intro p hp; simp only [exC, List.mem_cons, List.not_mem_nil, or_false] at hp
  rcases hp with rfl | rfl
  · exact coerce_natCast .count 2
  · exact coerce_natCast .count 1
theorem exC_nz : NonZero exC := by
  intro p hp; simp only [exC, List.mem_cons, List.not_mem_nil, or_false] at hp
  rcases hp with rfl | rfl <;> grind

example : fromBitstring .bit exB.toBitstring exB.level = .ok exB := bitstring_rt exB rfl exB_wf
example : exB.toBitstring = [false, true, false, true, false, false, false, false] := by decide
example : fromDense .bit exB.toDense exB.level = .ok exB := dense_rt_bit exB rfl exB_wf
example : fromDense .count exC.toDense exC.level = .ok exC := dense_rt_count exC (by simp [exC]) exC_wf exC_nz exC_stable
example : fromSparse .count exC.cnt exC.bits exC.level = .ok exC := sparse_rt_count exC (by simp [exC]) exC_wf exC_stable
example : mkCount .count (some exC.idx) (some exC.cnt) 8 5 = .ok exC := indices_rt_count exC (by simp [exC]) exC_wf exC_stable
example : fromRdkit .bit exB.toRdkit.1 exB.toRdkit.2 = .ok { exB with level := -1 } :=
  rdkit_rt exB rfl exB_wf (by decide)
example : Fp.pickleRoundTrip exC = exC := pickle_rt exC exC_wf

end E3fpVerif.Props.C10
