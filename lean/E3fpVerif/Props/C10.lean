import E3fpVerif.Model.Fprint
import E3fpVerif.Lemmas.Uniq
namespace E3fpVerif.Props.C10
open E3fpVerif

/-- index-array round trip for bit fingerprints -/
theorem indices_rt_bit (f : Fp) (hk : f.kind = .bit) (hwf : f.WF) :
    mkBit f.idx f.bits f.level = .ok f := by
  obtain ⟨hs, hb, hc, _⟩ := hwf
  unfold mkBit
  have : f.idx.any (fun i => decide (i ≥ f.bits)) = false := by
    rw [List.any_eq_false]; intro i hi; simp; exact hb i hi
  rw [this, uniq_of_strictAsc _ hs]
  cases f; simp_all

end E3fpVerif.Props.C10
