import E3fpVerif.Model.Db
import E3fpVerif.Gen.DbIO
/-!
# C08 — saving and loading a database is lossless
-/
namespace E3fpVerif.Props.C08
open E3fpVerif

/-- every key `load` reads is a key `savez` writes, and vice versa -/
theorem keys_agree : ∀ k, k ∈ Gen.loadKeys ↔ k ∈ Gen.savezKeys := by
  intro k; simp [Gen.loadKeys, Gen.savezKeys]; constructor <;> (intro h; rcases h with h|h|h|h|h|h|h|h <;> simp [h])

/-- no reserved key can be mistaken for a property column: none starts with the prefix -/
theorem reserved_not_prefixed : ∀ k ∈ Gen.savezKeys, Gen.loadPrefix.toList.isPrefixOf k.toList = false := by decide

/-- prefixing is injective and stripping inverts it, so property columns are recovered under their own names whatever they are called -/
theorem strip_prefix (k : String) : ((Gen.propPrefix ++ k).toList.drop Gen.loadStrip) = k.toList ∧
    Gen.loadPrefix.toList.isPrefixOf (Gen.propPrefix ++ k).toList = true := by
  simp [Gen.propPrefix, Gen.loadPrefix, Gen.loadStrip]

/-- `load` tests the very prefix `savez` writes and strips exactly its length -/
theorem prefix_consistent : Gen.loadPrefix = Gen.propPrefix ∧ Gen.loadStrip = Gen.propPrefix.length := by decide

/-- pickling rebuilds the name index from the names; for a database whose index is the canonical
one (every database built by the public operations, lemma in C05) it is the identity -/
theorem pickle_rt (db : Db) (h : db.namesMap = updateNamesMap [] db.fpNames 0) : db.pickleRoundTrip = db := by
  cases db; simp_all [Db.pickleRoundTrip]

theorem pickle_idem (db : Db) : db.pickleRoundTrip.pickleRoundTrip = db.pickleRoundTrip := by
  simp [Db.pickleRoundTrip]

end E3fpVerif.Props.C08
