import E3fpVerif.Model.Db
import E3fpVerif.Gen.DbIO
import E3fpVerif.Lemmas.DbCast
import E3fpVerif.Props.C05
/-!
# C08 — saving and loading a database is lossless
-/
namespace E3fpVerif.Props.C08
open E3fpVerif

/-- every key `load` reads is a key `savez` writes, and vice versa -/
theorem keys_agree : ∀ k, k ∈ Gen.loadKeys ↔ k ∈ Gen.savezKeys := by
  intro k; simp [Gen.loadKeys, Gen.savezKeys]; constructor <;> (intro h; rcases h with h|h|h|h|h|h|h|h <;> simp [h])

/-- no reserved key can be mistaken for a property column: none starts with the prefix -/
theorem reserved_not_prefixed : ∀ k ∈ Gen.savezKeys, Gen.loadPrefix.toList.isPrefixOf k.toList = false := by decide

/-- prefixing is injective and stripping inverts it, so property columns are recovered under their own names whatever they are called -/
theorem strip_prefix (k : String) : ((Gen.propPrefix ++ k).toList.drop Gen.loadStrip) = k.toList ∧
    Gen.loadPrefix.toList.isPrefixOf (Gen.propPrefix ++ k).toList = true := by
  simp [Gen.propPrefix, Gen.loadPrefix, Gen.loadStrip]

/-- `load` tests the very prefix `savez` writes and strips exactly its length -/
theorem prefix_consistent : Gen.loadPrefix = Gen.propPrefix ∧ Gen.loadStrip = Gen.propPrefix.length := by decide

/-- pickling rebuilds the name index from the names; for a database whose index is the canonical
one (every database built by the public operations, lemma in C05) it is the identity -/
theorem pickle_rt (db : Db) (h : db.namesMap = updateNamesMap [] db.fpNames 0) : db.pickleRoundTrip = db := by
  cases db; simp_all [Db.pickleRoundTrip]

theorem pickle_idem (db : Db) : db.pickleRoundTrip.pickleRoundTrip = db.pickleRoundTrip := by
  simp [Db.pickleRoundTrip]

/-! ## `savez` / `load` -/

/-- the save/load cycle is the identity on a database whose stored values are values of its dtype,
whose name index is the canonical one, whose property keys are duplicate free and whose columns
are as long as the name list (the general form; `savezLoad_id` states it under `Db.Inv`) -/
theorem savezLoad_id_gen (db : Db) (a : List Row) (ha : db.array = some a)
    (hcast : ∀ r ∈ a, ∀ p ∈ r, castVal db.fpType p.2 = p.2)
    (hidx : db.namesMap = updateNamesMap [] db.fpNames 0)
    (hnd : (db.props.map Prod.fst).Nodup)
    (hlen : ∀ c ∈ db.props, c.2.length = db.fpNames.length) : db.savezLoad = .ok db := by
  unfold Db.savezLoad
  rw [ha]
  simp only
  rw [fromArray_ok a db.bits db.fpNames db.fpType db.level db.name db.props hlen]
  simp only
  have harr : a.map (fun r => r.map (fun p => (p.1, castVal db.fpType p.2))) = a := by
    conv => rhs; rw [← List.map_id a]
    apply List.map_congr_left
    intro r hr
    conv => rhs; rw [id, ← List.map_id r]
    apply List.map_congr_left
    intro p hp
    rw [hcast r hr p hp]; rfl
  rw [harr, foldl_colSet_insert db.props hnd, ← hidx, ← ha]

/-- **saving and loading a database is lossless** -/
theorem savezLoad_id (db : Db) (a : List Row) (hi : db.Inv) (ha : db.array = some a)
    (hcast : ∀ r ∈ a, ∀ p ∈ r, castVal db.fpType p.2 = p.2) : db.savezLoad = .ok db := by
  obtain ⟨h1, h2, h3, h4⟩ := (C05.inv_some ha).1 hi
  exact savezLoad_id_gen db a ha hcast h3 h4 (fun c hc => by rw [h2 c hc, h1])

/-- what `load(savez(db))` is when it succeeds: the rows cast to the dtype, the index rebuilt, the
columns re-inserted -/
theorem savezLoad_ok (db d : Db) (h : db.savezLoad = .ok d) :
    ∃ a, db.array = some a ∧ (∀ c ∈ db.props, c.2.length = db.fpNames.length) ∧
      d = { db with array := some (a.map (fun r => r.map (fun p => (p.1, castVal db.fpType p.2)))),
                    namesMap := updateNamesMap [] db.fpNames 0,
                    props := db.props.foldl (fun acc c => colSet acc c.1 c.2) [] } := by
  unfold Db.savezLoad at h
  split at h
  · cases h
  · rename_i a ha
    split at h
    · rename_i d' heq
      cases h
      have hc := (fromArray_ok_iff a db.bits db.fpNames db.fpType db.level db.name db.props).1 (by rw [heq])
      rw [fromArray_ok _ _ _ _ _ _ _ hc] at heq
      exact ⟨a, ha, hc, (Prod.mk.inj heq).1.symm⟩
    · cases h

/-- a second save/load cycle changes nothing (no hypothesis on `db`) -/
theorem savezLoad_idem (db d : Db) (h : db.savezLoad = .ok d) : d.savezLoad = .ok d := by
  obtain ⟨a, ha, hc, rfl⟩ := savezLoad_ok db d h
  have hp := foldl_colSet_pairs_forall (fun v => v.length = db.fpNames.length) db.props hc [] (by simp) (by simp)
  refine savezLoad_id_gen _ _ rfl ?_ rfl hp.1 hp.2
  intro r hr p hp'
  obtain ⟨r0, _, rfl⟩ := List.mem_map.1 hr
  obtain ⟨p0, _, rfl⟩ := List.mem_map.1 hp'
  exact castVal_idem _ _

/-- the loaded database satisfies the invariant whenever the saved one had as many names as rows
and no columns on an empty matrix — in particular whenever the saved one satisfied it -/
theorem savezLoad_inv (db d : Db) (hi : db.Inv) (h : db.savezLoad = .ok d) : d.Inv := by
  unfold Db.savezLoad at h
  split at h
  · cases h
  · rename_i a ha
    obtain ⟨h1, _, _, _⟩ := (C05.inv_some ha).1 hi
    split at h
    · rename_i d' heq
      cases h
      exact C05.fromArray_inv' heq h1
    · cases h

/-- saving never fails on a non-empty database satisfying the invariant; what may change is only
the stored values (cast to the dtype) -/
theorem savezLoad_succeeds (db : Db) (a : List Row) (hi : db.Inv) (ha : db.array = some a) :
    ∃ d, db.savezLoad = .ok d ∧ d.fpNames = db.fpNames ∧ d.namesMap = db.namesMap ∧ d.props = db.props ∧
      d.array = some (a.map (fun r => r.map (fun p => (p.1, castVal db.fpType p.2)))) := by
  obtain ⟨h1, h2, h3, h4⟩ := (C05.inv_some ha).1 hi
  have hlen : ∀ c ∈ db.props, c.2.length = db.fpNames.length := fun c hc => by rw [h2 c hc, h1]
  have e : db.savezLoad = .ok (Db.fromArray a db.bits db.fpNames db.fpType db.level db.name db.props).1 := by
    unfold Db.savezLoad
    rw [ha]
    simp only
    rw [fromArray_ok a db.bits db.fpNames db.fpType db.level db.name db.props hlen]
  rw [fromArray_ok a db.bits db.fpNames db.fpType db.level db.name db.props hlen] at e
  exact ⟨_, e, rfl, h3.symm, foldl_colSet_insert db.props h4, rfl⟩

/-! ## pickling and the invariant -/

/-- the unpickled database has the canonical index, whatever the index of the pickled one was -/
theorem pickle_index (db : Db) :
    db.pickleRoundTrip.namesMap = updateNamesMap [] db.pickleRoundTrip.fpNames 0 := rfl

/-- under the invariant pickling is the identity, and so preserves the invariant -/
theorem pickle_inv (db : Db) (h : db.Inv) : db.pickleRoundTrip = db ∧ db.pickleRoundTrip.Inv := by
  have e := pickle_rt db h.canonical
  exact ⟨e, by rw [e]; exact h⟩

/-- pickling repairs a damaged index: whatever is put in place of the index of a database
satisfying the invariant, unpickling gives the database back -/
theorem pickle_repairs (db : Db) (m : List (Option String × List Nat)) (h : db.Inv) :
    ({ db with namesMap := m } : Db).pickleRoundTrip = db := by
  have e := h.canonical
  cases db
  simp_all [Db.pickleRoundTrip]

/-! ## non-vacuity -/

section Examples

private def f1 : Fp := ⟨.bit, 8, 0, [1, 2], []⟩
private def f2 : Fp := ⟨.bit, 8, 0, [3], []⟩
private def db1 : Db :=
  (Db.new .bit 0 (some "x")).addOk [⟨f1, some "a", [("w", .int 1)]⟩, ⟨f2, some "a", [("w", .int 2)]⟩]

private theorem db1_inv : db1.Inv := C05.inv_addOk _ _ (C05.inv_new _ _ _)

/-- `savezLoad_id`, `savezLoad_idem`, `pickle_inv`: the hypotheses hold of a two-row bit database
with a repeated name and a property column -/
example : db1.savezLoad = .ok db1 ∧ db1.pickleRoundTrip = db1 ∧ db1.fpNum = 2 :=
  ⟨savezLoad_id db1 _ db1_inv rfl (by decide), (pickle_inv db1 db1_inv).1, by decide⟩

example : ∃ d, db1.savezLoad = .ok d ∧ d.savezLoad = .ok d :=
  ⟨db1, savezLoad_id db1 _ db1_inv rfl (by decide),
    savezLoad_idem db1 db1 (savezLoad_id db1 _ db1_inv rfl (by decide))⟩

/-- the dtype hypothesis of `savezLoad_id` cannot be dropped: a bit database holding a stored 2
(`from_array` accepts it, `add` never produces it) is loaded with a 1 in its place -/
theorem savezLoad_casts :
    let db : Db := { db1 with array := some [[(1, 2)], [(3, 1)]] }
    (db.savezLoad.toOption.map (·.array)) = some (some [[(1, 1)], [(3, 1)]]) := by decide

end Examples

/-! ## the text export

`savetxt` of a binary database writes **exactly one bit string of the database's length per row, in
row order, followed by the fingerprint's name when names are requested**.  `Db.savetxtLines` (the
function the driver runs against `savetxt`) is characterised completely. -/

theorem bitstringOfRow_length (bits : Nat) (r : Row) : (bitstringOfRow bits r).length = bits := by
  simp [bitstringOfRow]

/-- position `j` of the bit string is set exactly when the row stores column `j` -/
theorem bitstringOfRow_get (bits : Nat) (r : Row) (j : Nat) (hj : j < bits) :
    (bitstringOfRow bits r)[j]'(by simpa [bitstringOfRow] using hj) = r.any (fun p => p.1 == j) := by
  simp [bitstringOfRow]

/-- one line per row (and per name): under the invariant, one line per fingerprint -/
theorem savetxtLines_length (db : Db) (w : Bool) (hi : db.Inv) : (db.savetxtLines w).length = db.fpNum := by
  have hn := hi.names_length
  cases ha : db.array with
  | none => simp [Db.savetxtLines, ha, Db.fpNum]
  | some a =>
    have : db.fpNames.length = a.length := by simpa [Db.fpNum, ha] using hn
    simp [Db.savetxtLines, ha, Db.fpNum, this]

/-- the `i`-th line is the line of the `i`-th row and the `i`-th name: row order is kept -/
theorem savetxtLines_get (db : Db) (w : Bool) (a : List Row) (ha : db.array = some a) (i : Nat) (r : Row)
    (nm : Option String) (hr : a[i]? = some r) (hn : db.fpNames[i]? = some nm) :
    (db.savetxtLines w)[i]? = some (savetxtLine db.bits w r nm) := by
  have hz : (a.zip db.fpNames)[i]? = some (r, nm) := List.getElem?_zip_eq_some.2 ⟨hr, hn⟩
  simp only [Db.savetxtLines, ha, Option.getD_some, List.getElem?_map, hz, Option.map_some]

/-- a line begins with the bit string of the database's length … -/
theorem savetxtLine_bits (bits : Nat) (w : Bool) (r : Row) (nm : Option String) :
    (savetxtLine bits w r nm).take bits = (bitstringOfRow bits r).map (fun b => if b then '1' else '0') := by
  unfold savetxtLine
  rw [List.take_append_of_le_length (by simp [bitstringOfRow])]
  rw [List.take_of_length_le (by simp [bitstringOfRow])]

/-- … which consists of the characters `0` and `1` only … -/
theorem savetxtLine_bits_chars (bits : Nat) (w : Bool) (r : Row) (nm : Option String) :
    ∀ c ∈ (savetxtLine bits w r nm).take bits, c = '0' ∨ c = '1' := by
  rw [savetxtLine_bits]
  intro c hc
  obtain ⟨b, _, rfl⟩ := List.mem_map.1 hc
  cases b <;> simp

/-- … and is followed by nothing when names are not requested, by a blank and the name otherwise
(`None` for a fingerprint without name) -/
theorem savetxtLine_rest (bits : Nat) (w : Bool) (r : Row) (nm : Option String) :
    (savetxtLine bits w r nm).drop bits = if w then ' ' :: (nm.getD "None").toList else [] := by
  unfold savetxtLine
  rw [List.drop_append_of_le_length (by simp [bitstringOfRow])]
  rw [List.drop_of_length_le (by simp [bitstringOfRow])]
  simp

/-- length of a line without names: exactly the database's length -/
theorem savetxtLine_length_nonames (bits : Nat) (r : Row) (nm : Option String) :
    (savetxtLine bits false r nm).length = bits := by
  simp [savetxtLine, bitstringOfRow]

/-- the stored order of a row's cells is irrelevant to its line (what `savetxt` got wrong before the
repair recorded under C08 in `known_findings.json`) -/
theorem savetxtLine_perm (bits : Nat) (w : Bool) (r r' : Row) (nm : Option String) (h : r.Perm r') :
    savetxtLine bits w r nm = savetxtLine bits w r' nm := by
  unfold savetxtLine bitstringOfRow
  congr 2
  apply List.map_congr_left
  intro j _
  exact h.any_eq

example : String.mk (savetxtLine 8 true [(5, 1), (1, 1)] (some "m_0")) = "01000100 m_0" ∧
    String.mk (savetxtLine 8 false [(5, 1), (1, 1)] none) = "01000100" ∧
    String.mk (savetxtLine 4 true [] none) = "0000 None" := by decide

end E3fpVerif.Props.C08
