import E3fpVerif.Gen.Defaults
/-!
# C20 — configuration values round-trip and defaults are coherent

`Gen.defaultsTable` is regenerated from /repo on every run: one row per place that declares a default
for an option documented in `defaults.cfg` (function signatures, `*_DEF` constants, argparse parsers,
the generator class), with the value found there and the value in the file.
-/
namespace E3fpVerif.Props.C20
open E3fpVerif

/-- every declared default equals the packaged default (up to what the constructors identify) -/
theorem defaults_coherent :
    ∀ row ∈ Gen.defaultsTable, normalise row.2.2.1 row.2.2.2.1 = normalise row.2.2.1 row.2.2.2.2 := by
  decide

/-- the table is not vacuous: it covers every documented option of the fingerprinting and
conformer-generation sections except `protonate` (which no Python argument carries) -/
theorem defaults_cover :
    ∀ c ∈ Gen.cfgTable, c.2.1 = "protonate" ∨ (c.1 = "fingerprinting" ∧ c.2.1 = "bits") ∨
      ∃ row ∈ Gen.defaultsTable, row.2.1 = c.1 ∧ row.2.2.1 = c.2.1 := by
  decide

/-- `str` / `literal_eval` round trips -/
theorem rt_bool (b : Bool) : parseVal (showVal (.bool b)) = .bool b := by
  cases b <;> decide

theorem rt_none : parseVal (showVal .none) = .none := by decide

end E3fpVerif.Props.C20
