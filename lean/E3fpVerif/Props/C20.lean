import E3fpVerif.Gen.Defaults
import E3fpVerif.Lemmas.ConfigRT
/-!
# C20 — configuration values round-trip and defaults are coherent

`Gen.defaultsTable` is regenerated from /repo on every run: one row per place that declares a default
for an option documented in `defaults.cfg` (function signatures, `*_DEF` constants, argparse parsers,
the generator class), with the value found there and the value in the file.
-/
namespace E3fpVerif.Props.C20
open E3fpVerif

/-- every declared default equals the packaged default (up to what the constructors identify) -/
theorem defaults_coherent :
    ∀ row ∈ Gen.defaultsTable, normalise row.2.2.1 row.2.2.2.1 = normalise row.2.2.1 row.2.2.2.2 := by
  decide

/-- the table is not vacuous: it covers every documented option of the fingerprinting and
conformer-generation sections except `protonate` (which no Python argument carries) -/
theorem defaults_cover :
    ∀ c ∈ Gen.cfgTable, c.2.1 = "protonate" ∨ (c.1 = "fingerprinting" ∧ c.2.1 = "bits") ∨
      ∃ row ∈ Gen.defaultsTable, row.2.1 = c.1 ∧ row.2.2.1 = c.2.1 := by
  decide

/-- `str` / `literal_eval` round trips -/
theorem rt_bool (b : Bool) : parseVal (showVal (.bool b)) = .bool b := by
  cases b <;> decide

theorem rt_none : parseVal (showVal .none) = .none := by decide

/-- reading the decimal text of a natural gives the natural back -/
theorem digitsNat_natDigits (n : Nat) : digitsNat? (natDigits n) = some n := E3fpVerif.digitsNat_natDigits n

/-- every integer option value survives `str` then `literal_eval` (negative ones included) -/
theorem rt_int (i : Int) : parseVal (showVal (.int i)) = .int i := parseVal_showInt i

example : parseVal (showVal (.int (-1))) = .int (-1) := rt_int (-1)
example : showVal (.int (-250)) = ['-', '2', '5', '0'] := by decide

/-- a string value comes back as itself provided its text is not one of the literal words, is not
read as an integer (also after a leading minus sign) and is not float text.
Partial: the side conditions are stated on the text rather than derived from a grammar of "ordinary"
strings; they are necessary (examples below). -/
theorem rt_str_partial (s : String)
    (h1 : s ≠ "True") (h2 : s ≠ "False") (h3 : s ≠ "None")
    (hd : digitsNat? s.toList = none)
    (hneg : ∀ r, s.toList = '-' :: r → digitsNat? r = none)
    (hf : isFloatText s.toList = false) :
    parseVal (showVal (.str s)) = .str s := parseVal_str s h1 h2 h3 hd hneg hf

/-- non-vacuity: an ordinary string meets the side conditions -/
example : parseVal (showVal (.str "rdkit_mmff94")) = .str "rdkit_mmff94" := by
  have w : "rdkit_mmff94".toList = ['r', 'd', 'k', 'i', 't', '_', 'm', 'm', 'f', 'f', '9', '4'] := by decide
  refine rt_str_partial _ (by decide) (by decide) (by decide) (by decide) ?_ (by decide)
  intro r h
  rw [w] at h
  cases h

/-- the side conditions are necessary: strings that look like other literals change type -/
example : parseVal (showVal (.str "12")) = .int 12 := by decide
example : parseVal (showVal (.str "-3")) = .int (-3) := by decide
example : parseVal (showVal (.str "None")) = .none := by decide
example : parseVal (showVal (.str "True")) = .bool true := by decide

/-- a float value (kept as its `repr`) comes back as itself when the text is float text and not an
integer text.  Partial in the same sense as `rt_str_partial`. -/
theorem rt_float_partial (s : String)
    (h1 : s ≠ "True") (h2 : s ≠ "False") (h3 : s ≠ "None")
    (hd : digitsNat? s.toList = none)
    (hneg : ∀ r, s.toList = '-' :: r → digitsNat? r = none)
    (hf : isFloatText s.toList = true) :
    parseVal (showVal (.float s)) = .float s := parseVal_float s h1 h2 h3 hd hneg hf

example : parseVal (showVal (.float "-0.5")) = .float "-0.5" := by
  have w : "-0.5".toList = ['-', '0', '.', '5'] := by decide
  refine rt_float_partial _ (by decide) (by decide) (by decide) (by decide) ?_ (by decide)
  intro r h
  rw [w] at h
  cases h
  decide

end E3fpVerif.Props.C20
