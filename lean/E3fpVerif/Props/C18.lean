import E3fpVerif.Model.Fprinter
import E3fpVerif.Lemmas.SortBy
import E3fpVerif.Lemmas.MonoRelabel
namespace E3fpVerif.Props.C18
open E3fpVerif

/-- hydrogens are never retained -/
theorem hydrogens_not_retained (o : Opts) (m : MolG) (a : Nat) (h : a ∈ retained o m) :
    ∃ x ∈ m.atoms, x.idx = a ∧ x.atomicNum > 1 := by
  unfold retained at h
  simp only at h
  split at h
  · simp only [List.mem_map, List.mem_filter] at h
    obtain ⟨x, ⟨hx, hc⟩, rfl⟩ := h
    exact ⟨x, hx, rfl, by simp at hc; exact hc.1⟩
  · simp only [List.mem_map, List.mem_filter] at h
    obtain ⟨x, ⟨hx, hc⟩, rfl⟩ := h
    exact ⟨x, hx, rfl, by simpa using hc⟩

/-! ## the frame property: only decisions about retained atoms are ever consulted -/

/-- two geometries agree on a set of atoms: every shell-membership test between two of them, and
every stereo call whose centre and neighbour atoms are among them, give the same answer -/
def GeoAgree (atoms : List Nat) (g₁ g₂ : Geo) : Prop :=
  (∀ k a b, a ∈ atoms → b ∈ atoms → g₁.within k a b = g₂.within k a b) ∧
  (∀ c tuples, c ∈ atoms → (∀ t ∈ tuples, t.2.2 ∈ atoms) → g₁.stereo c tuples = g₂.stereo c tuples)

theorem GeoAgree.refl (atoms : List Nat) (g : Geo) : GeoAgree atoms g g :=
  ⟨fun _ _ _ _ _ => rfl, fun _ _ _ _ => rfl⟩

theorem GeoAgree.symm {atoms : List Nat} {g₁ g₂ : Geo} (h : GeoAgree atoms g₁ g₂) : GeoAgree atoms g₂ g₁ :=
  ⟨fun k a b ha hb => (h.1 k a b ha hb).symm, fun c t hc ht => (h.2 c t hc ht).symm⟩

/-- the neighbour tuples only reach `g.stereo` with centre and neighbours in `atoms` -/
theorem atomTuples_agree (o : Opts) (m : MolG) (g₁ g₂ : Geo) (atoms : List Nat) (hg : GeoAgree atoms g₁ g₂)
    (prev : List GShell) (a : Nat) (nb : List Nat) (ha : a ∈ atoms) (hnb : ∀ b ∈ nb, b ∈ atoms) :
    atomTuples o m g₁ prev a nb = atomTuples o m g₂ prev a nb := by
  unfold atomTuples
  have hs : g₁.stereo a (sortByLt lt3 (nb.map (fun b => (conn m a b, (shellOf prev b).ident, b))))
      = g₂.stereo a (sortByLt lt3 (nb.map (fun b => (conn m a b, (shellOf prev b).ident, b)))) := by
    apply hg.2 _ _ ha
    intro t ht
    rw [mem_sortByLt] at ht
    obtain ⟨b, hb, rfl⟩ := List.mem_map.1 ht
    exact hnb b hb
  simp only [hs]

theorem shellIdent_agree (o : Opts) (m : MolG) (g₁ g₂ : Geo) (atoms : List Nat) (hg : GeoAgree atoms g₁ g₂)
    (prev : List GShell) (k a : Nat) (nb : List Nat) (ha : a ∈ atoms) (hnb : ∀ b ∈ nb, b ∈ atoms) :
    shellIdent o m g₁ prev k a nb = shellIdent o m g₂ prev k a nb := by
  unfold shellIdent
  rw [atomTuples_agree o m g₁ g₂ atoms hg prev a nb ha hnb]

theorem genLevel_agree (o : Opts) (m : MolG) (g₁ g₂ : Geo) (atoms : List Nat) (hg : GeoAgree atoms g₁ g₂)
    (prev : List GShell) (k : Nat) (t : Intern) :
    genLevel o m g₁ atoms prev k t = genLevel o m g₂ atoms prev k t := by
  unfold genLevel
  apply foldl_congr_mem
  intro acc a ha
  have hf : atoms.filter (fun b => b != a && g₁.within k a b && (o.includeDisconnected || bonded m a b))
      = atoms.filter (fun b => b != a && g₂.within k a b && (o.includeDisconnected || bonded m a b)) := by
    apply List.filter_congr
    intro b hb
    rw [hg.1 k a b ha hb]
  simp only [hf]
  rw [shellIdent_agree o m g₁ g₂ atoms hg prev k a _ ha (fun b hb => (List.mem_filter.1 hb).1)]

theorem stepState_agree (o : Opts) (m : MolG) (g₁ g₂ : Geo) (atoms : List Nat) (hg : GeoAgree atoms g₁ g₂)
    (s : FState) : stepState o m g₁ atoms s = stepState o m g₂ atoms s := by
  unfold stepState
  simp only [genLevel_agree o m g₁ g₂ atoms hg]

theorem iterate_agree (o : Opts) (m : MolG) (g₁ g₂ : Geo) (atoms : List Nat) (hg : GeoAgree atoms g₁ g₂)
    (fuel : Nat) (s : FState) : iterate o m g₁ atoms fuel s = iterate o m g₂ atoms fuel s := by
  induction fuel generalizing s with
  | zero => rfl
  | succ n ih =>
    unfold iterate
    rw [stepState_agree o m g₁ g₂ atoms hg s]
    split
    · rfl
    · exact ih _

/-- the run only consults the geometry on retained atoms -/
theorem runFp_agree (o : Opts) (m : MolG) (g₁ g₂ : Geo) (hg : GeoAgree (retained o m) g₁ g₂) :
    runFp o m g₁ = runFp o m g₂ := by
  unfold runFp
  simp only [iterate_agree o m g₁ g₂ (retained o m) hg]

variable {α : Type} [Scalar α]

/-- coordinates that coincide on `atoms` give geometries that agree on `atoms` -/
theorem ofCoords_agree (mult : α) (X X' : Nat → V3 α) (atoms : List Nat) (h : ∀ a ∈ atoms, X a = X' a) :
    GeoAgree atoms (Geo.ofCoords mult X) (Geo.ofCoords mult X') := by
  constructor
  · intro k a b ha hb
    simp only [Geo.ofCoords, h a ha, h b hb]
  · intro c tuples hc ht
    simp only [Geo.ofCoords]
    congr 1
    apply List.map_congr_left
    intro t htm
    rw [h c hc, h _ (ht t htm)]

/-- **frame theorem**: the coordinates of atoms that are not retained (hydrogens; unbonded heavy
atoms when exclusion is on) are never read -/
theorem frame (o : Opts) (m : MolG) (mult : α) (X X' : Nat → V3 α) (h : ∀ a ∈ retained o m, X a = X' a) :
    runFp o m (Geo.ofCoords mult X) = runFp o m (Geo.ofCoords mult X') :=
  runFp_agree o m _ _ (ofCoords_agree mult X X' (retained o m) h)

/-- hence the fingerprint at any level, folding and mask does not depend on them either -/
theorem frame_fingerprint (o : Opts) (m : MolG) (mult : α) (X X' : Nat → V3 α) (h : ∀ a ∈ retained o m, X a = X' a)
    (req : Option Int) (bits : Option Nat) (mask : List Nat) :
    (runFp o m (Geo.ofCoords mult X) >>= fun s => fingerprintAt o s req bits mask)
      = (runFp o m (Geo.ofCoords mult X') >>= fun s => fingerprintAt o s req bits mask) := by
  rw [frame o m mult X X' h]

/-! ### non-vacuity of the frame statements -/

/-- a test molecule: C(0)–O(1)–H(2) and an unbonded heavy atom 3 -/
def exMol : MolG :=
  { atoms := [⟨0, 6, 1, [1], [1]⟩, ⟨1, 8, 2, [2], [2]⟩, ⟨2, 1, 1, [3], [3]⟩, ⟨3, 17, 0, [4], [4]⟩],
    bonds := [(0, 1, 1), (1, 2, 1)] }
def exOpts (excl : Bool) : Opts :=
  { bits := 1024, level := 2, stereo := true, counts := false, includeDisconnected := true,
    rdkitInvariants := false, excludeFloating := excl, removeDup := true }

example : retained (exOpts true) exMol = [0, 1] := by decide
example : retained (exOpts false) exMol = [0, 1, 3] := by decide

/-- two geometries that differ (on atoms 2, 3) but agree on the retained atoms `[0, 1]` -/
def exG₁ : Geo := { within := fun _ _ _ => true, stereo := fun _ t => t.map (fun _ => 0) }
def exG₂ : Geo :=
  { within := fun _ a b => a ≤ 1 && b ≤ 1, stereo := fun _ t => t.map (fun x => if x.2.2 ≤ 1 then 0 else 1) }

example : GeoAgree (retained (exOpts true) exMol) exG₁ exG₂ ∧ exG₁.within 0 2 3 ≠ exG₂.within 0 2 3 := by
  have hr : retained (exOpts true) exMol = [0, 1] := by decide
  rw [hr]
  refine ⟨⟨?_, ?_⟩, by decide⟩
  · intro k a b ha hb
    simp only [List.mem_cons, List.not_mem_nil, or_false] at ha hb
    rcases ha with rfl | rfl <;> rcases hb with rfl | rfl <;> rfl
  · intro c tuples _ ht
    simp only [exG₁, exG₂]
    apply List.map_congr_left
    intro t htm
    have := ht t htm
    simp only [List.mem_cons, List.not_mem_nil, or_false] at this
    rcases this with h | h <;> simp [h]

/-- the hypothesis of `frame` is satisfiable by coordinates that really differ: move the hydrogen
(atom 2) and the floating atom (atom 3) anywhere -/
example (X : Nat → V3 α) (p q : V3 α) :
    runFp (exOpts true) exMol (Geo.ofCoords (Scalar.ofNat 2) X)
      = runFp (exOpts true) exMol (Geo.ofCoords (Scalar.ofNat 2) (fun a => if a = 2 then p else if a = 3 then q else X a)) := by
  apply frame
  have hr : retained (exOpts true) exMol = [0, 1] := by decide
  rw [hr]
  intro a ha
  simp only [List.mem_cons, List.not_mem_nil, or_false] at ha
  rcases ha with rfl | rfl <;> simp

/-! ## floating atoms -/

/-- with `exclude_floating` and more than one heavy atom, a retained atom is a heavy atom with at
least one bond -/
theorem floating_not_retained (o : Opts) (m : MolG) (a : Nat) (hx : o.excludeFloating = true)
    (hh : ((m.atoms.filter (fun a => a.atomicNum > 1)).map (·.idx)).length > 1) (h : a ∈ retained o m) :
    ∃ x ∈ m.atoms, x.idx = a ∧ x.atomicNum > 1 ∧ x.degree > 0 := by
  unfold retained at h
  simp only [hx, Bool.true_and, decide_eq_true_eq] at h
  rw [if_pos hh] at h
  simp only [List.mem_map, List.mem_filter] at h
  obtain ⟨x, ⟨hx, hc⟩, rfl⟩ := h
  simp at hc
  exact ⟨x, hx, rfl, hc.1, hc.2⟩

/-- the same, read the other way: an atom without bonds whose index is its own is not retained -/
theorem floating_excluded (o : Opts) (m : MolG) (x : AtomInfo) (hx : o.excludeFloating = true)
    (hh : ((m.atoms.filter (fun a => a.atomicNum > 1)).map (·.idx)).length > 1)
    (hu : ∀ y ∈ m.atoms, y.idx = x.idx → y = x) (hd : x.degree = 0) : x.idx ∉ retained o m := by
  intro h
  obtain ⟨y, hy, hi, _, hdeg⟩ := floating_not_retained o m x.idx hx hh h
  rw [hu y hy hi] at hdeg
  omega

example : (exOpts true).excludeFloating = true
    ∧ ((exMol.atoms.filter (fun a => a.atomicNum > 1)).map (·.idx)).length > 1
    ∧ 1 ∈ retained (exOpts true) exMol ∧ 3 ∉ retained (exOpts true) exMol := by decide

/-- without `exclude_floating` every heavy atom is retained, bonded or not -/
theorem heavy_retained (o : Opts) (m : MolG) (hx : o.excludeFloating = false) (x : AtomInfo) (hm : x ∈ m.atoms)
    (hz : x.atomicNum > 1) : x.idx ∈ retained o m := by
  unfold retained
  simp only [hx, Bool.false_and, Bool.false_eq_true, if_false]
  exact List.mem_map.2 ⟨x, List.mem_filter.2 ⟨hm, by simpa using hz⟩, rfl⟩

/-- the level-0 shells: one per atom, in order, with the atom's invariant hash as identifier -/
theorem genLevel0_shells (o : Opts) (m : MolG) (atoms : List Nat) (t : Intern) :
    (genLevel0 o m atoms t).2.map (fun s => (s.atom, s.sub, s.nbrs, s.ident))
      = atoms.map (fun a => (a, [a], [], initIdent o m a)) := by
  unfold genLevel0
  suffices h : ∀ (acc : Intern × List GShell),
      (atoms.foldl (fun (acc : Intern × List GShell) a =>
        let (t', i) := intern acc.1 (a, [])
        (t', acc.2 ++ [{ atom := a, sid := i, sub := [a], nbrs := [], ident := initIdent o m a }])) acc).2.map
          (fun s => (s.atom, s.sub, s.nbrs, s.ident))
        = acc.2.map (fun s => (s.atom, s.sub, s.nbrs, s.ident)) ++ atoms.map (fun a => (a, [a], [], initIdent o m a)) by
    simpa using h (t, [])
  induction atoms with
  | nil => intro acc; simp
  | cons a as ih =>
    intro acc
    simp only [List.foldl_cons, List.map_cons]
    rw [ih]
    simp

theorem genLevel0_atoms (o : Opts) (m : MolG) (atoms : List Nat) (t : Intern) :
    (genLevel0 o m atoms t).2.map (·.atom) = atoms := by
  have h := congrArg (List.map (·.1)) (genLevel0_shells o m atoms t)
  simpa [List.map_map, Function.comp_def] using h

/-- after level 0 the fingerprinter holds exactly one level of shells, one shell per atom -/
theorem initState_levelShells (o : Opts) (m : MolG) (atoms : List Nat) :
    ∃ l0, (initState o m atoms).levelShells = [l0] ∧ l0.map (·.atom) = atoms
      ∧ l0.map (·.ident) = atoms.map (initIdent o m) := by
  refine ⟨(genLevel0 o m atoms []).2, rfl, genLevel0_atoms o m atoms [], ?_⟩
  have h := congrArg (List.map (·.2.2.2)) (genLevel0_shells o m atoms [])
  simpa [List.map_map, Function.comp_def] using h

/-- without `exclude_floating`, every heavy atom (bonded or not) is retained and is the centre of a
level-0 shell of the initial state, whose identifier is the hash of its invariants -/
theorem floating_contribute (o : Opts) (m : MolG) (hx : o.excludeFloating = false) :
    (∀ x ∈ m.atoms, x.atomicNum > 1 → x.idx ∈ retained o m) ∧
    ∃ l0, (initState o m (retained o m)).levelShells = [l0] ∧ l0.map (·.atom) = retained o m ∧
      ∀ a ∈ retained o m, ∃ s ∈ l0, s.atom = a ∧ s.ident = initIdent o m a := by
  refine ⟨fun x hm hz => heavy_retained o m hx x hm hz, (genLevel0 o m (retained o m) []).2, rfl,
    genLevel0_atoms o m _ [], ?_⟩
  intro a ha
  have h := genLevel0_shells o m (retained o m) []
  have hmem : (a, [a], ([] : List Nat), initIdent o m a) ∈
      (retained o m).map (fun a => (a, [a], ([] : List Nat), initIdent o m a)) := List.mem_map.2 ⟨a, ha, rfl⟩
  rw [← h] at hmem
  obtain ⟨s, hs, he⟩ := List.mem_map.1 hmem
  simp only [Prod.mk.injEq] at he
  exact ⟨s, hs, he.1, he.2.2.2⟩

example : (exOpts false).excludeFloating = false ∧ 3 ∈ retained (exOpts false) exMol := by decide

/-! ### the level-0 shells survive the iteration -/

theorem stepState_levelShells (o : Opts) (m : MolG) (g : Geo) (atoms : List Nat) (s s' : FState)
    (h : stepState o m g atoms s = some s') : ∃ ls, s'.levelShells = s.levelShells ++ [ls] := by
  unfold stepState at h
  simp only at h
  repeat' split at h
  all_goals first | (injection h with h; subst h; exact ⟨_, rfl⟩) | cases h

theorem iterate_levelShells (o : Opts) (m : MolG) (g : Geo) (atoms : List Nat) (fuel : Nat) (s : FState) :
    ∃ ext, (iterate o m g atoms fuel s).levelShells = s.levelShells ++ ext := by
  induction fuel generalizing s with
  | zero => exact ⟨[], by simp [iterate]⟩
  | succ n ih =>
    unfold iterate
    split
    · exact ⟨[], by simp⟩
    · rename_i s' hs
      obtain ⟨ls, h1⟩ := stepState_levelShells o m g atoms s s' hs
      obtain ⟨ext, h2⟩ := ih s'
      exact ⟨[ls] ++ ext, by rw [h2, h1]; simp⟩

/-- in the final state of a successful run, level 0 holds one shell per retained atom: every retained
atom (in particular every floating heavy atom when exclusion is off) contributes to the fingerprint -/
theorem runFp_level0 (o : Opts) (m : MolG) (g : Geo) (s : FState) (h : runFp o m g = .ok s) :
    ∃ l0, s.levelShells.head? = some l0 ∧ l0.map (·.atom) = retained o m
      ∧ l0.map (·.ident) = (retained o m).map (initIdent o m) := by
  unfold runFp at h
  simp only at h
  split at h
  · cases h
  · split at h
    · cases h
    · split at h
      · cases h
      · injection h with h
        obtain ⟨l0, h0, ha, hi⟩ := initState_levelShells o m (retained o m)
        obtain ⟨ext, he⟩ := iterate_levelShells o m g (retained o m)
          (if o.level = -1 then 2 ^ (retained o m).length + 1 else o.level.toNat) (initState o m (retained o m))
        refine ⟨l0, ?_, ha, hi⟩
        rw [← h, he, h0]
        rfl

example : ∃ s, runFp (exOpts false) exMol exG₁ = .ok s := by
  unfold runFp
  rw [if_neg (by decide), if_neg (by decide)]
  simp only
  rw [if_neg (by decide)]
  exact ⟨_, rfl⟩

/-! ## deleting the ignored atoms

With `exclude_floating` on, hydrogens and unbonded heavy atoms are not retained.  *Deleting* them from
the molecule renumbers the remaining atoms by a strictly monotone map `π` (indices shift down, order
is kept).  Every tie in the algorithm is broken by ascending atom index, which `π` preserves, so the
run on the molecule after deletion is the run on the original with every index mapped by `π` -- list
for list -- and every fingerprint is the same.  (Lemmas: `Lemmas/MonoRelabel.lean`.) -/

open E3fpVerif.Mono

/-- `(m', g')` is `(m, g)` after a strictly monotone renumbering `π` of the retained atoms (e.g. after
deleting atoms that are not retained): the retained atoms correspond in order, with the same
invariants, bonds and geometric decisions -/
structure MonoRel (o : Opts) (π : Nat → Nat) (m : MolG) (g : Geo) (m' : MolG) (g' : Geo) : Prop where
  /-- `π` is strictly monotone on the retained atoms -/
  mono : ∀ a ∈ retained o m, ∀ b ∈ retained o m, a < b → π a < π b
  retained_eq : retained o m' = (retained o m).map π
  ident_eq : ∀ a ∈ retained o m, initIdent o m' (π a) = initIdent o m a
  conn_eq : ∀ a ∈ retained o m, ∀ b ∈ retained o m, conn m' (π a) (π b) = conn m a b
  bonded_eq : ∀ a ∈ retained o m, ∀ b ∈ retained o m, bonded m' (π a) (π b) = bonded m a b
  /-- bonds of a type the table lacks (`KeyError`) -/
  unknown_eq : (m'.bonds.any (fun e => e.2.2 = 0)) = (m.bonds.any (fun e => e.2.2 = 0))
  within_eq : ∀ k, ∀ a ∈ retained o m, ∀ b ∈ retained o m, g'.within k (π a) (π b) = g.within k a b
  stereo_eq : ∀ c ∈ retained o m, ∀ tuples : List (Nat × Int × Nat), (∀ t ∈ tuples, t.2.2 ∈ retained o m) →
    g'.stereo (π c) (tuples.map (fun t => (t.1, t.2.1, π t.2.2))) = g.stereo c tuples

theorem MonoRel.toLoc {o : Opts} {π : Nat → Nat} {m : MolG} {g : Geo} {m' : MolG} {g' : Geo}
    (h : MonoRel o π m g m' g') : MonoLoc o π (retained o m) m g m' g' :=
  ⟨h.mono, h.ident_eq, h.conn_eq, h.bonded_eq, h.within_eq, h.stereo_eq⟩

/-- `π` is injective on the retained atoms -/
theorem MonoRel.inj {o : Opts} {π : Nat → Nat} {m : MolG} {g : Geo} {m' : MolG} {g' : Geo}
    (h : MonoRel o π m g m' g') (a b : Nat) (ha : a ∈ retained o m) (hb : b ∈ retained o m) (he : π a = π b) :
    a = b :=
  (MonoOn.eq_iff h.mono ha hb).1 he

/-- **the run on the renumbered molecule is the renumbered run** (same error, or the same state with
every atom index mapped by `π`: intern table, generator shells, level shells, past substructures) -/
theorem runFp_mono {o : Opts} {π : Nat → Nat} {m : MolG} {g : Geo} {m' : MolG} {g' : Geo}
    (h : MonoRel o π m g m' g') : runFp o m' g' = (runFp o m g).map (FState.monoRelabel π) := by
  unfold runFp
  simp only [h.unknown_eq, h.retained_eq, List.map_eq_nil_iff, List.length_map]
  split
  · rfl
  · split
    · rfl
    · split
      · rfl
      · simp only [Except.map]
        rw [initState_mono h.toLoc, (iterate_mono h.toLoc _ _ (initState_in o m (retained o m))).1]

/-- every atom index stored in the final state of a run is a retained atom -/
theorem runFp_in (o : Opts) (m : MolG) (g : Geo) (s : FState) (h : runFp o m g = .ok s) :
    StateIn (retained o m) s := by
  unfold runFp at h
  simp only at h
  split at h
  · cases h
  · split at h
    · cases h
    · split at h
      · cases h
      · injection h with h
        rw [← h]
        exact iterate_in o m g (retained o m) _ _ (initState_in o m (retained o m))

/-- **deleting the ignored atoms does not change the fingerprint**: under `MonoRel`, the fingerprint of
the renumbered molecule at any level and folding, under the renumbered mask, is that of the original
(for a mask of retained atoms; `delete_floating_fingerprint_nomask` for no mask) -/
theorem delete_floating_fingerprint {o : Opts} {π : Nat → Nat} {m : MolG} {g : Geo} {m' : MolG} {g' : Geo}
    (h : MonoRel o π m g m' g') (req : Option Int) (bits : Option Nat) (mask : List Nat)
    (hm : ∀ a ∈ mask, a ∈ retained o m) :
    (runFp o m' g' >>= fun s => fingerprintAt o s req bits (mask.map π))
      = (runFp o m g >>= fun s => fingerprintAt o s req bits mask) := by
  rw [runFp_mono h]
  cases hr : runFp o m g with
  | error e => rfl
  | ok s =>
    show fingerprintAt o (s.monoRelabel π) req bits (mask.map π) = fingerprintAt o s req bits mask
    exact fingerprintAt_relabel h.mono o s (runFp_in o m g s hr) req bits mask hm

theorem delete_floating_fingerprint_nomask {o : Opts} {π : Nat → Nat} {m : MolG} {g : Geo} {m' : MolG} {g' : Geo}
    (h : MonoRel o π m g m' g') (req : Option Int) (bits : Option Nat) :
    (runFp o m' g' >>= fun s => fingerprintAt o s req bits [])
      = (runFp o m g >>= fun s => fingerprintAt o s req bits []) :=
  delete_floating_fingerprint h req bits [] (by intro a ha; cases ha)

/-- the shells themselves correspond: same identifiers and structural ids, renumbered atoms -/
theorem delete_floating_shells {o : Opts} {π : Nat → Nat} {m : MolG} {g : Geo} {m' : MolG} {g' : Geo}
    (h : MonoRel o π m g m' g') (s : FState) (hr : runFp o m g = .ok s) (req : Option Int) (mask : List Nat)
    (hm : ∀ a ∈ mask, a ∈ retained o m) :
    runFp o m' g' = .ok (s.monoRelabel π) ∧
    shellsAt (s.monoRelabel π) req (mask.map π) = (shellsAt s req mask).map (GShell.monoRelabel π) := by
  refine ⟨?_, shellsAt_relabel h.mono s (runFp_in o m g s hr) req mask hm⟩
  rw [runFp_mono h, hr]; rfl

/-- `MonoRel` from coordinates: if the molecules correspond and the coordinates of corresponding
retained atoms coincide, the two geometric conditions hold (any scalar type) -/
theorem MonoRel.ofCoords {o : Opts} {π : Nat → Nat} {m m' : MolG} (mult : α) (X X' : Nat → V3 α)
    (hmono : ∀ a ∈ retained o m, ∀ b ∈ retained o m, a < b → π a < π b)
    (hret : retained o m' = (retained o m).map π)
    (hident : ∀ a ∈ retained o m, initIdent o m' (π a) = initIdent o m a)
    (hconn : ∀ a ∈ retained o m, ∀ b ∈ retained o m, conn m' (π a) (π b) = conn m a b)
    (hbonded : ∀ a ∈ retained o m, ∀ b ∈ retained o m, bonded m' (π a) (π b) = bonded m a b)
    (hunk : (m'.bonds.any (fun e => e.2.2 = 0)) = (m.bonds.any (fun e => e.2.2 = 0)))
    (hX : ∀ a ∈ retained o m, X' (π a) = X a) :
    MonoRel o π m (Geo.ofCoords mult X) m' (Geo.ofCoords mult X') :=
  ⟨hmono, hret, hident, hconn, hbonded, hunk,
    ofCoords_within mult X X' π (retained o m) hX, ofCoords_stereo mult X X' π (retained o m) hX⟩

/-- with coordinates: deleting the ignored atoms (and their coordinates) leaves every fingerprint as it was -/
theorem delete_floating_fingerprint_coords {o : Opts} {π : Nat → Nat} {m m' : MolG} (mult : α) (X X' : Nat → V3 α)
    (hmono : ∀ a ∈ retained o m, ∀ b ∈ retained o m, a < b → π a < π b)
    (hret : retained o m' = (retained o m).map π)
    (hident : ∀ a ∈ retained o m, initIdent o m' (π a) = initIdent o m a)
    (hconn : ∀ a ∈ retained o m, ∀ b ∈ retained o m, conn m' (π a) (π b) = conn m a b)
    (hbonded : ∀ a ∈ retained o m, ∀ b ∈ retained o m, bonded m' (π a) (π b) = bonded m a b)
    (hunk : (m'.bonds.any (fun e => e.2.2 = 0)) = (m.bonds.any (fun e => e.2.2 = 0)))
    (hX : ∀ a ∈ retained o m, X' (π a) = X a) (req : Option Int) (bits : Option Nat) :
    (runFp o m' (Geo.ofCoords mult X') >>= fun s => fingerprintAt o s req bits [])
      = (runFp o m (Geo.ofCoords mult X) >>= fun s => fingerprintAt o s req bits []) :=
  delete_floating_fingerprint_nomask
    (MonoRel.ofCoords mult X X' hmono hret hident hconn hbonded hunk hX) req bits

/-! ### non-vacuity: a molecule, an ignored atom, its deletion -/

/-- C(0)–O(2)=Cl(3) with an ignored atom 1 of atomic number `z` and degree `d`: a hydrogen on the
carbon (`z = 1, d = 1`) or an unbonded heavy atom (`z = 17, d = 0`) -/
def delMol (z d : Nat) (extra : List (Nat × Nat × Nat)) : MolG :=
  { atoms := [⟨0, 6, 1 + d, [1], [1]⟩, ⟨1, z, d, [9], [9]⟩, ⟨2, 8, 2, [2], [2]⟩, ⟨3, 17, 1, [4], [4]⟩],
    bonds := extra ++ [(0, 2, 1), (2, 3, 2)] }

/-- the same molecule with atom 1 deleted: indices 2, 3 shift down to 1, 2 -/
def delMol' : MolG :=
  { atoms := [⟨0, 6, 1, [1], [1]⟩, ⟨1, 8, 2, [2], [2]⟩, ⟨2, 17, 1, [4], [4]⟩],
    bonds := [(0, 1, 1), (1, 2, 2)] }

/-- the renumbering deletion induces -/
def delπ (a : Nat) : Nat := if a = 0 then 0 else a - 1

example : delπ 0 = 0 ∧ delπ 2 = 1 ∧ delπ 3 = 2 := by decide

/-- the hydrogen (atom 1, bonded to the carbon) and the floating chlorine are not retained -/
example : retained (exOpts true) (delMol 1 1 [(0, 1, 1)]) = [0, 2, 3]
    ∧ retained (exOpts true) (delMol 17 0 []) = [0, 2, 3]
    ∧ retained (exOpts false) (delMol 17 0 []) = [0, 1, 2, 3]
    ∧ retained (exOpts true) delMol' = [0, 1, 2] := by decide

/-- `MonoRel` holds between the molecule and its deletion, for arbitrary coordinates `X` of the
original (the deleted molecule's coordinates are `X` without the row of atom 1) -/
theorem delMol_monoRel (z d : Nat) (extra : List (Nat × Nat × Nat))
    (hzd : (z, d, extra) = (1, 1, [(0, 1, 1)]) ∨ (z, d, extra) = (17, 0, [])) (mult : α) (X : Nat → V3 α) :
    MonoRel (exOpts true) delπ (delMol z d extra) (Geo.ofCoords mult X) delMol'
      (Geo.ofCoords mult (fun a => X (if a = 0 then 0 else a + 1))) := by
  have hr : retained (exOpts true) (delMol z d extra) = [0, 2, 3] := by
    rcases hzd with h | h <;> (injection h with h1 h2; injection h2 with h2 h3; subst h1 h2 h3; decide)
  apply MonoRel.ofCoords
  · rw [hr]; decide
  · rw [hr]; decide
  · rw [hr]
    intro a ha
    simp only [List.mem_cons, List.not_mem_nil, or_false] at ha
    rcases ha with rfl | rfl | rfl <;> rfl
  · rw [hr]
    rcases hzd with h | h <;> (injection h with h1 h2; injection h2 with h2 h3; subst h1 h2 h3; decide)
  · rw [hr]
    rcases hzd with h | h <;> (injection h with h1 h2; injection h2 with h2 h3; subst h1 h2 h3; decide)
  · rcases hzd with h | h <;> (injection h with h1 h2; injection h2 with h2 h3; subst h1 h2 h3; decide)
  · rw [hr]
    intro a ha
    simp only [List.mem_cons, List.not_mem_nil, or_false] at ha
    rcases ha with rfl | rfl | rfl <;> rfl

/-- so deleting the hydrogen, or the floating heavy atom, leaves every fingerprint unchanged -/
example (mult : α) (X : Nat → V3 α) (req : Option Int) (bits : Option Nat) :
    (runFp (exOpts true) delMol' (Geo.ofCoords mult (fun a => X (if a = 0 then 0 else a + 1)))
        >>= fun s => fingerprintAt (exOpts true) s req bits [])
      = (runFp (exOpts true) (delMol 17 0 []) (Geo.ofCoords mult X)
        >>= fun s => fingerprintAt (exOpts true) s req bits []) :=
  delete_floating_fingerprint_nomask (delMol_monoRel 17 0 [] (Or.inr rfl) mult X) req bits

example (mult : α) (X : Nat → V3 α) (req : Option Int) (bits : Option Nat) :
    (runFp (exOpts true) delMol' (Geo.ofCoords mult (fun a => X (if a = 0 then 0 else a + 1)))
        >>= fun s => fingerprintAt (exOpts true) s req bits [])
      = (runFp (exOpts true) (delMol 1 1 [(0, 1, 1)]) (Geo.ofCoords mult X)
        >>= fun s => fingerprintAt (exOpts true) s req bits []) :=
  delete_floating_fingerprint_nomask (delMol_monoRel 1 1 [(0, 1, 1)] (Or.inl rfl) mult X) req bits

/-- and the runs in question succeed (the statements above are not about two errors) -/
example (g : Geo) : ∃ s, runFp (exOpts true) (delMol 17 0 []) g = .ok s := by
  unfold runFp
  rw [if_neg (by decide), if_neg (by decide)]
  simp only
  rw [if_neg (by decide)]
  exact ⟨_, rfl⟩

/-- the renumbering is needed: without exclusion the floating atom is retained and the deleted
molecule has fewer retained atoms, so no `MonoRel` can hold -/
example (π : Nat → Nat) (g g' : Geo) : ¬ MonoRel (exOpts false) π (delMol 17 0 []) g delMol' g' := by
  intro h
  have := congrArg List.length h.retained_eq
  rw [List.length_map] at this
  revert this
  decide

/-- **caveat** (`retained_eq` is a real hypothesis for hydrogens): `degree` is `GetDegree()`, which
counts explicit hydrogens.  A heavy atom whose only bonds are to hydrogens is retained before the
hydrogens are deleted (degree > 0) and is a floating atom afterwards (degree 0): here the carbon 0 of
C(0)–H(1), O(2)=Cl(3) is retained, but not once H(1) is deleted, so no `MonoRel` relates the two. -/
example (π : Nat → Nat) (g g' : Geo) :
    ¬ MonoRel (exOpts true) π
      { atoms := [⟨0, 6, 1, [1], [1]⟩, ⟨1, 1, 1, [9], [9]⟩, ⟨2, 8, 1, [2], [2]⟩, ⟨3, 17, 1, [4], [4]⟩],
        bonds := [(0, 1, 1), (2, 3, 2)] } g
      { atoms := [⟨0, 6, 0, [1], [1]⟩, ⟨1, 8, 1, [2], [2]⟩, ⟨2, 17, 1, [4], [4]⟩], bonds := [(1, 2, 2)] } g' := by
  intro h
  have := congrArg List.length h.retained_eq
  rw [List.length_map] at this
  revert this
  decide

end E3fpVerif.Props.C18
