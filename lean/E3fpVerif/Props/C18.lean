import E3fpVerif.Model.Fprinter
namespace E3fpVerif.Props.C18
open E3fpVerif

/-- hydrogens are never retained -/
theorem hydrogens_not_retained (o : Opts) (m : MolG) (a : Nat) (h : a ∈ retained o m) :
    ∃ x ∈ m.atoms, x.idx = a ∧ x.atomicNum > 1 := by
  unfold retained at h
  simp only at h
  split at h
  · simp only [List.mem_map, List.mem_filter] at h
    obtain ⟨x, ⟨hx, hc⟩, rfl⟩ := h
    exact ⟨x, hx, rfl, by simp at hc; exact hc.1⟩
  · simp only [List.mem_map, List.mem_filter] at h
    obtain ⟨x, ⟨hx, hc⟩, rfl⟩ := h
    exact ⟨x, hx, rfl, by simpa using hc⟩

end E3fpVerif.Props.C18
