import E3fpVerif.Model.Fprinter
namespace E3fpVerif.Props.C03
open E3fpVerif

/-- the first-unique selection only depends on the keys -/
theorem firstUnique_some_count {κ : Type} [DecidableEq κ] (keys : List κ) (i : Nat) (h : firstUnique keys = some i) :
    ∃ k, keys[i]? = some k ∧ keys.count k = 1 := by
  unfold firstUnique at h
  simp only [Option.map_eq_some_iff] at h
  obtain ⟨p, hp, rfl⟩ := h
  have hm := List.find?_some hp
  have hmem := List.mem_of_find?_eq_some hp
  refine ⟨p.1, ?_, by simpa using hm⟩
  have := List.mem_zipIdx hmem
  simp at this
  obtain ⟨h1, h2⟩ := this
  simp [h2]

end E3fpVerif.Props.C03
