import E3fpVerif.Model.Fprinter
import E3fpVerif.Lemmas.SortBy
import E3fpVerif.Lemmas.Uniq
import E3fpVerif.Lemmas.EnumOrder
namespace E3fpVerif.Props.C03
open E3fpVerif

/-- the first-unique selection only depends on the keys -/
theorem firstUnique_some_count {κ : Type} [DecidableEq κ] (keys : List κ) (i : Nat) (h : firstUnique keys = some i) :
    ∃ k, keys[i]? = some k ∧ keys.count k = 1 := by
  unfold firstUnique at h
  simp only [Option.map_eq_some_iff] at h
  obtain ⟨p, hp, rfl⟩ := h
  have hm := List.find?_some hp
  have hmem := List.mem_of_find?_eq_some hp
  refine ⟨p.1, ?_, by simpa using hm⟩
  have := List.mem_zipIdx hmem
  simp at this
  obtain ⟨h1, h2⟩ := this
  simp [h2]

/-- no element is selected exactly when no key occurs exactly once -/
theorem firstUnique_none_iff {κ : Type} [DecidableEq κ] (keys : List κ) :
    firstUnique keys = none ↔ ∀ k ∈ keys, keys.count k ≠ 1 := by
  unfold firstUnique
  simp only [Option.map_eq_none_iff, List.find?_eq_none, beq_iff_eq]
  constructor
  · intro h k hk
    obtain ⟨i, hi, rfl⟩ := List.getElem_of_mem hk
    exact h (keys[i], i) (List.mem_zipIdx_iff_getElem?.2 (by simp [hi]))
  · intro h p hp
    have := List.mem_zipIdx_iff_getElem?.1 hp
    exact h p.1 (List.mem_of_getElem? this)

example : firstUnique [1, 1, 2, 2] = none ∧ firstUnique [1, 1, 2, 3] = some 2 := by decide

/-! ## the sort the fingerprinter applies before every order-sensitive step -/

/-- sorting preserves membership -/
theorem mem_sortByLt {β : Type} (lt : β → β → Bool) (x : β) (l : List β) : x ∈ sortByLt lt l ↔ x ∈ l :=
  E3fpVerif.mem_sortByLt lt x l

/-- sorting permutes -/
theorem sortByLt_perm {β : Type} (lt : β → β → Bool) (l : List β) : (sortByLt lt l).Perm l :=
  E3fpVerif.sortByLt_perm lt l

/-- for an irreflexive transitive `lt`, no later element of the result is below an earlier one; and
if `lt` is trichotomous on the elements, every earlier element is below or equal to every later one -/
theorem sortByLt_sorted {β : Type} (lt : β → β → Bool)
    (irrefl : ∀ a, lt a a = false) (trans : ∀ a b c, lt a b = true → lt b c = true → lt a c = true)
    (l : List β) :
    (sortByLt lt l).Pairwise (fun a b => lt b a = false) ∧
    ((∀ a ∈ l, ∀ b ∈ l, lt a b = true ∨ a = b ∨ lt b a = true) →
      (sortByLt lt l).Pairwise (fun a b => lt a b = true ∨ a = b)) :=
  ⟨E3fpVerif.sortByLt_sorted lt irrefl trans l, E3fpVerif.sortByLt_sorted_le lt irrefl trans l⟩

/-- for a strict total order on the elements, the sorted list does not depend on the input order -/
theorem sortByLt_eq_of_perm {β : Type} (lt : β → β → Bool)
    (irrefl : ∀ a, lt a a = false) (trans : ∀ a b c, lt a b = true → lt b c = true → lt a c = true)
    (l₁ l₂ : List β) (tri : ∀ a ∈ l₁, ∀ b ∈ l₁, lt a b = true ∨ a = b ∨ lt b a = true) (hp : l₁.Perm l₂) :
    sortByLt lt l₁ = sortByLt lt l₂ :=
  E3fpVerif.sortByLt_eq_of_perm lt irrefl trans l₁ l₂ tri hp

/-- neighbour tuples `(bond code, identifier, atom)` -/
theorem sortByLt_lt3_perm (l₁ l₂ : List (Nat × Int × Nat)) (hp : l₁.Perm l₂) :
    sortByLt lt3 l₁ = sortByLt lt3 l₂ :=
  E3fpVerif.sortByLt_eq_of_perm lt3 lt3_irrefl lt3_trans l₁ l₂ (fun a _ b _ => lt3_trich a b) hp

/-- the per-neighbour integer tuples that are hashed -/
theorem sortByLt_ltIntList_perm (l₁ l₂ : List (List Int)) (hp : l₁.Perm l₂) :
    sortByLt ltIntList l₁ = sortByLt ltIntList l₂ :=
  E3fpVerif.sortByLt_eq_of_perm ltIntList ltIntList_irrefl ltIntList_trans l₁ l₂
    (fun a _ b _ => ltIntList_trich a b) hp

/-- the shells of one level, sorted by `(identifier, atom)`: the order is canonical as soon as that
key determines the shell among the shells sorted (one shell per centre atom) -/
theorem sortByLt_ltShell_perm (l₁ l₂ : List GShell)
    (hk : ∀ a ∈ l₁, ∀ b ∈ l₁, a.ident = b.ident → a.atom = b.atom → a = b) (hp : l₁.Perm l₂) :
    sortByLt ltShell l₁ = sortByLt ltShell l₂ := by
  refine E3fpVerif.sortByLt_eq_of_perm ltShell ltShell_irrefl ltShell_trans l₁ l₂ ?_ hp
  intro a ha b hb
  rcases ltShell_trich_key a b with h | h | h
  · exact Or.inl h
  · exact Or.inr (Or.inl (hk a ha b hb h.1 h.2))
  · exact Or.inr (Or.inr h)

theorem eq_of_nodup_map {β γ : Type} (f : β → γ) : ∀ (l : List β), (l.map f).Nodup →
    ∀ a ∈ l, ∀ b ∈ l, f a = f b → a = b
  | [], _, a, ha, _, _, _ => by simp at ha
  | x :: xs, hn, a, ha, b, hb, hab => by
    simp only [List.map_cons, List.nodup_cons, List.mem_map, not_exists, not_and] at hn
    rcases List.mem_cons.1 ha with rfl | ha' <;> rcases List.mem_cons.1 hb with rfl | hb'
    · rfl
    · exact absurd hab.symm (hn.1 b hb')
    · exact absurd hab (hn.1 a ha')
    · exact eq_of_nodup_map f xs hn.2 a ha' b hb' hab

/-- one shell per centre atom is enough -/
theorem sortByLt_ltShell_perm_of_nodup (l₁ l₂ : List GShell) (hn : (l₁.map (·.atom)).Nodup) (hp : l₁.Perm l₂) :
    sortByLt ltShell l₁ = sortByLt ltShell l₂ := by
  apply sortByLt_ltShell_perm l₁ l₂ _ hp
  intro a ha b hb _ hat
  exact eq_of_nodup_map (·.atom) l₁ hn a ha b hb hat

example : sortByLt lt3 [(2, 5, 0), (1, -3, 4), (1, -3, 2)] = sortByLt lt3 [(1, -3, 2), (2, 5, 0), (1, -3, 4)]
    ∧ sortByLt lt3 [(2, 5, 0), (1, -3, 4), (1, -3, 2)] = [(1, -3, 2), (1, -3, 4), (2, 5, 0)] := by decide

/-- the hypothesis on `ltShell` cannot be dropped: two different shells with the same `(ident, atom)`
keep their input order -/
example : ∃ a b : GShell, sortByLt ltShell [a, b] ≠ sortByLt ltShell [b, a] :=
  ⟨⟨0, 0, [], [], 0⟩, ⟨0, 1, [], [], 0⟩, by decide⟩

/-! ## the neighbour enumeration order does not matter -/

/-- `atom_tuples_from_shell` does not depend on the order in which the neighbours are enumerated
(Python's set iteration order): the tuples are sorted by the total order `lt3` before the stereo
step sees them -/
theorem atomTuples_perm (o : Opts) (m : MolG) (g : Geo) (prev : List GShell) (a : Nat) (nb nb' : List Nat)
    (hp : nb.Perm nb') : atomTuples o m g prev a nb = atomTuples o m g prev a nb' := by
  unfold atomTuples
  have hnil : (nb = []) ↔ (nb' = []) := by
    constructor
    · intro h; subst h; exact hp.nil_eq.symm
    · intro h; subst h; exact hp.eq_nil
  have hb : sortByLt lt3 (nb.map (fun b => (conn m a b, (shellOf prev b).ident, b)))
      = sortByLt lt3 (nb'.map (fun b => (conn m a b, (shellOf prev b).ident, b))) :=
    sortByLt_lt3_perm _ _ (hp.map _)
  simp only [hnil, hb]

/-- hence the shell identifier does not depend on it either -/
theorem shellIdent_perm (o : Opts) (m : MolG) (g : Geo) (prev : List GShell) (k a : Nat) (nb nb' : List Nat)
    (hp : nb.Perm nb') : shellIdent o m g prev k a nb = shellIdent o m g prev k a nb' := by
  unfold shellIdent
  rw [atomTuples_perm o m g prev a nb nb' hp]

example : [3, 1, 2].Perm [1, 2, 3] := by decide

/-! ## the atom enumeration order of the neighbour filter does not matter -/

/-- `genLevel` with the neighbour filter taken over another enumeration `atoms'` of the atoms -/
def genLevelP (o : Opts) (m : MolG) (g : Geo) (atoms atoms' : List Nat) (prev : List GShell) (k : Nat) (t : Intern) :
    Intern × List GShell :=
  atoms.foldl (fun (acc : Intern × List GShell) a =>
    let nb := atoms'.filter (fun b => b != a && g.within k a b && (o.includeDisconnected || bonded m a b))
    let members := uniq (nb.map (fun b => (shellOf prev b).sid))
    let (t', i) := intern acc.1 (a, members)
    let sub := uniq (a :: nb.flatMap (fun b => (shellOf prev b).sub))
    (t', acc.2 ++ [{ atom := a, sid := i, sub := sub, nbrs := nb, ident := shellIdent o m g prev k a nb }])) (t, [])

theorem genLevelP_self (o : Opts) (m : MolG) (g : Geo) (atoms : List Nat) (prev : List GShell) (k : Nat) (t : Intern) :
    genLevelP o m g atoms atoms prev k t = genLevel o m g atoms prev k t := rfl

/-- a shell with its neighbour list read as a set (ascending, duplicate free) -/
def shellKey (s : GShell) : Nat × Nat × List Nat × List Nat × Int := (s.atom, s.sid, s.sub, uniq s.nbrs, s.ident)

/-- enumerating the atoms in another order for the neighbour filter gives the same intern table and
shells with the same centre, structural id, substructure, neighbour set and identifier (only the
order of the stored neighbour list `nbrs` changes) -/
theorem genLevelP_perm (o : Opts) (m : MolG) (g : Geo) (atoms atoms' : List Nat) (hp : atoms.Perm atoms')
    (prev : List GShell) (k : Nat) (t : Intern) :
    (genLevelP o m g atoms atoms' prev k t).1 = (genLevel o m g atoms prev k t).1 ∧
    (genLevelP o m g atoms atoms' prev k t).2.map shellKey = (genLevel o m g atoms prev k t).2.map shellKey := by
  unfold genLevelP genLevel
  apply foldl_rel (fun (x y : Intern × List GShell) =>
    x.1 = y.1 ∧ x.2.map shellKey = y.2.map shellKey)
  · exact ⟨rfl, rfl⟩
  · intro acc acc' a _ ⟨h1, h2⟩
    have hf : (atoms'.filter (fun b => b != a && g.within k a b && (o.includeDisconnected || bonded m a b))).Perm
        (atoms.filter (fun b => b != a && g.within k a b && (o.includeDisconnected || bonded m a b))) :=
      hp.symm.filter _
    generalize atoms'.filter (fun b => b != a && g.within k a b && (o.includeDisconnected || bonded m a b)) = nb' at hf
    generalize atoms.filter (fun b => b != a && g.within k a b && (o.includeDisconnected || bonded m a b)) = nb at hf
    have hmem : uniq (nb'.map (fun b => (shellOf prev b).sid)) = uniq (nb.map (fun b => (shellOf prev b).sid)) :=
      uniq_ext _ _ (fun x => (hf.map _).mem_iff)
    have hsub : uniq (a :: nb'.flatMap (fun b => (shellOf prev b).sub)) = uniq (a :: nb.flatMap (fun b => (shellOf prev b).sub)) := by
      apply uniq_ext
      intro x
      simp only [List.mem_cons, List.mem_flatMap]
      constructor
      · rintro (h | ⟨b, hb, hx⟩)
        · exact Or.inl h
        · exact Or.inr ⟨b, hf.mem_iff.1 hb, hx⟩
      · rintro (h | ⟨b, hb, hx⟩)
        · exact Or.inl h
        · exact Or.inr ⟨b, hf.mem_iff.2 hb, hx⟩
    have hid := shellIdent_perm o m g prev k a nb' nb hf
    simp only [hmem, hsub, hid, h1]
    have hnb : uniq nb' = uniq nb := uniq_ext _ _ (fun x => hf.mem_iff)
    simp only [List.map_append, h2, List.map_cons, List.map_nil, shellKey, hnb, true_and]

/-- in particular the identifiers produced at a level do not depend on that enumeration order -/
theorem genLevelP_idents (o : Opts) (m : MolG) (g : Geo) (atoms atoms' : List Nat) (hp : atoms.Perm atoms')
    (prev : List GShell) (k : Nat) (t : Intern) :
    (genLevelP o m g atoms atoms' prev k t).2.map (·.ident) = (genLevel o m g atoms prev k t).2.map (·.ident) := by
  have h := congrArg (List.map (·.2.2.2.2)) (genLevelP_perm o m g atoms atoms' hp prev k t).2
  simpa [List.map_map, Function.comp_def, shellKey] using h

/-- the shells of a level are one per atom, in the order of `atoms` -/
theorem genLevel_atoms (o : Opts) (m : MolG) (g : Geo) (atoms : List Nat) (prev : List GShell) (k : Nat) (t : Intern) :
    (genLevel o m g atoms prev k t).2.map (·.atom) = atoms := by
  unfold genLevel
  suffices h : ∀ (l : List Nat) (acc : Intern × List GShell),
      (l.foldl (fun (acc : Intern × List GShell) a =>
        let nb := atoms.filter (fun b => b != a && g.within k a b && (o.includeDisconnected || bonded m a b))
        let members := uniq (nb.map (fun b => (shellOf prev b).sid))
        let (t', i) := intern acc.1 (a, members)
        let sub := uniq (a :: nb.flatMap (fun b => (shellOf prev b).sub))
        (t', acc.2 ++ [{ atom := a, sid := i, sub := sub, nbrs := nb, ident := shellIdent o m g prev k a nb }])) acc).2.map
          (·.atom) = acc.2.map (·.atom) ++ l by
    simpa using h atoms (t, [])
  intro l
  induction l with
  | nil => intro acc; simp
  | cons a as ih =>
    intro acc
    simp only [List.foldl_cons]
    rw [ih]
    simp

/-- so, for distinct atoms, the `(identifier, atom)` sort `Fingerprinter.__next__` applies to the new
shells of a level is canonical: any reordering of those shells sorts to the same list -/
theorem level_sort_canonical (o : Opts) (m : MolG) (g : Geo) (atoms : List Nat) (hn : atoms.Nodup)
    (prev : List GShell) (k : Nat) (t : Intern) (l' : List GShell) (hp : (genLevel o m g atoms prev k t).2.Perm l') :
    sortByLt ltShell (genLevel o m g atoms prev k t).2 = sortByLt ltShell l' :=
  sortByLt_ltShell_perm_of_nodup _ _ (by rw [genLevel_atoms]; exact hn) hp

/-! ### non-vacuity -/

example : ([⟨0, 0, [], [], 5⟩, ⟨1, 1, [], [], 5⟩] : List GShell).map (·.atom) |>.Nodup := by decide

example (o : Opts) (m : MolG) (g : Geo) (prev : List GShell) :
    atomTuples o m g prev 1 [0, 2, 3] = atomTuples o m g prev 1 [3, 0, 2] :=
  atomTuples_perm o m g prev 1 _ _ (by decide)

example (o : Opts) (m : MolG) (g : Geo) (prev : List GShell) (t : Intern) :
    (genLevelP o m g [0, 1, 2] [2, 0, 1] prev 1 t).2.map (·.ident) = (genLevel o m g [0, 1, 2] prev 1 t).2.map (·.ident) :=
  genLevelP_idents o m g _ _ (by decide) prev 1 t

example : (sortByLt lt3 [(2, 5, 0), (1, -3, 4), (1, -3, 2)]).Pairwise (fun a b => lt3 a b = true ∨ a = b) :=
  (sortByLt_sorted lt3 lt3_irrefl lt3_trans _).2 (fun a _ b _ => lt3_trich a b)

/-! ## the whole run: set iteration order never reaches the fingerprint

`enum k a l` is an arbitrary reordering of the neighbour list of centre `a` at level `k` (Python's
set iteration order may differ from set to set).  The run that enumerates neighbours through `enum`
ends in the same state as the model's run up to the stored lists `GShell.nbrs`, and yields the same
fingerprint at every level, folding and mask. -/

/-- `genLevel` with every neighbour list reordered by `enum` -/
def genLevelE (enum : Nat → Nat → List Nat → List Nat) (o : Opts) (m : MolG) (g : Geo) (atoms : List Nat)
    (prev : List GShell) (k : Nat) (t : Intern) : Intern × List GShell :=
  atoms.foldl (fun (acc : Intern × List GShell) a =>
    let nb := enum k a (atoms.filter (fun b => b != a && g.within k a b && (o.includeDisconnected || bonded m a b)))
    let members := uniq (nb.map (fun b => (shellOf prev b).sid))
    let (t', i) := intern acc.1 (a, members)
    let sub := uniq (a :: nb.flatMap (fun b => (shellOf prev b).sub))
    (t', acc.2 ++ [{ atom := a, sid := i, sub := sub, nbrs := nb, ident := shellIdent o m g prev k a nb }])) (t, [])

theorem genLevelE_id (o : Opts) (m : MolG) (g : Geo) (atoms : List Nat) (prev : List GShell) (k : Nat) (t : Intern) :
    genLevelE (fun _ _ l => l) o m g atoms prev k t = genLevel o m g atoms prev k t := rfl

/-- the run with reordered neighbour enumeration -/
def runFpE (enum : Nat → Nat → List Nat → List Nat) (o : Opts) (m : MolG) (g : Geo) : Except Err FState :=
  runFpG (fun atoms => genLevelE enum o m g atoms) o m

theorem runFpE_id (o : Opts) (m : MolG) (g : Geo) : runFpE (fun _ _ l => l) o m g = runFp o m g := by
  rw [runFp_eq_G]; rfl

theorem genLevelE_stripEq (enum : Nat → Nat → List Nat → List Nat) (henum : ∀ k a l, (enum k a l).Perm l)
    (o : Opts) (m : MolG) (g : Geo) (atoms : List Nat) :
    GenStripEq (genLevelE enum o m g atoms) (genLevel o m g atoms) := by
  intro prev prev' k t hprev
  have hid : ∀ b, (shellOf prev b).ident = (shellOf prev' b).ident := fun b => (shellOf_strip_congr hprev b).1
  have hsid : (fun b => (shellOf prev b).sid) = (fun b => (shellOf prev' b).sid) :=
    funext (fun b => (shellOf_strip_congr hprev b).2.1)
  have hsub : (fun b => (shellOf prev b).sub) = (fun b => (shellOf prev' b).sub) :=
    funext (fun b => (shellOf_strip_congr hprev b).2.2)
  unfold genLevelE genLevel
  apply foldl_rel (fun (x y : Intern × List GShell) => x.1 = y.1 ∧ x.2.map GShell.strip = y.2.map GShell.strip)
  · exact ⟨rfl, rfl⟩
  · intro acc acc' a _ ⟨h1, h2⟩
    have hf := henum k a (atoms.filter (fun b => b != a && g.within k a b && (o.includeDisconnected || bonded m a b)))
    generalize enum k a (atoms.filter (fun b => b != a && g.within k a b && (o.includeDisconnected || bonded m a b))) = nb' at hf
    generalize atoms.filter (fun b => b != a && g.within k a b && (o.includeDisconnected || bonded m a b)) = nb at hf
    have hmem : uniq (nb'.map (fun b => (shellOf prev' b).sid)) = uniq (nb.map (fun b => (shellOf prev' b).sid)) :=
      uniq_ext _ _ (fun x => (hf.map _).mem_iff)
    have hsb : uniq (a :: nb'.flatMap (fun b => (shellOf prev' b).sub)) = uniq (a :: nb.flatMap (fun b => (shellOf prev' b).sub)) := by
      apply uniq_ext
      intro x
      simp only [List.mem_cons, List.mem_flatMap]
      constructor
      · rintro (h | ⟨b, hb, hx⟩)
        · exact Or.inl h
        · exact Or.inr ⟨b, hf.mem_iff.1 hb, hx⟩
      · rintro (h | ⟨b, hb, hx⟩)
        · exact Or.inl h
        · exact Or.inr ⟨b, hf.mem_iff.2 hb, hx⟩
    have hident : shellIdent o m g prev k a nb' = shellIdent o m g prev' k a nb :=
      (shellIdent_prev_congr o m g prev prev' k a nb' hid).trans (shellIdent_perm o m g prev' k a nb' nb hf)
    simp only [hsid, hsub, hmem, hsb, hident, h1, List.map_append, h2, List.map_cons, List.map_nil, GShell.strip,
      true_and]

/-- **set iteration order is irrelevant**: whatever order the neighbours of each atom are enumerated
in at each level, the run ends in the same state up to the (never read) stored neighbour lists -/
theorem runFpE_strip (enum : Nat → Nat → List Nat → List Nat) (henum : ∀ k a l, (enum k a l).Perm l)
    (o : Opts) (m : MolG) (g : Geo) :
    (runFpE enum o m g).map FState.strip = (runFp o m g).map FState.strip := by
  rw [runFp_eq_G]
  exact runFpG_strip _ _ (fun atoms => genLevelE_stripEq enum henum o m g atoms) o m

/-- ... and the fingerprint read off it, at any level, folding and mask, is the same -/
theorem runFpE_fingerprint (enum : Nat → Nat → List Nat → List Nat) (henum : ∀ k a l, (enum k a l).Perm l)
    (o : Opts) (m : MolG) (g : Geo) (req : Option Int) (bits : Option Nat) (mask : List Nat) :
    (runFpE enum o m g >>= fun s => fingerprintAt o s req bits mask)
      = (runFp o m g >>= fun s => fingerprintAt o s req bits mask) := by
  have h := runFpE_strip enum henum o m g
  cases h1 : runFpE enum o m g with
  | error e =>
    cases h2 : runFp o m g with
    | error e' => rw [h1, h2] at h; simp only [Except.map] at h; injection h with h; subst h; rfl
    | ok s' => rw [h1, h2] at h; simp only [Except.map] at h; cases h
  | ok s =>
    cases h2 : runFp o m g with
    | error e' => rw [h1, h2] at h; simp only [Except.map] at h; cases h
    | ok s' =>
      rw [h1, h2] at h
      simp only [Except.map] at h
      injection h with h
      show fingerprintAt o s req bits mask = fingerprintAt o s' req bits mask
      rw [← fingerprintAt_strip o s, ← fingerprintAt_strip o s', h]

/-- non-vacuity: reversing every neighbour list is such an enumeration, and it is not the identity -/
example : (∀ k a l, ((fun (_ _ : Nat) (l : List Nat) => l.reverse) k a l).Perm l)
    ∧ (fun (_ _ : Nat) (l : List Nat) => l.reverse) 1 0 [1, 2] ≠ [1, 2] :=
  ⟨fun _ _ l => List.reverse_perm l, by decide⟩

end E3fpVerif.Props.C03
