import E3fpVerif.Model.Fprinter
import E3fpVerif.Lemmas.SortBy
import E3fpVerif.Lemmas.Uniq
import E3fpVerif.Lemmas.EnumOrder
import E3fpVerif.Lemmas.Relabel
import E3fpVerif.Lemmas.StereoSym
namespace E3fpVerif.Props.C03
open E3fpVerif

/-- the first-unique selection only depends on the keys -/
theorem firstUnique_some_count {κ : Type} [DecidableEq κ] (keys : List κ) (i : Nat) (h : firstUnique keys = some i) :
    ∃ k, keys[i]? = some k ∧ keys.count k = 1 := by
  unfold firstUnique at h
  simp only [Option.map_eq_some_iff] at h
  obtain ⟨p, hp, rfl⟩ := h
  have hm := List.find?_some hp
  have hmem := List.mem_of_find?_eq_some hp
  refine ⟨p.1, ?_, by simpa using hm⟩
  have := List.mem_zipIdx hmem
  simp at this
  obtain ⟨h1, h2⟩ := this
  simp [h2]

/-- no element is selected exactly when no key occurs exactly once -/
theorem firstUnique_none_iff {κ : Type} [DecidableEq κ] (keys : List κ) :
    firstUnique keys = none ↔ ∀ k ∈ keys, keys.count k ≠ 1 := by
  unfold firstUnique
  simp only [Option.map_eq_none_iff, List.find?_eq_none, beq_iff_eq]
  constructor
  · intro h k hk
    obtain ⟨i, hi, rfl⟩ := List.getElem_of_mem hk
    exact h (keys[i], i) (List.mem_zipIdx_iff_getElem?.2 (by simp [hi]))
  · intro h p hp
    have := List.mem_zipIdx_iff_getElem?.1 hp
    exact h p.1 (List.mem_of_getElem? this)

example : firstUnique [1, 1, 2, 2] = none ∧ firstUnique [1, 1, 2, 3] = some 2 := by decide

/-! ## the sort the fingerprinter applies before every order-sensitive step -/

/-- sorting preserves membership -/
theorem mem_sortByLt {β : Type} (lt : β → β → Bool) (x : β) (l : List β) : x ∈ sortByLt lt l ↔ x ∈ l :=
  E3fpVerif.mem_sortByLt lt x l

/-- sorting permutes -/
theorem sortByLt_perm {β : Type} (lt : β → β → Bool) (l : List β) : (sortByLt lt l).Perm l :=
  E3fpVerif.sortByLt_perm lt l

/-- for an irreflexive transitive `lt`, no later element of the result is below an earlier one; and
if `lt` is trichotomous on the elements, every earlier element is below or equal to every later one -/
theorem sortByLt_sorted {β : Type} (lt : β → β → Bool)
    (irrefl : ∀ a, lt a a = false) (trans : ∀ a b c, lt a b = true → lt b c = true → lt a c = true)
    (l : List β) :
    (sortByLt lt l).Pairwise (fun a b => lt b a = false) ∧
    ((∀ a ∈ l, ∀ b ∈ l, lt a b = true ∨ a = b ∨ lt b a = true) →
      (sortByLt lt l).Pairwise (fun a b => lt a b = true ∨ a = b)) :=
  ⟨E3fpVerif.sortByLt_sorted lt irrefl trans l, E3fpVerif.sortByLt_sorted_le lt irrefl trans l⟩

/-- for a strict total order on the elements, the sorted list does not depend on the input order -/
theorem sortByLt_eq_of_perm {β : Type} (lt : β → β → Bool)
    (irrefl : ∀ a, lt a a = false) (trans : ∀ a b c, lt a b = true → lt b c = true → lt a c = true)
    (l₁ l₂ : List β) (tri : ∀ a ∈ l₁, ∀ b ∈ l₁, lt a b = true ∨ a = b ∨ lt b a = true) (hp : l₁.Perm l₂) :
    sortByLt lt l₁ = sortByLt lt l₂ :=
  E3fpVerif.sortByLt_eq_of_perm lt irrefl trans l₁ l₂ tri hp

/-- neighbour tuples `(bond code, identifier, atom)` -/
theorem sortByLt_lt3_perm (l₁ l₂ : List (Nat × Int × Nat)) (hp : l₁.Perm l₂) :
    sortByLt lt3 l₁ = sortByLt lt3 l₂ :=
  E3fpVerif.sortByLt_eq_of_perm lt3 lt3_irrefl lt3_trans l₁ l₂ (fun a _ b _ => lt3_trich a b) hp

/-- the per-neighbour integer tuples that are hashed -/
theorem sortByLt_ltIntList_perm (l₁ l₂ : List (List Int)) (hp : l₁.Perm l₂) :
    sortByLt ltIntList l₁ = sortByLt ltIntList l₂ :=
  E3fpVerif.sortByLt_eq_of_perm ltIntList ltIntList_irrefl ltIntList_trans l₁ l₂
    (fun a _ b _ => ltIntList_trich a b) hp

/-- the shells of one level, sorted by `(identifier, atom)`: the order is canonical as soon as that
key determines the shell among the shells sorted (one shell per centre atom) -/
theorem sortByLt_ltShell_perm (l₁ l₂ : List GShell)
    (hk : ∀ a ∈ l₁, ∀ b ∈ l₁, a.ident = b.ident → a.atom = b.atom → a = b) (hp : l₁.Perm l₂) :
    sortByLt ltShell l₁ = sortByLt ltShell l₂ := by
  refine E3fpVerif.sortByLt_eq_of_perm ltShell ltShell_irrefl ltShell_trans l₁ l₂ ?_ hp
  intro a ha b hb
  rcases ltShell_trich_key a b with h | h | h
  · exact Or.inl h
  · exact Or.inr (Or.inl (hk a ha b hb h.1 h.2))
  · exact Or.inr (Or.inr h)

theorem eq_of_nodup_map {β γ : Type} (f : β → γ) : ∀ (l : List β), (l.map f).Nodup →
    ∀ a ∈ l, ∀ b ∈ l, f a = f b → a = b
  | [], _, a, ha, _, _, _ => by simp at ha
  | x :: xs, hn, a, ha, b, hb, hab => by
    simp only [List.map_cons, List.nodup_cons, List.mem_map, not_exists, not_and] at hn
    rcases List.mem_cons.1 ha with rfl | ha' <;> rcases List.mem_cons.1 hb with rfl | hb'
    · rfl
    · exact absurd hab.symm (hn.1 b hb')
    · exact absurd hab (hn.1 a ha')
    · exact eq_of_nodup_map f xs hn.2 a ha' b hb' hab

/-- one shell per centre atom is enough -/
theorem sortByLt_ltShell_perm_of_nodup (l₁ l₂ : List GShell) (hn : (l₁.map (·.atom)).Nodup) (hp : l₁.Perm l₂) :
    sortByLt ltShell l₁ = sortByLt ltShell l₂ := by
  apply sortByLt_ltShell_perm l₁ l₂ _ hp
  intro a ha b hb _ hat
  exact eq_of_nodup_map (·.atom) l₁ hn a ha b hb hat

example : sortByLt lt3 [(2, 5, 0), (1, -3, 4), (1, -3, 2)] = sortByLt lt3 [(1, -3, 2), (2, 5, 0), (1, -3, 4)]
    ∧ sortByLt lt3 [(2, 5, 0), (1, -3, 4), (1, -3, 2)] = [(1, -3, 2), (1, -3, 4), (2, 5, 0)] := by decide

/-- the hypothesis on `ltShell` cannot be dropped: two different shells with the same `(ident, atom)`
keep their input order -/
example : ∃ a b : GShell, sortByLt ltShell [a, b] ≠ sortByLt ltShell [b, a] :=
  ⟨⟨0, 0, [], [], 0⟩, ⟨0, 1, [], [], 0⟩, by decide⟩

/-! ## the neighbour enumeration order does not matter -/

/-- `atom_tuples_from_shell` does not depend on the order in which the neighbours are enumerated
(Python's set iteration order): the tuples are sorted by the total order `lt3` before the stereo
step sees them -/
theorem atomTuples_perm (o : Opts) (m : MolG) (g : Geo) (prev : List GShell) (a : Nat) (nb nb' : List Nat)
    (hp : nb.Perm nb') : atomTuples o m g prev a nb = atomTuples o m g prev a nb' := by
  unfold atomTuples
  have hnil : (nb = []) ↔ (nb' = []) := by
    constructor
    · intro h; subst h; exact hp.nil_eq.symm
    · intro h; subst h; exact hp.eq_nil
  have hb : sortByLt lt3 (nb.map (fun b => (conn m a b, (shellOf prev b).ident, b)))
      = sortByLt lt3 (nb'.map (fun b => (conn m a b, (shellOf prev b).ident, b))) :=
    sortByLt_lt3_perm _ _ (hp.map _)
  simp only [hnil, hb]

/-- hence the shell identifier does not depend on it either -/
theorem shellIdent_perm (o : Opts) (m : MolG) (g : Geo) (prev : List GShell) (k a : Nat) (nb nb' : List Nat)
    (hp : nb.Perm nb') : shellIdent o m g prev k a nb = shellIdent o m g prev k a nb' := by
  unfold shellIdent
  rw [atomTuples_perm o m g prev a nb nb' hp]

example : [3, 1, 2].Perm [1, 2, 3] := by decide

/-! ## the atom enumeration order of the neighbour filter does not matter -/

/-- `genLevel` with the neighbour filter taken over another enumeration `atoms'` of the atoms -/
def genLevelP (o : Opts) (m : MolG) (g : Geo) (atoms atoms' : List Nat) (prev : List GShell) (k : Nat) (t : Intern) :
    Intern × List GShell :=
  atoms.foldl (fun (acc : Intern × List GShell) a =>
    let nb := atoms'.filter (fun b => b != a && g.within k a b && (o.includeDisconnected || bonded m a b))
    let members := uniq (nb.map (fun b => (shellOf prev b).sid))
    let (t', i) := intern acc.1 (a, members)
    let sub := uniq (a :: nb.flatMap (fun b => (shellOf prev b).sub))
    (t', acc.2 ++ [{ atom := a, sid := i, sub := sub, nbrs := nb, ident := shellIdent o m g prev k a nb }])) (t, [])

theorem genLevelP_self (o : Opts) (m : MolG) (g : Geo) (atoms : List Nat) (prev : List GShell) (k : Nat) (t : Intern) :
    genLevelP o m g atoms atoms prev k t = genLevel o m g atoms prev k t := rfl

/-- a shell with its neighbour list read as a set (ascending, duplicate free) -/
def shellKey (s : GShell) : Nat × Nat × List Nat × List Nat × Int := (s.atom, s.sid, s.sub, uniq s.nbrs, s.ident)

/-- enumerating the atoms in another order for the neighbour filter gives the same intern table and
shells with the same centre, structural id, substructure, neighbour set and identifier (only the
order of the stored neighbour list `nbrs` changes) -/
theorem genLevelP_perm (o : Opts) (m : MolG) (g : Geo) (atoms atoms' : List Nat) (hp : atoms.Perm atoms')
    (prev : List GShell) (k : Nat) (t : Intern) :
    (genLevelP o m g atoms atoms' prev k t).1 = (genLevel o m g atoms prev k t).1 ∧
    (genLevelP o m g atoms atoms' prev k t).2.map shellKey = (genLevel o m g atoms prev k t).2.map shellKey := by
  unfold genLevelP genLevel
  apply foldl_rel (fun (x y : Intern × List GShell) =>
    x.1 = y.1 ∧ x.2.map shellKey = y.2.map shellKey)
  · exact ⟨rfl, rfl⟩
  · intro acc acc' a _ ⟨h1, h2⟩
    have hf : (atoms'.filter (fun b => b != a && g.within k a b && (o.includeDisconnected || bonded m a b))).Perm
        (atoms.filter (fun b => b != a && g.within k a b && (o.includeDisconnected || bonded m a b))) :=
      hp.symm.filter _
    generalize atoms'.filter (fun b => b != a && g.within k a b && (o.includeDisconnected || bonded m a b)) = nb' at hf
    generalize atoms.filter (fun b => b != a && g.within k a b && (o.includeDisconnected || bonded m a b)) = nb at hf
    have hmem : uniq (nb'.map (fun b => (shellOf prev b).sid)) = uniq (nb.map (fun b => (shellOf prev b).sid)) :=
      uniq_ext _ _ (fun x => (hf.map _).mem_iff)
    have hsub : uniq (a :: nb'.flatMap (fun b => (shellOf prev b).sub)) = uniq (a :: nb.flatMap (fun b => (shellOf prev b).sub)) := by
      apply uniq_ext
      intro x
      simp only [List.mem_cons, List.mem_flatMap]
      constructor
      · rintro (h | ⟨b, hb, hx⟩)
        · exact Or.inl h
        · exact Or.inr ⟨b, hf.mem_iff.1 hb, hx⟩
      · rintro (h | ⟨b, hb, hx⟩)
        · exact Or.inl h
        · exact Or.inr ⟨b, hf.mem_iff.2 hb, hx⟩
    have hid := shellIdent_perm o m g prev k a nb' nb hf
    simp only [hmem, hsub, hid, h1]
    have hnb : uniq nb' = uniq nb := uniq_ext _ _ (fun x => hf.mem_iff)
    simp only [List.map_append, h2, List.map_cons, List.map_nil, shellKey, hnb, true_and]

/-- in particular the identifiers produced at a level do not depend on that enumeration order -/
theorem genLevelP_idents (o : Opts) (m : MolG) (g : Geo) (atoms atoms' : List Nat) (hp : atoms.Perm atoms')
    (prev : List GShell) (k : Nat) (t : Intern) :
    (genLevelP o m g atoms atoms' prev k t).2.map (·.ident) = (genLevel o m g atoms prev k t).2.map (·.ident) := by
  have h := congrArg (List.map (·.2.2.2.2)) (genLevelP_perm o m g atoms atoms' hp prev k t).2
  simpa [List.map_map, Function.comp_def, shellKey] using h

/-- the shells of a level are one per atom, in the order of `atoms` -/
theorem genLevel_atoms (o : Opts) (m : MolG) (g : Geo) (atoms : List Nat) (prev : List GShell) (k : Nat) (t : Intern) :
    (genLevel o m g atoms prev k t).2.map (·.atom) = atoms := by
  unfold genLevel
  suffices h : ∀ (l : List Nat) (acc : Intern × List GShell),
      (l.foldl (fun (acc : Intern × List GShell) a =>
        let nb := atoms.filter (fun b => b != a && g.within k a b && (o.includeDisconnected || bonded m a b))
        let members := uniq (nb.map (fun b => (shellOf prev b).sid))
        let (t', i) := intern acc.1 (a, members)
        let sub := uniq (a :: nb.flatMap (fun b => (shellOf prev b).sub))
        (t', acc.2 ++ [{ atom := a, sid := i, sub := sub, nbrs := nb, ident := shellIdent o m g prev k a nb }])) acc).2.map
          (·.atom) = acc.2.map (·.atom) ++ l by
    simpa using h atoms (t, [])
  intro l
  induction l with
  | nil => intro acc; simp
  | cons a as ih =>
    intro acc
    simp only [List.foldl_cons]
    rw [ih]
    simp

/-- so, for distinct atoms, the `(identifier, atom)` sort `Fingerprinter.__next__` applies to the new
shells of a level is canonical: any reordering of those shells sorts to the same list -/
theorem level_sort_canonical (o : Opts) (m : MolG) (g : Geo) (atoms : List Nat) (hn : atoms.Nodup)
    (prev : List GShell) (k : Nat) (t : Intern) (l' : List GShell) (hp : (genLevel o m g atoms prev k t).2.Perm l') :
    sortByLt ltShell (genLevel o m g atoms prev k t).2 = sortByLt ltShell l' :=
  sortByLt_ltShell_perm_of_nodup _ _ (by rw [genLevel_atoms]; exact hn) hp

/-! ### non-vacuity -/

example : ([⟨0, 0, [], [], 5⟩, ⟨1, 1, [], [], 5⟩] : List GShell).map (·.atom) |>.Nodup := by decide

example (o : Opts) (m : MolG) (g : Geo) (prev : List GShell) :
    atomTuples o m g prev 1 [0, 2, 3] = atomTuples o m g prev 1 [3, 0, 2] :=
  atomTuples_perm o m g prev 1 _ _ (by decide)

example (o : Opts) (m : MolG) (g : Geo) (prev : List GShell) (t : Intern) :
    (genLevelP o m g [0, 1, 2] [2, 0, 1] prev 1 t).2.map (·.ident) = (genLevel o m g [0, 1, 2] prev 1 t).2.map (·.ident) :=
  genLevelP_idents o m g _ _ (by decide) prev 1 t

example : (sortByLt lt3 [(2, 5, 0), (1, -3, 4), (1, -3, 2)]).Pairwise (fun a b => lt3 a b = true ∨ a = b) :=
  (sortByLt_sorted lt3 lt3_irrefl lt3_trans _).2 (fun a _ b _ => lt3_trich a b)

/-! ## the whole run: set iteration order never reaches the fingerprint

`enum k a l` is an arbitrary reordering of the neighbour list of centre `a` at level `k` (Python's
set iteration order may differ from set to set).  The run that enumerates neighbours through `enum`
ends in the same state as the model's run up to the stored lists `GShell.nbrs`, and yields the same
fingerprint at every level, folding and mask. -/

/-- `genLevel` with every neighbour list reordered by `enum` -/
def genLevelE (enum : Nat → Nat → List Nat → List Nat) (o : Opts) (m : MolG) (g : Geo) (atoms : List Nat)
    (prev : List GShell) (k : Nat) (t : Intern) : Intern × List GShell :=
  atoms.foldl (fun (acc : Intern × List GShell) a =>
    let nb := enum k a (atoms.filter (fun b => b != a && g.within k a b && (o.includeDisconnected || bonded m a b)))
    let members := uniq (nb.map (fun b => (shellOf prev b).sid))
    let (t', i) := intern acc.1 (a, members)
    let sub := uniq (a :: nb.flatMap (fun b => (shellOf prev b).sub))
    (t', acc.2 ++ [{ atom := a, sid := i, sub := sub, nbrs := nb, ident := shellIdent o m g prev k a nb }])) (t, [])

theorem genLevelE_id (o : Opts) (m : MolG) (g : Geo) (atoms : List Nat) (prev : List GShell) (k : Nat) (t : Intern) :
    genLevelE (fun _ _ l => l) o m g atoms prev k t = genLevel o m g atoms prev k t := rfl

/-- the run with reordered neighbour enumeration -/
def runFpE (enum : Nat → Nat → List Nat → List Nat) (o : Opts) (m : MolG) (g : Geo) : Except Err FState :=
  runFpG (fun atoms => genLevelE enum o m g atoms) o m

theorem runFpE_id (o : Opts) (m : MolG) (g : Geo) : runFpE (fun _ _ l => l) o m g = runFp o m g := by
  rw [runFp_eq_G]; rfl

theorem genLevelE_stripEq (enum : Nat → Nat → List Nat → List Nat) (henum : ∀ k a l, (enum k a l).Perm l)
    (o : Opts) (m : MolG) (g : Geo) (atoms : List Nat) :
    GenStripEq (genLevelE enum o m g atoms) (genLevel o m g atoms) := by
  intro prev prev' k t hprev
  have hid : ∀ b, (shellOf prev b).ident = (shellOf prev' b).ident := fun b => (shellOf_strip_congr hprev b).1
  have hsid : (fun b => (shellOf prev b).sid) = (fun b => (shellOf prev' b).sid) :=
    funext (fun b => (shellOf_strip_congr hprev b).2.1)
  have hsub : (fun b => (shellOf prev b).sub) = (fun b => (shellOf prev' b).sub) :=
    funext (fun b => (shellOf_strip_congr hprev b).2.2)
  unfold genLevelE genLevel
  apply foldl_rel (fun (x y : Intern × List GShell) => x.1 = y.1 ∧ x.2.map GShell.strip = y.2.map GShell.strip)
  · exact ⟨rfl, rfl⟩
  · intro acc acc' a _ ⟨h1, h2⟩
    have hf := henum k a (atoms.filter (fun b => b != a && g.within k a b && (o.includeDisconnected || bonded m a b)))
    generalize enum k a (atoms.filter (fun b => b != a && g.within k a b && (o.includeDisconnected || bonded m a b))) = nb' at hf
    generalize atoms.filter (fun b => b != a && g.within k a b && (o.includeDisconnected || bonded m a b)) = nb at hf
    have hmem : uniq (nb'.map (fun b => (shellOf prev' b).sid)) = uniq (nb.map (fun b => (shellOf prev' b).sid)) :=
      uniq_ext _ _ (fun x => (hf.map _).mem_iff)
    have hsb : uniq (a :: nb'.flatMap (fun b => (shellOf prev' b).sub)) = uniq (a :: nb.flatMap (fun b => (shellOf prev' b).sub)) := by
      apply uniq_ext
      intro x
      simp only [List.mem_cons, List.mem_flatMap]
      constructor
      · rintro (h | ⟨b, hb, hx⟩)
        · exact Or.inl h
        · exact Or.inr ⟨b, hf.mem_iff.1 hb, hx⟩
      · rintro (h | ⟨b, hb, hx⟩)
        · exact Or.inl h
        · exact Or.inr ⟨b, hf.mem_iff.2 hb, hx⟩
    have hident : shellIdent o m g prev k a nb' = shellIdent o m g prev' k a nb :=
      (shellIdent_prev_congr o m g prev prev' k a nb' hid).trans (shellIdent_perm o m g prev' k a nb' nb hf)
    simp only [hsid, hsub, hmem, hsb, hident, h1, List.map_append, h2, List.map_cons, List.map_nil, GShell.strip,
      true_and]

/-- **set iteration order is irrelevant**: whatever order the neighbours of each atom are enumerated
in at each level, the run ends in the same state up to the (never read) stored neighbour lists -/
theorem runFpE_strip (enum : Nat → Nat → List Nat → List Nat) (henum : ∀ k a l, (enum k a l).Perm l)
    (o : Opts) (m : MolG) (g : Geo) :
    (runFpE enum o m g).map FState.strip = (runFp o m g).map FState.strip := by
  rw [runFp_eq_G]
  exact runFpG_strip _ _ (fun atoms => genLevelE_stripEq enum henum o m g atoms) o m

/-- ... and the fingerprint read off it, at any level, folding and mask, is the same -/
theorem runFpE_fingerprint (enum : Nat → Nat → List Nat → List Nat) (henum : ∀ k a l, (enum k a l).Perm l)
    (o : Opts) (m : MolG) (g : Geo) (req : Option Int) (bits : Option Nat) (mask : List Nat) :
    (runFpE enum o m g >>= fun s => fingerprintAt o s req bits mask)
      = (runFp o m g >>= fun s => fingerprintAt o s req bits mask) := by
  have h := runFpE_strip enum henum o m g
  cases h1 : runFpE enum o m g with
  | error e =>
    cases h2 : runFp o m g with
    | error e' => rw [h1, h2] at h; simp only [Except.map] at h; injection h with h; subst h; rfl
    | ok s' => rw [h1, h2] at h; simp only [Except.map] at h; cases h
  | ok s =>
    cases h2 : runFp o m g with
    | error e' => rw [h1, h2] at h; simp only [Except.map] at h; cases h
    | ok s' =>
      rw [h1, h2] at h
      simp only [Except.map] at h
      injection h with h
      show fingerprintAt o s req bits mask = fingerprintAt o s' req bits mask
      rw [← fingerprintAt_strip o s, ← fingerprintAt_strip o s', h]

/-- non-vacuity: reversing every neighbour list is such an enumeration, and it is not the identity -/
example : (∀ k a l, ((fun (_ _ : Nat) (l : List Nat) => l.reverse) k a l).Perm l)
    ∧ (fun (_ _ : Nat) (l : List Nat) => l.reverse) 1 0 [1, 2] ≠ [1, 2] :=
  ⟨fun _ _ l => List.reverse_perm l, by decide⟩

/-! ## renumbering the atoms never reaches the fingerprint

`π` is a bijection of atom indices (inverse `πi`), `m.relabel π` is RDKit's `RenumberAtoms` (atoms
listed in ascending order of the new index, bond end points mapped), `g'` is the geometry carried
along (`Geo.Relabels π g g'`: the shell-membership decisions agree, and hypothesis (S) `StereoSym` on
the stereo codes; (S) is not needed when `o.stereo = false`).  The molecule is assumed to have
pairwise distinct atom indices.  The proof is a simulation of the two runs
(`Lemmas/Relabel.lean`: `genLevel0_relabel`, `genLevel_relabel`, `accept_relabel`, `step_relabel`,
`iterate_relabel`); the two index tie-breaks of the model are covered by (S) for `lt3` and by fact
(D) (`Rl.dedupSpec_permRel`) for `ltShell`. -/

/-- the retained atoms of the renumbered molecule -/
theorem retained_relabel (o : Opts) (m : MolG) (π : Nat → Nat) :
    (retained o (m.relabel π)).Perm ((retained o m).map π) :=
  E3fpVerif.retained_relabel o m π

/-- the general statement, with hypothesis (S) required only when stereo is on: both runs fail with
the same error, or both succeed, with the same number of levels, and at every level the same multiset
of `(identifier, substructure mapped back through πi)` -/
theorem runFp_relabel_gen (π πi : Nat → Nat) (hl : ∀ a, πi (π a) = a) (hr : ∀ a, π (πi a) = a) (o : Opts) (m : MolG)
    (hm : (m.atoms.map (·.idx)).Nodup) (g g' : Geo)
    (hw : ∀ k a b, g'.within k (π a) (π b) = g.within k a b) (hs : o.stereo = true → StereoSym π g g') :
    (∀ e, runFp o m g = .error e → runFp o (m.relabel π) g' = .error e) ∧
    (∀ s, runFp o m g = .ok s → ∃ s', runFp o (m.relabel π) g' = .ok s' ∧
      s'.levelShells.length = s.levelShells.length ∧ s'.currentLevel = s.currentLevel ∧
      ∀ k, ((s'.levelShells.getD k []).map (fun x => (x.ident, uniq (x.sub.map πi)))).Perm
        ((s.levelShells.getD k []).map (fun x => (x.ident, x.sub)))) := by
  obtain ⟨h1, h2⟩ := runFp_relabel_core π πi hl hr o m hm g g' hw hs
  refine ⟨h1, ?_⟩
  intro s hs'
  obtain ⟨s', S, hrun, hrel⟩ := h2 s hs'
  refine ⟨s', hrun, hrel.lsLen, ?_, fun k => levelShells_relabel hrel k⟩
  unfold FState.currentLevel; rw [hrel.genLen]

/-- the fingerprints, general form -/
theorem fingerprint_relabel_gen (π πi : Nat → Nat) (hl : ∀ a, πi (π a) = a) (hr : ∀ a, π (πi a) = a) (o : Opts)
    (m : MolG) (hm : (m.atoms.map (·.idx)).Nodup) (g g' : Geo)
    (hw : ∀ k a b, g'.within k (π a) (π b) = g.within k a b) (hs : o.stereo = true → StereoSym π g g')
    (req : Option Int) (bits : Option Nat) (mask : List Nat) :
    (runFp o (m.relabel π) g' >>= fun s => fingerprintAt o s req bits (mask.map π))
      = (runFp o m g >>= fun s => fingerprintAt o s req bits mask) := by
  obtain ⟨h1, h2⟩ := runFp_relabel_core π πi hl hr o m hm g g' hw hs
  cases hrun : runFp o m g with
  | error e => rw [h1 e hrun]; rfl
  | ok s =>
    obtain ⟨s', S, hrun', hrel⟩ := h2 s hrun
    rw [hrun']
    exact fingerprintAt_relabel hl hrel req bits mask

/-- **C03, the run**: renumbering the atoms by any permutation (bonds and geometry carried along)
gives a run that stops at the same level and has, at every level, the same multiset of
`(identifier, substructure mapped back through πi)` -/
theorem runFp_relabel (π πi : Nat → Nat) (hl : ∀ a, πi (π a) = a) (hr : ∀ a, π (πi a) = a) (o : Opts) (m : MolG)
    (hm : (m.atoms.map (·.idx)).Nodup) (g g' : Geo) (hg : Geo.Relabels π g g') :
    (∀ e, runFp o m g = .error e → runFp o (m.relabel π) g' = .error e) ∧
    (∀ s, runFp o m g = .ok s → ∃ s', runFp o (m.relabel π) g' = .ok s' ∧
      s'.levelShells.length = s.levelShells.length ∧ s'.currentLevel = s.currentLevel ∧
      ∀ k, ((s'.levelShells.getD k []).map (fun x => (x.ident, uniq (x.sub.map πi)))).Perm
        ((s.levelShells.getD k []).map (fun x => (x.ident, x.sub)))) :=
  runFp_relabel_gen π πi hl hr o m hm g g' hg.within (fun _ => hg.stereo)

/-- **C03, the fingerprint**: … and the fingerprint read off it is the same, for every requested level,
folding and (renumbered) atom mask -/
theorem fingerprint_relabel (π πi : Nat → Nat) (hl : ∀ a, πi (π a) = a) (hr : ∀ a, π (πi a) = a) (o : Opts)
    (m : MolG) (hm : (m.atoms.map (·.idx)).Nodup) (g g' : Geo) (hg : Geo.Relabels π g g')
    (req : Option Int) (bits : Option Nat) (mask : List Nat) :
    (runFp o (m.relabel π) g' >>= fun s => fingerprintAt o s req bits (mask.map π))
      = (runFp o m g >>= fun s => fingerprintAt o s req bits mask) :=
  fingerprint_relabel_gen π πi hl hr o m hm g g' hg.within (fun _ => hg.stereo) req bits mask

/-- state form of the fingerprint statement -/
theorem fingerprint_relabel_states (π πi : Nat → Nat) (hl : ∀ a, πi (π a) = a) (hr : ∀ a, π (πi a) = a) (o : Opts)
    (m : MolG) (hm : (m.atoms.map (·.idx)).Nodup) (g g' : Geo) (hg : Geo.Relabels π g g')
    (s s' : FState) (h : runFp o m g = .ok s) (h' : runFp o (m.relabel π) g' = .ok s')
    (req : Option Int) (bits : Option Nat) (mask : List Nat) :
    fingerprintAt o s' req bits (mask.map π) = fingerprintAt o s req bits mask := by
  have := fingerprint_relabel π πi hl hr o m hm g g' hg req bits mask
  rw [h, h'] at this
  exact this

/-- **stereo off, the run**: no hypothesis on the stereo codes is needed -/
theorem runFp_relabel_stereo_off (π πi : Nat → Nat) (hl : ∀ a, πi (π a) = a) (hr : ∀ a, π (πi a) = a) (o : Opts)
    (hst : o.stereo = false) (m : MolG) (hm : (m.atoms.map (·.idx)).Nodup) (g g' : Geo)
    (hw : ∀ k a b, g'.within k (π a) (π b) = g.within k a b) :
    (∀ e, runFp o m g = .error e → runFp o (m.relabel π) g' = .error e) ∧
    (∀ s, runFp o m g = .ok s → ∃ s', runFp o (m.relabel π) g' = .ok s' ∧
      s'.levelShells.length = s.levelShells.length ∧ s'.currentLevel = s.currentLevel ∧
      ∀ k, ((s'.levelShells.getD k []).map (fun x => (x.ident, uniq (x.sub.map πi)))).Perm
        ((s.levelShells.getD k []).map (fun x => (x.ident, x.sub)))) :=
  runFp_relabel_gen π πi hl hr o m hm g g' hw (fun h => by rw [hst] at h; cases h)

/-- **stereo off, the fingerprint** -/
theorem fingerprint_relabel_stereo_off (π πi : Nat → Nat) (hl : ∀ a, πi (π a) = a) (hr : ∀ a, π (πi a) = a)
    (o : Opts) (hst : o.stereo = false) (m : MolG) (hm : (m.atoms.map (·.idx)).Nodup) (g g' : Geo)
    (hw : ∀ k a b, g'.within k (π a) (π b) = g.within k a b)
    (req : Option Int) (bits : Option Nat) (mask : List Nat) :
    (runFp o (m.relabel π) g' >>= fun s => fingerprintAt o s req bits (mask.map π))
      = (runFp o m g >>= fun s => fingerprintAt o s req bits mask) :=
  fingerprint_relabel_gen π πi hl hr o m hm g g' hw (fun h => by rw [hst] at h; cases h) req bits mask

/-! ### non-vacuity: a 3-atom molecule, the transposition of atoms 0 and 2 -/

/-- the transposition (0 2); it is its own inverse -/
def swap02 (a : Nat) : Nat := if a = 0 then 2 else if a = 2 then 0 else a

theorem swap02_invol (a : Nat) : swap02 (swap02 a) = a := by
  unfold swap02; split <;> split <;> (try split) <;> omega

/-- C–C–O, atoms 0 1 2, bonds 0–1 and 1–2 -/
def mol3 : MolG :=
  { atoms := [⟨0, 6, 1, [1, 6], [6, 1]⟩, ⟨1, 6, 2, [2, 6], [6, 2]⟩, ⟨2, 8, 1, [1, 8], [8, 1]⟩],
    bonds := [(0, 1, 1), (1, 2, 1)] }

/-- a geometry: atoms on a line one unit apart, shell radius `k`; stereo codes depending on the bond
code and identifier only -/
def geo3 : Geo :=
  { within := fun k a b => decide (a ≤ b + k ∧ b ≤ a + k),
    stereo := fun _ l => l.map (fun t => (t.1 : Int) + t.2.1) }

/-- the same geometry seen through the renumbering -/
def geo3' : Geo :=
  { within := fun k a b => geo3.within k (swap02 a) (swap02 b),
    stereo := fun _ l => l.map (fun t => (t.1 : Int) + t.2.1) }

theorem stereoTriples_geo3 (st : Nat → List (Nat × Int × Nat) → List Int) (hst : ∀ c l, st c l = l.map (fun t => (t.1 : Int) + t.2.1))
    (w : Nat → Nat → Nat → Bool) (c : Nat) (l : List (Nat × Int × Nat)) :
    stereoTriples ⟨w, st⟩ c l = l.map (fun t => (t.1, t.2.1, (t.1 : Int) + t.2.1)) := by
  unfold stereoTriples
  simp only [hst]
  induction l with
  | nil => rfl
  | cons t l ih => simp only [List.map_cons, List.zip_cons_cons, ih]

theorem geo3_relabels : Geo.Relabels swap02 geo3 geo3' := by
  refine ⟨?_, ?_⟩
  · intro k a b
    show geo3.within k (swap02 (swap02 a)) (swap02 (swap02 b)) = geo3.within k a b
    rw [swap02_invol, swap02_invol]
  · intro c l l' hp _ _
    unfold geo3 geo3'
    rw [stereoTriples_geo3 _ (fun _ _ => rfl), stereoTriples_geo3 _ (fun _ _ => rfl)]
    refine (hp.map _).trans ?_
    rw [List.map_map]
    exact List.Perm.of_eq rfl

/-- the renumbered molecule lists the atoms in another order (O first), with mapped bonds -/
example : (mol3.relabel swap02).atoms.map (fun a => (a.idx, a.atomicNum)) = [(0, 8), (1, 6), (2, 6)]
    ∧ (mol3.relabel swap02).bonds = [(2, 1, 1), (1, 0, 1)] := by decide

/-- the hypotheses of the theorems are satisfiable, and they yield the equality of fingerprints -/
example (o : Opts) (req : Option Int) (bits : Option Nat) (mask : List Nat) :
    (runFp o (mol3.relabel swap02) geo3' >>= fun s => fingerprintAt o s req bits (mask.map swap02))
      = (runFp o mol3 geo3 >>= fun s => fingerprintAt o s req bits mask) :=
  fingerprint_relabel swap02 swap02 swap02_invol swap02_invol o mol3 (by decide) geo3 geo3' geo3_relabels req bits mask

/-! ## hypothesis (S) discharged: geometries that come from coordinates, over ℝ

`Geo.ofCoords mult X` is the geometry of a conformer with coordinates `X`; the renumbered conformer has
coordinates `X'` with `X' (π a) = X a`.  `Lemmas/StereoSym.lean` proves (S) for such a pair from the
definition of `stereoIndicators` (`Stereo.triples_perm`): the codes are one function of the neighbour
(given the multiset of neighbours) unless the centre has exactly two neighbours and they have the
same `(bond code, identifier)`; in that case the y axis is the *first* neighbour, the two orders pick
different axes, and the two code pairs agree when the two centred vectors are a `Stereo.GoodPair`.
`Stereo.GenPos X S` asks that of the atoms `S` the fingerprinter works on: different atoms at least
`√EPS = 10⁻⁶` apart, and no atom `q` closer than `√EPS` to — without lying on — the line through two
other atoms `c, p`.  The second condition cannot be dropped (`Stereo.two_rule_tiny_projection`: `as_unit`
leaves vectors shorter than `√EPS` unnormalised, so the "angle of a vector with itself" is `≈ π/2`
instead of 0 for the short projection, and the two orders give codes `{1, 3}` and `{1, 2}`).

`Geo.Relabels π (Geo.ofCoords mult X) (Geo.ofCoords mult X')` itself is false for every conformer with two
atoms `c, q` at least `√EPS` apart whose order `π` reverses (`StereoSym` also quantifies over tuple lists
that contain the centre itself, and a neighbour at distance 0 breaks the two-neighbour rule:
`Stereo.two_rule_zero_vector`).  The fingerprinter never passes such a list
(`Stereo.runFp_guard`), so the statement is about the geometry restricted to the lists it does pass
(`Geo.guard`). -/

open Stereo in
/-- **(S) holds for coordinates**: the geometry of the renumbered conformer relabels the geometry of
the conformer, on the stereo inputs the fingerprinter produces for the retained atoms -/
theorem ofCoords_relabels (π πi : Nat → Nat) (hl : ∀ a, πi (π a) = a) (o : Opts) (m : MolG)
    (mult : ℝ) (X X' : Nat → V3 ℝ) (hX : ∀ a, X' (π a) = X a) (hgp : GenPos X (retained o m)) :
    Geo.Relabels π ((Geo.ofCoords mult X).guard (retained o m))
      ((Geo.ofCoords mult X').guard (retained o (m.relabel π))) := by
  have hinj : ∀ a b, π a = π b → a = b := by
    intro a b h; have := congrArg πi h; rwa [hl, hl] at this
  refine ofCoords_guard_relabels mult X X' π hinj hX _ _ ?_ hgp
  intro a
  rw [(retained_relabel o m π).mem_iff, List.mem_map]
  constructor
  · rintro ⟨b, hb, e⟩; rw [← hinj _ _ e]; exact hb
  · intro h; exact ⟨a, h, rfl⟩

open Stereo in
/-- **C03 for conformers, the run**: renumbering the atoms of a molecule with coordinates (in general
position if stereo is on) gives a run that stops at the same level with, at every level, the same
multiset of `(identifier, substructure mapped back through πi)` -/
theorem runFp_relabel_coords (π πi : Nat → Nat) (hl : ∀ a, πi (π a) = a) (hr : ∀ a, π (πi a) = a) (o : Opts) (m : MolG)
    (hm : (m.atoms.map (·.idx)).Nodup) (mult : ℝ) (X X' : Nat → V3 ℝ) (hX : ∀ a, X' (π a) = X a)
    (hgp : o.stereo = true → GenPos X (retained o m)) :
    (∀ e, runFp o m (Geo.ofCoords mult X) = .error e → runFp o (m.relabel π) (Geo.ofCoords mult X') = .error e) ∧
    (∀ s, runFp o m (Geo.ofCoords mult X) = .ok s → ∃ s', runFp o (m.relabel π) (Geo.ofCoords mult X') = .ok s' ∧
      s'.levelShells.length = s.levelShells.length ∧ s'.currentLevel = s.currentLevel ∧
      ∀ k, ((s'.levelShells.getD k []).map (fun x => (x.ident, uniq (x.sub.map πi)))).Perm
        ((s.levelShells.getD k []).map (fun x => (x.ident, x.sub)))) := by
  rw [← runFp_guard o m, ← runFp_guard o (m.relabel π)]
  exact runFp_relabel_gen π πi hl hr o m hm _ _
    (fun k a b => by
      show Scalar.le (V3.dist (X' (π a)) (X' (π b))) _ = Scalar.le (V3.dist (X a) (X b)) _
      rw [hX, hX])
    (fun hst => (ofCoords_relabels π πi hl o m mult X X' hX (hgp hst)).stereo)

open Stereo in
/-- **C03 for conformers, the fingerprint**: … and the fingerprint is the same, for every requested
level, folding and (renumbered) atom mask -/
theorem fingerprint_relabel_coords (π πi : Nat → Nat) (hl : ∀ a, πi (π a) = a) (hr : ∀ a, π (πi a) = a) (o : Opts)
    (m : MolG) (hm : (m.atoms.map (·.idx)).Nodup) (mult : ℝ) (X X' : Nat → V3 ℝ) (hX : ∀ a, X' (π a) = X a)
    (hgp : o.stereo = true → GenPos X (retained o m))
    (req : Option Int) (bits : Option Nat) (mask : List Nat) :
    (runFp o (m.relabel π) (Geo.ofCoords mult X') >>= fun s => fingerprintAt o s req bits (mask.map π))
      = (runFp o m (Geo.ofCoords mult X) >>= fun s => fingerprintAt o s req bits mask) := by
  rw [← runFp_guard o m, ← runFp_guard o (m.relabel π)]
  exact fingerprint_relabel_gen π πi hl hr o m hm _ _
    (fun k a b => by
      show Scalar.le (V3.dist (X' (π a)) (X' (π b))) _ = Scalar.le (V3.dist (X a) (X b)) _
      rw [hX, hX])
    (fun hst => (ofCoords_relabels π πi hl o m mult X X' hX (hgp hst)).stereo) req bits mask

/-! ### non-vacuity: C–C–C with a right angle at the middle atom, ends swapped

The two neighbours of atom 1 have the same bond code and the same identifier, so the two-neighbour
rule applies, and the renumbering reverses their order. -/

/-- C–C–C, atoms 0 1 2, bonds 0–1 and 1–2 -/
def molCCC : MolG :=
  { atoms := [⟨0, 6, 1, [1, 6], [6, 1]⟩, ⟨1, 6, 2, [2, 6], [6, 2]⟩, ⟨2, 6, 1, [1, 6], [6, 1]⟩],
    bonds := [(0, 1, 1), (1, 2, 1)] }

/-- atom 0 at (3,0,0), atom 1 at the origin, atom 2 at (0,4,0) -/
noncomputable def xyzCCC (a : Nat) : V3 ℝ :=
  if a = 0 then ⟨3, 0, 0⟩ else if a = 2 then ⟨0, 4, 0⟩ else ⟨0, 0, 0⟩

theorem retained_molCCC (o : Opts) : retained o molCCC = [0, 1, 2] := by
  unfold retained
  cases o.excludeFloating <;> rfl

open Stereo RealScalar in
theorem genPos_CCC (o : Opts) : GenPos xyzCCC (retained o molCCC) := by
  rw [retained_molCCC]
  constructor
  · intro c hc p hp hpc
    simp only [List.mem_cons, List.not_mem_nil, or_false] at hc hp
    rcases hc with rfl | rfl | rfl <;> rcases hp with rfl | rfl | rfl <;>
      first
      | exact absurd rfl hpc
      | (apply proper_of_one_le; norm_num [xyzCCC, V3.sub, V3.dot])
  · intro c hc p hp q hq hpc hqc hpq
    simp only [List.mem_cons, List.not_mem_nil, or_false] at hc hp hq
    rcases hc with rfl | rfl | rfl <;> rcases hp with rfl | rfl | rfl <;> rcases hq with rfl | rfl | rfl <;>
      first
      | exact absurd rfl hpc
      | exact absurd rfl hqc
      | exact absurd rfl hpq
      | (apply notTiny_proj_of'
         · apply proper_of_one_le; norm_num [xyzCCC, V3.sub, V3.dot]
         · norm_num [xyzCCC, V3.sub, V3.dot])

/-- the hypotheses of `fingerprint_relabel_coords` are satisfiable: the C–C–C conformer above and its
renumbering by the transposition (0 2) have the same fingerprints, stereo on or off -/
example (o : Opts) (mult : ℝ) (req : Option Int) (bits : Option Nat) (mask : List Nat) :
    (runFp o (molCCC.relabel swap02) (Geo.ofCoords mult (fun a => xyzCCC (swap02 a)))
        >>= fun s => fingerprintAt o s req bits (mask.map swap02))
      = (runFp o molCCC (Geo.ofCoords mult xyzCCC) >>= fun s => fingerprintAt o s req bits mask) :=
  fingerprint_relabel_coords swap02 swap02 swap02_invol swap02_invol o molCCC (by decide) mult xyzCCC _
    (fun a => by simp only [swap02_invol]) (fun _ => genPos_CCC o) req bits mask

open Stereo RealScalar in
/-- … while the unrestricted statement fails on the same conformer: `Geo.Relabels` between the two
coordinate geometries themselves does not hold (centre 0 listed among its own neighbours) -/
example (mult : ℝ) :
    ¬ Geo.Relabels swap02 (Geo.ofCoords mult xyzCCC) (Geo.ofCoords mult (fun a => xyzCCC (swap02 a))) :=
  not_relabels_ofCoords mult xyzCCC _ swap02 (fun a => by simp only [swap02_invol]) 0 2 (by decide) (by decide)
    (by apply proper_of_one_le; norm_num [xyzCCC, V3.sub, V3.dot])

end E3fpVerif.Props.C03
