import E3fpVerif.Model.SmilesIO
import E3fpVerif.Lemmas.SmilesIO
/-!
# C19 (SMILES files): a name-to-SMILES table written to a SMILES file and read back is the same table

Model: `Model/SmilesIO.lean` (`writeTable` = `dict_to_smiles`, `readTable` = `smiles_to_dict`).

* `splitWs_token`, `splitWs_two`, `splitWs_two_ws`, `splitWs_join`, `splitWs_join_last`, `splitWs_joinSep`:
  `str.split()` of tokens separated by non-empty whitespace runs is the list of tokens;
* `parse_render`: a written line parses to the record it was written from;
* `table_rt_eq`, `table_rt`, `table_rt_keys`, `table_rt_keys_perm`: THE PROPERTY, for tables with pairwise
  distinct names whose names and SMILES strings are tokens;
* `table_rt_idem`, `writeTable_perm`: a second round trip changes nothing; the file does not depend on the
  insertion order of the dict;
* necessity of every hypothesis by evaluated counterexamples;
* header and `unique` variants; a non-vacuity example.
-/
namespace E3fpVerif.Props.C19Smiles
open E3fpVerif

/-! ## 1. `str.split()` -/

/-- a token is its own single field -/
theorem splitWs_token (s : List Char) (h : Token s) : splitWs s = [s] := splitWs_token' s h

/-- two tokens separated by one blank: the line format of `iter_to_smiles` -/
theorem splitWs_two (s n : List Char) (hs : Token s) (hn : Token n) : splitWs (s ++ [' '] ++ n) = [s, n] := by
  rw [splitWs_token_ws_append s [' '] n hs (by decide) (by decide), splitWs_token n hn]

/-- two tokens, separated by a non-empty whitespace run, with optional leading and trailing whitespace -/
theorem splitWs_two_ws (w0 t1 w1 t2 w2 : List Char) (h0 : AllWs w0) (h1 : AllWs w1) (h1ne : w1 ≠ [])
    (h2 : AllWs w2) (ht1 : Token t1) (ht2 : Token t2) :
    splitWs (w0 ++ t1 ++ w1 ++ t2 ++ w2) = [t1, t2] := by
  have e : w0 ++ t1 ++ w1 ++ t2 ++ w2 = w0 ++ (t1 ++ w1 ++ (t2 ++ w2)) := by
    simp only [List.append_assoc]
  rw [e, splitWs_ws_append w0 _ h0, splitWs_token_ws_append t1 w1 _ ht1 h1 h1ne]
  cases w2 with
  | nil => rw [List.append_nil, splitWs_token t2 ht2]
  | cons c w =>
    have := splitWs_token_ws_append t2 (c :: w) [] ht2 h2 (List.cons_ne_nil c w)
    rw [List.append_nil] at this
    rw [this, splitWs_nil]

/-- fields each followed by a whitespace run, concatenated -/
def joinFields (ps : List (List Char × List Char)) : List Char := (ps.map (fun p => p.1 ++ p.2)).flatten

/-- general form: optional leading whitespace, then tokens each followed by a non-empty whitespace run -/
theorem splitWs_join (w0 : List Char) (ps : List (List Char × List Char)) (h0 : AllWs w0)
    (h : ∀ p ∈ ps, Token p.1 ∧ AllWs p.2 ∧ p.2 ≠ []) :
    splitWs (w0 ++ joinFields ps) = ps.map Prod.fst := by
  rw [splitWs_ws_append w0 _ h0]
  induction ps with
  | nil => rfl
  | cons p ps ih =>
    obtain ⟨ht, hw, hne⟩ := h p List.mem_cons_self
    have e : joinFields (p :: ps) = p.1 ++ p.2 ++ joinFields ps := by
      simp only [joinFields, List.map_cons, List.flatten_cons]
    rw [e, splitWs_token_ws_append p.1 p.2 _ ht hw hne, ih (fun q hq => h q (List.mem_cons_of_mem _ hq)),
      List.map_cons]

/-- the same with a last token that is not followed by whitespace -/
theorem splitWs_join_last (w0 : List Char) (ps : List (List Char × List Char)) (t : List Char) (h0 : AllWs w0)
    (h : ∀ p ∈ ps, Token p.1 ∧ AllWs p.2 ∧ p.2 ≠ []) (ht : Token t) :
    splitWs (w0 ++ joinFields ps ++ t) = ps.map Prod.fst ++ [t] := by
  rw [List.append_assoc, splitWs_ws_append w0 _ h0]
  induction ps with
  | nil => exact splitWs_token t ht
  | cons p ps ih =>
    obtain ⟨hp, hw, hne⟩ := h p List.mem_cons_self
    have e : joinFields (p :: ps) ++ t = p.1 ++ p.2 ++ (joinFields ps ++ t) := by
      simp only [joinFields, List.map_cons, List.flatten_cons, List.append_assoc]
    rw [e, splitWs_token_ws_append p.1 p.2 _ hp hw hne, ih (fun q hq => h q (List.mem_cons_of_mem _ hq)),
      List.map_cons, List.cons_append]

/-- Python's `sep.join(ts)` -/
def joinSep (sep : List Char) : List (List Char) → List Char
  | [] => []
  | [t] => t
  | t :: u :: ts => t ++ sep ++ joinSep sep (u :: ts)

/-- `sep.join(tokens).split() == tokens` for a non-empty whitespace separator -/
theorem splitWs_joinSep (sep : List Char) (ts : List (List Char)) (hsep : AllWs sep) (hne : sep ≠ [])
    (h : ∀ t ∈ ts, Token t) : splitWs (joinSep sep ts) = ts := by
  induction ts with
  | nil => rfl
  | cons t ts ih =>
    cases ts with
    | nil => exact splitWs_token t (h t List.mem_cons_self)
    | cons u us =>
      have e : joinSep sep (t :: u :: us) = t ++ sep ++ joinSep sep (u :: us) := rfl
      rw [e, splitWs_token_ws_append t sep _ (h t List.mem_cons_self) hsep hne,
        ih (fun q hq => h q (List.mem_cons_of_mem _ hq))]

/-! ## 2. one line -/

/-- a written line parses to the record it was written from -/
theorem parse_render (name smiles : List Char) (hn : Token name) (hs : Token smiles) :
    parseLine (renderLine name smiles) = some (smiles, name) := by
  unfold parseLine renderLine
  rw [splitWs_two smiles name hs hn]

/-- the records of a written file are the items written (as `(smiles, name)`) -/
theorem parse_render_all (l : List (List Char × List Char)) (h : ∀ e ∈ l, Token e.1 ∧ Token e.2) :
    (l.map (fun e => renderLine e.1 e.2)).filterMap parseLine = l.map (fun e => (e.2, e.1)) := by
  induction l with
  | nil => rfl
  | cons e es ih =>
    obtain ⟨h1, h2⟩ := h e List.mem_cons_self
    rw [List.map_cons, List.filterMap_cons, parse_render e.1 e.2 h1 h2]
    simp only [List.map_cons, ih (fun q hq => h q (List.mem_cons_of_mem _ hq))]

/-! ## 3. THE PROPERTY -/

/-- the reader without options is a fold of `dict[name] = smiles` over the parsed records -/
theorem readTable_plain (lines : List (List Char)) :
    readTable lines false false = (lines.filterMap parseLine).foldl (fun acc r => dictSet acc r.2 r.1) [] := rfl

/-- reading any list of well-formed items with pairwise distinct names, written one per line, gives the list -/
theorem read_rendered (l : List (List Char × List Char)) (hnd : (l.map Prod.fst).Nodup)
    (htok : ∀ e ∈ l, Token e.1 ∧ Token e.2) :
    readTable (l.map (fun e => renderLine e.1 e.2)) false false = l := by
  rw [readTable_plain, parse_render_all l htok, List.foldl_map]
  have := foldl_dictSet_nodup l [] (by rw [List.nil_append]; exact hnd)
  rw [List.nil_append] at this
  exact this

theorem sortItems_tokens (d : List (List Char × List Char)) (htok : ∀ e ∈ d, Token e.1 ∧ Token e.2) :
    ∀ e ∈ sortItems d, Token e.1 ∧ Token e.2 :=
  fun e he => htok e ((sortItems_perm d).mem_iff.mp he)

/-- the table read back is the written table, stored in the order of the names -/
theorem table_rt_eq (d : List (List Char × List Char)) (hnd : (d.map Prod.fst).Nodup)
    (htok : ∀ e ∈ d, Token e.1 ∧ Token e.2) :
    readTable (writeTable d) false false = sortItems d :=
  read_rendered (sortItems d) (sortItems_keys_nodup d hnd) (sortItems_tokens d htok)

/-- C19 (SMILES file): the table read back is the same finite map -/
theorem table_rt (d : List (List Char × List Char)) (hnd : (d.map Prod.fst).Nodup)
    (htok : ∀ e ∈ d, Token e.1 ∧ Token e.2) (name : List Char) :
    dictGet (readTable (writeTable d) false false) name = dictGet d name := by
  rw [table_rt_eq d hnd htok]
  exact dictGet_perm _ _ (sortItems_keys_nodup d hnd) (sortItems_perm d) name

/-- the keys read back are the names, sorted -/
theorem table_rt_keys (d : List (List Char × List Char)) (hnd : (d.map Prod.fst).Nodup)
    (htok : ∀ e ∈ d, Token e.1 ∧ Token e.2) :
    (readTable (writeTable d) false false).map Prod.fst = (sortItems d).map Prod.fst := by
  rw [table_rt_eq d hnd htok]

theorem table_rt_keys_perm (d : List (List Char × List Char)) (hnd : (d.map Prod.fst).Nodup)
    (htok : ∀ e ∈ d, Token e.1 ∧ Token e.2) :
    ((readTable (writeTable d) false false).map Prod.fst).Perm (d.map Prod.fst) := by
  rw [table_rt_keys d hnd htok]
  exact sortItems_keys_perm d

/-- the items read back are the items written (as a multiset) -/
theorem table_rt_perm (d : List (List Char × List Char)) (hnd : (d.map Prod.fst).Nodup)
    (htok : ∀ e ∈ d, Token e.1 ∧ Token e.2) :
    (readTable (writeTable d) false false).Perm d := by
  rw [table_rt_eq d hnd htok]
  exact sortItems_perm d

/-- the keys read back are strictly increasing -/
theorem table_rt_sorted (d : List (List Char × List Char)) (hnd : (d.map Prod.fst).Nodup)
    (htok : ∀ e ∈ d, Token e.1 ∧ Token e.2) :
    (readTable (writeTable d) false false).Pairwise (fun a b => ltChars a.1 b.1 = true) := by
  rw [table_rt_eq d hnd htok]
  exact sortItems_sorted d hnd

/-! ## 4. a second round trip changes nothing; the file ignores the insertion order -/

theorem table_rt_idem (d : List (List Char × List Char)) (hnd : (d.map Prod.fst).Nodup)
    (htok : ∀ e ∈ d, Token e.1 ∧ Token e.2) :
    readTable (writeTable (readTable (writeTable d) false false)) false false
      = readTable (writeTable d) false false := by
  rw [table_rt_eq d hnd htok,
    table_rt_eq (sortItems d) (sortItems_keys_nodup d hnd) (sortItems_tokens d htok), sortItems_idem d hnd]

/-- the written file is a fixed point as well -/
theorem write_rt_idem (d : List (List Char × List Char)) (hnd : (d.map Prod.fst).Nodup)
    (htok : ∀ e ∈ d, Token e.1 ∧ Token e.2) :
    writeTable (readTable (writeTable d) false false) = writeTable d := by
  rw [table_rt_eq d hnd htok]
  unfold writeTable
  rw [sortItems_idem d hnd]

/-- two dicts with the same items in different insertion orders give the same file -/
theorem writeTable_perm (d₁ d₂ : List (List Char × List Char)) (hnd : (d₁.map Prod.fst).Nodup)
    (hp : d₁.Perm d₂) : writeTable d₁ = writeTable d₂ := by
  unfold writeTable
  rw [sortItems_eq_of_perm d₁ d₂ hnd hp]

/-! ## 5. every hypothesis is needed -/

/-- a name containing a blank: the table read back has the key `"x"` instead of `"x y"` -/
example :
    let d := [(['x', ' ', 'y'], ['C', 'C'])]
    readTable (writeTable d) false false = [(['x'], ['C', 'C'])]
      ∧ dictGet (readTable (writeTable d) false false) ['x', ' ', 'y'] = none
      ∧ dictGet d ['x', ' ', 'y'] = some ['C', 'C'] := by decide

/-- a SMILES string containing a blank: the second half is read as the name -/
example :
    let d := [(['m'], ['C', ' ', 'O'])]
    readTable (writeTable d) false false = [(['O'], ['C'])] := by decide

/-- an empty name: the line has one field and is skipped -/
example :
    let d := [([], ['C', 'C']), (['m'], ['O'])]
    readTable (writeTable d) false false = [(['m'], ['O'])] ∧ dictGet d [] = some ['C', 'C'] := by decide

/-- an empty SMILES string: the line has one field and is skipped -/
example :
    let d := [(['m'], []), (['n'], ['O'])]
    readTable (writeTable d) false false = [(['n'], ['O'])] ∧ dictGet d ['m'] = some [] := by decide

/-- two entries with the same name collapse into one (a Python dict cannot hold this; an item list can) -/
example :
    let d := [(['m'], ['C']), (['m'], ['O'])]
    (readTable (writeTable d) false false).length = 1 ∧ (sortItems d).length = 2
      ∧ readTable (writeTable d) false false ≠ sortItems d := by decide

/-- without distinct names, sorting twice is not sorting once (equal names are swapped) -/
example :
    let d := [(['m'], ['C']), (['m'], ['O'])]
    sortItems (sortItems d) ≠ sortItems d := by decide

/-! ## 6. header and `unique` variants -/

/-- with a header, the first *parsed* record is dropped -/
theorem readTable_header (lines : List (List Char)) :
    readTable lines false true
      = ((lines.filterMap parseLine).drop 1).foldl (fun acc r => dictSet acc r.2 r.1) [] := rfl

/-- a first line with at least two fields is the header -/
theorem readTable_header_cons (l : List Char) (lines : List (List Char)) (u : Bool)
    (r : List Char × List Char) (h : parseLine l = some r) :
    readTable (l :: lines) u true = readTable lines u false := by
  unfold readTable
  simp only [List.filterMap_cons, h, ↓reduceIte, List.drop_succ_cons, List.drop_zero, Bool.false_eq_true]

/-- a first line with fewer than two fields is skipped *before* the header is taken: the next parsed line
is dropped as the header (as `next(smiles_gen)` does) -/
theorem readTable_header_skip (l : List Char) (lines : List (List Char)) (u : Bool)
    (h : parseLine l = none) : readTable (l :: lines) u true = readTable lines u true := by
  unfold readTable
  simp only [List.filterMap_cons, h]

/-- a table written under a one-line two-field header is read back with `has_header` -/
theorem table_rt_header (hdr : List Char) (r : List Char × List Char) (hh : parseLine hdr = some r)
    (d : List (List Char × List Char)) (hnd : (d.map Prod.fst).Nodup)
    (htok : ∀ e ∈ d, Token e.1 ∧ Token e.2) :
    readTable (hdr :: writeTable d) false true = sortItems d := by
  rw [readTable_header_cons hdr _ false r hh, table_rt_eq d hnd htok]

/-- one step of the `unique=True` loop -/
def ustep (acc : List (List Char × List Char) × List (List Char)) (r : List Char × List Char) :
    List (List Char × List Char) × List (List Char) :=
  if (dictGet acc.1 r.2).isSome || acc.2.contains r.1 then acc else (dictSet acc.1 r.2 r.1, r.1 :: acc.2)

theorem readTable_unique (lines : List (List Char)) :
    readTable lines true false = ((lines.filterMap parseLine).foldl ustep ([], [])).1 := rfl

/-- a record with a fresh name and a fresh SMILES string is stored -/
theorem ustep_fresh (D : List (List Char × List Char)) (S : List (List Char)) (r : List Char × List Char)
    (hn : r.2 ∉ D.map Prod.fst) (hs : r.1 ∉ S) : ustep (D, S) r = (D ++ [(r.2, r.1)], r.1 :: S) := by
  unfold ustep
  have h1 : (dictGet D r.2).isSome = false := by rw [dictGet_eq_none D r.2 hn]; rfl
  have h2 : S.contains r.1 = false := by
    rw [List.contains_eq_mem]; exact decide_eq_false hs
  simp only [h1, h2, Bool.or_self, Bool.false_eq_true, ↓reduceIte, dictSet_fresh D r.2 r.1 hn]

/-- `unique=True` never replaces a stored entry -/
theorem ustep_keeps (acc : List (List Char × List Char) × List (List Char)) (r : List Char × List Char)
    (n v : List Char) (h : dictGet acc.1 n = some v) : dictGet (ustep acc r).1 n = some v := by
  unfold ustep
  split
  · exact h
  · rename_i hc
    rw [Bool.or_eq_true, not_or] at hc
    show dictGet (dictSet acc.1 r.2 r.1) n = some v
    rw [dictGet_dictSet]
    split
    · rename_i heq
      subst heq
      rw [h] at hc
      exact absurd rfl hc.1
    · exact h

theorem ufold_keeps (recs : List (List Char × List Char))
    (acc : List (List Char × List Char) × List (List Char)) (n v : List Char)
    (h : dictGet acc.1 n = some v) : dictGet (recs.foldl ustep acc).1 n = some v := by
  induction recs generalizing acc with
  | nil => exact h
  | cons r rs ih => rw [List.foldl_cons]; exact ih _ (ustep_keeps acc r n v h)

/-- the stored names and the used SMILES strings all come from the records read so far -/
theorem ufold_sub (recs : List (List Char × List Char)) (D : List (List Char × List Char)) (S : List (List Char)) :
    (∀ n ∈ (recs.foldl ustep (D, S)).1.map Prod.fst, n ∈ D.map Prod.fst ∨ n ∈ recs.map Prod.snd)
    ∧ (∀ s ∈ (recs.foldl ustep (D, S)).2, s ∈ S ∨ s ∈ recs.map Prod.fst) := by
  induction recs generalizing D S with
  | nil => exact ⟨fun n hn => Or.inl hn, fun s hs => Or.inl hs⟩
  | cons r rs ih =>
    rw [List.foldl_cons]
    have hstep : (∀ n ∈ (ustep (D, S) r).1.map Prod.fst, n ∈ D.map Prod.fst ∨ n = r.2)
        ∧ (∀ s ∈ (ustep (D, S) r).2, s ∈ S ∨ s = r.1) := by
      unfold ustep
      split
      · exact ⟨fun n hn => Or.inl hn, fun s hs => Or.inl hs⟩
      · refine ⟨?_, ?_⟩
        · intro n hn
          rw [dictSet_keys] at hn
          split at hn
          · exact Or.inl hn
          · rcases List.mem_append.mp hn with h | h
            · exact Or.inl h
            · exact Or.inr (List.mem_singleton.mp h)
        · intro s hs
          rcases List.mem_cons.mp hs with h | h
          · exact Or.inr h
          · exact Or.inl h
    obtain ⟨ih1, ih2⟩ := ih (ustep (D, S) r).1 (ustep (D, S) r).2
    refine ⟨?_, ?_⟩
    · intro n hn
      rcases ih1 n hn with h | h
      · rcases hstep.1 n h with h | h
        · exact Or.inl h
        · exact Or.inr (by rw [List.map_cons, h]; exact List.mem_cons_self)
      · exact Or.inr (by rw [List.map_cons]; exact List.mem_cons_of_mem _ h)
    · intro s hs
      rcases ih2 s hs with h | h
      · rcases hstep.2 s h with h | h
        · exact Or.inl h
        · exact Or.inr (by rw [List.map_cons, h]; exact List.mem_cons_self)
      · exact Or.inr (by rw [List.map_cons]; exact List.mem_cons_of_mem _ h)

/-- `unique=True`, first wins: a record whose name and whose SMILES string occur in no earlier record is
stored, and nothing that follows replaces it -/
theorem unique_first_wins (lines : List (List Char)) (pre post : List (List Char × List Char))
    (r : List Char × List Char) (hrecs : lines.filterMap parseLine = pre ++ r :: post)
    (hn : r.2 ∉ pre.map Prod.snd) (hs : r.1 ∉ pre.map Prod.fst) :
    dictGet (readTable lines true false) r.2 = some r.1 := by
  rw [readTable_unique, hrecs, List.foldl_append, List.foldl_cons]
  obtain ⟨h1, h2⟩ := ufold_sub pre [] []
  have hn' : r.2 ∉ (pre.foldl ustep ([], [])).1.map Prod.fst := by
    intro h
    rcases h1 _ h with h | h
    · cases h
    · exact hn h
  have hs' : r.1 ∉ (pre.foldl ustep ([], [])).2 := by
    intro h
    rcases h2 _ h with h | h
    · cases h
    · exact hs h
  apply ufold_keeps
  have e : pre.foldl ustep ([], []) = ((pre.foldl ustep ([], [])).1, (pre.foldl ustep ([], [])).2) := rfl
  rw [e, ustep_fresh _ _ r hn' hs']
  show dictGet ((pre.foldl ustep ([], [])).1 ++ [(r.2, r.1)]) r.2 = some r.1
  rw [← dictSet_fresh _ r.2 r.1 hn', dictGet_dictSet, if_pos rfl]

/-- in particular the first record of the file is always stored -/
theorem unique_first_record (lines : List (List Char)) (r : List Char × List Char)
    (post : List (List Char × List Char)) (hrecs : lines.filterMap parseLine = r :: post) :
    dictGet (readTable lines true false) r.2 = some r.1 :=
  unique_first_wins lines [] post r hrecs (fun h => by cases h) (fun h => by cases h)

/-- without `unique`, last wins: the last record of a name is the one stored -/
theorem plain_last_wins (lines : List (List Char)) (pre post : List (List Char × List Char))
    (r : List Char × List Char) (hrecs : lines.filterMap parseLine = pre ++ r :: post)
    (hn : r.2 ∉ post.map Prod.snd) :
    dictGet (readTable lines false false) r.2 = some r.1 := by
  rw [readTable_plain, hrecs, List.foldl_append, List.foldl_cons]
  generalize pre.foldl (fun acc r => dictSet acc r.2 r.1) [] = D
  have key : ∀ (post : List (List Char × List Char)) (D : List (List Char × List Char)),
      r.2 ∉ post.map Prod.snd → dictGet D r.2 = some r.1 →
      dictGet (post.foldl (fun acc r => dictSet acc r.2 r.1) D) r.2 = some r.1 := by
    intro post
    induction post with
    | nil => intro D _ h; exact h
    | cons q qs ih =>
      intro D hq h
      rw [List.map_cons, List.mem_cons, not_or] at hq
      rw [List.foldl_cons]
      apply ih _ hq.2
      rw [dictGet_dictSet, if_neg (fun e => hq.1 e.symm)]
      exact h
  apply key post _ hn
  rw [dictGet_dictSet, if_pos rfl]

/-- the `unique` loop on records with fresh distinct names and fresh distinct SMILES strings appends them -/
theorem ufold_distinct (recs : List (List Char × List Char)) (D : List (List Char × List Char))
    (S : List (List Char)) (h1 : (D.map Prod.fst ++ recs.map Prod.snd).Nodup)
    (h2 : (S ++ recs.map Prod.fst).Nodup) :
    (recs.foldl ustep (D, S)).1 = D ++ recs.map (fun r => (r.2, r.1)) := by
  induction recs generalizing D S with
  | nil => rw [List.foldl_nil, List.map_nil, List.append_nil]
  | cons r rs ih =>
    have hn : r.2 ∉ D.map Prod.fst := by
      intro hmem
      exact (List.nodup_append.mp h1).2.2 r.2 hmem r.2 (by rw [List.map_cons]; exact List.mem_cons_self) rfl
    have hs : r.1 ∉ S := by
      intro hmem
      exact (List.nodup_append.mp h2).2.2 r.1 hmem r.1 (by rw [List.map_cons]; exact List.mem_cons_self) rfl
    rw [List.foldl_cons, ustep_fresh D S r hn hs, ih (D ++ [(r.2, r.1)]) (r.1 :: S)]
    · rw [List.map_cons, List.append_assoc, List.singleton_append]
    · rw [List.map_append, List.map_cons, List.map_nil, List.append_assoc, List.singleton_append]
      rw [List.map_cons] at h1
      exact h1
    · rw [List.map_cons] at h2
      exact (List.perm_middle (l₁ := S) (a := r.1) (l₂ := rs.map Prod.fst)).nodup_iff.mp h2

/-- if all names are distinct and all SMILES strings are distinct, `unique=True` changes nothing -/
theorem unique_eq_plain (lines : List (List Char))
    (hn : ((lines.filterMap parseLine).map Prod.snd).Nodup)
    (hs : ((lines.filterMap parseLine).map Prod.fst).Nodup) :
    readTable lines true false = readTable lines false false := by
  rw [readTable_unique, readTable_plain]
  generalize lines.filterMap parseLine = recs at hn hs
  rw [ufold_distinct recs [] [] (by rw [List.map_nil, List.nil_append]; exact hn)
    (by rw [List.nil_append]; exact hs), List.nil_append]
  have := foldl_dictSet_nodup (recs.map (fun r => (r.2, r.1))) [] (by
    rw [List.nil_append, List.map_map]; exact hn)
  rw [List.foldl_map, List.nil_append] at this
  exact this.symm

/-- the round trip with `unique=True`, for tables whose SMILES strings are pairwise distinct as well -/
theorem table_rt_unique (d : List (List Char × List Char)) (hnd : (d.map Prod.fst).Nodup)
    (hsd : (d.map Prod.snd).Nodup) (htok : ∀ e ∈ d, Token e.1 ∧ Token e.2) :
    readTable (writeTable d) true false = sortItems d := by
  have hrec : (writeTable d).filterMap parseLine = (sortItems d).map (fun e => (e.2, e.1)) :=
    parse_render_all (sortItems d) (sortItems_tokens d htok)
  rw [unique_eq_plain (writeTable d), table_rt_eq d hnd htok]
  · rw [hrec, List.map_map]; exact sortItems_keys_nodup d hnd
  · rw [hrec, List.map_map]
    exact (((sortItems_perm d).map Prod.snd).nodup_iff).mpr hsd

/-- with `unique=True` two names with the same SMILES string do not both survive -/
example :
    let d := [(['a'], ['C']), (['b'], ['C'])]
    readTable (writeTable d) true false = [(['a'], ['C'])]
      ∧ readTable (writeTable d) false false = d := by decide

/-! ## 7. non-vacuity -/

/-- a three-entry table inserted out of order: the file lines and the table read back -/
example :
    let d := [(['m', '2'], ['C', 'C', 'O']), (['m', '1'], ['c', '1', 'c', 'c', 'c', 'c', 'c', '1']),
      (['a'], ['N'])]
    (d.map Prod.fst).Nodup ∧ (∀ e ∈ d, Token e.1 ∧ Token e.2)
      ∧ writeTable d = [['N', ' ', 'a'], ['c', '1', 'c', 'c', 'c', 'c', 'c', '1', ' ', 'm', '1'],
          ['C', 'C', 'O', ' ', 'm', '2']]
      ∧ readTable (writeTable d) false false
          = [(['a'], ['N']), (['m', '1'], ['c', '1', 'c', 'c', 'c', 'c', 'c', '1']), (['m', '2'], ['C', 'C', 'O'])]
      ∧ dictGet (readTable (writeTable d) false false) ['m', '2'] = some ['C', 'C', 'O'] := by decide

/-- a hand-written file: tabs, runs of blanks, a third column, a one-field line, a repeated name -/
example :
    readTable [['C', '\t', 'a'], [' ', 'N', ' ', ' ', 'b', ' ', 'x', ' '], ['O'], [], ['S', ' ', 'a']] false false
      = [(['a'], ['S']), (['b'], ['N'])]
    ∧ readTable [['C', '\t', 'a'], [' ', 'N', ' ', ' ', 'b', ' ', 'x', ' '], ['O'], [], ['S', ' ', 'a']] true false
      = [(['a'], ['C']), (['b'], ['N'])]
    ∧ readTable [['C', '\t', 'a'], [' ', 'N', ' ', ' ', 'b', ' ', 'x', ' '], ['O'], [], ['S', ' ', 'a']] false true
      = [(['b'], ['N']), (['a'], ['S'])] := by decide

end E3fpVerif.Props.C19Smiles
