import E3fpVerif.Model.Conformer
/-!
# C13 — the selection contract of `filter_conformers`, for every energy list and RMSD oracle
-/
namespace E3fpVerif.Props.C13
open E3fpVerif

variable (E : Nat → Rat) (rmsd : Nat → Nat → Rat) (first : Nat) (cutoff : Rat) (window : Option Rat)

/-- invariant of the loop: accepted conformers are pairwise at least `cutoff` apart (as measured
accepted-against-candidate), and never more than `max first 1` -/
def Apart (acc : List Nat) : Prop := acc.Pairwise (fun a b => ¬ rmsd a b < cutoff)

theorem filterLoop_apart (pool acc : List Nat) (h : Apart rmsd cutoff acc) :
    Apart rmsd cutoff (filterLoop E rmsd first cutoff window pool acc) := by
  induction pool generalizing acc with
  | nil => simpa [filterLoop] using h
  | cons fit rest ih =>
    unfold filterLoop
    cases acc with
    | nil => exact ih _ (by simp [Apart])
    | cons low t =>
      simp only
      split
      · exact ih _ h
      · split
        · exact ih _ h
        · split
          · exact ih _ h
          · rename_i hany
            apply ih
            unfold Apart at *
            rw [List.pairwise_append]
            refine ⟨h, by simp, ?_⟩
            intro a ha b hb
            simp only [List.mem_singleton] at hb
            subst hb
            unfold tooClose at hany
            simp only [List.any_eq_true, decide_eq_true_eq, not_exists, not_and] at hany
            exact hany a ha

/-- returned conformers are pairwise at least the RMSD cutoff apart -/
theorem pairwise_apart (n : Nat) :
    (filterConformers n E rmsd first cutoff window).accepted.Pairwise (fun a b => ¬ rmsd a b < cutoff) := by
  unfold filterConformers
  exact filterLoop_apart E rmsd first cutoff window _ [] (by simp [Apart])

theorem filterLoop_length (pool acc : List Nat) (h : acc.length ≤ max first 1) :
    (filterLoop E rmsd first cutoff window pool acc).length ≤ max first 1 := by
  induction pool generalizing acc with
  | nil => simpa [filterLoop] using h
  | cons fit rest ih =>
    unfold filterLoop
    cases acc with
    | nil => exact ih _ (by simp; omega)
    | cons low t =>
      simp only
      split
      · exact ih _ h
      · split
        · exact ih _ h
        · split
          · exact ih _ h
          · rename_i hlen _ _
            apply ih
            simp only [List.length_append, List.length_cons, List.length_nil] at *
            omega

/-- no more conformers than requested (`first`, at least the lowest-energy one) -/
theorem count_bound (n : Nat) : (filterConformers n E rmsd first cutoff window).accepted.length ≤ max first 1 := by
  unfold filterConformers
  exact filterLoop_length E rmsd first cutoff window _ [] (by simp)

/-- the reported energies are those of the returned conformers, in the returned order -/
theorem reported_energies (n : Nat) :
    (filterConformers n E rmsd first cutoff window).energies = (filterConformers n E rmsd first cutoff window).accepted.map E := rfl

/-- the reported matrix entry (a, b) is the RMSD between the a-th and b-th returned conformers -/
theorem reported_rmsd (n : Nat) (a b : Nat) (x y : Nat)
    (hx : (filterConformers n E rmsd first cutoff window).accepted[a]? = some x)
    (hy : (filterConformers n E rmsd first cutoff window).accepted[b]? = some y) :
    ((filterConformers n E rmsd first cutoff window).rmsds[a]?.bind (·[b]?)) = some (if x = y then 0 else rmsd x y) := by
  unfold filterConformers at *
  simp only at *
  simp [List.getElem?_map, hx, hy]

/-! ## the energy sort -/

theorem insertByEnergy_perm (i : Nat) (l : List Nat) : (insertByEnergy E i l).Perm (i :: l) := by
  induction l with
  | nil => simp [insertByEnergy]
  | cons j js ih =>
    unfold insertByEnergy
    split
    · exact List.Perm.refl _
    · exact (List.Perm.cons j ih).trans (List.Perm.swap i j js)

/-- the energy order `np.argsort` returns is a permutation of the pool indices -/
theorem argsortE_perm (n : Nat) : (argsortE E n).Perm (List.range n) := by
  unfold argsortE
  induction List.range n with
  | nil => simp
  | cons a t ih =>
    simp only [List.foldr_cons]
    exact (insertByEnergy_perm E a _).trans (List.Perm.cons a ih)

theorem insertByEnergy_sorted (i : Nat) (l : List Nat) (h : l.Pairwise (fun a b => ¬ E b < E a)) :
    (insertByEnergy E i l).Pairwise (fun a b => ¬ E b < E a) := by
  induction l with
  | nil => simp [insertByEnergy]
  | cons j js ih =>
    rw [List.pairwise_cons] at h
    unfold insertByEnergy
    split
    · rename_i hij
      rw [List.pairwise_cons]
      refine ⟨?_, List.pairwise_cons.mpr h⟩
      intro x hx
      rcases List.mem_cons.mp hx with rfl | hx
      · grind
      · have := h.1 x hx
        grind
    · rename_i hij
      rw [List.pairwise_cons]
      refine ⟨?_, ih h.2⟩
      intro x hx
      have hx' := (insertByEnergy_perm E i js).mem_iff.mp hx
      rcases List.mem_cons.mp hx' with rfl | hx'
      · exact hij
      · exact h.1 x hx'

/-- the energy order is sorted by energy -/
theorem argsortE_sorted (n : Nat) : (argsortE E n).Pairwise (fun a b => ¬ E b < E a) := by
  unfold argsortE
  induction List.range n with
  | nil => simp
  | cons a t ih =>
    simp only [List.foldr_cons]
    exact insertByEnergy_sorted E a _ ih

theorem argsortE_nodup (n : Nat) : (argsortE E n).Nodup :=
  (argsortE_perm E n).nodup_iff.mpr List.nodup_range

theorem mem_argsortE (n i : Nat) : i ∈ argsortE E n ↔ i < n := by
  rw [(argsortE_perm E n).mem_iff, List.mem_range]

/-! ## the loop only appends pool members, in pool order -/

theorem filterLoop_append (pool acc : List Nat) :
    ∃ l, l.Sublist pool ∧ filterLoop E rmsd first cutoff window pool acc = acc ++ l := by
  induction pool generalizing acc with
  | nil => exact ⟨[], List.Sublist.refl _, by simp [filterLoop]⟩
  | cons fit rest ih =>
    have skip : ∀ acc', ∃ l, l.Sublist (fit :: rest) ∧ filterLoop E rmsd first cutoff window rest acc' = acc' ++ l := by
      intro acc'
      obtain ⟨l, hl, he⟩ := ih acc'
      exact ⟨l, hl.cons _, he⟩
    have take : ∃ l, l.Sublist (fit :: rest) ∧
        filterLoop E rmsd first cutoff window rest (acc ++ [fit]) = acc ++ l := by
      obtain ⟨l, hl, he⟩ := ih (acc ++ [fit])
      exact ⟨fit :: l, hl.cons_cons _, by rw [he]; simp⟩
    unfold filterLoop
    cases acc with
    | nil => simpa using take
    | cons low t =>
      simp only
      split
      · exact skip _
      · split
        · exact skip _
        · split
          · exact skip _
          · exact take

/-- the accepted conformers are a sublist of the energy-sorted pool -/
theorem accepted_sublist (n : Nat) :
    (filterConformers n E rmsd first cutoff window).accepted.Sublist (argsortE E n) := by
  unfold filterConformers
  obtain ⟨l, hl, he⟩ := filterLoop_append E rmsd first cutoff window (argsortE E n) []
  simp only [he, List.nil_append]
  exact hl

/-- returned conformers are in non-decreasing energy order -/
theorem sorted_by_energy (n : Nat) :
    ((filterConformers n E rmsd first cutoff window).accepted.map E).Pairwise (· ≤ ·) := by
  rw [List.pairwise_map]
  refine ((argsortE_sorted E n).sublist (accepted_sublist E rmsd first cutoff window n)).imp ?_
  intro a b h
  exact Rat.not_lt.mp h

/-- no conformer is returned twice -/
theorem accepted_nodup (n : Nat) : (filterConformers n E rmsd first cutoff window).accepted.Nodup :=
  (argsortE_nodup E n).sublist (accepted_sublist E rmsd first cutoff window n)

/-- returned indices are pool indices -/
theorem accepted_lt_n (n : Nat) : ∀ i ∈ (filterConformers n E rmsd first cutoff window).accepted, i < n := by
  intro i hi
  exact (mem_argsortE E n i).mp ((accepted_sublist E rmsd first cutoff window n).subset hi)

/-! ## the lowest-energy conformer is always returned, first -/

theorem filterLoop_head (pool acc : List Nat) :
    (filterLoop E rmsd first cutoff window pool acc).head? = (acc ++ pool).head? := by
  cases pool with
  | nil => simp [filterLoop]
  | cons fit rest =>
    cases acc with
    | nil =>
      unfold filterLoop
      obtain ⟨l, _, he⟩ := filterLoop_append E rmsd first cutoff window rest [fit]
      simp [he]
    | cons low t =>
      obtain ⟨l, _, he⟩ := filterLoop_append E rmsd first cutoff window (fit :: rest) (low :: t)
      simp [he]

/-- the first returned conformer is the first of the energy order -/
theorem accepted_head (n : Nat) :
    (filterConformers n E rmsd first cutoff window).accepted.head? = (argsortE E n).head? := by
  unfold filterConformers
  simpa using filterLoop_head E rmsd first cutoff window (argsortE E n) []

theorem argsortE_ne_nil (n : Nat) (hn : 0 < n) : argsortE E n ≠ [] := by
  intro h
  have := (mem_argsortE E n 0).mpr hn
  rw [h] at this
  simp at this

/-- the head of the energy order has minimal energy -/
theorem argsortE_head_min (n : Nat) (low : Nat) (h : (argsortE E n).head? = some low) :
    ∀ i, i < n → E low ≤ E i := by
  intro i hi
  have hmem := (mem_argsortE E n i).mpr hi
  have hs := argsortE_sorted E n
  cases hl : argsortE E n with
  | nil => rw [hl] at hmem; simp at hmem
  | cons a t =>
    rw [hl] at h hmem hs
    simp only [List.head?_cons, Option.some.injEq] at h
    subst h
    rcases List.mem_cons.mp hmem with rfl | hm
    · exact Rat.le_refl
    · exact Rat.not_lt.mp ((List.pairwise_cons.mp hs).1 i hm)

/-- for a non-empty pool a conformer is returned, the first one returned is in the pool, and its
energy is minimal over the whole pool -/
theorem lowest_first (n : Nat) (hn : 0 < n) :
    ∃ low, (filterConformers n E rmsd first cutoff window).accepted.head? = some low ∧ low < n ∧
      ∀ i, i < n → E low ≤ E i := by
  cases hl : argsortE E n with
  | nil => exact absurd hl (argsortE_ne_nil E n hn)
  | cons a t =>
    have hh : (argsortE E n).head? = some a := by rw [hl]; rfl
    refine ⟨a, by rw [accepted_head, hh], ?_, argsortE_head_min E n a hh⟩
    exact (mem_argsortE E n a).mp (by rw [hl]; simp)

example : (filterConformers 3 (fun i => if i = 0 then 5 else if i = 1 then 2 else 3)
    (fun _ _ => 1) 2 (1/2) none).accepted = [1, 2] := by decide +kernel

/-! ## every rejection has a reason (the selection is greedy-maximal) -/

/-- loop invariant: a pool member that is not in the result was rejected because the result is
full, or it lies outside the window of the lowest, or it is too close to a returned conformer -/
theorem filterLoop_maximal (pool acc : List Nat) :
    ∀ i ∈ pool, i ∉ filterLoop E rmsd first cutoff window pool acc →
      first ≤ (filterLoop E rmsd first cutoff window pool acc).length ∨
      (∃ low, (filterLoop E rmsd first cutoff window pool acc).head? = some low ∧
        outsideWindow E window low i = true) ∨
      tooClose rmsd cutoff (filterLoop E rmsd first cutoff window pool acc) i = true := by
  induction pool generalizing acc with
  | nil => intro i hi; simp at hi
  | cons fit rest ih =>
    intro i hi
    rcases List.mem_cons.mp hi with rfl | hi
    · -- the candidate itself
      unfold filterLoop
      cases acc with
      | nil =>
        intro hn
        obtain ⟨l, _, he⟩ := filterLoop_append E rmsd first cutoff window rest [i]
        rw [he] at hn
        simp at hn
      | cons low t =>
        simp only
        split
        · rename_i hlen
          intro _
          obtain ⟨l, _, he⟩ := filterLoop_append E rmsd first cutoff window rest (low :: t)
          left
          rw [he]
          simp only [List.length_append]
          simp only [ge_iff_le] at hlen
          omega
        · split
          · rename_i hwin
            intro _
            obtain ⟨l, _, he⟩ := filterLoop_append E rmsd first cutoff window rest (low :: t)
            right; left
            exact ⟨low, by rw [he]; rfl, hwin⟩
          · split
            · rename_i hclose
              intro _
              obtain ⟨l, _, he⟩ := filterLoop_append E rmsd first cutoff window rest (low :: t)
              right; right
              rw [he]
              unfold tooClose at *
              rw [List.any_append, hclose]
              rfl
            · intro hn
              obtain ⟨l, _, he⟩ := filterLoop_append E rmsd first cutoff window rest (low :: t ++ [i])
              rw [he] at hn
              simp at hn
    · -- a later candidate: same result list, apply the invariant to the rest
      unfold filterLoop
      cases acc with
      | nil => exact ih _ i hi
      | cons low t =>
        simp only
        split
        · exact ih _ i hi
        · split
          · exact ih _ i hi
          · split
            · exact ih _ i hi
            · exact ih _ i hi

/-- a pool conformer that is not returned was rejected for one of the three documented reasons:
`first` conformers are already returned, or it is outside the energy window of the lowest-energy
conformer, or it is within the RMSD cutoff of a returned conformer -/
theorem rejected_reason (n : Nat) (i : Nat) (hi : i < n)
    (hrej : i ∉ (filterConformers n E rmsd first cutoff window).accepted) :
    first ≤ (filterConformers n E rmsd first cutoff window).accepted.length ∨
    (∃ low, (filterConformers n E rmsd first cutoff window).accepted.head? = some low ∧
      outsideWindow E window low i = true) ∨
    ∃ a ∈ (filterConformers n E rmsd first cutoff window).accepted, rmsd a i < cutoff := by
  have h := filterLoop_maximal E rmsd first cutoff window (argsortE E n) [] i
    ((mem_argsortE E n i).mpr hi) hrej
  rcases h with h | h | h
  · exact Or.inl h
  · exact Or.inr (Or.inl h)
  · refine Or.inr (Or.inr ?_)
    unfold tooClose at h
    have h' : ∃ a ∈ filterLoop E rmsd first cutoff window (argsortE E n) [], rmsd a i < cutoff := by
      simpa using h
    exact h'

theorem filterLoop_all (hr : ∀ a b, ¬ rmsd a b < cutoff) (pool acc : List Nat)
    (h : acc.length + pool.length ≤ first) :
    filterLoop E rmsd first cutoff none pool acc = acc ++ pool := by
  induction pool generalizing acc with
  | nil => simp [filterLoop]
  | cons fit rest ih =>
    unfold filterLoop
    cases acc with
    | nil =>
      rw [ih [fit] (by simpa [Nat.add_comm] using h)]
      rfl
    | cons low t =>
      simp only [List.length_cons] at h
      have hlen : ¬ (low :: t).length ≥ first := by simp only [List.length_cons]; omega
      have hclose : tooClose rmsd cutoff (low :: t) fit = false := by
        unfold tooClose
        rw [List.any_eq_false]
        intro a _
        simpa using hr a fit
      simp only [hlen, ↓reduceIte, outsideWindow, hclose, Bool.false_eq_true]
      rw [ih _ (by simp only [List.length_append, List.length_cons, List.length_nil]; omega)]
      simp

/-- with `first` at least the pool size, no window and no pair under the cutoff, the whole pool is
returned, in energy order -/
theorem all_returned (n : Nat) (hfirst : n ≤ first) (hr : ∀ a b, ¬ rmsd a b < cutoff) :
    (filterConformers n E rmsd first cutoff none).accepted = argsortE E n := by
  unfold filterConformers
  simp only
  rw [filterLoop_all E rmsd first cutoff hr (argsortE E n) []]
  · rfl
  · rw [(argsortE_perm E n).length_eq]
    simpa using hfirst

example : (filterConformers 3 (fun i => if i = 0 then 5 else if i = 1 then 2 else 3)
    (fun _ _ => 1) 3 (1/2) none).accepted = [1, 2, 0] := by decide +kernel

/-! ## the energy window -/

/-- loop invariant: every accepted conformer other than the lowest lies inside the window -/
theorem filterLoop_window (w : Rat) (pool acc : List Nat) (low : Nat)
    (hlow : (acc ++ pool).head? = some low)
    (h : ∀ i ∈ acc, i = low ∨ E i ≤ E low + w) :
    ∀ i ∈ filterLoop E rmsd first cutoff (some w) pool acc, i = low ∨ E i ≤ E low + w := by
  induction pool generalizing acc with
  | nil => simpa [filterLoop] using h
  | cons fit rest ih =>
    unfold filterLoop
    cases acc with
    | nil =>
      simp only [List.nil_append, List.head?_cons, Option.some.injEq] at hlow
      subst hlow
      exact ih [fit] (by simp) (by simp)
    | cons l t =>
      simp only [List.cons_append, List.head?_cons, Option.some.injEq] at hlow
      subst hlow
      simp only
      split
      · exact ih _ (by simp) h
      · split
        · exact ih _ (by simp) h
        · split
          · exact ih _ (by simp) h
          · rename_i hw _
            apply ih _ (by simp)
            intro i hi
            rcases List.mem_append.mp hi with hi | hi
            · exact h i hi
            · simp only [List.mem_singleton] at hi
              subst hi
              right
              simpa [outsideWindow] using hw

/-- with an energy window `w`, every returned conformer other than the lowest-energy one is within
`w` of the lowest-energy one (no sign condition on `w`) -/
theorem within_window_tail (n : Nat) (w : Rat) (low : Nat)
    (hlow : (filterConformers n E rmsd first cutoff (some w)).accepted.head? = some low) :
    ∀ i ∈ (filterConformers n E rmsd first cutoff (some w)).accepted, i = low ∨ E i ≤ E low + w := by
  rw [accepted_head] at hlow
  unfold filterConformers
  exact filterLoop_window E rmsd first cutoff w (argsortE E n) [] low (by simpa using hlow) (by simp)

/-- with a non-negative energy window, every returned conformer is within the window of the first
(lowest-energy) returned conformer -/
theorem within_window (n : Nat) (w : Rat) (hw : 0 ≤ w) (low : Nat)
    (hwin : window = some w)
    (hlow : (filterConformers n E rmsd first cutoff window).accepted.head? = some low) :
    ∀ i ∈ (filterConformers n E rmsd first cutoff window).accepted, E i ≤ E low + w := by
  subst hwin
  intro i hi
  rcases within_window_tail E rmsd first cutoff n w low hlow i hi with rfl | h
  · grind
  · exact h

/-- non-vacuity: a window of 1/2 rejects the conformer 2 above the lowest -/
example : (filterConformers 3 (fun i => if i = 0 then 5 else if i = 1 then 2 else 5/2)
    (fun _ _ => 1) 3 (1/2) (some (1/2))).accepted = [1, 2] := by decide +kernel

/-- the sign condition is necessary: the model always returns the lowest-energy conformer, which a
negative window does not contain (the generator maps negative `max_energy_diff` to no window) -/
example : ¬ (∀ i ∈ (filterConformers 1 (fun _ => 0) (fun _ _ => 1) 1 0 (some (-1))).accepted,
    (fun _ => (0 : Rat)) i ≤ (fun _ => (0 : Rat)) 0 + (-1)) := by decide +kernel

/-! ## the automatic target and the generator object (reuse across molecules) -/

/-- the function translated from the source (`Gen.genNumConf`, regenerated on every check) is the documented one -/
theorem genNumConf_spec (r : Nat) : Gen.genNumConf r = autoNumConf r := by
  unfold Gen.genNumConf autoNumConf
  by_cases h1 : r < 8
  · simp [h1]
  · by_cases h2 : r ≤ 12
    · have : r ≥ 8 := by omega
      simp [h1, h2, this]
    · have : r > 12 := by omega
      have h3 : ¬ (r ≤ 12) := h2
      simp [h1, h2, this]

theorem genNumConf_values (r : Nat) : Gen.genNumConf r = 50 ∨ Gen.genNumConf r = 200 ∨ Gen.genNumConf r = 300 := by
  rw [genNumConf_spec]; unfold autoNumConf
  by_cases h1 : r < 8
  · simp [h1]
  · by_cases h2 : r ≤ 12 <;> simp [h1, h2]

theorem genNumConf_pos (r : Nat) : 0 < Gen.genNumConf r := by
  rcases genNumConf_values r with h | h | h <;> omega

theorem genNumConf_mono {r s : Nat} (h : r ≤ s) : Gen.genNumConf r ≤ Gen.genNumConf s := by
  rw [genNumConf_spec, genNumConf_spec]; unfold autoNumConf
  split <;> split <;> (try split) <;> (try split) <;> omega

/-- a call never changes the generator's options -/
theorem generate_options (g : CGen) (rot : Nat) :
    (g.generate rot).1.numConf = g.numConf ∧ (g.generate rot).1.first = g.first ∧ (g.generate rot).1.pool = g.pool := by
  simp [CGen.generate, CGen.embed]

/-- what a call uses depends on the options and the molecule, not on the state left by earlier molecules -/
theorem generate_state_free (g : CGen) (mx fc : Int) (rot : Nat) :
    ({ g with maxConformers := mx, firstConformers := fc } : CGen).generate rot = g.generate rot := by
  simp [CGen.generate, CGen.embed]

/-- a generator in any reachable state answers a molecule exactly as a fresh generator with the same options does -/
theorem generate_eq_fresh (g : CGen) (rot : Nat) :
    (g.generate rot).2 = ((CGen.new g.numConf g.first g.pool).generate rot).2 := by
  cases g; rfl

/-- over a whole history: the k-th molecule gets the answer of a fresh generator, whatever came before -/
theorem runMols_eq_fresh (g : CGen) (rots : List Nat) :
    (g.runMols rots).2 = rots.map (fun r => ((CGen.new g.numConf g.first g.pool).generate r).2) := by
  induction rots generalizing g with
  | nil => rfl
  | cons r rs ih =>
    have ho := generate_options g r
    simp only [CGen.runMols, List.map_cons]
    rw [ih (g.generate r).1, ho.1, ho.2.1, ho.2.2, ← generate_eq_fresh g r]

/-- the reported target and the `first` the filter uses are the resolved ones -/
theorem generate_targets (g : CGen) (rot : Nat) :
    (g.generate rot).2.2.1 = (if g.numConf = -1 then ((Gen.genNumConf rot : Nat) : Int) else g.numConf) ∧
    (g.generate rot).2.2.2 = (if g.first = -1 then (g.generate rot).2.2.1 else g.first) ∧
    (g.generate rot).2.1 = (g.generate rot).2.2.1 * g.pool := by
  simp [CGen.generate, CGen.embed]

/-- with automatic targets, molecules of different rotatable-bond classes get their own targets from one object
(the history that exposed the defect repaired by 8c7f593) -/
example : ((CGen.new (-1) (-1) 1).runMols [11, 2]).2 = [(200, 200, 200), (50, 50, 50)] := by decide

end E3fpVerif.Props.C13
