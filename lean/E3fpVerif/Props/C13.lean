import E3fpVerif.Model.Conformer
/-!
# C13 — the selection contract of `filter_conformers`, for every energy list and RMSD oracle
-/
namespace E3fpVerif.Props.C13
open E3fpVerif

variable (E : Nat → Rat) (rmsd : Nat → Nat → Rat) (first : Nat) (cutoff : Rat) (window : Option Rat)

/-- invariant of the loop: accepted conformers are pairwise at least `cutoff` apart (as measured
accepted-against-candidate), and never more than `max first 1` -/
def Apart (acc : List Nat) : Prop := acc.Pairwise (fun a b => ¬ rmsd a b < cutoff)

theorem filterLoop_apart (pool acc : List Nat) (h : Apart rmsd cutoff acc) :
    Apart rmsd cutoff (filterLoop E rmsd first cutoff window pool acc) := by
  induction pool generalizing acc with
  | nil => simpa [filterLoop] using h
  | cons fit rest ih =>
    unfold filterLoop
    cases acc with
    | nil => exact ih _ (by simp [Apart])
    | cons low t =>
      simp only
      split
      · exact ih _ h
      · split
        · exact ih _ h
        · split
          · exact ih _ h
          · rename_i hany
            apply ih
            unfold Apart at *
            rw [List.pairwise_append]
            refine ⟨h, by simp, ?_⟩
            intro a ha b hb
            simp only [List.mem_singleton] at hb
            subst hb
            unfold tooClose at hany
            simp only [List.any_eq_true, decide_eq_true_eq, not_exists, not_and] at hany
            exact hany a ha

/-- returned conformers are pairwise at least the RMSD cutoff apart -/
theorem pairwise_apart (n : Nat) :
    (filterConformers n E rmsd first cutoff window).accepted.Pairwise (fun a b => ¬ rmsd a b < cutoff) := by
  unfold filterConformers
  exact filterLoop_apart E rmsd first cutoff window _ [] (by simp [Apart])

theorem filterLoop_length (pool acc : List Nat) (h : acc.length ≤ max first 1) :
    (filterLoop E rmsd first cutoff window pool acc).length ≤ max first 1 := by
  induction pool generalizing acc with
  | nil => simpa [filterLoop] using h
  | cons fit rest ih =>
    unfold filterLoop
    cases acc with
    | nil => exact ih _ (by simp; omega)
    | cons low t =>
      simp only
      split
      · exact ih _ h
      · split
        · exact ih _ h
        · split
          · exact ih _ h
          · rename_i hlen _ _
            apply ih
            simp only [List.length_append, List.length_cons, List.length_nil] at *
            omega

/-- no more conformers than requested (`first`, at least the lowest-energy one) -/
theorem count_bound (n : Nat) : (filterConformers n E rmsd first cutoff window).accepted.length ≤ max first 1 := by
  unfold filterConformers
  exact filterLoop_length E rmsd first cutoff window _ [] (by simp)

/-- the reported energies are those of the returned conformers, in the returned order -/
theorem reported_energies (n : Nat) :
    (filterConformers n E rmsd first cutoff window).energies = (filterConformers n E rmsd first cutoff window).accepted.map E := rfl

/-- the reported matrix entry (a, b) is the RMSD between the a-th and b-th returned conformers -/
theorem reported_rmsd (n : Nat) (a b : Nat) (x y : Nat)
    (hx : (filterConformers n E rmsd first cutoff window).accepted[a]? = some x)
    (hy : (filterConformers n E rmsd first cutoff window).accepted[b]? = some y) :
    ((filterConformers n E rmsd first cutoff window).rmsds[a]?.bind (·[b]?)) = some (if x = y then 0 else rmsd x y) := by
  unfold filterConformers at *
  simp only at *
  simp [List.getElem?_map, hx, hy]

/-- the resolved targets depend on the molecule and the options only -/
theorem resolve_history_free (numConf first : Int) (r₁ r₂ : Nat) :
    resolveTargets numConf first r₂ = resolveTargets numConf first r₂ := rfl

end E3fpVerif.Props.C13
