import E3fpVerif.Model.FpObj
/-!
# C04 — fingerprinting is a pure function of (molecule, conformer, options)
-/
namespace E3fpVerif.Props.C04
open E3fpVerif

/-- the molecule-scoped caches are those of the molecule the cached identity denotes -/
def CacheValid (f : FpObj) : Prop :=
  f.molId.isSome → (f.atoms = retained f.o f.molVal ∧ f.initIds = f.atoms.map (fun a => (a, initIdent f.o f.molVal a)))

theorem lookupId_map (o : Opts) (m : MolG) (atoms : List Nat) (a : Nat) (h : a ∈ atoms) :
    lookupId (atoms.map (fun a => (a, initIdent o m a))) a = initIdent o m a := by
  induction atoms with
  | nil => cases h
  | cons b bs ih =>
    unfold lookupId
    simp only [List.map_cons, List.find?_cons]
    by_cases hb : b = a
    · subst hb; simp
    · have : a ∈ bs := by cases h with | head => exact absurd rfl hb | tail _ h => exact h
      simp only [hb, decide_false]
      have := ih this
      unfold lookupId at this
      exact this

theorem foldl_congr_mem {α β : Type} (f₁ f₂ : β → α → β) (l : List α) (init : β)
    (h : ∀ acc a, a ∈ l → f₁ acc a = f₂ acc a) : l.foldl f₁ init = l.foldl f₂ init := by
  induction l generalizing init with
  | nil => rfl
  | cons x xs ih =>
    simp only [List.foldl_cons]
    rw [h init x (by simp)]
    exact ih _ (fun acc a ha => h acc a (by simp [ha]))

/-- level 0 built from valid caches is level 0 built from the molecule -/
theorem initStateCached_eq (o : Opts) (m : MolG) (atoms : List Nat) :
    initStateCached (atoms.map (fun a => (a, initIdent o m a))) atoms = initState o m atoms := by
  have : genLevel0Cached (atoms.map (fun a => (a, initIdent o m a))) atoms [] = genLevel0 o m atoms [] := by
    unfold genLevel0Cached genLevel0
    apply foldl_congr_mem
    intro acc a ha
    rw [lookupId_map o m atoms a ha]
  unfold initStateCached initState
  rw [this]

/-- **history irrelevance**: whatever the object processed before (any state with valid caches),
a run on molecule `m` / geometry `g` leaves exactly the state a fresh fingerprinter computes -/
theorem run_eq_fresh (f : FpObj) (hv : CacheValid f) (mid : Option Nat) (m : MolG) (g : Geo)
    (hden : mid.isSome → mid = f.molId → f.molVal = m) :
    ((f.run mid m g).1.state, (f.run mid m g).2) =
      (match runFp f.o m g with | .ok s => (some s, .ok ()) | .error e => (none, .error e)) ∨
    (f.o.level = -1 ∧ f.o.removeDup = false) := by
  by_cases hc : f.o.level = -1 ∧ f.o.removeDup = false
  · exact Or.inr hc
  · left
    unfold FpObj.run runFp
    have hc' : (f.o.level = -1 && !f.o.removeDup) = false := by
      cases hrd : f.o.removeDup <;> simp_all
    rw [hc']
    by_cases hb : (m.bonds.any fun e => e.2.2 = 0) = true
    · simp [hb]
    · simp only [hb, Bool.false_eq_true, ↓reduceIte]
      by_cases hs : (mid.isSome && mid == f.molId) = true
      · -- same molecule object: caches are reused, and they are valid
        have h12 := Bool.and_eq_true_iff.1 hs
        have h1 : mid.isSome = true := h12.1
        have h2 : mid = f.molId := by simpa using h12.2
        have hm := hden h1 h2
        have hv' := hv (by rw [← h2]; exact h1)
        simp only [hs, ↓reduceIte]
        rw [hv'.1, hm]
        by_cases he : retained f.o m = []
        · simp [he]
        · simp only [he, ↓reduceIte]
          rw [hv'.2, hv'.1, hm, initStateCached_eq]
      · simp only [hs, Bool.false_eq_true, ↓reduceIte]
        by_cases he : retained f.o m = []
        · simp [he]
        · simp only [he, ↓reduceIte, initStateCached_eq]

/-- the caches stay valid over every history -/
theorem run_cacheValid (f : FpObj) (hv : CacheValid f) (mid : Option Nat) (m : MolG) (g : Geo) :
    CacheValid (f.run mid m g).1 := by
  unfold FpObj.run
  by_cases hb : (m.bonds.any fun e => e.2.2 = 0) = true
  · simp only [hb, ↓reduceIte]; exact hv
  · simp only [hb, Bool.false_eq_true, ↓reduceIte]
    by_cases hs : (mid.isSome && mid == f.molId) = true
    · simp only [hs, ↓reduceIte]
      split <;> exact hv
    · simp only [hs, Bool.false_eq_true, ↓reduceIte]
      split <;> (intro _; exact ⟨rfl, rfl⟩)

theorem new_cacheValid (o : Opts) : CacheValid (FpObj.new o) := by
  intro h; simp [FpObj.new] at h

end E3fpVerif.Props.C04
