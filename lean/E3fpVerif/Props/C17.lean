import E3fpVerif.Model.Db
import E3fpVerif.Lemmas.Uniq
import E3fpVerif.Lemmas.FpAux
namespace E3fpVerif.Props.C17
open E3fpVerif

/-- converting to the bit kind keeps exactly the indexed positions -/
theorem to_bit_support (f g : Fp) (h : fromFingerprint .bit f = .ok g) : g.idx = uniq f.idx ∧ g.kind = .bit := by
  unfold fromFingerprint mkBit at h
  simp only at h
  split at h
  · cases h
  · cases h; exact ⟨rfl, rfl⟩

/-! ## a count fingerprint built from an index list counts multiplicities -/

/-- `CountFingerprint(indices=ids)` : support = distinct ids, count = multiplicity -/
theorem count_of_ids (ids : List Nat) (bits : Nat) (lvl : Int) (g : Fp)
    (h : mkCount .count (some ids) none bits lvl = .ok g) :
    g.idx = uniq ids ∧ g.kind = .count ∧ ∀ j, g.count j = ((ids.count j : Nat) : Rat) := by
  unfold mkCount at h
  simp only at h
  split at h
  · cases h
  · cases h
    refine ⟨rfl, rfl, ?_⟩
    intro j
    refine (Fp.count_of_ne_bit _ (by simp) j).trans ?_
    simp only
    by_cases hj : j ∈ uniq ids
    · rw [lookupQ_map_of_mem (fun i => coerce .count ((ids.count i : Nat) : Rat)) _ j hj]
      exact coerce_natCast .count _
    · rw [lookupQ_map_of_not_mem (fun i => coerce .count ((ids.count i : Nat) : Rat)) _ j hj]
      rw [mem_uniq] at hj
      rw [List.count_eq_zero_of_not_mem hj]; simp

/-- the same holds for the float class -/
theorem float_of_ids (ids : List Nat) (bits : Nat) (lvl : Int) (g : Fp)
    (h : mkCount .float (some ids) none bits lvl = .ok g) :
    g.idx = uniq ids ∧ g.kind = .float ∧ ∀ j, g.count j = ((ids.count j : Nat) : Rat) := by
  unfold mkCount at h
  simp only at h
  split at h
  · cases h
  · cases h
    refine ⟨rfl, rfl, ?_⟩
    intro j
    refine (Fp.count_of_ne_bit _ (by simp) j).trans ?_
    simp only
    by_cases hj : j ∈ uniq ids
    · rw [lookupQ_map_of_mem (fun i => coerce .float ((ids.count i : Nat) : Rat)) _ j hj]
      rfl
    · rw [lookupQ_map_of_not_mem (fun i => coerce .float ((ids.count i : Nat) : Rat)) _ j hj]
      rw [mem_uniq] at hj
      rw [List.count_eq_zero_of_not_mem hj]; simp

/-- the bit and count fingerprints of one index list have the same support, and the bit view is the
indicator of a positive count -/
theorem bit_count_same_support (ids : List Nat) (bits : Nat) (lvl : Int) (g b : Fp)
    (hg : mkCount .count (some ids) none bits lvl = .ok g) (hb : mkBit ids bits lvl = .ok b) :
    b.idx = g.idx ∧ ∀ j, b.count j = if 0 < g.count j then 1 else 0 := by
  obtain ⟨hgi, _, hgc⟩ := count_of_ids ids bits lvl g hg
  unfold mkBit at hb
  split at hb
  · cases hb
  · cases hb
    refine ⟨hgi.symm, ?_⟩
    intro j
    rw [hgc j, Fp.count_of_bit _ rfl]
    simp only [mem_uniq]
    by_cases hj : j ∈ ids
    · have : 0 < ids.count j := List.count_pos_iff.2 hj
      have h2 : (0 : Rat) < ((ids.count j : Nat) : Rat) := by exact_mod_cast this
      rw [if_pos hj, if_pos h2]
    · rw [if_neg hj, List.count_eq_zero_of_not_mem hj]; simp

/-- both constructors accept or reject the same index lists -/
theorem bit_count_same_domain (ids : List Nat) (bits : Nat) (lvl : Int) :
    (∃ b, mkBit ids bits lvl = .ok b) ↔ (∃ g, mkCount .count (some ids) none bits lvl = .ok g) := by
  unfold mkBit mkCount
  simp only
  split
  · simp
  · exact ⟨fun _ => ⟨_, rfl⟩, fun _ => ⟨_, rfl⟩⟩

example : mkCount .count (some [3, 1, 3]) none 8 0 = .ok ⟨.count, 8, 0, [1, 3], [(1, 1), (3, 2)]⟩ := by
  have e1 : coerce .count 1 = 1 := coerce_natCast .count 1
  have e2 : coerce .count 2 = 2 := coerce_natCast .count 2
  rw [mkCount_some_none_eq _ _ _ _ (by decide)]
  simp [uniq, insertU, e1, e2]
example : mkBit [3, 1, 3] 8 0 = .ok ⟨.bit, 8, 0, [1, 3], []⟩ := rfl
example : ∃ g, mkCount .count (some [3, 1, 3]) none 8 0 = .ok g ∧ g.count 3 = 2 := by
  refine ⟨_, mkCount_some_none_eq .count [3, 1, 3] 8 0 (by decide), ?_⟩
  have := (count_of_ids [3, 1, 3] 8 0 _ (mkCount_some_none_eq .count [3, 1, 3] 8 0 (by decide))).2.2 3
  rw [this]; simp

/-! ## conversions between the classes -/

/-- conversion of a well-formed fingerprint with positive counts always succeeds -/
theorem convert_ok (k : Kind) (f : Fp) (hwf : f.WF) (hpos : ∀ p ∈ f.cnt, 0 < p.2) :
    ∃ g, fromFingerprint k f = .ok g := by
  by_cases hk : k = .bit
  · subst hk
    exact ⟨_, mkBit_eq f.idx f.bits f.level hwf.2.1⟩
  · exact ⟨_, fromFingerprint_eq k hk f hwf hpos⟩

/-- conversion to any class keeps the support, the length and the level, and lands in the target class -/
theorem convert_support (k : Kind) (f g : Fp) (hwf : f.WF) (hpos : ∀ p ∈ f.cnt, 0 < p.2)
    (h : fromFingerprint k f = .ok g) :
    g.idx = f.idx ∧ g.kind = k ∧ g.bits = f.bits ∧ g.level = f.level ∧ g.WF := by
  by_cases hk : k = .bit
  · subst hk
    have : fromFingerprint .bit f = mkBit f.idx f.bits f.level := rfl
    rw [this, mkBit_eq f.idx f.bits f.level hwf.2.1, uniq_of_strictAsc _ hwf.1] at h
    cases h
    exact ⟨rfl, rfl, rfl, rfl, hwf.1, hwf.2.1, fun _ => rfl, fun e => absurd rfl e⟩
  · rw [fromFingerprint_eq k hk f hwf hpos] at h
    cases h
    refine ⟨rfl, rfl, rfl, rfl, hwf.1, hwf.2.1, fun e => absurd e hk, fun _ => ?_⟩
    simp [List.map_map, Function.comp_def]

/-- conversion into a count or float class stores the source's `get_count` value through the target's
value setter, at every position -/
theorem convert_values (k : Kind) (hk : k ≠ .bit) (f g : Fp) (hwf : f.WF) (hpos : ∀ p ∈ f.cnt, 0 < p.2)
    (h : fromFingerprint k f = .ok g) (i : Nat) : g.count i = coerce k (f.count i) := by
  rw [fromFingerprint_eq k hk f hwf hpos] at h
  cases h
  refine (Fp.count_of_ne_bit _ hk i).trans ?_
  simp only
  by_cases hi : i ∈ f.idx
  · exact lookupQ_map_of_mem (fun i => coerce k (f.count i)) f.idx i hi
  · rw [lookupQ_map_of_not_mem (fun i => coerce k (f.count i)) f.idx i hi,
      Fp.count_of_not_mem f hwf i hi, coerce_zero]

/-- bit → count / float : every set bit becomes a count of 1, nothing else is stored -/
theorem bit_to_count_values (k : Kind) (hk : k ≠ .bit) (f g : Fp) (hfk : f.kind = .bit) (hwf : f.WF)
    (h : fromFingerprint k f = .ok g) (i : Nat) :
    g.idx = f.idx ∧ g.count i = (if i ∈ f.idx then 1 else 0) ∧ g.count i = f.count i := by
  have hpos : ∀ p ∈ f.cnt, 0 < p.2 := by intro p hp; rw [hwf.2.2.1 hfk] at hp; cases hp
  have hv := convert_values k hk f g hwf hpos h i
  have hc := Fp.count_of_bit f hfk i
  refine ⟨(convert_support k f g hwf hpos h).1, ?_, ?_⟩
  · rw [hv, hc]; split
    · exact coerce_one k
    · exact coerce_zero k
  · rw [hv, hc]; split
    · exact coerce_one k
    · exact coerce_zero k

/-- count → float (indeed anything → float) keeps every count -/
theorem to_float_values (f g : Fp) (hwf : f.WF) (hpos : ∀ p ∈ f.cnt, 0 < p.2)
    (h : fromFingerprint .float f = .ok g) (i : Nat) : g.idx = f.idx ∧ g.count i = f.count i :=
  ⟨(convert_support .float f g hwf hpos h).1, convert_values .float (by simp) f g hwf hpos h i⟩

/-- float → count truncates every value toward zero (`int(v)`); the support is kept even where the
truncated value is 0 -/
theorem to_count_values (f g : Fp) (hwf : f.WF) (hpos : ∀ p ∈ f.cnt, 0 < p.2)
    (h : fromFingerprint .count f = .ok g) (i : Nat) : g.idx = f.idx ∧ g.count i = truncQ (f.count i) :=
  ⟨(convert_support .count f g hwf hpos h).1, convert_values .count (by simp) f g hwf hpos h i⟩

/-- anything → bit : the bit view is the indicator of the support -/
theorem to_bit_values (f g : Fp) (hwf : f.WF) (hpos : ∀ p ∈ f.cnt, 0 < p.2)
    (h : fromFingerprint .bit f = .ok g) (i : Nat) :
    g.idx = f.idx ∧ g.count i = (if i ∈ f.idx then 1 else 0) := by
  obtain ⟨hi, hk, _⟩ := convert_support .bit f g hwf hpos h
  exact ⟨hi, by rw [Fp.count_of_bit g hk, hi]⟩

/-- bit → count → bit is the identity -/
theorem bit_count_bit (k : Kind) (hk : k ≠ .bit) (f g : Fp) (hfk : f.kind = .bit) (hwf : f.WF)
    (h : fromFingerprint k f = .ok g) : fromFingerprint .bit g = .ok f := by
  have hpos : ∀ p ∈ f.cnt, 0 < p.2 := by intro p hp; rw [hwf.2.2.1 hfk] at hp; cases hp
  rw [fromFingerprint_eq k hk f hwf hpos] at h
  cases h
  exact mkBit_self f hfk hwf

def exB : Fp := ⟨.bit, 8, 5, [1, 3], []⟩
def exC : Fp := ⟨.count, 8, 5, [1, 3], [(1, 2), (3, 1)]⟩
theorem exB_wf : exB.WF := ⟨by decide, by decide, by simp [exB], by simp [exB]⟩
theorem exC_wf : exC.WF := ⟨by decide, by decide, by simp [exC], by simp [exC]⟩
theorem exC_pos : ∀ p ∈ exC.cnt, 0 < p.2 := by
  intro p hp; simp only [exC, List.mem_cons, List.not_mem_nil, or_false] at hp
  rcases hp with rfl | rfl <;> grind

example : ∃ g, fromFingerprint .float exC = .ok g ∧ g.idx = [1, 3] ∧ g.count 1 = exC.count 1 := by
  obtain ⟨g, hg⟩ := convert_ok .float exC exC_wf exC_pos
  exact ⟨g, hg, (to_float_values exC g exC_wf exC_pos hg 1).1, (to_float_values exC g exC_wf exC_pos hg 1).2⟩

example : ∃ g, fromFingerprint .count exB = .ok g ∧ g.idx = [1, 3] ∧ g.count 3 = 1 := by
  obtain ⟨g, hg⟩ := convert_ok .count exB exB_wf (by simp [exB])
  have := bit_to_count_values .count (by simp) exB g rfl exB_wf hg 3
  exact ⟨g, hg, this.1, by rw [this.2.1]; simp [exB]⟩

example : ∃ g, fromFingerprint .bit exC = .ok g ∧ g.idx = [1, 3] := by
  obtain ⟨g, hg⟩ := convert_ok .bit exC exC_wf exC_pos
  exact ⟨g, hg, (convert_support .bit exC g exC_wf exC_pos hg).1⟩

end E3fpVerif.Props.C17
