import E3fpVerif.Model.Db
import E3fpVerif.Lemmas.Uniq
namespace E3fpVerif.Props.C17
open E3fpVerif

/-- converting to the bit kind keeps exactly the indexed positions -/
theorem to_bit_support (f g : Fp) (h : fromFingerprint .bit f = .ok g) : g.idx = uniq f.idx ∧ g.kind = .bit := by
  unfold fromFingerprint mkBit at h
  simp only at h
  split at h
  · cases h
  · cases h; exact ⟨rfl, rfl⟩

end E3fpVerif.Props.C17
