import E3fpVerif.Props.C07
import E3fpVerif.Model.Fprinter
import E3fpVerif.Lemmas.DbCast
import E3fpVerif.Lemmas.FpAux
/-!
# C07 — the fingerprinter route: asking for `b` bits is folding the 2^32-bit fingerprint to `b`

`fingerprintAt` (model of `Fingerprinter.get_fingerprint_at_level(level, bits, atom_mask)`) builds the fingerprint of the
unsigned identifiers at length `Gen.BITS` and folds it to the requested length (`bits`, default: the constructor's).  For every
state, level, mask and option set: the `b`-bit answer is the fold of the 2^32-bit answer - for bit and for count fingerprints
(whose counts are multiplicities, hence whole numbers) - whatever length the fingerprinter was *constructed* with.
-/
namespace E3fpVerif.Props.C07Route
open E3fpVerif E3fpVerif.Props.C07

theorem fromIndices_bits (k : Kind) (ids : List Nat) (bits : Nat) (level : Int) (f : Fp)
    (h : fromIndices k ids none bits level = .ok f) : f.bits = bits ∧ f.kind = k := by
  unfold fromIndices at h
  cases k with
  | bit => simp only [mkBit] at h; split at h <;> cases h; exact ⟨rfl, rfl⟩
  | count => simp only [mkCount] at h; split at h <;> cases h; exact ⟨rfl, rfl⟩
  | float => simp only [mkCount] at h; split at h <;> cases h; exact ⟨rfl, rfl⟩

/-- the counts of a count fingerprint built from an index list are multiplicities: whole numbers -/
theorem fromIndices_count_int (ids : List Nat) (bits : Nat) (level : Int) (f : Fp)
    (h : fromIndices .count ids none bits level = .ok f) : ∀ i ∈ f.idx, truncQ (f.count i) = f.count i := by
  unfold fromIndices at h
  simp only [mkCount] at h
  split at h
  · cases h
  · cases h
    intro i hi
    simp only [Fp.count]
    rw [lookupQ_map_of_mem _ _ _ hi]
    simp only [coerce]
    exact truncQ_idem _

/-- **the fingerprinter route**: the fingerprint requested at `b` bits is the 2^32-bit fingerprint folded to `b` -/
theorem fprinter_route (o : Opts) (s : FState) (req : Option Int) (b : Nat) (mask : List Nat) (f32 g : Fp)
    (h32 : fingerprintAt o s req (some Gen.BITS) mask = .ok f32)
    (hb : fingerprintAt o s req (some b) mask = .ok g) : f32.fold b 0 = .ok g := by
  unfold fingerprintAt at h32 hb
  simp only [Option.getD_some, bind, Except.bind] at h32 hb
  split at h32
  · cases h32
  · rename_i f hf
    rw [hf] at hb
    simp only at h32 hb
    obtain ⟨hbits, hkind⟩ := fromIndices_bits _ _ _ _ f hf
    obtain ⟨hb1, hb2, hb3, hb4, _⟩ := fold_spec f g b 0 .sum hb
    obtain ⟨_, _, _, _, _, h32bits, _⟩ := fold_spec f f32 Gen.BITS 0 .sum h32
    have hex : ∃ g₂, f32.fold b 0 = .ok g₂ := by
      rw [fold_rejects f32 b 0 .sum hb2, h32bits, ← hbits]
      exact ⟨hb1, hb3, hb4⟩
    obtain ⟨g₂, hg₂⟩ := hex
    rw [hg₂]
    congr 1
    by_cases hc : o.counts = true
    · have hk : f.kind = .count := by rw [hkind, hc]; rfl
      have hf' : fromIndices .count ((shellsAt s req mask).map (fun x => (Gen.signedToUnsigned x.ident (Gen.BITS : Nat)).toNat)) none Gen.BITS (req.getD (-1)) = .ok f := by
        rw [← hf, hc]; rfl
      exact fold_fold_eq_count f f32 g₂ g Gen.BITS b 0 hk (fromIndices_count_int _ _ _ f hf') h32 hg₂ hb
    · have hk : f.kind = .bit := by
        rw [hkind]; simp only [Bool.not_eq_true] at hc; rw [hc]; rfl
      exact fold_fold_bit f f32 g₂ g Gen.BITS b 0 .sum .sum .sum hk h32 hg₂ hb

/-- in particular the answer does not depend on the length the fingerprinter was constructed with -/
theorem fprinter_route_ctor_free (o o' : Opts) (s : FState) (req : Option Int) (b : Nat) (mask : List Nat)
    (hc : o.counts = o'.counts) : fingerprintAt o s req (some b) mask = fingerprintAt o' s req (some b) mask := by
  unfold fingerprintAt
  simp only [Option.getD_some, hc]

end E3fpVerif.Props.C07Route
