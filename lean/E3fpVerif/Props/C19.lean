import E3fpVerif.Model.SdfIO
import E3fpVerif.Gen.SdfIO
namespace E3fpVerif.Props.C19
open E3fpVerif

/-- reading back what was written gives the first `min wlim rlim` conformers, in order -/
theorem confs_rt (n : Nat) (es : Option (List Rat)) (w r : Nat) :
    (readRecords (writeRecords n es (some (w : Int))) (some r)).1 = List.range (min (min n w) r) := by
  unfold readRecords writeRecords
  have hw : ¬ ((w : Int) = -1) := by omega
  simp only [hw, ↓reduceIte, Int.toNat_natCast, List.map_take, List.map_map]
  have hid : ∀ (l : List Nat), List.map (Prod.fst ∘ fun i => (i, es.bind fun es => Option.map round4 es[i]?)) l = l := by
    intro l; induction l with
    | nil => rfl
    | cons a t ih => simp only [List.map_cons, Function.comp_apply, ih]
  rw [hid, List.take_range]
  congr 1; omega

end E3fpVerif.Props.C19
