import E3fpVerif.Model.SdfIO
import E3fpVerif.Gen.SdfIO
namespace E3fpVerif.Props.C19
open E3fpVerif

/-- reading back what was written gives the first `min wlim rlim` conformers, in order -/
theorem confs_rt (n : Nat) (es : Option (List Rat)) (w r : Nat) :
    (readRecords (writeRecords n es (some (w : Int))) (some r)).1 = List.range (min (min n w) r) := by
  unfold readRecords writeRecords
  have hw : ¬ ((w : Int) = -1) := by omega
  simp only [hw, ↓reduceIte, Int.toNat_natCast, List.map_take, List.map_map]
  have hid : ∀ (l : List Nat), List.map (Prod.fst ∘ fun i => (i, es.bind fun es => Option.map round4 es[i]?)) l = l := by
    intro l; induction l with
    | nil => rfl
    | cons a t ih => simp only [List.map_cons, Function.comp_apply, ih]
  rw [hid, List.take_range]
  congr 1; omega

/-! ## rounding to four decimals -/

/-- a multiple of 1e-4 is its own rounding -/
theorem round4_of_int (k : Int) : round4 ((k : Rat) / 10000) = (k : Rat) / 10000 := by
  have hs : (k : Rat) / 10000 * 10000 = (k : Rat) := by grind
  unfold round4
  simp only [hs, Rat.floor_intCast, Rat.sub_self]
  rw [if_pos (by decide +kernel)]

/-- every rounded value is a multiple of 1e-4 -/
theorem round4_is_multiple (q : Rat) : ∃ k : Int, round4 q = (k : Rat) / 10000 := by
  unfold round4
  exact ⟨_, rfl⟩

/-- writing an energy that was read back writes the same text: rounding is idempotent -/
theorem round4_idem (q : Rat) : round4 (round4 q) = round4 q := by
  obtain ⟨k, hk⟩ := round4_is_multiple q
  rw [hk, round4_of_int]

/-- the rounded energy is within half a unit in the fourth decimal of the energy -/
theorem round4_close (q : Rat) : q - round4 q ≤ 1 / 20000 ∧ round4 q - q ≤ 1 / 20000 := by
  have h1 := Rat.floor_le (q * 10000)
  have h2 := Rat.lt_floor_add_one (q * 10000)
  rw [Rat.intCast_add] at h2
  unfold round4
  simp only
  generalize (q * 10000).floor = f at *
  split
  · rename_i h
    constructor <;> grind
  · split
    · rename_i h h'
      rw [Rat.intCast_add]
      constructor <;> grind
    · rename_i h h'
      split
      · constructor <;> grind
      · rw [Rat.intCast_add]
        constructor <;> grind

example : round4 (12345 / 100000) = 617 / 5000 ∧ round4 (12355 / 100000) = 309 / 2500 := by decide +kernel

/-- stored energies are already rounded: storing twice changes nothing -/
theorem storeEnergies_idem (es : List Rat) : storeEnergies (storeEnergies es) = storeEnergies es := by
  unfold storeEnergies
  rw [List.map_map]
  apply List.map_congr_left
  intro a _
  exact round4_idem a

/-! ## energies through a write / read -/

theorem filterMap_range_getElem? (f : Rat → Rat) (es : List Rat) (n : Nat) :
    (List.range n).filterMap (fun i => (es[i]?).map f) = (es.take n).map f := by
  induction n with
  | zero => simp
  | succ n ih =>
    rw [List.range_succ, List.filterMap_append, ih, List.take_add_one, List.map_append]
    congr 1
    cases h : es[n]? <;> simp [h]

/-- number of records a write limit leaves -/
def wcount (n : Nat) (wlim : Option Int) : Nat :=
  match wlim with
  | none => n
  | some l => if l = -1 then n else min n l.toNat

/-- the energies read back are the rounded energies of the conformers that were written and read,
in conformer order, for every combination of limits -/
theorem energies_rt_limits (n : Nat) (es : List Rat) (wlim : Option Int) (rlim : Option Nat) :
    (readRecords (writeRecords n (some es) wlim) rlim).2 =
      (es.take (match rlim with | none => wcount n wlim | some r => min r (wcount n wlim))).map round4 := by
  unfold readRecords writeRecords
  simp only [Option.bind_some]
  change (match rlim with
      | none => (List.range (wcount n wlim)).map _
      | some l => ((List.range (wcount n wlim)).map _).take l).filterMap Prod.snd = _
  cases rlim with
  | none =>
    simp only [List.filterMap_map]
    exact filterMap_range_getElem? round4 es _
  | some r =>
    simp only [← List.map_take, List.take_range, List.filterMap_map]
    exact filterMap_range_getElem? round4 es _

/-- without limits: the first `n` energies, rounded -/
theorem energies_rt (n : Nat) (es : List Rat) :
    (readRecords (writeRecords n (some es) none) none).2 = (es.take n).map round4 :=
  energies_rt_limits n es none none

/-- one energy per conformer: exactly the stored (rounded) energies come back -/
theorem energies_rt_full (es : List Rat) :
    (readRecords (writeRecords es.length (some es) none) none).2 = storeEnergies es := by
  rw [energies_rt, List.take_length]
  rfl

/-- ... and as many energies as conformers -/
theorem energies_rt_aligned (n : Nat) (es : List Rat) (h : n ≤ es.length) :
    (readRecords (writeRecords n (some es) none) none).2.length =
      (readRecords (writeRecords n (some es) none) none).1.length := by
  rw [energies_rt]
  unfold readRecords writeRecords
  simp
  omega

/-- without energies on the molecule none are read -/
theorem energies_none (n : Nat) (wlim : Option Int) (rlim : Option Nat) :
    (readRecords (writeRecords n none wlim) rlim).2 = [] := by
  unfold readRecords writeRecords
  cases rlim with
  | none => simp [List.filterMap_map]
  | some r => simp [← List.map_take, List.filterMap_map]

/-- a write limit of `-1` is no limit -/
theorem write_limit_neg_one (n : Nat) (es : Option (List Rat)) :
    writeRecords n es (some (-1)) = writeRecords n es none := by
  simp [writeRecords]

/-- conformers through a write / read without limits: all, in order -/
theorem confs_rt_nolimit (n : Nat) (es : Option (List Rat)) :
    (readRecords (writeRecords n es none) none).1 = List.range n := by
  unfold readRecords writeRecords
  simp only [List.map_map]
  induction List.range n with
  | nil => rfl
  | cons a t ih => simp only [List.map_cons, Function.comp_apply, ih]

example : (readRecords (writeRecords 2 (some [1/3, 2, 5]) none) none).2 = [3333/10000, 2] := by
  rw [energies_rt]; decide +kernel

end E3fpVerif.Props.C19
