import E3fpVerif.Model.Fprinter
namespace E3fpVerif.Props.C01
open E3fpVerif

/-- the fingerprint is a function of the geometric decisions only: two conformers on which every
shell-membership test and every stereo code agree have the same fingerprint at every level -/
theorem run_congr (o : Opts) (m : MolG) (g₁ g₂ : Geo) (hw : g₁.within = g₂.within) (hs : g₁.stereo = g₂.stereo) :
    runFp o m g₁ = runFp o m g₂ := by
  cases g₁; cases g₂; simp_all

end E3fpVerif.Props.C01
