import E3fpVerif.Model.Fprinter
import E3fpVerif.Lemmas.Rigid
/-!
# C01: the fingerprint of a conformer is invariant under rigid motion

`run_congr`: `runFp` depends on a `Geo` only through its two fields.  The remaining theorems are
about the real-number instance of `Scalar` (`Lemmas/RealScalar.lean`): moving every atom by the same
rotation and translation leaves both fields of `Geo.ofCoords` unchanged, hence the fingerprint at
every level; with stereo off the same holds for every isometry, reflections included.
-/
namespace E3fpVerif.Props.C01
open E3fpVerif E3fpVerif.Rigid

/-- the fingerprint is a function of the geometric decisions only: two conformers on which every
shell-membership test and every stereo code agree have the same fingerprint at every level -/
theorem run_congr (o : Opts) (m : MolG) (g₁ g₂ : Geo) (hw : g₁.within = g₂.within) (hs : g₁.stereo = g₂.stereo) :
    runFp o m g₁ = runFp o m g₂ := by
  cases g₁; cases g₂; simp_all

/-! ## the geometric decisions under an isometry -/

/-- shell membership is invariant under every isometry (any determinant) -/
theorem within_isometry_invariant {R : Mat3} (hR : Orth R) (t : V3 ℝ) (mult : ℝ) (X : Nat → V3 ℝ) :
    (Geo.ofCoords mult (fun a => move R t (X a))).within = (Geo.ofCoords mult X).within := by
  funext k a b
  simp only [Geo.ofCoords, dist_move hR]

/-- the stereo codes are invariant under every proper rigid motion -/
theorem stereo_rigid_invariant {R : Mat3} (hR : Orth R) (hdet : det R = 1) (t : V3 ℝ) (mult : ℝ)
    (X : Nat → V3 ℝ) :
    (Geo.ofCoords mult (fun a => move R t (X a))).stereo = (Geo.ofCoords mult X).stereo := by
  funext c tuples
  simp only [Geo.ofCoords, sub_move]
  have h : tuples.map (fun t => (t.1, t.2.1, rot R (V3.sub (X t.2.2) (X c))))
      = (tuples.map (fun t => (t.1, t.2.1, V3.sub (X t.2.2) (X c)))).map (nbrMap R) := by
    rw [List.map_map]; rfl
  rw [h, stereoIndicators_rot hR hdet]

/-- both geometric decisions of a conformer are unchanged by a rotation followed by a translation -/
theorem geo_rigid_invariant {R : Mat3} (hR : Orth R) (hdet : det R = 1) (t : V3 ℝ) (mult : ℝ)
    (X : Nat → V3 ℝ) :
    Geo.ofCoords mult (fun a => move R t (X a)) = Geo.ofCoords mult X := by
  have hw := within_isometry_invariant hR t mult X
  have hs := stereo_rigid_invariant hR hdet t mult X
  cases h₁ : Geo.ofCoords mult (fun a => move R t (X a))
  cases h₂ : Geo.ofCoords mult X
  rw [h₁, h₂] at hw hs
  simp_all

/-- C01: the fingerprinter's whole run (every level, every shell, every identifier) is the same for a
conformer and for its image under a rotation and a translation -/
theorem rigid_invariant {R : Mat3} (hR : Orth R) (hdet : det R = 1) (t : V3 ℝ) (mult : ℝ)
    (X : Nat → V3 ℝ) (o : Opts) (m : MolG) :
    runFp o m (Geo.ofCoords mult (fun a => move R t (X a))) = runFp o m (Geo.ofCoords mult X) := by
  rw [geo_rigid_invariant hR hdet t mult X]

/-! ## stereo off: only `within` matters -/

theorem atomTuples_stereo_off {o : Opts} (hs : o.stereo = false) (m : MolG) (g₁ g₂ : Geo)
    (prev : List GShell) (a : Nat) (nb : List Nat) :
    atomTuples o m g₁ prev a nb = atomTuples o m g₂ prev a nb := by
  simp [atomTuples, hs]

theorem shellIdent_stereo_off {o : Opts} (hs : o.stereo = false) (m : MolG) (g₁ g₂ : Geo)
    (prev : List GShell) (level a : Nat) (nb : List Nat) :
    shellIdent o m g₁ prev level a nb = shellIdent o m g₂ prev level a nb := by
  simp only [shellIdent, atomTuples_stereo_off hs m g₁ g₂]

theorem genLevel_stereo_off {o : Opts} (hs : o.stereo = false) (m : MolG) (g₁ g₂ : Geo)
    (hw : g₁.within = g₂.within) (atoms : List Nat) (prev : List GShell) (k : Nat) (t : Intern) :
    genLevel o m g₁ atoms prev k t = genLevel o m g₂ atoms prev k t := by
  simp only [genLevel, hw, shellIdent_stereo_off hs m g₁ g₂]

theorem stepState_stereo_off {o : Opts} (hs : o.stereo = false) (m : MolG) (g₁ g₂ : Geo)
    (hw : g₁.within = g₂.within) (atoms : List Nat) (s : FState) :
    stepState o m g₁ atoms s = stepState o m g₂ atoms s := by
  simp only [stepState, genLevel_stereo_off hs m g₁ g₂ hw]

theorem iterate_stereo_off {o : Opts} (hs : o.stereo = false) (m : MolG) (g₁ g₂ : Geo)
    (hw : g₁.within = g₂.within) (atoms : List Nat) (fuel : Nat) (s : FState) :
    iterate o m g₁ atoms fuel s = iterate o m g₂ atoms fuel s := by
  induction fuel generalizing s with
  | zero => rfl
  | succ n ih =>
    simp only [iterate, stepState_stereo_off hs m g₁ g₂ hw]
    split
    · rfl
    · exact ih _

/-- with stereo off the run never consults `g.stereo` -/
theorem runFp_stereo_off {o : Opts} (hs : o.stereo = false) (m : MolG) (g₁ g₂ : Geo)
    (hw : g₁.within = g₂.within) : runFp o m g₁ = runFp o m g₂ := by
  simp only [runFp, iterate_stereo_off hs m g₁ g₂ hw]

/-- C01 with stereo off: invariance under every isometry — rotations, translations and reflections -/
theorem isometry_invariant_nostereo {R : Mat3} (hR : Orth R) (t : V3 ℝ) (mult : ℝ) (X : Nat → V3 ℝ)
    {o : Opts} (hs : o.stereo = false) (m : MolG) :
    runFp o m (Geo.ofCoords mult (fun a => move R t (X a))) = runFp o m (Geo.ofCoords mult X) :=
  runFp_stereo_off hs m _ _ (within_isometry_invariant hR t mult X)

/-! ## non-vacuity: the hypotheses are met by non-trivial motions -/

/-- the 3-4-5 rotation about the z axis -/
noncomputable def rot345 : Mat3 := ⟨3/5, -4/5, 0, 4/5, 3/5, 0, 0, 0, 1⟩

/-- the mirror `z ↦ -z` -/
noncomputable def mirrorZ : Mat3 := ⟨1, 0, 0, 0, 1, 0, 0, 0, -1⟩

example : Orth rot345 ∧ det rot345 = 1 := by
  refine ⟨⟨?_, ?_, ?_, ?_, ?_, ?_⟩, ?_⟩ <;> norm_num [rot345, det]

example : Orth mirrorZ ∧ det mirrorZ = -1 := by
  refine ⟨⟨?_, ?_, ?_, ?_, ?_, ?_⟩, ?_⟩ <;> norm_num [mirrorZ, det]

/-- the rotation is not the identity: it moves the x unit vector -/
example : rot rot345 ⟨1, 0, 0⟩ = ⟨3/5, 4/5, 0⟩ := by
  apply v3_ext <;> norm_num [rot, rot345]

/-- C01 instantiated at the 3-4-5 rotation and an arbitrary translation -/
example (t : V3 ℝ) (mult : ℝ) (X : Nat → V3 ℝ) (o : Opts) (m : MolG) :
    runFp o m (Geo.ofCoords mult (fun a => move rot345 t (X a))) = runFp o m (Geo.ofCoords mult X) :=
  rigid_invariant (by refine ⟨?_, ?_, ?_, ?_, ?_, ?_⟩ <;> norm_num [rot345]) (by norm_num [rot345, det]) t mult X o m

end E3fpVerif.Props.C01
