import E3fpVerif.Model.Fprinter
import E3fpVerif.Lemmas.Rigid
/-!
# C01: the fingerprint of a conformer is invariant under rigid motion

`run_congr`: `runFp` depends on a `Geo` only through its two fields.  The remaining theorems are
about the real-number instance of `Scalar` (`Lemmas/RealScalar.lean`): moving every atom by the same
rotation and translation leaves both fields of `Geo.ofCoords` unchanged, hence the fingerprint at
every level; with stereo off the same holds for every isometry, reflections included.
-/
namespace E3fpVerif.Props.C01
open E3fpVerif E3fpVerif.Rigid

/-- the fingerprint is a function of the geometric decisions only: two conformers on which every
shell-membership test and every stereo code agree have the same fingerprint at every level -/
theorem run_congr (o : Opts) (m : MolG) (g₁ g₂ : Geo) (hw : g₁.within = g₂.within) (hs : g₁.stereo = g₂.stereo) :
    runFp o m g₁ = runFp o m g₂ := by
  cases g₁; cases g₂; simp_all

/-! ## the geometric decisions under an isometry -/

/-- shell membership is invariant under every isometry (any determinant) -/
theorem within_isometry_invariant {R : Mat3} (hR : Orth R) (t : V3 ℝ) (mult : ℝ) (X : Nat → V3 ℝ) :
    (Geo.ofCoords mult (fun a => move R t (X a))).within = (Geo.ofCoords mult X).within := by
  funext k a b
  simp only [Geo.ofCoords, dist_move hR]

/-- the stereo codes are invariant under every proper rigid motion -/
theorem stereo_rigid_invariant {R : Mat3} (hR : Orth R) (hdet : det R = 1) (t : V3 ℝ) (mult : ℝ)
    (X : Nat → V3 ℝ) :
    (Geo.ofCoords mult (fun a => move R t (X a))).stereo = (Geo.ofCoords mult X).stereo := by
  funext c tuples
  simp only [Geo.ofCoords, sub_move]
  have h : tuples.map (fun t => (t.1, t.2.1, rot R (V3.sub (X t.2.2) (X c))))
      = (tuples.map (fun t => (t.1, t.2.1, V3.sub (X t.2.2) (X c)))).map (nbrMap R) := by
    rw [List.map_map]; rfl
  rw [h, stereoIndicators_rot hR hdet]

/-- both geometric decisions of a conformer are unchanged by a rotation followed by a translation -/
theorem geo_rigid_invariant {R : Mat3} (hR : Orth R) (hdet : det R = 1) (t : V3 ℝ) (mult : ℝ)
    (X : Nat → V3 ℝ) :
    Geo.ofCoords mult (fun a => move R t (X a)) = Geo.ofCoords mult X := by
  have hw := within_isometry_invariant hR t mult X
  have hs := stereo_rigid_invariant hR hdet t mult X
  cases h₁ : Geo.ofCoords mult (fun a => move R t (X a))
  cases h₂ : Geo.ofCoords mult X
  rw [h₁, h₂] at hw hs
  simp_all

/-- C01: the fingerprinter's whole run (every level, every shell, every identifier) is the same for a
conformer and for its image under a rotation and a translation -/
theorem rigid_invariant {R : Mat3} (hR : Orth R) (hdet : det R = 1) (t : V3 ℝ) (mult : ℝ)
    (X : Nat → V3 ℝ) (o : Opts) (m : MolG) :
    runFp o m (Geo.ofCoords mult (fun a => move R t (X a))) = runFp o m (Geo.ofCoords mult X) := by
  rw [geo_rigid_invariant hR hdet t mult X]

/-! ## stereo off: only `within` matters -/

theorem atomTuples_stereo_off {o : Opts} (hs : o.stereo = false) (m : MolG) (g₁ g₂ : Geo)
    (prev : List GShell) (a : Nat) (nb : List Nat) :
    atomTuples o m g₁ prev a nb = atomTuples o m g₂ prev a nb := by
  simp [atomTuples, hs]

theorem shellIdent_stereo_off {o : Opts} (hs : o.stereo = false) (m : MolG) (g₁ g₂ : Geo)
    (prev : List GShell) (level a : Nat) (nb : List Nat) :
    shellIdent o m g₁ prev level a nb = shellIdent o m g₂ prev level a nb := by
  simp only [shellIdent, atomTuples_stereo_off hs m g₁ g₂]

theorem genLevel_stereo_off {o : Opts} (hs : o.stereo = false) (m : MolG) (g₁ g₂ : Geo)
    (hw : g₁.within = g₂.within) (atoms : List Nat) (prev : List GShell) (k : Nat) (t : Intern) :
    genLevel o m g₁ atoms prev k t = genLevel o m g₂ atoms prev k t := by
  simp only [genLevel, hw, shellIdent_stereo_off hs m g₁ g₂]

theorem stepState_stereo_off {o : Opts} (hs : o.stereo = false) (m : MolG) (g₁ g₂ : Geo)
    (hw : g₁.within = g₂.within) (atoms : List Nat) (s : FState) :
    stepState o m g₁ atoms s = stepState o m g₂ atoms s := by
  simp only [stepState, genLevel_stereo_off hs m g₁ g₂ hw]

theorem iterate_stereo_off {o : Opts} (hs : o.stereo = false) (m : MolG) (g₁ g₂ : Geo)
    (hw : g₁.within = g₂.within) (atoms : List Nat) (fuel : Nat) (s : FState) :
    iterate o m g₁ atoms fuel s = iterate o m g₂ atoms fuel s := by
  induction fuel generalizing s with
  | zero => rfl
  | succ n ih =>
    simp only [iterate, stepState_stereo_off hs m g₁ g₂ hw]
    split
    · rfl
    · exact ih _

/-- with stereo off the run never consults `g.stereo` -/
theorem runFp_stereo_off {o : Opts} (hs : o.stereo = false) (m : MolG) (g₁ g₂ : Geo)
    (hw : g₁.within = g₂.within) : runFp o m g₁ = runFp o m g₂ := by
  simp only [runFp, iterate_stereo_off hs m g₁ g₂ hw]

/-- C01 with stereo off: invariance under every isometry — rotations, translations and reflections -/
theorem isometry_invariant_nostereo {R : Mat3} (hR : Orth R) (t : V3 ℝ) (mult : ℝ) (X : Nat → V3 ℝ)
    {o : Opts} (hs : o.stereo = false) (m : MolG) :
    runFp o m (Geo.ofCoords mult (fun a => move R t (X a))) = runFp o m (Geo.ofCoords mult X) :=
  runFp_stereo_off hs m _ _ (within_isometry_invariant hR t mult X)

/-! ## non-vacuity: the hypotheses are met by non-trivial motions -/

/-- the 3-4-5 rotation about the z axis -/
noncomputable def rot345 : Mat3 := ⟨3/5, -4/5, 0, 4/5, 3/5, 0, 0, 0, 1⟩

/-- the mirror `z ↦ -z` -/
noncomputable def mirrorZ : Mat3 := ⟨1, 0, 0, 0, 1, 0, 0, 0, -1⟩

example : Orth rot345 ∧ det rot345 = 1 := by
  refine ⟨⟨?_, ?_, ?_, ?_, ?_, ?_⟩, ?_⟩ <;> norm_num [rot345, det]

example : Orth mirrorZ ∧ det mirrorZ = -1 := by
  refine ⟨⟨?_, ?_, ?_, ?_, ?_, ?_⟩, ?_⟩ <;> norm_num [mirrorZ, det]

/-- the rotation is not the identity: it moves the x unit vector -/
example : rot rot345 ⟨1, 0, 0⟩ = ⟨3/5, 4/5, 0⟩ := by
  apply v3_ext <;> norm_num [rot, rot345]

/-- C01 instantiated at the 3-4-5 rotation and an arbitrary translation -/
example (t : V3 ℝ) (mult : ℝ) (X : Nat → V3 ℝ) (o : Opts) (m : MolG) :
    runFp o m (Geo.ofCoords mult (fun a => move rot345 t (X a))) = runFp o m (Geo.ofCoords mult X) :=
  rigid_invariant (by refine ⟨?_, ?_, ?_, ?_, ?_, ?_⟩ <;> norm_num [rot345]) (by norm_num [rot345, det]) t mult X o m

/-! ## the z axis is never taken from an atom on the y axis

`pick_z` projects the selected neighbour onto the plane orthogonal to `y`.  For a neighbour that is
(anti)parallel to `y` (para-substituted ring atoms, linear groups) the projection is the zero vector - in
floating point: round-off noise, whose direction is not invariant under rigid motion.  The repaired
`pick_z` (`pickZ`) refuses a projection shorter than `EPS`; the raw selection is `pickZRaw`. -/

open RealScalar in
/-- the selected candidate's projection is shorter than `EPS`: there is no z axis -/
theorem pickZ_on_axis (cand : List (Nat × Int × V3 ℝ × ℝ)) (y z : V3 ℝ) (h : pickZRaw cand y = some z)
    (hz : V3.norm z < Scalar.eps) : pickZ cand y = none := by
  unfold pickZ
  rw [h]
  exact if_pos ((lt_def _ _).2 hz)

open RealScalar in
/-- conversely, a z axis that is returned is the raw selection and is at least `EPS` long -/
theorem pickZ_some_norm (cand : List (Nat × Int × V3 ℝ × ℝ)) (y z : V3 ℝ) (h : pickZ cand y = some z) :
    pickZRaw cand y = some z ∧ Scalar.eps ≤ V3.norm z := by
  unfold pickZ at h
  cases hr : pickZRaw cand y with
  | none => rw [hr] at h; cases h
  | some w =>
    rw [hr] at h
    dsimp only at h
    by_cases hg : Scalar.lt (V3.norm w) Scalar.eps = true
    · rw [if_pos hg] at h; cases h
    · rw [if_neg hg] at h
      cases h
      rw [lt_def] at hg
      exact ⟨rfl, not_lt.1 hg⟩

open RealScalar in
/-- a multiple of `y` has no component orthogonal to `y` (for `y` not shorter than `√EPS`, which
`as_unit` normalises; the y axis of a shell is a centred atom coordinate or a mean of at least
`Y_AXIS_PRECISION` length) -/
theorem projectToPlane_smul_self {y : V3 ℝ} (hy : (Scalar.eps : ℝ) ≤ V3.dot y y) (c : ℝ) :
    V3.projectToPlane (V3.smul c y) y = V3.vzero := by
  have hpos : 0 < V3.dot y y := lt_of_lt_of_le eps_pos hy
  have hu : V3.asUnit y = V3.sdiv y (Real.sqrt (V3.dot y y)) := by
    unfold V3.asUnit
    simp only []
    rw [if_neg]
    · rfl
    · rw [lt_def]; exact not_lt.2 hy
  have hq : Real.sqrt (V3.dot y y) * Real.sqrt (V3.dot y y) = V3.dot y y := Real.mul_self_sqrt hpos.le
  have hq0 : Real.sqrt (V3.dot y y) ≠ 0 := (Real.sqrt_pos.2 hpos).ne'
  unfold V3.projectToPlane
  simp only [hu]
  generalize Real.sqrt (V3.dot y y) = r at hq hq0
  have hd : V3.dot (V3.smul c y) (V3.sdiv y r) = c * r := by
    have e : V3.dot (V3.smul c y) (V3.sdiv y r) = c * V3.dot y y / r := by
      simp only [V3.dot, V3.smul, V3.sdiv, add_def, mul_def, div_def]
      ring
    rw [e, ← hq]
    field_simp
  rw [hd]
  apply v3_ext <;> simp only [V3.sub, V3.smul, V3.sdiv, V3.vzero, sub_def, mul_def, div_def, zero_def] <;>
    field_simp <;> ring

open RealScalar in
theorem norm_vzero : V3.norm (V3.vzero : V3 ℝ) = 0 := by
  simp [V3.norm, V3.vzero, V3.dot]

open RealScalar in
/-- **the repaired defect**: a single candidate that is a multiple of `y` (parallel, `c > 0`, or
antiparallel, `c < 0`) does not define a z axis -/
theorem pickZ_on_axis_smul (k : Nat) (i : Int) (c a : ℝ) {y : V3 ℝ} (hy : (Scalar.eps : ℝ) ≤ V3.dot y y) :
    pickZ [(k, i, V3.smul c y, a)] y = none := by
  apply pickZ_on_axis _ y _ (pickZRaw_singleton _ y)
  show V3.norm (V3.projectToPlane (V3.smul c y) y) < Scalar.eps
  rw [projectToPlane_smul_self hy, norm_vzero]
  exact eps_pos

open RealScalar in
/-- … whereas the raw selection returns the zero vector as the "direction" of the z axis -/
theorem pickZRaw_on_axis_smul (k : Nat) (i : Int) (c a : ℝ) {y : V3 ℝ} (hy : (Scalar.eps : ℝ) ≤ V3.dot y y) :
    pickZRaw [(k, i, V3.smul c y, a)] y = some V3.vzero := by
  rw [pickZRaw_singleton]
  show some (V3.projectToPlane (V3.smul c y) y) = _
  rw [projectToPlane_smul_self hy]

open RealScalar in
/-- para-like arrangement: y axis `(1,0,0)`, the only candidate sits opposite at `(-2,0,0)` -/
theorem pickZ_para_example :
    pickZ [((0 : Nat), (0 : Int), (⟨-2, 0, 0⟩ : V3 ℝ), (0 : ℝ))] ⟨1, 0, 0⟩ = none := by
  have hv : (⟨-2, 0, 0⟩ : V3 ℝ) = V3.smul (-2) ⟨1, 0, 0⟩ := by
    apply v3_ext <;> simp [V3.smul]
  have hy : (Scalar.eps : ℝ) ≤ V3.dot (⟨1, 0, 0⟩ : V3 ℝ) ⟨1, 0, 0⟩ := by
    rw [eps_def]; norm_num [V3.dot]
  rw [hv]
  exact pickZ_on_axis_smul 0 0 (-2) 0 hy

end E3fpVerif.Props.C01
