import E3fpVerif.Model.Savetxt
/-!
# C08 — the run-length construction of the text export writes exactly the row's bit string

For every length and every strictly ascending list of positions below it, `runLength bits idx` (the expression `savetxt`
evaluates) is the string of `bits` characters with `1` exactly at the listed positions.
-/
namespace E3fpVerif.Props.C08Runs
open E3fpVerif

/-- the run-length string of the positions `idx` (all ≥ `start`) inside the window `[start, bits)` -/
def window (start bits : Nat) (idx : List Nat) : List Char :=
  (List.range' start (bits - start)).map (fun j => if j ∈ idx then '1' else '0')

theorem joinWith_cons (sep p : List Char) (q : List Char) (r : List (List Char)) :
    joinWith sep (p :: q :: r) = p ++ sep ++ joinWith sep (q :: r) := rfl

/-- the general step: from the previous set position `prev` (or -1), the remaining positions produce the window after it -/
theorem runs_from (bits : Nat) (idx : List Nat) (s : Nat)
    (hasc : idx.Pairwise (· < ·)) (hge : ∀ i ∈ idx, s ≤ i) (hlt : ∀ i ∈ idx, i < bits) (hs : s ≤ bits) :
    joinWith ['1'] ((diffs (((s : Int) - 1) :: (idx.map (fun (i : Nat) => (i : Int)) ++ [(bits : Int)]))).map
      (fun d => List.replicate (d - 1).toNat '0')) = window s bits idx := by
  induction idx generalizing s with
  | nil =>
    simp only [List.map_nil, List.nil_append, diffs, List.map_cons, joinWith, window]
    have : ((bits : Int) - ((s : Int) - 1) - 1).toNat = bits - s := by omega
    rw [this]
    simp [List.map_const', List.length_range']
  | cons i rest ih =>
    have hi : s ≤ i := hge i (List.mem_cons_self ..)
    have hib : i < bits := hlt i (List.mem_cons_self ..)
    have hrest_asc : rest.Pairwise (· < ·) := (List.pairwise_cons.mp hasc).2
    have hrest_gt : ∀ j ∈ rest, i < j := (List.pairwise_cons.mp hasc).1
    simp only [List.map_cons, List.cons_append]
    -- diffs ((s-1) :: i :: tail) = (i - (s-1)) :: diffs (i :: tail)
    have hd : diffs (((s : Int) - 1) :: (i : Int) :: (rest.map (fun (i : Nat) => (i : Int)) ++ [(bits : Int)])) =
        ((i : Int) - ((s : Int) - 1)) :: diffs ((i : Int) :: (rest.map (fun (i : Nat) => (i : Int)) ++ [(bits : Int)])) := rfl
    rw [hd]
    have ih' := ih (i + 1) hrest_asc (fun j hj => hrest_gt j hj) (fun j hj => hlt j (List.mem_cons_of_mem _ hj)) (by omega)
    have hcast : (((i + 1 : Nat) : Int) - 1) = (i : Int) := by omega
    rw [hcast] at ih'
    -- the tail of diffs is non-empty (it ends with the sentinel `bits`)
    have hne : ∃ d ds, diffs ((i : Int) :: (rest.map (fun (i : Nat) => (i : Int)) ++ [(bits : Int)])) = d :: ds := by
      cases rest with
      | nil => exact ⟨_, _, rfl⟩
      | cons r rs => exact ⟨_, _, rfl⟩
    obtain ⟨d, ds, hds⟩ := hne
    rw [hds] at ih' ⊢
    simp only [List.map_cons] at ih' ⊢
    rw [joinWith_cons, ih']
    have hz : ((i : Int) - ((s : Int) - 1) - 1).toNat = i - s := by omega
    rw [hz]
    -- window s bits (i :: rest) = zeros (i - s) ++ '1' :: window (i+1) bits rest
    unfold window
    have hsplit : List.range' s (bits - s) = List.range' s (i - s) ++ [i] ++ List.range' (i + 1) (bits - (i + 1)) := by
      have h1 : bits - s = (i - s) + (1 + (bits - (i + 1))) := by omega
      have h2 : s + (i - s) = i := by omega
      have e1 : List.range' s (i - s) ++ List.range' (s + (i - s)) (1 + (bits - (i + 1))) = List.range' s ((i - s) + (1 + (bits - (i + 1)))) :=
        List.range'_append_1
      have e2 : List.range' i (1 + (bits - (i + 1))) = i :: List.range' (i + 1) (bits - (i + 1)) := by
        rw [Nat.add_comm 1, List.range'_succ]
      rw [h1, ← e1, h2, e2]
      simp
    rw [hsplit, List.map_append, List.map_append]
    congr 1
    · congr 1
      · -- positions before i are not set
        rw [List.map_congr_left (g := fun _ => '0')]
        · simp [List.map_const', List.length_range']
        · intro j hj
          have hj' := List.mem_range'_1.mp hj
          have hjlt : j < i := by omega
          have : j ∉ i :: rest := by
            intro hm
            rcases List.mem_cons.mp hm with e | e
            · omega
            · have := hrest_gt j e; omega
          simp [this]
      · simp
    · apply List.map_congr_left
      intro j hj
      have hj' := List.mem_range'_1.mp hj
      have hne : j ≠ i := by omega
      simp [List.mem_cons, hne]

/-- **the run-length expression is the bit string of the row** -/
theorem runLength_eq (bits : Nat) (idx : List Nat) (hasc : idx.Pairwise (· < ·)) (hlt : ∀ i ∈ idx, i < bits) :
    runLength bits idx = (List.range bits).map (fun j => if j ∈ idx then '1' else '0') := by
  have h := runs_from bits idx 0 hasc (fun i _ => Nat.zero_le i) hlt (Nat.zero_le bits)
  unfold runLength
  have h0 : ((0 : Nat) : Int) - 1 = (-1 : Int) := by omega
  rw [h0] at h
  rw [h, window]
  simp [List.range_eq_range']

/-- its length is the database's length, whatever the row holds -/
theorem runLength_length (bits : Nat) (idx : List Nat) (hasc : idx.Pairwise (· < ·)) (hlt : ∀ i ∈ idx, i < bits) :
    (runLength bits idx).length = bits := by
  rw [runLength_eq bits idx hasc hlt]; simp

/-- and it is the line `savetxt`'s model writes for a row storing exactly these columns -/
theorem runLength_eq_bitstring (bits : Nat) (r : Row) (hasc : (r.map Prod.fst).Pairwise (· < ·)) (hlt : ∀ p ∈ r, p.1 < bits) :
    runLength bits (r.map Prod.fst) = (bitstringOfRow bits r).map (fun b => if b then '1' else '0') := by
  rw [runLength_eq bits _ hasc (by intro i hi; obtain ⟨p, hp, rfl⟩ := List.mem_map.mp hi; exact hlt p hp)]
  unfold bitstringOfRow
  rw [List.map_map]
  apply List.map_congr_left
  intro j _
  simp only [Function.comp]
  by_cases hm : j ∈ r.map Prod.fst
  · have : r.any (fun p => p.1 == j) = true := by
      obtain ⟨p, hp, rfl⟩ := List.mem_map.mp hm
      exact List.any_eq_true.mpr ⟨p, hp, by simp⟩
    simp [hm, this]
  · have : r.any (fun p => p.1 == j) = false := by
      apply Bool.eq_false_iff.mpr
      intro h
      obtain ⟨p, hp, he⟩ := List.any_eq_true.mp h
      exact hm (List.mem_map.mpr ⟨p, hp, by simpa using he⟩)
    simp [hm, this]

example : runLength 8 [1, 2, 6] = "01100010".toList := by decide
example : runLength 4 [] = "0000".toList := by decide
example : runLength 3 [0, 1, 2] = "111".toList := by decide

end E3fpVerif.Props.C08Runs
