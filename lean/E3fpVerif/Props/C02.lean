import E3fpVerif.Model.Fprinter
import E3fpVerif.Lemmas.Fprinter
import E3fpVerif.Lemmas.FprinterEx
namespace E3fpVerif.Props.C02
open E3fpVerif

/-- every hash is a signed 32-bit integer -/
theorem murmur_range (seed : Nat) (ws : List Int) : -(2 ^ 31 : Int) ≤ murmur seed ws ∧ murmur seed ws < 2 ^ 31 := by
  unfold murmur
  have h := (murmurU32 (UInt32.ofNat seed) ws).toNat_lt
  simp only
  split <;> omega

/-- `signed_to_unsigned_int` maps the signed range onto `[0, 2^32)` -/
theorem signedToUnsigned_range (a : Int) (h1 : -(2 ^ 31 : Int) ≤ a) (h2 : a < 2 ^ 31) :
    0 ≤ Gen.signedToUnsigned a (2 ^ 32) ∧ Gen.signedToUnsigned a (2 ^ 32) < 2 ^ 32 := by
  unfold Gen.signedToUnsigned; omega

/-- … injectively -/
theorem signedToUnsigned_inj (a b : Int) (ha1 : -(2 ^ 31 : Int) ≤ a) (ha2 : a < 2 ^ 31) (hb1 : -(2 ^ 31 : Int) ≤ b) (hb2 : b < 2 ^ 31)
    (h : Gen.signedToUnsigned a (2 ^ 32) = Gen.signedToUnsigned b (2 ^ 32)) : a = b := by
  unfold Gen.signedToUnsigned at h; omega

/-! ## 7. level 0: one shell per atom, identifier = hash of the atom invariants -/

theorem initState_levelShells (o : Opts) (m : MolG) (atoms : List Nat) :
    (initState o m atoms).levelShells = [(genLevel0 o m atoms []).2] := rfl

/-- one shell per atom, in order -/
theorem level0_atoms (o : Opts) (m : MolG) (atoms : List Nat) :
    ((initState o m atoms).levelShells.getD 0 []).map (·.atom) = atoms := by
  rw [initState_levelShells]; exact genLevel0_atoms o m atoms []

theorem level0_ident (o : Opts) (m : MolG) (atoms : List Nat) :
    ∀ x ∈ (initState o m atoms).levelShells.getD 0 [],
      x.atom ∈ atoms ∧
      x.ident = murmur Gen.MMH3_SEED
        (if o.rdkitInvariants then (atomInfo m x.atom).invR else (atomInfo m x.atom).invD) ∧
      x.sub = [x.atom] ∧ x.nbrs = [] := by
  intro x hx
  rw [initState_levelShells] at hx
  obtain ⟨ha, t', hx'⟩ := genLevel0_mem o m atoms [] x (by simpa using hx)
  refine ⟨ha, ?_, ?_, ?_⟩ <;> (rw [hx']; rfl)

/-! ## 8. level `k ≥ 1`: the identifier hashes (level, previous identifier, sorted neighbour tuples) -/

/-- the neighbours: the other atoms within the level-`k` shell (bonded ones only unless
`include_disconnected`) -/
theorem mem_nbOf (o : Opts) (m : MolG) (g : Geo) (atoms : List Nat) (k a b : Nat) :
    b ∈ nbOf o m g atoms k a ↔
      b ∈ atoms ∧ b ≠ a ∧ g.within k a b = true ∧ (o.includeDisconnected = true ∨ bonded m a b = true) := by
  unfold nbOf
  simp [List.mem_filter, and_assoc]

/-- one shell per atom, in order -/
theorem levelk_atoms (o : Opts) (m : MolG) (g : Geo) (atoms : List Nat) (prev : List GShell) (k : Nat)
    (t : Intern) : (genLevel o m g atoms prev k t).2.map (·.atom) = atoms :=
  genLevel_atoms o m g atoms prev k t

theorem levelk_ident (o : Opts) (m : MolG) (g : Geo) (atoms : List Nat) (prev : List GShell) (k : Nat)
    (t : Intern) :
    ∀ x ∈ (genLevel o m g atoms prev k t).2,
      x.atom ∈ atoms ∧
      x.nbrs = nbOf o m g atoms k x.atom ∧
      x.ident = murmur Gen.MMH3_SEED
        ([(k : Int), (shellOf prev x.atom).ident] ++ atomTuples o m g prev x.atom (nbOf o m g atoms k x.atom)) ∧
      x.sub = uniq (x.atom :: (nbOf o m g atoms k x.atom).flatMap (fun b => (shellOf prev b).sub)) := by
  intro x hx
  obtain ⟨ha, t', hx'⟩ := genLevel_mem o m g atoms prev k t x hx
  refine ⟨ha, ?_, ?_, ?_⟩ <;> (rw [hx']; rfl)

/-- the substructure of a shell: its centre and the substructures of its neighbours' previous shells -/
theorem levelk_sub_mem (o : Opts) (m : MolG) (g : Geo) (atoms : List Nat) (prev : List GShell) (k : Nat)
    (t : Intern) (x : GShell) (hx : x ∈ (genLevel o m g atoms prev k t).2) (y : Nat) :
    y ∈ x.sub ↔ y = x.atom ∨ ∃ b ∈ nbOf o m g atoms k x.atom, y ∈ (shellOf prev b).sub := by
  rw [(levelk_ident o m g atoms prev k t x hx).2.2.2, mem_uniq]
  simp [List.mem_flatMap]

/-- "the identifier of `a` in `prev`" is the identifier of a shell of `prev` centred on `a` -/
theorem prev_shell (prev : List GShell) (atoms : List Nat) (h : prev.map (·.atom) = atoms) (a : Nat)
    (ha : a ∈ atoms) : shellOf prev a ∈ prev ∧ (shellOf prev a).atom = a :=
  shellOf_atom prev a (by rw [h]; exact ha)

/-- in a successful step the new generator level is `genLevel` of the previous one at
`current_level + 1`, so `levelk_ident` describes its shells -/
theorem step_gen (o : Opts) (m : MolG) (g : Geo) (atoms : List Nat) (s s' : FState)
    (h : stepState o m g atoms s = some s') :
    s'.gen = s.gen ++ [(genLevel o m g atoms (s.gen.getLastD []) (s.currentLevel + 1) s.tbl).2] ∧
    ∀ x ∈ s'.levelShells.getLastD [],
      x ∈ s.levelShells.getLastD [] ∨
      x ∈ (genLevel o m g atoms (s.gen.getLastD []) (s.currentLevel + 1) s.tbl).2 := by
  obtain ⟨_, _, _, rfl⟩ := stepState_some o m g atoms s s' h
  refine ⟨rfl, ?_⟩
  intro x hx
  have hx : x ∈ unionShells (s.levelShells.getLastD []) (stepAccepted o m g atoms s).2 := by
    simpa using hx
  rcases unionShells_mem _ _ x hx with h | h
  · exact Or.inl h
  · exact Or.inr (stepAccepted_subset o m g atoms s x h)

/-! ## 9. the atom mask removes exactly the shells whose substructure touches it -/

theorem mask_empty (s : FState) (req : Option Int) :
    shellsAt s req [] = s.levelShells.getD (resolveLevel s req) [] := by
  unfold shellsAt
  simp

theorem mask_exact (s : FState) (req : Option Int) (mask : List Nat) :
    shellsAt s req mask = (shellsAt s req []).filter (fun x => x.sub.all (fun a => !mask.contains a)) := by
  rw [mask_empty]
  unfold shellsAt
  congr 1
  funext x
  rw [List.not_any_eq_all_not]

theorem mask_mem (s : FState) (req : Option Int) (mask : List Nat) (x : GShell) :
    x ∈ shellsAt s req mask ↔ x ∈ shellsAt s req [] ∧ ∀ a ∈ x.sub, a ∉ mask := by
  rw [mask_exact, List.mem_filter]
  simp

/-! ## 10. duplicate substructures are dropped in the order given; first occurrence wins -/

/-- the explicit recursive characterisation -/
theorem dedup_spec (past : List (List Nat)) (cands : List GShell) :
    dedupShells past cands = (past ++ (dedupSpec past cands).map (·.sub), dedupSpec past cands) :=
  dedupShells_eq past cands

/-- position by position: the candidate `s` after `pre` is kept iff its substructure is not in `past`
and no earlier candidate has the same substructure; the later candidates see all of them -/
theorem dedup_order (past : List (List Nat)) (pre : List GShell) (s : GShell) (post : List GShell) :
    (dedupShells past (pre ++ s :: post)).2 =
      (dedupShells past pre).2
        ++ (if past.contains s.sub || pre.any (fun x => x.sub == s.sub) then [] else [s])
        ++ (dedupShells (past ++ (pre ++ [s]).map (·.sub)) post).2 := by
  simp only [dedupShells_eq]
  exact dedupSpec_first_occurrence past pre s post

/-- the accepted shells are a sublist of the candidates (order kept) -/
theorem dedup_sublist (past : List (List Nat)) (cands : List GShell) :
    (dedupShells past cands).2.Sublist cands := by
  rw [dedupShells_eq]; exact dedupSpec_sublist past cands

/-- the accepted substructures are pairwise distinct … -/
theorem dedup_nodup (past : List (List Nat)) (cands : List GShell) :
    ((dedupShells past cands).2.map (·.sub)).Nodup := by
  rw [dedupShells_eq]; exact dedupSpec_nodup past cands

/-- … and not in `past` -/
theorem dedup_disjoint (past : List (List Nat)) (cands : List GShell) :
    ∀ x ∈ (dedupShells past cands).2, x.sub ∉ past := by
  rw [dedupShells_eq]; exact dedupSpec_not_past past cands

/-- every candidate, kept or dropped, has its substructure in `past` or among the accepted ones -/
theorem dedup_dropped (past : List (List Nat)) (cands : List GShell) :
    ∀ x ∈ cands, x.sub ∈ past ++ (dedupShells past cands).2.map (·.sub) := by
  rw [dedupShells_eq]; exact dedupSpec_covers past cands

/-- the new `past` is the old one followed by the accepted substructures -/
theorem dedup_past (past : List (List Nat)) (cands : List GShell) :
    (dedupShells past cands).1 = past ++ (dedupShells past cands).2.map (·.sub) := by
  rw [dedupShells_eq]

/-- the candidates are presented in (identifier, centre) order, and they are the generated shells -/
theorem candidates_sorted (l : List GShell) :
    (sortByLt ltShell l).Pairwise (fun a b => a.ident < b.ident ∨ (a.ident = b.ident ∧ a.atom ≤ b.atom)) ∧
    (sortByLt ltShell l).Perm l :=
  ⟨sortByLt_ltShell_sorted l, sortByLt_perm ltShell l⟩

/-! ## 11. a run succeeds on admissible input, and every identifier is a 32-bit hash -/

theorem run_ok (o : Opts) (m : MolG) (g : Geo) (h1 : retained o m ≠ [])
    (h2 : o.level = -1 → o.removeDup = true) (h3 : ∀ e ∈ m.bonds, e.2.2 ≠ 0) :
    ∃ s, runFp o m g = .ok s :=
  ⟨_, (runFp_ok_iff o m g _).2 ⟨h2, h3, h1, rfl⟩⟩

/-- … and only then -/
theorem run_ok_iff (o : Opts) (m : MolG) (g : Geo) :
    (∃ s, runFp o m g = .ok s) ↔
      retained o m ≠ [] ∧ (o.level = -1 → o.removeDup = true) ∧ (∀ e ∈ m.bonds, e.2.2 ≠ 0) := by
  constructor
  · rintro ⟨s, hs⟩
    obtain ⟨a, b, c, _⟩ := (runFp_ok_iff o m g s).1 hs
    exact ⟨c, a, b⟩
  · rintro ⟨a, b, c⟩; exact run_ok o m g a b c

/-- every accepted shell carries a `murmur` value -/
def IdentsHashed (s : FState) : Prop :=
  ∀ l ∈ s.levelShells, ∀ x ∈ l, ∃ ws, x.ident = murmur Gen.MMH3_SEED ws

theorem identsHashed_init (o : Opts) (m : MolG) (atoms : List Nat) : IdentsHashed (initState o m atoms) := by
  intro l hl x hx
  rw [initState_levelShells, List.mem_singleton] at hl
  subst hl
  obtain ⟨_, t', hx'⟩ := genLevel0_mem o m atoms [] x hx
  exact ⟨_, by rw [hx']; rfl⟩

theorem identsHashed_step (o : Opts) (m : MolG) (g : Geo) (atoms : List Nat) (s s' : FState)
    (hinv : IdentsHashed s) (h : stepState o m g atoms s = some s') : IdentsHashed s' := by
  obtain ⟨_, _, _, rfl⟩ := stepState_some o m g atoms s s' h
  intro l hl x hx
  rcases List.mem_append.1 hl with hl | hl
  · exact hinv l hl x hx
  · rw [List.mem_singleton] at hl
    subst hl
    rcases unionShells_mem _ _ x hx with h | h
    · rcases getLastD_mem_or_nil s.levelShells with h' | h'
      · exact hinv _ h' x h
      · rw [h'] at h; cases h
    · obtain ⟨_, t', hx'⟩ := genLevel_mem o m g atoms _ _ _ x (stepAccepted_subset o m g atoms s x h)
      exact ⟨_, by rw [hx']; rfl⟩

/-- **identifier range**: every identifier of every level of a run is a MurmurHash3 value, hence a
signed 32-bit integer -/
theorem ident_range (o : Opts) (m : MolG) (g : Geo) (s : FState) (h : runFp o m g = .ok s) :
    ∀ l ∈ s.levelShells, ∀ x ∈ l,
      (∃ ws, x.ident = murmur Gen.MMH3_SEED ws) ∧ -(2 ^ 31 : Int) ≤ x.ident ∧ x.ident < 2 ^ 31 := by
  obtain ⟨_, _, _, rfl⟩ := (runFp_ok_iff o m g s).1 h
  intro l hl x hx
  obtain ⟨ws, hws⟩ := iterate_induction o m g (retained o m) IdentsHashed
    (identsHashed_step o m g (retained o m)) _ _ (identsHashed_init o m (retained o m)) l hl x hx
  exact ⟨⟨ws, hws⟩, by rw [hws]; exact murmur_range _ _⟩

/-- so the indices `fingerprintAt` sets are in `[0, 2^32)` -/
theorem index_range (o : Opts) (m : MolG) (g : Geo) (s : FState) (h : runFp o m g = .ok s)
    (req : Option Int) (mask : List Nat) :
    ∀ x ∈ shellsAt s req mask,
      0 ≤ Gen.signedToUnsigned x.ident (Gen.BITS : Nat) ∧
      Gen.signedToUnsigned x.ident (Gen.BITS : Nat) < 2 ^ 32 := by
  intro x hx
  unfold shellsAt at hx
  have hx := (List.mem_filter.1 hx).1
  rw [List.getD_eq_getElem?_getD] at hx
  cases hl : s.levelShells[resolveLevel s req]? with
  | none => rw [hl] at hx; cases hx
  | some l =>
    rw [hl] at hx
    obtain ⟨_, h1, h2⟩ := ident_range o m g s h l (List.mem_of_getElem? hl) x hx
    exact signedToUnsigned_range x.ident h1 h2

/-! ## non-vacuity: the hypotheses above are met by the four-atom chain of `Lemmas/FprinterEx.lean` -/
section NonVacuity
open Ex

/- `level0_ident`: level 0 has shells -/
set_option maxRecDepth 100000 in
example : ((initState o m atoms).levelShells.getD 0 []).length = 4 := by decide

/- `levelk_ident`, `levelk_sub_mem`: level 1 generated from level 0 has shells -/
set_option maxRecDepth 100000 in
example : (genLevel o m g atoms (s0.gen.getLastD []) 1 s0.tbl).2.length = 4 := by decide

/- `mem_nbOf`: atom 1 has the neighbours 0 and 2 -/
example : nbOf o m g atoms 1 1 = [0, 2] := by decide

/- `prev_shell`: the previous level has one shell per atom -/
example : (s0.gen.getLastD []).map (·.atom) = atoms ∧ 2 ∈ atoms :=
  ⟨genLevel0_atoms o m atoms [], by decide⟩

/- `step_gen`, `identsHashed_step`: a step that succeeds -/
example : ∃ s', stepState o m g atoms s0 = some s' := Option.isSome_iff_exists.1 step0_some

/- `mask_mem`, `mask_exact`: masking atom 0 removes shells (and keeps some) -/
set_option maxRecDepth 100000 in
example : (shellsAt (sN 3) none []).length = 9 ∧ (shellsAt (sN 3) none [0]).length = 5 := by decide

/- `dedup_order`: both branches occur. With `past = [[0]]` and candidates with substructures
`[0], [1], [1], [2]` the first is dropped (in `past`), the second kept, the third dropped
(an earlier candidate has it), the fourth kept -/
def sh (a : Nat) (sub : List Nat) : GShell := { atom := a, sid := a, sub := sub, nbrs := [], ident := 0 }
example : (dedupShells [[0]] [sh 0 [0], sh 1 [1], sh 2 [1], sh 3 [2]]).2 = [sh 1 [1], sh 3 [2]] := by decide
example : ([[0]].contains (sh 2 [1]).sub || [sh 0 [0], sh 1 [1]].any (fun x => x.sub == (sh 2 [1]).sub)) = true := by
  decide
example : ([[0]].contains (sh 1 [1]).sub || [sh 0 [0]].any (fun x => x.sub == (sh 1 [1]).sub)) = false := by
  decide

/- `dedup_dropped`, `dedup_disjoint`: in the example run the duplicate filter does drop candidates:
level 1 generates 4 shells, `past` grows by 4; level 2 generates 4 and accepts 1 -/
set_option maxRecDepth 100000 in
example : (sN 1).past.length = 8 ∧ (sN 2).past.length = 9 := by decide

/- `run_ok`, `run_ok_iff`: the three hypotheses hold -/
example : retained o m ≠ [] ∧ (o.level = -1 → o.removeDup = true) ∧ (∀ e ∈ m.bonds, e.2.2 ≠ 0) :=
  ⟨by rw [retained_eq]; decide, fun _ => rfl, by decide⟩

/- `ident_range`, `index_range`: a run that succeeds with shells at every level -/
set_option maxRecDepth 100000 in
example : (runFp o m g).toOption.map (·.levelShells.map (·.length)) = some [4, 8, 9] := by decide

/- the level-0 identifier of atom 0 (invariants `[6, 1]`), computed -/
set_option maxRecDepth 100000 in
example : ((initState o m atoms).levelShells.getD 0 []).map (·.ident)
    = [murmur 0 [6, 1], murmur 0 [6, 2], murmur 0 [7, 2], murmur 0 [8, 1]] := by decide

end NonVacuity

end E3fpVerif.Props.C02
