import E3fpVerif.Model.Fprinter
namespace E3fpVerif.Props.C02
open E3fpVerif

/-- every hash is a signed 32-bit integer -/
theorem murmur_range (seed : Nat) (ws : List Int) : -(2 ^ 31 : Int) ≤ murmur seed ws ∧ murmur seed ws < 2 ^ 31 := by
  unfold murmur
  have h := (murmurU32 (UInt32.ofNat seed) ws).toNat_lt
  simp only
  split <;> omega

/-- `signed_to_unsigned_int` maps the signed range onto `[0, 2^32)` -/
theorem signedToUnsigned_range (a : Int) (h1 : -(2 ^ 31 : Int) ≤ a) (h2 : a < 2 ^ 31) :
    0 ≤ Gen.signedToUnsigned a (2 ^ 32) ∧ Gen.signedToUnsigned a (2 ^ 32) < 2 ^ 32 := by
  unfold Gen.signedToUnsigned; omega

/-- … injectively -/
theorem signedToUnsigned_inj (a b : Int) (ha1 : -(2 ^ 31 : Int) ≤ a) (ha2 : a < 2 ^ 31) (hb1 : -(2 ^ 31 : Int) ≤ b) (hb2 : b < 2 ^ 31)
    (h : Gen.signedToUnsigned a (2 ^ 32) = Gen.signedToUnsigned b (2 ^ 32)) : a = b := by
  unfold Gen.signedToUnsigned at h; omega

end E3fpVerif.Props.C02
