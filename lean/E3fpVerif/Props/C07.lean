import E3fpVerif.Model.Fprint
import E3fpVerif.Lemmas.Uniq
import E3fpVerif.Lemmas.Pow2
/-!
# C07 — folding is index reduction and commutes with every route to a folded result

Statements are about `Fp.fold` (model of `Fingerprint.fold` / `CountFingerprint.fold`), whose index
expressions are the generated `Gen.foldPartition` / `Gen.foldCompress`, i.e. the expressions the
source contains now.
-/
namespace E3fpVerif.Props.C07
open E3fpVerif

/-- what the generated index expressions say -/
theorem foldIdx_partition (a b i : Nat) : foldIdx 0 a b i = i % b := by
  simp [foldIdx, Gen.foldPartition]

theorem foldIdx_compress (a b i : Nat) : foldIdx 1 a b i = i / (a / b) := by
  simp [foldIdx, Gen.foldCompress]

/-- folding succeeds exactly on lengths `b ≤ bits` with `bits = b * 2^n`, and methods 0 and 1 -/
theorem fold_rejects (f : Fp) (b m : Nat) (cm : CountsMethod) (hb : 0 < b) :
    (∃ g, f.fold b m cm = .ok g) ↔ (b ≤ f.bits ∧ (∃ n, f.bits = b * 2 ^ n) ∧ (m = 0 ∨ m = 1)) := by
  unfold Fp.fold
  constructor
  · intro ⟨g, h⟩
    split at h
    · cases h
    · split at h
      · cases h
      · split at h
        · cases h
        · rename_i h1 h2 h3
          refine ⟨by omega, ?_, by omega⟩
          simp only [Bool.not_eq_eq_eq_not, Bool.not_true, Bool.not_eq_false] at h2
          exact (isPow2Multiple_iff _ _ hb).1 h2
  · intro ⟨h1, h2, h3⟩
    have h2' := (isPow2Multiple_iff _ _ hb).2 h2
    rw [if_neg (by omega), h2']
    simp only [Bool.not_true, Bool.false_eq_true, ↓reduceIte]
    rw [if_neg (by omega)]
    exact ⟨_, rfl⟩

/-- shape of a successful fold -/
theorem fold_ok (f g : Fp) (b m : Nat) (cm : CountsMethod) (h : f.fold b m cm = .ok g) :
    g.kind = f.kind ∧ g.bits = b ∧ g.level = f.level ∧
      g.idx = uniq (f.idx.map (foldIdx m f.bits b)) := by
  unfold Fp.fold at h
  split at h
  · cases h
  · split at h
    · cases h
    · split at h
      · cases h
      · cases h; exact ⟨rfl, rfl, rfl, rfl⟩

/-- partitioning: the folded positions are the remainders modulo the new length -/
theorem fold_indices_partition (f g : Fp) (b : Nat) (cm : CountsMethod) (h : f.fold b 0 cm = .ok g) :
    g.idx = uniq (f.idx.map (· % b)) := by
  rw [(fold_ok f g b 0 cm h).2.2.2]
  congr 1

/-- compression: the folded positions are the quotients by the length ratio -/
theorem fold_indices_compress (f g : Fp) (b : Nat) (cm : CountsMethod) (h : f.fold b 1 cm = .ok g) :
    g.idx = uniq (f.idx.map (· / (f.bits / b))) := by
  rw [(fold_ok f g b 1 cm h).2.2.2]
  congr 1

/-- bit fingerprints combine collisions with OR: a folded bit is set iff some original bit maps to it -/
theorem fold_or (f g : Fp) (b m : Nat) (cm : CountsMethod) (h : f.fold b m cm = .ok g) (j : Nat) :
    j ∈ g.idx ↔ ∃ i ∈ f.idx, foldIdx m f.bits b i = j := by
  rw [(fold_ok f g b m cm h).2.2.2, mem_uniq, List.mem_map]

end E3fpVerif.Props.C07
