import E3fpVerif.Model.Fprint
import E3fpVerif.Lemmas.Uniq
import E3fpVerif.Lemmas.Pow2
import E3fpVerif.Lemmas.FoldLemmas
import E3fpVerif.Model.Db
import E3fpVerif.Gen.Decisions
/-!
# C07 — folding is index reduction and commutes with every route to a folded result

Statements are about `Fp.fold` (model of `Fingerprint.fold` / `CountFingerprint.fold`), whose index
expressions are the generated `Gen.foldPartition` / `Gen.foldCompress`, i.e. the expressions the
source contains now.
-/
namespace E3fpVerif.Props.C07
open E3fpVerif

/-- what the generated index expressions say -/
theorem foldIdx_partition (a b i : Nat) : foldIdx 0 a b i = i % b := by
  simp [foldIdx, Gen.foldPartition]

theorem foldIdx_compress (a b i : Nat) : foldIdx 1 a b i = i / (a / b) := by
  simp [foldIdx, Gen.foldCompress]

/-- folding succeeds exactly on lengths `b ≤ bits` with `bits = b * 2^n`, and methods 0 and 1 -/
theorem fold_rejects (f : Fp) (b m : Nat) (cm : CountsMethod) (hb : 0 < b) :
    (∃ g, f.fold b m cm = .ok g) ↔ (b ≤ f.bits ∧ (∃ n, f.bits = b * 2 ^ n) ∧ (m = 0 ∨ m = 1)) := by
  unfold Fp.fold
  constructor
  · intro ⟨g, h⟩
    split at h
    · cases h
    · split at h
      · cases h
      · split at h
        · cases h
        · rename_i h1 h2 h3
          refine ⟨by omega, ?_, by omega⟩
          simp only [Bool.not_eq_eq_eq_not, Bool.not_true, Bool.not_eq_false] at h2
          exact (isPow2Multiple_iff _ _ hb).1 h2
  · intro ⟨h1, h2, h3⟩
    have h2' := (isPow2Multiple_iff _ _ hb).2 h2
    rw [if_neg (by omega), h2']
    simp only [Bool.not_true, Bool.false_eq_true, ↓reduceIte]
    rw [if_neg (by omega)]
    exact ⟨_, rfl⟩

/-- shape of a successful fold -/
theorem fold_ok (f g : Fp) (b m : Nat) (cm : CountsMethod) (h : f.fold b m cm = .ok g) :
    g.kind = f.kind ∧ g.bits = b ∧ g.level = f.level ∧
      g.idx = uniq (f.idx.map (foldIdx m f.bits b)) := by
  unfold Fp.fold at h
  split at h
  · cases h
  · split at h
    · cases h
    · split at h
      · cases h
      · cases h; exact ⟨rfl, rfl, rfl, rfl⟩

/-- partitioning: the folded positions are the remainders modulo the new length -/
theorem fold_indices_partition (f g : Fp) (b : Nat) (cm : CountsMethod) (h : f.fold b 0 cm = .ok g) :
    g.idx = uniq (f.idx.map (· % b)) := by
  rw [(fold_ok f g b 0 cm h).2.2.2]
  congr 1

/-- compression: the folded positions are the quotients by the length ratio -/
theorem fold_indices_compress (f g : Fp) (b : Nat) (cm : CountsMethod) (h : f.fold b 1 cm = .ok g) :
    g.idx = uniq (f.idx.map (· / (f.bits / b))) := by
  rw [(fold_ok f g b 1 cm h).2.2.2]
  congr 1

/-- bit fingerprints combine collisions with OR: a folded bit is set iff some original bit maps to it -/
theorem fold_or (f g : Fp) (b m : Nat) (cm : CountsMethod) (h : f.fold b m cm = .ok g) (j : Nat) :
    j ∈ g.idx ↔ ∃ i ∈ f.idx, foldIdx m f.bits b i = j := by
  rw [(fold_ok f g b m cm h).2.2.2, mem_uniq, List.mem_map]


/-! ## the explicit result of a fold -/

/-- everything a successful fold tells us: the acceptance conditions and every field of the result -/
theorem fold_spec (f g : Fp) (b m : Nat) (cm : CountsMethod) (h : f.fold b m cm = .ok g) :
    b ≤ f.bits ∧ 0 < b ∧ (∃ n, f.bits = b * 2 ^ n) ∧ (m = 0 ∨ m = 1) ∧
      g.kind = f.kind ∧ g.bits = b ∧ g.level = f.level ∧
      g.idx = uniq (f.idx.map (foldIdx m f.bits b)) ∧
      (f.kind = .bit → g.cnt = []) ∧
      (f.kind ≠ .bit → g.cnt = (uniq (f.idx.map (foldIdx m f.bits b))).map
          (fun j => (j, coerce f.kind (combine cm ((preimage f b m j).map f.count))))) := by
  unfold Fp.fold at h
  split at h
  · cases h
  · split at h
    · cases h
    · split at h
      · cases h
      · rename_i h1 h2 h3
        simp only [Bool.not_eq_eq_eq_not, Bool.not_true, Bool.not_eq_false] at h2
        obtain ⟨hb, hn⟩ := isPow2Multiple_exists h2
        refine ⟨by omega, hb, hn, by omega, ?_⟩
        cases h
        obtain ⟨kind, bits, level, idx, cnt⟩ := f
        cases kind <;> simp

/-- the converse direction in explicit form: under the acceptance conditions the fold is this value -/
theorem fold_eq_of (f : Fp) (b m : Nat) (cm : CountsMethod) (hb : 0 < b) (hn : ∃ n, f.bits = b * 2 ^ n)
    (hm : m = 0 ∨ m = 1) :
    ∃ g, f.fold b m cm = .ok g := by
  refine (fold_rejects f b m cm hb).2 ⟨?_, hn, hm⟩
  obtain ⟨n, hn⟩ := hn
  rw [hn]
  exact Nat.le_mul_of_pos_right b (Nat.pow_pos (by decide))

theorem count_of_ne_bit (f : Fp) (hk : f.kind ≠ .bit) (i : Nat) : f.count i = lookupQ f.cnt i := by
  unfold Fp.count
  split
  · rename_i h; exact absurd h hk
  · rfl

theorem Fp.ext' (x y : Fp) (h1 : x.kind = y.kind) (h2 : x.bits = y.bits) (h3 : x.level = y.level)
    (h4 : x.idx = y.idx) (h5 : x.cnt = y.cnt) : x = y := by
  cases x; cases y; simp_all

/-! ## target 1: a fold of a well-formed fingerprint is well formed -/

/-- the class invariant survives folding: indices strictly ascending and below the new length, counts
keyed by exactly the indices (no counts for a bit fingerprint).  (`0 < b` is not needed as a
hypothesis: a successful fold implies it.) -/
theorem fold_wf (f g : Fp) (b m : Nat) (cm : CountsMethod) (hf : f.WF) (h : f.fold b m cm = .ok g) :
    g.WF := by
  obtain ⟨_, hb, ⟨n, hn⟩, hm, hk, hbits, _, hidx, hc1, hc2⟩ := fold_spec f g b m cm h
  obtain ⟨_, hlt, _, _⟩ := hf
  refine ⟨?_, ?_, ?_, ?_⟩
  · rw [hidx]; exact strictAsc_uniq _
  · intro j hj
    rw [hidx, mem_uniq, List.mem_map] at hj
    obtain ⟨i, hi, rfl⟩ := hj
    rw [hbits]
    exact foldIdx_lt m f.bits b n i hm hb hn (hlt i hi)
  · intro hk'; exact hc1 (hk ▸ hk')
  · intro hk'
    rw [hc2 (hk ▸ hk'), hidx, map_fst_graph]

/-- the bound alone needs only the bound of the original (not the whole invariant) -/
theorem fold_idx_lt (f g : Fp) (b m : Nat) (cm : CountsMethod) (hlt : ∀ i ∈ f.idx, i < f.bits)
    (h : f.fold b m cm = .ok g) : ∀ j ∈ g.idx, j < b := by
  obtain ⟨_, hb, ⟨n, hn⟩, hm, _, _, _, hidx, _, _⟩ := fold_spec f g b m cm h
  intro j hj
  rw [hidx, mem_uniq, List.mem_map] at hj
  obtain ⟨i, hi, rfl⟩ := hj
  exact foldIdx_lt m f.bits b n i hm hb hn (hlt i hi)

/-! ## target 2: the counts of a fold -/

/-- count / float fingerprints: the folded count at `j` is the combination (sum / max / min) of the
counts of the original positions folding onto `j`, passed through the class's counts setter;
positions nothing folds onto have count 0 -/
theorem fold_count (f g : Fp) (b m : Nat) (cm : CountsMethod) (hk : f.kind ≠ .bit)
    (h : f.fold b m cm = .ok g) (j : Nat) :
    g.count j = if j ∈ g.idx then coerce f.kind (combine cm ((preimage f b m j).map f.count)) else 0 := by
  obtain ⟨_, _, _, _, hk', _, _, hidx, _, hc2⟩ := fold_spec f g b m cm h
  rw [count_of_ne_bit g (hk' ▸ hk), hc2 hk, hidx, lookupQ_graph]

theorem fold_count_mem (f g : Fp) (b m : Nat) (cm : CountsMethod) (hk : f.kind ≠ .bit)
    (h : f.fold b m cm = .ok g) (j : Nat) (hj : j ∈ g.idx) :
    g.count j = coerce f.kind (combine cm ((preimage f b m j).map f.count)) := by
  rw [fold_count f g b m cm hk h j, if_pos hj]

theorem fold_count_not_mem (f g : Fp) (b m : Nat) (cm : CountsMethod) (hk : f.kind ≠ .bit)
    (h : f.fold b m cm = .ok g) (j : Nat) (hj : j ∉ g.idx) : g.count j = 0 := by
  rw [fold_count f g b m cm hk h j, if_neg hj]

/-- bit fingerprints: the folded "count" is the OR of the original bits folding onto `j` -/
theorem fold_count_bit (f g : Fp) (b m : Nat) (cm : CountsMethod) (hk : f.kind = .bit)
    (h : f.fold b m cm = .ok g) (j : Nat) :
    g.count j = if ∃ i ∈ f.idx, foldIdx m f.bits b i = j then 1 else 0 := by
  have hk' : g.kind = .bit := (fold_ok f g b m cm h).1.trans hk
  unfold Fp.count
  rw [hk']
  simp only [fold_or f g b m cm h j]

/-! ## target 3: summing folds conserve the total -/

/-- the counts setter does nothing to a sum of values it does nothing to -/
theorem coerce_sumQ (k : Kind) (l : List Rat) (hl : ∀ q ∈ l, coerce k q = q) : coerce k (sumQ l) = sumQ l := by
  cases k with
  | count => exact truncQ_sumQ l hl
  | bit => rfl
  | float => rfl

theorem mem_preimage (f : Fp) (b m j i : Nat) : i ∈ preimage f b m j ↔ i ∈ f.idx ∧ foldIdx m f.bits b i = j := by
  simp [preimage]

/-- fibre sums of stable values are stable -/
theorem coerce_fibre (f : Fp) (b m j : Nat) (hs : ∀ i ∈ f.idx, coerce f.kind (f.count i) = f.count i) :
    coerce f.kind (sumQ ((preimage f b m j).map f.count)) = sumQ ((preimage f b m j).map f.count) := by
  apply coerce_sumQ
  intro q hq
  obtain ⟨i, hi, rfl⟩ := List.mem_map.1 hq
  exact hs i ((mem_preimage f b m j i).1 hi).1

/-- general form: a summing fold of a count/float fingerprint whose counts the setter leaves alone
conserves the total count.  (No well-formedness needed.) -/
theorem fold_total_gen (f g : Fp) (b m : Nat) (hk : f.kind ≠ .bit)
    (hs : ∀ i ∈ f.idx, coerce f.kind (f.count i) = f.count i)
    (h : f.fold b m .sum = .ok g) :
    sumQ (g.idx.map g.count) = sumQ (f.idx.map f.count) := by
  have hidx := (fold_ok f g b m .sum h).2.2.2
  rw [← sumQ_fibres_uniq f.idx (foldIdx m f.bits b) f.count, ← hidx]
  congr 1
  apply List.map_congr_left
  intro j hj
  rw [fold_count_mem f g b m .sum hk h j hj]
  exact coerce_fibre f b m j hs

/-- float fingerprints: the total is conserved -/
theorem fold_total (f g : Fp) (b m : Nat) (hk : f.kind = .float) (h : f.fold b m .sum = .ok g) :
    sumQ (g.idx.map g.count) = sumQ (f.idx.map f.count) :=
  fold_total_gen f g b m (by rw [hk]; decide) (by intro i _; rw [hk]; rfl) h

/-- count fingerprints with integer counts: the total is conserved -/
theorem fold_total_count (f g : Fp) (b m : Nat) (hk : f.kind = .count)
    (hint : ∀ i ∈ f.idx, truncQ (f.count i) = f.count i) (h : f.fold b m .sum = .ok g) :
    sumQ (g.idx.map g.count) = sumQ (f.idx.map f.count) :=
  fold_total_gen f g b m (by rw [hk]; decide) (by intro i hi; rw [hk]; exact hint i hi) h

/-- and the folded counts of such a fingerprint are again integers -/
theorem fold_count_int (f g : Fp) (b m : Nat) (hk : f.kind = .count)
    (hint : ∀ i ∈ f.idx, truncQ (f.count i) = f.count i) (h : f.fold b m .sum = .ok g) :
    ∀ j ∈ g.idx, truncQ (g.count j) = g.count j := by
  intro j hj
  have hs : ∀ i ∈ f.idx, coerce f.kind (f.count i) = f.count i := by
    intro i hi; rw [hk]; exact hint i hi
  rw [fold_count_mem f g b m .sum (by rw [hk]; decide) h j hj]
  simp only [combine]
  rw [coerce_fibre f b m j hs]
  have := coerce_fibre f b m j hs
  rw [hk] at this
  exact this

/-! ## target 4: folding in two steps reaches the same positions as folding in one -/

/-- both methods, any counts methods: `A → a → b` and `A → b` give the same kind, length, level and
index array -/
theorem fold_fold_idx (f g₁ g₂ g : Fp) (a b m : Nat) (cm₁ cm₂ cm : CountsMethod)
    (h₁ : f.fold a m cm₁ = .ok g₁) (h₂ : g₁.fold b m cm₂ = .ok g₂) (h : f.fold b m cm = .ok g) :
    g₂.kind = g.kind ∧ g₂.bits = g.bits ∧ g₂.level = g.level ∧ g₂.idx = g.idx := by
  obtain ⟨_, _, ⟨k, hk⟩, hm, k1, b1, l1, i1, _, _⟩ := fold_spec f g₁ a m cm₁ h₁
  obtain ⟨_, hb, ⟨l, hl⟩, _, k2, b2, l2, i2, _, _⟩ := fold_spec g₁ g₂ b m cm₂ h₂
  obtain ⟨_, _, _, _, k3, b3, l3, i3, _, _⟩ := fold_spec f g b m cm h
  refine ⟨by rw [k2, k1, k3], by rw [b2, b3], by rw [l2, l1, l3], ?_⟩
  rw [i2, i3, i1, b1]
  apply uniq_ext
  intro x
  simp only [List.mem_map, mem_uniq]
  rw [b1] at hl
  constructor
  · rintro ⟨j, ⟨i, hi, rfl⟩, rfl⟩
    exact ⟨i, hi, (foldIdx_comp m f.bits a b k l i hm hb hk hl).symm⟩
  · rintro ⟨i, hi, rfl⟩
    exact ⟨_, ⟨i, hi, rfl⟩, foldIdx_comp m f.bits a b k l i hm hb hk hl⟩

/-- when the first fold exists, the one-step fold exists too (so `fold_fold_idx` needs only two of
its three hypotheses to be non-vacuous) -/
theorem fold_fold_exists (f g₁ g₂ : Fp) (a b m : Nat) (cm₁ cm₂ cm : CountsMethod)
    (h₁ : f.fold a m cm₁ = .ok g₁) (h₂ : g₁.fold b m cm₂ = .ok g₂) : ∃ g, f.fold b m cm = .ok g := by
  obtain ⟨_, _, ⟨k, hk⟩, hm, _, b1, _, _, _, _⟩ := fold_spec f g₁ a m cm₁ h₁
  obtain ⟨_, hb, ⟨l, hl⟩, _, _, _, _, _, _, _⟩ := fold_spec g₁ g₂ b m cm₂ h₂
  apply fold_eq_of f b m cm hb _ hm
  rw [b1] at hl
  exact ⟨l + k, by rw [hk, hl, Nat.pow_add, Nat.mul_assoc]⟩

/-- bit fingerprints: the two routes give the same fingerprint -/
theorem fold_fold_bit (f g₁ g₂ g : Fp) (a b m : Nat) (cm₁ cm₂ cm : CountsMethod) (hk : f.kind = .bit)
    (h₁ : f.fold a m cm₁ = .ok g₁) (h₂ : g₁.fold b m cm₂ = .ok g₂) (h : f.fold b m cm = .ok g) :
    g₂ = g := by
  obtain ⟨e1, e2, e3, e4⟩ := fold_fold_idx f g₁ g₂ g a b m cm₁ cm₂ cm h₁ h₂ h
  have k1 := (fold_ok f g₁ a m cm₁ h₁).1
  refine Fp.ext' _ _ e1 e2 e3 e4 ?_
  rw [(fold_spec g₁ g₂ b m cm₂ h₂).2.2.2.2.2.2.2.2.1 (k1.trans hk),
    (fold_spec f g b m cm h).2.2.2.2.2.2.2.2.1 hk]

/-! ## target 5: … and, for summing folds, the same counts -/

/-- the fibre sums of the two-step route are the fibre sums of the one-step route -/
theorem fibre_two_step (f g₁ g₂ : Fp) (a b m : Nat) (cm₂ : CountsMethod) (hk : f.kind ≠ .bit)
    (hs : ∀ i ∈ f.idx, coerce f.kind (f.count i) = f.count i)
    (h₁ : f.fold a m .sum = .ok g₁) (h₂ : g₁.fold b m cm₂ = .ok g₂) (x : Nat) :
    sumQ ((preimage g₁ b m x).map g₁.count) = sumQ ((preimage f b m x).map f.count) := by
  obtain ⟨_, _, ⟨k, hk'⟩, hm, _, b1, _, i1, _, _⟩ := fold_spec f g₁ a m .sum h₁
  obtain ⟨_, hb, ⟨l, hl⟩, _, _, _, _, _, _, _⟩ := fold_spec g₁ g₂ b m cm₂ h₂
  rw [b1] at hl
  have hL : (preimage g₁ b m x).map g₁.count
      = ((uniq (f.idx.map (foldIdx m f.bits a))).filter (fun j => decide (foldIdx m a b j = x))).map
          (fun j => sumQ ((f.idx.filter (fun i => decide (foldIdx m f.bits a i = j))).map f.count)) := by
    unfold preimage
    rw [b1, i1]
    apply List.map_congr_left
    intro j hj
    have hj' : j ∈ g₁.idx := by rw [i1]; exact (List.mem_filter.1 hj).1
    rw [fold_count_mem f g₁ a m .sum hk h₁ j hj']
    exact coerce_fibre f a m j hs
  rw [hL, sumQ_fibres_comp]
  unfold preimage
  congr 2
  apply List.filter_congr
  intro i _
  rw [foldIdx_comp m f.bits a b k l i hm hb hk' hl]

/-- count/float fingerprints with setter-stable counts, summing folds: the two routes give the same
count at every position -/
theorem fold_fold_counts_gen (f g₁ g₂ g : Fp) (a b m : Nat) (hk : f.kind ≠ .bit)
    (hs : ∀ i ∈ f.idx, coerce f.kind (f.count i) = f.count i)
    (h₁ : f.fold a m .sum = .ok g₁) (h₂ : g₁.fold b m .sum = .ok g₂) (h : f.fold b m .sum = .ok g)
    (x : Nat) : g₂.count x = g.count x := by
  have k1 := (fold_ok f g₁ a m .sum h₁).1
  have e4 := (fold_fold_idx f g₁ g₂ g a b m .sum .sum .sum h₁ h₂ h).2.2.2
  rw [fold_count g₁ g₂ b m .sum (by rw [k1]; exact hk) h₂ x, fold_count f g b m .sum hk h x, e4, k1]
  simp only [combine]
  rw [fibre_two_step f g₁ g₂ a b m .sum hk hs h₁ h₂ x]

/-- … hence the same fingerprint -/
theorem fold_fold_eq_gen (f g₁ g₂ g : Fp) (a b m : Nat) (hk : f.kind ≠ .bit)
    (hs : ∀ i ∈ f.idx, coerce f.kind (f.count i) = f.count i)
    (h₁ : f.fold a m .sum = .ok g₁) (h₂ : g₁.fold b m .sum = .ok g₂) (h : f.fold b m .sum = .ok g) :
    g₂ = g := by
  obtain ⟨e1, e2, e3, e4⟩ := fold_fold_idx f g₁ g₂ g a b m .sum .sum .sum h₁ h₂ h
  have k1 := (fold_ok f g₁ a m .sum h₁).1
  have i2 := (fold_ok g₁ g₂ b m .sum h₂).2.2.2
  have i3 := (fold_ok f g b m .sum h).2.2.2
  refine Fp.ext' _ _ e1 e2 e3 e4 ?_
  rw [(fold_spec g₁ g₂ b m .sum h₂).2.2.2.2.2.2.2.2.2 (by rw [k1]; exact hk),
    (fold_spec f g b m .sum h).2.2.2.2.2.2.2.2.2 hk, ← i2, ← i3, e4, k1]
  apply List.map_congr_left
  intro j _
  simp only [combine]
  rw [fibre_two_step f g₁ g₂ a b m .sum hk hs h₁ h₂ j]

/-- float fingerprints -/
theorem fold_fold_counts (f g₁ g₂ g : Fp) (a b m : Nat) (hk : f.kind = .float)
    (h₁ : f.fold a m .sum = .ok g₁) (h₂ : g₁.fold b m .sum = .ok g₂) (h : f.fold b m .sum = .ok g)
    (x : Nat) : g₂.count x = g.count x :=
  fold_fold_counts_gen f g₁ g₂ g a b m (by rw [hk]; decide) (by intro i _; rw [hk]; rfl) h₁ h₂ h x

theorem fold_fold_eq (f g₁ g₂ g : Fp) (a b m : Nat) (hk : f.kind = .float)
    (h₁ : f.fold a m .sum = .ok g₁) (h₂ : g₁.fold b m .sum = .ok g₂) (h : f.fold b m .sum = .ok g) :
    g₂ = g :=
  fold_fold_eq_gen f g₁ g₂ g a b m (by rw [hk]; decide) (by intro i _; rw [hk]; rfl) h₁ h₂ h

/-- count fingerprints with integer counts -/
theorem fold_fold_eq_count (f g₁ g₂ g : Fp) (a b m : Nat) (hk : f.kind = .count)
    (hint : ∀ i ∈ f.idx, truncQ (f.count i) = f.count i)
    (h₁ : f.fold a m .sum = .ok g₁) (h₂ : g₁.fold b m .sum = .ok g₂) (h : f.fold b m .sum = .ok g) :
    g₂ = g :=
  fold_fold_eq_gen f g₁ g₂ g a b m (by rw [hk]; decide) (by intro i hi; rw [hk]; exact hint i hi) h₁ h₂ h

/-! ## target 6: the index maps -/

/-- the keys of the unfolding map are the folded indices, in order -/
theorem fold_maps_keys (f g : Fp) (b m : Nat) (cm : CountsMethod) (h : f.fold b m cm = .ok g) :
    (f.unfoldMap b m).map Prod.fst = g.idx := by
  rw [(fold_ok f g b m cm h).2.2.2]
  simp [Fp.unfoldMap, Function.comp_def]

/-- the entries are exactly `(j, preimage j)` for the folded indices `j` -/
theorem fold_maps_entry (f g : Fp) (b m : Nat) (cm : CountsMethod) (h : f.fold b m cm = .ok g)
    (p : Nat × List Nat) :
    p ∈ f.unfoldMap b m ↔ p.1 ∈ g.idx ∧ p.2 = preimage f b m p.1 := by
  rw [(fold_ok f g b m cm h).2.2.2]
  unfold Fp.unfoldMap
  rw [List.mem_map]
  constructor
  · rintro ⟨j, hj, rfl⟩; exact ⟨hj, rfl⟩
  · rintro ⟨h1, h2⟩; exact ⟨p.1, h1, by rw [← h2]⟩

/-- an entry lists exactly the original indices that fold onto its key -/
theorem fold_maps_mem (f : Fp) (b m j : Nat) (l : List Nat) (hp : (j, l) ∈ f.unfoldMap b m) (i : Nat) :
    i ∈ l ↔ i ∈ f.idx ∧ foldIdx m f.bits b i = j := by
  unfold Fp.unfoldMap at hp
  obtain ⟨j', _, e⟩ := List.mem_map.1 hp
  have e1 : j' = j := congrArg Prod.fst e
  have e2 : preimage f b m j' = l := congrArg Prod.snd e
  rw [← e2, e1]
  exact mem_preimage f b m j i

/-- every original index is listed under its image … -/
theorem fold_maps_cover (f : Fp) (b m i : Nat) (hi : i ∈ f.idx) :
    (foldIdx m f.bits b i, preimage f b m (foldIdx m f.bits b i)) ∈ f.unfoldMap b m ∧
      i ∈ preimage f b m (foldIdx m f.bits b i) := by
  constructor
  · unfold Fp.unfoldMap
    exact List.mem_map.2 ⟨_, (mem_uniq _ _).2 (List.mem_map.2 ⟨i, hi, rfl⟩), rfl⟩
  · exact (mem_preimage f b m _ i).2 ⟨hi, rfl⟩

/-- … and under no other key -/
theorem fold_maps_unique (f : Fp) (b m j i : Nat) (l : List Nat) (hp : (j, l) ∈ f.unfoldMap b m)
    (hi : i ∈ l) : j = foldIdx m f.bits b i :=
  ((fold_maps_mem f b m j l hp i).1 hi).2.symm

/-- no entry is empty -/
theorem fold_maps_nonempty (f : Fp) (b m j : Nat) (l : List Nat) (hp : (j, l) ∈ f.unfoldMap b m) :
    l ≠ [] := by
  unfold Fp.unfoldMap at hp
  obtain ⟨j', hj', e⟩ := List.mem_map.1 hp
  have e2 : preimage f b m j' = l := congrArg Prod.snd e
  obtain ⟨i, hi, e⟩ := List.mem_map.1 ((mem_uniq _ _).1 hj')
  intro hnil
  have := (mem_preimage f b m j' i).2 ⟨hi, e⟩
  rw [e2, hnil] at this
  simp at this

/-- the folding map pairs every original index with its image -/
theorem fold_maps_foldMap (f : Fp) (b m : Nat) :
    f.foldMap b m = f.idx.map (fun i => (i, foldIdx m f.bits b i)) := rfl

/-- the two maps are inverse views of one relation -/
theorem fold_maps_inverse (f : Fp) (b m i j : Nat) :
    (i, j) ∈ f.foldMap b m ↔ ∃ l, (j, l) ∈ f.unfoldMap b m ∧ i ∈ l := by
  unfold Fp.foldMap
  rw [List.mem_map]
  constructor
  · rintro ⟨i', hi', e⟩
    cases e
    exact ⟨_, fold_maps_cover f b m i hi'⟩
  · rintro ⟨l, hp, hi⟩
    obtain ⟨h1, h2⟩ := (fold_maps_mem f b m j l hp i).1 hi
    exact ⟨i, h1, by rw [h2]⟩

/-! ## target 7: the database folds a row the way a fingerprint folds (method 0) -/

/-- the row the database computes for a stored row `r` when folding to `bits` columns -/
def dbFoldRow (r : Row) (bits : Nat) : Row :=
  sumDuplicates (r.map (fun p => (Gen.dbFoldIndex p.1 bits, p.2)))

/-- its columns are the distinct remainders, ascending -/
theorem db_fold_row_cols (r : Row) (bits : Nat) :
    (dbFoldRow r bits).map Prod.fst = uniq ((r.map Prod.fst).map (· % bits)) := by
  unfold dbFoldRow sumDuplicates
  rw [map_fst_graph, List.map_map, List.map_map]
  rfl

/-- its value at `j` is the sum of the stored values whose column folds onto `j` (0 if none does) -/
theorem db_fold_row_val (r : Row) (bits j : Nat) :
    lookupQ (dbFoldRow r bits) j
      = if j ∈ uniq ((r.map Prod.fst).map (· % bits))
        then sumQ ((r.filter (fun p => decide (p.1 % bits = j))).map Prod.snd) else 0 := by
  unfold dbFoldRow sumDuplicates
  rw [lookupQ_graph, List.map_map, List.map_map, List.filter_map, List.map_map]
  rfl

/-- the row total is conserved -/
theorem db_fold_row_total (r : Row) (bits : Nat) :
    sumQ ((dbFoldRow r bits).map Prod.snd) = sumQ (r.map Prod.snd) := by
  unfold dbFoldRow sumDuplicates
  rw [List.map_map]
  have e : (r.map (fun p => (Gen.dbFoldIndex p.1 bits, p.2))).map Prod.snd = r.map Prod.snd := by
    rw [List.map_map]; rfl
  rw [← e]
  exact sumQ_fibres (r.map (fun p => (Gen.dbFoldIndex p.1 bits, p.2))) Prod.fst Prod.snd
    (uniq ((r.map (fun p => (Gen.dbFoldIndex p.1 bits, p.2))).map Prod.fst)) (strictAsc_uniq _).nodup
    (fun i hi => (mem_uniq _ _).2 (List.mem_map.2 ⟨i, hi, rfl⟩))

/-- **agreement with `Fp.fold`**: on the row of a float fingerprint, the database's folded row is
the counts dictionary of the fingerprint folded by partitioning with summed counts -/
theorem db_fold_row_eq_fold (f g : Fp) (b : Nat) (hk : f.kind = .float) (h : f.fold b 0 .sum = .ok g) :
    dbFoldRow (fpRow .float f) b = g.cnt := by
  rw [(fold_spec f g b 0 .sum h).2.2.2.2.2.2.2.2.2 (by rw [hk]; decide)]
  unfold dbFoldRow sumDuplicates fpRow
  simp only [List.map_map, List.filter_map, hk]
  rfl


theorem castVal_eq_coerce (k : Kind) (hk : k ≠ .bit) (v : Rat) : castVal k v = coerce k v := by
  cases k with
  | bit => exact absurd rfl hk
  | count => rfl
  | float => rfl

/-- the same for any count/float fingerprint with setter-stable counts (integer counts, for the count
kind): the database row, cast back to the database's dtype, is the folded fingerprint's dictionary -/
theorem db_fold_row_eq_fold_gen (f g : Fp) (b : Nat) (hk : f.kind ≠ .bit)
    (hs : ∀ i ∈ f.idx, coerce f.kind (f.count i) = f.count i) (h : f.fold b 0 .sum = .ok g) :
    (dbFoldRow (fpRow f.kind f) b).map (fun p => (p.1, castVal f.kind p.2)) = g.cnt := by
  have e : fpRow f.kind f = f.idx.map (fun i => (i, f.count i)) := by
    unfold fpRow
    apply List.map_congr_left
    intro i hi
    rw [castVal_eq_coerce _ hk, hs i hi]
  rw [(fold_spec f g b 0 .sum h).2.2.2.2.2.2.2.2.2 hk, e]
  unfold dbFoldRow sumDuplicates
  simp only [List.map_map, List.filter_map, Function.comp_def, castVal_eq_coerce _ hk]
  rfl

/-- the stored row of a folded float fingerprint is its counts dictionary -/
theorem fpRow_fold (f g : Fp) (b m : Nat) (cm : CountsMethod) (hk : f.kind = .float)
    (h : f.fold b m cm = .ok g) : fpRow .float g = g.cnt := by
  have hk' : f.kind ≠ .bit := by rw [hk]; decide
  obtain ⟨_, _, _, _, _, _, _, hidx, _, hc2⟩ := fold_spec f g b m cm h
  unfold fpRow
  rw [hc2 hk', ← hidx]
  apply List.map_congr_left
  intro j hj
  rw [fold_count_mem f g b m cm hk' h j hj]
  rfl

/-- **store-then-fold = fold-then-store** for one float fingerprint -/
theorem db_fold_row_commutes (f g : Fp) (b : Nat) (hk : f.kind = .float) (h : f.fold b 0 .sum = .ok g) :
    dbFoldRow (fpRow .float f) b = fpRow .float g := by
  rw [db_fold_row_eq_fold f g b hk h, fpRow_fold f g b 0 .sum hk h]

/-- `from_array`'s property loop leaves the matrix, length, kind and level alone -/
theorem fromArray_go_fields (ps : List (String × List PVal)) : ∀ (acc : Db),
    (Db.fromArray.go acc ps).1.array = acc.array ∧ (Db.fromArray.go acc ps).1.bits = acc.bits ∧
    (Db.fromArray.go acc ps).1.fpType = acc.fpType ∧ (Db.fromArray.go acc ps).1.level = acc.level := by
  induction ps with
  | nil => intro acc; simp [Db.fromArray.go]
  | cons p ps ih =>
    intro acc
    obtain ⟨k, v⟩ := p
    unfold Db.fromArray.go
    split
    · simp
    · have := ih { acc with props := colSet acc.props k v }
      simpa using this

/-- what a successful `Db.fold` produces: every stored row is folded by `dbFoldRow` (remainders of the
columns, equal columns summed), cast to the source dtype, then to the target dtype -/
theorem db_fold_rows (db d : Db) (a : List Row) (bits : Nat) (k : Option Kind) (nm : Option String)
    (ha : db.array = some a) (h : db.fold bits k nm = .ok d) :
    0 < bits ∧ (∃ n, db.bits = bits * 2 ^ n) ∧ d.bits = bits ∧ d.fpType = k.getD db.fpType ∧
    d.level = db.level ∧
    d.array = some (a.map (fun r => ((dbFoldRow r bits).map (fun p => (p.1, castVal db.fpType p.2))).map
      (fun p => (p.1, castVal (k.getD db.fpType) p.2)))) := by
  unfold Db.fold at h
  rw [ha] at h
  simp only at h
  split at h
  · cases h
  · split at h
    · cases h
    · rename_i h1 h2
      simp only [Bool.not_eq_eq_eq_not, Bool.not_true, Bool.not_eq_false] at h2
      obtain ⟨hb, hn⟩ := isPow2Multiple_exists h2
      split at h
      · rename_i d' heq
        cases h
        unfold Db.fromArray at heq
        have hd := congrArg Prod.fst heq
        simp only at hd
        refine ⟨hb, hn, ?_, ?_, ?_, ?_⟩ <;> rw [← hd]
        · exact (fromArray_go_fields _ _).2.1
        · exact (fromArray_go_fields _ _).2.2.1
        · exact (fromArray_go_fields _ _).2.2.2
        · refine (fromArray_go_fields _ _).1.trans ?_
          simp only [List.map_map, Function.comp_def, dbFoldRow]
      · cases h

/-- **a float database folds to the database of the folded fingerprints**: if the rows are the stored
rows of float fingerprints `fs` and `G f` is the partition/sum fold of each `f`, the folded
database's rows are the stored rows of the `G f` -/
theorem db_fold_commutes (db d : Db) (fs : List Fp) (G : Fp → Fp) (b : Nat) (nm : Option String)
    (hT : db.fpType = .float) (ha : db.array = some (fs.map (fpRow .float)))
    (hk : ∀ f ∈ fs, f.kind = .float) (hG : ∀ f ∈ fs, f.fold b 0 .sum = .ok (G f))
    (h : db.fold b none nm = .ok d) :
    d.bits = b ∧ d.fpType = .float ∧ d.array = some (fs.map (fun f => fpRow .float (G f))) := by
  obtain ⟨_, _, e1, e2, _, e3⟩ := db_fold_rows db d _ b none nm ha h
  refine ⟨e1, by rw [e2, hT]; rfl, ?_⟩
  rw [e3, hT, List.map_map]
  congr 1
  apply List.map_congr_left
  intro f hf
  simp only [Function.comp_def, Option.getD_none, List.map_map]
  rw [db_fold_row_commutes f (G f) b (hk f hf) (hG f hf)]
  simp [castVal]

/-- acceptance of a database fold (database without property columns) -/
theorem db_fold_exists (db : Db) (a : List Row) (bits : Nat) (k : Option Kind) (nm : Option String)
    (ha : db.array = some a) (hp : db.props = []) (hb : 0 < bits) (hn : ∃ n, db.bits = bits * 2 ^ n) :
    ∃ d, db.fold bits k nm = .ok d := by
  have hle : ¬ bits > db.bits := by
    obtain ⟨n, hn⟩ := hn
    have : bits ≤ bits * 2 ^ n := Nat.le_mul_of_pos_right bits (Nat.pow_pos (by decide))
    omega
  unfold Db.fold
  rw [ha]
  simp only
  rw [if_neg hle, (isPow2Multiple_iff _ _ hb).2 hn, hp]
  simp [Db.fromArray, Db.fromArray.go]

/-! ## folding to the same length -/

/-- folding a well-formed fingerprint to its own length keeps the index array (both methods) -/
theorem fold_self_idx (f g : Fp) (m : Nat) (cm : CountsMethod) (hf : f.WF)
    (h : f.fold f.bits m cm = .ok g) : g.idx = f.idx := by
  obtain ⟨_, hb, _, hm, _, _, _, hidx, _, _⟩ := fold_spec f g f.bits m cm h
  have : f.idx.map (foldIdx m f.bits f.bits) = f.idx := by
    have : f.idx.map (foldIdx m f.bits f.bits) = f.idx.map id := by
      apply List.map_congr_left
      intro i hi
      rcases hm with rfl | rfl
      · rw [foldIdx_zero]; exact Nat.mod_eq_of_lt (hf.2.1 i hi)
      · rw [foldIdx_one, Nat.div_self hb]; simp
    rw [this, List.map_id]
  rw [hidx, this]
  exact uniq_of_strictAsc _ hf.1

/-! ## non-vacuity: concrete fingerprints satisfying the hypotheses above -/

section Examples

/-- bit, float and count fingerprints of length 8 on the positions 1, 3, 5, 6 -/
def exBit : Fp := ⟨.bit, 8, 5, [1, 3, 5, 6], []⟩
def exFloat : Fp := ⟨.float, 8, 5, [1, 3, 5, 6], [(1, 2), (3, 1), (5, 4), (6, 3)]⟩
def exCount : Fp := ⟨.count, 8, 5, [1, 3, 5, 6], [(1, 2), (3, 1), (5, 4), (6, 3)]⟩

theorem exBit_wf : exBit.WF := ⟨by decide, by decide, fun _ => rfl, fun h => (h rfl).elim⟩
theorem exFloat_wf : exFloat.WF := ⟨by decide, by decide, by decide, fun _ => by decide⟩
theorem exCount_wf : exCount.WF := ⟨by decide, by decide, by decide, fun _ => by decide⟩

theorem exCount_int : ∀ i ∈ exCount.idx, truncQ (exCount.count i) = exCount.count i := by
  intro i hi
  apply (truncQ_fixed_iff _).2
  simp only [exCount, List.mem_cons, List.not_mem_nil, or_false] at hi
  rcases hi with rfl | rfl | rfl | rfl
  · exact ⟨2, by simp [Fp.count, exCount, lookupQ]⟩
  · exact ⟨1, by simp [Fp.count, exCount, lookupQ]⟩
  · exact ⟨4, by simp [Fp.count, exCount, lookupQ]⟩
  · exact ⟨3, by simp [Fp.count, exCount, lookupQ]⟩

/-- every fingerprint of length 8 folds to 4 and to 2 by either method, and the 4-fold folds on to 2 -/
theorem ex_folds (f : Fp) (hf : f.bits = 8) (m : Nat) (hm : m = 0 ∨ m = 1) (cm : CountsMethod) :
    ∃ g₁ g₂ g, f.fold 4 m cm = .ok g₁ ∧ g₁.fold 2 m cm = .ok g₂ ∧ f.fold 2 m cm = .ok g := by
  obtain ⟨g₁, h₁⟩ := fold_eq_of f 4 m cm (by decide) ⟨1, by rw [hf]⟩ hm
  obtain ⟨g₂, h₂⟩ := fold_eq_of g₁ 2 m cm (by decide) ⟨1, by rw [(fold_ok _ _ _ _ _ h₁).2.1]⟩ hm
  obtain ⟨g, h⟩ := fold_eq_of f 2 m cm (by decide) ⟨2, by rw [hf]⟩ hm
  exact ⟨g₁, g₂, g, h₁, h₂, h⟩

/-- `fold_wf`, `fold_idx_lt`, `fold_count_bit`, `fold_maps_*`: a bit fingerprint, compression -/
example : ∃ g, exBit.fold 4 1 .sum = .ok g ∧ g.WF ∧ g.idx = [0, 1, 2, 3] ∧
    (exBit.unfoldMap 4 1).map Prod.fst = g.idx := by
  obtain ⟨g, _, _, hg, _, _⟩ := ex_folds exBit rfl 1 (.inr rfl) .sum
  exact ⟨g, hg, fold_wf exBit g 4 1 .sum exBit_wf hg, by rw [(fold_ok _ _ _ _ _ hg).2.2.2]; decide,
    fold_maps_keys exBit g 4 1 .sum hg⟩

/-- … and partitioning: positions 1 and 5 collide -/
example : ∃ g, exBit.fold 4 0 .sum = .ok g ∧ g.WF ∧ g.idx = [1, 2, 3] ∧
    exBit.unfoldMap 4 0 = [(1, [1, 5]), (2, [6]), (3, [3])] ∧
    exBit.foldMap 4 0 = [(1, 1), (3, 3), (5, 1), (6, 2)] := by
  obtain ⟨g, _, _, hg, _, _⟩ := ex_folds exBit rfl 0 (.inl rfl) .sum
  exact ⟨g, hg, fold_wf exBit g 4 0 .sum exBit_wf hg, by rw [(fold_ok _ _ _ _ _ hg).2.2.2]; decide,
    by decide, by decide⟩

/-- `fold_wf`, `fold_count`, `fold_total`: a float fingerprint -/
example : ∃ g, exFloat.fold 4 0 .sum = .ok g ∧ g.WF ∧
    (∀ j ∈ g.idx, g.count j = sumQ ((preimage exFloat 4 0 j).map exFloat.count)) ∧
    (∀ j, j ∉ g.idx → g.count j = 0) ∧
    sumQ (g.idx.map g.count) = sumQ (exFloat.idx.map exFloat.count) := by
  obtain ⟨g, _, _, hg, _, _⟩ := ex_folds exFloat rfl 0 (.inl rfl) .sum
  exact ⟨g, hg, fold_wf exFloat g 4 0 .sum exFloat_wf hg,
    fun j hj => fold_count_mem exFloat g 4 0 .sum (by decide) hg j hj,
    fun j hj => fold_count_not_mem exFloat g 4 0 .sum (by decide) hg j hj,
    fold_total exFloat g 4 0 rfl hg⟩

/-- `fold_total_count`, `fold_count_int`: a count fingerprint with integer counts -/
example : ∃ g, exCount.fold 4 1 .sum = .ok g ∧ g.WF ∧
    sumQ (g.idx.map g.count) = sumQ (exCount.idx.map exCount.count) ∧
    (∀ j ∈ g.idx, truncQ (g.count j) = g.count j) := by
  obtain ⟨g, _, _, hg, _, _⟩ := ex_folds exCount rfl 1 (.inr rfl) .sum
  exact ⟨g, hg, fold_wf exCount g 4 1 .sum exCount_wf hg,
    fold_total_count exCount g 4 1 rfl exCount_int hg, fold_count_int exCount g 4 1 rfl exCount_int hg⟩

/-- `fold_fold_idx`, `fold_fold_bit`: 8 → 4 → 2 against 8 → 2, both methods -/
example (m : Nat) (hm : m = 0 ∨ m = 1) :
    ∃ g₁ g₂ g, exBit.fold 4 m .sum = .ok g₁ ∧ g₁.fold 2 m .sum = .ok g₂ ∧ exBit.fold 2 m .sum = .ok g ∧
      g₂.idx = g.idx ∧ g₂ = g := by
  obtain ⟨g₁, g₂, g, h₁, h₂, h⟩ := ex_folds exBit rfl m hm .sum
  exact ⟨g₁, g₂, g, h₁, h₂, h, (fold_fold_idx exBit g₁ g₂ g 4 2 m .sum .sum .sum h₁ h₂ h).2.2.2,
    fold_fold_bit exBit g₁ g₂ g 4 2 m .sum .sum .sum rfl h₁ h₂ h⟩

/-- `fold_fold_counts`, `fold_fold_eq`: float -/
example (m : Nat) (hm : m = 0 ∨ m = 1) :
    ∃ g₁ g₂ g, exFloat.fold 4 m .sum = .ok g₁ ∧ g₁.fold 2 m .sum = .ok g₂ ∧ exFloat.fold 2 m .sum = .ok g ∧
      (∀ x, g₂.count x = g.count x) ∧ g₂ = g := by
  obtain ⟨g₁, g₂, g, h₁, h₂, h⟩ := ex_folds exFloat rfl m hm .sum
  exact ⟨g₁, g₂, g, h₁, h₂, h, fold_fold_counts exFloat g₁ g₂ g 4 2 m rfl h₁ h₂ h,
    fold_fold_eq exFloat g₁ g₂ g 4 2 m rfl h₁ h₂ h⟩

/-- `fold_fold_eq_count`: count with integer counts -/
example (m : Nat) (hm : m = 0 ∨ m = 1) :
    ∃ g₁ g₂ g, exCount.fold 4 m .sum = .ok g₁ ∧ g₁.fold 2 m .sum = .ok g₂ ∧ exCount.fold 2 m .sum = .ok g ∧
      g₂ = g := by
  obtain ⟨g₁, g₂, g, h₁, h₂, h⟩ := ex_folds exCount rfl m hm .sum
  exact ⟨g₁, g₂, g, h₁, h₂, h, fold_fold_eq_count exCount g₁ g₂ g 4 2 m rfl exCount_int h₁ h₂ h⟩

/-- `db_fold_row_eq_fold`, `db_fold_row_commutes`, `db_fold_commutes`: a one-row float database -/
def exDb : Db :=
  { fpType := .float, level := 5, name := none, array := some [fpRow .float exFloat], bits := 8,
    fpNames := [none], namesMap := [(none, [0])], props := [] }

example : ∃ g d, exFloat.fold 4 0 .sum = .ok g ∧ exDb.fold 4 none none = .ok d ∧
    d.bits = 4 ∧ d.array = some [fpRow .float g] ∧ (dbFoldRow (fpRow .float exFloat) 4).map Prod.fst = [1, 2, 3] := by
  obtain ⟨g, _, _, hg, _, _⟩ := ex_folds exFloat rfl 0 (.inl rfl) .sum
  obtain ⟨d, hd⟩ := db_fold_exists exDb [fpRow .float exFloat] 4 none none rfl rfl (by decide) ⟨1, by decide⟩
  have := db_fold_commutes exDb d [exFloat] (fun _ => g) 4 none rfl rfl
    (by intro f hf; rw [List.mem_singleton.1 hf]; rfl) (by intro f hf; rw [List.mem_singleton.1 hf]; exact hg) hd
  refine ⟨g, d, hg, hd, this.1, this.2.2, ?_⟩
  rw [db_fold_row_cols]
  decide

/-! ### the hypotheses are needed -/

/-- `fold_wf` needs the bound of the original: compression of a stray position leaves the range -/
example : ∃ f g : Fp, f.fold 4 1 .sum = .ok g ∧ ¬ g.WF := by
  obtain ⟨g, hg⟩ := fold_eq_of ⟨.bit, 8, 0, [9], []⟩ 4 1 .sum (by decide) ⟨1, by decide⟩ (.inr rfl)
  refine ⟨_, g, hg, ?_⟩
  intro hwf
  have hidx : g.idx = [4] := by rw [(fold_ok _ _ _ _ _ hg).2.2.2]; decide
  have := hwf.2.1 4 (by rw [hidx]; simp)
  rw [(fold_ok _ _ _ _ _ hg).2.1] at this
  omega

/-- `fold_total_count` needs integer counts: the counts setter truncates the fibre sum.  (A count
fingerprint made by the constructors always has integer counts; this one is well formed in the
sense of `Fp.WF` only.) -/
def exHalf : Fp := ⟨.count, 2, 0, [1], [(1, 1/2)]⟩
theorem exHalf_wf : exHalf.WF := ⟨by decide, by decide, by decide, fun _ => by decide⟩

example : ∃ g, exHalf.fold 2 0 .sum = .ok g ∧
    sumQ (g.idx.map g.count) ≠ sumQ (exHalf.idx.map exHalf.count) := by
  obtain ⟨g, hg⟩ := fold_eq_of exHalf 2 0 .sum (by decide) ⟨0, by decide⟩ (.inl rfl)
  refine ⟨g, hg, ?_⟩
  have hidx : g.idx = [1] := by rw [(fold_ok _ _ _ _ _ hg).2.2.2]; decide
  have hc := fold_count_mem exHalf g 2 0 .sum (by decide) hg 1 (by rw [hidx]; simp)
  rw [hidx]
  simp only [List.map_cons, List.map_nil, sumQ]
  rw [hc]
  decide +kernel

/-- `fold_self_idx` on the running example -/
example : ∃ g, exBit.fold 8 0 .sum = .ok g ∧ g.idx = exBit.idx := by
  obtain ⟨g, hg⟩ := fold_eq_of exBit 8 0 .sum (by decide) ⟨0, by decide⟩ (.inl rfl)
  exact ⟨g, hg, fold_self_idx exBit g 0 .sum exBit_wf hg⟩

end Examples

/-! ## the refusal guards, as the source states them now

`Gen.foldGuard` / `Gen.dbFoldGuard` are translated test by test from the leading `if …: raise …` statements of
`Fingerprint.fold` and `FingerprintDatabase.fold` (which test, in which order, which exception class); `pow2 a b` stands for
the float test `np.log2(a / b).is_integer()`, read as "a is b times a power of two" (`isPow2Multiple`, see `isPow2Multiple_iff`). -/

/-- error enum of the generated guards ↦ the model's -/
def guardErr : Gen.GuardErr → Err
  | .bitsValue => .bitsValue | .option => .option | .invalidFp => .invalidFp | .counts => .counts
  | .value => .value | .type => .type | .key => .key | .index => .index

/-- the model of `Fingerprint.fold` refuses exactly when the source's guards do, with the same exception, and succeeds otherwise -/
theorem fold_guard (f : Fp) (bits method : Nat) (cm : CountsMethod) :
    match Gen.foldGuard isPow2Multiple f.bits bits method with
    | some e => f.fold bits method cm = .error (guardErr e)
    | none => ∃ g, f.fold bits method cm = .ok g := by
  unfold Gen.foldGuard Fp.fold
  by_cases h1 : bits > f.bits
  · simp [h1, guardErr]
  · by_cases h2 : isPow2Multiple f.bits bits = true
    · by_cases h3 : method = 0
      · simp [h1, h2, h3]
      · by_cases h4 : method = 1
        · simp [h1, h2, h4]
        · simp [h1, h2, h3, h4, guardErr]
    · simp [h1, h2, guardErr]

/-- the same for `FingerprintDatabase.fold` on a database that holds a matrix -/
theorem dbFold_guard (db : Db) (a : List (List (Nat × Rat))) (ha : db.array = some a) (bits : Nat) (k : Option Kind) (nm : Option String) :
    match Gen.dbFoldGuard isPow2Multiple db.bits bits with
    | some e => db.fold bits k nm = .error (guardErr e)
    | none => True := by
  unfold Gen.dbFoldGuard Db.fold
  by_cases h1 : bits > db.bits
  · simp [ha, h1, guardErr]
  · by_cases h2 : isPow2Multiple db.bits bits = true
    · simp [h1, h2]
    · simp [ha, h1, h2, guardErr]

end E3fpVerif.Props.C07
