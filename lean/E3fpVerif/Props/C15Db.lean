import E3fpVerif.Model.Batch
import E3fpVerif.Model.BatchDb
import E3fpVerif.Lemmas.DbHistOps
import E3fpVerif.Props.C15
import E3fpVerif.Props.C16Hist
/-!
# C15 ∘ C05 — the database a batch run builds does not depend on the completion order

`dbOfBatch` (`Model/BatchDb.lean`) folds `add_fingerprints` over the per-input results of a batch.
`dbOfBatch_spec`: when every addition is accepted, the database is, as a list of rows, the flattened
results in order, each fingerprint stored through `fpRow`, with the columns of the very first
fingerprint.  `dbOfBatch_perm`: two completion orders give row lists that are permutations of each
other and the same kind, level, length and columns — provided all fingerprints carry the same property
keys (otherwise the first fingerprint to arrive dictates the columns: `keys_hypothesis_needed`).
`dbOfBatch_batchRows`, `schedule_free_db` connect with `batchRows` / `schedule_free` of C15.
-/
namespace E3fpVerif.Props.C15Db
open E3fpVerif

/-! ## the collector loop on the specification -/

def sOfBatchFrom (s : SDb) : List (List FpIn) → SDb × List Ans
  | [] => (s, [])
  | fps :: rest =>
    if fps.isEmpty then sOfBatchFrom s rest
    else
      let r := s.add fps
      let q := sOfBatchFrom r.1 rest
      (q.1, r.2 :: q.2)

/-- the loop on the operational model refines the loop on the specification -/
theorem dbOfBatchFrom_refines (results : List (List FpIn)) : ∀ (db : Db), db.Inv →
    (dbOfBatchFrom db results).1.Inv ∧
      ((dbOfBatchFrom db results).1.spec, (dbOfBatchFrom db results).2) = sOfBatchFrom db.spec results := by
  induction results with
  | nil => intro db h; exact ⟨h, rfl⟩
  | cons fps rest ih =>
    intro db h
    unfold dbOfBatchFrom sOfBatchFrom
    by_cases he : fps.isEmpty = true
    · simp only [he, if_true]; exact ih db h
    · simp only [he, if_false, Bool.false_eq_true]
      have hr := add_refines db fps h
      obtain ⟨i1, i2⟩ := ih (db.add fps).1 (C05.inv_add_always db fps h)
      refine ⟨i1, ?_⟩
      have e1 : (db.spec.add fps).1 = (db.add fps).1.spec := (congrArg Prod.fst hr).symm
      have e2 : (db.spec.add fps).2 = (db.add fps).2 := (congrArg Prod.snd hr).symm
      rw [e1, e2, ← i2]

/-! ## accepted additions on the specification -/

theorem spec_add_ok (s : SDb) (fps : List FpIn) (h : (s.add fps).2 = none) :
    (s.add fps).1 = { s with bits := some (s.expectedBits fps), keys := s.expectedKeys fps,
                             rows := s.rows ++ fps.map (addRow s.kind (s.expectedKeys fps)) } ∧
      ∀ f ∈ fps, f.fp.level = s.level ∧ f.fp.bits = s.expectedBits fps := by
  have hn : ¬ (s.add fps).2.isSome := by rw [h]; simp
  rw [C16Hist.add_refused_iff] at hn
  simp only [not_or, not_exists, not_and, Decidable.not_not] at hn
  obtain ⟨h0, h1, h2, h3⟩ := hn
  have c0 : fps.isEmpty = false := by cases fps <;> simp_all
  have c1 : fps.any (fun f => f.fp.level != s.level) = false := by
    rw [List.any_eq_false]; intro f hf; simp [h1 f hf]
  have c2 : fps.any (fun f => f.fp.bits != s.expectedBits fps) = false := by
    rw [List.any_eq_false]; intro f hf; simp [h2 f hf]
  have c3 : fps.any (fun f => (s.expectedKeys fps).any (fun k => (propLookup f.props k).isNone)) = false := by
    rw [List.any_eq_false]; intro f hf
    simp only [Bool.not_eq_true, List.any_eq_false]
    intro k hk
    cases hp : propLookup f.props k with
    | none => exact absurd hp (h3 f hf k hk)
    | some v => simp
  refine ⟨?_, fun f hf => ⟨h1 f hf, h2 f hf⟩⟩
  unfold SDb.add
  simp only [c0, c1, c2, c3, Bool.false_eq_true, if_false]
  rfl

/-- additions to a database that has rows: columns and length stay, rows are appended -/
theorem sOfBatchFrom_rows (results : List (List FpIn)) : ∀ (s : SDb) (b : Nat), s.rows ≠ [] → s.bits = some b →
    (∀ a ∈ (sOfBatchFrom s results).2, a = none) →
    (sOfBatchFrom s results).1 = { s with rows := s.rows ++ results.flatten.map (addRow s.kind s.keys) } ∧
      ∀ f ∈ results.flatten, f.fp.level = s.level ∧ f.fp.bits = b := by
  induction results with
  | nil => intro s b _ _ _; simp [sOfBatchFrom]
  | cons fps rest ih =>
    intro s b hne hb hacc
    unfold sOfBatchFrom at hacc ⊢
    by_cases he : fps.isEmpty = true
    · simp only [he, if_true] at hacc ⊢
      have : fps = [] := List.isEmpty_iff.1 he
      subst this
      simpa using ih s b hne hb hacc
    · simp only [he, if_false, Bool.false_eq_true] at hacc ⊢
      have hok : (s.add fps).2 = none := hacc _ (by simp)
      obtain ⟨h1, h2⟩ := spec_add_ok s fps hok
      have hpos : s.rows.length > 0 := List.length_pos_iff.2 hne
      have hk : s.expectedKeys fps = s.keys := by simp [SDb.expectedKeys, hpos]
      have hbits : s.expectedBits fps = b := by simp [SDb.expectedBits, hpos, hb]
      rw [hk, hbits] at h1
      have hne' : (s.add fps).1.rows ≠ [] := by
        rw [h1]; simp [hne]
      have hb' : (s.add fps).1.bits = some b := by rw [h1]
      obtain ⟨i1, i2⟩ := ih (s.add fps).1 b hne' hb' (fun a ha => hacc a (by simp [ha]))
      constructor
      · rw [i1, h1]
        simp [List.flatten_cons, List.map_append, List.append_assoc, hb]
      · intro f hf
        simp only [List.flatten_cons, List.mem_append] at hf
        rcases hf with hf | hf
        · exact ⟨(h2 f hf).1, by rw [(h2 f hf).2, hbits]⟩
        · have := i2 f hf
          rw [h1] at this
          exact this

/-- the row list a batch leaves in a fresh database: nothing, or the flattened results with the columns
and the length of the first fingerprint -/
def batchSpec (k : Kind) (level : Int) (name : Option String) (all : List FpIn) : SDb :=
  match all with
  | [] => SDb.new k level name
  | f0 :: _ =>
    { kind := k, level := level, name := name, bits := some f0.fp.bits,
      keys := dedupKeys (f0.props.map Prod.fst),
      rows := all.map (addRow k (dedupKeys (f0.props.map Prod.fst))) }

theorem sOfBatchFrom_new (k : Kind) (level : Int) (name : Option String) (results : List (List FpIn))
    (hacc : ∀ a ∈ (sOfBatchFrom (SDb.new k level name) results).2, a = none) :
    (sOfBatchFrom (SDb.new k level name) results).1 = batchSpec k level name results.flatten ∧
      ∀ f ∈ results.flatten, f.fp.level = level ∧ (∀ f0 ∈ results.flatten.head?, f.fp.bits = f0.fp.bits) := by
  induction results with
  | nil => simp [sOfBatchFrom, batchSpec]
  | cons fps rest ih =>
    unfold sOfBatchFrom at hacc ⊢
    cases fps with
    | nil =>
      simp only [List.isEmpty_nil, if_true] at hacc ⊢
      simpa using ih hacc
    | cons f0 fr =>
      simp only [List.isEmpty_cons, Bool.false_eq_true, if_false] at hacc ⊢
      have hok : ((SDb.new k level name).add (f0 :: fr)).2 = none := hacc _ (by simp)
      obtain ⟨h1, h2⟩ := spec_add_ok _ _ hok
      have hk : (SDb.new k level name).expectedKeys (f0 :: fr) = dedupKeys (f0.props.map Prod.fst) := by
        simp [SDb.expectedKeys, SDb.new]
      have hbits : (SDb.new k level name).expectedBits (f0 :: fr) = f0.fp.bits := by
        simp [SDb.expectedBits, SDb.new]
      rw [hk, hbits] at h1
      obtain ⟨i1, i2⟩ := sOfBatchFrom_rows rest ((SDb.new k level name).add (f0 :: fr)).1 f0.fp.bits
        (by rw [h1]; simp [SDb.new]) (by rw [h1]) (fun a ha => hacc a (by simp [ha]))
      constructor
      · rw [i1, h1]
        simp [batchSpec, SDb.new, List.flatten_cons]
      · intro f hf
        simp only [List.flatten_cons, List.cons_append, List.head?_cons, Option.mem_def, Option.some.injEq]
        simp only [List.flatten_cons, List.mem_append] at hf
        rcases hf with hf | hf
        · refine ⟨(h2 f hf).1, fun g hg => ?_⟩
          subst hg; rw [(h2 f hf).2, hbits]
        · have := i2 f hf
          rw [h1] at this
          exact ⟨this.1, fun g hg => by subst hg; exact this.2⟩

/-! ## the database of a batch -/

/-- every addition of the batch was accepted -/
def Accepted (r : Db × List Ans) : Prop := ∀ a ∈ r.2, a = none

/-- **the database of an accepted batch is, as a list of rows, the flattened results in completion
order**, each fingerprint stored as `fpRow` with its name and the values of the columns fixed by the
first fingerprint; the invariant holds, and all fingerprints have the database's level and length -/
theorem dbOfBatch_spec (k : Kind) (level : Int) (name : Option String) (results : List (List FpIn))
    (hacc : Accepted (dbOfBatch k level name results)) :
    (dbOfBatch k level name results).1.Inv ∧
      (dbOfBatch k level name results).1.spec = batchSpec k level name results.flatten ∧
      ∀ f ∈ results.flatten, f.fp.level = level ∧ (∀ f0 ∈ results.flatten.head?, f.fp.bits = f0.fp.bits) := by
  obtain ⟨h1, h2⟩ := dbOfBatchFrom_refines results (Db.new k level name) (C05.inv_new k level name)
  have e1 := congrArg Prod.fst h2
  have e2 := congrArg Prod.snd h2
  simp only at e1 e2
  have hacc' : ∀ a ∈ (sOfBatchFrom (SDb.new k level name) results).2, a = none := by
    have : (Db.new k level name).spec = SDb.new k level name := rfl
    rw [← this, ← e2]; exact hacc
  obtain ⟨s1, s2⟩ := sOfBatchFrom_new k level name results hacc'
  exact ⟨h1, by unfold dbOfBatch; rw [e1]; exact s1, s2⟩

theorem batchSpec_rows_cells (k : Kind) (level : Int) (name : Option String) (all : List FpIn) :
    (batchSpec k level name all).rows.map (fun r => (r.cells, r.name)) = all.map (fun f => (fpRow k f.fp, f.name)) := by
  cases all with
  | nil => rfl
  | cons f0 r => simp [batchSpec, addRow, List.map_map, Function.comp_def]

/-- **another completion order gives the same database up to the order of the rows**: same kind, level,
name, length and columns, and row lists that are permutations of each other — provided both runs are
accepted and all fingerprints carry the same (de-duplicated) property keys `K` -/
theorem dbOfBatch_perm (k : Kind) (level : Int) (name : Option String) (results results' : List (List FpIn))
    (K : List String) (hp : results'.Perm results)
    (hacc : Accepted (dbOfBatch k level name results)) (hacc' : Accepted (dbOfBatch k level name results'))
    (hK : ∀ f ∈ results.flatten, dedupKeys (f.props.map Prod.fst) = K) :
    let d := (dbOfBatch k level name results).1
    let d' := (dbOfBatch k level name results').1
    d'.absRows.Perm d.absRows ∧ d'.spec.kind = d.spec.kind ∧ d'.spec.level = d.spec.level ∧
      d'.spec.name = d.spec.name ∧ d'.spec.bits = d.spec.bits ∧ d'.spec.keys = d.spec.keys := by
  intro d d'
  obtain ⟨_, s1, b1⟩ := dbOfBatch_spec k level name results hacc
  obtain ⟨_, s2, _⟩ := dbOfBatch_spec k level name results' hacc'
  have hperm : results'.flatten.Perm results.flatten := by
    have := hp.flatMap_right (fun x => x)
    simpa [List.flatMap_id'] using this
  have hr : d.absRows = d.spec.rows := rfl
  have hr' : d'.absRows = d'.spec.rows := rfl
  rw [hr, hr']
  show (dbOfBatch k level name results').1.spec.rows.Perm (dbOfBatch k level name results).1.spec.rows ∧ _
  rw [s1, s2]
  cases hall : results.flatten with
  | nil =>
    have : results'.flatten = [] := by rw [hall] at hperm; exact hperm.eq_nil
    rw [this]
    exact ⟨List.Perm.refl _, rfl, rfl, rfl, rfl, rfl⟩
  | cons f0 r =>
    cases hall' : results'.flatten with
    | nil => rw [hall, hall'] at hperm; exact absurd hperm.symm.eq_nil (by simp)
    | cons g0 r' =>
      have hg0 : g0 ∈ results.flatten := hperm.mem_iff.1 (by rw [hall']; simp)
      have hf0 : f0 ∈ results.flatten := by rw [hall]; simp
      have kf : dedupKeys (f0.props.map Prod.fst) = K := hK f0 hf0
      have kg : dedupKeys (g0.props.map Prod.fst) = K := hK g0 hg0
      have hb : g0.fp.bits = f0.fp.bits := (b1 g0 hg0).2 f0 (by rw [hall]; simp)
      refine ⟨?_, rfl, rfl, rfl, ?_, ?_⟩
      · simp only [batchSpec, kf, kg]
        rw [← hall, ← hall']
        exact hperm.map _
      · show some g0.fp.bits = some f0.fp.bits
        rw [hb]
      · show dedupKeys (g0.props.map Prod.fst) = dedupKeys (f0.props.map Prod.fst)
        rw [kf, kg]

/-! ## connection with the batch model of C15 -/

/-- the per-input results of a batch whose inputs complete in the order `sched` -/
def resultsOf {ι : Type} (outcome : ι → Outcome FpIn) (sched : List ι) : List (List FpIn) :=
  sched.map (fun i => (outcome i).getD [])

theorem resultsOf_flatten {ι : Type} (outcome : ι → Outcome FpIn) (sched : List ι) :
    (resultsOf outcome sched).flatten = batchRows outcome sched := by
  unfold resultsOf batchRows collect
  induction sched with
  | nil => rfl
  | cons i t ih => simp [List.flatten_cons, ih]

/-- **the rows of the database of a batch are the collected rows `batchRows`, stored through `fpRow`** -/
theorem dbOfBatch_batchRows {ι : Type} (k : Kind) (level : Int) (name : Option String)
    (outcome : ι → Outcome FpIn) (sched : List ι)
    (hacc : Accepted (dbOfBatch k level name (resultsOf outcome sched))) :
    (dbOfBatch k level name (resultsOf outcome sched)).1.spec = batchSpec k level name (batchRows outcome sched) ∧
    (dbOfBatch k level name (resultsOf outcome sched)).1.absRows.map (fun r => (r.cells, r.name)) =
      (batchRows outcome sched).map (fun f => (fpRow k f.fp, f.name)) := by
  obtain ⟨_, s1, _⟩ := dbOfBatch_spec k level name _ hacc
  rw [resultsOf_flatten] at s1
  refine ⟨s1, ?_⟩
  have : (dbOfBatch k level name (resultsOf outcome sched)).1.absRows =
      (dbOfBatch k level name (resultsOf outcome sched)).1.spec.rows := rfl
  rw [this, s1]
  exact batchSpec_rows_cells k level name _

/-- `schedule_free` for the database: two schedules of the same inputs give databases whose rows are
permutations of each other, with the same kind, level, name, length and columns -/
theorem schedule_free_db {ι : Type} (k : Kind) (level : Int) (name : Option String)
    (outcome : ι → Outcome FpIn) (s₁ s₂ : List ι) (K : List String) (h : s₁.Perm s₂)
    (hacc₁ : Accepted (dbOfBatch k level name (resultsOf outcome s₁)))
    (hacc₂ : Accepted (dbOfBatch k level name (resultsOf outcome s₂)))
    (hK : ∀ f ∈ batchRows outcome s₂, dedupKeys (f.props.map Prod.fst) = K) :
    (dbOfBatch k level name (resultsOf outcome s₁)).1.absRows.Perm
        (dbOfBatch k level name (resultsOf outcome s₂)).1.absRows ∧
      (dbOfBatch k level name (resultsOf outcome s₁)).1.spec.keys =
        (dbOfBatch k level name (resultsOf outcome s₂)).1.spec.keys ∧
      (dbOfBatch k level name (resultsOf outcome s₁)).1.spec.bits =
        (dbOfBatch k level name (resultsOf outcome s₂)).1.spec.bits := by
  have hp : (resultsOf outcome s₁).Perm (resultsOf outcome s₂) := h.map _
  have := dbOfBatch_perm k level name (resultsOf outcome s₂) (resultsOf outcome s₁) K hp hacc₂ hacc₁
    (by rw [resultsOf_flatten]; exact hK)
  exact ⟨this.1, this.2.2.2.2.2, this.2.2.2.2.1⟩

/-! ## uniform batches are accepted -/

theorem propLookup_ne_none_of_mem (ps : List (String × PVal)) (k : String) (h : k ∈ ps.map Prod.fst) :
    propLookup ps k ≠ none := by
  induction ps with
  | nil => simp at h
  | cons c rest ih =>
    obtain ⟨a, v⟩ := c
    by_cases e : a = k
    · simp [propLookup, e]
    · simp only [List.map_cons, List.mem_cons] at h
      rcases h with h | h
      · exact absurd h.symm e
      · simp only [propLookup, e, if_false]; exact ih h

theorem sOfBatchFrom_accepts_rows (results : List (List FpIn)) : ∀ (s : SDb) (b : Nat), s.rows ≠ [] → s.bits = some b →
    (∀ f ∈ results.flatten, f.fp.level = s.level ∧ f.fp.bits = b ∧ ∀ k ∈ s.keys, propLookup f.props k ≠ none) →
    ∀ a ∈ (sOfBatchFrom s results).2, a = none := by
  induction results with
  | nil => intro s b _ _ _ a ha; simp [sOfBatchFrom] at ha
  | cons fps rest ih =>
    intro s b hne hb hu
    unfold sOfBatchFrom
    by_cases he : fps.isEmpty = true
    · simp only [he, if_true]
      exact ih s b hne hb (fun f hf => hu f (by simp [hf]))
    · simp only [he, if_false, Bool.false_eq_true]
      have hpos : s.rows.length > 0 := List.length_pos_iff.2 hne
      have hk : s.expectedKeys fps = s.keys := by simp [SDb.expectedKeys, hpos]
      have hbits : s.expectedBits fps = b := by simp [SDb.expectedBits, hpos, hb]
      have hok : (s.add fps).2 = none := by
        cases hr : (s.add fps).2 with
        | none => rfl
        | some e =>
          have : (s.add fps).2.isSome := by rw [hr]; rfl
          rw [C16Hist.add_refused_iff, hk, hbits] at this
          rcases this with h | ⟨f, hf, h⟩ | ⟨f, hf, h⟩ | ⟨f, hf, k, hk', h⟩
          · subst h; simp at he
          · exact absurd (hu f (by simp [hf])).1 h
          · exact absurd (hu f (by simp [hf])).2.1 h
          · exact absurd h ((hu f (by simp [hf])).2.2 k hk')
      obtain ⟨h1, _⟩ := spec_add_ok s fps hok
      rw [hk, hbits] at h1
      intro a ha
      simp only [List.mem_cons] at ha
      rcases ha with ha | ha
      · rw [ha, hok]
      · refine ih (s.add fps).1 b (by rw [h1]; simp [hne]) (by rw [h1]) ?_ a ha
        intro f hf
        rw [h1]
        exact hu f (by simp [hf])

/-- **a batch whose fingerprints all have the database's level, one length and one property key list is
accepted in every completion order** -/
theorem dbOfBatch_accepts (k : Kind) (level : Int) (name : Option String) (results : List (List FpIn))
    (b : Nat) (K : List String)
    (hu : ∀ f ∈ results.flatten, f.fp.level = level ∧ f.fp.bits = b ∧ f.props.map Prod.fst = K) :
    Accepted (dbOfBatch k level name results) := by
  have h2 := (dbOfBatchFrom_refines results (Db.new k level name) (C05.inv_new k level name)).2
  have e2 := congrArg Prod.snd h2
  simp only at e2
  unfold Accepted dbOfBatch
  rw [e2]
  have hs : (Db.new k level name).spec = SDb.new k level name := rfl
  rw [hs]
  clear e2 h2
  induction results with
  | nil => intro a ha; simp [sOfBatchFrom] at ha
  | cons fps rest ih =>
    unfold sOfBatchFrom
    cases fps with
    | nil =>
      simp only [List.isEmpty_nil, if_true]
      exact ih (fun f hf => hu f (by simpa using hf))
    | cons f0 fr =>
      simp only [List.isEmpty_cons, Bool.false_eq_true, if_false]
      have hk : (SDb.new k level name).expectedKeys (f0 :: fr) = dedupKeys K := by
        simp [SDb.expectedKeys, SDb.new, (hu f0 (by simp)).2.2]
      have hbits : (SDb.new k level name).expectedBits (f0 :: fr) = b := by
        simp [SDb.expectedBits, SDb.new, (hu f0 (by simp)).2.1]
      have hkeys : ∀ f ∈ ((f0 :: fr) :: rest).flatten, ∀ k' ∈ dedupKeys K, propLookup f.props k' ≠ none := by
        intro f hf k' hk'
        apply propLookup_ne_none_of_mem
        rw [(hu f hf).2.2]
        exact (mem_dedupKeys K k').1 hk'
      have hok : ((SDb.new k level name).add (f0 :: fr)).2 = none := by
        cases hr : ((SDb.new k level name).add (f0 :: fr)).2 with
        | none => rfl
        | some e =>
          have : ((SDb.new k level name).add (f0 :: fr)).2.isSome := by rw [hr]; rfl
          rw [C16Hist.add_refused_iff, hk, hbits] at this
          rcases this with h | ⟨f, hf, h⟩ | ⟨f, hf, h⟩ | ⟨f, hf, k', hk', h⟩
          · cases h
          · exact absurd (hu f (by simp only [List.flatten_cons, List.mem_append]; exact Or.inl hf)).1 h
          · exact absurd (hu f (by simp only [List.flatten_cons, List.mem_append]; exact Or.inl hf)).2.1 h
          · exact absurd h (hkeys f (by simp only [List.flatten_cons, List.mem_append]; exact Or.inl hf) k' hk')
      obtain ⟨h1, _⟩ := spec_add_ok _ _ hok
      rw [hk, hbits] at h1
      intro a ha
      simp only [List.mem_cons] at ha
      rcases ha with ha | ha
      · rw [ha, hok]
      · refine sOfBatchFrom_accepts_rows rest _ b (by rw [h1]; simp [SDb.new]) (by rw [h1]) ?_ a ha
        intro f hf
        rw [h1]
        have hf' : f ∈ ((f0 :: fr) :: rest).flatten := by
          simp only [List.flatten_cons, List.mem_append]; exact Or.inr hf
        exact ⟨(hu f hf').1, (hu f hf').2.1, hkeys f hf'⟩

/-- under the uniformity hypotheses nothing else is needed: any two completion orders give the same
database up to the order of the rows -/
theorem dbOfBatch_perm_uniform (k : Kind) (level : Int) (name : Option String) (results results' : List (List FpIn))
    (b : Nat) (K : List String) (hp : results'.Perm results)
    (hu : ∀ f ∈ results.flatten, f.fp.level = level ∧ f.fp.bits = b ∧ f.props.map Prod.fst = K) :
    let d := (dbOfBatch k level name results).1
    let d' := (dbOfBatch k level name results').1
    Accepted (dbOfBatch k level name results) ∧ Accepted (dbOfBatch k level name results') ∧
    d'.absRows.Perm d.absRows ∧ d'.spec.kind = d.spec.kind ∧ d'.spec.level = d.spec.level ∧
      d'.spec.name = d.spec.name ∧ d'.spec.bits = d.spec.bits ∧ d'.spec.keys = d.spec.keys := by
  have hperm : results'.flatten.Perm results.flatten := by
    have := hp.flatMap_right (fun x => x)
    simpa [List.flatMap_id'] using this
  have a1 := dbOfBatch_accepts k level name results b K hu
  have a2 := dbOfBatch_accepts k level name results' b K (fun f hf => hu f (hperm.mem_iff.1 hf))
  exact ⟨a1, a2, dbOfBatch_perm k level name results results' (dedupKeys K) hp a1 a2
    (fun f hf => by rw [(hu f hf).2.2])⟩

/-! ## non-vacuity, and the need for the equal-keys hypothesis -/

section Examples

private def fA : FpIn := ⟨⟨.bit, 8, 0, [1, 2], []⟩, some "a", [("w", .int 1), ("v", .int 10)]⟩
private def fB : FpIn := ⟨⟨.bit, 8, 0, [3], []⟩, some "b", [("w", .int 2), ("v", .int 20)]⟩
private def fC : FpIn := ⟨⟨.bit, 8, 0, [4, 7], []⟩, some "c", [("w", .int 3), ("v", .int 30)]⟩
/-- the same keys as `fA` in another order -/
private def fD : FpIn := ⟨⟨.bit, 8, 0, [5], []⟩, some "d", [("v", .int 40), ("w", .int 4)]⟩
/-- lacks the key `"v"` -/
private def fE : FpIn := ⟨⟨.bit, 8, 0, [6], []⟩, some "e", [("w", .int 5)]⟩

/-- two completion orders of three inputs (one of them failed: `[]`): both accepted, the rows are the
flattened results in the respective order -/
theorem perm_example :
    (dbOfBatch .bit 0 none [[fA, fB], [], [fC]]).2 = [none, none] ∧
    (dbOfBatch .bit 0 none [[fC], [fA, fB], []]).2 = [none, none] ∧
    (dbOfBatch .bit 0 none [[fA, fB], [], [fC]]).1.absRows.map (·.name) = [some "a", some "b", some "c"] ∧
    (dbOfBatch .bit 0 none [[fC], [fA, fB], []]).1.absRows.map (·.name) = [some "c", some "a", some "b"] ∧
    (dbOfBatch .bit 0 none [[fC], [fA, fB], []]).1.spec.keys = ["w", "v"] ∧
    (dbOfBatch .bit 0 none [[fC], [fA, fB], []]).1.absRows.map (·.props) =
      [[("w", .int 3), ("v", .int 30)], [("w", .int 1), ("v", .int 10)], [("w", .int 2), ("v", .int 20)]] := by
  decide +kernel

example : (dbOfBatch .bit 0 none [[fC], [fA, fB], []]).1.absRows.Perm
    (dbOfBatch .bit 0 none [[fA, fB], [], [fC]]).1.absRows :=
  (dbOfBatch_perm_uniform .bit 0 none [[fA, fB], [], [fC]] [[fC], [fA, fB], []] 8 ["w", "v"]
    (by decide) (by decide)).2.2.1

/-- **the equal-keys hypothesis cannot be dropped**: with the same key *set* in another order both
completion orders are accepted, but the first fingerprint to arrive dictates the column order, so the
columns and the rows of the two databases differ … -/
theorem keys_hypothesis_needed :
    (dbOfBatch .bit 0 none [[fA], [fD]]).2 = [none, none] ∧ (dbOfBatch .bit 0 none [[fD], [fA]]).2 = [none, none] ∧
    (dbOfBatch .bit 0 none [[fA], [fD]]).1.spec.keys = ["w", "v"] ∧
    (dbOfBatch .bit 0 none [[fD], [fA]]).1.spec.keys = ["v", "w"] ∧
    ¬ (dbOfBatch .bit 0 none [[fD], [fA]]).1.absRows.Perm (dbOfBatch .bit 0 none [[fA], [fD]]).1.absRows := by
  decide +kernel

/-- … and with a fingerprint lacking a key, whether the batch is accepted at all depends on the order:
arriving first, `fE` fixes the columns to `["w"]` and `fA` is stored without its `"v"`; arriving second,
it is refused with a `KeyError` -/
theorem keys_hypothesis_needed' :
    (dbOfBatch .bit 0 none [[fE], [fA]]).2 = [none, none] ∧
    (dbOfBatch .bit 0 none [[fE], [fA]]).1.absRows.map (·.props) = [[("w", .int 5)], [("w", .int 1)]] ∧
    (dbOfBatch .bit 0 none [[fA], [fE]]).2 = [none, some .key] ∧
    (dbOfBatch .bit 0 none [[fA], [fE]]).1.absRows.map (·.name) = [some "a"] := by
  decide +kernel

end Examples

end E3fpVerif.Props.C15Db
