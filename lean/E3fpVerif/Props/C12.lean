import E3fpVerif.Model.Fprinter
namespace E3fpVerif.Props.C12
open E3fpVerif

/-- the label of a returned fingerprint is the requested level -/
theorem label (o : Opts) (s : FState) (k : Int) (bits : Option Nat) (mask : List Nat) (f : Fp)
    (h : fingerprintAt o s (some k) bits mask = .ok f) : f.level = k := by
  unfold fingerprintAt at h
  simp only [bind, Except.bind, Option.getD_some] at h
  split at h
  · cases h
  · rename_i g hg
    unfold Fp.fold at h
    have hl : g.level = k := by
      unfold fromIndices at hg
      split at hg
      · unfold mkBit at hg; split at hg <;> cases hg; rfl
      · unfold mkCount at hg; simp only at hg; split at hg <;> cases hg; rfl
    repeat' split at h
    all_goals first | (cases h; exact hl) | cases h

end E3fpVerif.Props.C12
