import E3fpVerif.Model.Fprinter
import E3fpVerif.Lemmas.Fprinter
import E3fpVerif.Lemmas.Subsets
import E3fpVerif.Lemmas.FprinterEx
namespace E3fpVerif.Props.C12
open E3fpVerif

/-- the label of a returned fingerprint is the requested level -/
theorem label (o : Opts) (s : FState) (k : Int) (bits : Option Nat) (mask : List Nat) (f : Fp)
    (h : fingerprintAt o s (some k) bits mask = .ok f) : f.level = k := by
  unfold fingerprintAt at h
  simp only [bind, Except.bind, Option.getD_some] at h
  split at h
  · cases h
  · rename_i g hg
    unfold Fp.fold at h
    have hl : g.level = k := by
      unfold fromIndices at hg
      split at hg
      · unfold mkBit at hg; split at hg <;> cases hg; rfl
      · unfold mkCount at hg; simp only at hg; split at hg <;> cases hg; rfl
    repeat' split at h
    all_goals first | (cases h; exact hl) | cases h

/-! ## 1. the union keeps the old list as a prefix -/

theorem unionShells_prefix (old new : List GShell) : old <+: unionShells old new :=
  _root_.E3fpVerif.unionShells_prefix old new

theorem unionShells_mem_old (old new : List GShell) : ∀ s ∈ old, s ∈ unionShells old new :=
  _root_.E3fpVerif.unionShells_mem_of_mem_old old new

theorem unionShells_length_ge (old new : List GShell) : old.length ≤ (unionShells old new).length :=
  _root_.E3fpVerif.unionShells_length_ge old new

/-! ## 2. one successful step appends one strictly larger level -/

theorem step_levelShells (o : Opts) (m : MolG) (g : Geo) (atoms : List Nat) (s s' : FState)
    (h : stepState o m g atoms s = some s') :
    (∃ ls, s'.levelShells = s.levelShells ++ [ls] ∧ s.levelShells.getLastD [] <+: ls ∧
      ls.length > (s.levelShells.getLastD []).length) ∧
    s'.gen.length = s.gen.length + 1 := by
  obtain ⟨_, _, hne, rfl⟩ := stepState_some o m g atoms s s' h
  refine ⟨⟨_, rfl, _root_.E3fpVerif.unionShells_prefix _ _, ?_⟩, by simp⟩
  have := _root_.E3fpVerif.unionShells_length_ge (s.levelShells.getLastD []) (stepAccepted o m g atoms s).2
  omega

/-- `current_level` goes up by one (the generator list is never empty along a run) -/
theorem step_currentLevel (o : Opts) (m : MolG) (g : Geo) (atoms : List Nat) (s s' : FState)
    (hg : s.gen ≠ []) (h : stepState o m g atoms s = some s') : s'.currentLevel = s.currentLevel + 1 := by
  have := (step_levelShells o m g atoms s s' h).2
  have : 0 < s.gen.length := List.length_pos_iff.2 hg
  unfold FState.currentLevel; omega

/-! ## 3. levels nest -/

/-- the invariant: as many accepted levels as generated levels, at least one, and every level's
list is a prefix of the next level's -/
def Nested (s : FState) : Prop :=
  s.levelShells.length = s.gen.length ∧ s.levelShells ≠ [] ∧
  ∀ k, k + 1 < s.levelShells.length → s.levelShells.getD k [] <+: s.levelShells.getD (k + 1) []

theorem nested_init (o : Opts) (m : MolG) (atoms : List Nat) : Nested (initState o m atoms) := by
  unfold initState Nested
  refine ⟨rfl, by simp, ?_⟩
  intro k hk
  simp at hk

theorem nested_step (o : Opts) (m : MolG) (g : Geo) (atoms : List Nat) (s s' : FState)
    (hn : Nested s) (h : stepState o m g atoms s = some s') : Nested s' := by
  obtain ⟨⟨ls, hls, hpre, _⟩, hgen⟩ := step_levelShells o m g atoms s s' h
  obtain ⟨h1, h2, h3⟩ := hn
  refine ⟨by rw [hls, hgen, List.length_append, h1]; rfl, by rw [hls]; simp, ?_⟩
  intro k hk
  rw [hls] at hk ⊢
  simp only [List.length_append, List.length_cons, List.length_nil] at hk
  have hpos : 0 < s.levelShells.length := List.length_pos_iff.2 h2
  by_cases hlt : k + 1 < s.levelShells.length
  · rw [getD_append_lt _ _ _ _ (by omega), getD_append_lt _ _ _ _ hlt]
    exact h3 k hlt
  · have hk1 : k + 1 = s.levelShells.length := by omega
    rw [getD_append_lt _ _ _ _ (by omega), hk1, getD_append_eq]
    rw [getLastD_eq_getD] at hpre
    have : s.levelShells.length - 1 = k := by omega
    rw [this] at hpre
    exact hpre

/-- the invariant holds along every run -/
theorem nested_iterate (o : Opts) (m : MolG) (g : Geo) (atoms : List Nat) (n : Nat) :
    Nested (iterate o m g atoms n (initState o m atoms)) :=
  iterate_induction o m g atoms Nested (nested_step o m g atoms) n _ (nested_init o m atoms)

/-- **levels nest**: in the state a run returns, every shell of level `k` is a shell of level `k+1` -/
theorem nested (o : Opts) (m : MolG) (g : Geo) (atoms : List Nat) (n : Nat) (k : Nat) :
    let s := iterate o m g atoms n (initState o m atoms)
    k + 1 < s.levelShells.length →
      ∀ x ∈ s.levelShells.getD k [], x ∈ s.levelShells.getD (k + 1) [] := by
  intro s hk x hx
  exact ((nested_iterate o m g atoms n).2.2 k hk).subset hx

/-- … hence every identifier present at level `k` is present at level `k+1` -/
theorem nested_idents (o : Opts) (m : MolG) (g : Geo) (atoms : List Nat) (n : Nat) (k : Nat) :
    let s := iterate o m g atoms n (initState o m atoms)
    k + 1 < s.levelShells.length →
      ∀ i ∈ (s.levelShells.getD k []).map (·.ident), i ∈ (s.levelShells.getD (k + 1) []).map (·.ident) := by
  intro s hk i hi
  rcases List.mem_map.1 hi with ⟨x, hx, rfl⟩
  exact List.mem_map.2 ⟨x, nested o m g atoms n k hk x hx, rfl⟩

/-- the same for any two levels `j ≤ k` -/
theorem nested_le (o : Opts) (m : MolG) (g : Geo) (atoms : List Nat) (n : Nat) (j k : Nat) (hjk : j ≤ k) :
    let s := iterate o m g atoms n (initState o m atoms)
    k < s.levelShells.length → s.levelShells.getD j [] <+: s.levelShells.getD k [] := by
  intro s
  induction k with
  | zero =>
    intro _
    have : j = 0 := by omega
    subst this; exact List.prefix_refl _
  | succ k ih =>
    intro hk
    by_cases hj : j = k + 1
    · subst hj; exact List.prefix_refl _
    · exact (ih (by omega) (by omega)).trans ((nested_iterate o m g atoms n).2.2 k hk)

/-- the run through `runFp` -/
theorem nested_run (o : Opts) (m : MolG) (g : Geo) (s : FState) (h : runFp o m g = .ok s) (k : Nat)
    (hk : k + 1 < s.levelShells.length) :
    ∀ x ∈ s.levelShells.getD k [], x ∈ s.levelShells.getD (k + 1) [] := by
  obtain ⟨_, _, _, rfl⟩ := (runFp_ok_iff o m g s).1 h
  exact nested o m g (retained o m) _ k hk

/-! ## 4. truncation: the level limit is read by the first stop rule only -/

theorem stepAccepted_level (o : Opts) (L' : Int) (m : MolG) (g : Geo) (atoms : List Nat) (s : FState) :
    stepAccepted { o with level := L' } m g atoms s = stepAccepted o m g atoms s := rfl

theorem genLevel_level (o : Opts) (L' : Int) (m : MolG) (g : Geo) (atoms : List Nat) (prev : List GShell)
    (k : Nat) (t : Intern) :
    genLevel { o with level := L' } m g atoms prev k t = genLevel o m g atoms prev k t := rfl

theorem initState_level (o : Opts) (L' : Int) (m : MolG) (atoms : List Nat) :
    initState { o with level := L' } m atoms = initState o m atoms := rfl

/-- below both limits the step does not depend on the limit -/
theorem step_level_irrelevant (o : Opts) (L' : Int) (m : MolG) (g : Geo) (atoms : List Nat) (s : FState)
    (h1 : ¬ (o.level ≠ -1 ∧ (s.currentLevel : Int) ≥ o.level))
    (h2 : ¬ (L' ≠ -1 ∧ (s.currentLevel : Int) ≥ L')) :
    stepState o m g atoms s = stepState { o with level := L' } m g atoms s := by
  rw [stepState_eq, stepState_eq]
  have e1 : (o.level ≠ -1 && (s.currentLevel : Int) ≥ o.level) = false := by
    simpa using h1
  have e2 : (({ o with level := L' } : Opts).level ≠ -1
      && (s.currentLevel : Int) ≥ ({ o with level := L' } : Opts).level) = false := by
    simpa using h2
  rw [e1, e2]
  rfl

/-- at or above the limit the step stops -/
theorem step_at_limit (o : Opts) (m : MolG) (g : Geo) (atoms : List Nat) (s : FState)
    (h : o.level ≠ -1 ∧ (s.currentLevel : Int) ≥ o.level) : stepState o m g atoms s = none := by
  rw [stepState_eq]
  have e1 : (o.level ≠ -1 && (s.currentLevel : Int) ≥ o.level) = true := by simpa using h
  rw [e1]; rfl

/-- with fuel `n` from a state at level `c`, `c + n ≤ L`, the limit `L` is never the reason to stop:
the run equals the run with the limit switched off -/
theorem iterate_limit_irrelevant (o : Opts) (L : Nat) (m : MolG) (g : Geo) (atoms : List Nat) (n : Nat)
    (s : FState) (h : s.currentLevel + n ≤ L) :
    iterate { o with level := (L : Int) } m g atoms n s = iterate { o with level := -1 } m g atoms n s := by
  induction n generalizing s with
  | zero => rfl
  | succ n ih =>
    have hstep : stepState { o with level := (L : Int) } m g atoms s
        = stepState { o with level := -1 } m g atoms s :=
      step_level_irrelevant { o with level := (L : Int) } (-1) m g atoms s
        (by simp only [ne_eq, ge_iff_le, not_and, Int.not_le]; intro _; omega) (by simp)
    cases hs : stepState { o with level := -1 } m g atoms s with
    | none => rw [iterate_of_none _ _ _ _ _ _ hs, iterate_of_none _ _ _ _ _ _ (hstep.trans hs)]
    | some s' =>
      rw [iterate_succ_some _ _ _ _ _ _ _ hs, iterate_succ_some _ _ _ _ _ _ _ (hstep.trans hs)]
      apply ih
      have := (step_levelShells _ m g atoms s s' hs).2
      unfold FState.currentLevel at h ⊢; omega

/-- a run only ever appends levels -/
theorem iterate_levelShells_prefix (o : Opts) (m : MolG) (g : Geo) (atoms : List Nat) (n : Nat) (s : FState) :
    s.levelShells <+: (iterate o m g atoms n s).levelShells := by
  refine iterate_induction o m g atoms (fun t => s.levelShells <+: t.levelShells) ?_ n s (List.prefix_refl _)
  intro t t' ht hs
  obtain ⟨⟨ls, hls, _, _⟩, _⟩ := step_levelShells o m g atoms t t' hs
  rw [hls]; exact ht.trans (List.prefix_append _ _)

/-- after fuel `n` either all `n` steps succeeded or the run has stopped for good -/
theorem iterate_full_or_stopped (o : Opts) (m : MolG) (g : Geo) (atoms : List Nat) (n : Nat) (s : FState) :
    (iterate o m g atoms n s).levelShells.length = s.levelShells.length + n ∨
    stepState o m g atoms (iterate o m g atoms n s) = none := by
  induction n generalizing s with
  | zero => exact Or.inl rfl
  | succ n ih =>
    cases hs : stepState o m g atoms s with
    | none => rw [iterate_of_none _ _ _ _ _ _ hs]; exact Or.inr hs
    | some s' =>
      rw [iterate_succ_some _ _ _ _ _ _ _ hs]
      obtain ⟨⟨ls, hls, _, _⟩, _⟩ := step_levelShells o m g atoms s s' hs
      rcases ih s' with h | h
      · left; rw [h, hls]; simp; omega
      · exact Or.inr h

theorem iterate_length_le (o : Opts) (m : MolG) (g : Geo) (atoms : List Nat) (n : Nat) (s : FState) :
    (iterate o m g atoms n s).levelShells.length ≤ s.levelShells.length + n := by
  induction n generalizing s with
  | zero => exact Nat.le_refl _
  | succ n ih =>
    cases hs : stepState o m g atoms s with
    | none => rw [iterate_of_none _ _ _ _ _ _ hs]; omega
    | some s' =>
      rw [iterate_succ_some _ _ _ _ _ _ _ hs]
      obtain ⟨⟨ls, hls, _, _⟩, _⟩ := step_levelShells o m g atoms s s' hs
      have := ih s'
      rw [hls] at this; simp at this; omega

/-- the run `runFp` performs for a limit `L ≥ 0` -/
def runTo (o : Opts) (m : MolG) (g : Geo) (atoms : List Nat) (L : Nat) : FState :=
  iterate { o with level := (L : Int) } m g atoms L (initState o m atoms)

theorem initState_currentLevel (o : Opts) (m : MolG) (atoms : List Nat) :
    (initState o m atoms).currentLevel = 0 := rfl

/-- the run to limit `L` is the unlimited run on fuel `L` -/
theorem runTo_eq (o : Opts) (m : MolG) (g : Geo) (atoms : List Nat) (L : Nat) :
    runTo o m g atoms L = iterate { o with level := -1 } m g atoms L (initState o m atoms) :=
  iterate_limit_irrelevant o L m g atoms L _ (by rw [initState_currentLevel]; omega)

/-- `runFp` with a limit `L ≥ 0` computes `runTo` -/
theorem runFp_runTo (o : Opts) (m : MolG) (g : Geo) (L : Nat) (s : FState)
    (h : runFp { o with level := (L : Int) } m g = .ok s) :
    s = runTo o m g (retained o m) L := by
  obtain ⟨_, _, _, rfl⟩ := (runFp_ok_iff _ m g s).1 h
  have hL : ¬ ((L : Int) = -1) := by omega
  unfold runFuel runTo
  simp only [hL, if_false, Int.toNat_natCast]
  rfl

/-- **truncation**: the levels of the run to limit `k` are a prefix of the levels of the run to any
limit `L ≥ k`; when the longer run reaches level `k` they are exactly its first `k+1` levels -/
theorem truncation (o : Opts) (m : MolG) (g : Geo) (atoms : List Nat) (k L : Nat) (hkL : k ≤ L) :
    (runTo o m g atoms k).levelShells <+: (runTo o m g atoms L).levelShells ∧
    (k + 1 ≤ (runTo o m g atoms L).levelShells.length →
      (runTo o m g atoms L).levelShells.take (k + 1) = (runTo o m g atoms k).levelShells) := by
  rw [runTo_eq, runTo_eq]
  obtain ⟨d, rfl⟩ : ∃ d, L = k + d := ⟨L - k, by omega⟩
  rw [iterate_add]
  have hpre := iterate_levelShells_prefix { o with level := -1 } m g atoms d
    (iterate { o with level := -1 } m g atoms k (initState o m atoms))
  refine ⟨hpre, ?_⟩
  intro hlen
  have hinit : (initState o m atoms).levelShells.length = 1 := rfl
  have hlenk : (iterate { o with level := -1 } m g atoms k (initState o m atoms)).levelShells.length = k + 1 := by
    rcases iterate_full_or_stopped { o with level := -1 } m g atoms k (initState o m atoms) with h | h
    · rw [h, hinit]; omega
    · rw [iterate_of_none _ _ _ _ _ _ h] at hlen
      have := iterate_length_le { o with level := -1 } m g atoms k (initState o m atoms)
      rw [hinit] at this
      omega
  rw [← hlenk]
  exact (List.prefix_iff_eq_take.1 hpre).symm

/-- in general: the shorter run's levels are the longer run's levels cut at the shorter run's length -/
theorem truncation_take (o : Opts) (m : MolG) (g : Geo) (atoms : List Nat) (k L : Nat) (hkL : k ≤ L) :
    (runTo o m g atoms L).levelShells.take (runTo o m g atoms k).levelShells.length
      = (runTo o m g atoms k).levelShells :=
  (List.prefix_iff_eq_take.1 (truncation o m g atoms k L hkL).1).symm

/-- level by level: level `j ≤ k` of the run to limit `L ≥ k` is level `j` of the run to limit `k`,
whenever the shorter run has that level -/
theorem truncation_level (o : Opts) (m : MolG) (g : Geo) (atoms : List Nat) (j k L : Nat) (hkL : k ≤ L)
    (hj : j < (runTo o m g atoms k).levelShells.length) :
    (runTo o m g atoms L).levelShells.getD j [] = (runTo o m g atoms k).levelShells.getD j [] := by
  obtain ⟨t, ht⟩ := (truncation o m g atoms k L hkL).1
  rw [← ht]
  simp [List.getD_eq_getElem?_getD, List.getElem?_append_left hj]

/-- the statement through `runFp` -/
theorem truncation_run (o : Opts) (m : MolG) (g : Geo) (k L : Nat) (hkL : k ≤ L) (sk sL : FState)
    (hk : runFp { o with level := (k : Int) } m g = .ok sk)
    (hL : runFp { o with level := (L : Int) } m g = .ok sL) :
    sk.levelShells <+: sL.levelShells ∧
    (k + 1 ≤ sL.levelShells.length → sL.levelShells.take (k + 1) = sk.levelShells) := by
  rw [runFp_runTo o m g k sk hk, runFp_runTo o m g L sL hL]
  exact truncation o m g (retained o m) k L hkL

/-! ## 5. requested levels beyond the last one resolve to the last one -/

theorem beyond_last (s : FState) (k : Int) (mask : List Nat)
    (h : k < 0 ∨ (s.levelShells.length : Int) ≤ k) :
    shellsAt s (some k) mask = shellsAt s (some (-1)) mask := by
  unfold shellsAt resolveLevel
  have e1 : ¬ (0 ≤ k ∧ k.toNat < s.levelShells.length) := by omega
  have e2 : ¬ (0 ≤ (-1 : Int) ∧ (-1 : Int).toNat < s.levelShells.length) := by omega
  simp only [e1, e2, if_false]

theorem beyond_last_none (s : FState) (k : Int) (mask : List Nat)
    (h : k < 0 ∨ (s.levelShells.length : Int) ≤ k) :
    shellsAt s (some k) mask = shellsAt s none mask := by
  unfold shellsAt resolveLevel
  have e1 : ¬ (0 ≤ k ∧ k.toNat < s.levelShells.length) := by omega
  simp only [e1, if_false]

/-! ## 6. convergence: with duplicate removal every successful step records a new substructure -/

theorem stepAccepted_dedup (o : Opts) (m : MolG) (g : Geo) (atoms : List Nat) (s : FState)
    (hd : o.removeDup = true) :
    stepAccepted o m g atoms s =
      (s.past ++ (dedupSpec s.past (sortByLt ltShell
          (genLevel o m g atoms (s.gen.getLastD []) (s.currentLevel + 1) s.tbl).2)).map (·.sub),
        dedupSpec s.past (sortByLt ltShell
          (genLevel o m g atoms (s.gen.getLastD []) (s.currentLevel + 1) s.tbl).2)) := by
  unfold stepAccepted
  simp only [hd, if_true, dedupShells_eq]

/-- a successful step accepts at least one shell -/
theorem step_accepts (o : Opts) (m : MolG) (g : Geo) (atoms : List Nat) (s s' : FState)
    (h : stepState o m g atoms s = some s') : (stepAccepted o m g atoms s).2 ≠ [] := by
  obtain ⟨_, _, hne, _⟩ := stepState_some o m g atoms s s' h
  intro he
  rw [he, unionShells_nil] at hne
  exact hne rfl

/-- `past` grows strictly in every successful step (under `remove_duplicate_substructs`) -/
theorem past_grows (o : Opts) (m : MolG) (g : Geo) (atoms : List Nat) (s s' : FState)
    (hd : o.removeDup = true) (h : stepState o m g atoms s = some s') :
    s'.past.length > s.past.length ∧ s.past <+: s'.past := by
  have hacc := step_accepts o m g atoms s s' h
  obtain ⟨_, _, _, rfl⟩ := stepState_some o m g atoms s s' h
  rw [stepAccepted_dedup o m g atoms s hd] at hacc ⊢
  simp only at hacc ⊢
  refine ⟨?_, List.prefix_append _ _⟩
  have := List.length_pos_iff.2 hacc
  rw [List.length_append, List.length_map]; omega

theorem genShell_subOf (o : Opts) (m : MolG) (g : Geo) (atoms : List Nat) (prev : List GShell) (k : Nat)
    (t : Intern) (a : Nat) (hprev : ∀ x ∈ prev, ∀ y ∈ x.sub, y ∈ atoms) (ha : a ∈ atoms) :
    SubOf atoms (genShell o m g atoms prev k t a).sub := by
  refine ⟨strictAsc_uniq _, ?_⟩
  intro y hy
  have hy : y ∈ a :: (nbOf o m g atoms k a).flatMap (fun b => (shellOf prev b).sub) := (mem_uniq _ _).1 hy
  rcases List.mem_cons.1 hy with rfl | hy
  · exact ha
  · rcases List.mem_flatMap.1 hy with ⟨b, _, hyb⟩
    rcases shellOf_mem_or_default prev b with h | h
    · exact hprev _ h y hyb
    · rw [h] at hyb; cases hyb

/-- the convergence invariant: the substructures recorded since the start (`added`) are distinct
substructures over `atoms`, at least `a` of them -/
def ConvInv (atoms : List Nat) (p0 : List (List Nat)) (s : FState) (a : Nat) : Prop :=
  (∀ x ∈ s.gen.getLastD [], ∀ y ∈ x.sub, y ∈ atoms) ∧
  ∃ added, s.past = p0 ++ added ∧ added.Nodup ∧ (∀ p ∈ added, SubOf atoms p) ∧ a ≤ added.length

theorem conv_init (o : Opts) (m : MolG) (atoms : List Nat) :
    ConvInv atoms (initState o m atoms).past (initState o m atoms) 0 := by
  refine ⟨?_, [], (List.append_nil _).symm, List.nodup_nil, ?_, Nat.le_refl _⟩
  · intro x hx y hy
    have hx : x ∈ (genLevel0 o m atoms []).2 := by simpa [initState] using hx
    obtain ⟨ha, t', hx'⟩ := genLevel0_mem o m atoms [] x hx
    rw [hx'] at hy
    simp only [gen0Shell, List.mem_singleton] at hy
    subst hy; exact ha
  · intro p hp; cases hp

theorem conv_step (o : Opts) (m : MolG) (g : Geo) (atoms : List Nat) (p0 : List (List Nat))
    (s s' : FState) (a : Nat) (hd : o.removeDup = true) (hinv : ConvInv atoms p0 s a)
    (h : stepState o m g atoms s = some s') : ConvInv atoms p0 s' (a + 1) := by
  have hacc := step_accepts o m g atoms s s' h
  obtain ⟨_, _, _, rfl⟩ := stepState_some o m g atoms s s' h
  obtain ⟨hgen, added, hpast, hnd, hsub, hlen⟩ := hinv
  rw [stepAccepted_dedup o m g atoms s hd] at hacc ⊢
  simp only at hacc ⊢
  have hmem : ∀ x ∈ dedupSpec s.past (sortByLt ltShell
      (genLevel o m g atoms (s.gen.getLastD []) (s.currentLevel + 1) s.tbl).2),
      x.atom ∈ atoms ∧ ∃ t', x = genShell o m g atoms (s.gen.getLastD []) (s.currentLevel + 1) t' x.atom := by
    intro x hx
    exact genLevel_mem o m g atoms _ _ _ x
      ((mem_sortByLt _ _ _).1 ((dedupSpec_sublist _ _).subset hx))
  refine ⟨?_, added ++ (dedupSpec s.past (sortByLt ltShell
      (genLevel o m g atoms (s.gen.getLastD []) (s.currentLevel + 1) s.tbl).2)).map (·.sub),
      by rw [hpast, List.append_assoc], ?_, ?_, ?_⟩
  · intro x hx y hy
    have hx : x ∈ (genLevel o m g atoms (s.gen.getLastD []) (s.currentLevel + 1) s.tbl).2 := by
      simpa using hx
    obtain ⟨ha, t', hx'⟩ := genLevel_mem o m g atoms _ _ _ x hx
    rw [hx'] at hy
    exact (genShell_subOf o m g atoms _ _ t' x.atom hgen ha).2 y hy
  · rw [List.nodup_append]
    refine ⟨hnd, dedupSpec_nodup _ _, ?_⟩
    intro p hp q hq hpq
    rcases List.mem_map.1 hq with ⟨x, hx, rfl⟩
    apply dedupSpec_not_past _ _ x hx
    rw [hpast, ← hpq]
    exact List.mem_append_right _ hp
  · intro p hp
    rcases List.mem_append.1 hp with hp | hp
    · exact hsub p hp
    · rcases List.mem_map.1 hp with ⟨x, hx, rfl⟩
      obtain ⟨ha, t', hx'⟩ := hmem x hx
      rw [hx']
      exact genShell_subOf o m g atoms _ _ t' x.atom hgen ha
  · have := List.length_pos_iff.2 hacc
    rw [List.length_append, List.length_map]; omega

theorem conv_iterate (o : Opts) (m : MolG) (g : Geo) (atoms : List Nat) (p0 : List (List Nat))
    (hd : o.removeDup = true) (n : Nat) (s : FState) (a : Nat) (hinv : ConvInv atoms p0 s a) :
    stepState o m g atoms (iterate o m g atoms n s) = none ∨
      ConvInv atoms p0 (iterate o m g atoms n s) (a + n) := by
  induction n generalizing s a with
  | zero => exact Or.inr hinv
  | succ n ih =>
    cases hs : stepState o m g atoms s with
    | none => rw [iterate_of_none _ _ _ _ _ _ hs]; exact Or.inl hs
    | some s' =>
      rw [iterate_succ_some _ _ _ _ _ _ _ hs]
      have := ih s' (a + 1) (conv_step o m g atoms p0 s s' a hd hinv hs)
      rwa [show a + 1 + n = a + (n + 1) by omega] at this

theorem conv_bound (atoms : List Nat) (p0 : List (List Nat)) (s : FState) (a : Nat)
    (hinv : ConvInv atoms p0 s a) : a ≤ 2 ^ atoms.length := by
  obtain ⟨_, added, _, hnd, hsub, hlen⟩ := hinv
  exact Nat.le_trans hlen (card_subsets atoms added hnd hsub)

/-- **convergence**: with duplicate-substructure removal the iteration stops on its own after at
most `2^|atoms|` steps, whatever the level limit -/
theorem converges (o : Opts) (m : MolG) (g : Geo) (atoms : List Nat) (hd : o.removeDup = true) :
    ∃ n, n ≤ 2 ^ atoms.length ∧
      stepState o m g atoms (iterate o m g atoms n (initState o m atoms)) = none := by
  refine ⟨2 ^ atoms.length, Nat.le_refl _, ?_⟩
  rcases conv_iterate o m g atoms _ hd (2 ^ atoms.length) _ 0 (conv_init o m atoms) with h | h
  · exact h
  · cases hs : stepState o m g atoms (iterate o m g atoms (2 ^ atoms.length) (initState o m atoms)) with
    | none => rfl
    | some s' =>
      have := conv_bound atoms _ s' _ (conv_step o m g atoms _ _ s' _ hd h hs)
      omega

/-- **level -1 means convergence**: the state `runFp` returns for `level = -1` is a fixed point of
the iteration — the run stopped by one of the stop rules, not because the fuel ran out -/
theorem run_converged (o : Opts) (m : MolG) (g : Geo) (s : FState) (hl : o.level = -1)
    (h : runFp o m g = .ok s) : stepState o m g (retained o m) s = none := by
  obtain ⟨h1, _, _, rfl⟩ := (runFp_ok_iff o m g s).1 h
  have hd := h1 hl
  obtain ⟨n, hn, hstop⟩ := converges o m g (retained o m) hd
  have hf : runFuel o (retained o m) = n + (2 ^ (retained o m).length + 1 - n) := by
    unfold runFuel; rw [if_pos hl]; omega
  rw [hf, iterate_add, iterate_of_none _ _ _ _ _ _ hstop]
  exact hstop

/-- … and the stop was not the level rule: either every substructure is complete or the next level
adds no shell -/
theorem run_converged_reason (o : Opts) (m : MolG) (g : Geo) (s : FState) (hl : o.level = -1)
    (h : runFp o m g = .ok s) :
    (s.gen.getLastD []).all (fun x => x.sub.length == (retained o m).length) = true ∨
    (unionShells (s.levelShells.getLastD []) (stepAccepted o m g (retained o m) s).2).length
      = (s.levelShells.getLastD []).length := by
  have hstop := run_converged o m g s hl h
  rw [stepState_eq] at hstop
  have e1 : (o.level ≠ -1 && (s.currentLevel : Int) ≥ o.level) = false := by simp [hl]
  rw [e1] at hstop
  split at hstop
  · rename_i hc; cases hc
  split at hstop
  · rename_i h2
    simp only [Bool.and_eq_true] at h2
    exact Or.inl h2.2
  · simp only at hstop
    split at hstop
    · rename_i h3; exact Or.inr h3
    · cases hstop

/-- a level limit at or beyond the point of convergence gives the levels of the `-1` run -/
theorem large_limit_eq_converged (o : Opts) (m : MolG) (g : Geo) (atoms : List Nat)
    (hd : o.removeDup = true) (L : Nat) (hL : 2 ^ atoms.length ≤ L) :
    runTo o m g atoms L =
      iterate { o with level := -1 } m g atoms (2 ^ atoms.length + 1) (initState o m atoms) := by
  rw [runTo_eq]
  obtain ⟨n, hn, hstop⟩ := converges { o with level := -1 } m g atoms hd
  rw [initState_level] at hstop
  rw [show L = n + (L - n) by omega, iterate_add, iterate_of_none _ _ _ _ _ _ hstop,
    show 2 ^ atoms.length + 1 = n + (2 ^ atoms.length + 1 - n) by omega, iterate_add,
    iterate_of_none _ _ _ _ _ _ hstop]

/-- every limited run is a truncation of the converged (`level = -1`) run -/
theorem truncation_converged (o : Opts) (m : MolG) (g : Geo) (atoms : List Nat)
    (hd : o.removeDup = true) (k : Nat) :
    (runTo o m g atoms k).levelShells <+:
      (iterate { o with level := -1 } m g atoms (2 ^ atoms.length + 1) (initState o m atoms)).levelShells := by
  by_cases hk : 2 ^ atoms.length ≤ k
  · rw [large_limit_eq_converged o m g atoms hd k hk]; exact List.prefix_refl _
  · rw [runTo_eq, show 2 ^ atoms.length + 1 = k + (2 ^ atoms.length + 1 - k) by omega, iterate_add]
    exact iterate_levelShells_prefix _ m g atoms _ _

/-! ## non-vacuity: the hypotheses above are met by the four-atom chain of `Lemmas/FprinterEx.lean` -/
section NonVacuity
open Ex

/- `step_levelShells`, `step_currentLevel`, `past_grows`, `step_accepts`, `nested_step`, `conv_step`:
a step that succeeds -/
example : ∃ s', stepState o m g atoms s0 = some s' := Option.isSome_iff_exists.1 step0_some
example : s0.gen ≠ [] := by simp [s0, initState]
example : o.removeDup = true := rfl
example : ∃ s', stepState o m g atoms s0 = some s' ∧ s'.currentLevel = s0.currentLevel + 1 := by
  obtain ⟨s', h⟩ := Option.isSome_iff_exists.1 step0_some
  exact ⟨s', h, step_currentLevel o m g atoms s0 s' (by simp [s0, initState]) h⟩

/- `nested`, `nested_idents`, `nested_le`: levels 0 < 1 < 2 all exist after three units of fuel -/
set_option maxRecDepth 100000 in
example : 1 + 1 < (iterate o m g atoms 3 (initState o m atoms)).levelShells.length := by decide

/- `nested_run`, `truncation_run`, `run_converged`: runs that succeed, and reach level 2 -/
set_option maxRecDepth 100000 in
example : (runFp o m g).toOption.map (·.levelShells.map (·.length)) = some [4, 8, 9] := by decide
set_option maxRecDepth 100000 in
example : (runFp { o with level := 1 } m g).toOption.map (·.levelShells.map (·.length)) = some [4, 8] := by
  decide
set_option maxRecDepth 100000 in
example : (runFp { o with level := -1 } m g).toOption.map (·.levelShells.map (·.length)) = some [4, 8, 9] := by
  decide
example : ∃ s, runFp { o with level := -1 } m g = .ok s ∧ ({ o with level := -1 } : Opts).level = -1 :=
  ⟨_, (runFp_ok_iff _ m g _).2 ⟨fun _ => rfl, by decide, by show retained o m ≠ []; rw [retained_eq]; decide, rfl⟩, rfl⟩

/- `step_level_irrelevant`: the start state is below the limits 3 and 1 -/
example : ¬ (o.level ≠ -1 ∧ (s0.currentLevel : Int) ≥ o.level) ∧
    ¬ ((1 : Int) ≠ -1 ∧ (s0.currentLevel : Int) ≥ 1) := by decide

/- `step_at_limit`: with limit 0 the start state is at the limit -/
example : ({ o with level := 0 } : Opts).level ≠ -1 ∧
    ((s0.currentLevel : Int) ≥ ({ o with level := 0 } : Opts).level) := by decide

/- `iterate_limit_irrelevant`: from level 0, three steps stay within limit 3 -/
example : s0.currentLevel + 3 ≤ 3 := by decide

/- `truncation`: the run to limit 3 reaches level 1, and the run to limit 1 really is shorter -/
set_option maxRecDepth 100000 in
example : 1 + 1 ≤ (runTo o m g atoms 3).levelShells.length ∧
    (runTo o m g atoms 1).levelShells.length < (runTo o m g atoms 3).levelShells.length := by decide

/- `truncation_level` -/
set_option maxRecDepth 100000 in
example : 1 < (runTo o m g atoms 1).levelShells.length := by decide

/- `beyond_last`: level 7 was never generated -/
set_option maxRecDepth 100000 in
example : (7 : Int) < 0 ∨ (((sN 3).levelShells.length : Nat) : Int) ≤ 7 := by decide

/- `large_limit_eq_converged` -/
example : o.removeDup = true ∧ 2 ^ atoms.length ≤ 16 := by decide

/- `conv_bound`, `conv_iterate`: the invariant holds at the start (`conv_init`) -/
example : ConvInv atoms s0.past s0 0 := conv_init o m atoms

end NonVacuity

end E3fpVerif.Props.C12
