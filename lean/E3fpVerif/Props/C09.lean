import E3fpVerif.Model.Fprint
namespace E3fpVerif.Props.C09
open E3fpVerif

/-- `==` between bit fingerprints decides equality of content -/
theorem eq_bit_iff (f g : Fp) (hf : f.kind = .bit) (hg : g.kind = .bit) (hcf : f.cnt = []) (hcg : g.cnt = []) :
    f.eq g = .ok (decide (f = g)) := by
  obtain ⟨k1, b1, l1, i1, c1⟩ := f
  obtain ⟨k2, b2, l2, i2, c2⟩ := g
  simp only at hf hg hcf hcg
  subst hf hg hcf hcg
  simp only [Fp.eq, Fp.mk.injEq, true_and, and_true]
  congr 1
  by_cases h1 : l1 = l2 <;> by_cases h2 : b1 = b2 <;> by_cases h3 : i1 = i2 <;> simp [h1, h2, h3]

end E3fpVerif.Props.C09
