import E3fpVerif.Model.Fprint
import E3fpVerif.Lemmas.Uniq
import E3fpVerif.Lemmas.FpAux
namespace E3fpVerif.Props.C09
open E3fpVerif

/-- `==` between bit fingerprints decides equality of content -/
theorem eq_bit_iff (f g : Fp) (hf : f.kind = .bit) (hg : g.kind = .bit) (hcf : f.cnt = []) (hcg : g.cnt = []) :
    f.eq g = .ok (decide (f = g)) := by
  obtain ⟨k1, b1, l1, i1, c1⟩ := f
  obtain ⟨k2, b2, l2, i2, c2⟩ := g
  simp only at hf hg hcf hcg
  subst hf hg hcf hcg
  simp only [Fp.eq, Fp.mk.injEq, true_and, and_true]
  congr 1
  by_cases h1 : l1 = l2 <;> by_cases h2 : b1 = b2 <;> by_cases h3 : i1 = i2 <;> simp [h1, h2, h3]

/-- `==` between count / float fingerprints compares level, length, counts dictionary and class -/
theorem eq_count_iff (f g : Fp) (hf : f.kind ≠ .bit) (hg : g.kind ≠ .bit) :
    f.eq g = .ok (decide (f.level = g.level ∧ f.bits = g.bits ∧ f.cnt = g.cnt ∧ f.kind = g.kind)) := by
  unfold Fp.eq
  cases hf' : f.kind <;> cases hg' : g.kind <;> simp_all <;> grind

/-- for well-formed count / float fingerprints (indices are the count keys) `==` decides equality of content -/
theorem eq_count_iff_wf (f g : Fp) (hf : f.kind ≠ .bit) (hg : g.kind ≠ .bit) (hwf : f.WF) (hwg : g.WF) :
    f.eq g = .ok (decide (f = g)) := by
  rw [eq_count_iff f g hf hg]
  congr 1
  have h1 := hwf.2.2.2 hf
  have h2 := hwg.2.2.2 hg
  obtain ⟨k1, b1, l1, i1, c1⟩ := f
  obtain ⟨k2, b2, l2, i2, c2⟩ := g
  simp only at h1 h2
  simp only [Fp.mk.injEq, decide_eq_decide]
  constructor
  · rintro ⟨rfl, rfl, rfl, rfl⟩
    exact ⟨rfl, rfl, rfl, by rw [← h1, ← h2], rfl⟩
  · rintro ⟨rfl, rfl, rfl, _, rfl⟩
    exact ⟨rfl, rfl, rfl, rfl⟩

/-- for well-formed fingerprints of one family `==` decides equality of content -/
theorem eq_iff_wf (f g : Fp) (hwf : f.WF) (hwg : g.WF) (hfam : f.kind = .bit ↔ g.kind = .bit) :
    f.eq g = .ok (decide (f = g)) := by
  by_cases hf : f.kind = .bit
  · exact eq_bit_iff f g hf (hfam.1 hf) (hwf.2.2.1 hf) (hwg.2.2.1 (hfam.1 hf))
  · exact eq_count_iff_wf f g hf (fun e => hf (hfam.2 e)) hwf hwg

/-- `==` is reflexive, for every fingerprint -/
theorem eq_refl (f : Fp) : f.eq f = .ok true := by
  unfold Fp.eq
  split <;> simp_all

/-- `==` is symmetric, errors included: a bit operand against a count operand is rejected both ways round -/
theorem eq_symm (f g : Fp) : f.eq g = g.eq f := by
  unfold Fp.eq
  cases hf : f.kind <;> cases hg : g.kind <;> simp only [Except.ok.injEq] <;> grind

/-- the two operands of a successful comparison belong to one family -/
theorem eq_ok_family (f g : Fp) (b : Bool) (h : f.eq g = .ok b) : (f.kind = .bit ↔ g.kind = .bit) := by
  unfold Fp.eq at h
  cases hf : f.kind <;> cases hg : g.kind <;> simp_all

/-- within a family `==` never raises -/
theorem eq_total (f g : Fp) (hfam : f.kind = .bit ↔ g.kind = .bit) : ∃ b, f.eq g = .ok b := by
  unfold Fp.eq
  cases hf : f.kind <;> cases hg : g.kind <;> simp_all

/-- across the families `==` raises `InvalidFingerprintError` -/
theorem eq_cross_family (f g : Fp) (hfam : ¬ (f.kind = .bit ↔ g.kind = .bit)) : f.eq g = .error .invalidFp := by
  unfold Fp.eq
  cases hf : f.kind <;> cases hg : g.kind <;> simp_all

/-- `==` is transitive (the hypotheses already force all three operands into one family) -/
theorem eq_trans (f g h : Fp) (h1 : f.eq g = .ok true) (h2 : g.eq h = .ok true) : f.eq h = .ok true := by
  unfold Fp.eq at *
  cases hf : f.kind <;> cases hg : g.kind <;> cases hh : h.kind <;> simp_all

/-- `!=` is the negation of `==`, errors propagated -/
theorem ne_is_not_eq (f g : Fp) : f.ne g = (f.eq g).map not := rfl

/-- within a family `!=` never raises and is the Boolean complement of `==` -/
theorem ne_total (f g : Fp) (hfam : f.kind = .bit ↔ g.kind = .bit) :
    ∃ b, f.eq g = .ok b ∧ f.ne g = .ok (!b) := by
  obtain ⟨b, hb⟩ := eq_total f g hfam
  exact ⟨b, hb, by rw [ne_is_not_eq, hb]; rfl⟩

example : (⟨.bit, 8, 5, [1, 3], []⟩ : Fp).eq ⟨.bit, 8, 5, [1, 3], []⟩ = .ok true := eq_refl _
example : (⟨.bit, 8, 5, [1, 3], []⟩ : Fp).eq ⟨.bit, 8, 5, [1, 4], []⟩ = .ok false := rfl
example : (⟨.bit, 8, 5, [1, 3], []⟩ : Fp).eq ⟨.count, 8, 5, [1, 3], [(1, 1), (3, 1)]⟩ = .error .invalidFp := rfl
example : (⟨.bit, 8, 5, [1, 3], []⟩ : Fp).ne ⟨.bit, 8, 5, [1, 4], []⟩ = .ok true := rfl

/-! ## copies -/

/-- `Fingerprint.from_fingerprint(f)` of a bit fingerprint is an equal fingerprint -/
theorem copy_equal_bit (f : Fp) (hk : f.kind = .bit) (hwf : f.WF) : fromFingerprint .bit f = .ok f :=
  mkBit_self f hk hwf

/-- `cls.from_fingerprint(f)` of a count / float fingerprint of the same class is an equal fingerprint,
provided every stored count is positive (zero and negative counts are dropped by the copy) and is a fixed
point of the class's value setter (`int` for counts) -/
theorem copy_equal (f : Fp) (hk : f.kind ≠ .bit) (hwf : f.WF) (hpos : ∀ p ∈ f.cnt, 0 < p.2)
    (hst : ∀ p ∈ f.cnt, coerce f.kind p.2 = p.2) : fromFingerprint f.kind f = .ok f := by
  rw [fromFingerprint_eq f.kind hk f hwf hpos, map_count_self f hk hwf f.kind hst]

/-- and the copy compares equal -/
theorem copy_eq_true (f g : Fp) (hwf : f.WF) (hpos : ∀ p ∈ f.cnt, 0 < p.2)
    (hst : ∀ p ∈ f.cnt, coerce f.kind p.2 = p.2) (hc : fromFingerprint f.kind f = .ok g) :
    f.eq g = .ok true := by
  by_cases hk : f.kind = .bit
  · rw [hk] at hc; rw [copy_equal_bit f hk hwf] at hc; cases hc; exact eq_refl f
  · rw [copy_equal f hk hwf hpos hst] at hc; cases hc; exact eq_refl f

/-- the positivity hypothesis of `copy_equal` cannot be dropped: a stored zero count is lost by the copy -/
theorem copy_drops_zero_count :
    let f : Fp := ⟨.count, 8, 0, [1], [(1, 0)]⟩
    f.WF ∧ fromFingerprint .count f = .ok ⟨.count, 8, 0, [], []⟩ := by
  refine ⟨⟨by decide, by decide, by simp, by simp⟩, ?_⟩
  simp [fromFingerprint, Fp.countsDict, mkCount, uniq]

/-- pickling and unpickling gives back the same content -/
theorem pickle_equal (f : Fp) (hwf : f.WF) : Fp.pickleRoundTrip f = f := by
  unfold Fp.pickleRoundTrip
  split
  · rfl
  · rename_i hk
    rw [hwf.2.2.2 (fun e => hk e), uniq_of_strictAsc _ hwf.1]

def exC : Fp := ⟨.count, 8, 5, [1, 3], [(1, 2), (3, 1)]⟩
theorem exC_wf : exC.WF := ⟨by decide, by decide, by simp [exC], by simp [exC]⟩

example : fromFingerprint .count exC = .ok exC := by
  apply copy_equal exC (by simp [exC]) exC_wf
  · intro p hp; simp only [exC, List.mem_cons, List.not_mem_nil, or_false] at hp
    rcases hp with rfl | rfl <;> grind
  · intro p hp; simp only [exC, List.mem_cons, List.not_mem_nil, or_false] at hp
    rcases hp with rfl | rfl
    · exact coerce_natCast .count 2
    · exact coerce_natCast .count 1

example : fromFingerprint .bit ⟨.bit, 8, 5, [1, 3], []⟩ = .ok ⟨.bit, 8, 5, [1, 3], []⟩ :=
  copy_equal_bit _ rfl ⟨by decide, by decide, by simp, by simp⟩

example : exC.eq exC = .ok (decide (exC = exC)) :=
  eq_count_iff_wf exC exC (by simp [exC]) (by simp [exC]) exC_wf exC_wf

example : exC.eq exC = .ok true := eq_trans exC exC exC (eq_refl _) (eq_refl _)

example : ∃ b, exC.eq { exC with level := 2 } = .ok b ∧ exC.ne { exC with level := 2 } = .ok (!b) :=
  ne_total _ _ (by simp [exC])

example : exC.eq ⟨.bit, 8, 5, [1, 3], []⟩ = .error .invalidFp := eq_cross_family _ _ (by simp [exC])

/-- "copies are independent": the model is purely functional, a copy shares no state with its source, so
changing a field of the copy leaves the source equal to itself and unequal to the changed copy -/
theorem copy_independent (f g : Fp) (hk : f.kind = .bit) (hwf : f.WF) (hc : fromFingerprint .bit f = .ok g)
    (l : Int) (hl : l ≠ f.level) : f.eq f = .ok true ∧ f.eq { g with level := l } = .ok false := by
  rw [copy_equal_bit f hk hwf] at hc
  cases hc
  refine ⟨eq_refl f, ?_⟩
  unfold Fp.eq
  simp only [hk]
  have : (f.level == l) = false := by simpa using fun e => hl e.symm
  rw [this]; rfl

example : (⟨.bit, 8, 5, [1, 3], []⟩ : Fp).eq { (⟨.bit, 8, 5, [1, 3], []⟩ : Fp) with level := 2 } = .ok false :=
  (copy_independent ⟨.bit, 8, 5, [1, 3], []⟩ _ rfl ⟨by decide, by decide, by simp, by simp⟩
    (copy_equal_bit _ rfl ⟨by decide, by decide, by simp, by simp⟩) 2 (by decide)).2

end E3fpVerif.Props.C09
