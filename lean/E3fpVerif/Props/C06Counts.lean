import E3fpVerif.Model.MetricsCounts
import E3fpVerif.Props.C06
/-!
# C06 (counts) — on 0/1 rows every measure is its closed form in `|A|`, `|B|`, `|A ∩ B|`

The definitions of `Model/Metrics.lean` evaluated on two rows whose stored values are all 1 equal the
closed forms of `Model/MetricsCounts.lean` at the rows' three counts.  The correspondence check uses the
closed forms (driver op `met.counts`) for rows with more than 2^24 on-bits, where single-precision
accumulation in the implementation would silently lose the intersection count.
-/
namespace E3fpVerif.Props.C06Counts
open E3fpVerif E3fpVerif.C06L E3fpVerif.Props.C06

theorem tanimoto_counts (x y : Row) : tanimotoDef x y = tanimotoC (countsOf x y) := rfl

theorem dice_counts (x y : Row) : diceDef x y = diceC (countsOf x y) := rfl

/-- Soergel of 0/1 rows is the Tanimoto closed form -/
theorem soergel_counts (x y : Row) (hx : BinaryRow x) (hy : BinaryRow y) :
    soergelDef x y = tanimotoC (countsOf x y) := by
  rw [soergel_binary x y hx hy]; rfl

theorem cosine_counts (x y : Row) (hx : BinaryRow x) (hy : BinaryRow y) :
    cosineDef x y = cosineC (countsOf x y) := by
  unfold cosineDef cosineC countsOf
  rw [Props.C06.dotQ_binary x y hx hy, Props.C06.dotQ_binary x x hx hx, Props.C06.dotQ_binary y y hy hy,
    interCount_self, interCount_self]

theorem pearson_counts (n : Nat) (x y : Row) (hx : BinaryRow x) (hy : BinaryRow y) :
    pearsonDef n x y = pearsonC n (countsOf x y) := by
  unfold pearsonDef pearsonC countsOf
  simp only [Props.C06.dotQ_binary x y hx hy, Props.C06.dotQ_binary x x hx hx, Props.C06.dotQ_binary y y hy hy,
    interCount_self, Props.C06.rowSum_binary x hx, Props.C06.rowSum_binary y hy]

/-- the matrix routes on 0/1 rows are the closed forms as well -/
theorem arr_counts (x y : Row) (hx : BinaryRow x) (hy : BinaryRow y) :
    arrTanimoto x y = tanimotoC (countsOf x y) ∧ arrDice x y = diceC (countsOf x y)
      ∧ arrCosine x y = cosineC (countsOf x y) :=
  ⟨(arrTanimoto_eq_def x y hx hy).trans (tanimoto_counts x y), (arrDice_eq_def x y hx hy).trans (dice_counts x y),
    (arrCosine_eq_def x y).trans (cosine_counts x y hx hy)⟩

/-- the closed forms only see the counts: rows with equal counts score alike -/
theorem counts_determine (x y x' y' : Row) (h : countsOf x y = countsOf x' y') :
    tanimotoDef x y = tanimotoDef x' y' ∧ diceDef x y = diceDef x' y' := by
  rw [tanimoto_counts, tanimoto_counts, dice_counts, dice_counts, h]; exact ⟨rfl, rfl⟩

/-- bounds that make the counts meaningful: `c ≤ a` always -/
theorem counts_le (x y : Row) : (countsOf x y).c ≤ (countsOf x y).a := interCount_le_left _ _

example : countsOf [(1, 1), (2, 1)] [(2, 1), (5, 1)] = ⟨2, 2, 1⟩ := by decide +kernel
example : tanimotoC ⟨2, 2, 1⟩ = 1 / 3 := by decide +kernel
example : cosineDef [(1, 1), (2, 1)] [(2, 1), (5, 1)] = (1, 4) := by
  rw [cosine_counts _ _ (by intro p hp; simp at hp; rcases hp with rfl | rfl <;> rfl)
    (by intro p hp; simp at hp; rcases hp with rfl | rfl <;> rfl)]
  decide +kernel

end E3fpVerif.Props.C06Counts
