import E3fpVerif.Model.ConfigState
/-!
# C20 — options absent from a user file fall back to the *packaged* defaults, whatever the process did before

`read_fallback` / `read_user_wins` / `read_nofill`: the table read from a user file with `fill_defaults`;
`read_history_free`: the answer of a read does not depend on the history of the process - in particular not on variants
derived earlier from the live `default_params` object (which do change what `get_default_value` reports: `derive_changes_live`).
-/
namespace E3fpVerif.Props.C20State
open E3fpVerif

theorem ctGet_set_self (t : CTable) (k : CKey) (v : CVal) : ctGet (ctSet t k v) k = some v := by
  induction t with
  | nil => simp [ctSet, ctGet]
  | cons e es ih =>
    obtain ⟨k', v'⟩ := e
    simp only [ctSet]
    by_cases he : k' = k
    · simp [he, ctGet]
    · simp [he, ctGet, ih]

theorem ctGet_set_other (t : CTable) (k q : CKey) (v : CVal) (h : q ≠ k) : ctGet (ctSet t k v) q = ctGet t q := by
  have hkq : ¬ (k = q) := fun x => h x.symm
  induction t with
  | nil => simp [ctSet, ctGet, hkq]
  | cons e es ih =>
    obtain ⟨k', v'⟩ := e
    simp only [ctSet]
    by_cases he : k' = k
    · subst he; simp [ctGet, hkq]
    · by_cases hq : k' = q
      · subst hq; simp [h, ctGet]
      · simp [he, hq, ctGet, ih]

/-- an option the user file does not mention keeps the defaults' value -/
theorem readTable_absent (defaults user : CTable) (k : CKey) (h : ∀ e ∈ user, e.1 ≠ k) :
    ctGet (readCfgTable defaults user) k = ctGet defaults k := by
  unfold readCfgTable
  induction user generalizing defaults with
  | nil => rfl
  | cons e es ih =>
    simp only [List.foldl_cons]
    rw [ih _ (fun e' he' => h e' (List.mem_cons_of_mem _ he'))]
    exact ctGet_set_other defaults e.1 k _ (Ne.symm (h e (List.mem_cons_self ..)))

/-- an option the user file gives (once) has the user's value, as typed on the way through the file -/
theorem readTable_present (defaults : CTable) (pre post : CTable) (k : CKey) (v : CVal)
    (hpost : ∀ e ∈ post, e.1 ≠ k) :
    ctGet (readCfgTable defaults (pre ++ (k, v) :: post)) k = some (viaFile v) := by
  unfold readCfgTable
  rw [List.foldl_append, List.foldl_cons]
  have := readTable_absent (ctSet (List.foldl (fun t e => ctSet t e.1 (viaFile e.2)) defaults pre) k (viaFile v)) post k hpost
  unfold readCfgTable at this
  rw [this]
  exact ctGet_set_self _ k _

/-- **fallback**: with `fill_defaults` an option absent from the user file has the packaged value -/
theorem read_fallback (s : CfgState) (user : CTable) (k : CKey) (h : ∀ e ∈ user, e.1 ≠ k) :
    ∃ t, (cfgStep s (.read user true)).2 = .table t ∧ ctGet t k = ctGet s.packaged k :=
  ⟨_, rfl, readTable_absent s.packaged user k h⟩

/-- the user's own options win -/
theorem read_user_wins (s : CfgState) (fill : Bool) (pre post : CTable) (k : CKey) (v : CVal) (hpost : ∀ e ∈ post, e.1 ≠ k) :
    ∃ t, (cfgStep s (.read (pre ++ (k, v) :: post) fill)).2 = .table t ∧ ctGet t k = some (viaFile v) :=
  ⟨_, rfl, readTable_present _ pre post k v hpost⟩

/-- without `fill_defaults` nothing but the user's options is there -/
theorem read_nofill (s : CfgState) (user : CTable) (k : CKey) (h : ∀ e ∈ user, e.1 ≠ k) :
    ∃ t, (cfgStep s (.read user false)).2 = .table t ∧ ctGet t k = none :=
  ⟨_, rfl, by
    show ctGet (readCfgTable [] user) k = none
    rw [readTable_absent [] user k h]; rfl⟩

/-- no operation writes the packaged defaults -/
theorem step_packaged (s : CfgState) (op : CfgOp) : (cfgStep s op).1.packaged = s.packaged := by
  cases op <;> rfl

theorem run_packaged (s : CfgState) (ops : List CfgOp) : (cfgRun s ops).1.packaged = s.packaged := by
  induction ops generalizing s with
  | nil => rfl
  | cons op ops ih => simp only [cfgRun]; rw [ih, step_packaged]

/-- **a read is a function of the packaged defaults and the user file only**: after any history of the process (variants
derived from the live defaults object, other reads) it answers as in the initial state -/
theorem read_history_free (s : CfgState) (ops : List CfgOp) (user : CTable) (fill : Bool) :
    (cfgStep (cfgRun s ops).1 (.read user fill)).2 = (cfgStep s (.read user fill)).2 := by
  simp only [cfgStep, run_packaged]

/-- ... although deriving a variant from the live object does change what `get_default_value` reports (the shallow copy shares
the section dictionaries): kept as a statement about the unchanged code, not as a property -/
theorem derive_changes_live (s : CfgState) (sec opt : String) (v : CVal) :
    (cfgStep (cfgStep s (.derive sec [(opt, v)])).1 (.getDefault (sec, opt))).2 = .val (some (viaFile v)) := by
  simp only [cfgStep, List.foldl_cons, List.foldl_nil]
  rw [ctGet_set_self]

/-- non-vacuity: level 5 packaged; a variant with level 2 is derived from the live object; a user file without `level` read
with fill_defaults still gets 5, `get_default_value` now says 2 -/
example :
    let s : CfgState := ⟨[(("fingerprinting", "level"), .int 5)], [(("fingerprinting", "level"), .int 5)]⟩
    (cfgRun s [.derive "fingerprinting" [("level", .int 2)], .read [(("fingerprinting", "bits"), .int 1024)] true,
               .getDefault ("fingerprinting", "level")]).2.map (fun a => match a with
      | .table t => ctGet t ("fingerprinting", "level") | .val v => v | .unit => none) = [none, some (.int 5), some (.int 2)] := by
  decide +kernel

end E3fpVerif.Props.C20State
