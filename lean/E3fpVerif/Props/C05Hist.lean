import E3fpVerif.Model.DbHist
import E3fpVerif.Lemmas.DbHist
import E3fpVerif.Lemmas.DbHistOps
import E3fpVerif.Lemmas.DbCast
import E3fpVerif.Props.C05
import E3fpVerif.Props.C08
import E3fpVerif.Props.C16
/-!
# C05 (histories) — every history of database operations refines the list-of-rows specification

`Model/DbHist.lean` gives the operation language (`DbOp`), its execution on the operational model
(`stepOp`, `runOps`: CSR rows, name list, separately maintained name index, property columns), the
specification (`SDb`: a database is a list of rows; `specStep`, `runSpec`) and the abstraction
(`Db.spec`, `absPool`).  This file proves

* `step_refines`, `step_inv`: one step on the model and on the specification give the same answer and
  the same abstract pool, and the representation invariant `Db.Inv` is kept by every live database;
* `history_refines`, `history_inv`: the same for every history, by induction over the operation list;
* `getIndex_refines`, `getName_refines`: `db[i]` and `db[name]` read the specification's rows;
* `faithful_container`: after any well-formed history from the empty pool, the answers are those of the
  specification and every live database answers `db[i]`, `db[name]` as its list of rows does;
* `Stored`: the cells of every row the specification ever holds are fixed points of the dtype cast, so
  `get_subset` and the npz round trip return the source rows unchanged.

The per-operation refinement lemmas are in `Lemmas/DbHistOps.lean`.
-/
namespace E3fpVerif.Props.C05Hist
open E3fpVerif

/-- every live database satisfies the representation invariant -/
def PoolInv (p : Pool) : Prop := ∀ e ∈ p, e.2.Inv

/-- a history is well formed when every `from_array` supplies one name per matrix row -/
def _root_.E3fpVerif.DbOp.WF : DbOp → Prop
  | .fromArray _ rows _ names _ _ _ _ => names.length = rows.length
  | _ => True

/-! ## pools under the abstraction -/

theorem absPool_get? (p : Pool) (id : String) : (absPool p).get? id = (p.get? id).map Db.spec :=
  PoolOf.get?_map Db.spec p id

theorem absPool_put (p : Pool) (id : String) (d : Db) : (absPool p).put id d.spec = absPool (p.put id d) :=
  PoolOf.put_map Db.spec p id d

theorem absPool_getAll? (p : Pool) (ids : List String) :
    (absPool p).getAll? ids = (p.getAll? ids).map (List.map Db.spec) :=
  PoolOf.getAll?_map Db.spec p ids

theorem putRes_abs (p : Pool) (out : String) (r : Except Err Db) :
    putRes (absPool p) out (exSpec r) = (absPool (putRes p out r).1, (putRes p out r).2) := by
  cases r with
  | error e => rfl
  | ok d => simp only [exSpec, putRes, absPool_put]

theorem poolInv_nil : PoolInv [] := by intro e he; cases he

theorem PoolInv.get {p : Pool} (hp : PoolInv p) {id : String} {d : Db} (h : p.get? id = some d) : d.Inv :=
  hp (id, d) (PoolOf.mem_of_get? p id d h)

theorem PoolInv.put {p : Pool} (hp : PoolInv p) (id : String) {d : Db} (hd : d.Inv) : PoolInv (p.put id d) := by
  intro e he
  rcases PoolOf.mem_put p id d e he with h | h
  · exact hp e h
  · rw [h]; exact hd

theorem PoolInv.getAll {p : Pool} (hp : PoolInv p) {ids : List String} {ds : List Db}
    (h : p.getAll? ids = some ds) : ∀ d ∈ ds, d.Inv := by
  intro d hd
  obtain ⟨id, hm⟩ := PoolOf.mem_of_getAll? p ids ds h d hd
  exact hp (id, d) hm

theorem PoolInv.putRes {p : Pool} (hp : PoolInv p) (out : String) (r : Except Err Db)
    (hr : ∀ d, r = .ok d → d.Inv) : PoolInv (putRes p out r).1 := by
  cases r with
  | error e => exact hp
  | ok d => exact hp.put out (hr d rfl)

/-- an operation that updates the database `id` in place -/
theorem inplace_refines (p : Pool) (id : String) (f : Db → Db × Ans) (g : SDb → SDb × Ans) (hp : PoolInv p)
    (hfg : ∀ d, d.Inv → ((f d).1.spec, (f d).2) = g d.spec) :
    ((p.get? id).map (fun d => (p.put id (f d).1, (f d).2))).map (fun r => (absPool r.1, r.2)) =
      ((absPool p).get? id).map (fun d => ((absPool p).put id (g d).1, (g d).2)) := by
  rw [absPool_get?]
  cases hg : p.get? id with
  | none => rfl
  | some d =>
    simp only [Option.map_some]
    rw [← hfg d (hp.get hg), absPool_put]

/-- an operation that derives a new database `out` from the database `id` -/
theorem derive_refines (p : Pool) (id out : String) (f : Db → Except Err Db) (g : SDb → Except Err SDb)
    (hp : PoolInv p) (hfg : ∀ d, d.Inv → exSpec (f d) = g d.spec) :
    ((p.get? id).map (fun d => putRes p out (f d))).map (fun r => (absPool r.1, r.2)) =
      ((absPool p).get? id).map (fun d => putRes (absPool p) out (g d)) := by
  rw [absPool_get?]
  cases hg : p.get? id with
  | none => rfl
  | some d =>
    simp only [Option.map_some]
    rw [← hfg d (hp.get hg), putRes_abs]

/-! ## one step: refinement -/

theorem step_refines_new (p : Pool) (id : String) (k : Kind) (level : Int) (name : Option String) :
    (stepOp p (.new id k level name)).map (fun r => (absPool r.1, r.2)) = specStep (absPool p) (.new id k level name) := by
  simp only [stepOp, specStep, Option.map_some, ← new_spec, absPool_put]

theorem step_refines_add (p : Pool) (id : String) (fps : List FpIn) (hp : PoolInv p) :
    (stepOp p (.add id fps)).map (fun r => (absPool r.1, r.2)) = specStep (absPool p) (.add id fps) :=
  inplace_refines p id (fun d => d.add fps) (fun s => s.add fps) hp (fun d hd => add_refines d fps hd)

theorem step_refines_fromArray (p : Pool) (id : String) (rows : List Row) (bits : Nat) (names : List (Option String))
    (k : Kind) (level : Int) (name : Option String) (props : List (String × List PVal)) :
    (stepOp p (.fromArray id rows bits names k level name props)).map (fun r => (absPool r.1, r.2)) =
      specStep (absPool p) (.fromArray id rows bits names k level name props) := by
  simp only [stepOp, specStep, Option.map_some]
  by_cases h : ∀ c ∈ props, c.2.length = names.length
  · rw [fromArray_spec_ok rows bits names k level name props h,
      (fromArray_ok_iff rows bits names k level name props).2 h]
    simp only [putRes, absPool_put]
  · obtain ⟨h1, h2⟩ := fromArray_spec_err rows bits names k level name props h
    rw [h1, h2]
    rfl

theorem step_refines_subset (p : Pool) (id out : String) (names : List String) (newName : Option String)
    (hp : PoolInv p) :
    (stepOp p (.subset id out names newName)).map (fun r => (absPool r.1, r.2)) =
      specStep (absPool p) (.subset id out names newName) :=
  derive_refines p id out (fun d => d.subset names newName) (fun s => s.subset names newName) hp
    (fun d hd => subset_refines d names newName hd)

theorem step_refines_asType (p : Pool) (id out : String) (k : Kind) (hp : PoolInv p) :
    (stepOp p (.asType id out k)).map (fun r => (absPool r.1, r.2)) = specStep (absPool p) (.asType id out k) :=
  derive_refines p id out (fun d => d.asType k) (fun s => s.asType k) hp (fun d hd => asType_refines d k hd)

theorem step_refines_fold (p : Pool) (id out : String) (bits : Nat) (k : Option Kind) (newName : Option String)
    (hp : PoolInv p) :
    (stepOp p (.fold id out bits k newName)).map (fun r => (absPool r.1, r.2)) =
      specStep (absPool p) (.fold id out bits k newName) :=
  derive_refines p id out (fun d => d.fold bits k newName) (fun s => s.fold bits k newName) hp
    (fun d hd => fold_refines d bits k newName hd)

theorem step_refines_concat (p : Pool) (ids : List String) (out : String) (hp : PoolInv p) :
    (stepOp p (.concat ids out)).map (fun r => (absPool r.1, r.2)) = specStep (absPool p) (.concat ids out) := by
  simp only [stepOp, specStep, absPool_getAll?]
  cases hg : p.getAll? ids with
  | none => rfl
  | some ds =>
    simp only [Option.map_some]
    rw [← concat_refines ds (hp.getAll hg), putRes_abs]

theorem step_refines_setProp (p : Pool) (id key : String) (vals : List PVal) (hp : PoolInv p) :
    (stepOp p (.setProp id key vals)).map (fun r => (absPool r.1, r.2)) = specStep (absPool p) (.setProp id key vals) :=
  inplace_refines p id (fun d => d.setProp key vals) (fun s => s.setProp key vals) hp
    (fun d hd => setProp_refines d key vals hd)

theorem step_refines_updateProps (p : Pool) (id : String) (cols : List (String × List PVal)) (hp : PoolInv p) :
    (stepOp p (.updateProps id cols)).map (fun r => (absPool r.1, r.2)) = specStep (absPool p) (.updateProps id cols) :=
  inplace_refines p id (fun d => d.updateProps cols) (fun s => s.updateProps cols) hp
    (fun d hd => updateProps_refines d cols hd)

theorem step_refines_pickle (p : Pool) (id out : String) (hp : PoolInv p) :
    (stepOp p (.pickle id out)).map (fun r => (absPool r.1, r.2)) = specStep (absPool p) (.pickle id out) :=
  derive_refines p id out (fun d => .ok d.pickleRoundTrip) (fun s => .ok s) hp
    (fun d hd => by rw [pickle_refines d hd]; rfl)

theorem step_refines_savezLoad (p : Pool) (id out : String) (hp : PoolInv p) :
    (stepOp p (.savezLoad id out)).map (fun r => (absPool r.1, r.2)) = specStep (absPool p) (.savezLoad id out) :=
  derive_refines p id out (fun d => d.savezLoad) (fun s => s.savezLoad) hp (fun d hd => savezLoad_refines d hd)

/-- **one step of a history refines the specification**: same answer, same abstract pool (and the
operation is malformed on the model exactly when it is on the specification) -/
theorem step_refines (p : Pool) (op : DbOp) (hp : PoolInv p) (hw : op.WF) :
    (stepOp p op).map (fun r => (absPool r.1, r.2)) = specStep (absPool p) op := by
  cases op with
  | new id k level name => exact step_refines_new p id k level name
  | add id fps => exact step_refines_add p id fps hp
  | fromArray id rows bits names k level name props => exact step_refines_fromArray p id rows bits names k level name props
  | subset id out names newName => exact step_refines_subset p id out names newName hp
  | asType id out k => exact step_refines_asType p id out k hp
  | fold id out bits k newName => exact step_refines_fold p id out bits k newName hp
  | concat ids out => exact step_refines_concat p ids out hp
  | setProp id key vals => exact step_refines_setProp p id key vals hp
  | updateProps id cols => exact step_refines_updateProps p id cols hp
  | pickle id out => exact step_refines_pickle p id out hp
  | savezLoad id out => exact step_refines_savezLoad p id out hp

/-! ## one step: the invariant -/

theorem concat_inv' (ds : List Db) (d : Db) (hi : ∀ x ∈ ds, x.Inv) (h : Db.concat ds = .ok d) : d.Inv := by
  cases ds with
  | nil => cases h
  | cons d0 rest => exact C16.concat_inv d0 rest d hi h

/-- **every live database satisfies the invariant after a step** -/
theorem step_inv (p : Pool) (op : DbOp) (hp : PoolInv p) (hw : op.WF) (r : Pool × Ans)
    (h : stepOp p op = some r) : PoolInv r.1 := by
  cases op with
  | new id k level name =>
    simp only [stepOp, Option.some.injEq] at h
    subst h; exact hp.put id (C05.inv_new k level name)
  | add id fps =>
    simp only [stepOp] at h
    cases hg : p.get? id with
    | none => rw [hg] at h; cases h
    | some d =>
      rw [hg] at h
      simp only [Option.map_some, Option.some.injEq] at h
      subst h; exact hp.put id (C05.inv_add_always d fps (hp.get hg))
  | fromArray id rows bits names k level name props =>
    simp only [stepOp, Option.some.injEq] at h
    subst h
    cases hr : (Db.fromArray rows bits names k level name props).2 with
    | none => exact hp.put id (C05.fromArray_inv rows bits names k level name props hw hr)
    | some e => exact hp
  | subset id out names newName =>
    simp only [stepOp] at h
    cases hg : p.get? id with
    | none => rw [hg] at h; cases h
    | some d =>
      rw [hg] at h
      simp only [Option.map_some, Option.some.injEq] at h
      subst h; exact hp.putRes out _ (fun d' hd' => C05.subset_inv d names newName d' hd')
  | asType id out k =>
    simp only [stepOp] at h
    cases hg : p.get? id with
    | none => rw [hg] at h; cases h
    | some d =>
      rw [hg] at h
      simp only [Option.map_some, Option.some.injEq] at h
      subst h; exact hp.putRes out _ (fun d' hd' => C05.asType_inv d k d' (hp.get hg) hd')
  | fold id out bits k newName =>
    simp only [stepOp] at h
    cases hg : p.get? id with
    | none => rw [hg] at h; cases h
    | some d =>
      rw [hg] at h
      simp only [Option.map_some, Option.some.injEq] at h
      subst h; exact hp.putRes out _ (fun d' hd' => C05.fold_inv d bits k newName d' (hp.get hg) hd')
  | concat ids out =>
    simp only [stepOp] at h
    cases hg : p.getAll? ids with
    | none => rw [hg] at h; cases h
    | some ds =>
      rw [hg] at h
      simp only [Option.map_some, Option.some.injEq] at h
      subst h; exact hp.putRes out _ (fun d' hd' => concat_inv' ds d' (hp.getAll hg) hd')
  | setProp id key vals =>
    simp only [stepOp] at h
    cases hg : p.get? id with
    | none => rw [hg] at h; cases h
    | some d =>
      rw [hg] at h
      simp only [Option.map_some, Option.some.injEq] at h
      subst h; exact hp.put id (C05.setProp_inv d key vals (hp.get hg))
  | updateProps id cols =>
    simp only [stepOp] at h
    cases hg : p.get? id with
    | none => rw [hg] at h; cases h
    | some d =>
      rw [hg] at h
      simp only [Option.map_some, Option.some.injEq] at h
      subst h; exact hp.put id (C05.updateProps_inv d cols (hp.get hg))
  | pickle id out =>
    simp only [stepOp] at h
    cases hg : p.get? id with
    | none => rw [hg] at h; cases h
    | some d =>
      rw [hg] at h
      simp only [Option.map_some, Option.some.injEq] at h
      subst h; exact hp.putRes out _ (fun d' hd' => by cases hd'; exact (C08.pickle_inv d (hp.get hg)).2)
  | savezLoad id out =>
    simp only [stepOp] at h
    cases hg : p.get? id with
    | none => rw [hg] at h; cases h
    | some d =>
      rw [hg] at h
      simp only [Option.map_some, Option.some.injEq] at h
      subst h; exact hp.putRes out _ (fun d' hd' => C08.savezLoad_inv d d' (hp.get hg) hd')

/-! ## histories -/

/-- **every history refines the specification**: the run on the operational model and the run on the
list-of-rows specification give the same answers, step by step, and the same abstract pool -/
theorem history_refines (p : Pool) (ops : List DbOp) (hp : PoolInv p) (hw : ∀ op ∈ ops, op.WF) :
    (runOps p ops).map (fun r => (absPool r.1, r.2)) = runSpec (absPool p) ops := by
  induction ops generalizing p with
  | nil => rfl
  | cons op rest ih =>
    have hs := step_refines p op hp (hw op (by simp))
    unfold runOps runSpec
    cases hst : stepOp p op with
    | none =>
      rw [hst] at hs
      rw [← hs]; rfl
    | some r =>
      obtain ⟨p', a⟩ := r
      rw [hst] at hs
      rw [← hs]
      have hp' : PoolInv p' := step_inv p op hp (hw op (by simp)) (p', a) hst
      have ih' := ih p' hp' (fun o ho => hw o (by simp [ho]))
      simp only [Option.map_some]
      rw [← ih']
      cases runOps p' rest with
      | none => rfl
      | some r' => rfl

theorem history_inv (p : Pool) (ops : List DbOp) (hp : PoolInv p) (hw : ∀ op ∈ ops, op.WF) (r : Pool × List Ans)
    (h : runOps p ops = some r) : PoolInv r.1 := by
  induction ops generalizing p r with
  | nil =>
    simp only [runOps, Option.some.injEq] at h
    subst h; exact hp
  | cons op rest ih =>
    unfold runOps at h
    cases hst : stepOp p op with
    | none => rw [hst] at h; cases h
    | some q =>
      obtain ⟨p', a⟩ := q
      rw [hst] at h
      dsimp only at h
      have hp' : PoolInv p' := step_inv p op hp (hw op (by simp)) (p', a) hst
      cases hr : runOps p' rest with
      | none => rw [hr] at h; cases h
      | some r' =>
        obtain ⟨p'', as⟩ := r'
        rw [hr] at h
        simp only [Option.some.injEq] at h
        subst h
        exact ih p' hp' (fun o ho => hw o (by simp [ho])) (p'', as) hr

/-! ## reads -/

set_option linter.unusedVariables false in
/-- `db[i]` (Python indexing, negative indices included) is the `i`-th row of the specification (the
invariant is not needed for positional reads) -/
theorem getIndex_refines (db : Db) (h : db.Inv) (i : Int) : db.getIndex i = db.spec.getIndex i :=
  getIndex_spec db i

/-- `db[name]` is the list of the specification's rows carrying the name, in insertion order -/
theorem getName_refines (db : Db) (h : db.Inv) (nm : String) : db.getName nm = db.spec.getName nm :=
  getName_spec db nm h

/-- **a database is a faithful container**: after ANY well-formed history started from the empty pool,
the answers are those of the list-of-rows specification, the abstract pool is the specification's pool,
and every live database satisfies the invariant and answers `db[i]` and `db[name]` as its list of rows
does -/
theorem faithful_container (ops : List DbOp) (hw : ∀ op ∈ ops, op.WF) (p : Pool) (as : List Ans)
    (h : runOps [] ops = some (p, as)) :
    ∃ sp, runSpec [] ops = some (sp, as) ∧ sp = absPool p ∧
      ∀ id db, p.get? id = some db →
        db.Inv ∧ (∀ i, db.getIndex i = db.spec.getIndex i) ∧ (∀ nm, db.getName nm = db.spec.getName nm) := by
  have hr := history_refines [] ops poolInv_nil hw
  have hi := history_inv [] ops poolInv_nil hw (p, as) h
  rw [h] at hr
  refine ⟨absPool p, hr.symm, rfl, ?_⟩
  intro id db hg
  have hd : db.Inv := PoolInv.get hi hg
  exact ⟨hd, fun i => getIndex_refines db hd i, fun nm => getName_refines db hd nm⟩

/-! ## stored cells are fixed points of the dtype cast -/

/-- every row's cells are what the kind's dtype stores -/
def _root_.E3fpVerif.SDb.Stored (s : SDb) : Prop := ∀ r ∈ s.rows, castRow s.kind r.cells = r.cells

theorem castRow_idem (k : Kind) (r : Row) : castRow k (castRow k r) = castRow k r := by
  simp [castRow, List.map_map, Function.comp_def, castVal_idem]

theorem castRow_fpRow (k : Kind) (f : Fp) : castRow k (fpRow k f) = fpRow k f := by
  simp [castRow, fpRow, List.map_map, Function.comp_def, castVal_idem]

theorem stored_new (k : Kind) (level : Int) (name : Option String) : (SDb.new k level name).Stored := by
  intro r hr; cases hr

theorem stored_add (s : SDb) (fps : List FpIn) (h : s.Stored) : (s.add fps).1.Stored := by
  unfold SDb.add
  split
  · exact h
  · split
    · exact h
    · split
      · exact h
      · split
        · exact h
        · intro r hr
          simp only [List.mem_append, List.mem_map] at hr
          rcases hr with hr | ⟨f, _, rfl⟩
          · exact h r hr
          · exact castRow_fpRow s.kind f.fp

theorem stored_fromArray (rows : List Row) (bits : Nat) (names : List (Option String)) (k : Kind) (level : Int)
    (name : Option String) (props : List (String × List PVal)) (s : SDb)
    (h : SDb.fromArray rows bits names k level name props = .ok s) : s.Stored := by
  unfold SDb.fromArray at h
  split at h
  · cases h
  · cases h
    intro r hr
    simp only [List.mem_map] at hr
    obtain ⟨i, _, rfl⟩ := hr
    exact castRow_idem k _

theorem stored_subset (s : SDb) (names : List String) (newName : Option String) (d : SDb)
    (h : s.subset names newName = .ok d) : d.Stored := by
  unfold SDb.subset at h
  split at h
  · cases h
  · split at h
    · cases h
    · cases h
      intro r hr
      simp only [List.mem_flatMap, List.mem_map] at hr
      obtain ⟨nm, _, r0, _, rfl⟩ := hr
      exact castRow_idem s.kind _

theorem stored_asType (s : SDb) (k : Kind) (d : SDb) (h : s.asType k = .ok d) : d.Stored := by
  unfold SDb.asType at h
  split at h
  · cases h
  · cases h
    intro r hr
    simp only [List.mem_map] at hr
    obtain ⟨r0, _, rfl⟩ := hr
    exact castRow_idem k _

theorem stored_fold (s : SDb) (bits : Nat) (k : Option Kind) (newName : Option String) (d : SDb)
    (h : s.fold bits k newName = .ok d) : d.Stored := by
  unfold SDb.fold at h
  split at h
  · cases h
  · split at h
    · cases h
    · split at h
      · cases h
      · cases h
        intro r hr
        simp only [List.mem_map] at hr
        obtain ⟨r0, _, rfl⟩ := hr
        exact castRow_idem _ _

theorem stored_concat (ss : List SDb) (d : SDb) (hs : ∀ s ∈ ss, s.Stored) (h : SDb.concat ss = .ok d) :
    d.Stored := by
  unfold SDb.concat at h
  split at h
  · cases h
  · rename_i s0 rest
    split at h
    · cases h
    · split at h
      · cases h
      · split at h
        · cases h
        · rename_i hk
          split at h
          · cases h
          · dsimp only at h
            split at h
            · cases h
            · cases h
              intro r hr
              simp only [List.mem_flatMap, List.mem_map] at hr
              obtain ⟨s, hsm, r0, hr0, rfl⟩ := hr
              have hkind : s.kind = s0.kind := by
                have : (s0 :: rest).any (fun d => d.kind != s0.kind) = false := by simpa using hk
                rw [List.any_eq_false] at this
                simpa using this s hsm
              show castRow s0.kind r0.cells = r0.cells
              rw [← hkind]
              exact hs s hsm r0 hr0

theorem stored_setProp (s : SDb) (key : String) (vals : List PVal) (h : s.Stored) : (s.setProp key vals).1.Stored := by
  unfold SDb.setProp
  split
  · exact h
  · intro r hr
    simp only [List.mem_map] at hr
    obtain ⟨p, hp, rfl⟩ := hr
    exact h p.1 (List.of_mem_zip hp).1

theorem setProp_kind (s : SDb) (key : String) (vals : List PVal) : (s.setProp key vals).1.kind = s.kind := by
  unfold SDb.setProp; split <;> rfl

theorem stored_foldl_setProp (cols : List (String × List PVal)) :
    ∀ t : SDb, t.Stored → (cols.foldl (fun acc c => (acc.setProp c.1 c.2).1) t).Stored := by
  induction cols with
  | nil => intro t h; exact h
  | cons c rest ih => intro t h; exact ih _ (stored_setProp t c.1 c.2 h)

theorem stored_updateProps (s : SDb) (cols : List (String × List PVal)) (h : s.Stored) :
    (s.updateProps cols).1.Stored := by
  unfold SDb.updateProps
  split
  · exact h
  · exact stored_foldl_setProp cols s h

theorem stored_savezLoad (s d : SDb) (h : s.savezLoad = .ok d) : d.Stored := by
  unfold SDb.savezLoad at h
  split at h
  · cases h
  · cases h
    intro r hr
    simp only [List.mem_map] at hr
    obtain ⟨r0, _, rfl⟩ := hr
    exact castRow_idem s.kind _

/-- re-casting the rows of a `Stored` database changes nothing -/
theorem recast_stored (s : SDb) (h : s.Stored) (l : List SRow) (hl : ∀ r ∈ l, r ∈ s.rows) :
    l.map (fun r => { r with cells := castRow s.kind r.cells }) = l := by
  have : ∀ r ∈ l, (fun r : SRow => { r with cells := castRow s.kind r.cells }) r = id r := by
    intro r hr
    simp only [id, h r (hl r hr)]
  rw [List.map_congr_left this, List.map_id]

/-- **for a `Stored` database `get_subset` returns the source rows themselves** (no re-cast) -/
theorem subset_of_stored (s : SDb) (h : s.Stored) (names : List String) (newName : Option String) :
    s.subset names newName =
      if names.any (fun nm => (s.named nm).isEmpty) then .error .value
      else if names.isEmpty then .error .value
      else .ok { s with name := newName, bits := some (s.bits.getD 0), rows := names.flatMap (fun nm => s.named nm) } := by
  unfold SDb.subset
  have : (fun nm => (s.named nm).map (fun r => { r with cells := castRow s.kind r.cells })) = fun nm => s.named nm := by
    funext nm
    exact recast_stored s h _ (fun r hr => (List.mem_filter.1 hr).1)
  rw [this]

/-- **for a `Stored` database the npz round trip is the identity** -/
theorem savezLoad_of_stored (s : SDb) (h : s.Stored) (b : Nat) (hb : s.bits = some b) : s.savezLoad = .ok s := by
  have hr := recast_stored s h s.rows (fun r hr => hr)
  unfold SDb.savezLoad
  split
  · rename_i hn; rw [hn] at hb; cases hb
  · rw [hr]

/-- every database of a specification pool is `Stored` -/
def SPoolStored (p : SPool) : Prop := ∀ e ∈ p, e.2.Stored

theorem SPoolStored.get {p : SPool} (hp : SPoolStored p) {id : String} {s : SDb} (h : p.get? id = some s) : s.Stored :=
  hp (id, s) (PoolOf.mem_of_get? p id s h)

theorem SPoolStored.put {p : SPool} (hp : SPoolStored p) (id : String) {s : SDb} (hs : s.Stored) :
    SPoolStored (p.put id s) := by
  intro e he
  rcases PoolOf.mem_put p id s e he with h | h
  · exact hp e h
  · rw [h]; exact hs

theorem SPoolStored.putRes {p : SPool} (hp : SPoolStored p) (out : String) (r : Except Err SDb)
    (hr : ∀ d, r = .ok d → d.Stored) : SPoolStored (putRes p out r).1 := by
  cases r with
  | error e => exact hp
  | ok d => exact hp.put out (hr d rfl)

/-- **every step of the specification keeps all databases `Stored`** -/
theorem specStep_stored (p : SPool) (op : DbOp) (hp : SPoolStored p) (r : SPool × Ans) (h : specStep p op = some r) :
    SPoolStored r.1 := by
  cases op with
  | new id k level name =>
    simp only [specStep, Option.some.injEq] at h
    subst h; exact hp.put id (stored_new k level name)
  | add id fps =>
    simp only [specStep] at h
    cases hg : p.get? id with
    | none => rw [hg] at h; cases h
    | some d =>
      rw [hg] at h
      simp only [Option.map_some, Option.some.injEq] at h
      subst h; exact hp.put id (stored_add d fps (hp.get hg))
  | fromArray id rows bits names k level name props =>
    simp only [specStep, Option.some.injEq] at h
    subst h
    exact hp.putRes id _ (fun d hd => stored_fromArray rows bits names k level name props d hd)
  | subset id out names newName =>
    simp only [specStep] at h
    cases hg : p.get? id with
    | none => rw [hg] at h; cases h
    | some d =>
      rw [hg] at h
      simp only [Option.map_some, Option.some.injEq] at h
      subst h; exact hp.putRes out _ (fun d' hd' => stored_subset d names newName d' hd')
  | asType id out k =>
    simp only [specStep] at h
    cases hg : p.get? id with
    | none => rw [hg] at h; cases h
    | some d =>
      rw [hg] at h
      simp only [Option.map_some, Option.some.injEq] at h
      subst h; exact hp.putRes out _ (fun d' hd' => stored_asType d k d' hd')
  | fold id out bits k newName =>
    simp only [specStep] at h
    cases hg : p.get? id with
    | none => rw [hg] at h; cases h
    | some d =>
      rw [hg] at h
      simp only [Option.map_some, Option.some.injEq] at h
      subst h; exact hp.putRes out _ (fun d' hd' => stored_fold d bits k newName d' hd')
  | concat ids out =>
    simp only [specStep] at h
    cases hg : p.getAll? ids with
    | none => rw [hg] at h; cases h
    | some ds =>
      rw [hg] at h
      simp only [Option.map_some, Option.some.injEq] at h
      subst h
      refine hp.putRes out _ (fun d' hd' => stored_concat ds d' ?_ hd')
      intro s hs
      obtain ⟨id, hm⟩ := PoolOf.mem_of_getAll? p ids ds hg s hs
      exact hp (id, s) hm
  | setProp id key vals =>
    simp only [specStep] at h
    cases hg : p.get? id with
    | none => rw [hg] at h; cases h
    | some d =>
      rw [hg] at h
      simp only [Option.map_some, Option.some.injEq] at h
      subst h; exact hp.put id (stored_setProp d key vals (hp.get hg))
  | updateProps id cols =>
    simp only [specStep] at h
    cases hg : p.get? id with
    | none => rw [hg] at h; cases h
    | some d =>
      rw [hg] at h
      simp only [Option.map_some, Option.some.injEq] at h
      subst h; exact hp.put id (stored_updateProps d cols (hp.get hg))
  | pickle id out =>
    simp only [specStep] at h
    cases hg : p.get? id with
    | none => rw [hg] at h; cases h
    | some d =>
      rw [hg] at h
      simp only [Option.map_some, Option.some.injEq] at h
      subst h; exact hp.putRes out _ (fun d' hd' => by cases hd'; exact hp.get hg)
  | savezLoad id out =>
    simp only [specStep] at h
    cases hg : p.get? id with
    | none => rw [hg] at h; cases h
    | some d =>
      rw [hg] at h
      simp only [Option.map_some, Option.some.injEq] at h
      subst h; exact hp.putRes out _ (fun d' hd' => stored_savezLoad d d' hd')

theorem runSpec_stored (p : SPool) (ops : List DbOp) (hp : SPoolStored p) (r : SPool × List Ans)
    (h : runSpec p ops = some r) : SPoolStored r.1 := by
  induction ops generalizing p r with
  | nil =>
    simp only [runSpec, Option.some.injEq] at h
    subst h; exact hp
  | cons op rest ih =>
    unfold runSpec at h
    cases hst : specStep p op with
    | none => rw [hst] at h; cases h
    | some q =>
      obtain ⟨p', a⟩ := q
      rw [hst] at h
      dsimp only at h
      have hp' : SPoolStored p' := specStep_stored p op hp (p', a) hst
      cases hr : runSpec p' rest with
      | none => rw [hr] at h; cases h
      | some r' =>
        obtain ⟨p'', as⟩ := r'
        rw [hr] at h
        simp only [Option.some.injEq] at h
        subst h
        exact ih p' hp' (p'', as) hr

/-- after any well-formed history from the empty pool, every live database holds `Stored` rows: its
`get_subset` and its npz round trip hand the rows on unchanged -/
theorem stored_after_history (ops : List DbOp) (hw : ∀ op ∈ ops, op.WF) (p : Pool) (as : List Ans)
    (h : runOps [] ops = some (p, as)) : ∀ id db, p.get? id = some db → db.spec.Stored := by
  obtain ⟨sp, hsp, rfl, _⟩ := faithful_container ops hw p as h
  have hst := runSpec_stored [] ops (by intro e he; cases he) _ hsp
  intro id db hg
  apply hst.get (id := id)
  rw [absPool_get?, hg]; rfl

/-! ## non-vacuity -/

section Examples

private def g1 : Fp := ⟨.count, 8, 5, [1, 5], [(1, 2), (5, 1)]⟩
private def g2 : Fp := ⟨.count, 8, 5, [3], [(3, 4)]⟩

/-- a history using every kind of operation: a new count database, two fingerprints with a property,
a second column, a subset, a cast to bits, a fold from 8 to 4 columns (columns 1 and 5 collide), a
concatenation, a pickle round trip and an npz round trip -/
def exOps : List DbOp :=
  [ .new "a" .count 5 (some "db"),
    .add "a" [⟨g1, some "x", [("w", .int 1)]⟩, ⟨g2, some "y", [("w", .int 2)]⟩],
    .setProp "a" "v" [.str "p", .str "q"],
    .subset "a" "s" ["y"] none,
    .asType "a" "t" .bit,
    .fold "a" "f" 4 none (some "folded"),
    .concat ["a", "s"] "c",
    .pickle "c" "pk",
    .savezLoad "pk" "z" ]

theorem exOps_wf : ∀ op ∈ exOps, op.WF := by
  intro op h
  simp only [exOps, List.mem_cons, List.not_mem_nil, or_false] at h
  rcases h with rfl | rfl | rfl | rfl | rfl | rfl | rfl | rfl | rfl <;> trivial

/-- the history runs on the operational model, every operation is accepted, and the final abstract
pool holds these rows for the bit copy `"t"`, the folded database `"f"` and the reloaded concatenation `"z"` -/
theorem exOps_runs :
    (runOps [] exOps).map (·.2) = some [none, none, none, none, none, none, none, none, none] ∧
    ((runOps [] exOps).bind (fun r => (absPool r.1).get? "t")).map (·.rows) =
      some [⟨[(1, 1), (5, 1)], some "x", [("w", .int 1), ("v", .str "p")]⟩,
            ⟨[(3, 1)], some "y", [("w", .int 2), ("v", .str "q")]⟩] ∧
    ((runOps [] exOps).bind (fun r => (absPool r.1).get? "f")).map (·.rows) =
      some [⟨[(1, 3)], some "x", [("w", .int 1), ("v", .str "p")]⟩,
            ⟨[(3, 4)], some "y", [("w", .int 2), ("v", .str "q")]⟩] ∧
    (runOps [] exOps).bind (fun r => (absPool r.1).get? "z") =
      some { kind := .count, level := 5, name := none, bits := some 8, keys := ["w", "v"],
             rows := [⟨[(1, 2), (5, 1)], some "x", [("w", .int 1), ("v", .str "p")]⟩,
                      ⟨[(3, 4)], some "y", [("w", .int 2), ("v", .str "q")]⟩,
                      ⟨[(3, 4)], some "y", [("w", .int 2), ("v", .str "q")]⟩] } := by
  decide +kernel

/-- the hypotheses of `history_refines` / `faithful_container` hold of it, and the conclusion can be
checked by evaluation as well -/
theorem exOps_refines : (runOps [] exOps).isSome = true ∧
    (runOps [] exOps).map (fun r => (absPool r.1, r.2)) = runSpec [] exOps :=
  ⟨by decide +kernel, history_refines [] exOps poolInv_nil exOps_wf⟩

example : (runOps [] exOps).map (fun r => (absPool r.1, r.2)) = runSpec [] exOps := by decide +kernel

/-- a refused operation is answered alike by model and specification: the batch lacks column `"w"` -/
example :
    (runOps [] [.new "a" .bit 0 none, .add "a" [⟨⟨.bit, 8, 0, [1], []⟩, some "x", [("w", .int 1)]⟩],
        .add "a" [⟨⟨.bit, 8, 0, [2], []⟩, some "y", []⟩], .concat ["a", "b"] "c"]).map (·.2) = none ∧
    (runOps [] [.new "a" .bit 0 none, .add "a" [⟨⟨.bit, 8, 0, [1], []⟩, some "x", [("w", .int 1)]⟩],
        .add "a" [⟨⟨.bit, 8, 0, [2], []⟩, some "y", []⟩], .subset "a" "s" ["nobody"] none]).map (·.2) =
      some [none, none, some .key, some .value] := by
  decide +kernel

/-- the well-formedness hypothesis cannot be dropped: `from_array` with fewer names than rows builds a
database violating the invariant, and the next `set_prop` (which checks the column against the *name*
list in the code, against the rows in the specification) is answered differently -/
theorem wf_needed :
    (runOps [] [.fromArray "a" [[], []] 8 [some "x"] .bit 0 none [], .setProp "a" "k" [.int 1]]).map
        (fun r => (absPool r.1, r.2)) ≠
      runSpec [] [.fromArray "a" [[], []] 8 [some "x"] .bit 0 none [], .setProp "a" "k" [.int 1]] := by
  decide +kernel

end Examples

end E3fpVerif.Props.C05Hist
