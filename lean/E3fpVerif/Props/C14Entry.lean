import E3fpVerif.Model.Entry
import E3fpVerif.Lemmas.Entry
import E3fpVerif.Lemmas.Pow2
import E3fpVerif.Props.C02
import E3fpVerif.Props.C04
import E3fpVerif.Props.C12
import E3fpVerif.Props.C14
/-!
# C14 (entry point) — `fprints_dict_from_mol` equals direct fingerprinting of the first `N` conformers

`entryRun` runs every conformer on **one** reused `Fingerprinter` object and appends to a per-level
dictionary; `entrySpec` fingerprints each of the first `N` conformers with a *fresh* fingerprinter.
`entry_eq_direct` proves them equal; the history-irrelevance theorem of `Props/C04.lean`
(`run_eq_fresh`) removes the reused object, the dictionary lemmas of `Lemmas/Entry.lean` turn the
row-by-row appends into the key-by-key lists of the specification.
-/
namespace E3fpVerif.Props.C14Entry
open E3fpVerif
open E3fpVerif.Props

/-! ## the object invariant along the conformer loop -/

/-- what the loop keeps true of the one fingerprinter object: valid caches, a cached identity `mid`
denotes the molecule `m`, and the options are the constructor's -/
def LoopInv (o : Opts) (mid : Nat) (m : MolG) (f : FpObj) : Prop :=
  C04.CacheValid f ∧ (f.molId = some mid → f.molVal = m) ∧ f.o = o

theorem run_o (f : FpObj) (mid : Option Nat) (m : MolG) (g : Geo) : (f.run mid m g).1.o = f.o := by
  unfold FpObj.run
  split
  · rfl
  · dsimp only
    split <;> split <;> rfl

theorem run_den (f : FpObj) (mid : Nat) (m : MolG) (g : Geo) (h : f.molId = some mid → f.molVal = m) :
    (f.run (some mid) m g).1.molId = some mid → (f.run (some mid) m g).1.molVal = m := by
  unfold FpObj.run
  split
  · exact h
  · dsimp only
    split <;> split <;> first | exact h | (intro _; rfl)

theorem loopInv_new (o : Opts) (mid : Nat) (m : MolG) : LoopInv o mid m (FpObj.new o) :=
  ⟨C04.new_cacheValid o, by intro h; simp [FpObj.new] at h, rfl⟩

theorem loopInv_run (o : Opts) (mid : Nat) (m : MolG) (f : FpObj) (g : Geo) (h : LoopInv o mid m f) :
    LoopInv o mid m (f.run (some mid) m g).1 :=
  ⟨C04.run_cacheValid f h.1 (some mid) m g, run_den f mid m g h.2.1, (run_o f (some mid) m g).trans h.2.2⟩

/-- under the invariant a run of the reused object is a fresh run -/
theorem run_fresh (o : Opts) (mid : Nat) (m : MolG) (f : FpObj) (g : Geo) (h : LoopInv o mid m f)
    (hbad : ¬ (o.level = -1 ∧ o.removeDup = false)) :
    ((f.run (some mid) m g).1.state, (f.run (some mid) m g).2) =
      (match runFp o m g with | .ok s => (some s, .ok ()) | .error e => (none, .error e)) := by
  have := C04.run_eq_fresh f h.1 (some mid) m g (fun _ he => h.2.1 he.symm)
  rw [h.2.2] at this
  rcases this with h' | h'
  · exact h'
  · exact absurd h' hbad

/-! ## one turn of the loop -/

theorem entryLoop_nil (mid : Nat) (m : MolG) (keys : List Int) (name : Option (List Char)) (j : Nat)
    (f : FpObj) (d : LevelDict) : entryLoop mid m keys name [] j f d = some d := rfl

theorem entryLoop_cons_ok (mid : Nat) (m : MolG) (keys : List Int) (name : Option (List Char)) (g : Geo)
    (rest : List Geo) (j : Nat) (f : FpObj) (d : LevelDict) (s : FState)
    (h1 : (f.run (some mid) m g).1.state = some s) (h2 : (f.run (some mid) m g).2 = .ok ()) :
    entryLoop mid m keys name (g :: rest) j f d =
      (match collectLevels f.o s keys name j d with
       | some d' => entryLoop mid m keys name rest (j + 1) (f.run (some mid) m g).1 d'
       | none => none) := by
  rw [entryLoop]
  simp only [h1, h2]
  cases collectLevels f.o s keys name j d <;> rfl

theorem entryLoop_cons_err (mid : Nat) (m : MolG) (keys : List Int) (name : Option (List Char)) (g : Geo)
    (rest : List Geo) (j : Nat) (f : FpObj) (d : LevelDict)
    (h1 : (f.run (some mid) m g).1.state = none) :
    entryLoop mid m keys name (g :: rest) j f d = none := by
  rw [entryLoop]
  simp only [h1]
  split
  · rename_i hs; cases hs
  · rfl

/-! ## one turn of the specification -/

/-- a conformer whose run fails makes every key's list fail -/
theorem spec_step_err (o : Opts) (m : MolG) (keys : List Int) (name : Option (List Char)) (g : Geo) (j : Nat)
    (ps : List (Geo × Nat)) (F : Int → List NamedFp → Int × List NamedFp) (e : Err)
    (hr : runFp o m g = .error e) (hne : keys ≠ []) :
    keys.mapM (fun k => (((g, j) :: ps).mapM (specCell o m name k)).map (F k)) = none := by
  obtain ⟨k, hk⟩ := List.exists_mem_of_ne_nil keys hne
  refine omapM_none_of_mem _ keys k hk ?_
  rw [omapM_cons, specCell_err o m name k g j e hr]
  rfl

/-- a key whose fingerprint cannot be fetched makes the whole result fail -/
theorem spec_step_cell_none (o : Opts) (m : MolG) (keys : List Int) (name : Option (List Char)) (g : Geo)
    (j : Nat) (ps : List (Geo × Nat)) (F : Int → List NamedFp → Int × List NamedFp) (s : FState)
    (hr : runFp o m g = .ok s) (k : Int) (hk : k ∈ keys) (hc : fpCell o s name j k = none) :
    keys.mapM (fun k => (((g, j) :: ps).mapM (specCell o m name k)).map (F k)) = none := by
  refine omapM_none_of_mem _ keys k hk ?_
  rw [omapM_cons, specCell_ok o m name k g j s hr, hc]
  rfl

/-- a conformer all of whose fingerprints are fetched moves into the lists collected so far -/
theorem spec_step_ok (o : Opts) (m : MolG) (keys : List Int) (name : Option (List Char)) (g : Geo) (j : Nat)
    (ps : List (Geo × Nat)) (col : Int → List NamedFp) (s : FState)
    (hr : runFp o m g = .ok s) (hall : ∀ k ∈ keys, (fpCell o s name j k).isSome = true) :
    keys.mapM (fun k => (((g, j) :: ps).mapM (specCell o m name k)).map (fun l => (k, col k ++ l)))
      = keys.mapM (fun k => (ps.mapM (specCell o m name k)).map
          (fun l => (k, (col k ++ (fpCell o s name j k).toList) ++ l))) := by
  apply omapM_congr
  intro k hk
  obtain ⟨v, hv⟩ := Option.isSome_iff_exists.1 (hall k hk)
  rw [omapM_cons, specCell_ok o m name k g j s hr, hv]
  cases ps.mapM (specCell o m name k) with
  | none => rfl
  | some bs => simp

/-! ## the loop equals the specification, for any well-shaped dictionary -/

theorem loop_eq (o : Opts) (mid : Nat) (m : MolG) (keys : List Int) (name : Option (List Char))
    (hnd : keys.Nodup) (hne : keys ≠ []) (hbad : ¬ (o.level = -1 ∧ o.removeDup = false)) :
    ∀ (gs : List Geo) (j : Nat) (f : FpObj) (d : LevelDict) (col : Int → List NamedFp),
      LoopInv o mid m f → DictShape keys d col →
      entryLoop mid m keys name gs j f d =
        if gs = [] then some d
        else keys.mapM (fun k => ((gs.zipIdx j).mapM (specCell o m name k)).map (fun l => (k, col k ++ l))) := by
  intro gs
  induction gs with
  | nil => intro j f d col _ _; rfl
  | cons g rest ih =>
    intro j f d col hinv hd
    rw [if_neg (by simp), List.zipIdx_cons]
    have hfresh := run_fresh o mid m f g hinv hbad
    cases hr : runFp o m g with
    | error e =>
      rw [hr] at hfresh
      have h1 : (f.run (some mid) m g).1.state = none := congrArg Prod.fst hfresh
      rw [entryLoop_cons_err mid m keys name g rest j f d h1,
        spec_step_err o m keys name g j _ _ e hr hne]
    | ok s =>
      rw [hr] at hfresh
      have h1 : (f.run (some mid) m g).1.state = some s := congrArg Prod.fst hfresh
      have h2 : (f.run (some mid) m g).2 = .ok () := congrArg Prod.snd hfresh
      rw [entryLoop_cons_ok mid m keys name g rest j f d s h1 h2, hinv.2.2]
      by_cases hall : ∀ k ∈ keys, (fpCell o s name j k).isSome = true
      · rw [collectLevels_shape o s keys name j d col hnd hd hall,
          spec_step_ok o m keys name g j _ col s hr hall]
        simp only
        rw [ih (j + 1) _ _ (fun k => col k ++ (fpCell o s name j k).toList)
          (loopInv_run o mid m f g hinv) (Or.inl rfl)]
        by_cases hrest : rest = []
        · subst hrest
          rw [if_pos rfl]
          symm
          refine (omapM_some_map _ (fun k => (k, col k ++ (fpCell o s name j k).toList)) keys ?_)
          intro k _
          simp
        · rw [if_neg hrest]
      · have : ∃ k, k ∈ keys ∧ fpCell o s name j k = none := by
          apply Classical.byContradiction
          intro hno
          apply hall
          intro k hk
          cases hc : fpCell o s name j k with
          | none => exact absurd ⟨k, hk, hc⟩ hno
          | some v => rfl
        obtain ⟨k, hk, hc⟩ := this
        rw [collectLevels_none o s keys name j d k hk hc,
          spec_step_cell_none o m keys name g j _ _ s hr k hk hc]

/-! ## level keys, cut-off, indexing -/

theorem firstN_le (first : Int) (n : Nat) : firstN first n ≤ n := by
  unfold firstN; split <;> omega

theorem levelKeys_ne_nil (l : Int) (a : Bool) : levelKeys l a ≠ [] := by
  unfold levelKeys
  split
  · simp
  · simp [List.range_succ]

theorem levelKeys_nodup (l : Int) (a : Bool) : (levelKeys l a).Nodup := by
  unfold levelKeys
  split
  · simp
  · unfold List.Nodup
    rw [List.pairwise_map]
    refine (List.nodup_range (n := l.toNat + 1)).imp ?_
    intro i j hij h
    exact hij (Int.ofNat.inj h)

/-- the geometry standing for a missing conformer in `entrySpec` (never reached: `j < N ≤ length`) -/
def noGeo : Geo := ⟨fun _ _ _ => false, fun _ _ => []⟩

theorem zipIdx_take_eq (geos : List Geo) (n : Nat) (hn : n ≤ geos.length) :
    (geos.take n).zipIdx 0 = (List.range n).map (fun j => (geos.getD j noGeo, j)) := by
  apply List.ext_getElem
  · simp [Nat.min_eq_left hn]
  · intro i h1 h2
    have hi : i < n := by simpa using h2
    have hi' : i < geos.length := by omega
    simp [List.getD_eq_getElem?_getD, hi']

/-- the specification in terms of `specCell` -/
theorem entrySpec_eq (o : Opts) (m : MolG) (geos : List Geo) (name : Option (List Char)) (first : Int)
    (allIters : Bool) :
    entrySpec o m geos name first allIters =
      if firstN first geos.length = 0 then some []
      else (levelKeys o.level allIters).mapM (fun k =>
        ((List.range (firstN first geos.length)).mapM
          (fun j => specCell o m name k (geos.getD j noGeo, j))).map (fun l => (k, l))) := rfl

/-! ## THE property -/

/-- the entry point returns, for every level key, exactly the fingerprints that direct (fresh)
fingerprinting of each of the first `N` conformers returns, in conformer order, named
`<molecule>_<index>` -/
theorem entry_eq_direct (o : Opts) (mid : Nat) (m : MolG) (geos : List Geo) (name : Option (List Char))
    (first : Int) (allIters : Bool) :
    entryRun o mid m geos name first allIters =
      (if o.level = -1 && !o.removeDup then .error .other
       else .ok (entrySpec o m geos name first allIters)) := by
  unfold entryRun
  by_cases hc : (o.level = -1 && !o.removeDup) = true
  · rw [if_pos hc, if_pos hc]
  · rw [if_neg hc, if_neg hc]
    have hbad : ¬ (o.level = -1 ∧ o.removeDup = false) := by
      intro h; apply hc; simp [h.1, h.2]
    congr 1
    rw [loop_eq o mid m (levelKeys o.level allIters) name (levelKeys_nodup _ _) (levelKeys_ne_nil _ _) hbad
      _ 0 (FpObj.new o) [] (fun _ => []) (loopInv_new o mid m) (Or.inr ⟨rfl, fun _ => rfl⟩),
      entrySpec_eq]
    have hn := firstN_le first geos.length
    by_cases h0 : firstN first geos.length = 0
    · rw [if_pos h0, if_pos (by rw [h0]; rfl)]
    · have hne : geos.take (firstN first geos.length) ≠ [] := by
        intro h
        have := congrArg List.length h
        simp only [List.length_take, List.length_nil] at this
        omega
      rw [if_neg h0, if_neg hne, zipIdx_take_eq geos _ hn]
      simp only [List.mapM_map, List.nil_append]
      rfl

/-! ## consequences -/

section Consequences
variable {o : Opts} {mid : Nat} {m : MolG} {geos : List Geo} {name : Option (List Char)} {first : Int}
  {allIters : Bool} {d : LevelDict}

/-- a successful result is the specification's -/
theorem entry_some (h : entryRun o mid m geos name first allIters = .ok (some d)) :
    ¬ (o.level = -1 ∧ o.removeDup = false) ∧ entrySpec o m geos name first allIters = some d := by
  rw [entry_eq_direct] at h
  split at h
  · cases h
  · rename_i hc
    refine ⟨?_, ?_⟩
    · intro hb; apply hc; simp [hb.1, hb.2]
    · injection h

/-- no conformer processed: the empty dictionary -/
theorem spec_zero (hs : entrySpec o m geos name first allIters = some d)
    (hn : firstN first geos.length = 0) : d = [] := by
  rw [entrySpec_eq, if_pos hn] at hs
  injection hs with hs; exact hs.symm

/-- every entry of a successful specification: its key is a level key, its list collects the key's
cells over the first `N` conformers -/
theorem spec_some_mem (hs : entrySpec o m geos name first allIters = some d)
    (hn : firstN first geos.length ≠ 0) (p : Int × List NamedFp) (hp : p ∈ d) :
    p.1 ∈ levelKeys o.level allIters ∧
      (List.range (firstN first geos.length)).mapM
        (fun j => specCell o m name p.1 (geos.getD j noGeo, j)) = some p.2 := by
  rw [entrySpec_eq, if_neg hn] at hs
  obtain ⟨k, hk, hF⟩ := omapM_mem _ _ _ hs p hp
  cases hX : (List.range (firstN first geos.length)).mapM
      (fun j => specCell o m name k (geos.getD j noGeo, j)) with
  | none => rw [hX] at hF; cases hF
  | some l =>
    rw [hX] at hF
    cases hF
    exact ⟨hk, hX⟩

theorem spec_some_keys (hs : entrySpec o m geos name first allIters = some d)
    (hn : firstN first geos.length ≠ 0) : d.map (·.1) = levelKeys o.level allIters := by
  have hs' := hs
  rw [entrySpec_eq, if_neg hn] at hs'
  have hlen := omapM_length _ _ _ hs'
  apply List.ext_getElem
  · simpa using hlen
  · intro i h1 h2
    have hi : i < d.length := by simpa using h1
    have := omapM_getElem _ _ _ hs' i h2 hi
    simp only [List.getElem_map]
    cases hX : (List.range (firstN first geos.length)).mapM
        (fun j => specCell o m name (levelKeys o.level allIters)[i] (geos.getD j noGeo, j)) with
    | none => rw [hX] at this; cases this
    | some l =>
      rw [hX] at this
      simp only [Option.map_some, Option.some.injEq] at this
      rw [← this]

/-- the `j`-th element of an entry's list: conformer `j` exists, its fresh run succeeds, and the
element is that run's fingerprint at the entry's key under the conformer's name -/
theorem entry_cell (h : entryRun o mid m geos name first allIters = .ok (some d))
    (p : Int × List NamedFp) (hp : p ∈ d) (j : Nat) (hj : j < p.2.length) :
    ∃ (hg : j < geos.length) (s : FState), runFp o m geos[j] = .ok s ∧
      fingerprintAt o s (some p.1) none [] = .ok p.2[j].fp ∧
      p.2[j].name = name.map (fun nm => confName nm j) := by
  obtain ⟨_, hs⟩ := entry_some h
  by_cases hn : firstN first geos.length = 0
  · rw [spec_zero hs hn] at hp; cases hp
  · obtain ⟨_, hcol⟩ := spec_some_mem hs hn p hp
    have hlen := omapM_length _ _ _ hcol
    rw [List.length_range] at hlen
    have hjn : j < firstN first geos.length := by omega
    have hle := firstN_le first geos.length
    have hg : j < geos.length := by omega
    have hc := omapM_getElem _ _ _ hcol j (by simpa using hjn) hj
    simp only [List.getElem_range] at hc
    have hgd : geos.getD j noGeo = geos[j] := by simp [List.getD_eq_getElem?_getD, hg]
    rw [hgd] at hc
    obtain ⟨s, h1, h2, h3⟩ := specCell_some o m name p.1 geos[j] j _ hc
    exact ⟨hg, s, h1, h2, h3⟩

/-- **count**: every list of a returned dictionary has one fingerprint per processed conformer, and
(when at least one conformer is processed) the keys are exactly the level keys, in order; with no
conformer the dictionary is empty -/
theorem entry_count (h : entryRun o mid m geos name first allIters = .ok (some d)) :
    (∀ p ∈ d, p.2.length = firstN first geos.length) ∧
    (0 < firstN first geos.length → d.map (·.1) = levelKeys o.level allIters) ∧
    (firstN first geos.length = 0 → d = []) := by
  obtain ⟨_, hs⟩ := entry_some h
  refine ⟨?_, ?_, spec_zero hs⟩
  · intro p hp
    by_cases hn : firstN first geos.length = 0
    · rw [spec_zero hs hn] at hp; cases hp
    · have := omapM_length _ _ _ (spec_some_mem hs hn p hp).2
      simpa using this
  · intro hn
    exact spec_some_keys hs (by omega)

/-- **names**: the `j`-th fingerprint of every list is named `<molecule>_<j>` (no name when the
molecule has none) -/
theorem entry_names (h : entryRun o mid m geos name first allIters = .ok (some d))
    (p : Int × List NamedFp) (hp : p ∈ d) (j : Nat) (hj : j < p.2.length) :
    p.2[j].name = name.map (fun nm => confName nm j) := by
  obtain ⟨_, _, _, _, h3⟩ := entry_cell h p hp j hj
  exact h3

/-- … so within one list the names are pairwise distinct -/
theorem entry_names_nodup (h : entryRun o mid m geos name first allIters = .ok (some d))
    (nm : List Char) (hname : name = some nm) (p : Int × List NamedFp) (hp : p ∈ d) :
    (p.2.map (·.name)).Nodup := by
  have heq : p.2.map (·.name) = ((List.range p.2.length).map (confName nm)).map some := by
    apply List.ext_getElem
    · simp
    · intro i h1 h2
      have hi : i < p.2.length := by simpa using h1
      simp only [List.getElem_map, List.getElem_range]
      rw [entry_names h p hp i hi, hname]
      rfl
  rw [heq]
  have := C14.confNames_nodup nm p.2.length
  unfold List.Nodup at this ⊢
  rw [List.pairwise_map]
  refine this.imp ?_
  intro a b hab he
  exact hab (Option.some.inj he)

/-- **the identity of the molecule object is irrelevant** -/
theorem entry_independent_of_mid (o : Opts) (mid mid' : Nat) (m : MolG) (geos : List Geo)
    (name : Option (List Char)) (first : Int) (allIters : Bool) :
    entryRun o mid m geos name first allIters = entryRun o mid' m geos name first allIters := by
  rw [entry_eq_direct, entry_eq_direct]

/-- **prefix**: the result for a cut-off `first` is, list by list, the length-`N` prefix of the
result for all conformers (`first = -1`), whenever the latter is a dictionary; with `N = 0` it is the
empty dictionary.  (No sign condition on `first` is needed: a negative `first` means all conformers.) -/
theorem entry_prefix {dAll : LevelDict}
    (hall : entryRun o mid m geos name (-1) allIters = .ok (some dAll)) :
    entryRun o mid m geos name first allIters =
      .ok (some (if firstN first geos.length = 0 then []
                 else dAll.map (fun p => (p.1, p.2.take (firstN first geos.length))))) := by
  obtain ⟨hbad, hs⟩ := entry_some hall
  rw [entry_eq_direct]
  have hc : ¬ ((o.level = -1 && !o.removeDup) = true) := by
    intro hc; apply hbad; simpa using hc
  rw [if_neg hc]
  congr 1
  by_cases hn : firstN first geos.length = 0
  · rw [if_pos hn, entrySpec_eq, if_pos hn]
  · rw [if_neg hn, entrySpec_eq, if_neg hn]
    have hle := firstN_le first geos.length
    have hlen : firstN (-1) geos.length = geos.length := C14.firstN_all _
    rw [entrySpec_eq, hlen, if_neg (by omega)] at hs
    refine omapM_map_of_imp _ _ (fun p => (p.1, p.2.take (firstN first geos.length))) _ ?_ dAll hs
    intro k _ y hy
    cases hX : (List.range geos.length).mapM (fun j => specCell o m name k (geos.getD j noGeo, j)) with
    | none => rw [hX] at hy; cases hy
    | some l =>
      rw [hX] at hy; cases hy
      have := omapM_take _ _ _ (firstN first geos.length) hX
      rw [List.take_range, Nat.min_eq_left hle] at this
      rw [this]; rfl

end Consequences

/-! ## all iterations: each level's list equals a separate run limited to that level -/

theorem fingerprintAt_level (o : Opts) (L : Int) (s : FState) (req : Option Int) (bits : Option Nat)
    (mask : List Nat) :
    fingerprintAt { o with level := L } s req bits mask = fingerprintAt o s req bits mask := rfl

/-- a run that did not reach level `K` although allowed to go to `L ≥ K` had already stopped at limit `K` -/
theorem runTo_stopped_eq (o : Opts) (m : MolG) (g : Geo) (atoms : List Nat) (K L : Nat) (hKL : K ≤ L)
    (hlen : (C12.runTo o m g atoms L).levelShells.length ≤ K) :
    C12.runTo o m g atoms K = C12.runTo o m g atoms L := by
  rw [C12.runTo_eq] at hlen
  rw [C12.runTo_eq, C12.runTo_eq]
  obtain ⟨d, rfl⟩ : ∃ d, L = K + d := ⟨L - K, by omega⟩
  rw [iterate_add] at hlen ⊢
  rcases C12.iterate_full_or_stopped { o with level := -1 } m g atoms K (initState o m atoms) with h | h
  · exfalso
    have hp := (C12.iterate_levelShells_prefix { o with level := -1 } m g atoms d
      (iterate { o with level := -1 } m g atoms K (initState o m atoms))).length_le
    have hinit : (initState o m atoms).levelShells.length = 1 := rfl
    omega
  · rw [iterate_of_none _ _ _ _ _ _ h]

theorem resolveLevel_lt (s : FState) (K : Nat) (h : K < s.levelShells.length) :
    resolveLevel s (some (K : Int)) = K := by
  unfold resolveLevel
  simp only
  rw [if_pos ⟨by omega, by simpa using h⟩]
  simp

/-- the shells at level `K` of the run to limit `L ≥ K` are those of the run to limit `K` -/
theorem shellsAt_runTo (o : Opts) (m : MolG) (g : Geo) (atoms : List Nat) (K L : Nat) (hKL : K ≤ L)
    (mask : List Nat) :
    shellsAt (C12.runTo o m g atoms K) (some (K : Int)) mask
      = shellsAt (C12.runTo o m g atoms L) (some (K : Int)) mask := by
  by_cases h : K + 1 ≤ (C12.runTo o m g atoms L).levelShells.length
  · have ht := (C12.truncation o m g atoms K L hKL).2 h
    have hlenK : (C12.runTo o m g atoms K).levelShells.length = K + 1 := by
      rw [← ht, List.length_take]; omega
    unfold shellsAt
    rw [resolveLevel_lt _ K (by omega), resolveLevel_lt _ K (by omega)]
    congr 1
    rw [← ht]
    simp [List.getD_eq_getElem?_getD]
  · rw [runTo_stopped_eq o m g atoms K L hKL (by omega)]

/-- the fingerprint at a level key `0 ≤ k ≤ level` of a run is the fingerprint a separate run
limited to `k` returns (and that run succeeds) -/
theorem limited_run (o : Opts) (m : MolG) (g : Geo) (s : FState) (hl : 0 ≤ o.level)
    (hr : runFp o m g = .ok s) (k : Int) (hk0 : 0 ≤ k) (hkl : k ≤ o.level) :
    ∃ sk, runFp { o with level := k } m g = .ok sk ∧
      fingerprintAt { o with level := k } sk (some k) none [] = fingerprintAt o s (some k) none [] := by
  obtain ⟨K, rfl⟩ : ∃ K : Nat, k = (K : Int) := ⟨k.toNat, by omega⟩
  have hcast : ((o.level.toNat : Nat) : Int) = o.level := Int.toNat_of_nonneg hl
  have hrL : runFp { o with level := ((o.level.toNat : Nat) : Int) } m g = .ok s := by
    rw [hcast]; exact hr
  obtain ⟨_, h2, h3, _⟩ := (runFp_ok_iff o m g s).1 hr
  obtain ⟨sk, hrK⟩ : ∃ sk, runFp { o with level := (K : Int) } m g = .ok sk :=
    ⟨_, (runFp_ok_iff _ m g _).2 ⟨fun h => absurd h (by show ¬ ((K : Int) = -1); omega), h2, h3, rfl⟩⟩
  have eK := C12.runFp_runTo o m g K sk hrK
  have eL := C12.runFp_runTo o m g o.level.toNat s hrL
  refine ⟨sk, hrK, ?_⟩
  rw [fingerprintAt_level]
  have hsh : shellsAt sk (some (K : Int)) [] = shellsAt s (some (K : Int)) [] := by
    rw [eK, eL]
    exact shellsAt_runTo o m g (retained o m) K o.level.toNat (by omega) []
  unfold fingerprintAt
  rw [hsh]

/-- **all iterations = separate limited runs**: with `all_iters` and a level `≥ 0`, the keys are the
levels `0 … level`, and the fingerprint stored under key `k` for conformer `j` is exactly what
fingerprinting conformer `j` with level limit `k` returns (that separate run always succeeds) -/
theorem entry_alliters_eq_limited {o : Opts} {mid : Nat} {m : MolG} {geos : List Geo}
    {name : Option (List Char)} {first : Int} {d : LevelDict} (hl : 0 ≤ o.level)
    (h : entryRun o mid m geos name first true = .ok (some d))
    (p : Int × List NamedFp) (hp : p ∈ d) (j : Nat) (hj : j < p.2.length) :
    0 ≤ p.1 ∧ p.1 ≤ o.level ∧
    ∃ (hg : j < geos.length) (sk : FState),
      runFp { o with level := p.1 } m geos[j] = .ok sk ∧
      fingerprintAt { o with level := p.1 } sk (some p.1) none [] = .ok p.2[j].fp := by
  obtain ⟨_, hs⟩ := entry_some h
  have hn : firstN first geos.length ≠ 0 := by
    intro hn; rw [spec_zero hs hn] at hp; cases hp
  have hk := (C14.mem_levelKeys_all o.level hl p.1).1 (spec_some_mem hs hn p hp).1
  obtain ⟨hg, s, hr, hf, _⟩ := entry_cell h p hp j hj
  obtain ⟨sk, hrk, hfk⟩ := limited_run o m geos[j] s hl hr p.1 hk.1 hk.2
  exact ⟨hk.1, hk.2, hg, sk, hrk, hfk.trans hf⟩

/-! ## the result is a dictionary whenever every run succeeds -/

/-- fetching a fingerprint of a finished run never fails for a legal folded length -/
theorem fingerprintAt_ok (o : Opts) (m : MolG) (g : Geo) (s : FState) (hr : runFp o m g = .ok s)
    (req : Option Int) (mask : List Nat) (n : Nat) (hb : 0 < o.bits) (hn : Gen.BITS = o.bits * 2 ^ n) :
    ∃ f, fingerprintAt o s req none mask = .ok f := by
  unfold fingerprintAt
  have hany : ((shellsAt s req mask).map
      (fun x => (Gen.signedToUnsigned x.ident (Gen.BITS : Nat)).toNat)).any
        (fun i => decide (i ≥ Gen.BITS)) = false := by
    rw [List.any_eq_false]
    intro i hi
    obtain ⟨x, hx, rfl⟩ := List.mem_map.1 hi
    have := C02.index_range o m g s hr req mask x hx
    simp only [ge_iff_le, decide_eq_true_eq, Nat.not_le]
    unfold Gen.BITS at this ⊢
    omega
  generalize (shellsAt s req mask).map
      (fun x => (Gen.signedToUnsigned x.ident (Gen.BITS : Nat)).toNat) = ids at hany
  have hfrom : ∃ F, fromIndices (if o.counts then Kind.count else Kind.bit) ids none Gen.BITS (req.getD (-1))
      = .ok F ∧ F.bits = Gen.BITS := by
    unfold fromIndices
    cases o.counts <;> simp [mkBit, mkCount, hany]
  obtain ⟨F, hF, hFb⟩ := hfrom
  simp only [bind, Except.bind, Option.getD_none, hF]
  unfold Fp.fold
  have hp := (isPow2Multiple_iff Gen.BITS o.bits hb).2 ⟨n, hn⟩
  have hle : ¬ o.bits > Gen.BITS := by
    rw [hn]
    have := Nat.le_mul_of_pos_right o.bits (Nat.two_pow_pos n)
    omega
  simp [hFb, hle, hp]

/-- **the result is a dictionary** (not `{}`) whenever the fresh run of each of the first `N`
conformers succeeds and the folded length is legal -/
theorem entry_succeeds (o : Opts) (mid : Nat) (m : MolG) (geos : List Geo) (name : Option (List Char))
    (first : Int) (allIters : Bool) (hbad : ¬ (o.level = -1 ∧ o.removeDup = false))
    (n : Nat) (hb : 0 < o.bits) (hn : Gen.BITS = o.bits * 2 ^ n)
    (hruns : ∀ j (hj : j < geos.length), j < firstN first geos.length → ∃ s, runFp o m geos[j] = .ok s) :
    ∃ d, entryRun o mid m geos name first allIters = .ok (some d) := by
  rw [entry_eq_direct]
  have hc : ¬ ((o.level = -1 && !o.removeDup) = true) := by
    intro hc; apply hbad; simpa using hc
  rw [if_neg hc]
  suffices hsome : (entrySpec o m geos name first allIters).isSome = true by
    obtain ⟨d, hd⟩ := Option.isSome_iff_exists.1 hsome
    exact ⟨d, by rw [hd]⟩
  rw [entrySpec_eq]
  split
  · rfl
  · apply omapM_isSome
    intro k _
    rw [Option.isSome_map]
    apply omapM_isSome
    intro j hj
    have hj : j < firstN first geos.length := List.mem_range.1 hj
    have hle := firstN_le first geos.length
    have hg : j < geos.length := by omega
    obtain ⟨s, hs⟩ := hruns j hg hj
    have hgd : geos.getD j noGeo = geos[j] := by simp [List.getD_eq_getElem?_getD, hg]
    rw [hgd, specCell_ok o m name k geos[j] j s hs]
    obtain ⟨f, hf⟩ := fingerprintAt_ok o m geos[j] s hs (some k) [] n hb hn
    unfold fpCell
    rw [hf]
    rfl

/-! ## non-vacuity: the four-atom chain of `Lemmas/FprinterEx.lean` with two conformers -/
section NonVacuity
open Ex

/-- a second geometry: nothing is within the level-1 shells -/
def g2 : Geo := { within := fun k _ _ => decide (2 ≤ k), stereo := fun _ _ => [] }

theorem ex_runs (g' : Geo) : ∃ s, runFp Ex.o Ex.m g' = .ok s :=
  ⟨_, (runFp_ok_iff _ Ex.m g' _).2
    ⟨fun _ => rfl, by decide, by rw [Ex.retained_eq]; decide, rfl⟩⟩

/-- the entry point on the chain with two conformers, all iterations kept: a dictionary with the four
level keys `0 … 3`, two fingerprints under each, named `mol_0` and `mol_1` -/
theorem ex_entry :
    ∃ d, entryRun Ex.o 7 Ex.m [Ex.g, g2] (some ['m', 'o', 'l']) (-1) true = .ok (some d) ∧
      d ≠ [] ∧ d.map (·.1) = [0, 1, 2, 3] ∧
      ∀ p ∈ d, p.2.length = 2 ∧
        ∀ j (hj : j < p.2.length), p.2[j].name = some (['m', 'o', 'l', '_'] ++ natDigits j) := by
  obtain ⟨d, hd⟩ := entry_succeeds Ex.o 7 Ex.m [Ex.g, g2] (some ['m', 'o', 'l']) (-1) true
    (by decide) 22 (by decide) (by decide) (fun j hj _ => ex_runs _)
  have hN : firstN (-1) [Ex.g, g2].length = 2 := by decide
  obtain ⟨hlen, hkeys, _⟩ := entry_count hd
  rw [hN] at hlen hkeys
  have hkeys' : d.map (·.1) = [0, 1, 2, 3] := by rw [hkeys (by decide)]; decide
  refine ⟨d, hd, ?_, hkeys', ?_⟩
  · intro he; rw [he] at hkeys'; cases hkeys'
  · intro p hp
    refine ⟨hlen p hp, ?_⟩
    intro j hj
    rw [entry_names hd p hp j hj]
    show some (confName ['m', 'o', 'l'] j) = _
    rw [C14.confName_nosuffix _ (by decide) j]
    rfl

end NonVacuity

/-! ## conformer storage order (C03, second half)

Re-storing the conformers of a molecule in another order changes where each fingerprint sits in the
lists (and hence its name index) but not the fingerprint of any conformer. -/

/-- the fingerprint at key `k` a fresh fingerprinter computes for the geometry `g` (a default where the
run or the fetch fails; never reached below) -/
def directFp (o : Opts) (m : MolG) (k : Int) (g : Geo) : Fp :=
  match runFp o m g with
  | .ok s =>
    match fingerprintAt o s (some k) none [] with
    | .ok f => f
    | .error _ => default
  | .error _ => default

section Order
variable {o : Opts} {mid : Nat} {m : MolG} {geos geos' : List Geo} {name : Option (List Char)}
  {allIters : Bool} {d d' : LevelDict}

/-- the fingerprints of an entry's list are a function of the geometries alone, in storage order -/
theorem entry_fps {first : Int} (h : entryRun o mid m geos name first allIters = .ok (some d))
    (p : Int × List NamedFp) (hp : p ∈ d) :
    p.2.map (·.fp) = (geos.take (firstN first geos.length)).map (directFp o m p.1) := by
  have hlen := (entry_count h).1 p hp
  have hle := firstN_le first geos.length
  apply List.ext_getElem
  · simp [hlen, Nat.min_eq_left hle]
  · intro i h1 h2
    have hi : i < p.2.length := by simpa using h1
    obtain ⟨hg, s, hr, hf, _⟩ := entry_cell h p hp i hi
    simp only [List.getElem_map, List.getElem_take]
    unfold directFp
    simp only [hr, hf]

theorem entry_fps_all (h : entryRun o mid m geos name (-1) allIters = .ok (some d))
    (p : Int × List NamedFp) (hp : p ∈ d) : p.2.map (·.fp) = geos.map (directFp o m p.1) := by
  rw [entry_fps h p hp, C14.firstN_all, List.take_length]

/-- a dictionary for all conformers means: every conformer's run succeeds and every level key's
fingerprint can be fetched from it -/
theorem entry_all_ok (h : entryRun o mid m geos name (-1) allIters = .ok (some d))
    (k : Int) (hk : k ∈ levelKeys o.level allIters) (g : Geo) (hg : g ∈ geos) :
    ∃ s f, runFp o m g = .ok s ∧ fingerprintAt o s (some k) none [] = .ok f := by
  obtain ⟨i, hi, rfl⟩ := List.getElem_of_mem hg
  have hN : firstN (-1) geos.length = geos.length := C14.firstN_all _
  obtain ⟨hlen, hkeys, _⟩ := entry_count h
  rw [hN] at hlen hkeys
  rw [← hkeys (by omega)] at hk
  obtain ⟨p, hp, rfl⟩ := List.mem_map.1 hk
  obtain ⟨_, s, hr, hf, _⟩ := entry_cell h p hp i (by rw [hlen p hp]; exact hi)
  exact ⟨s, _, hr, hf⟩

/-- the entry point also succeeds on any re-stored conformer list (same number of conformers, each of
them one of the original ones), with the same keys -/
theorem entry_restored_exists (h : entryRun o mid m geos name (-1) allIters = .ok (some d))
    (hlen : geos'.length = geos.length) (hsub : ∀ g ∈ geos', g ∈ geos) :
    ∃ d', entryRun o mid m geos' name (-1) allIters = .ok (some d') ∧ d'.map (·.1) = d.map (·.1) := by
  obtain ⟨hbad, _⟩ := entry_some h
  have hc : ¬ ((o.level = -1 && !o.removeDup) = true) := by
    intro hc; apply hbad; simpa using hc
  by_cases h0 : geos.length = 0
  · have e1 : geos = [] := List.eq_nil_of_length_eq_zero h0
    have e2 : geos' = [] := List.eq_nil_of_length_eq_zero (by omega)
    subst e1; subst e2
    exact ⟨d, h, rfl⟩
  · have hN : firstN (-1) geos.length = geos.length := C14.firstN_all _
    have hN' : firstN (-1) geos'.length = geos'.length := C14.firstN_all _
    have hsome : (entrySpec o m geos' name (-1) allIters).isSome = true := by
      rw [entrySpec_eq, hN', if_neg (by omega)]
      apply omapM_isSome
      intro k hk
      rw [Option.isSome_map]
      apply omapM_isSome
      intro j hj
      have hj : j < geos'.length := List.mem_range.1 hj
      have hgd : geos'.getD j noGeo = geos'[j] := by simp [List.getD_eq_getElem?_getD, hj]
      obtain ⟨s, f, hr, hf⟩ := entry_all_ok h k hk geos'[j] (hsub _ (List.getElem_mem hj))
      rw [hgd, specCell_ok o m name k geos'[j] j s hr]
      unfold fpCell
      rw [hf]
      rfl
    obtain ⟨d', hd'⟩ := Option.isSome_iff_exists.1 hsome
    have hrun : entryRun o mid m geos' name (-1) allIters = .ok (some d') := by
      rw [entry_eq_direct, if_neg hc, hd']
    refine ⟨d', hrun, ?_⟩
    rw [(entry_count hrun).2.1 (by rw [hN']; omega), (entry_count h).2.1 (by rw [hN]; omega)]

/-- position by position: the fingerprint stored at position `j` after re-storing is the one stored
at position `σ j` before -/
theorem entry_order_fp (σ : Nat → Nat)
    (hσ : ∀ j (hj : j < geos'.length), ∃ hs : σ j < geos.length, geos'[j] = geos[σ j])
    (h : entryRun o mid m geos name (-1) allIters = .ok (some d))
    (h' : entryRun o mid m geos' name (-1) allIters = .ok (some d'))
    (key : Int) (l l' : List NamedFp) (hl : (key, l) ∈ d) (hl' : (key, l') ∈ d')
    (j : Nat) (hj : j < l'.length) : ∃ hs : σ j < l.length, l'[j].fp = l[σ j].fp := by
  have e := entry_fps_all h (key, l) hl
  have e' := entry_fps_all h' (key, l') hl'
  have hlen : l.length = geos.length := by simpa using congrArg List.length e
  have hlen' : l'.length = geos'.length := by simpa using congrArg List.length e'
  obtain ⟨hs, hg⟩ := hσ j (by omega)
  have hs' : σ j < l.length := by omega
  refine ⟨hs', ?_⟩
  have a := List.getElem_of_eq e' (i := j) (by simpa using hj)
  have b := List.getElem_of_eq e (i := σ j) (by simpa using hs')
  simp only [List.getElem_map] at a b
  rw [a, b, hg]

/-- as multisets: a permutation of the stored conformers permutes the fingerprints of every key -/
theorem entry_order_perm (hperm : geos'.Perm geos)
    (h : entryRun o mid m geos name (-1) allIters = .ok (some d))
    (h' : entryRun o mid m geos' name (-1) allIters = .ok (some d'))
    (key : Int) (l l' : List NamedFp) (hl : (key, l) ∈ d) (hl' : (key, l') ∈ d') :
    (l'.map (·.fp)).Perm (l.map (·.fp)) := by
  rw [entry_fps_all h (key, l) hl, entry_fps_all h' (key, l') hl']
  exact hperm.map _

/-- **conformer storage order** (index form): if `geos'` is `geos` re-stored so that position `j`
holds the old conformer `σ j`, the entry point still returns a dictionary, with the same keys, and
under every key the fingerprint at position `j` is the old fingerprint at position `σ j` -/
theorem entry_conformer_order (o : Opts) (mid : Nat) (m : MolG) (geos geos' : List Geo)
    (name : Option (List Char)) (allIters : Bool) (σ : Nat → Nat) {d : LevelDict}
    (hlen : geos'.length = geos.length)
    (hσ : ∀ j (hj : j < geos'.length), ∃ hs : σ j < geos.length, geos'[j] = geos[σ j])
    (h : entryRun o mid m geos name (-1) allIters = .ok (some d)) :
    ∃ d', entryRun o mid m geos' name (-1) allIters = .ok (some d') ∧ d'.map (·.1) = d.map (·.1) ∧
      ∀ key l l', (key, l) ∈ d → (key, l') ∈ d' →
        ∀ j (hj : j < l'.length), ∃ hs : σ j < l.length, l'[j].fp = l[σ j].fp := by
  have hsub : ∀ g ∈ geos', g ∈ geos := by
    intro g hg
    obtain ⟨j, hj, rfl⟩ := List.getElem_of_mem hg
    obtain ⟨hs, he⟩ := hσ j hj
    rw [he]; exact List.getElem_mem hs
  obtain ⟨d', h', hkeys⟩ := entry_restored_exists h hlen hsub
  exact ⟨d', h', hkeys, fun key l l' hl hl' j hj => entry_order_fp σ hσ h h' key l l' hl hl' j hj⟩

/-- **conformer storage order** (multiset form): for a permutation of the stored conformers the entry
point still returns a dictionary, with the same keys, and under every key the list of fingerprints is
a permutation of the old one -/
theorem entry_conformer_perm (o : Opts) (mid : Nat) (m : MolG) (geos geos' : List Geo)
    (name : Option (List Char)) (allIters : Bool) {d : LevelDict} (hperm : geos'.Perm geos)
    (h : entryRun o mid m geos name (-1) allIters = .ok (some d)) :
    ∃ d', entryRun o mid m geos' name (-1) allIters = .ok (some d') ∧ d'.map (·.1) = d.map (·.1) ∧
      ∀ key l l', (key, l) ∈ d → (key, l') ∈ d' → (l'.map (·.fp)).Perm (l.map (·.fp)) := by
  obtain ⟨d', h', hkeys⟩ := entry_restored_exists h hperm.length_eq (fun g hg => hperm.subset hg)
  exact ⟨d', h', hkeys, fun key l l' hl hl' => entry_order_perm hperm h h' key l l' hl hl'⟩

end Order

/-! ### non-vacuity: the two conformers of `ex_entry` stored the other way round -/

/-- both storage orders give a (non-empty) dictionary with the same keys; under every key the two
fingerprints are swapped -/
theorem ex_entry_swapped :
    ∃ d d', entryRun Ex.o 7 Ex.m [Ex.g, g2] (some ['m', 'o', 'l']) (-1) true = .ok (some d) ∧
      entryRun Ex.o 7 Ex.m [g2, Ex.g] (some ['m', 'o', 'l']) (-1) true = .ok (some d') ∧
      d ≠ [] ∧ d'.map (·.1) = d.map (·.1) ∧
      ∀ key l l', (key, l) ∈ d → (key, l') ∈ d' →
        (∀ j (hj : j < l'.length), ∃ hs : 1 - j < l.length, l'[j].fp = l[1 - j].fp) ∧
        (l'.map (·.fp)).Perm (l.map (·.fp)) := by
  obtain ⟨d, hd, hne, _, _⟩ := ex_entry
  have hσ : ∀ j (hj : j < [g2, Ex.g].length),
      ∃ hs : (fun j => 1 - j) j < [Ex.g, g2].length, [g2, Ex.g][j] = [Ex.g, g2][(fun j => 1 - j) j] := by
    intro j hj
    have hj2 : j < 2 := hj
    have : j = 0 ∨ j = 1 := by omega
    rcases this with rfl | rfl
    · exact ⟨Nat.lt_succ_self 1, rfl⟩
    · exact ⟨Nat.zero_lt_succ 1, rfl⟩
  obtain ⟨d', hd', hkeys, hfp⟩ :=
    entry_conformer_order Ex.o 7 Ex.m [Ex.g, g2] [g2, Ex.g] (some ['m', 'o', 'l']) true (fun j => 1 - j)
      rfl hσ hd
  refine ⟨d, d', hd, hd', hne, hkeys, ?_⟩
  intro key l l' hl hl'
  exact ⟨hfp key l l' hl hl',
    entry_order_perm (List.Perm.swap Ex.g g2 []) hd hd' key l l' hl hl'⟩

end E3fpVerif.Props.C14Entry
