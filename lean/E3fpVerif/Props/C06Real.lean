import Mathlib.Analysis.SpecialFunctions.Sqrt
import Mathlib.Tactic.Ring
import Mathlib.Tactic.Linarith
import Mathlib.Tactic.FieldSimp
import Mathlib.Tactic.Positivity
import Mathlib.Tactic.NormNum
import E3fpVerif.Props.C06
/-!
# C06 over the reals: the number a similarity value denotes

`Sim.val` maps the exact pair `(num, rad)` of the root measures to the real number
`num / sqrt rad` (0 when the radicand is 0, the convention of `Model/Metrics.lean`).  The rescaling
`scaleFor` of the sparse Pearson route does not change that number, so **every calling form returns
the same real number** (`routes_agree_real`).
-/
namespace E3fpVerif.Props.C06
open E3fpVerif E3fpVerif.C06L

/-- the real number a similarity value denotes -/
noncomputable def _root_.E3fpVerif.Sim.val : Sim → ℝ
  | .q v => (v : ℝ)
  | .root n r => if r = 0 then 0 else (n : ℝ) / Real.sqrt (r : ℝ)

theorem val_root_scale (c a r : ℚ) (hc : 0 < c) :
    (Sim.root (c * a) (c ^ 2 * r)).val = (Sim.root a r).val := by
  show (if c ^ 2 * r = 0 then (0 : ℝ) else ((c * a : ℚ) : ℝ) / Real.sqrt ((c ^ 2 * r : ℚ) : ℝ))
    = if r = 0 then (0 : ℝ) else (a : ℝ) / Real.sqrt (r : ℝ)
  have hc' : (0 : ℝ) < (c : ℝ) := by exact_mod_cast hc
  by_cases hr : r = 0
  · subst hr; simp
  · have h1 : c ^ 2 * r ≠ 0 := mul_ne_zero (pow_ne_zero 2 (ne_of_gt hc)) hr
    rw [if_neg h1, if_neg hr]
    push_cast
    rw [Real.sqrt_mul (by positivity), Real.sqrt_sq (le_of_lt hc')]
    by_cases hs : Real.sqrt (r : ℝ) = 0
    · rw [hs]; simp
    · field_simp

/-- the rescaling of the sparse Pearson route does not change the number denoted -/
theorem val_scaleFor (m : Measure) (n : Nat) (s : Sim) (h2 : m = .pearson → 2 ≤ n) :
    (scaleFor m n s).val = s.val := by
  cases m with
  | pearson =>
    cases s with
    | q v => rfl
    | root a r => exact val_root_scale _ a r (pearson_scale_pos n (h2 rfl))
  | tanimoto => cases s <;> rfl
  | dice => cases s <;> rfl
  | soergel => cases s <;> rfl
  | cosine => cases s <;> rfl

/-- **Routes agree, as real numbers.**  Under the hypotheses of `routes_agree`, the single entry of the
matrix returned by any database form and the scalar returned by the two-fingerprint form denote the same
real number, for all five measures. -/
theorem routes_agree_real (m : Measure) (a b : Item) (f g : Fp) (ka kb : Kind)
    (pa : Presents a f ka) (pb : Presents b g kb)
    (hf : f.WF) (hg : g.WF) (hb : f.bits = g.bits)
    (hdb : a.isDb = true ∨ b.isDb = true)
    (ca : ItemCastable (measureCast m) a) (cb : ItemCastable (measureCast m) b)
    (sf : StoredAs ka f) (sg : StoredAs kb g)
    (hz : m = .tanimoto ∨ m = .dice → NoZero f ∧ NoZero g)
    (hn : m = .soergel → NonnegFp f ∧ NonnegFp g) (h2 : m = .pearson → 2 ≤ f.bits) :
    ∃ s s' : Sim, metricDispatch m a (some b) = .ok (.inr [[s]]) ∧
      metricDispatch m (.fp f) (some (.fp g)) = .ok (.inl s') ∧ s.val = s'.val := by
  obtain ⟨h, h'⟩ := routes_agree m a b f g ka kb pa pb hf hg hb hdb ca cb sf sg hz hn h2
  refine ⟨_, _, h, h', ?_⟩
  rw [matrixEntry_eq_scale, val_scaleFor m f.bits _ h2]

/-- and both denote the value of the mathematical definition on the two count vectors -/
theorem routes_eq_def_real (m : Measure) (f g : Fp) (hf : f.WF) (hg : g.WF) (hb : f.bits = g.bits)
    (hz : m = .tanimoto ∨ m = .dice → NoZero f ∧ NoZero g) (h2 : m = .pearson → 2 ≤ f.bits) :
    (simFp m f g).val = (defSim m f.bits (cntRow f) (cntRow g)).val ∧
    (matrixEntry m f g).val = (defSim m f.bits (cntRow f) (cntRow g)).val := by
  have h := simFp_eq_def m f g hf hg hb hz
  refine ⟨by rw [h], ?_⟩
  rw [matrixEntry_eq_scale, val_scaleFor m f.bits _ h2, h]

/-- non-vacuity: the Pearson values of `exCount` and `exFloat` by the two routes are the same real number -/
example : ∃ s s' : Sim,
    metricDispatch .pearson (.fp exCount) (some (.db ((Db.new .float 0 none).add [⟨exFloat, none, []⟩]).1))
      = .ok (.inr [[s]]) ∧
    metricDispatch .pearson (.fp exCount) (some (.fp exFloat)) = .ok (.inl s') ∧ s.val = s'.val := by
  obtain ⟨_, hp, hi⟩ := presents_single .float none ⟨exFloat, none, []⟩
  exact routes_agree_real .pearson _ _ exCount exFloat .count .float (Presents.fp exCount) hp ex_wf.1 ex_wf.2.2.1
    rfl (Or.inr rfl) trivial (castable_of_inv (measureCast .pearson) _ hi) ex_storedAs.1 ex_storedAs.2.2
    (fun h => by rcases h with h | h <;> cases h) (fun h => by cases h) (fun _ => by decide)

end E3fpVerif.Props.C06
