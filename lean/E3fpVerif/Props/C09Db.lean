import E3fpVerif.Model.Db
import E3fpVerif.Model.DbHist
import E3fpVerif.Lemmas.DbEq
import E3fpVerif.Lemmas.DbCast
import E3fpVerif.Props.C05
import E3fpVerif.Props.C08
/-!
# C09 (databases) — `db == other` is equality of content

`Db.eq` models `FingerprintDatabase.__eq__`: equal `fp_type`, `level`, `bits`, `fp_num`, equal
name → rows dictionaries, and `(self.array - other.array).nnz == 0`.

For databases satisfying the representation invariant `Db.Inv` (every database built by the public
operations, `Props/C05.lean`), `eq_iff` characterises it by **content**: kind, level, length, the
names *in row order*, and the canonical content of every row (columns sorted, duplicate columns
summed, explicit zeros dropped).  What is **not** compared: the database's own `name` and the
property columns (`eq_ignores_name_and_props`), and the storage order of a row's cells
(`eq_of_row_perm`).

Consequences: `Db.eq` is an equivalence on such databases (`eq_refl`, `eq_symm`, `eq_trans`);
reflexivity fails for a name index with a duplicate key (`eq_refl_needs_inv`).  Pickling, the
`savez`/`load` cycle and `copy` yield a database equal to the original (`pickle_eq`, `savezLoad_eq`,
`copy_eq`); for the last two the stored values must be values of the dtype
(`savezLoad_eq_needs_stable`).
-/
namespace E3fpVerif.Props.C09Db
open E3fpVerif

/-! ## what `Db.eq` decides, without any hypothesis -/

/-- the definition, conjunct by conjunct (the two dictionary inclusions as `subMap`) -/
theorem eq_iff_raw (a b : Db) :
    a.eq b = true ↔ a.fpType = b.fpType ∧ a.level = b.level ∧
      (a.array.map fun _ => a.bits) = (b.array.map fun _ => b.bits) ∧ a.fpNum = b.fpNum ∧
      (subMap a.namesMap b.namesMap = true ∧ subMap b.namesMap a.namesMap = true) ∧
      (a.array.map (·.map rowContent)) = (b.array.map (·.map rowContent)) := by
  unfold Db.eq subMap
  simp only [Bool.and_eq_true, beq_iff_eq, and_assoc]
  refine and_congr_right fun _ => and_congr_right fun _ => and_congr_right fun _ => and_congr_right fun _ =>
    and_congr_right fun _ => and_congr_right fun _ => ?_
  cases a.array <;> cases b.array <;> simp

/-- equal canonical row contents imply equal row counts -/
theorem fpNum_eq_of_content (a b : Db)
    (h : (a.array.map (·.map rowContent)) = (b.array.map (·.map rowContent))) : a.fpNum = b.fpNum := by
  unfold Db.fpNum
  cases ha : a.array <;> cases hb : b.array <;> simp only [ha, hb, Option.map_none, Option.map_some] at h
  · rfl
  · cases h
  · cases h
  · have := congrArg List.length (Option.some.inj h)
    simpa using this

/-! ## 1. characterisation -/

/-- **`db == other` is equality of content.**  Two databases satisfying the invariant are equal
exactly when they have the same kind, the same level, the same length (`bits`; a database that never
received rows has none), the same fingerprint names *in row order*, and the same canonical content
(sorted columns, duplicates summed, no explicit zeros) in every row.  The row count is implied.
The database's own `name` and the property columns are not compared (`eq_ignores_name_and_props`). -/
theorem eq_iff (a b : Db) (ha : a.Inv) (hb : b.Inv) :
    a.eq b = true ↔ a.fpType = b.fpType ∧ a.level = b.level ∧
      (a.array.map fun _ => a.bits) = (b.array.map fun _ => b.bits) ∧
      a.fpNames = b.fpNames ∧ (a.array.map (·.map rowContent)) = (b.array.map (·.map rowContent)) := by
  rw [eq_iff_raw, ha.canonical, hb.canonical, subMap_canonical_iff]
  constructor
  · rintro ⟨h1, h2, h3, _, h5, h6⟩; exact ⟨h1, h2, h3, h5, h6⟩
  · rintro ⟨h1, h2, h3, h5, h6⟩; exact ⟨h1, h2, h3, fpNum_eq_of_content a b h6, h5, h6⟩

/-- the same for two databases that hold rows -/
theorem eq_iff_some (a b : Db) (ha : a.Inv) (hb : b.Inv) (x y : List Row) (hx : a.array = some x) (hy : b.array = some y) :
    a.eq b = true ↔ a.fpType = b.fpType ∧ a.level = b.level ∧ a.bits = b.bits ∧
      a.fpNames = b.fpNames ∧ x.map rowContent = y.map rowContent := by
  rw [eq_iff a b ha hb, hx, hy]
  simp

/-- a database that never received rows is equal only to another such database, of the same kind
and level (its `bits` is not looked at) -/
theorem eq_iff_none (a b : Db) (ha : a.Inv) (hb : b.Inv) (hx : a.array = none) :
    a.eq b = true ↔ a.fpType = b.fpType ∧ a.level = b.level ∧ b.array = none := by
  rw [eq_iff a b ha hb, hx]
  have hn := ((C05.inv_none hx).1 ha).1
  constructor
  · rintro ⟨h1, h2, h3, _, _⟩
    refine ⟨h1, h2, ?_⟩
    cases hy : b.array with
    | none => rfl
    | some y => rw [hy] at h3; cases h3
  · rintro ⟨h1, h2, hy⟩
    refine ⟨h1, h2, by rw [hy]; rfl, ?_, by rw [hy]⟩
    rw [hn, ((C05.inv_none hy).1 hb).1]

/-- **neither the database's own name nor its property columns take part in the comparison**
(no hypothesis: `Db.eq` does not read these fields) -/
theorem eq_ignores_name_and_props (a b : Db) (n n' : Option String) (ps ps' : List (String × List PVal)) :
    ({ a with name := n, props := ps } : Db).eq { b with name := n', props := ps' } = a.eq b := rfl

/-! ### the same, on the list-of-rows specification -/

/-- names and canonical contents of the specification's rows (`Db.absRows`, `Model/DbHist.lean`) -/
theorem absRows_proj (db : Db) (h : db.Inv) :
    db.absRows.map (fun r => (r.name, rowContent r.cells)) =
      db.fpNames.zip ((db.array.getD []).map rowContent) := by
  have hn := h.names_length
  have hf : db.fpNum = (db.array.getD []).length := by unfold Db.fpNum; cases db.array <;> rfl
  apply List.ext_getElem
  · simp [Db.absRows, hn, ← hf]
  · intro i h1 h2
    have hi : i < db.fpNum := by simpa [Db.absRows] using h1
    have hi1 : i < db.fpNames.length := by omega
    have hi2 : i < (db.array.getD []).length := by omega
    simp [Db.absRows, List.getElem?_eq_getElem hi1, List.getElem?_eq_getElem hi2]

/-- **in terms of the list-of-rows specification** (`Db.spec`, the abstraction the history refinement of
`Props/C05Hist.lean` is stated with): two databases are equal exactly when their specifications have
the same kind, level and length and, row by row, the same name and the same canonical cell content;
the specification's `name`, `keys` and per-row `props` are not compared -/
theorem eq_iff_spec (a b : Db) (ha : a.Inv) (hb : b.Inv) :
    a.eq b = true ↔ a.spec.kind = b.spec.kind ∧ a.spec.level = b.spec.level ∧ a.spec.bits = b.spec.bits ∧
      a.spec.rows.map (fun r => (r.name, rowContent r.cells)) =
        b.spec.rows.map (fun r => (r.name, rowContent r.cells)) := by
  rw [eq_iff a b ha hb]
  show _ ↔ a.fpType = b.fpType ∧ a.level = b.level ∧
    (a.array.map fun _ => a.bits) = (b.array.map fun _ => b.bits) ∧
    a.absRows.map (fun r => (r.name, rowContent r.cells)) = b.absRows.map (fun r => (r.name, rowContent r.cells))
  rw [absRows_proj a ha, absRows_proj b hb]
  have la : a.fpNames.length = ((a.array.getD []).map rowContent).length := by
    rw [ha.names_length]; unfold Db.fpNum; cases a.array <;> simp
  have lb : b.fpNames.length = ((b.array.getD []).map rowContent).length := by
    rw [hb.names_length]; unfold Db.fpNum; cases b.array <;> simp
  refine and_congr_right fun _ => and_congr_right fun _ => and_congr_right fun hbits => ?_
  constructor
  · rintro ⟨h1, h2⟩
    rw [h1]
    congr 1
    cases hx : a.array <;> cases hy : b.array <;> simp_all
  · intro hz
    have hu := congrArg List.unzip hz
    rw [List.unzip_zip la, List.unzip_zip lb] at hu
    obtain ⟨h1, h2⟩ := Prod.mk.inj hu
    refine ⟨h1, ?_⟩
    cases hx : a.array <;> cases hy : b.array <;> simp_all

/-! ## 2. equivalence -/

/-- reflexive on databases satisfying the invariant -/
theorem eq_refl (a : Db) (ha : a.Inv) : a.eq a = true :=
  (eq_iff a a ha ha).2 ⟨rfl, rfl, rfl, rfl, rfl⟩

/-- what reflexivity really needs: a name index without duplicate keys -/
theorem eq_refl_of_nodup (a : Db) (h : (a.namesMap.map Prod.fst).Nodup) : a.eq a = true :=
  (eq_iff_raw a a).2 ⟨rfl, rfl, rfl, rfl, ⟨subMap_self _ h, subMap_self _ h⟩, rfl⟩

/-- **reflexivity is false without the invariant**: a name index holding a key twice (not a
Python dictionary, but a value of the model's type) is not equal to itself -/
theorem eq_refl_needs_inv :
    let a : Db := { Db.new .bit 0 none with namesMap := [(none, [0]), (none, [1])] }
    a.eq a = false := by decide

/-- symmetric, without any hypothesis -/
theorem eq_symm (a b : Db) : a.eq b = b.eq a := by
  rw [Bool.eq_iff_iff, eq_iff_raw, eq_iff_raw]
  constructor <;>
  · rintro ⟨h1, h2, h3, h4, ⟨h5, h6⟩, h7⟩
    exact ⟨h1.symm, h2.symm, h3.symm, h4.symm, ⟨h6, h5⟩, h7.symm⟩

/-- transitive on databases satisfying the invariant -/
theorem eq_trans (a b c : Db) (ha : a.Inv) (hb : b.Inv) (hc : c.Inv) (hab : a.eq b = true) (hbc : b.eq c = true) :
    a.eq c = true := by
  obtain ⟨h1, h2, h3, h4, h5⟩ := (eq_iff a b ha hb).1 hab
  obtain ⟨g1, g2, g3, g4, g5⟩ := (eq_iff b c hb hc).1 hbc
  exact (eq_iff a c ha hc).2 ⟨h1.trans g1, h2.trans g2, h3.trans g3, h4.trans g4, h5.trans g5⟩

/-! ## 3. round trips and copies are equal to the original -/

/-- **unpickling yields a database equal to the original** -/
theorem pickle_eq (a : Db) (ha : a.Inv) : a.eq a.pickleRoundTrip = true := by
  rw [(C08.pickle_inv a ha).1]; exact eq_refl a ha

/-- **`load(savez(db))` yields a database equal to the original** (it *is* the original) -/
theorem savezLoad_eq (a d : Db) (ha : a.Inv) (h : a.savezLoad = .ok d)
    (hst : ∀ r ∈ a.array.getD [], ∀ p ∈ r, castVal a.fpType p.2 = p.2) : a.eq d = true := by
  obtain ⟨x, hx, _, _⟩ := C08.savezLoad_ok a d h
  have hid := C08.savezLoad_id a x ha hx (by simpa [hx] using hst)
  rw [h] at hid
  cases hid
  exact eq_refl a ha

/-- `copy` is `as_type` with the database's own kind, which runs the very construction `load` runs -/
theorem copy_is_savezLoad (a : Db) : a.asType a.fpType = a.savezLoad := rfl

/-- **a copy is equal to the original** -/
theorem copy_eq (a d : Db) (ha : a.Inv) (h : a.asType a.fpType = .ok d)
    (hst : ∀ r ∈ a.array.getD [], ∀ p ∈ r, castVal a.fpType p.2 = p.2) : a.eq d = true :=
  savezLoad_eq a d ha (by rw [← copy_is_savezLoad]; exact h) hst

/-- Without stability the result is still equal to the original *after casting*: the loaded database
(or the copy) is equal to every database with the same kind, level, length and names whose rows
have the content of the cast rows. -/
theorem savezLoad_content (a d : Db) (ha : a.Inv) (h : a.savezLoad = .ok d) :
    d.Inv ∧ d.fpType = a.fpType ∧ d.level = a.level ∧ d.bits = a.bits ∧ d.fpNames = a.fpNames ∧
      d.array = a.array.map (·.map (fun r => r.map (fun p => (p.1, castVal a.fpType p.2)))) := by
  refine ⟨C08.savezLoad_inv a d ha h, ?_⟩
  obtain ⟨x, hx, _, rfl⟩ := C08.savezLoad_ok a d h
  simp [hx]

/-- decidable equality on `Except`, for the closed witnesses below -/
private instance decEqExcept {ε α : Type} [DecidableEq ε] [DecidableEq α] : DecidableEq (Except ε α)
  | .ok a, .ok b => if h : a = b then isTrue (by rw [h]) else isFalse (by intro e; cases e; exact h rfl)
  | .error a, .error b => if h : a = b then isTrue (by rw [h]) else isFalse (by intro e; cases e; exact h rfl)
  | .ok _, .error _ => isFalse (by intro e; cases e)
  | .error _, .ok _ => isFalse (by intro e; cases e)

private def fA : Fp := ⟨.bit, 8, 0, [1], []⟩
private def dbTwo : Db := { (Db.new .bit 0 none).addOk [⟨fA, some "a", []⟩] with array := some [[(1, 2)]] }

/-- **the stability hypothesis is needed**: a bit database holding a stored 2 (`from_array` accepts
it, `add` never produces it) satisfies the invariant, is saved and loaded (or copied) without error,
and is *not* equal to what comes back (the 2 has become a 1) -/
theorem savezLoad_eq_needs_stable :
    dbTwo.Inv ∧ (∃ d, dbTwo.savezLoad = .ok d ∧ dbTwo.asType dbTwo.fpType = .ok d ∧ dbTwo.eq d = false) := by
  refine ⟨(C05.inv_some (db := dbTwo) rfl).2 ⟨by decide, by decide, by decide, by decide⟩, ?_⟩
  exact ⟨{ dbTwo with array := some [[(1, 1)]] }, by decide +kernel, by decide +kernel, by decide +kernel⟩

/-! ## 4. the storage order of a row's cells is not seen -/

/-- two databases satisfying the invariant that differ only in the order in which the cells of
each row are stored (and possibly in name and property columns) are equal -/
theorem eq_of_row_perm' (a b : Db) (ha : a.Inv) (hb : b.Inv) (x y : List Row)
    (hx : a.array = some x) (hy : b.array = some y) (hk : a.fpType = b.fpType) (hl : a.level = b.level)
    (hbits : a.bits = b.bits) (hn : a.fpNames = b.fpNames) (hp : List.Forall₂ List.Perm x y) :
    a.eq b = true :=
  (eq_iff_some a b ha hb x y hx hy).2 ⟨hk, hl, hbits, hn, map_rowContent_perm hp⟩

/-- **equality does not see the storage order of a CSR row**: `b` is `a` with the cells of each
row permuted -/
theorem eq_of_row_perm (a : Db) (ha : a.Inv) (x y : List Row) (hx : a.array = some x)
    (hp : List.Forall₂ List.Perm x y) : a.eq { a with array := some y } = true := by
  have hlen : x.length = y.length := forall₂_length_eq hp
  obtain ⟨h1, h2, h3, h4⟩ := (C05.inv_some hx).1 ha
  have hb : ({ a with array := some y } : Db).Inv :=
    (C05.inv_some (db := { a with array := some y }) rfl).2
      ⟨by rw [← hlen]; exact h1, fun c hc => by rw [← hlen]; exact h2 c hc, h3, h4⟩
  exact eq_of_row_perm' a _ ha hb x y hx rfl rfl rfl rfl rfl hp

/-- the content of a row is what `eq` compares: explicit zeros and split cells are not seen either -/
example : rowContent [(5, 1), (1, 2), (5, 2), (3, 0)] = [(1, 2), (5, 3)] ∧
    rowContent [(1, 2), (5, 3)] = [(1, 2), (5, 3)] := by decide +kernel

/-! ## 5. non-vacuity -/

section Examples

private def f1 : Fp := ⟨.count, 8, 0, [1, 2], [(1, 2), (2, 1)]⟩
private def f2 : Fp := ⟨.count, 8, 0, [3], [(3, 4)]⟩
private def f2' : Fp := ⟨.count, 8, 0, [3], [(3, 5)]⟩
private def e0 : Db := Db.new .count 0 none

/-- one addition of two fingerprints -/
private def dbOne : Db := (e0.add [⟨f1, some "a", [("w", .int 1)]⟩, ⟨f2, some "b", [("w", .int 2)]⟩]).1
/-- two additions of one fingerprint each, other database name, other property values -/
private def dbSplit : Db :=
  (((Db.new .count 0 (some "other")).add [⟨f1, some "a", [("w", .int 7)]⟩]).1.add [⟨f2, some "b", [("w", .int 8)]⟩]).1
/-- a single count differs -/
private def dbDiff : Db := (e0.add [⟨f1, some "a", [("w", .int 1)]⟩, ⟨f2', some "b", [("w", .int 2)]⟩]).1
/-- the names are exchanged -/
private def dbSwap : Db := (e0.add [⟨f1, some "b", [("w", .int 1)]⟩, ⟨f2, some "a", [("w", .int 2)]⟩]).1

private theorem dbOne_inv : dbOne.Inv := C05.inv_add_always _ _ (C05.inv_new _ _ _)
private theorem dbSplit_inv : dbSplit.Inv :=
  C05.inv_add_always _ _ (C05.inv_add_always _ _ (C05.inv_new _ _ _))

/-- two databases built by different histories (and carrying different names and property values)
are equal; a database differing in a single count, or in the order of the names, is not -/
theorem examples_eq :
    dbOne.fpNum = 2 ∧ dbSplit.fpNum = 2 ∧ dbOne ≠ dbSplit ∧
    dbOne.eq dbSplit = true ∧ dbSplit.eq dbOne = true ∧
    dbOne.eq dbDiff = false ∧ dbOne.eq dbSwap = false := by
  refine ⟨by decide, by decide, by decide, by decide +kernel, by decide +kernel, by decide +kernel, by decide +kernel⟩

/-- `eq_iff` applies to the pair: the hypotheses are satisfiable and the right-hand side holds -/
example : dbOne.fpNames = dbSplit.fpNames ∧
    (dbOne.array.map (·.map rowContent)) = (dbSplit.array.map (·.map rowContent)) := by
  have := (eq_iff dbOne dbSplit dbOne_inv dbSplit_inv).1 examples_eq.2.2.2.1
  exact ⟨this.2.2.2.1, this.2.2.2.2⟩

/-- `eq_of_row_perm`, `pickle_eq`, `savezLoad_eq`, `copy_eq`: the hypotheses are satisfiable -/
example : dbOne.eq { dbOne with array := some [[(2, 1), (1, 2)], [(3, 4)]] } = true ∧
    dbOne.eq dbOne.pickleRoundTrip = true ∧
    (∃ d, dbOne.savezLoad = .ok d ∧ dbOne.asType dbOne.fpType = .ok d ∧ dbOne.eq d = true) := by
  refine ⟨eq_of_row_perm dbOne dbOne_inv [[(1, 2), (2, 1)], [(3, 4)]] _ (by decide) ?_, pickle_eq dbOne dbOne_inv, ?_⟩
  · exact .cons (List.Perm.swap _ _ _) (.cons (List.Perm.refl _) .nil)
  · have hst : ∀ r ∈ dbOne.array.getD [], ∀ p ∈ r, castVal dbOne.fpType p.2 = p.2 := by decide
    have h := C08.savezLoad_id dbOne _ dbOne_inv rfl hst
    exact ⟨dbOne, h, h, savezLoad_eq dbOne dbOne dbOne_inv h hst⟩

end Examples

end E3fpVerif.Props.C09Db
