import E3fpVerif.Model.SaveRun
/-!
# C14 / C15 — saved fingerprint files reload to the fingerprints that were returned

For every pre-existing state of the output directories, every level, naming and option set:
a call that returns fingerprints leaves, in each of the molecule's files, exactly the list it returned
under that level (`save_consistent`) - in particular when only *some* of the files existed before
(`save_partial_rewrites_all`); a skipped call touches nothing (`save_skip`); other molecules' files and
other directories are never touched (`save_other`); a second call without overwrite is a skip
(`save_twice`), with overwrite it regenerates (`save_overwrite`).
-/
namespace E3fpVerif.Props.C14Save
open E3fpVerif

variable {κ : Type}

theorem ofsGet_put_self (fs : OFS κ) (p : OutPath) (c : κ) : ofsGet (ofsPut fs p c) p = some c := by
  simp [ofsGet, ofsPut]

theorem ofsGet_put_other (fs : OFS κ) (p q : OutPath) (c : κ) (h : q ≠ p) : ofsGet (ofsPut fs p c) q = ofsGet fs q := by
  unfold ofsGet ofsPut
  simp only [List.find?_cons]
  have : (decide (p = q)) = false := by simp; exact fun e => h e.symm
  simp only [this]
  congr 1
  induction fs with
  | nil => rfl
  | cons e t ih =>
    by_cases he : e.1 = p
    · have hq : ¬ e.1 = q := by rw [he]; exact fun x => h x.symm
      rw [List.filter_cons_of_neg (by simp [he]), List.find?_cons_of_neg (by simp [hq])]
      exact ih
    · rw [List.filter_cons_of_pos (by simp [he])]
      by_cases hq : e.1 = q
      · rw [List.find?_cons_of_pos (by simp [hq]), List.find?_cons_of_pos (by simp [hq])]
      · rw [List.find?_cons_of_neg (by simp [hq]), List.find?_cons_of_neg (by simp [hq])]
        exact ih

/-- files written by `writeAll`: the last value written under a key wins; other paths keep their content -/
theorem writeAll_other (fs : OFS κ) (name : String) (d : List (Int × κ)) (q : OutPath)
    (h : ∀ e ∈ d, (e.1, name) ≠ q) : ofsGet (writeAll fs name d) q = ofsGet fs q := by
  induction d generalizing fs with
  | nil => rfl
  | cons e es ih =>
    obtain ⟨k, c⟩ := e
    simp only [writeAll]
    rw [ih _ (fun e he => h e (List.mem_cons_of_mem _ he))]
    exact ofsGet_put_other fs (k, name) q c (Ne.symm (h (k, c) (List.mem_cons_self ..)))

theorem writeAll_get (fs : OFS κ) (name : String) (d : List (Int × κ)) (hnd : (d.map Prod.fst).Nodup)
    (k : Int) (c : κ) (hm : (k, c) ∈ d) : ofsGet (writeAll fs name d) (k, name) = some c := by
  induction d generalizing fs with
  | nil => cases hm
  | cons e es ih =>
    obtain ⟨k', c'⟩ := e
    simp only [List.map_cons, List.nodup_cons] at hnd
    simp only [writeAll]
    rcases List.mem_cons.mp hm with h | h
    · cases h
      rw [writeAll_other]
      · exact ofsGet_put_self fs (k, name) c
      · intro e he heq
        have : e.1 = k := by have := congrArg Prod.fst heq; simpa using this
        exact hnd.1 (this ▸ List.mem_map_of_mem (f := Prod.fst) he)
    · exact ih _ hnd.2 h

theorem levelKeys_nodup (level : Int) (allIters : Bool) : (levelKeys level allIters).Nodup := by
  unfold levelKeys
  split
  · simp
  · have hr : (List.range (level.toNat + 1)).Pairwise (· ≠ ·) := List.nodup_range
    exact List.Pairwise.map _ (fun a b (h : a ≠ b) (e : Int.ofNat a = Int.ofNat b) => h (Int.ofNat.inj e)) hr

theorem saveMol_skip (fs : OFS κ) (name : String) (level : Int) (allIters overwrite : Bool) (fresh : Option (Int → κ))
    (h : skipSave fs name level allIters overwrite = true) : saveMol fs name level allIters overwrite fresh = (fs, []) := by
  simp [saveMol, h]

theorem saveMol_fail (fs : OFS κ) (name : String) (level : Int) (allIters overwrite : Bool) :
    saveMol fs name level allIters overwrite (none : Option (Int → κ)) = (fs, []) := by
  unfold saveMol; split <;> rfl

theorem saveMol_run (fs : OFS κ) (name : String) (level : Int) (allIters overwrite : Bool) (f : Int → κ)
    (h : skipSave fs name level allIters overwrite = false) :
    saveMol fs name level allIters overwrite (some f) =
      (writeAll fs name (resultDict level allIters f), resultDict level allIters f) := by
  simp [saveMol, h]

theorem resultDict_keys (level : Int) (allIters : Bool) (f : Int → κ) :
    (resultDict level allIters f).map Prod.fst = levelKeys level allIters := by
  simp [resultDict, List.map_map, Function.comp_def]

/-- every call either returns nothing and touches nothing, or returns the per-level dictionary and has written it -/
theorem saveMol_cases (fs : OFS κ) (name : String) (level : Int) (allIters overwrite : Bool) (fresh : Option (Int → κ)) :
    saveMol fs name level allIters overwrite fresh = (fs, []) ∨
    ∃ f, fresh = some f ∧ skipSave fs name level allIters overwrite = false ∧
      saveMol fs name level allIters overwrite fresh = (writeAll fs name (resultDict level allIters f), resultDict level allIters f) := by
  cases hs : skipSave fs name level allIters overwrite with
  | true => left; exact saveMol_skip _ _ _ _ _ _ hs
  | false =>
    cases fresh with
    | none => left; exact saveMol_fail _ _ _ _ _
    | some f => right; exact ⟨f, rfl, rfl, saveMol_run _ _ _ _ _ f hs⟩

/-- a call that returns fingerprints has written, under each of its level keys, exactly the list it returned -/
theorem save_consistent (fs : OFS κ) (name : String) (level : Int) (allIters overwrite : Bool) (fresh : Option (Int → κ))
    (k : Int) (c : κ) (hm : (k, c) ∈ (saveMol fs name level allIters overwrite fresh).2) :
    ofsGet (saveMol fs name level allIters overwrite fresh).1 (k, name) = some c := by
  rcases saveMol_cases fs name level allIters overwrite fresh with h | ⟨f, _, _, h⟩
  · rw [h] at hm; cases hm
  · rw [h] at hm ⊢
    apply writeAll_get _ _ _ _ k c hm
    rw [resultDict_keys]; exact levelKeys_nodup level allIters

/-- the returned dictionary has exactly the level keys, in order (or is empty) -/
theorem save_keys (fs : OFS κ) (name : String) (level : Int) (allIters overwrite : Bool) (fresh : Option (Int → κ)) :
    (saveMol fs name level allIters overwrite fresh).2 = [] ∨
    ((saveMol fs name level allIters overwrite fresh).2.map Prod.fst = levelKeys level allIters) := by
  rcases saveMol_cases fs name level allIters overwrite fresh with h | ⟨f, _, _, h⟩
  · left; rw [h]
  · right; rw [h]; exact resultDict_keys level allIters f

/-- all files present and overwrite off: the call is a skip - nothing returned, nothing touched -/
theorem save_skip (fs : OFS κ) (name : String) (level : Int) (allIters : Bool) (fresh : Option (Int → κ))
    (h : ∀ p ∈ outFiles name level allIters, (ofsGet fs p).isSome) :
    saveMol fs name level allIters false fresh = (fs, []) := by
  apply saveMol_skip
  simp only [skipSave, Bool.not_false, Bool.and_true]
  exact List.all_eq_true.mpr h

/-- a failed fingerprinting writes nothing -/
theorem save_failure (fs : OFS κ) (name : String) (level : Int) (allIters overwrite : Bool) :
    saveMol fs name level allIters overwrite (none : Option (Int → κ)) = (fs, []) := saveMol_fail _ _ _ _ _

/-- files of other molecules, and files outside the molecule's level directories, are never touched -/
theorem save_other (fs : OFS κ) (name : String) (level : Int) (allIters overwrite : Bool) (fresh : Option (Int → κ))
    (q : OutPath) (hq : q ∉ outFiles name level allIters) :
    ofsGet (saveMol fs name level allIters overwrite fresh).1 q = ofsGet fs q := by
  rcases saveMol_cases fs name level allIters overwrite fresh with h | ⟨f, _, _, h⟩
  · rw [h]
  · rw [h]
    apply writeAll_other
    intro e he heq
    apply hq
    simp only [resultDict, List.mem_map] at he
    obtain ⟨k, hk, rfl⟩ := he
    simp only [outFiles, List.mem_map]
    exact ⟨k, hk, heq⟩

/-- some - not all - of the files exist, overwrite off, fingerprinting succeeds: *every* file of the molecule holds the
fresh list afterwards (a stale or truncated file of an earlier, shorter or killed run does not survive) -/
theorem save_partial_rewrites_all (fs : OFS κ) (name : String) (level : Int) (allIters : Bool) (f : Int → κ)
    (hmiss : ∃ p ∈ outFiles name level allIters, ofsGet fs p = none) :
    ∀ k ∈ levelKeys level allIters, ofsGet (saveMol fs name level allIters false (some f)).1 (k, name) = some (f k) := by
  intro k hk
  apply save_consistent
  obtain ⟨p, hp, hnone⟩ := hmiss
  have hs : skipSave fs name level allIters false = false := by
    simp only [skipSave, Bool.not_false, Bool.and_true]
    apply Bool.eq_false_iff.mpr
    intro hall
    have := List.all_eq_true.mp hall p hp
    simp [hnone] at this
  rw [saveMol_run _ _ _ _ _ f hs]
  exact List.mem_map_of_mem hk

/-- overwrite on: the files are regenerated whatever was there -/
theorem save_overwrite (fs : OFS κ) (name : String) (level : Int) (allIters : Bool) (f : Int → κ) :
    ∀ k ∈ levelKeys level allIters, ofsGet (saveMol fs name level allIters true (some f)).1 (k, name) = some (f k) := by
  intro k hk
  apply save_consistent
  have hs : skipSave fs name level allIters true = false := by simp [skipSave]
  rw [saveMol_run _ _ _ _ _ f hs]
  exact List.mem_map_of_mem hk

/-- after a successful call every file of the molecule exists, so the same call again (overwrite off) is a skip that
leaves every file byte-for-byte untouched -/
theorem save_twice (fs : OFS κ) (name : String) (level : Int) (allIters overwrite : Bool) (f g : Int → κ)
    (h1 : (saveMol fs name level allIters overwrite (some f)).2 ≠ []) :
    saveMol (saveMol fs name level allIters overwrite (some f)).1 name level allIters false (some g) =
      ((saveMol fs name level allIters overwrite (some f)).1, []) := by
  apply save_skip
  intro p hp
  simp only [outFiles, List.mem_map] at hp
  obtain ⟨k, hk, rfl⟩ := hp
  have hm : (k, f k) ∈ (saveMol fs name level allIters overwrite (some f)).2 := by
    rcases saveMol_cases fs name level allIters overwrite (some f) with h | ⟨f', hf, _, h⟩
    · rw [h] at h1; exact absurd rfl h1
    · cases hf; rw [h]; exact List.mem_map_of_mem hk
  rw [save_consistent fs name level allIters overwrite (some f) k (f k) hm]; rfl

/-- non-vacuity: level 2, all iterations, the level-0 file left by an earlier run: all three files are rewritten -/
example : (saveMol [(((0 : Int), "m"), "stale")] "m" 2 true false (some (fun k => s!"fresh{k}"))).1.map (·.1.1) = [2, 1, 0]
    ∧ ofsGet (saveMol [(((0 : Int), "m"), "stale")] "m" 2 true false (some (fun k => s!"fresh{k}"))).1 (0, "m") = some "fresh0" := by
  decide

end E3fpVerif.Props.C14Save
