import E3fpVerif.Lemmas.FpHeap
/-!
# C09 on fingerprint *objects*: ownership, frames and protected histories

Property theorems about `Model/FpHeap.lean` (the heap of `Fingerprint` objects and their containers).
All helper lemmas live in `Lemmas/FpHeap.lean`.
-/
namespace E3fpVerif
namespace H

/-! ## 1. the ownership invariant holds on every reachable heap -/

theorem inv_empty : Inv {} where
  wf := by intro r o h; simp at h
  sep := by intro r1 r2 o1 o2 h; simp at h

theorem step_inv (h : Heap) (op : Op) : Inv h → Inv (step h op).1 :=
  (step_shape h op).inv

theorem run_inv {h : Heap} {ops : List Op} : Inv h → Inv (run h ops).1 := by
  induction ops generalizing h with
  | nil => exact id
  | cons op ops ih => intro hinv; rw [run_fst_cons]; exact ih (step_inv h op hinv)

/-! ## 2. objects are never removed, and an operation only changes the object it is applied to -/

theorem step_grows {h : Heap} {op : Op} : h.objs.length ≤ (step h op).1.objs.length :=
  (step_shape h op).grows

theorem run_grows {h : Heap} {ops : List Op} : h.objs.length ≤ (run h ops).1.objs.length := by
  induction ops generalizing h with
  | nil => exact Nat.le_refl _
  | cons op ops ih => rw [run_fst_cons]; exact Nat.le_trans step_grows ih

theorem step_frame {h : Heap} {op : Op} (hinv : Inv h) {r : Ref} (hr : r < h.objs.length)
    (ht : target op ≠ some r) (hc : ∀ s, target op = some s → r ∉ cacheRefs h s) :
    view (step h op).1 r = view h r :=
  (step_shape h op).frame hinv hr ht hc

/-! ## 3. folding leaves the source's content alone; a cached fold returns the cached object -/

/-- Folding leaves the source's value, properties, parent link (and unfolding map) unchanged.
The hypothesis `src ∉ cacheRefs h src` cannot be dropped under `Inv` alone (see `fold_source_content_needs_acyclic`
below); it holds on every reachable heap (`fold_source_content_reachable`). -/
theorem fold_source_content {h : Heap} {src bits method : Nat} {linked : Bool} {cm : CountsMethod} {v v' : View}
    (hinv : Inv h) (hself : src ∉ cacheRefs h src) (hv : view h src = some v)
    (hv' : view (step h (.fold src bits method linked cm)).1 src = some v') :
    v'.val = v.val ∧ v'.props = v.props ∧ v'.unfolded = v.unfolded ∧ v'.i2u = v.i2u :=
  (step_shape h _).fold_source hinv hself hv hv'

theorem fold_cached_same_object {h : Heap} {src bits method : Nat} {linked : Bool} {cm : CountsMethod}
    {o : FObj} {c : List ((Nat × Nat) × Ref)} {child : Ref}
    (ho : getObj h src = some o) (hc : getCache h o.cache = some c) (hd : dictGet c (bits, method) = some child) :
    ((step h (.fold src bits method linked cm)).2 = .ref child ∨
      (∃ e, (step h (.fold src bits method linked cm)).2 = .err e) ∨
      (step h (.fold src bits method linked cm)).2 = .bad) ∧
    (step h (.fold src bits method linked cm)).1.objs.length = h.objs.length := by
  simp only [step, ho]
  split
  · rename_i v p cache hv hp hc'
    rw [hc] at hc'; cases hc'
    split
    · simp
    · simp only [hd]
      split
      · simp
      · split <;> simp
      · simp
  · simp

/-- under the invariant a cached fold that passes the value-level checks answers the cached object itself
(or `bad` when a count child carries no unfolding map, which no constructor produces); for a bit
fingerprint the heap is not touched at all -/
theorem fold_cached_ref {h : Heap} {src bits method : Nat} {linked : Bool} {cm : CountsMethod} {v : View}
    {w : Fp} {child : Ref} (hv : view h src = some v) (hw : v.val.fold bits method cm = .ok w)
    (hd : dictGet v.cache (bits, method) = some child) :
    ((step h (.fold src bits method linked cm)).2 = .ref child ∨
      (step h (.fold src bits method linked cm)).2 = .bad) ∧
    (v.val.kind = .bit → step h (.fold src bits method linked cm) = (h, .ref child)) := by
  obtain ⟨o, ho, ha, hp, hc, _⟩ := view_some hv
  have hk := absFp_kind ha
  simp only [step, ho, ha, hp, hc, hw, hd]
  split
  · simp
  · rename_i hnb
    refine ⟨?_, fun hb => absurd (hk ▸ hb) hnb⟩
    split <;> simp
  · rename_i hnb
    exact ⟨by simp, fun hb => absurd (hk ▸ hb) hnb⟩

theorem cacheNewer_empty : CacheNewer {} := by
  intro s c hc; simp [cacheRefs, getObj] at hc

theorem step_cacheNewer {h : Heap} {op : Op} (hinv : Inv h) (hn : CacheNewer h) : CacheNewer (step h op).1 := by
  intro s c hc
  rcases (step_shape h op).cacheRefs_sub hinv hc with h1 | ⟨h1, h2, _⟩
  · exact hn s c h1
  · rw [h1]; exact h2

theorem run_cacheNewer {h : Heap} {ops : List Op} (hinv : Inv h) (hn : CacheNewer h) :
    CacheNewer (run h ops).1 := by
  induction ops generalizing h with
  | nil => exact hn
  | cons op ops ih => rw [run_fst_cons]; exact ih (step_inv h op hinv) (step_cacheNewer hinv hn)

/-- on every heap reached from the empty one, folding leaves the source's content unchanged -/
theorem fold_source_content_reachable {ops : List Op} {src bits method : Nat} {linked : Bool}
    {cm : CountsMethod} {v v' : View} (hv : view (run {} ops).1 src = some v)
    (hv' : view (step (run {} ops).1 (.fold src bits method linked cm)).1 src = some v') :
    v'.val = v.val ∧ v'.props = v.props ∧ v'.unfolded = v.unfolded ∧ v'.i2u = v.i2u :=
  fold_source_content (run_inv inv_empty)
    (fun hm => Nat.lt_irrefl _ (run_cacheNewer inv_empty cacheNewer_empty src src hm)) hv hv'

/-- a heap satisfying `Inv` in which object 0 sits in its own fold cache (never reached from `{}`) -/
def selfCached : Heap :=
  { objs := [⟨.count, 4, 0, 0, some 1, 2, 3, none, none, some 4⟩],
    cells := [.arr [1], .cnts [(1, 5)], .props [], .cache [((4, 0), 0)], .i2u []] }

theorem selfCached_inv : Inv selfCached where
  wf := by
    intro r o h
    have : r = 0 ∧ o = ⟨.count, 4, 0, 0, some 1, 2, 3, none, none, some 4⟩ := by
      rcases r with _ | r <;> simp_all [selfCached]
    obtain ⟨rfl, rfl⟩ := this
    refine ⟨by decide +kernel, ?_, by decide +kernel, ⟨[((4, 0), 0)], by decide +kernel, by decide +kernel⟩,
      ?_, ?_, ?_⟩
    · intro r hr; cases hr; decide +kernel
    · intro r hr; cases hr
    · intro r hr; cases hr; decide +kernel
    · intro r hr; cases hr
  sep := by
    intro r1 r2 o1 o2 h1 h2 hne
    have e1 : r1 = 0 := by rcases r1 with _ | r <;> simp_all [selfCached]
    have e2 : r2 = 0 := by rcases r2 with _ | r <;> simp_all [selfCached]
    exact absurd (e1.trans e2.symm) hne

/-- `fold_source_content` is false under `Inv` alone: folding the self-cached object replaces its own counts -/
theorem fold_source_content_needs_acyclic :
    ∃ (h : Heap) (src bits method : Nat) (linked : Bool) (cm : CountsMethod) (v v' : View),
      Inv h ∧ view h src = some v ∧ view (step h (.fold src bits method linked cm)).1 src = some v' ∧
        v'.val ≠ v.val := by
  refine ⟨selfCached, 0, 4, 0, false, .sum, ⟨⟨.count, 4, 0, [1], [(1, 5)]⟩, [], [((4, 0), 0)], none, none, some []⟩,
    ⟨⟨.count, 4, 0, [1], []⟩, [], [((4, 0), 0)], none, none, some []⟩, selfCached_inv, ?_, ?_, ?_⟩
  · decide +kernel
  · decide +kernel
  · decide +kernel

/-! ## 4. a new object shares nothing with any older object -/

theorem fresh_result {h : Heap} {op : Op} {r : Ref} (hinv : Inv h) (ha : (step h op).2 = .ref r)
    (hr : h.objs.length ≤ r) :
    r = h.objs.length ∧ (step h op).1.objs.length = h.objs.length + 1 ∧
      ∀ o', getObj (step h op).1 r = some o' → ∀ x ∈ slotRefs o', h.cells.length ≤ x :=
  (step_shape h op).fresh_result hinv ha hr

theorem builds_new {h : Heap} {op : Op} {r : Ref} (hb : builds op = true) (ha : (step h op).2 = .ref r) :
    r = h.objs.length :=
  (step_shape h op).builds_ref hb ha


/-! ## 5. content refines the value model -/

theorem fromFp_val {h : Heap} {k : Kind} {src : Ref} {v : View} {w : Fp} (hv : view h src = some v)
    (hw : fromFingerprint k v.val = .ok w) :
    (step h (.fromFp k src)).2 = .ref h.objs.length ∧
    view (step h (.fromFp k src)).1 h.objs.length = some ⟨w, dictUpdate [] v.props, [], none, none, none⟩ := by
  rw [step_fromFp_eq hv hw]
  obtain ⟨oc, f, hA⟩ := allocFp_spec h w (dictUpdate [] v.props) none none
  refine ⟨by rw [hA], ?_⟩
  have := f.view_new
  rw [show (⟨w.kind, w.bits, w.level, w.idx, if w.kind = .bit then [] else w.cnt⟩ : Fp) = w from
    Fp.norm_eq (fromFingerprint_cnt hw)] at this
  exact this

theorem fold_val {h : Heap} {src bits method : Nat} {linked : Bool} {cm : CountsMethod} {v : View} {w : Fp}
    (hinv : Inv h) (hv : view h src = some v) (hw : v.val.fold bits method cm = .ok w)
    (hn : dictGet v.cache (bits, method) = none) :
    (step h (.fold src bits method linked cm)).2 = .ref h.objs.length ∧
    view (step h (.fold src bits method linked cm)).1 h.objs.length =
      some ⟨w, dictUpdate [] v.props, [], if linked then some src else none, none,
        some (v.val.unfoldMap bits method)⟩ ∧
    view (step h (.fold src bits method linked cm)).1 src =
      some { v with cache := if linked then dictSet v.cache (bits, method) h.objs.length else v.cache,
                    i2f := some (v.val.foldMap bits method) } := by
  obtain ⟨o, ho, _, _, hc, _⟩ := view_some hv
  rw [step_fold_new_eq hv ho hw hn]
  have sp := foldNew_spec (v := v.val) (p := v.props) bits method linked w hinv ho hc
  refine ⟨by rw [sp.child], ?_, sp.viewSrc v hv⟩
  have := sp.viewChild
  rw [show (⟨w.kind, w.bits, w.level, w.idx, if w.kind = .bit then [] else w.cnt⟩ : Fp) = w from
    Fp.norm_eq (fold_cnt hw)] at this
  exact this

/-- a linked new fold is afterwards found in the source's cache -/
theorem fold_val_linked {h : Heap} {src bits method : Nat} {cm : CountsMethod} {v : View} {w : Fp}
    (hinv : Inv h) (hv : view h src = some v) (hw : v.val.fold bits method cm = .ok w)
    (hn : dictGet v.cache (bits, method) = none) :
    ∃ vs, view (step h (.fold src bits method true cm)).1 src = some vs ∧
      dictGet vs.cache (bits, method) = some h.objs.length :=
  ⟨_, (fold_val (linked := true) hinv hv hw hn).2.2, dictGet_dictSet_self _ _ _⟩


/-! ## 6. protected histories -/

theorem step_cacheRefs_sub {h : Heap} {op : Op} (hinv : Inv h) {s c : Ref}
    (hc : c ∈ cacheRefs (step h op).1 s) :
    c ∈ cacheRefs h s ∨ (c = h.objs.length ∧ s < h.objs.length ∧ isFold op = true) :=
  (step_shape h op).cacheRefs_sub hinv hc

theorem protected_history {h : Heap} {T : List Ref} {ops : List Op} (hinv : Inv h)
    (hT : ∀ t ∈ T, t < h.objs.length)
    (hC : ∀ s, s < h.objs.length → s ∉ T → ∀ c ∈ cacheRefs h s, c ∉ T)
    (hops : ∀ op ∈ ops, ∀ s, target op = some s → s ∉ T) :
    ∀ t ∈ T, view (run h ops).1 t = view h t := by
  induction ops generalizing h with
  | nil => intro t _; rfl
  | cons op ops ih =>
    intro t ht
    have hop := hops op (List.mem_cons_self ..)
    have hC' : ∀ s, s ∉ T → ∀ c ∈ cacheRefs h s, c ∉ T := by
      intro s hs c hc
      by_cases hlt : s < h.objs.length
      · exact hC s hlt hs c hc
      · rw [cacheRefs_ge (Nat.le_of_not_lt hlt)] at hc; cases hc
    have hframe : ∀ t ∈ T, view (step h op).1 t = view h t := by
      intro t ht
      refine step_frame hinv (hT t ht) (fun e => hop t e ht) ?_
      intro s hs hm
      exact hC' s (hop s hs) t hm ht
    rw [run_fst_cons, ← hframe t ht]
    refine ih (step_inv h op hinv) ?_ ?_ ?_ t ht
    · intro t ht; exact Nat.lt_of_lt_of_le (hT t ht) step_grows
    · intro s _ hs c hc hcT
      rcases step_cacheRefs_sub hinv hc with h1 | ⟨h1, _, _⟩
      · exact hC' s hs c h1 hcT
      · have := hT c hcT; romega
    · intro op' hop' s hs; exact hops op' (List.mem_cons_of_mem _ hop') s hs

theorem copy_independent {h h1 : Heap} {k : Kind} {src c : Ref} (hinv : Inv h)
    (hs : step h (.fromFp k src) = (h1, .ref c)) {ops : List Op}
    (hops : ∀ op ∈ ops, ∀ s, target op = some s → h.objs.length ≤ s) {t : Ref} (ht : t < h.objs.length) :
    view (run h1 ops).1 t = view h t := by
  have e1 : h1 = (step h (.fromFp k src)).1 := by rw [hs]
  have hinv1 : Inv h1 := e1 ▸ step_inv h _ hinv
  have hg : h.objs.length ≤ h1.objs.length := e1 ▸ step_grows
  have hf : view h1 t = view h t := by
    rw [e1]; exact step_frame hinv ht (by simp [target]) (by simp [target])
  rw [← hf]
  refine protected_history (T := List.range h.objs.length) hinv1 ?_ ?_ ?_ t (List.mem_range.mpr ht)
  · intro t ht; exact Nat.lt_of_lt_of_le (List.mem_range.mp ht) hg
  · intro s _ hs c hc _
    rw [List.mem_range] at hs
    rw [e1] at hc
    rcases step_cacheRefs_sub hinv hc with h2 | ⟨_, h2, _⟩
    · rw [cacheRefs_ge (Nat.le_of_not_lt hs)] at h2; cases h2
    · exact hs h2
  · intro op hop s hs hm
    have := hops op hop s hs
    rw [List.mem_range] at hm; romega

theorem original_independent {h h1 : Heap} {k : Kind} {src c : Ref} (hinv : Inv h)
    (hs : step h (.fromFp k src) = (h1, .ref c)) {ops : List Op}
    (hops : ∀ op ∈ ops, target op ≠ some c) :
    view (run h1 ops).1 c = view h1 c := by
  have e1 : h1 = (step h (.fromFp k src)).1 := by rw [hs]
  have e2 : (step h (.fromFp k src)).2 = .ref c := by rw [hs]
  have hinv1 : Inv h1 := e1 ▸ step_inv h _ hinv
  have hc : c = h.objs.length := builds_new rfl e2
  have hlen := (fresh_result hinv e2 (Nat.le_of_eq hc.symm)).2.1
  rw [← e1] at hlen
  refine protected_history (T := [c]) hinv1 ?_ ?_ ?_ c (List.mem_singleton_self c)
  · intro t ht; rw [List.mem_singleton] at ht; subst ht; rw [hlen, hc]; exact Nat.lt_succ_self _
  · intro s _ _ c' hc' hm
    rw [List.mem_singleton] at hm; subst hm
    rw [e1] at hc'
    rcases step_cacheRefs_sub hinv hc' with h2 | ⟨_, _, h2⟩
    · have := cacheRefs_lt hinv h2; romega
    · cases h2
  · intro op hop s' hs' hm
    rw [List.mem_singleton] at hm; subst hm; exact hops op hop hs'

/-! ## 7. non-vacuity (evaluated by the kernel: `decide +kernel`, no `native_decide`) -/

/-- a count fingerprint, its linked fold (twice), a copy -/
def demoSetup : List Op :=
  [.new .count (some [1, 5, 6, 5]) none 8 5 (some "mol") [("k", .i 3)],
   .fold 0 4 0 true .sum, .fold 0 4 0 true .sum, .fromFp .count 0]

/-- what is then done to the copy (object 2): an in-place poke, a renaming, a fold, new counts -/
def demoOps : List Op :=
  [.pokeIdx 2 0 0, .setName 2 "copy", .fold 2 4 1 true .max, .setCounts 2 [(1, 7)], .pokeCount 2 1 9]

/-- a linked fold returns the same object twice, and the copy is a third object -/
example : (run {} demoSetup).2 = [.ref 0, .ref 1, .ref 1, .ref 2] := by decide +kernel

example : Inv (run {} demoSetup).1 := run_inv inv_empty

/-- the hypotheses of `protected_history` hold for `T = [0, 1]` (the original and its folded child) -/
example : ∀ t ∈ [0, 1], view (run (run {} demoSetup).1 demoOps).1 t = view (run {} demoSetup).1 t := by
  refine protected_history (T := [0, 1]) (run_inv inv_empty) (by decide +kernel) (by decide +kernel) ?_
  intro op hop s hs
  simp only [demoOps, List.mem_cons, List.not_mem_nil, or_false] at hop
  rcases hop with rfl | rfl | rfl | rfl | rfl <;> cases hs <;> decide

/-- ... while the same history does change the copy -/
example : view (run (run {} demoSetup).1 demoOps).1 2 ≠ view (run {} demoSetup).1 2 := by decide +kernel

/-- the three objects before the copy is made -/
def demoBefore : Heap := (run {} (demoSetup.take 3)).1

/-- `copy_independent` applies: whatever is done to the copy leaves objects 0 and 1 as they were -/
example : ∀ t < 2, view (run (step demoBefore (.fromFp .count 0)).1 demoOps).1 t = view demoBefore t := by
  intro t ht
  refine copy_independent (h := demoBefore) (k := .count) (src := 0) (c := 2) (run_inv inv_empty)
    (Prod.ext rfl (by decide +kernel)) ?_ (Nat.lt_of_lt_of_le ht (by decide +kernel : 2 ≤ demoBefore.objs.length))
  intro op hop s hs
  simp only [demoOps, List.mem_cons, List.not_mem_nil, or_false] at hop
  rcases hop with rfl | rfl | rfl | rfl | rfl <;> cases hs <;> decide +kernel

/-- `original_independent` applies: whatever is done to the original and its fold leaves the copy as it was -/
example : view (run (step demoBefore (.fromFp .count 0)).1
      [.setLevel 0 3, .pokeCount 0 5 4, .fold 0 2 0 true .sum, .setName 1 "x", .pokeIdx 1 0 3]).1 2 =
    view (step demoBefore (.fromFp .count 0)).1 2 := by
  refine original_independent (h := demoBefore) (k := .count) (src := 0) (c := 2) (run_inv inv_empty)
    (Prod.ext rfl (by decide +kernel)) ?_
  intro op hop
  simp only [List.mem_cons, List.not_mem_nil, or_false] at hop
  rcases hop with rfl | rfl | rfl | rfl | rfl <;> decide

end H
end E3fpVerif
