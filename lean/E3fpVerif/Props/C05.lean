import E3fpVerif.Model.Db
import E3fpVerif.Lemmas.DbIndex
import E3fpVerif.Lemmas.DbCols
/-!
# C05 — a database is a faithful, order-preserving container

`Db.Inv` is the representation invariant of the database: names, property columns and rows have
one common length, the separately maintained name index is the canonical one (the index rebuilt
from the name list), the property keys are duplicate free, and a database without rows has no
property columns.  `Db.new` establishes it, an accepted `Db.add` preserves it (`inv_add`), and
`Db.subset`, `Db.asType`, `Db.fold` build databases that satisfy it.  Under the invariant,
`db[name]` returns exactly the rows carrying the name, in insertion order (`getName_rows`).

Read-only frame (remark): `Db.getIndex`, `Db.getName`, `Db.eq` return no database at all, and
`Db.subset`, `Db.asType`, `Db.fold` return a *new* database while taking the source by value; in
the model there is therefore no "state after" of the source to speak of — the source is unchanged
by construction.
-/
namespace E3fpVerif.Props.C05
open E3fpVerif

/-- lookup by name is a pure read: it returns no new state (by construction) and an absent name gives `[]` -/
theorem getName_absent (db : Db) (nm : String) (h : mapLookup db.namesMap (some nm) = none) :
    db.getName nm = .ok [] := by
  simp [Db.getName, h, List.mapM_nil, pure, Except.pure]

/-! ## the invariant -/

/-- Representation invariant: names, property columns and rows have one common length, the
separately maintained name index is the canonical one, and the property keys are duplicate free
(otherwise `colSet` extends only the first of two equally named columns).  A database without rows
may carry property columns (of length 0): `set_prop` / `update_props` accept them, and since the fix
recorded in `known_findings.json` (C05/C16, "columns declared on an empty database") an addition
takes its expected columns from them, so the invariant is preserved without the former clause
"no rows ⇒ no columns" (see `add_respects_declared_columns`). -/
def _root_.E3fpVerif.Db.Inv (db : Db) : Prop :=
  match db.array with
  | some a =>
    db.fpNames.length = a.length ∧
    (∀ c ∈ db.props, c.2.length = a.length) ∧
    db.namesMap = updateNamesMap [] db.fpNames 0 ∧
    (db.props.map Prod.fst).Nodup
  | none => db.fpNames = [] ∧ db.namesMap = [] ∧ (∀ c ∈ db.props, c.2.length = 0) ∧ (db.props.map Prod.fst).Nodup

theorem inv_some {db : Db} {a : List Row} (h : db.array = some a) :
    db.Inv ↔ db.fpNames.length = a.length ∧ (∀ c ∈ db.props, c.2.length = a.length) ∧
      db.namesMap = updateNamesMap [] db.fpNames 0 ∧ (db.props.map Prod.fst).Nodup := by
  unfold Db.Inv; rw [h]

theorem inv_none {db : Db} (h : db.array = none) :
    db.Inv ↔ db.fpNames = [] ∧ db.namesMap = [] ∧ (∀ c ∈ db.props, c.2.length = 0) ∧
      (db.props.map Prod.fst).Nodup := by
  unfold Db.Inv; rw [h]

/-- the index part of the invariant holds in both cases -/
theorem _root_.E3fpVerif.Db.Inv.canonical {db : Db} (h : db.Inv) : db.namesMap = updateNamesMap [] db.fpNames 0 := by
  cases ha : db.array with
  | none =>
    obtain ⟨h1, h2, _⟩ := (inv_none ha).1 h
    rw [h1, h2]; rfl
  | some a => exact ((inv_some ha).1 h).2.2.1

/-- names and rows have the same number of entries -/
theorem _root_.E3fpVerif.Db.Inv.names_length {db : Db} (h : db.Inv) : db.fpNames.length = db.fpNum := by
  cases ha : db.array with
  | none => simp [Db.fpNum, ha, ((inv_none ha).1 h).1]
  | some a => simp [Db.fpNum, ha, ((inv_some ha).1 h).1]

/-- every property column has one cell per row -/
theorem _root_.E3fpVerif.Db.Inv.col_length {db : Db} (h : db.Inv) : ∀ c ∈ db.props, c.2.length = db.fpNum := by
  cases ha : db.array with
  | none => simpa [Db.fpNum, ha] using ((inv_none ha).1 h).2.2.1
  | some a => simpa [Db.fpNum, ha] using ((inv_some ha).1 h).2.1

theorem _root_.E3fpVerif.Db.Inv.keys_nodup {db : Db} (h : db.Inv) : (db.props.map Prod.fst).Nodup := by
  cases ha : db.array with
  | none => exact ((inv_none ha).1 h).2.2.2
  | some a => exact ((inv_some ha).1 h).2.2.2

/-- the invariant in one uniform statement (`fpNum` is 0 for a database without matrix) -/
theorem inv_iff (db : Db) :
    db.Inv ↔ db.fpNames.length = db.fpNum ∧ (∀ c ∈ db.props, c.2.length = db.fpNum) ∧
      db.namesMap = updateNamesMap [] db.fpNames 0 ∧ (db.props.map Prod.fst).Nodup := by
  constructor
  · intro h; exact ⟨h.names_length, h.col_length, h.canonical, h.keys_nodup⟩
  · rintro ⟨h1, h2, h3, h4⟩
    cases ha : db.array with
    | none =>
      have h0 : db.fpNames = [] := by simpa [Db.fpNum, ha] using h1
      rw [inv_none ha]
      refine ⟨h0, ?_, by simpa [Db.fpNum, ha] using h2, h4⟩
      rw [h3, h0]; rfl
    | some a =>
      rw [inv_some ha]
      exact ⟨by simpa [Db.fpNum, ha] using h1, by simpa [Db.fpNum, ha] using h2, h3, h4⟩

theorem inv_new (k : Kind) (l : Int) (n : Option String) : (Db.new k l n).Inv := by
  simp [Db.Inv, Db.new]

/-! ## the incrementally maintained index -/

/-- appending a batch at an offset to the canonical index equals rebuilding the index of all names
(`foldl_zipIdx_mapAppend` in `Lemmas/DbIndex.lean` is the general statement about `List.foldl`
over `zipIdx` with a start index and an offset) -/
theorem updateNamesMap_append (xs ys : List (Option String)) :
    updateNamesMap (updateNamesMap [] xs 0) ys xs.length = updateNamesMap [] (xs ++ ys) 0 :=
  E3fpVerif.updateNamesMap_append xs ys

/-! ## accepted additions -/

/-- an addition is accepted exactly when the batch is non-empty and passes the three checks -/
theorem add_ok_iff (db : Db) (fps : List FpIn) :
    (db.add fps).2 = none ↔
      fps ≠ [] ∧ db.badLevel fps = false ∧ db.badBits fps = false ∧ db.badProps fps = false := by
  unfold Db.add
  cases fps with
  | nil => simp
  | cons f r =>
    by_cases c1 : db.badLevel (f :: r) = true <;> by_cases c2 : db.badBits (f :: r) = true <;>
      by_cases c3 : db.badProps (f :: r) = true <;> simp [c1, c2, c3]

theorem add_ok_eq (db : Db) (fps : List FpIn) (h : (db.add fps).2 = none) :
    (db.add fps).1 = db.addOk fps := by
  obtain ⟨h0, h1, h2, h3⟩ := (add_ok_iff db fps).1 h
  have : fps.isEmpty = false := by cases fps <;> simp_all
  simp [Db.add, this, h1, h2, h3]

private theorem propsFold_nil (keys : List String) (g : String → List PVal) (n : Nat)
    (hg : ∀ k, (g k).length = n) :
    ((keys.foldl (fun acc k => colSet acc k (g k)) ([] : Cols)).map Prod.fst).Nodup ∧
      ∀ c ∈ keys.foldl (fun acc k => colSet acc k (g k)) ([] : Cols), c.2.length = n :=
  foldl_colSet_keys_forall (fun v => v.length = n) g keys (fun k _ => hg k) [] (by simp) (by simp)

/-- the property columns after an accepted addition, in both regimes: a database that has rows or
declared columns extends each of its columns, in order; a database with neither takes the columns of
the batch's first fingerprint -/
theorem addOk_props (db : Db) (fps : List FpIn) (h : db.Inv) :
    (db.addOk fps).props =
      if db.fpNum > 0 ∨ db.props ≠ [] then
        db.props.map (fun c => (c.1, c.2 ++ fps.map (fun f => (propLookup f.props c.1).getD (.int 0))))
      else
        ((fps.head?.map (fun f => f.props.map Prod.fst)).getD []).foldl
          (fun acc k => colSet acc k (fps.map (fun f => (propLookup f.props k).getD (.int 0)))) [] := by
  by_cases hc : db.fpNum > 0 ∨ db.props ≠ []
  · simp only [Db.addOk, Db.expectedProps, hc, if_true]
    rw [foldl_colSet_self _ db.props h.keys_nodup]
    apply List.map_congr_left
    intro c hc'
    simp [colLookup_of_mem db.props c.1 c.2 h.keys_nodup hc']
  · have hp : db.props = [] := by
      cases hpp : db.props with
      | nil => rfl
      | cons c r => exact absurd (Or.inr (by simp [hpp])) hc
    have hc' : ¬ (db.fpNum > 0 ∨ ([] : Cols) ≠ []) := by rw [hp] at hc; exact hc
    simp only [Db.addOk, Db.expectedProps, hp, colLookup, Option.getD_none, List.nil_append]
    rw [if_neg hc', if_neg hc']

/-- the state after an accepted addition satisfies the invariant (no hypothesis on the batch is
needed: the new cells are padded with a default, so the columns grow by `fps.length` anyway) -/
theorem inv_addOk (db : Db) (fps : List FpIn) (h : db.Inv) : (db.addOk fps).Inv := by
  have hn := h.names_length
  have hcl := h.col_length
  have hnum : (db.addOk fps).fpNum = db.fpNum + fps.length := by
    cases ha : db.array <;> simp [Db.addOk, Db.fpNum, ha]
  rw [inv_iff]
  refine ⟨?_, ?_, ?_, ?_⟩
  · rw [hnum]; simp [Db.addOk, hn]
  · rw [hnum, addOk_props db fps h]
    by_cases hc : db.fpNum > 0 ∨ db.props ≠ []
    · rw [if_pos hc]
      intro c hc'
      obtain ⟨c0, hc0, rfl⟩ := List.mem_map.1 hc'
      simp [hcl c0 hc0]
    · have h0 : db.fpNum = 0 := by
        have : ¬ db.fpNum > 0 := fun hh => hc (Or.inl hh)
        omega
      rw [if_neg hc, h0, Nat.zero_add]
      exact (propsFold_nil _ (fun k => fps.map (fun f => (propLookup f.props k).getD (.int 0)))
        fps.length (by simp)).2
  · have : (db.addOk fps).namesMap = updateNamesMap db.namesMap (fps.map (·.name)) db.fpNum := rfl
    rw [this, h.canonical, ← hn]
    exact E3fpVerif.updateNamesMap_append db.fpNames _
  · rw [addOk_props db fps h]
    by_cases hc : db.fpNum > 0 ∨ db.props ≠ []
    · rw [if_pos hc]
      simpa [List.map_map, Function.comp_def] using h.keys_nodup
    · rw [if_neg hc]
      exact (propsFold_nil _ (fun k => fps.map (fun f => (propLookup f.props k).getD (.int 0)))
        fps.length (by simp)).1

/-- **an accepted addition preserves the invariant** -/
theorem inv_add (db : Db) (fps : List FpIn) (h : db.Inv) (hok : (db.add fps).2 = none) :
    (db.add fps).1.Inv := by
  rw [add_ok_eq db fps hok]; exact inv_addOk db fps h

/-- whatever `add` answers, the database it leaves behind satisfies the invariant -/
theorem inv_add_always (db : Db) (fps : List FpIn) (h : db.Inv) : (db.add fps).1.Inv := by
  cases hok : (db.add fps).2 with
  | none => exact inv_add db fps h hok
  | some e =>
    have : (db.add fps).1 = db := by
      unfold Db.add at hok ⊢
      by_cases c0 : fps.isEmpty = true
      · simp [c0]
      · by_cases c1 : db.badLevel fps = true
        · simp [c0, c1]
        · by_cases c2 : db.badBits fps = true
          · simp [c0, c1, c2]
          · by_cases c3 : db.badProps fps = true
            · simp [c0, c1, c2, c3]
            · simp [c0, c1, c2, c3] at hok
    rw [this]; exact h

/-- rows and names are appended in order -/
theorem abs_add_rows (db : Db) (fps : List FpIn) (hok : (db.add fps).2 = none) :
    (db.add fps).1.array = some (db.array.getD [] ++ fps.map (fun f => fpRow db.fpType f.fp)) ∧
    (db.add fps).1.fpNames = db.fpNames ++ fps.map (·.name) ∧
    (db.add fps).1.fpNum = db.fpNum + fps.length ∧
    (db.add fps).1.fpType = db.fpType ∧ (db.add fps).1.level = db.level ∧ (db.add fps).1.name = db.name := by
  rw [add_ok_eq db fps hok]
  refine ⟨rfl, rfl, ?_, rfl, rfl, rfl⟩
  cases ha : db.array <;> simp [Db.addOk, Db.fpNum, ha]

/-- an old row keeps its position and content, a new row `j` sits at `db.fpNum + j` -/
theorem abs_add_row_at (db : Db) (fps : List FpIn) (hok : (db.add fps).2 = none) (a : List Row)
    (ha : db.array = some a) :
    (∀ i, i < a.length → ((db.add fps).1.array.getD [])[i]? = a[i]?) ∧
    (∀ j, j < fps.length →
      ((db.add fps).1.array.getD [])[a.length + j]? = (fps[j]?).map (fun f => fpRow db.fpType f.fp)) := by
  rw [(abs_add_rows db fps hok).1, ha]
  constructor
  · intro i hi; simp [List.getElem?_append_left hi]
  · intro j _; simp [List.getElem?_append_right]

/-- the property columns after an accepted addition to a database that has rows: every column is
extended, in order, by the batch's values -/
theorem abs_add_props (db : Db) (fps : List FpIn) (h : db.Inv) (hok : (db.add fps).2 = none)
    (hpos : db.fpNum > 0) :
    (db.add fps).1.props =
      db.props.map (fun c => (c.1, c.2 ++ fps.map (fun f => (propLookup f.props c.1).getD (.int 0)))) := by
  rw [add_ok_eq db fps hok, addOk_props db fps h]
  simp [hpos]

/-- the same for a database without rows on which columns were declared (`set_prop` / `update_props`
with empty arrays): the declared columns are the expected ones and each receives the batch's values -/
theorem abs_add_props_declared (db : Db) (fps : List FpIn) (h : db.Inv) (hok : (db.add fps).2 = none)
    (hdecl : db.props ≠ []) :
    (db.add fps).1.props =
      db.props.map (fun c => (c.1, c.2 ++ fps.map (fun f => (propLookup f.props c.1).getD (.int 0)))) := by
  rw [add_ok_eq db fps hok, addOk_props db fps h]
  simp [hdecl]

/-- **faithfulness towards the rows already stored**: an accepted addition changes nothing that
`db[i]` returns for an old row `i` — content, name and property values -/
theorem add_preserves_old_rows (db : Db) (fps : List FpIn) (h : db.Inv) (hok : (db.add fps).2 = none)
    (i : Nat) (hi : i < db.fpNum) : (db.add fps).1.fprintAt i = db.fprintAt i := by
  have hpos : db.fpNum > 0 := by omega
  have hp := abs_add_props db fps h hok hpos
  obtain ⟨ha', hn', _, ht', hl', _⟩ := abs_add_rows db fps hok
  have hb' : (db.add fps).1.bits = db.bits := by
    rw [add_ok_eq db fps hok]; simp [Db.addOk, Db.expectedBits, hpos]
  cases ha : db.array with
  | none => simp [Db.fpNum, ha] at hi
  | some a =>
    obtain ⟨h1, h2, _, _⟩ := (inv_some ha).1 h
    have hia : i < a.length := by simpa [Db.fpNum, ha] using hi
    unfold Db.fprintAt
    rw [ha', ha, ht', hl', hb', hn', hp]
    simp only [Option.getD_some, List.getElem?_append_left hia]
    have hnm : (db.fpNames ++ fps.map (·.name))[i]? = db.fpNames[i]? :=
      List.getElem?_append_left (by omega)
    rw [hnm, List.filterMap_map]
    have hpr : db.props.filterMap ((fun p : String × List PVal => (p.2[i]?).map (fun v => (p.1, v))) ∘
          (fun c => (c.1, c.2 ++ fps.map (fun f => (propLookup f.props c.1).getD (.int 0))))) =
        db.props.filterMap (fun p => (p.2[i]?).map (fun v => (p.1, v))) := by
      apply filterMap_congr_mem
      intro c hc
      have : i < c.2.length := by rw [h2 c hc]; exact hia
      simp [List.getElem?_append_left this]
    rw [hpr]

/-- the name of the new row `j` is the name of the `j`-th fingerprint of the batch -/
theorem abs_add_name_at (db : Db) (fps : List FpIn) (h : db.Inv) (hok : (db.add fps).2 = none) (j : Nat) :
    (db.add fps).1.fpNames[db.fpNum + j]? = (fps[j]?).map (·.name) := by
  rw [(abs_add_rows db fps hok).2.1, ← h.names_length]
  simp [List.getElem?_append_right]

/-! ## the name index lists every row carrying a name, in insertion order -/

/-- lookup in the canonical index: a hit is the ascending list of the positions carrying the name,
a miss happens exactly for an absent name -/
theorem mapLookup_updateNamesMap (names : List (Option String)) (nm : Option String) :
    (∀ l, mapLookup (updateNamesMap [] names 0) nm = some l → l = positions names nm) ∧
    (mapLookup (updateNamesMap [] names 0) nm = none ↔ nm ∉ names) ∧
    (∀ i, i ∈ positions names nm ↔ names[i]? = some nm) ∧
    StrictAsc (positions names nm) := by
  refine ⟨?_, ?_, mem_positions names nm, positions_strictAsc names nm⟩
  · intro l hl
    rw [mapLookup_canonical] at hl
    by_cases h : nm ∈ names
    · simp [h] at hl; exact hl.symm
    · simp [h] at hl
  · rw [mapLookup_canonical]
    by_cases h : nm ∈ names <;> simp [h]

/-- a present name is found, with all its positions -/
theorem mapLookup_updateNamesMap_mem (names : List (Option String)) (nm : Option String) (h : nm ∈ names) :
    mapLookup (updateNamesMap [] names 0) nm = some (positions names nm) := by
  rw [mapLookup_canonical]; simp [h]

/-- **`db[name]` returns the fingerprints of exactly the rows carrying the name, in row order** -/
theorem getName_rows (db : Db) (nm : String) (h : db.Inv) :
    db.getName nm = (positions db.fpNames (some nm)).mapM db.fprintAt := by
  unfold Db.getName
  rw [h.canonical, mapLookup_canonical_getD]

/-! ## positional access -/

/-- Python's negative indexing: `db[i - n] == db[i]` for `0 ≤ i < n` -/
theorem getIndex_neg (db : Db) (i : Int) (h0 : 0 ≤ i) (h1 : i < db.fpNum) :
    db.getIndex (i - db.fpNum) = db.getIndex i := by
  unfold Db.getIndex
  have e1 : ¬ (i - (db.fpNum : Int) ≥ db.fpNum ∨ i - (db.fpNum : Int) < -(db.fpNum : Int)) := by omega
  have e2 : ¬ (i ≥ (db.fpNum : Int) ∨ i < -(db.fpNum : Int)) := by omega
  have e3 : i - (db.fpNum : Int) < 0 := by omega
  have e4 : ¬ i < 0 := by omega
  simp only [e1, e2, e3, e4, if_true, if_false]
  congr 1
  omega

/-- in range, `db[i]` is the row `i` (or `n + i` for a negative `i`) -/
theorem getIndex_in_range (db : Db) (i : Int) (h0 : -(db.fpNum : Int) ≤ i) (h1 : i < db.fpNum) :
    db.getIndex i = db.fprintAt (i % (db.fpNum : Int)).toNat := by
  unfold Db.getIndex
  have e2 : ¬ (i ≥ (db.fpNum : Int) ∨ i < -(db.fpNum : Int)) := by omega
  simp only [e2, if_false]
  congr 1
  by_cases hi : i < 0
  · simp only [hi, if_true]
    have : i % (db.fpNum : Int) = i + db.fpNum := by
      rw [← Int.add_emod_right, Int.emod_eq_of_lt (by omega) (by omega)]
    rw [this]
  · simp only [hi, if_false]
    rw [Int.emod_eq_of_lt (by omega) h1]

/-- out of range is an `IndexError` -/
theorem getIndex_out_of_range (db : Db) (i : Int) (h : i ≥ db.fpNum ∨ i < -(db.fpNum : Int)) :
    db.getIndex i = .error .index := by
  unfold Db.getIndex
  simp only [h, if_true]

/-! ## derived databases satisfy the invariant -/

/-- `from_array` establishes the canonical index by construction; with as many names as rows the
result satisfies the invariant -/
theorem fromArray_inv (rows : List Row) (bits : Nat) (names : List (Option String)) (k : Kind) (level : Int)
    (name : Option String) (props : Cols) (hl : names.length = rows.length)
    (h : (Db.fromArray rows bits names k level name props).2 = none) :
    (Db.fromArray rows bits names k level name props).1.Inv := by
  have hc := (fromArray_ok_iff rows bits names k level name props).1 h
  rw [fromArray_ok rows bits names k level name props hc]
  have hp := foldl_colSet_pairs_forall (fun v => v.length = names.length) props hc [] (by simp) (by simp)
  rw [inv_some (a := rows.map (fun r => r.map (fun p => (p.1, castVal k p.2)))) rfl]
  refine ⟨by simpa using hl, ?_, rfl, hp.1⟩
  intro c hc'; rw [List.length_map, ← hl]; exact hp.2 c hc'

theorem fromArray_inv' {rows : List Row} {bits : Nat} {names : List (Option String)} {k : Kind} {level : Int}
    {name : Option String} {props : Cols} {d : Db}
    (h : Db.fromArray rows bits names k level name props = (d, none))
    (hl : names.length = rows.length) : d.Inv := by
  have := fromArray_inv rows bits names k level name props hl (by rw [h])
  rw [h] at this; exact this

/-- `get_subset` builds a database satisfying the invariant (whatever the source) -/
theorem subset_inv (db : Db) (names : List String) (newName : Option String) (d : Db)
    (h : db.subset names newName = .ok d) : d.Inv := by
  unfold Db.subset at h
  split at h
  · cases h
  · simp only at h
    split at h
    · cases h
    · split at h
      · rename_i d' heq
        cases h
        exact fromArray_inv' heq (by simp)
      · cases h

/-- `as_type` (and `copy`) builds a database satisfying the invariant -/
theorem asType_inv (db : Db) (k : Kind) (d : Db) (hi : db.Inv) (h : db.asType k = .ok d) : d.Inv := by
  unfold Db.asType at h
  split at h
  · cases h
  · rename_i a ha
    obtain ⟨h1, _, _, _⟩ := (inv_some ha).1 hi
    split at h
    · rename_i d' heq
      cases h
      exact fromArray_inv' heq h1
    · cases h

/-- `fold` builds a database satisfying the invariant -/
theorem fold_inv (db : Db) (bits : Nat) (k : Option Kind) (newName : Option String) (d : Db)
    (hi : db.Inv) (h : db.fold bits k newName = .ok d) : d.Inv := by
  unfold Db.fold at h
  split at h
  · cases h
  · rename_i a ha
    obtain ⟨h1, _, _, _⟩ := (inv_some ha).1 hi
    split at h
    · cases h
    · split at h
      · cases h
      · simp only at h
        split at h
        · rename_i d' heq
          cases h
          exact fromArray_inv' heq (by simpa using h1)
        · cases h

/-! ## property updates preserve the invariant (also on a database without rows) -/

theorem setProp_inv (db : Db) (k : String) (v : List PVal) (h : db.Inv) : (db.setProp k v).1.Inv := by
  unfold Db.setProp
  by_cases hl : v.length ≠ db.fpNames.length
  · simpa [hl] using h
  · have hl' : v.length = db.fpNum := by rw [← h.names_length]; exact Decidable.not_not.1 hl
    simp only [hl, if_false]
    rw [inv_iff]
    refine ⟨h.names_length, ?_, h.canonical, colSet_nodup db.props k v h.keys_nodup⟩
    exact colSet_forall (fun w => w.length = db.fpNum) db.props k v h.col_length hl'

theorem updateProps_inv (db : Db) (ps : Cols) (h : db.Inv) : (db.updateProps ps).1.Inv := by
  unfold Db.updateProps
  by_cases hb : db.badCols ps = true
  · simpa [hb] using h
  · simp only [hb]
    have hall : ∀ c ∈ ps, c.2.length = db.fpNames.length := by
      intro c hc
      have : db.badCols ps = false := by simpa using hb
      simp only [Db.badCols, List.any_eq_false] at this
      simpa using this c hc
    clear hb
    induction ps generalizing db with
    | nil => simpa using h
    | cons c rest ih =>
      simp only [List.foldl_cons]
      have hc : c.2.length = db.fpNames.length := hall c (by simp)
      have h' : ({ db with props := colSet db.props c.1 c.2 } : Db).Inv := by
        have := setProp_inv db c.1 c.2 h
        simpa [Db.setProp, hc] using this
      exact ih _ h' (fun c' hc' => hall c' (by simp [hc']))

/-! ## non-vacuity -/

section Examples

private def f1 : Fp := ⟨.bit, 8, 0, [1, 2], []⟩
private def f2 : Fp := ⟨.bit, 8, 0, [3], []⟩
private def db0 : Db := Db.new .bit 0 none
private def db1 : Db := db0.addOk [⟨f1, some "a", [("w", .int 1)]⟩, ⟨f2, some "b", [("w", .int 2)]⟩]
private def batch : List FpIn := [⟨f2, some "a", [("w", .int 3)]⟩]

/-- `inv_add`, `abs_add_rows`, `abs_add_props`: the hypotheses are satisfiable, and the accepted
addition of a second fingerprint named "a" appends its row -/
example : db1.Inv ∧ (db1.add batch).2 = none ∧ db1.fpNum > 0 ∧ (db1.add batch).1.Inv ∧
    (db1.add batch).1.fpNames = [some "a", some "b", some "a"] ∧
    (db1.add batch).1.props = [("w", [.int 1, .int 2, .int 3])] := by
  have h1 : db1.Inv := inv_addOk db0 _ (inv_new _ _ _)
  have h2 : (db1.add batch).2 = none := by decide
  exact ⟨h1, h2, by decide, inv_add db1 batch h1 h2, by decide, by decide⟩

/-- `mapLookup_updateNamesMap`, `getName_rows`: a repeated name yields both rows, in order -/
example : mapLookup (db1.add batch).1.namesMap (some "a") = some [0, 2] ∧
    positions (db1.add batch).1.fpNames (some "a") = [0, 2] ∧
    mapLookup (db1.add batch).1.namesMap (some "z") = none := by decide

private def errOf {α : Type} : Except Err α → Option Err
  | .error e => some e
  | .ok _ => none

/-- `getName_rows`, `add_preserves_old_rows`: `db["a"]` returns the two fingerprints named "a", in
row order, with their property values; row 0 reads the same before and after the addition -/
example : ((db1.add batch).1.getName "a").toOption.map (·.map (fun f => (f.fp.idx, f.name, f.props))) =
      some [([1, 2], some "a", [("w", .int 1)]), ([3], some "a", [("w", .int 3)])] ∧
    ((db1.add batch).1.fprintAt 0).toOption = (db1.fprintAt 0).toOption := by decide

/-- `getIndex_neg`, `getIndex_out_of_range`: `db[-1]` is the last row, `db[2]` and `db[-3]` raise -/
example : db1.fpNum = 2 ∧ db1.getIndex (1 - (db1.fpNum : Int)) = db1.getIndex 1 ∧
    (db1.getIndex (-1)).toOption = (db1.getIndex 1).toOption ∧
    errOf (db1.getIndex 2) = some .index ∧ errOf (db1.getIndex (-3)) = some .index ∧
    (db1.getIndex 1).toOption.map (·.name) = some (some "b") :=
  ⟨by decide, getIndex_neg db1 1 (by decide) (by decide), by decide, by decide, by decide, by decide⟩

/-- `subset_inv`, `asType_inv`: the operations succeed on the sample database -/
example : (db1.subset ["b"] none).toOption.isSome ∧ (db1.asType .count).toOption.isSome := by decide

/-- `fold_inv`: folding the sample database from 8 to 4 bits succeeds -/
example : ∃ d, db1.fold 4 none none = .ok d := by
  have hp : isPow2Multiple 8 4 = true := by
    unfold isPow2Multiple; simp; unfold isPow2Multiple; simp
  have hb : db1.bits = 8 := by decide
  obtain ⟨a, ha⟩ : ∃ a, db1.array = some a := ⟨_, rfl⟩
  have hl : ∀ c ∈ db1.props, c.2.length = db1.fpNames.length := by decide
  unfold Db.fold
  rw [ha]
  simp only [hb, hp]
  rw [fromArray_ok _ _ _ _ _ _ _ hl]
  exact ⟨_, rfl⟩

/-- Columns declared on a database that has no rows yet are respected by the first addition (the
repaired behaviour; before the repair an empty database took its expected columns from the batch, the
batch below was accepted and column `"k"` stayed at length 0 beside one row): a batch that does not
provide `"k"` is refused and the database is unchanged; a batch that provides it is accepted and the
column is aligned. -/
theorem add_respects_declared_columns :
    let db : Db := ((Db.new .bit 0 none).setProp "k" []).1
    db.Inv ∧ db.props = [("k", [])] ∧
    db.add [⟨f1, some "a", []⟩] = (db, some .key) ∧
    (db.add [⟨f1, some "a", [("k", .int 7)]⟩]).2 = none ∧
    (db.add [⟨f1, some "a", [("k", .int 7)]⟩]).1.props = [("k", [.int 7])] ∧
    (db.add [⟨f1, some "a", [("k", .int 7)]⟩]).1.fpNum = 1 := by
  refine ⟨setProp_inv _ _ _ (inv_new _ _ _), by decide, by decide, by decide, by decide, by decide⟩

end Examples

end E3fpVerif.Props.C05
