import E3fpVerif.Model.Db
namespace E3fpVerif.Props.C05
open E3fpVerif

/-- lookup by name is a pure read: it returns no new state (by construction) and an absent name gives `[]` -/
theorem getName_absent (db : Db) (nm : String) (h : mapLookup db.namesMap (some nm) = none) :
    db.getName nm = .ok [] := by
  simp [Db.getName, h, List.mapM_nil, pure, Except.pure]

end E3fpVerif.Props.C05
