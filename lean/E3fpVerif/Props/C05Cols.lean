import E3fpVerif.Props.C16
/-!
# C05 (columns) — a concatenation aligns property columns by *name*, whatever order they were declared in

`concat` builds the column of key `k` from each operand's column *named* `k` (`C16.concatCol`).  Here:
the order in which an operand holds its columns is immaterial - replacing an operand by one whose columns
are a permutation of its own leaves the concatenation's rows, names, name index and every column
unchanged (only the order of the keys in the result's own dict may move).  This is the clause a change
that pairs the columns up *by position* breaks (seeded change C05-concat-props-by-position).
-/
namespace E3fpVerif.Props.C05Cols
open E3fpVerif E3fpVerif.Props.C16

/-- a lookup finds exactly the stored pairs when the keys are distinct -/
theorem colLookup_eq_some_iff (ps : Cols) (hn : (ps.map Prod.fst).Nodup) (k : String) (v : List PVal) :
    colLookup ps k = some v ↔ (k, v) ∈ ps := by
  induction ps with
  | nil => simp [colLookup]
  | cons c rest ih =>
    obtain ⟨a, w⟩ := c
    simp only [List.map_cons, List.nodup_cons] at hn
    by_cases e : a = k
    · subst e
      simp only [colLookup, if_pos, Option.some.injEq, List.mem_cons, Prod.mk.injEq, true_and]
      constructor
      · intro h; exact Or.inl h.symm
      · rintro (h | h)
        · exact h.symm
        · exact absurd (List.mem_map.2 ⟨(a, v), h, rfl⟩) hn.1
    · simp only [colLookup, if_neg e, List.mem_cons, Prod.mk.injEq]
      rw [ih hn.2]
      constructor
      · intro h; exact Or.inr h
      · rintro (h | h)
        · exact absurd h.1.symm e
        · exact h

/-- **a lookup does not see the order of the columns** -/
theorem colLookup_perm (ps qs : Cols) (hp : qs.Perm ps) (hn : (ps.map Prod.fst).Nodup) (k : String) :
    colLookup qs k = colLookup ps k := by
  have hnq : (qs.map Prod.fst).Nodup := (hp.map Prod.fst).nodup_iff.2 hn
  cases h : colLookup ps k with
  | some v =>
    exact (colLookup_eq_some_iff qs hnq k v).2 (hp.mem_iff.2 ((colLookup_eq_some_iff ps hn k v).1 h))
  | none =>
    cases h' : colLookup qs k with
    | none => rfl
    | some v =>
      have := (colLookup_eq_some_iff ps hn k v).2 (hp.mem_iff.1 ((colLookup_eq_some_iff qs hnq k v).1 h'))
      rw [h] at this; cases this

/-- the operand `d` with its columns held in another order -/
def reordered (d : Db) (ps' : Cols) : Db := { d with props := ps' }

/-- the column built for `k` is the same -/
theorem concatCol_order_free (pre post : List Db) (d : Db) (ps' : Cols) (hp : ps'.Perm d.props)
    (hn : (d.props.map Prod.fst).Nodup) (k : String) :
    concatCol (pre ++ reordered d ps' :: post) k = concatCol (pre ++ d :: post) k := by
  simp only [concatCol, List.flatMap_append, List.flatMap_cons, reordered, colLookup_perm d.props ps' hp hn k]

/-- the rows are the same -/
theorem concatRows_order_free (pre post : List Db) (d : Db) (ps' : Cols) :
    concatRows (pre ++ reordered d ps' :: post) = concatRows (pre ++ d :: post) := by
  simp only [concatRows, List.flatMap_append, List.flatMap_cons, reordered]

/-- the set of keys is the same -/
theorem mem_concatKeys_order_free (pre post : List Db) (d : Db) (ps' : Cols) (hp : ps'.Perm d.props) (k : String) :
    k ∈ concatKeys (pre ++ reordered d ps' :: post) ↔ k ∈ concatKeys (pre ++ d :: post) := by
  simp only [mem_concatKeys, List.mem_append, List.mem_cons]
  have hk : k ∈ ps'.map Prod.fst ↔ k ∈ d.props.map Prod.fst := (hp.map Prod.fst).mem_iff
  constructor
  · rintro ⟨x, (hx | rfl | hx), hkx⟩
    · exact ⟨x, Or.inl hx, hkx⟩
    · exact ⟨d, Or.inr (Or.inl rfl), hk.1 hkx⟩
    · exact ⟨x, Or.inr (Or.inr hx), hkx⟩
  · rintro ⟨x, (hx | rfl | hx), hkx⟩
    · exact ⟨x, Or.inl hx, hkx⟩
    · exact ⟨reordered x ps', Or.inr (Or.inl rfl), hk.2 hkx⟩
    · exact ⟨x, Or.inr (Or.inr hx), hkx⟩

/-- looking a key up in the columns a concatenation returns -/
theorem colLookup_result (dbs : List Db) (k : String) :
    colLookup ((concatKeys dbs).map (fun k => (k, concatCol dbs k))) k =
      if k ∈ concatKeys dbs then some (concatCol dbs k) else none := by
  generalize concatKeys dbs = ks
  induction ks with
  | nil => simp [colLookup]
  | cons a rest ih =>
    by_cases e : a = k
    · subst e; simp [colLookup]
    · have : ¬ k = a := fun h => e h.symm
      simp only [List.map_cons, colLookup, if_neg e, ih, List.mem_cons, this, false_or]

/-- **the concatenation does not depend on the order in which an operand holds its columns**: if both
concatenations are accepted, they have the same rows, names and name index, and every key looks up the
same column -/
theorem concat_order_free (pre post : List Db) (d : Db) (ps' : Cols) (hp : ps'.Perm d.props)
    (hn : (d.props.map Prod.fst).Nodup) (r r' : Db)
    (h : Db.concat (pre ++ d :: post) = .ok r) (h' : Db.concat (pre ++ reordered d ps' :: post) = .ok r') :
    r'.array = r.array ∧ r'.fpNames = r.fpNames ∧ r'.namesMap = r.namesMap ∧
      ∀ k, colLookup r'.props k = colLookup r.props k := by
  obtain ⟨d0, rest, e⟩ : ∃ d0 rest, pre ++ d :: post = d0 :: rest := by
    cases pre with
    | nil => exact ⟨d, post, rfl⟩
    | cons a t => exact ⟨a, t ++ d :: post, rfl⟩
  obtain ⟨d0', rest', e'⟩ : ∃ d0 rest, pre ++ reordered d ps' :: post = d0 :: rest := by
    cases pre with
    | nil => exact ⟨_, post, rfl⟩
    | cons a t => exact ⟨a, t ++ reordered d ps' :: post, rfl⟩
  rw [e] at h; rw [e'] at h'
  obtain ⟨a1, a2, a3, a4, _⟩ := concat_ok_rows d0 rest r h
  obtain ⟨b1, b2, b3, b4, _⟩ := concat_ok_rows d0' rest' r' h'
  have names : (d0' :: rest').flatMap (·.fpNames) = (d0 :: rest).flatMap (·.fpNames) := by
    rw [← e, ← e']; simp only [List.flatMap_append, List.flatMap_cons, reordered]
  refine ⟨?_, ?_, ?_, fun k => ?_⟩
  · rw [a1, b1, ← e, ← e', concatRows_order_free]
  · rw [a2, b2, names]
  · rw [a3, b3, a2, b2, names]
  · rw [a4, b4, colLookup_result, colLookup_result, ← e, ← e', concatCol_order_free pre post d ps' hp hn k]
    simp only [mem_concatKeys_order_free pre post d ps' hp k]

/-- two one-row databases holding the columns `mw`, `logp` in opposite orders -/
def exD1 : Db := { fpType := .bit, level := 0, name := none, array := some [[(1, 1)]], bits := 8, fpNames := [some "a"],
                   namesMap := [(some "a", [0])], props := [("mw", [PVal.int 100]), ("logp", [PVal.int 1])] }
def exD2 : Db := { exD1 with fpNames := [some "b"], namesMap := [(some "b", [0])],
                             props := [("logp", [PVal.int 2]), ("mw", [PVal.int 200])] }

/-- non-vacuity: they concatenate, and the result's columns are the by-name ones (kernel-evaluated) -/
example : (match Db.concat [exD1, exD2] with
      | .ok r => some (colLookup r.props "mw", colLookup r.props "logp")
      | .error _ => none)
    = some (some [PVal.int 100, PVal.int 200], some [PVal.int 1, PVal.int 2]) := by
  decide +kernel

/-- and `exD2` is `exD1`'s sibling with the columns reordered: the hypotheses of `concat_order_free` are met -/
example : (reordered exD2 [("mw", [PVal.int 200]), ("logp", [PVal.int 2])]).props.Perm exD2.props ∧
    (exD2.props.map Prod.fst).Nodup := by
  refine ⟨List.Perm.swap _ _ _, by decide⟩

end E3fpVerif.Props.C05Cols
