import E3fpVerif.Model.Pipeline
import E3fpVerif.Lemmas.Digits
namespace E3fpVerif.Props.C14
open E3fpVerif

/-- the loop processes all conformers for `first = -1` or `first ≥ n`, else exactly `first` -/
theorem firstN_all (n : Nat) : firstN (-1) n = n := by simp [firstN]

theorem firstN_ge (first : Int) (n : Nat) (h : (n : Int) ≤ first) : firstN first n = n := by
  unfold firstN
  have : ¬ first < 0 := by omega
  simp only [this, ↓reduceIte]
  omega

theorem firstN_lt (first : Int) (n : Nat) (h0 : 0 ≤ first) (h : first < n) : (firstN first n : Int) = first := by
  unfold firstN
  have : ¬ first < 0 := by omega
  simp only [this, ↓reduceIte]
  omega

/-- a suffix-free name is extended by `_<index>` -/
theorem confName_nosuffix (name : List Char) (h : NoSuffix name) (j : Nat) :
    confName name j = name ++ ['_'] ++ natDigits j := by
  unfold confName
  rw [h]

/-- names with a numeric suffix are re-parsed: the exclusion in the property is necessary -/
example : confName ['a', 'b', 'c', '_', '7'] 0 = ['a', 'b', 'c', '_', '0'] := by decide

/-! ## conformer names are unique within a molecule -/

/-- reading a printed index gives the index back -/
theorem digitsNat_natDigits (n : Nat) : digitsNat? (natDigits n) = some n := E3fpVerif.digitsNat_natDigits n

/-- distinct indices print differently -/
theorem natDigits_injective (a b : Nat) (h : natDigits a = natDigits b) : a = b :=
  E3fpVerif.natDigits_injective a b h

/-- distinct conformer indices give distinct conformer names (for every molecule name: the
re-parsed prefix does not depend on the index) -/
theorem confName_injective_all (name : List Char) (i j : Nat) (h : confName name i = confName name j) : i = j := by
  unfold confName at h
  simp only at h
  exact natDigits_injective i j (List.append_cancel_left h)

/-- for a suffix-free name, `name_i = name_j` only when `i = j` -/
theorem confName_injective (name : List Char) (_h : NoSuffix name) (i j : Nat)
    (he : confName name i = confName name j) : i = j :=
  confName_injective_all name i j he

/-- the names given to the conformers `0 .. k-1` of a molecule are pairwise distinct -/
theorem confNames_nodup (name : List Char) (k : Nat) : ((List.range k).map (confName name)).Nodup := by
  unfold List.Nodup
  rw [List.pairwise_map]
  refine (List.nodup_range (n := k)).imp ?_
  intro i j hij h
  exact hij (confName_injective_all name i j h)

example : NoSuffix ['a', 'b', 'c'] ∧ confName ['a', 'b', 'c'] 12 = ['a', 'b', 'c', '_', '1', '2'] := by decide

/-- the conformer index is recovered from the name -/
theorem confName_parse_index (name : List Char) (h : NoSuffix name) (j : Nat) :
    digitsNat? ((confName name j).drop (name.length + 1)) = some j := by
  rw [confName_nosuffix name h j]
  simp [E3fpVerif.digitsNat_natDigits]

/-! ## level keys and level selection -/

theorem levelKeys_unbounded (b : Bool) : levelKeys (-1) b = [-1] := by simp [levelKeys]

theorem levelKeys_single (l : Int) : levelKeys l false = [l] := by simp [levelKeys]

theorem levelKeys_all (l : Int) (h : 0 ≤ l) :
    levelKeys l true = (List.range (l.toNat + 1)).map (fun (i : Nat) => Int.ofNat i) := by
  have : ¬ l = -1 := by omega
  simp [levelKeys, this]

/-- with all iterations kept, the keys are exactly the levels `0 ≤ k ≤ l` -/
theorem mem_levelKeys_all (l : Int) (h : 0 ≤ l) (k : Int) : k ∈ levelKeys l true ↔ 0 ≤ k ∧ k ≤ l := by
  rw [levelKeys_all l h]
  simp only [List.mem_map, List.mem_range]
  constructor
  · rintro ⟨i, hi, rfl⟩
    simp only [Int.ofNat_eq_natCast]
    omega
  · rintro ⟨h0, hl⟩
    exact ⟨k.toNat, by omega, by simp only [Int.ofNat_eq_natCast]; omega⟩

example : levelKeys 3 true = [0, 1, 2, 3] := by decide

theorem level_mem_levelKeys (l : Int) (a : Bool) (h : -1 ≤ l) : l ∈ levelKeys l a := by
  by_cases h1 : l = -1
  · subst h1; simp [levelKeys]
  · cases a with
    | false => simp [levelKeys]
    | true => exact (mem_levelKeys_all l (by omega) l).mpr ⟨by omega, Int.le_refl l⟩

/-- the requested level is the one selected (any legal level `l ≥ -1`) -/
theorem selectLevel_requested (l : Int) (a : Bool) (h : -1 ≤ l) : selectLevel (levelKeys l a) (some l) = some l := by
  unfold selectLevel
  simp only
  rw [if_pos]
  simpa using level_mem_levelKeys l a h

example : selectLevel (levelKeys 5 true) (some 5) = some 5 := by decide

/-- the bound `-1 ≤ l` is needed: an (illegal) level below `-1` with all iterations gives the key
set `[0]`, from which the fallback `max(keys)` is taken -/
example : selectLevel (levelKeys (-2) true) (some (-2)) = some 0 := by decide

end E3fpVerif.Props.C14
