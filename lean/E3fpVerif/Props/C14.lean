import E3fpVerif.Model.Pipeline
namespace E3fpVerif.Props.C14
open E3fpVerif

/-- the loop processes all conformers for `first = -1` or `first ≥ n`, else exactly `first` -/
theorem firstN_all (n : Nat) : firstN (-1) n = n := by simp [firstN]

theorem firstN_ge (first : Int) (n : Nat) (h : (n : Int) ≤ first) : firstN first n = n := by
  unfold firstN
  have : ¬ first < 0 := by omega
  simp only [this, ↓reduceIte]
  omega

theorem firstN_lt (first : Int) (n : Nat) (h0 : 0 ≤ first) (h : first < n) : (firstN first n : Int) = first := by
  unfold firstN
  have : ¬ first < 0 := by omega
  simp only [this, ↓reduceIte]
  omega

/-- a suffix-free name is extended by `_<index>` -/
theorem confName_nosuffix (name : List Char) (h : NoSuffix name) (j : Nat) :
    confName name j = name ++ ['_'] ++ natDigits j := by
  unfold confName
  rw [h]

/-- names with a numeric suffix are re-parsed: the exclusion in the property is necessary -/
example : confName ['a', 'b', 'c', '_', '7'] 0 = ['a', 'b', 'c', '_', '0'] := by decide

end E3fpVerif.Props.C14
