import E3fpVerif.Codec
import E3fpVerif.Model.SdfIO
namespace E3fpVerif
open Lean

def sdfOp (op : String) (j : Json) : Except String Json := do
  match op with
  | "sdf.roundtrip" =>
    let n ← jNat (← jField j "nconf")
    let es ← jOpt (jList jRat) (jFieldD j "energies")
    let wlim ← jOpt jInt (jFieldD j "wlim")
    let rlim ← jOpt jNat (jFieldD j "rlim")
    let recs := writeRecords n (es.map storeEnergies) wlim
    let (confs, energies) := readRecords recs rlim
    return okJ (Json.mkObj [("n", natJ confs.length), ("confs", natsToJson confs),
      ("energies", if energies.isEmpty then Json.null else Json.arr ((storeEnergies energies).map ratToJson).toArray)])
  | _ => .error s!"unknown op {op}"

end E3fpVerif
