import E3fpVerif.Codec
import E3fpVerif.Model.SdfIO
import E3fpVerif.Model.SmilesIO
namespace E3fpVerif
open Lean

def sdfOp (op : String) (j : Json) : Except String Json := do
  match op with
  | "sdf.roundtrip" =>
    let n ← jNat (← jField j "nconf")
    let es ← jOpt (jList jRat) (jFieldD j "energies")
    let wlim ← jOpt jInt (jFieldD j "wlim")
    let rlim ← jOpt jNat (jFieldD j "rlim")
    let recs := writeRecords n (es.map storeEnergies) wlim
    let (confs, energies) := readRecords recs rlim
    return okJ (Json.mkObj [("n", natJ confs.length), ("confs", natsToJson confs),
      ("energies", if energies.isEmpty then Json.null else Json.arr ((storeEnergies energies).map ratToJson).toArray)])
  | "sdf.smiles_table" =>
    -- write a name -> SMILES table to lines, or read lines back into a table
    let unique ← jBool (jFieldD j "unique" |> fun x => if x == .null then Json.bool false else x)
    let header ← jBool (jFieldD j "has_header" |> fun x => if x == .null then Json.bool false else x)
    let pairJ := fun (e : List Char × List Char) => Json.arr #[Json.str (String.mk e.1), Json.str (String.mk e.2)]
    match jFieldD j "table" with
    | .null =>
      let lines ← jList jStr (← jField j "lines")
      return okJ (Json.arr ((readTable (lines.map String.toList) unique header).map pairJ).toArray)
    | t =>
      let tbl ← jList (jPair jStr jStr) t
      let lines := writeTable (tbl.map (fun e => (e.1.toList, e.2.toList)))
      return okJ (Json.mkObj [("lines", Json.arr (lines.map (fun l => Json.str (String.mk l))).toArray),
        ("back", Json.arr ((readTable lines unique header).map pairJ).toArray)])
  | _ => .error s!"unknown op {op}"

end E3fpVerif
