import E3fpVerif.Codec
import E3fpVerif.DriverFprint
import E3fpVerif.Model.FpHeap
/-! Driver operation `fph.run`: a history of operations on fingerprint *objects* (Model/FpHeap),
with a full dump of every live object - value, properties, cache, links, maps and the cells it
refers to - after every step.  Objects are named by creation number in the protocol. -/
namespace E3fpVerif
open Lean H

def jHPVal (j : Json) : Except String PVal :=
  match j with
  | .str s => .ok (.s s)
  | _ => do return .i (← jInt j)

def hpvalJ : PVal → Json | .s v => Json.str v | .i v => Json.num v

def refOf (h : Heap) (n : Nat) : Except String Ref :=
  if n < h.objs.length then .ok n else .error s!"no object {n}"

def numOf (h : Heap) (r : Ref) : Json := if r < h.objs.length then natJ r else Json.null

def jHeapOp (h : Heap) (j : Json) : Except String Op := do
  match ← jStr (← jField j "o") with
  | "new" =>
    let k ← jKind (← jField j "kind")
    let ix ← jOpt (jList jNat) (jFieldD j "indices")
    let c ← jOpt jCnt (jFieldD j "counts")
    let bits ← jNat (← jField j "bits")
    let level ← jInt (← jField j "level")
    let name ← jOpt jStr (jFieldD j "name")
    let props ← jList (jPair jStr jHPVal) (← jField j "props")
    return .new k ix c bits level name props
  | "from_fp" => return .fromFp (← jKind (← jField j "kind")) (← refOf h (← jNat (← jField j "src")))
  | "fold" =>
    let src ← refOf h (← jNat (← jField j "src"))
    let bits ← jNat (← jField j "bits")
    let method ← jNat (← jField j "method")
    let linked ← jBool (← jField j "linked")
    let cm ← jCM (jFieldD j "counts_method")
    return .fold src bits method linked cm
  | "set_prop" => return .setProp (← refOf h (← jNat (← jField j "obj"))) (← jStr (← jField j "key")) (← jHPVal (← jField j "val"))
  | "set_name" => return .setName (← refOf h (← jNat (← jField j "obj"))) (← jStr (← jField j "name"))
  | "set_level" => return .setLevel (← refOf h (← jNat (← jField j "obj"))) (← jInt (← jField j "level"))
  | "poke_idx" => return .pokeIdx (← refOf h (← jNat (← jField j "obj"))) (← jNat (← jField j "pos")) (← jNat (← jField j "val"))
  | "poke_count" => return .pokeCount (← refOf h (← jNat (← jField j "obj"))) (← jNat (← jField j "key")) (← jRat (← jField j "val"))
  | "set_counts" => return .setCounts (← refOf h (← jNat (← jField j "obj"))) (← jCnt (← jField j "counts"))
  | "setop" => return .setOp (← jSetOp (← jField j "op")) (← refOf h (← jNat (← jField j "a"))) (← refOf h (← jNat (← jField j "b")))
  | "addsub" => return .addSub (← jInt (← jField j "sign")) (← refOf h (← jNat (← jField j "a"))) (← refOf h (← jNat (← jField j "b")))
  | "scalar" =>
    let o ← match ← jStr (← jField j "op") with
      | "mul" => pure 0 | "div" => pure 1 | "floordiv" => pure 2 | s => .error s!"bad scalar op {s}"
    return .scalar o (← refOf h (← jNat (← jField j "a"))) (← jRat (← jField j "x"))
  | "batch" =>
    let rs ← (← jList jNat (← jField j "objs")).mapM (refOf h)
    return .batch (← jBool (← jField j "mean")) rs (← jOpt (jList jRat) (jFieldD j "weights"))
  | s => .error s!"bad heap op {s}"

def optJ {α} (f : α → Json) : Option α → Json | none => .null | some a => f a

def objDump (h : Heap) (r : Ref) : Json :=
  match getObj h r, view h r with
  | some o, some v => Json.mkObj [
      ("fp", fpToJson v.val),
      ("props", Json.arr (v.props.map (fun p => Json.arr #[Json.str p.1, hpvalJ p.2])).toArray),
      ("cache", Json.arr (v.cache.map (fun p => Json.arr #[natJ p.1.1, natJ p.1.2, numOf h p.2])).toArray),
      ("unfolded", optJ (numOf h) v.unfolded),
      ("i2f", optJ (fun m => Json.arr (m.map (fun p => Json.arr #[natJ p.1, natJ p.2])).toArray) v.i2f),
      ("i2u", optJ (fun m => Json.arr (m.map (fun p => Json.arr #[natJ p.1, natsToJson p.2])).toArray) v.i2u),
      ("slots", Json.arr ((slots o).map (fun p => Json.arr #[Json.str p.1, natJ p.2])).toArray)]
  | _, _ => Json.mkObj [("broken", natJ r)]

def ansJ (h : Heap) : Ans → Json
  | .err e => errJ e
  | .ref r => okJ (numOf h r)
  | .unit => okJ Json.null
  | .bad => Json.mkObj [("bad", Json.null)]

def heapRun (h : Heap) : List Json → Except String (List Json)
  | [] => .ok []
  | j :: js => do
    let op ← jHeapOp h j
    let (h', a) := step h op
    let out := Json.mkObj [("ans", ansJ h' a), ("objs", Json.arr ((objects h').map (objDump h')).toArray)]
    return out :: (← heapRun h' js)

def fpHeapOp (op : String) (j : Json) : Except String Json := do
  match op with
  | "fph.run" => return okJ (Json.arr (← heapRun {} (← jArr (← jField j "ops"))).toArray)
  | _ => .error s!"unknown op {op}"

end E3fpVerif
