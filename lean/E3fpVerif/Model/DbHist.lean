import E3fpVerif.Model.Db
/-!
# Histories of database operations, and the list-of-rows specification they refine

`DbOp` is the operation language of the correspondence check for C05 / C16 (the driver executes
database histories through `stepOp`, so the theorems of `Props/C05Hist.lean` are about the very
function that is compared with the implementation after every step).  A *pool* is the set of live
databases by identifier.

`SDb` is the specification the property speaks about: a database **is a plain list of rows**, each
row holding the stored cells, the name and the property values of one fingerprint, plus the
column keys in order.  `specStep` is the effect each operation has on that list.  `Db.spec` is the
abstraction function; `Props/C05Hist.lean` proves that every history run on the operational model
(CSR rows + name list + separately maintained name index + property columns) and on the
specification yields, step by step, the same answers and the same abstract pool.
-/
namespace E3fpVerif

/-! ## pools -/

abbrev PoolOf (α : Type) := List (String × α)

def PoolOf.get? {α : Type} (p : PoolOf α) (id : String) : Option α :=
  match p with
  | [] => none
  | (k, v) :: rest => if k = id then some v else PoolOf.get? rest id

/-- `pool[id] = v` (replace in place, or append) -/
def PoolOf.put {α : Type} (p : PoolOf α) (id : String) (v : α) : PoolOf α :=
  match p with
  | [] => [(id, v)]
  | (k, w) :: rest => if k = id then (k, v) :: rest else (k, w) :: PoolOf.put rest id v

def PoolOf.getAll? {α : Type} (p : PoolOf α) (ids : List String) : Option (List α) :=
  ids.mapM (fun id => PoolOf.get? p id)

abbrev Pool := PoolOf Db

/-! ## operations -/

inductive DbOp
  | new (id : String) (k : Kind) (level : Int) (name : Option String)
  | add (id : String) (fps : List FpIn)
  | fromArray (id : String) (rows : List Row) (bits : Nat) (names : List (Option String)) (k : Kind) (level : Int)
      (name : Option String) (props : List (String × List PVal))
  | subset (id out : String) (names : List String) (newName : Option String)
  | asType (id out : String) (k : Kind)
  | fold (id out : String) (bits : Nat) (k : Option Kind) (newName : Option String)
  | concat (ids : List String) (out : String)
  | setProp (id key : String) (vals : List PVal)
  | updateProps (id : String) (cols : List (String × List PVal))
  | pickle (id out : String)
  | savezLoad (id out : String)
  deriving Repr

/-- what a step answers: nothing, or the error the operation raised -/
abbrev Ans := Option Err

def putRes {α : Type} (p : PoolOf α) (out : String) (r : Except Err α) : PoolOf α × Ans :=
  match r with
  | .ok d => (p.put out d, none)
  | .error e => (p, some e)

/-- One step of a history on the operational model.  `none`: the operation names a database that
is not live (a malformed history, not a behaviour of the library). -/
def stepOp (p : Pool) (op : DbOp) : Option (Pool × Ans) :=
  match op with
  | .new id k level name => some (p.put id (Db.new k level name), none)
  | .add id fps => (p.get? id).map (fun d => let r := d.add fps; (p.put id r.1, r.2))
  | .fromArray id rows bits names k level name props =>
    let r := Db.fromArray rows bits names k level name props
    some (match r.2 with | none => (p.put id r.1, none) | some e => (p, some e))
  | .subset id out names newName => (p.get? id).map (fun d => putRes p out (d.subset names newName))
  | .asType id out k => (p.get? id).map (fun d => putRes p out (d.asType k))
  | .fold id out bits k newName => (p.get? id).map (fun d => putRes p out (d.fold bits k newName))
  | .concat ids out => (p.getAll? ids).map (fun ds => putRes p out (Db.concat ds))
  | .setProp id key vals => (p.get? id).map (fun d => let r := d.setProp key vals; (p.put id r.1, r.2))
  | .updateProps id cols => (p.get? id).map (fun d => let r := d.updateProps cols; (p.put id r.1, r.2))
  | .pickle id out => (p.get? id).map (fun d => putRes p out (.ok d.pickleRoundTrip))
  | .savezLoad id out => (p.get? id).map (fun d => putRes p out d.savezLoad)

/-- a whole history: the final pool and the answers, or `none` for a malformed history -/
def runOps (p : Pool) : List DbOp → Option (Pool × List Ans)
  | [] => some (p, [])
  | op :: rest =>
    match stepOp p op with
    | none => none
    | some (p', a) =>
      match runOps p' rest with
      | none => none
      | some (p'', as) => some (p'', a :: as)

/-! ## the specification: a database is a list of rows -/

structure SRow where
  /-- the stored cells `(column, value)` of the row -/
  cells : Row
  name : Option String
  /-- the property values of this row, in column order -/
  props : List (String × PVal)
  deriving DecidableEq, Repr, Inhabited

structure SDb where
  kind : Kind
  level : Int
  name : Option String
  /-- `none` until the first rows arrive -/
  bits : Option Nat
  /-- the property columns, in order -/
  keys : List String
  rows : List SRow
  deriving DecidableEq, Repr, Inhabited

def castRow (k : Kind) (r : Row) : Row := r.map (fun p => (p.1, castVal k p.2))

/-- `dict[k] = v` on one row's property values -/
def kvSet (ps : List (String × PVal)) (k : String) (v : PVal) : List (String × PVal) :=
  match ps with
  | [] => [(k, v)]
  | (a, w) :: rest => if a = k then (a, v) :: rest else (a, w) :: kvSet rest k v

/-- the keys of an insertion-ordered dict built by assigning `keys` in order -/
def dedupKeys (keys : List String) : List String :=
  keys.foldl (fun acc k => if acc.contains k then acc else acc ++ [k]) []

def SDb.new (k : Kind) (level : Int) (name : Option String) : SDb :=
  { kind := k, level := level, name := name, bits := none, keys := [], rows := [] }

/-- the length every fingerprint of a batch must have -/
def SDb.expectedBits (s : SDb) (fps : List FpIn) : Nat :=
  if s.rows.length > 0 then s.bits.getD 0 else (fps.head?.map (·.fp.bits)).getD 0

/-- the property values every fingerprint of a batch must provide -/
def SDb.expectedKeys (s : SDb) (fps : List FpIn) : List String :=
  if s.rows.length > 0 ∨ s.keys ≠ [] then s.keys else dedupKeys ((fps.head?.map (fun f => f.props.map Prod.fst)).getD [])

/-- `add_fingerprints`: refuse, or append one row per fingerprint, cast to the database's kind -/
def SDb.add (s : SDb) (fps : List FpIn) : SDb × Ans :=
  if fps.isEmpty then (s, some .index)
  else if fps.any (fun f => f.fp.level != s.level) then (s, some .value)
  else if fps.any (fun f => f.fp.bits != s.expectedBits fps) then (s, some .bitsValue)
  else if fps.any (fun f => (s.expectedKeys fps).any (fun k => (propLookup f.props k).isNone)) then (s, some .key)
  else
    let keys := s.expectedKeys fps
    ({ s with bits := some (s.expectedBits fps), keys := keys,
              rows := s.rows ++ fps.map (fun f =>
                { cells := fpRow s.kind f.fp, name := f.name,
                  props := keys.map (fun k => (k, (propLookup f.props k).getD (.int 0))) }) }, none)

/-- `from_array`: one row per matrix row, names and property columns aligned by position -/
def SDb.fromArray (rows : List Row) (bits : Nat) (names : List (Option String)) (k : Kind) (level : Int)
    (name : Option String) (props : List (String × List PVal)) : Except Err SDb :=
  if props.any (fun c => decide (c.2.length ≠ names.length)) then .error .value
  else
    let keys := dedupKeys (props.map Prod.fst)
    .ok { kind := k, level := level, name := name, bits := some bits, keys := keys,
          rows := (List.range rows.length).map (fun i =>
            { cells := castRow k ((rows[i]?).getD []), name := (names[i]?).getD none,
              -- a key assigned twice keeps the later column
              props := keys.filterMap (fun key =>
                ((props.reverse.find? (fun c => c.1 = key)).bind (fun c => c.2[i]?)).map (fun v => (key, v))) }) }

/-- the rows carrying a name, in insertion order -/
def SDb.named (s : SDb) (nm : String) : List SRow := s.rows.filter (fun r => r.name = some nm)

/-- `db[i]` with Python's negative indexing: the `i`-th row as a fingerprint with name and properties -/
def SDb.rowFp (s : SDb) (r : SRow) : Except Err FpIn :=
  match fromSparse s.kind r.cells (s.bits.getD 0) s.level with
  | .error e => .error e
  | .ok f => .ok { fp := f, name := r.name, props := r.props }

def SDb.getIndex (s : SDb) (i : Int) : Except Err FpIn :=
  let n : Int := s.rows.length
  if i ≥ n ∨ i < -n then .error .index
  else match s.rows[(if i < 0 then (i + n).toNat else i.toNat)]? with
    | none => .error .index
    | some r => s.rowFp r

/-- `db[name]`: every row carrying the name, in insertion order (`[]` for an absent name) -/
def SDb.getName (s : SDb) (nm : String) : Except Err (List FpIn) := (s.named nm).mapM s.rowFp

/-- `get_subset(names)`: for each requested name, in request order, the rows carrying it -/
def SDb.subset (s : SDb) (names : List String) (newName : Option String) : Except Err SDb :=
  if names.any (fun nm => (s.named nm).isEmpty) then .error .value
  else if names.isEmpty then .error .value
  else .ok { s with name := newName, bits := some (s.bits.getD 0),
                    rows := names.flatMap (fun nm => (s.named nm).map (fun r => { r with cells := castRow s.kind r.cells })) }

/-- `as_type(T)` / copy: the same rows, cells cast to the new kind -/
def SDb.asType (s : SDb) (k : Kind) : Except Err SDb :=
  match s.bits with
  | none => .error .other
  | some _ => .ok { s with kind := k, rows := s.rows.map (fun r => { r with cells := castRow k r.cells }) }

/-- the folded cells of one row: columns reduced, colliding values summed in the source kind -/
def foldCells (k : Kind) (bits : Nat) (r : Row) : Row :=
  (sumDuplicates (r.map (fun p => (Gen.dbFoldIndex p.1 bits, p.2)))).map (fun p => (p.1, castVal k p.2))

/-- `fold(bits, fp_type, name)`: every row folded, names and properties untouched -/
def SDb.fold (s : SDb) (bits : Nat) (k : Option Kind) (newName : Option String) : Except Err SDb :=
  match s.bits with
  | none => .error .type
  | some b =>
    if bits > b then .error .bitsValue
    else if !(isPow2Multiple b bits) then .error .bitsValue
    else
      let k' := k.getD s.kind
      .ok { s with kind := k', name := newName <|> s.name, bits := some bits,
                   rows := s.rows.map (fun r => { r with cells := castRow k' (foldCells s.kind bits r.cells) }) }

/-- the union of the key lists, in first-occurrence order -/
def concatKeysS (ss : List SDb) : List String :=
  ss.foldl (fun acc d => d.keys.foldl (fun acc2 k => if acc2.contains k then acc2 else acc2 ++ [k]) acc) ([] : List String)

/-- `concat(dbs)`: the rows of all operands, in operand order; every operand that has rows must
provide every column -/
def SDb.concat (ss : List SDb) : Except Err SDb :=
  match ss with
  | [] => .error .index
  | s0 :: _ =>
    if ss.any (fun d => d.level != s0.level) then .error .type
    else if ss.any (fun d => d.bits != s0.bits) then .error .type
    else if ss.any (fun d => d.kind != s0.kind) then .error .type
    else if ss.any (fun d => d.bits.isNone) then .error .other
    else
      let keys := concatKeysS ss
      if ss.any (fun d => !d.rows.isEmpty && keys.any (fun k => !d.keys.contains k)) then .error .value
      else .ok { kind := s0.kind, level := s0.level, name := none, bits := some (s0.bits.getD 0), keys := keys,
                 rows := ss.flatMap (fun d => d.rows.map (fun r =>
                   { r with props := keys.filterMap (fun k => (propLookup r.props k).map (fun v => (k, v))) })) }

/-- `set_prop(key, vals)`: one value per row -/
def SDb.setProp (s : SDb) (key : String) (vals : List PVal) : SDb × Ans :=
  if vals.length ≠ s.rows.length then (s, some .value)
  else ({ s with keys := if s.keys.contains key then s.keys else s.keys ++ [key],
                 rows := (s.rows.zip vals).map (fun p => { p.1 with props := kvSet p.1.props key p.2 }) }, none)

/-- `update_props(dict)`: all columns or none -/
def SDb.updateProps (s : SDb) (cols : List (String × List PVal)) : SDb × Ans :=
  if cols.any (fun c => decide (c.2.length ≠ s.rows.length)) then (s, some .value)
  else (cols.foldl (fun acc c => (acc.setProp c.1 c.2).1) s, none)

/-- saving and reloading in the npz format casts the cells to the kind's dtype, nothing else -/
def SDb.savezLoad (s : SDb) : Except Err SDb :=
  match s.bits with
  | none => .error .other
  | some _ => .ok { s with rows := s.rows.map (fun r => { r with cells := castRow s.kind r.cells }) }

abbrev SPool := PoolOf SDb

/-- one step of a history on the specification -/
def specStep (p : SPool) (op : DbOp) : Option (SPool × Ans) :=
  match op with
  | .new id k level name => some (p.put id (SDb.new k level name), none)
  | .add id fps => (p.get? id).map (fun d => let r := d.add fps; (p.put id r.1, r.2))
  | .fromArray id rows bits names k level name props =>
    some (putRes p id (SDb.fromArray rows bits names k level name props))
  | .subset id out names newName => (p.get? id).map (fun d => putRes p out (d.subset names newName))
  | .asType id out k => (p.get? id).map (fun d => putRes p out (d.asType k))
  | .fold id out bits k newName => (p.get? id).map (fun d => putRes p out (d.fold bits k newName))
  | .concat ids out => (p.getAll? ids).map (fun ds => putRes p out (SDb.concat ds))
  | .setProp id key vals => (p.get? id).map (fun d => let r := d.setProp key vals; (p.put id r.1, r.2))
  | .updateProps id cols => (p.get? id).map (fun d => let r := d.updateProps cols; (p.put id r.1, r.2))
  | .pickle id out => (p.get? id).map (fun d => putRes p out (.ok d))
  | .savezLoad id out => (p.get? id).map (fun d => putRes p out d.savezLoad)

def runSpec (p : SPool) : List DbOp → Option (SPool × List Ans)
  | [] => some (p, [])
  | op :: rest =>
    match specStep p op with
    | none => none
    | some (p', a) =>
      match runSpec p' rest with
      | none => none
      | some (p'', as) => some (p'', a :: as)

/-! ## abstraction -/

/-- the rows of a database as the specification sees them -/
def Db.absRows (db : Db) : List SRow :=
  (List.range db.fpNum).map (fun i =>
    { cells := ((db.array.getD [])[i]?).getD [], name := (db.fpNames[i]?).getD none,
      props := db.props.filterMap (fun c => (c.2[i]?).map (fun v => (c.1, v))) })

def Db.spec (db : Db) : SDb :=
  { kind := db.fpType, level := db.level, name := db.name, bits := db.array.map (fun _ => db.bits),
    keys := db.props.map Prod.fst, rows := db.absRows }

def absPool (p : Pool) : SPool := p.map (fun e => (e.1, e.2.spec))

end E3fpVerif
