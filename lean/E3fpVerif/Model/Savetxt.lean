import E3fpVerif.Model.Db
/-!
# The run-length construction of `savetxt`'s bit strings

`FingerprintDatabase.savetxt` does not test every position: for a row with sorted column indices `idx` it writes
`"1".join("0" * j for j in np.diff(np.r_[-1, idx, bits]) - 1)` - runs of zeros between consecutive set positions, joined by
ones.  `runLength` is that expression; `Props/C08Runs.lean` proves it equal to the bit string of the row.
-/
namespace E3fpVerif

/-- `np.diff(a)` -/
def diffs : List Int → List Int
  | a :: b :: r => (b - a) :: diffs (b :: r)
  | _ => []

/-- `sep.join(parts)` -/
def joinWith (sep : List Char) : List (List Char) → List Char
  | [] => []
  | [p] => p
  | p :: q :: r => p ++ sep ++ joinWith sep (q :: r)

/-- `"1".join(["0" * j for j in np.diff(np.r_[-1, indices, bits]) - 1])` (`"0" * j` is empty for `j <= 0`) -/
def runLength (bits : Nat) (idx : List Nat) : List Char :=
  joinWith ['1'] ((diffs ((-1 : Int) :: (idx.map (fun (i : Nat) => (i : Int)) ++ [(bits : Int)]))).map
    (fun d => List.replicate (d - 1).toNat '0'))

end E3fpVerif
