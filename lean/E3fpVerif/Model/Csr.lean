import E3fpVerif.Model.Metrics
/-!
# CSR-level model of `array_metrics._sparse_soergel`

`Model/Metrics.lean` models the sparse Soergel kernel on *rows* (`mergeSD`, `arrSoergelSparse`).  The
source kernel never sees rows: it walks the three raw arrays of a CSR matrix (`data`, `indices`,
`indptr`) with two running positions.  This file models that index arithmetic, statement by statement:

```python
for ix in range(S.shape[0]):
    if Xindptr[ix] == Xindptr[ix + 1]:          # shortcut 1
        for iy in range(S.shape[1]): S[ix, iy] = 0
        continue
    jxindmax = Xindptr[ix + 1] - 1
    for iy in range(S.shape[1]):
        if Yindptr[iy] == Yindptr[iy + 1]:      # shortcut 2
            S[ix, iy] = 0; continue
        sum_abs_diff = 0; sum_max = 0
        jyindmax = Yindptr[iy + 1] - 1
        jx = Xindptr[ix]; jy = Yindptr[iy]
        while jx <= jxindmax and jy <= jyindmax: ...   # `Csr.mergeLoop`
        while jx <= jxindmax: ...                      # `Csr.tailLoop` on X
        while jy <= jyindmax: ...                      # `Csr.tailLoop` on Y
        if sum_max == 0: S[ix, iy] = 0; continue
        S[ix, iy] = 1 - sum_abs_diff / sum_max
```

Modelling choices.
* An array read `A[j]` is `A.getD j 0`.
* Python computes `jxindmax = Xindptr[ix + 1] - 1` and tests `jx <= jxindmax`.  On integers that is
  `jx < Xindptr[ix + 1]`; natural-number `- 1` would be wrong at `Xindptr[ix + 1] = 0` (Python gets
  `-1`, the guard is false; truncated subtraction gives `0`, the guard `0 <= 0` would be true).  The
  model therefore carries the *exclusive* end `jxend = Xindptr[ix + 1]` (`= jxindmax + 1`) and the
  guard `jx < jxend`; likewise for `jy`.
* The loop state is `(jx, jy, sum_abs_diff, sum_max)`, the accumulators grow forward as in the source
  (`sum += …`), and each loop returns the state it exits with.  The loops are well-founded recursions
  on `(jxend - jx) + (jyend - jy)` resp. `jend - j`.
* All values are exact rationals (the rows of the other models are `List (Nat × Rat)`).
-/
namespace E3fpVerif

structure Csr where
  data : List Rat
  indices : List Nat
  /-- `nrows + 1` entries -/
  indptr : List Nat
  deriving Repr, DecidableEq

namespace Csr

def nrows (m : Csr) : Nat := m.indptr.length - 1

/-- the stored entries at positions `s .. e-1`, in storage order -/
def slice (m : Csr) (s e : Nat) : Row :=
  (List.range' s (e - s)).map (fun j => (m.indices.getD j 0, m.data.getD j 0))

/-- the stored entries of row `i`, in storage order: positions `indptr[i] .. indptr[i+1]-1` -/
def row (m : Csr) (i : Nat) : Row := m.slice (m.indptr.getD i 0) (m.indptr.getD (i + 1) 0)

/-- all denoted rows -/
def rows (m : Csr) : List Row := (List.range m.nrows).map m.row

/-- well-formed CSR arrays of a matrix with `ncols` columns: `indptr` is non-empty, starts at 0, is
non-decreasing and ends at `len(data) = len(indices)`; column indices are below `ncols` -/
def WF (m : Csr) (ncols : Nat) : Prop :=
  m.indptr ≠ [] ∧ m.indptr.head? = some 0 ∧ m.indptr.Pairwise (· ≤ ·) ∧
  m.indptr.getLast? = some m.data.length ∧ m.indices.length = m.data.length ∧
  ∀ j ∈ m.indices, j < ncols

instance (m : Csr) (ncols : Nat) : Decidable (m.WF ncols) := by unfold WF; infer_instance

/-- Boolean form of `WF` -/
def wfb (m : Csr) (ncols : Nat) : Bool := decide (m.WF ncols)

/-- state of the kernel's inner loops -/
structure LoopSt where
  jx : Nat
  jy : Nat
  sumAbsDiff : Rat
  sumMax : Rat
  deriving Repr, DecidableEq

/-- `while jx <= jxindmax and jy <= jyindmax:` — the final step of merge sort.  `jxend = jxindmax + 1`,
`jyend = jyindmax + 1`; returns the state at loop exit. -/
def mergeLoop (X Y : Csr) (jxend jyend : Nat) (st : LoopSt) : LoopSt :=
  if st.jx < jxend ∧ st.jy < jyend then
    let jxind := X.indices.getD st.jx 0
    let jyind := Y.indices.getD st.jy 0
    if jxind < jyind then
      mergeLoop X Y jxend jyend
        { st with sumMax := st.sumMax + X.data.getD st.jx 0,
                  sumAbsDiff := st.sumAbsDiff + X.data.getD st.jx 0, jx := st.jx + 1 }
    else if jyind < jxind then
      mergeLoop X Y jxend jyend
        { st with sumMax := st.sumMax + Y.data.getD st.jy 0,
                  sumAbsDiff := st.sumAbsDiff + Y.data.getD st.jy 0, jy := st.jy + 1 }
    else
      let diff := X.data.getD st.jx 0 - Y.data.getD st.jy 0
      if diff > 0 then
        mergeLoop X Y jxend jyend
          { sumAbsDiff := st.sumAbsDiff + diff, sumMax := st.sumMax + X.data.getD st.jx 0,
            jx := st.jx + 1, jy := st.jy + 1 }
      else
        mergeLoop X Y jxend jyend
          { sumAbsDiff := st.sumAbsDiff - diff, sumMax := st.sumMax + Y.data.getD st.jy 0,
            jx := st.jx + 1, jy := st.jy + 1 }
  else st
termination_by (jxend - st.jx) + (jyend - st.jy)
decreasing_by all_goals (simp_wf; omega)

/-- `while j <= jindmax: sum_max += data[j]; sum_abs_diff += data[j]; j += 1` (`jend = jindmax + 1`);
the accumulators are `(sum_abs_diff, sum_max)`. -/
def tailLoop (data : List Rat) (jend j : Nat) (acc : Rat × Rat) : Rat × Rat :=
  if j < jend then tailLoop data jend (j + 1) (acc.1 + data.getD j 0, acc.2 + data.getD j 0)
  else acc
termination_by jend - j

/-- one entry `S[ix, iy]` of the result, computed by the kernel's own loop on the raw arrays -/
def soergelEntry (X Y : Csr) (ix iy : Nat) : Rat :=
  if X.indptr.getD ix 0 = X.indptr.getD (ix + 1) 0 then 0        -- no X values in row
  else
    let jxend := X.indptr.getD (ix + 1) 0                          -- `jxindmax + 1`
    if Y.indptr.getD iy 0 = Y.indptr.getD (iy + 1) 0 then 0      -- no Y values in row
    else
      let jyend := Y.indptr.getD (iy + 1) 0                        -- `jyindmax + 1`
      let st := mergeLoop X Y jxend jyend
        { jx := X.indptr.getD ix 0, jy := Y.indptr.getD iy 0, sumAbsDiff := 0, sumMax := 0 }
      let acc := tailLoop X.data jxend st.jx (st.sumAbsDiff, st.sumMax)
      let acc := tailLoop Y.data jyend st.jy acc
      if acc.2 = 0 then 0 else 1 - acc.1 / acc.2

/-- the whole result matrix `S`, `X.nrows × Y.nrows` -/
def soergel (X Y : Csr) : List (List Rat) :=
  (List.range X.nrows).map (fun ix => (List.range Y.nrows).map (X.soergelEntry Y ix))

end Csr
end E3fpVerif
