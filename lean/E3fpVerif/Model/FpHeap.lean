import E3fpVerif.Model.Fprint
/-!
# Fingerprint *objects*: identity, ownership and the fold cache

`Model/Fprint.lean` treats a fingerprint as a value.  The clauses "copies share no mutable state",
"folding returns a new object and leaves the source unchanged", "operands are left unchanged" are
statements about *objects*: which arrays and dictionaries an object owns, which ones a constructor,
a fold, a copy allocates, and which ones an in-place change touches.  This file models exactly that
part of `fprint.py`: a heap of cells (index arrays, counts dictionaries, property dictionaries, the
`folded_fingerprint` cache, the two index maps) and `Fingerprint` objects that *refer* to cells.

Content is never re-modelled: every operation reads the value (`absFp`), applies the value-level
function of `Model/Fprint.lean`, and allocates / overwrites cells as the Python code does.

What the code does (fprint.py, unchanged tree):
* `__init__` / `reset()` : fresh `_indices`, `_props`, `folded_fingerprint`, (`_counts`) for the object;
  `np.unique`, `dict(...)`, `sorted(...)` always return new containers, `update_props` copies entries;
* `from_fingerprint` : a new object built with `from_indices` / `from_counts`, then `update_props(fp.props)`;
* `fold(bits, method, linked)` : when `(bits, method)` is not cached - a new `index_to_folded_index_dict`
  replaces the source's, a new object is built (`from_indices`, `update_props(self.props)`, new
  `index_to_unfolded_index_dict`), and with `linked` it is stored in the source's cache and points back
  through `unfolded_fingerprint`; when cached the cached object itself is returned;
  `CountFingerprint.fold` then assigns `fp.counts = {...}` (a new dict through the setter) - also to a
  cached child;
* the binary operators build a new object from new arrays.
-/
namespace E3fpVerif
namespace H

abbrev Ref := Nat

/-- a property value (caller-supplied mutable values are outside the model) -/
inductive PVal | s (v : String) | i (v : Int)
  deriving DecidableEq, Repr, Inhabited

structure FObj where
  kind : Kind
  bits : Nat
  level : Int
  idx : Ref                 -- `_indices`
  cnt : Option Ref          -- `_counts` (count / float kinds)
  props : Ref               -- `_props`
  cache : Ref               -- `folded_fingerprint`
  i2f : Option Ref          -- `index_to_folded_index_dict`
  unfolded : Option Ref     -- `unfolded_fingerprint` (an object)
  i2u : Option Ref          -- `index_to_unfolded_index_dict`
  deriving DecidableEq, Repr, Inhabited

inductive Cell
  | arr (a : List Nat)
  | cnts (d : List (Nat × Rat))
  | props (d : List (String × PVal))
  | cache (d : List ((Nat × Nat) × Ref))
  | i2f (d : List (Nat × Nat))
  | i2u (d : List (Nat × List Nat))
  deriving Repr, Inhabited

/-- objects (named by creation number) and the containers they refer to -/
structure Heap where
  objs : List FObj := []
  cells : List Cell := []
  deriving Repr, Inhabited

def alloc (h : Heap) (c : Cell) : Heap × Ref := ({ h with cells := h.cells ++ [c] }, h.cells.length)
def allocObj (h : Heap) (o : FObj) : Heap × Ref := ({ h with objs := h.objs ++ [o] }, h.objs.length)

def getObj (h : Heap) (r : Ref) : Option FObj := h.objs[r]?
def getArr (h : Heap) (r : Ref) : Option (List Nat) :=
  match h.cells[r]? with | some (.arr a) => some a | _ => none
def getCnts (h : Heap) (r : Ref) : Option (List (Nat × Rat)) :=
  match h.cells[r]? with | some (.cnts a) => some a | _ => none
def getProps (h : Heap) (r : Ref) : Option (List (String × PVal)) :=
  match h.cells[r]? with | some (.props a) => some a | _ => none
def getCache (h : Heap) (r : Ref) : Option (List ((Nat × Nat) × Ref)) :=
  match h.cells[r]? with | some (.cache a) => some a | _ => none
def getI2u (h : Heap) (r : Ref) : Option (List (Nat × List Nat)) :=
  match h.cells[r]? with | some (.i2u a) => some a | _ => none
def getI2f (h : Heap) (r : Ref) : Option (List (Nat × Nat)) :=
  match h.cells[r]? with | some (.i2f a) => some a | _ => none

/-- the value an object denotes -/
def absFp (h : Heap) (o : FObj) : Option Fp :=
  match getArr h o.idx, (match o.cnt with | none => some [] | some r => getCnts h r) with
  | some a, some c => some ⟨o.kind, o.bits, o.level, a, c⟩
  | _, _ => none

/-- `d[k] = v` on an insertion-ordered dictionary -/
def dictSet {α β} [DecidableEq α] (d : List (α × β)) (k : α) (v : β) : List (α × β) :=
  match d with
  | [] => [(k, v)]
  | (k', v') :: rest => if k' = k then (k, v) :: rest else (k', v') :: dictSet rest k v

def dictGet {α β} [DecidableEq α] (d : List (α × β)) (k : α) : Option β :=
  match d with
  | [] => none
  | (k', v') :: rest => if k' = k then some v' else dictGet rest k

/-- `d.update(e)` -/
def dictUpdate {α β} [DecidableEq α] (d e : List (α × β)) : List (α × β) :=
  e.foldl (fun acc p => dictSet acc p.1 p.2) d

def NAME_KEY : String := "Name"

/-- allocate a new object holding value `v` and the property entries `props` -/
def allocFp (h : Heap) (v : Fp) (props : List (String × PVal)) (i2u : Option (List (Nat × List Nat)))
    (unfolded : Option Ref) : Heap × Ref :=
  let (h, ri) := alloc h (.arr v.idx)
  let (h, rc) := match v.kind with
    | .bit => (h, none)
    | _ => let (h, r) := alloc h (.cnts v.cnt); (h, some r)
  let (h, rp) := alloc h (.props props)
  let (h, rk) := alloc h (.cache [])
  let (h, ru) := match i2u with
    | none => (h, none)
    | some m => let (h, r) := alloc h (.i2u m); (h, some r)
  allocObj h ⟨v.kind, v.bits, v.level, ri, rc, rp, rk, none, unfolded, ru⟩

inductive Op
  | new (k : Kind) (ix : Option (List Nat)) (c : Option (List (Nat × Rat))) (bits : Nat) (level : Int)
      (name : Option String) (props : List (String × PVal))
  | fromFp (k : Kind) (src : Ref)
  | fold (src : Ref) (bits method : Nat) (linked : Bool) (cm : CountsMethod)
  | setProp (o : Ref) (k : String) (v : PVal)
  | setName (o : Ref) (n : String)
  | setLevel (o : Ref) (l : Int)
  | pokeIdx (o : Ref) (pos val : Nat)
  | pokeCount (o : Ref) (key : Nat) (v : Rat)
  | setCounts (o : Ref) (d : List (Nat × Rat))
  | setOp (op : SetOp) (a b : Ref)
  | addSub (sign : Int) (a b : Ref)
  | scalar (o : Nat) (a : Ref) (x : Rat)                              -- `a * x` (0), `a / x` (1), `a // x` (2)
  | batch (mean : Bool) (rs : List Ref) (w : Option (List Rat))       -- `fprint.add(fps, weights)` / `fprint.mean(fps, weights)`
  deriving Repr, Inhabited

inductive Ans
  | err (e : Err)
  | ref (r : Ref)
  | unit
  | bad                      -- the operation names something that is not a live object
  deriving Repr, Inhabited

/-- the property dictionary `__init__` leaves behind -/
def initProps (k : Kind) (name : Option String) (props : List (String × PVal)) : List (String × PVal) :=
  let nm := name.filter (fun s => s ≠ "")
  match k with
  | .bit =>           -- update_props(props); then `if name: self.name = name`
    let d := dictUpdate [] props
    match nm with | some n => dictSet d NAME_KEY (.s n) | none => d
  | _ =>              -- `if name: props[Name] = name`; then update_props(props)
    let d := match nm with | some n => [(NAME_KEY, PVal.s n)] | none => []
    dictUpdate d props

def setCell (h : Heap) (r : Ref) (c : Cell) : Heap := { h with cells := h.cells.set r c }
def setObj (h : Heap) (r : Ref) (o : FObj) : Heap := { h with objs := h.objs.set r o }

/-- counts of a folded child recomputed from the child's unfolding map and the parent's counts
(`CountFingerprint.fold`: `counts_method([self.get_count(x) for x in ind_set])`) -/
def foldedCounts (k : Kind) (cm : CountsMethod) (parentCnt : List (Nat × Rat)) (m : List (Nat × List Nat)) :
    List (Nat × Rat) :=
  m.map (fun p => (p.1, coerce k (combine cm (p.2.map (lookupQ parentCnt)))))

/-- the values of a list of objects (`none` when one of them is not a live, well-formed object) -/
def absAll (h : Heap) : List Ref → Option (List Fp)
  | [] => some []
  | r :: rs =>
    match getObj h r with
    | none => none
    | some o =>
      match absFp h o, absAll h rs with
      | some v, some vs => some (v :: vs)
      | _, _ => none

def step (h : Heap) : Op → Heap × Ans
  | .new k ix c bits level name props =>
    let r := match k with
      | .bit => mkBit (ix.getD []) bits level
      | _ => mkCount k ix c bits level
    (match r with
     | .error e => (h, .err e)
     | .ok v => let (h', r) := allocFp h v (initProps k name props) none none; (h', .ref r))
  | .fromFp k src =>
    (match getObj h src with
     | none => (h, .bad)
     | some o =>
       match absFp h o, getProps h o.props with
       | some v, some p =>
         (match fromFingerprint k v with
          | .error e => (h, .err e)
          | .ok v' => let (h', r) := allocFp h v' (dictUpdate [] p) none none; (h', .ref r))
       | _, _ => (h, .bad))
  | .fold src bits method linked cm =>
    (match getObj h src with
     | none => (h, .bad)
     | some o =>
       match absFp h o, getProps h o.props, getCache h o.cache with
       | some v, some p, some cache =>
         (match v.fold bits method cm with
          | .error e => (h, .err e)
          | .ok v' =>
            match dictGet cache (bits, method) with
            | some child =>
              -- cached: the cached object is returned; a count / float child gets a new counts dict
              (match o.kind, getObj h child with
               | .bit, _ => (h, .ref child)
               | k, some co =>
                 (match co.i2u.bind (getI2u h) with
                  | some m =>
                    let (h1, rc) := alloc h (.cnts (foldedCounts k cm v.cnt m))
                    (setObj h1 child { co with cnt := some rc }, .ref child)
                  | none => (h, .bad))
               | _, none => (h, .bad))
            | none =>
              -- a new folding map replaces the source's, a new object is built
              let (h1, rf) := alloc h (.i2f (v.foldMap bits method))
              let (h2, child) := allocFp h1 v' (dictUpdate [] p) (some (v.unfoldMap bits method))
                                   (if linked then some src else none)
              let h3 := setObj h2 src { o with i2f := some rf }
              let h4 := if linked then setCell h3 o.cache (.cache (dictSet cache (bits, method) child)) else h3
              (h4, .ref child))
       | _, _, _ => (h, .bad))
  | .setProp r k v =>
    (match getObj h r with
     | some o => (match getProps h o.props with
        | some p => (setCell h o.props (.props (dictSet p k v)), .unit)
        | none => (h, .bad))
     | none => (h, .bad))
  | .setName r n =>
    (match getObj h r with
     | some o => (match getProps h o.props with
        | some p => (setCell h o.props (.props (dictSet p NAME_KEY (.s n))), .unit)
        | none => (h, .bad))
     | none => (h, .bad))
  | .setLevel r l =>
    (match getObj h r with
     | some o => (setObj h r { o with level := l }, .unit)
     | none => (h, .bad))
  | .pokeIdx r pos val =>
    (match getObj h r with
     | some o => (match getArr h o.idx with
        | some a => if pos < a.length then (setCell h o.idx (.arr (a.set pos val)), .unit) else (h, .err .index)
        | none => (h, .bad))
     | none => (h, .bad))
  | .pokeCount r key v =>
    (match getObj h r with
     | some o => (match o.cnt with
        | some rc => (match getCnts h rc with
            | some d => (setCell h rc (.cnts (dictSet d key v)), .unit)
            | none => (h, .bad))
        | none => (h, .bad))
     | none => (h, .bad))
  | .setCounts r d =>
    (match getObj h r with
     | some o => (match o.kind with
        | .bit => (h, .bad)
        | k =>
          let (h1, rc) := alloc h (.cnts (d.map (fun p => (p.1, coerce k p.2))))
          (setObj h1 r { o with cnt := some rc }, .unit))
     | none => (h, .bad))
  | .setOp op a b =>
    (match getObj h a, getObj h b with
     | some oa, some ob =>
       (match absFp h oa, absFp h ob with
        | some va, some vb =>
          (match Fp.setOp op va vb with
           | .error e => (h, .err e)
           | .ok v => let (h', r) := allocFp h v [] none none; (h', .ref r))
        | _, _ => (h, .bad))
     | _, _ => (h, .bad))
  | .addSub sign a b =>
    (match getObj h a, getObj h b with
     | some oa, some ob =>
       (match absFp h oa, absFp h ob with
        | some va, some vb =>
          (match Fp.addSub sign va vb with
           | .error e => (h, .err e)
           | .ok v => let (h', r) := allocFp h v [] none none; (h', .ref r))
        | _, _ => (h, .bad))
     | _, _ => (h, .bad))
  | .scalar o a x =>
    (match getObj h a with
     | none => (h, .bad)
     | some oa =>
       match absFp h oa, getProps h oa.props with
       | some va, some p =>
         (match (if o = 0 then va.mul x else if o = 1 then va.div x else va.floordiv x) with
          | .error e => (h, .err e)
          | .ok v => let (h', r) := allocFp h v (dictUpdate [] p) none none; (h', .ref r))
       | _, _ => (h, .bad))
  | .batch mean rs w =>
    (match absAll h rs with
     | none => (h, .bad)
     | some vs =>
       match (if mean then meanBatch vs w else addBatch vs w) with
       | .error e => (h, .err e)
       | .ok none => (h, .unit)
       | .ok (some v) => let (h', r) := allocFp h v [] none none; (h', .ref r))

def run (h : Heap) : List Op → Heap × List Ans
  | [] => (h, [])
  | op :: ops =>
    let (h1, a) := step h op
    let (h2, as) := run h1 ops
    (h2, a :: as)

/-- everything observable about one object: its value, properties, cache (keys and the objects they
name), parent link and index maps -/
structure View where
  val : Fp
  props : List (String × PVal)
  cache : List ((Nat × Nat) × Ref)
  unfolded : Option Ref
  i2f : Option (List (Nat × Nat))
  i2u : Option (List (Nat × List Nat))
  deriving Repr

def view (h : Heap) (r : Ref) : Option View :=
  match getObj h r with
  | none => none
  | some o =>
    match absFp h o, getProps h o.props, getCache h o.cache with
    | some v, some p, some c =>
      some ⟨v, p, c, o.unfolded, o.i2f.bind (getI2f h), o.i2u.bind (getI2u h)⟩
    | _, _, _ => none

/-- the cells an object refers to: `(field name, cell)` -/
def slots (o : FObj) : List (String × Ref) :=
  [("indices", o.idx), ("props", o.props), ("cache", o.cache)]
  ++ (match o.cnt with | some r => [("counts", r)] | none => [])
  ++ (match o.i2f with | some r => [("i2f", r)] | none => [])
  ++ (match o.i2u with | some r => [("i2u", r)] | none => [])

/-- the live objects, in creation order -/
def objects (h : Heap) : List Ref := List.range h.objs.length

end H
end E3fpVerif
