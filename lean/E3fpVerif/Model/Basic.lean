/-!
# Basic list machinery shared by the container models

`uniq` is `numpy.unique` on a list of naturals: ascending and duplicate free.  It is written as a
fold of a sorted insertion so that every fact about it is a three-line induction.
-/
namespace E3fpVerif

/-- insert `x` into an ascending duplicate-free list, keeping it so -/
def insertU (x : Nat) : List Nat → List Nat
  | [] => [x]
  | y :: ys => if x < y then x :: y :: ys else if x = y then y :: ys else y :: insertU x ys

/-- `numpy.unique` -/
def uniq (l : List Nat) : List Nat := l.foldr insertU []

/-- strictly ascending -/
def StrictAsc (l : List Nat) : Prop := l.Pairwise (· < ·)

instance (l : List Nat) : Decidable (StrictAsc l) := by unfold StrictAsc; infer_instance

/-- sum of a list of rationals (Python `sum`) -/
def sumQ : List Rat → Rat
  | [] => 0
  | x :: xs => x + sumQ xs

/-- association-list lookup with default 0 (`dict.get(k, 0)`) -/
def lookupQ (c : List (Nat × Rat)) (i : Nat) : Rat :=
  match c with
  | [] => 0
  | (k, v) :: rest => if k = i then v else lookupQ rest i

def hasKey (c : List (Nat × Rat)) (i : Nat) : Bool :=
  match c with
  | [] => false
  | (k, _) :: rest => k == i || hasKey rest i

/-- exact powers of two below a bound: `∃ n, a = b * 2^n`, decided by repeated halving -/
def isPow2Multiple (a b : Nat) : Bool :=
  if h : b = 0 then false
  else if a < b then false
  else if a = b then true
  else if a % 2 = 1 then false
  else isPow2Multiple (a / 2) b
termination_by a
decreasing_by omega

end E3fpVerif
