import E3fpVerif.Model.Db
import E3fpVerif.Gen.Metrics
/-!
# Model of `e3fp.fingerprint.metrics`

Three families, kept apart because the property is that they agree:
* `fp*`  — `fprint_metrics`, on index sets / count dictionaries of two fingerprints;
* `arr*` — `array_metrics`, on rows of a matrix: the sparse route (row sums, `X·Yᵀ`, the two-pointer
  Soergel merge kernel) and the dense route (the Soergel double loop);
* `*Def` — the mathematical definitions.

Tanimoto, Dice and Soergel are rationals.  Cosine and Pearson need a square root: the model returns the
exact pair `(numerator, radicand)`; the value is `numerator / sqrt radicand` (0 when the radicand is 0).
The ratio expressions themselves are generated from the source (`Gen.Metrics`).
-/
namespace E3fpVerif

def absQ (q : Rat) : Rat := if q < 0 then -q else q
def maxQ (a b : Rat) : Rat := if a < b then b else a

/-- value of column `i` in a row (first stored entry) -/
def rowVal (r : Row) (i : Nat) : Rat := lookupQ r i

def rowCols (r : Row) : List Nat := uniq (r.map Prod.fst)

/-- columns with a non-zero value -/
def rowSupport (r : Row) : List Nat := (rowCols r).filter (fun i => decide (rowVal r i ≠ 0))

def unionCols (x y : Row) : List Nat := uniq (x.map Prod.fst ++ y.map Prod.fst)

def dotQ (x y : Row) : Rat := sumQ ((unionCols x y).map (fun i => rowVal x i * rowVal y i))
def rowSum (x : Row) : Rat := sumQ ((rowCols x).map (rowVal x))

/-- `nan_to_num(a / b)` for finite `a`: `0/0 ↦ 0` -/
def divNan (a b : Rat) : Rat := if b = 0 then 0 else a / b

/-! ## definitions -/

def interCount (a b : List Nat) : Nat := (a.filter (fun i => decide (i ∈ b))).length

def tanimotoDef (x y : Row) : Rat :=
  let a := rowSupport x; let b := rowSupport y
  let i := interCount a b
  divNan i ((a.length + b.length - i : Nat) : Rat)

def diceDef (x y : Row) : Rat :=
  let a := rowSupport x; let b := rowSupport y
  divNan (2 * (interCount a b : Nat)) ((a.length + b.length : Nat) : Rat)

def soergelDef (x y : Row) : Rat :=
  let u := unionCols x y
  let smax := sumQ (u.map (fun i => maxQ (rowVal x i) (rowVal y i)))
  let sad := sumQ (u.map (fun i => absQ (rowVal x i - rowVal y i)))
  if smax = 0 then 0 else 1 - sad / smax

/-- cosine = `num / sqrt rad` -/
def cosineDef (x y : Row) : Rat × Rat := (dotQ x y, dotQ x x * dotQ y y)

/-- Pearson correlation of the two length-`b` vectors = `num / sqrt rad` (population form) -/
def pearsonDef (b : Nat) (x y : Row) : Rat × Rat :=
  let n : Rat := b
  let mx := rowSum x / n; let my := rowSum y / n
  (dotQ x y / n - mx * my, (dotQ x x / n - mx * mx) * (dotQ y y / n - my * my))

/-! ## `fprint_metrics` -/

def fpTanimoto (f g : Fp) : Rat :=
  Gen.fpTanimotoExpr (interCount f.idx g.idx) f.idx.length g.idx.length

def fpDice (f g : Fp) : Rat :=
  Gen.fpDiceExpr (interCount f.idx g.idx) f.idx.length g.idx.length

/-- `fprint_metrics.soergel`; `none` is NaN (all-zero counts), an empty pair scores 0 -/
def fpSoergel (f g : Fp) : Rat :=
  if f.kind = .bit ∧ g.kind = .bit then fpTanimoto f g
  else
    let u := uniq (f.idx ++ g.idx)
    let sad := sumQ (u.map (fun i => absQ (f.count i - g.count i)))
    let smax := sumQ (u.map (fun i => maxQ (f.count i) (g.count i)))
    if u = [] then 0 else if smax = 0 then 0 else 1 - sad / smax

def fpDot (f g : Fp) : Rat := sumQ (f.idx.map (fun i => f.count i * g.count i))
def fpSq (f : Fp) : Rat := sumQ (f.idx.map (fun i => f.count i * f.count i))
def fpSumC (f : Fp) : Rat := sumQ (f.idx.map f.count)

def fpCosine (f g : Fp) : Rat × Rat := (fpDot f g, fpSq f * fpSq g)

def fpPearson (f g : Fp) : Rat × Rat :=
  let n : Rat := f.bits
  let mf := fpSumC f / n; let mg := fpSumC g / (g.bits : Rat)
  (fpDot f g / n - mf * mg, (fpSq f / n - mf * mf) * (fpSq g / (g.bits : Rat) - mg * mg))

/-! ## `array_metrics`, sparse rows -/

def arrTanimoto (x y : Row) : Rat := Gen.arrTanimotoExpr (dotQ x y) (rowSum x) (rowSum y)
def arrDice (x y : Row) : Rat := Gen.arrDiceExpr (dotQ x y) (rowSum x) (rowSum y)

/-- the two-pointer merge of `_sparse_soergel`, on the stored entries in storage order:
returns `(sum_abs_diff, sum_max)` -/
def mergeSD : Row → Row → Rat × Rat
  | [], [] => (0, 0)
  | [], (_, w) :: ys => let r := mergeSD [] ys; (r.1 + w, r.2 + w)
  | (_, v) :: xs, [] => let r := mergeSD xs []; (r.1 + v, r.2 + v)
  | (i, v) :: xs, (j, w) :: ys =>
    if i < j then let r := mergeSD xs ((j, w) :: ys); (r.1 + v, r.2 + v)
    else if j < i then let r := mergeSD ((i, v) :: xs) ys; (r.1 + w, r.2 + w)
    else
      let r := mergeSD xs ys
      if v - w > 0 then (r.1 + (v - w), r.2 + v) else (r.1 - (v - w), r.2 + w)
termination_by x y => x.length + y.length

/-- sort a row by column (`sorted_indices`) -/
def sortRow (r : Row) : Row := (rowCols r).flatMap (fun j => r.filter (fun p => p.1 = j))

/-- `array_metrics.soergel` on two CSR rows -/
def arrSoergelSparse (x y : Row) : Rat :=
  if x = [] ∨ y = [] then 0
  else
    let r := mergeSD (sortRow x) (sortRow y)
    if r.2 = 0 then 0 else 1 - r.1 / r.2

/-- `_dense_soergel` on two dense rows of equal length -/
def arrSoergelDense (x y : List Rat) : Rat :=
  let r := (x.zip y).foldl (fun (acc : Rat × Rat) p =>
    if p.1 - p.2 > 0 then (acc.1 + (p.1 - p.2), acc.2 + p.1) else (acc.1 - (p.1 - p.2), acc.2 + p.2)) (0, 0)
  if r.2 = 0 then 0 else 1 - r.1 / r.2

def arrCosine (x y : Row) : Rat × Rat := (dotQ x y, dotQ x x * dotQ y y)

/-- sparse Pearson: covariance with `b - 1`, ratio of covariance to the outer product of deviations -/
def arrPearson (b : Nat) (x y : Row) : Rat × Rat :=
  let n : Rat := b
  let mx := rowSum x / n; let my := rowSum y / n
  let cov := fun (p q : Row) (mp mq : Rat) => (dotQ p q - n * mp * mq) / (n - 1)
  (cov x y mx my, cov x x mx mx * cov y y my my)

end E3fpVerif
