/-!
# Model of a batch fingerprinting run (`e3fp.fingerprint.generate.run`)

Inputs are processed independently; the collector receives the per-input results in *completion
order* (any permutation) and concatenates the good ones.  The file system is a finite map from paths
to contents.  `ρ` is the type of a named fingerprint row, `κ` of file contents.
-/
namespace E3fpVerif

/-- per-input outcome of `fprints_dict_from_sdf`: `none` for an unreadable file or a fingerprinting
error (`False` / `{}`), `some rows` otherwise -/
abbrev Outcome (ρ : Type) := Option (List ρ)

/-- the collector loop of `run`: failed inputs are skipped -/
def collect {ρ : Type} (results : List (Outcome ρ)) : List ρ := results.flatMap (fun o => o.getD [])

/-- a batch: outcome of every input, delivered in the order `sched` (a permutation of the inputs) -/
def batchRows {ι ρ : Type} (outcome : ι → Outcome ρ) (sched : List ι) : List ρ := collect (sched.map outcome)

abbrev FS (κ : Type) := List (String × κ)

def fsGet {κ : Type} (fs : FS κ) (p : String) : Option κ := (fs.find? (fun e => e.1 = p)).map Prod.snd
def fsPut {κ : Type} (fs : FS κ) (p : String) (c : κ) : FS κ := (p, c) :: fs.filter (fun e => e.1 ≠ p)

/-- one input under the save option: its output path, and the content a clean run writes (`none` when
the input fails).  `fprints_dict_from_mol`: skip when the file exists and `overwrite` is off. -/
def processInput {κ : Type} (overwrite : Bool) (fs : FS κ) (path : String) (content : Option κ) : FS κ :=
  match content with
  | none => fs
  | some c => if (fsGet fs path).isSome && !overwrite then fs else fsPut fs path c

def batchFiles {κ : Type} (overwrite : Bool) (jobs : List (String × Option κ)) (fs : FS κ) : FS κ :=
  jobs.foldl (fun acc j => processInput overwrite acc j.1 j.2) fs

end E3fpVerif
