import E3fpVerif.Model.Db
import E3fpVerif.Model.DbHist
/-!
# From a batch run to a database

The collector of a batch run receives, per input and in completion order, the list of fingerprints the
input produced (empty for a failed input) and stores every non-empty list with `add_fingerprints` in
one database created beforehand.  `dbOfBatch` is that loop on the operational model of the database:
the final database and the answer of every addition.
-/
namespace E3fpVerif

/-- the collector loop from a given database: empty result lists are skipped, the others are added in
order; the answers of the additions are collected -/
def dbOfBatchFrom (db : Db) : List (List FpIn) → Db × List Ans
  | [] => (db, [])
  | fps :: rest =>
    if fps.isEmpty then dbOfBatchFrom db rest
    else
      let r := db.add fps
      let q := dbOfBatchFrom r.1 rest
      (q.1, r.2 :: q.2)

/-- the database a batch run builds from the per-input results, in completion order -/
def dbOfBatch (k : Kind) (level : Int) (name : Option String) (results : List (List FpIn)) : Db × List Ans :=
  dbOfBatchFrom (Db.new k level name) results

end E3fpVerif
