import E3fpVerif.Model.Fprint
import E3fpVerif.Model.Murmur
import E3fpVerif.Model.Geom
/-!
# Model of `e3fp.fingerprint.fprinter.Fingerprinter`

The discrete algorithm, parametrised by a `Geo`: the two geometric *decisions* it ever takes
(is atom `b` within the level-`k` shell of atom `a`; the stereo codes of the neighbours of a centre).
`Geo.ofCoords` builds a `Geo` from coordinates with the functions of `Model/Geom.lean`.

Shells are compared structurally in the code (`Shell.__eq__`: same centre, equal member shells,
recursively).  The model interns them bottom-up: a shell's id is the index of its key
`(centre, sorted member ids)` in a table, so two shells are structurally equal iff their ids are.
-/
namespace E3fpVerif

structure AtomInfo where
  idx : Nat
  atomicNum : Nat
  /-- `GetDegree()`: explicit neighbours, hydrogens included -/
  degree : Nat
  /-- `invariants_from_atom` (Daylight) and `rdkit_invariants_from_atom` -/
  invD : List Int
  invR : List Int
  deriving Repr, Inhabited

structure MolG where
  atoms : List AtomInfo
  /-- (begin, end, BOND_TYPES code; 0 for a bond type the table lacks) -/
  bonds : List (Nat × Nat × Nat)
  deriving Repr, Inhabited

structure Opts where
  bits : Nat
  level : Int
  stereo : Bool
  counts : Bool
  includeDisconnected : Bool
  rdkitInvariants : Bool
  excludeFloating : Bool
  removeDup : Bool
  deriving Repr, Inhabited, DecidableEq

structure Geo where
  within : Nat → Nat → Nat → Bool
  stereo : Nat → List (Nat × Int × Nat) → List Int

/-- the atoms the fingerprinter keeps: heavy atoms; with `exclude_floating` and more than one heavy
atom, only those with at least one bond -/
def retained (o : Opts) (m : MolG) : List Nat :=
  let heavy := (m.atoms.filter (fun a => a.atomicNum > 1)).map (·.idx)
  if o.excludeFloating && heavy.length > 1 then
    (m.atoms.filter (fun a => a.atomicNum > 1 && a.degree > 0)).map (·.idx)
  else heavy

def bondCode (m : MolG) (a b : Nat) : Option Nat :=
  (m.bonds.find? (fun e => (e.1 = a ∧ e.2.1 = b) ∨ (e.1 = b ∧ e.2.1 = a))).map (·.2.2)

/-- `self.connectivity[(a, b)]` -/
def conn (m : MolG) (a b : Nat) : Nat := (bondCode m a b).getD Gen.BOND_UNBOUND

def bonded (m : MolG) (a b : Nat) : Bool := (bondCode m a b).isSome

def atomInfo (m : MolG) (a : Nat) : AtomInfo := (m.atoms.find? (fun x => x.idx = a)).getD default

/-- level-0 identifier: hash of the atom invariants -/
def initIdent (o : Opts) (m : MolG) (a : Nat) : Int :=
  murmur Gen.MMH3_SEED (if o.rdkitInvariants then (atomInfo m a).invR else (atomInfo m a).invD)

structure GShell where
  atom : Nat
  sid : Nat
  sub : List Nat
  nbrs : List Nat
  ident : Int
  deriving Repr, Inhabited, DecidableEq

abbrev Intern := List (Nat × List Nat)

def intern (t : Intern) (k : Nat × List Nat) : Intern × Nat :=
  match t.idxOf? k with
  | some i => (t, i)
  | none => (t ++ [k], t.length)

def shellOf (l : List GShell) (a : Nat) : GShell := (l.find? (fun s => s.atom = a)).getD default

/-- lexicographic order on integer lists (Python tuple comparison) -/
def ltIntList : List Int → List Int → Bool
  | [], [] => false
  | [], _ :: _ => true
  | _ :: _, [] => false
  | a :: as, b :: bs => a < b || (a == b && ltIntList as bs)

def lt3 (a b : Nat × Int × Nat) : Bool :=
  a.1 < b.1 || (a.1 == b.1 && (a.2.1 < b.2.1 || (a.2.1 == b.2.1 && a.2.2 < b.2.2)))

/-- `atom_tuples_from_shell`, flattened -/
def atomTuples (o : Opts) (m : MolG) (g : Geo) (prev : List GShell) (a : Nat) (nb : List Nat) : List Int :=
  if nb = [] then [] else
  let base := sortByLt lt3 (nb.map (fun b => (conn m a b, (shellOf prev b).ident, b)))
  let tuples : List (List Int) :=
    if o.stereo then
      let inds := g.stereo a base
      (base.zip inds).map (fun p => [(p.1.1 : Int), p.1.2.1, p.2])
    else base.map (fun t => [(t.1 : Int), t.2.1])
  (sortByLt ltIntList tuples).flatten

/-- `identifier_from_shell` -/
def shellIdent (o : Opts) (m : MolG) (g : Geo) (prev : List GShell) (level : Nat) (a : Nat) (nb : List Nat) : Int :=
  murmur Gen.MMH3_SEED ([(level : Int), (shellOf prev a).ident] ++ atomTuples o m g prev a nb)

/-- `ShellsGenerator.__next__` at level 0 -/
def genLevel0 (o : Opts) (m : MolG) (atoms : List Nat) (t : Intern) : Intern × List GShell :=
  atoms.foldl (fun (acc : Intern × List GShell) a =>
    let (t', i) := intern acc.1 (a, [])
    (t', acc.2 ++ [{ atom := a, sid := i, sub := [a], nbrs := [], ident := initIdent o m a }])) (t, [])

/-- `ShellsGenerator.__next__` at level `k ≥ 1`, with the identifiers `Fingerprinter.__next__` assigns -/
def genLevel (o : Opts) (m : MolG) (g : Geo) (atoms : List Nat) (prev : List GShell) (k : Nat) (t : Intern) :
    Intern × List GShell :=
  atoms.foldl (fun (acc : Intern × List GShell) a =>
    let nb := atoms.filter (fun b => b != a && g.within k a b && (o.includeDisconnected || bonded m a b))
    let members := uniq (nb.map (fun b => (shellOf prev b).sid))
    let (t', i) := intern acc.1 (a, members)
    let sub := uniq (a :: nb.flatMap (fun b => (shellOf prev b).sub))
    (t', acc.2 ++ [{ atom := a, sid := i, sub := sub, nbrs := nb, ident := shellIdent o m g prev k a nb }])) (t, [])

structure FState where
  tbl : Intern
  /-- generator shells per level (`shells_gen.shells_dict`); the last index is `current_level` -/
  gen : List (List GShell)
  /-- `level_shells` -/
  levelShells : List (List GShell)
  /-- `past_substructs` -/
  past : List (List Nat)
  deriving Repr, Inhabited

def FState.currentLevel (s : FState) : Nat := s.gen.length - 1

def ltShell (a b : GShell) : Bool := a.ident < b.ident || (a.ident == b.ident && a.atom < b.atom)

/-- set union keyed by structural identity, keeping the element already present -/
def unionShells (old new : List GShell) : List GShell :=
  new.foldl (fun acc s => if acc.any (fun x => x.sid == s.sid) then acc else acc ++ [s]) old

/-- duplicate-substructure filter, in the given order -/
def dedupShells (past : List (List Nat)) (cands : List GShell) : List (List Nat) × List GShell :=
  cands.foldl (fun (acc : List (List Nat) × List GShell) s =>
    if acc.1.contains s.sub then acc else (acc.1 ++ [s.sub], acc.2 ++ [s])) (past, [])

/-- the state after level 0 -/
def initState (o : Opts) (m : MolG) (atoms : List Nat) : FState :=
  let (t, l0) := genLevel0 o m atoms []
  { tbl := t, gen := [l0], levelShells := [l0], past := l0.map (·.sub) }

/-- one `Fingerprinter.__next__` after level 0; `none` is `StopIteration` -/
def stepState (o : Opts) (m : MolG) (g : Geo) (atoms : List Nat) (s : FState) : Option FState :=
  let cur := s.currentLevel
  if o.level ≠ -1 && (cur : Int) ≥ o.level then none
  else
    let curGen := s.gen.getLastD []
    if o.removeDup && curGen.all (fun x => x.sub.length == atoms.length) then none
    else
      let k := cur + 1
      let (t', shells) := genLevel o m g atoms curGen k s.tbl
      let sorted := sortByLt ltShell shells
      let (past', accepted) := if o.removeDup then dedupShells s.past sorted else (s.past, sorted)
      let prevLS := s.levelShells.getLastD []
      let ls := unionShells prevLS accepted
      if ls.length = prevLS.length then none
      else some { tbl := t', gen := s.gen ++ [shells], levelShells := s.levelShells ++ [ls], past := past' }

def iterate (o : Opts) (m : MolG) (g : Geo) (atoms : List Nat) : Nat → FState → FState
  | 0, s => s
  | fuel + 1, s =>
    match stepState o m g atoms s with
    | none => s
    | some s' => iterate o m g atoms fuel s'

/-- `Fingerprinter(...)` then `run(conf, mol)` -/
def runFp (o : Opts) (m : MolG) (g : Geo) : Except Err FState :=
  if o.level = -1 && !o.removeDup then .error .other
  else if m.bonds.any (fun e => e.2.2 = 0) then .error .key
  else
    let atoms := retained o m
    if atoms = [] then .error .value
    else
      let fuel := if o.level = -1 then 2 ^ atoms.length + 1 else o.level.toNat
      .ok (iterate o m g atoms fuel (initState o m atoms))

/-- resolution of the requested level to an index into `level_shells`: `-1`/`None` and levels that
were never generated resolve to the current (last) level -/
def resolveLevel (s : FState) (req : Option Int) : Nat :=
  let cur := s.currentLevel
  match req with
  | none => cur
  | some l => if 0 ≤ l ∧ l.toNat < s.levelShells.length then l.toNat else cur

/-- `get_shells_at_level(level, atom_mask)` -/
def shellsAt (s : FState) (req : Option Int) (mask : List Nat) : List GShell :=
  (s.levelShells.getD (resolveLevel s req) []).filter (fun x => !(x.sub.any (fun a => mask.contains a)))

/-- `get_fingerprint_at_level(level, bits, atom_mask)`; the fingerprint is labelled with the level
as requested (`None` is rendered as `-1`, the fingerprint classes' own default) -/
def fingerprintAt (o : Opts) (s : FState) (req : Option Int) (bits : Option Nat) (mask : List Nat) : Except Err Fp := do
  let ids := (shellsAt s req mask).map (fun x => (Gen.signedToUnsigned x.ident (Gen.BITS : Nat)).toNat)
  let f ← fromIndices (if o.counts then .count else .bit) ids none Gen.BITS (req.getD (-1))
  f.fold (bits.getD o.bits) 0

/-! ## geometry from coordinates -/

variable {α : Type} [Scalar α]

/-- the `Geo` of a conformer: coordinates `X`, shell radius multiplier `mult` -/
def Geo.ofCoords (mult : α) (X : Nat → V3 α) : Geo where
  within k a b := Scalar.le (V3.dist (X a) (X b)) (Scalar.mul (Scalar.ofNat k) mult)
  stereo c tuples := stereoIndicators (tuples.map (fun t => (t.1, t.2.1, V3.sub (X t.2.2) (X c))))

end E3fpVerif
