/-!
# Model of the logic of `mol_to_sdf` / `mol_from_sdf` (conformer order, limits, energies)

A conformer is identified by its position in the molecule's conformer list; the SDF record format,
coordinate precision and compression belong to RDKit / smart_open.
-/
namespace E3fpVerif

/-- `'{:.4f}'.format(e)` read back with `float(...)`: nearest multiple of 1e-4, ties to even -/
def round4 (q : Rat) : Rat :=
  let s := q * 10000
  let f := s.floor
  let r := s - (f : Rat)
  let up : Int := if r < 1 / 2 then f else if 1 / 2 < r then f + 1 else if f % 2 = 0 then f else f + 1
  (up : Rat) / 10000

/-- `mol_to_sdf(mol, file, conf_num)`: the records written, in order: (conformer position, energy) -/
def writeRecords (n : Nat) (energies : Option (List Rat)) (wlim : Option Int) : List (Nat × Option Rat) :=
  let count := match wlim with
    | none => n
    | some l => if l = -1 then n else min n l.toNat
  (List.range count).map (fun i => (i, energies.bind (fun es => (es[i]?).map round4)))

/-- `mol_from_sdf(file, conf_num)`: conformers in file order up to the limit, energies gathered -/
def readRecords (recs : List (Nat × Option Rat)) (rlim : Option Nat) : List Nat × List Rat :=
  let taken := match rlim with | none => recs | some l => recs.take l
  (taken.map Prod.fst, taken.filterMap Prod.snd)

/-- energies as stored on the molecule by `add_conformer_energies_to_mol` -/
def storeEnergies (es : List Rat) : List Rat := es.map round4

end E3fpVerif
