/-!
# Model of the SMILES-file reader and writer of `e3fp.conformer.util`

`iter_to_smiles` / `dict_to_smiles` write one line `"<smiles> <name>\n"` per entry (the dict sorted by
name); `smiles_generator` reads a file line by line, strips the line terminator, splits the line on
whitespace (Python's `str.split()`) and yields the first two fields of every line that has at least
two; `smiles_to_dict` collects them into a dict keyed by name (a later line replaces an earlier one;
with `unique=True` the first occurrence of a name *and* of a SMILES string wins), optionally skipping
a header line.  Text is `List Char` throughout.
-/
namespace E3fpVerif

/-- the characters Python's `str.split()` / `str.isspace()` treats as separators (ASCII ones plus the
Unicode spaces that occur in practice) -/
def isWs (c : Char) : Bool :=
  c = ' ' || c = '\t' || c = '\n' || c = '\r' || c = '\x0b' || c = '\x0c' || c = '\x1c' || c = '\x1d' || c = '\x1e' ||
  c = '\x1f' || c = '\u0085' || c = ' ' || c = ' ' || c = ' ' || c = '　'

/-- `str.split()`: maximal runs of non-whitespace characters -/
def splitWsAux : List Char → List Char → List (List Char)
  | [], cur => if cur.isEmpty then [] else [cur.reverse]
  | c :: rest, cur =>
    if isWs c then (if cur.isEmpty then splitWsAux rest [] else cur.reverse :: splitWsAux rest [])
    else splitWsAux rest (c :: cur)

def splitWs (s : List Char) : List (List Char) := splitWsAux s []

/-- one line written by `iter_to_smiles` (without the newline) -/
def renderLine (name smiles : List Char) : List Char := smiles ++ [' '] ++ name

/-- `(smiles, name)` of a line, `none` for a line with fewer than two fields (logged and skipped) -/
def parseLine (line : List Char) : Option (List Char × List Char) :=
  match splitWs line with
  | s :: n :: _ => some (s, n)
  | _ => none

/-- `dict[name] = smiles` on an insertion-ordered dict -/
def dictSet (d : List (List Char × List Char)) (name smiles : List Char) : List (List Char × List Char) :=
  match d with
  | [] => [(name, smiles)]
  | (k, v) :: rest => if k = name then (k, smiles) :: rest else (k, v) :: dictSet rest name smiles

def dictGet (d : List (List Char × List Char)) (name : List Char) : Option (List Char) :=
  match d with
  | [] => none
  | (k, v) :: rest => if k = name then some v else dictGet rest name

/-- insertion sort of the dict items by name (`sorted(smiles_dict.items())`; names are unique keys) -/
def ltChars : List Char → List Char → Bool
  | [], [] => false
  | [], _ :: _ => true
  | _ :: _, [] => false
  | a :: as, b :: bs => a < b || (a == b && ltChars as bs)

def insertItem (x : List Char × List Char) : List (List Char × List Char) → List (List Char × List Char)
  | [] => [x]
  | y :: ys => if ltChars x.1 y.1 then x :: y :: ys else y :: insertItem x ys

def sortItems (d : List (List Char × List Char)) : List (List Char × List Char) := d.foldr insertItem []

/-- `dict_to_smiles(file, d)`: the lines of the file -/
def writeTable (d : List (List Char × List Char)) : List (List Char) :=
  (sortItems d).map (fun e => renderLine e.1 e.2)

/-- `smiles_to_dict(file, unique, has_header)` on the lines of a file -/
def readTable (lines : List (List Char)) (unique hasHeader : Bool) : List (List Char × List Char) :=
  let recs := lines.filterMap parseLine
  let recs := if hasHeader then recs.drop 1 else recs
  if unique then
    (recs.foldl (fun (acc : List (List Char × List Char) × List (List Char)) r =>
      if (dictGet acc.1 r.2).isSome || acc.2.contains r.1 then acc else (dictSet acc.1 r.2 r.1, r.1 :: acc.2)) ([], [])).1
  else recs.foldl (fun acc r => dictSet acc r.2 r.1) []

/-- a field survives `str.split()` unchanged: non-empty, no whitespace -/
def Token (s : List Char) : Prop := s ≠ [] ∧ ∀ c ∈ s, isWs c = false

instance (s : List Char) : Decidable (Token s) := by unfold Token; infer_instance

end E3fpVerif
