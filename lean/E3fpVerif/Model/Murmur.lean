/-!
# MurmurHash3 x86-32 over the little-endian bytes of an int64 array

`mmh3.hash(array_of_int64, seed)` as used by `e3fp.fingerprint.fprinter.hash_int64_array`: every
int64 word contributes two 32-bit blocks (low half first), there is no tail, the length mixed in
at the end is `8 * n`, and the result is reinterpreted as a signed 32-bit integer.
-/
namespace E3fpVerif

def rotl32 (x : UInt32) (r : UInt32) : UInt32 := (x <<< r) ||| (x >>> (32 - r))

def mmBlock (h k : UInt32) : UInt32 :=
  let k := k * 0xcc9e2d51
  let k := rotl32 k 15
  let k := k * 0x1b873593
  let h := h ^^^ k
  let h := rotl32 h 13
  h * 5 + 0xe6546b64

def fmix32 (h : UInt32) : UInt32 :=
  let h := h ^^^ (h >>> 16)
  let h := h * 0x85ebca6b
  let h := h ^^^ (h >>> 13)
  let h := h * 0xc2b2ae35
  h ^^^ (h >>> 16)

/-- the two 32-bit blocks (low, high) of an int64 in two's complement -/
def wordBlocks (w : Int) : UInt32 × UInt32 :=
  let u : Nat := (w % (2 ^ 64 : Int)).toNat
  (UInt32.ofNat (u % 2 ^ 32), UInt32.ofNat (u / 2 ^ 32))

def murmurU32 (seed : UInt32) (words : List Int) : UInt32 :=
  let h := words.foldl (fun h w => let b := wordBlocks w; mmBlock (mmBlock h b.1) b.2) seed
  fmix32 (h ^^^ UInt32.ofNat (8 * words.length))

/-- the signed 32-bit result, as `mmh3` returns it -/
def murmur (seed : Nat) (words : List Int) : Int :=
  let h := (murmurU32 (UInt32.ofNat seed) words).toNat
  if h < 2 ^ 31 then (h : Int) else (h : Int) - 2 ^ 32

end E3fpVerif
