import E3fpVerif.Model.Basic
import E3fpVerif.Gen.FprintFold
/-!
# Model of `e3fp.fingerprint.fprint`

A fingerprint is its *content*: kind, length, level, the ascending index array and (for count and
float kinds) the counts dictionary, kept as an association list in index order.  Every public
constructor, converter and operator of `fprint.py` is a total function here returning
`Except Err _`, the error enum mirroring the exception classes of `e3fp.fingerprint.util`.
Counts are exact rationals; the harness only feeds values on which Python's doubles are exact.
-/
namespace E3fpVerif

inductive Kind | bit | count | float
  deriving DecidableEq, Repr, Inhabited

inductive Err
  | bitsValue | invalidFp | counts | option | value | type | index | key | zeroDiv | other
  deriving DecidableEq, Repr, Inhabited

structure Fp where
  kind : Kind
  bits : Nat
  level : Int
  idx : List Nat
  cnt : List (Nat × Rat)
  deriving DecidableEq, Repr, Inhabited

/-- Python `int(v)`: truncation toward zero -/
def truncQ (q : Rat) : Rat := if 0 ≤ q then (q.floor : Rat) else (-((-q).floor) : Int)

/-- the counts setter of each class: `int(v)` for counts, `float(v)` for floats -/
def coerce (k : Kind) (v : Rat) : Rat :=
  match k with
  | .count => truncQ v
  | _ => v

/-- `fp.get_count(i)` / `fp.counts.get(i, 0)`; 1 on the set bits of a bit fingerprint -/
def Fp.count (f : Fp) (i : Nat) : Rat :=
  match f.kind with
  | .bit => if i ∈ f.idx then 1 else 0
  | _ => lookupQ f.cnt i

/-- `fp.counts` as a dictionary in index order -/
def Fp.countsDict (f : Fp) : List (Nat × Rat) :=
  match f.kind with
  | .bit => f.idx.map (fun i => (i, 1))
  | _ => f.cnt

/-- the class invariant the constructors establish -/
def Fp.WF (f : Fp) : Prop :=
  StrictAsc f.idx ∧ (∀ i ∈ f.idx, i < f.bits) ∧
    (f.kind = .bit → f.cnt = []) ∧ (f.kind ≠ .bit → f.cnt.map Prod.fst = f.idx)

/-! ## constructors -/

/-- `Fingerprint(indices, bits, level)` -/
def mkBit (indices : List Nat) (bits : Nat) (level : Int) : Except Err Fp :=
  if indices.any (fun i => decide (i ≥ bits)) then .error .bitsValue
  else .ok ⟨.bit, bits, level, uniq indices, []⟩

/-- `CountFingerprint(indices, counts, bits, level)` and `FloatFingerprint(...)` -/
def mkCount (k : Kind) (indices : Option (List Nat)) (counts : Option (List (Nat × Rat)))
    (bits : Nat) (level : Int) : Except Err Fp :=
  match indices, counts with
  | none, none => .error .option
  | some ix, none =>
    if ix.any (fun i => decide (i ≥ bits)) then .error .bitsValue
    else .ok ⟨k, bits, level, uniq ix, (uniq ix).map (fun i => (i, coerce k (ix.count i : Nat)))⟩
  | some ix, some c =>
    if ix.any (fun i => decide (i ≥ bits)) then .error .bitsValue
    else
      let u := uniq ix
      if !(c.all (fun p => decide (p.1 ∈ u))) then .error .counts
      else if !(u.all (fun i => hasKey c i)) then .error .counts
      else .ok ⟨k, bits, level, u, u.map (fun i => (i, coerce k (lookupQ c i)))⟩
  | none, some c =>
    let u := uniq (c.map Prod.fst)
    if u.any (fun i => decide (i ≥ bits)) then .error .bitsValue
    else .ok ⟨k, bits, level, u, u.map (fun i => (i, coerce k (lookupQ c i)))⟩

/-- `cls.from_indices(indices, counts=…, bits, level)` for any class -/
def fromIndices (k : Kind) (indices : List Nat) (counts : Option (List (Nat × Rat)))
    (bits : Nat) (level : Int) : Except Err Fp :=
  match k with
  | .bit => mkBit indices bits level
  | _ => mkCount k (some indices) counts bits level

/-- `cls.from_fingerprint(fp)`: copy / convert between kinds -/
def fromFingerprint (k : Kind) (f : Fp) : Except Err Fp :=
  match k with
  | .bit => mkBit f.idx f.bits f.level
  | _ => mkCount k none (some (f.countsDict.filter (fun p => decide (0 < p.2)))) f.bits f.level

/-! ## folding -/

def foldIdx (method selfBits bits i : Nat) : Nat :=
  if method = 0 then Gen.foldPartition i selfBits bits else Gen.foldCompress i selfBits bits

inductive CountsMethod | sum | max | min
  deriving DecidableEq, Repr, Inhabited

def combine (m : CountsMethod) (l : List Rat) : Rat :=
  match m with
  | .sum => sumQ l
  | .max => l.foldl (fun a b => if a < b then b else a) (l.headD 0)
  | .min => l.foldl (fun a b => if b < a then b else a) (l.headD 0)

/-- original indices that fold onto `j` -/
def preimage (f : Fp) (bits method j : Nat) : List Nat :=
  f.idx.filter (fun i => foldIdx method f.bits bits i = j)

/-- `fp.fold(bits, method, counts_method=…)` -/
def Fp.fold (f : Fp) (bits method : Nat) (cm : CountsMethod := .sum) : Except Err Fp :=
  if bits > f.bits then .error .bitsValue
  else if !(isPow2Multiple f.bits bits) then .error .bitsValue
  else if method ≠ 0 ∧ method ≠ 1 then .error .option
  else
    let u := uniq (f.idx.map (foldIdx method f.bits bits))
    .ok { kind := f.kind, bits := bits, level := f.level, idx := u,
          cnt := match f.kind with
            | .bit => []
            | k => u.map (fun j => (j, coerce k (combine cm ((preimage f bits method j).map f.count)))) }

/-- `folded.get_unfolding_index_map()` -/
def Fp.unfoldMap (f : Fp) (bits method : Nat) : List (Nat × List Nat) :=
  (uniq (f.idx.map (foldIdx method f.bits bits))).map (fun j => (j, preimage f bits method j))

/-- `fp.get_folding_index_map()` after the fold -/
def Fp.foldMap (f : Fp) (bits method : Nat) : List (Nat × Nat) :=
  f.idx.map (fun i => (i, foldIdx method f.bits bits i))

/-! ## equality -/

/-- `f == g` -/
def Fp.eq (f g : Fp) : Except Err Bool :=
  match f.kind, g.kind with
  | .bit, .bit => .ok (f.level == g.level && f.bits == g.bits && f.idx == g.idx)
  | .bit, _ => .error .invalidFp   -- Python tries the subclass's reflected `__eq__` first, which rejects a bit operand
  | _, .bit => .error .invalidFp
  | _, _ => .ok (f.level == g.level && f.bits == g.bits && f.cnt == g.cnt && f.kind == g.kind)

/-- `f != g` -/
def Fp.ne (f g : Fp) : Except Err Bool := (f.eq g).map not

/-! ## set operators on index arrays (`Fingerprint.__or__` etc.; results are bit fingerprints
of level -1, as the code constructs them) -/

inductive SetOp | or | add | and | sub | xor
  deriving DecidableEq, Repr, Inhabited

def setOpIdx (op : SetOp) (a b : List Nat) : List Nat :=
  match op with
  | .or | .add => uniq (a ++ b)
  | .and => a.filter (fun i => decide (i ∈ b))
  | .sub => a.filter (fun i => !decide (i ∈ b))
  | .xor => uniq (a.filter (fun i => !decide (i ∈ b)) ++ b.filter (fun i => !decide (i ∈ a)))

/-- `f | g`, `f + g`, `f & g`, `f - g`, `f ^ g` for a bit fingerprint `f` -/
def Fp.setOp (op : SetOp) (f g : Fp) : Except Err Fp :=
  if f.bits ≠ g.bits then .error .bitsValue
  else mkBit (setOpIdx op f.idx g.idx) f.bits (-1)

/-! ## arithmetic on count / float fingerprints -/

def resultLevel (f g : Fp) : Int := if f.level = g.level then f.level else -1
def resultKind (f g : Fp) : Kind := if g.kind = .float then .float else f.kind

/-- `f + g` (`sign = 1`) and `f - g` (`sign = -1`) for count/float `f` -/
def Fp.addSub (sign : Int) (f g : Fp) : Except Err Fp :=
  match g.kind with
  | .bit => .error .invalidFp
  | _ =>
    if f.bits ≠ g.bits then .error .bitsValue
    else
      let k := resultKind f g
      let val := fun i => coerce k (f.count i + sign * g.count i)
      -- `__sub__` drops positions whose counts cancel; `__add__` keeps every position
      let u := (uniq (f.idx ++ g.idx)).filter (fun i => sign = 1 || decide (val i ≠ 0))
      .ok ⟨k, f.bits, resultLevel f g, u, u.map (fun i => (i, val i))⟩

/-- `f * x` -/
def Fp.mul (f : Fp) (x : Rat) : Except Err Fp := do
  let c ← fromFingerprint f.kind f
  .ok { c with cnt := c.idx.map (fun i => (i, coerce f.kind (f.count i * x))) }

/-- `f / x` : always a float fingerprint -/
def Fp.div (f : Fp) (x : Rat) : Except Err Fp := do
  if x = 0 then .error .zeroDiv
  let c ← fromFingerprint .float f
  .ok { c with cnt := c.idx.map (fun i => (i, f.count i / x)) }

/-- `f // x` : counts below `x` vanish, the rest are `int(v / x)`; always a count fingerprint -/
def Fp.floordiv (f : Fp) (x : Rat) : Except Err Fp := do
  if x = 0 then .error .zeroDiv
  let keep := f.idx.filter (fun i => decide (f.count i ≥ x))
  .ok ⟨.count, f.bits, f.level, keep, keep.map (fun i => (i, truncQ (f.count i / x)))⟩

/-- `fprint.add(fprints, weights)` -/
def addBatch (fs : List Fp) (weights : Option (List Rat)) : Except Err (Option Fp) :=
  match fs with
  | [] => .ok none
  | f0 :: _ =>
    match weights with
    | none =>
      let k := if fs.any (fun f => f.kind == .float) then Kind.float else Kind.count
      let u := uniq (fs.flatMap (·.idx))
      .ok (some ⟨k, f0.bits, f0.level, u, u.map (fun i => (i, coerce k (sumQ (fs.map (·.count i)))))⟩)
    | some w =>
      if w.length ≠ fs.length then .error .value
      else
        let u := uniq (fs.flatMap (·.idx))
        .ok (some ⟨.float, f0.bits, f0.level, u,
          u.map (fun i => (i, sumQ ((fs.zip w).map (fun p => p.1.count i * p.2))))⟩)

/-- `fprint.mean(fprints, weights)` -/
def meanBatch (fs : List Fp) (weights : Option (List Rat)) : Except Err (Option Fp) :=
  match weights with
  | some w =>
    let s := sumQ w
    if s = 0 then .error .value else addBatch fs (some (w.map (· / s)))
  | none => do
    match ← addBatch fs none with
    | none => .error .type     -- `None / 0`
    | some a => (a.div fs.length).map some

/-! ## representations -/

/-- dense vector: value at every position, as `to_vector(sparse=False)` produces it
(bit kind: 1 on set bits) -/
def Fp.toDense (f : Fp) : List Rat := (List.range f.bits).map f.count

/-- `cls.from_vector(dense)` : non-zero positions and their values -/
def fromDense (k : Kind) (v : List Rat) (level : Int) : Except Err Fp :=
  let nz := v.zipIdx.filter (fun p => decide (p.1 ≠ 0))
  fromIndices k (nz.map Prod.snd) (some (nz.map (fun p => (p.2, p.1)))) v.length level

/-- `cls.from_vector(csr row)` : stored positions (explicit zeros included) and their values -/
def fromSparse (k : Kind) (stored : List (Nat × Rat)) (bits : Nat) (level : Int) : Except Err Fp :=
  fromIndices k (stored.map Prod.fst) (some stored) bits level

/-- `to_bitstring` -/
def Fp.toBitstring (f : Fp) : List Bool := (List.range f.bits).map (fun i => decide (i ∈ f.idx))

/-- `from_bitstring` -/
def fromBitstring (k : Kind) (s : List Bool) (level : Int) : Except Err Fp :=
  fromIndices k ((s.zipIdx.filter (fun p => p.1)).map Prod.snd) none s.length level

/-- `to_rdkit`: (`GetNumBits`, on bits) -/
def Fp.toRdkit (f : Fp) : Nat × List Nat :=
  (min f.bits (2 ^ 31 - 1), uniq (f.idx.map (· % (2 ^ 31 - 1))))

/-- `from_rdkit` -/
def fromRdkit (k : Kind) (nbits : Nat) (on : List Nat) : Except Err Fp :=
  fromIndices k on none (if nbits = 2 ^ 32 - 1 then 2 ^ 32 else nbits) (-1)

/-- pickling: `__getstate__` drops `indices` for count kinds, `__setstate__` rebuilds them
from the sorted count keys -/
def Fp.pickleRoundTrip (f : Fp) : Fp :=
  match f.kind with
  | .bit => f
  | _ => { f with idx := uniq (f.cnt.map Prod.fst) }

end E3fpVerif
