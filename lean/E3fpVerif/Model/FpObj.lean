import E3fpVerif.Model.Fprinter
/-!
# The `Fingerprinter` object across several `run()` calls

`run(conf, mol)` decides by *object identity* which reset to perform: a molecule object other than the
cached one triggers `reset_mol` + `initialize_mol` (atoms, connectivity, initial identifiers are
recomputed and cached); otherwise only the conformer-scoped state is reset.  The iteration then uses
the **cached** molecule-scoped values.  Identities are modelled as optional naturals: `none` is an
object nobody has seen before (`conf.GetOwningMol()` and `mol.GetConformer(i)` create fresh wrappers).
-/
namespace E3fpVerif

structure FpObj where
  o : Opts
  /-- identity of the cached molecule object -/
  molId : Option Nat
  /-- molecule-scoped caches: `self.atoms`, `self.init_identifiers` -/
  atoms : List Nat
  initIds : List (Nat × Int)
  /-- the molecule the caches were computed from (ghost: what `self.mol` denotes) -/
  molVal : MolG
  /-- conformer-scoped state of the last run -/
  state : Option FState

def FpObj.new (o : Opts) : FpObj :=
  { o := o, molId := none, atoms := [], initIds := [], molVal := ⟨[], []⟩, state := none }

def lookupId (ids : List (Nat × Int)) (a : Nat) : Int :=
  match ids.find? (fun p => p.1 = a) with
  | some p => p.2
  | none => 0

/-- level 0 from cached identifiers -/
def genLevel0Cached (ids : List (Nat × Int)) (atoms : List Nat) (t : Intern) : Intern × List GShell :=
  atoms.foldl (fun (acc : Intern × List GShell) a =>
    let (t', i) := intern acc.1 (a, [])
    (t', acc.2 ++ [{ atom := a, sid := i, sub := [a], nbrs := [], ident := lookupId ids a }])) (t, [])

def initStateCached (ids : List (Nat × Int)) (atoms : List Nat) : FState :=
  let (t, l0) := genLevel0Cached ids atoms []
  { tbl := t, gen := [l0], levelShells := [l0], past := l0.map (·.sub) }

/-- `run(conf, mol)`: `mid` is the identity of the molecule object passed (or derived), `m` the
molecule it denotes, `g` the geometry of the conformer -/
def FpObj.run (f : FpObj) (mid : Option Nat) (m : MolG) (g : Geo) : FpObj × Except Err Unit :=
  if m.bonds.any (fun e => e.2.2 = 0) then ({ f with state := none }, .error .key)
  else
    -- `mol is not self.mol`
    let same := mid.isSome && mid == f.molId
    let f1 : FpObj :=
      if same then { f with state := none }
      else
        let atoms := retained f.o m
        { f with molId := mid, atoms := atoms, initIds := atoms.map (fun a => (a, initIdent f.o m a)), molVal := m, state := none }
    if f1.atoms = [] then (f1, .error .value)
    else
      let fuel := if f.o.level = -1 then 2 ^ f1.atoms.length + 1 else f.o.level.toNat
      ({ f1 with state := some (iterate f.o f1.molVal g f1.atoms fuel (initStateCached f1.initIds f1.atoms)) }, .ok ())

end E3fpVerif
