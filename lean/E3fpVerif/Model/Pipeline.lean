import E3fpVerif.Model.Config
/-!
# Model of the logic of `e3fp.pipeline` / `fingerprint.generate.fprints_dict_from_mol`

The conformer loop with its `first` cut-off, conformer naming through `MolItemName`, the set of level
keys of the per-level dictionary and the level selection of `fprints_from_fprints_dict`.
-/
namespace E3fpVerif

def isDigit (c : Char) : Bool := (charDigit? c).isSome

/-- strip a trailing `<delim><digits>` (at least one digit, at least one character left before it);
returns the rest and the number -/
def stripSuffix (delim : Char) (cs : List Char) : List Char × Option Nat :=
  let rev := cs.reverse
  let ds := rev.takeWhile isDigit
  let rest := rev.dropWhile isDigit
  match rest with
  | d :: before =>
    if d = delim ∧ ds ≠ [] ∧ before ≠ [] then (before.reverse, digitsNat? ds.reverse) else (cs, none)
  | [] => (cs, none)

/-- `MolItemName.from_str(name)`: (mol_name, proto_state_num, conf_num) for the regex
`(.+?)(?:-(\d+))?(?:_(\d+))?$` -/
def parseMolItemName (name : List Char) : List Char × Option Nat × Option Nat :=
  let (r1, conf) := stripSuffix '_' name
  let (r2, proto) := stripSuffix '-' r1
  (r2, proto, conf)

/-- `MolItemName.from_str(name).to_conf_name(j)` -/
def confName (name : List Char) (j : Nat) : List Char :=
  let (mol, proto, _) := parseMolItemName name
  let protoName := match proto with
    | some p => mol ++ ['-'] ++ natDigits p
    | none => mol
  protoName ++ ['_'] ++ natDigits j

/-- number of conformers the loop of `fprints_dict_from_mol` processes -/
def firstN (first : Int) (n : Nat) : Nat :=
  if first < 0 then n else min first.toNat n

/-- keys of the per-level dictionary -/
def levelKeys (level : Int) (allIters : Bool) : List Int :=
  if level = -1 ∨ !allIters then [level] else (List.range (level.toNat + 1)).map (fun (i : Nat) => Int.ofNat i)

/-- `fprints_from_fprints_dict(dict, level)`: `dict.get(level, dict[max(keys)])` -/
def selectLevel (keys : List Int) (level : Option Int) : Option Int :=
  match level with
  | some l => if keys.contains l then some l else keys.foldl (fun acc k => match acc with | none => some k | some a => some (if a < k then k else a)) none
  | none => keys.foldl (fun acc k => match acc with | none => some k | some a => some (if a < k then k else a)) none

/-- a name is unaffected by the re-parsing iff it carries no `-digits` / `_digits` suffix -/
def NoSuffix (name : List Char) : Prop := parseMolItemName name = (name, none, none)

instance (name : List Char) : Decidable (NoSuffix name) := by unfold NoSuffix; infer_instance

end E3fpVerif
