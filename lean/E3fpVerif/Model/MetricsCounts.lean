import E3fpVerif.Model.Metrics
/-!
# The five measures of two 0/1 rows as functions of three counts

For rows whose stored values are all 1 every measure is determined by `a = |A|`, `b = |B|`, `c = |A ∩ B|`
(and, for Pearson, the row length `n`).  These closed forms are what the correspondence check evaluates
for rows far too long to enumerate (more than 2^24 on-bits, given as unions of ranges);
`Props/C06Counts.lean` proves that they are the definitions' values.
-/
namespace E3fpVerif

structure Counts where
  a : Nat
  b : Nat
  c : Nat
deriving Repr, DecidableEq

/-- the three counts of two rows -/
def countsOf (x y : Row) : Counts :=
  ⟨(rowSupport x).length, (rowSupport y).length, interCount (rowSupport x) (rowSupport y)⟩

def tanimotoC (k : Counts) : Rat := divNan k.c ((k.a + k.b - k.c : Nat) : Rat)
def diceC (k : Counts) : Rat := divNan (2 * (k.c : Nat)) ((k.a + k.b : Nat) : Rat)
/-- cosine = `num / sqrt rad` -/
def cosineC (k : Counts) : Rat × Rat := ((k.c : Nat), ((k.a : Nat) : Rat) * ((k.b : Nat) : Rat))
/-- Pearson of two 0/1 vectors of length `n` = `num / sqrt rad` -/
def pearsonC (n : Nat) (k : Counts) : Rat × Rat :=
  let n : Rat := n
  let mx := ((k.a : Nat) : Rat) / n; let my := ((k.b : Nat) : Rat) / n
  (((k.c : Nat) : Rat) / n - mx * my, (((k.a : Nat) : Rat) / n - mx * mx) * (((k.b : Nat) : Rat) / n - my * my))

end E3fpVerif
