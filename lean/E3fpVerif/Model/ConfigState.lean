import E3fpVerif.Model.Config
/-!
# Parameter sets as state: the packaged defaults on disk, the module-level `default_params` object, user files

`read_params(file, fill_defaults=True)` parses `defaults.cfg` *from disk* and then the user file; the module-level
`default_params` object is another thing: `update_params(..., params=default_params)` returns a shallow copy that shares its
section dictionaries with it, so deriving a variant from `default_params` changes the live object (what `get_default_value`
reads) - but never the file.  Values pass through `str()` and the automatic typing (`viaFile`).
-/
namespace E3fpVerif

abbrev CKey := String × String          -- (section, option)
abbrev CTable := List (CKey × CVal)

def ctGet : CTable → CKey → Option CVal
  | [], _ => none
  | (k', v) :: rest, k => if k' = k then some v else ctGet rest k

/-- `parser.set(section, option, value)`: overwrite in place or append -/
def ctSet : CTable → CKey → CVal → CTable
  | [], k, v => [(k, v)]
  | (k', v') :: rest, k, v => if k' = k then (k, v) :: rest else (k', v') :: ctSet rest k v

/-- a value written with `str()` and read back with the automatic typing -/
def viaFile (v : CVal) : CVal := parseVal (showVal v)

/-- the table `read_params(file, fill_defaults)` + automatic typing yields: the defaults (when requested), overridden by the user's entries -/
def readCfgTable (defaults user : CTable) : CTable :=
  user.foldl (fun t e => ctSet t e.1 (viaFile e.2)) defaults

structure CfgState where
  packaged : CTable        -- defaults.cfg as typed by the automatic typing (the file is never written)
  live : CTable            -- the module-level `default_params` object
  deriving Repr

inductive CfgOp
  | derive (sec : String) (kv : List (String × CVal))   -- update_params(kv, params=default_params, section_name=sec)
  | read (user : CTable) (fill : Bool)                  -- write the user table to a file, read it back with fill_defaults
  | getDefault (k : CKey)                               -- get_default_value
  deriving Repr

inductive CfgAns
  | table (t : CTable)
  | val (v : Option CVal)
  | unit
  deriving Repr

def cfgStep (s : CfgState) : CfgOp → CfgState × CfgAns
  | .derive sec kv => ({ s with live := kv.foldl (fun t p => ctSet t (sec, p.1) (viaFile p.2)) s.live }, .unit)
  | .read user fill => (s, .table (readCfgTable (if fill then s.packaged else []) user))
  | .getDefault k => (s, .val (ctGet s.live k))

def cfgRun (s : CfgState) : List CfgOp → CfgState × List CfgAns
  | [] => (s, [])
  | op :: ops =>
    let (s1, a) := cfgStep s op
    let (s2, as) := cfgRun s1 ops
    (s2, a :: as)

end E3fpVerif
