import E3fpVerif.Gen.FprinterConsts
/-!
# Geometry of the fingerprinter, once, over an abstract scalar

Every geometric function `fprinter.py` / `array_ops.py` use for shells and stereo codes is written
here over a scalar type `α` with the operations of `Scalar α`.  Two instances exist: `Float` (this
file; what the driver executes against the implementation) and `ℝ` (`Lemmas/RealScalar.lean`; what
the invariance theorems are about).  The definitions are the same terms.
-/
namespace E3fpVerif

class Scalar (α : Type) where
  add : α → α → α
  sub : α → α → α
  mul : α → α → α
  div : α → α → α
  neg : α → α
  sqrt : α → α
  acos : α → α
  ofNat : Nat → α
  lt : α → α → Bool
  le : α → α → Bool
  beq : α → α → Bool
  /-- truncation of a non-negative scalar to a natural (`astype(int)`) -/
  truncNat : α → Nat
  /-- `np.pi` -/
  pi : α
  /-- `array_ops.EPS` -/
  eps : α
  /-- `Y_AXIS_PRECISION` -/
  yPrec : α
  /-- `Z_AXIS_PRECISION` -/
  zPrec : α

namespace Scalar
variable {α : Type} [Scalar α]
def zero : α := ofNat 0
def one : α := ofNat 1
def two : α := ofNat 2
def abs (a : α) : α := if lt a zero then neg a else a
/-- `np.clip(a, -1, 1)` -/
def clip1 (a : α) : α := if lt a (neg one) then neg one else if lt one a then one else a
/-- `np.sign` as an integer, with `0 ↦ +1` applied by the callers that do so -/
def sign (a : α) : Int := if lt zero a then 1 else if lt a zero then -1 else 0
end Scalar

open Scalar

structure V3 (α : Type) where
  x : α
  y : α
  z : α

namespace V3
variable {α : Type} [Scalar α]
def sub (u v : V3 α) : V3 α := ⟨Scalar.sub u.x v.x, Scalar.sub u.y v.y, Scalar.sub u.z v.z⟩
def add (u v : V3 α) : V3 α := ⟨Scalar.add u.x v.x, Scalar.add u.y v.y, Scalar.add u.z v.z⟩
def smul (c : α) (u : V3 α) : V3 α := ⟨mul u.x c, mul u.y c, mul u.z c⟩
def sdiv (u : V3 α) (c : α) : V3 α := ⟨div u.x c, div u.y c, div u.z c⟩
def dot (u v : V3 α) : α := Scalar.add (Scalar.add (mul u.x v.x) (mul u.y v.y)) (mul u.z v.z)
def cross (u v : V3 α) : V3 α :=
  ⟨Scalar.sub (mul u.y v.z) (mul u.z v.y), Scalar.sub (mul u.z v.x) (mul u.x v.z), Scalar.sub (mul u.x v.y) (mul u.y v.x)⟩
def isZero (u : V3 α) : Bool := beq u.x zero && beq u.y zero && beq u.z zero
def vzero : V3 α := ⟨zero, zero, zero⟩

/-- `as_unit` on one vector: vectors of squared length below `EPS` are left as they are -/
def asUnit (u : V3 α) : V3 α :=
  let s := dot u u
  if lt s eps then u else sdiv u (sqrt s)

/-- `make_distance_matrix` entry -/
def dist (u v : V3 α) : α := let d := sub u v; sqrt (dot d d)

/-- `project_to_plane(v, norm)` -/
def projectToPlane (v n : V3 α) : V3 α :=
  let un := asUnit n
  sub v (smul (dot v un) un)

/-- `calculate_angles(v, ref)` without `ref_norm`: angle in `[0, π]`, 0 for the zero vector -/
def angle (v ref : V3 α) : α :=
  let uv := asUnit v
  if isZero uv then zero else acos (clip1 (dot uv (asUnit ref)))

/-- `rotate_angles(a, amount)` for `a + amount` in `[0, 4π)` -/
def mod2pi (a : α) : α :=
  let tp := mul two pi
  if le tp a then Scalar.sub a tp else if lt a zero then Scalar.add a tp else a

/-- `calculate_angles(v, ref, ref_norm)`: signed angle in `[0, 2π)` -/
def signedAngle (v ref refNorm : V3 α) : α :=
  let uv := asUnit v
  let ur := asUnit ref
  let ang := if isZero uv then zero else acos (clip1 (dot uv ur))
  let s := sign (dot refNorm (cross uv ur))
  let sang := if s = -1 then neg ang else ang          -- sign 0 counts as +1
  mod2pi (Scalar.add sang (mul two pi))

/-- `np.mean(vs, axis=0)` -/
def mean (vs : List (V3 α)) : V3 α :=
  sdiv (vs.foldl add vzero) (ofNat vs.length)

def norm (u : V3 α) : α := sqrt (dot u u)
end V3

open V3

/-! ## stereo indicators of one shell -/

/-- index of the first element whose key occurs exactly once (`get_first_unique_tuple_inds(l, 1)`
on a list sorted by key) -/
def firstUnique {κ : Type} [DecidableEq κ] (keys : List κ) : Option Nat :=
  (keys.zipIdx.find? (fun p => keys.count p.1 == 1)).map Prod.snd

/-- insertion sort by a key with a decidable strict order given as a `Bool` function (stable) -/
def insertBy {β : Type} (lt : β → β → Bool) (x : β) : List β → List β
  | [] => [x]
  | y :: ys => if lt x y then x :: y :: ys else y :: insertBy lt x ys
def sortByLt {β : Type} (lt : β → β → Bool) (l : List β) : List β := l.foldr (insertBy lt) []

/-- lexicographic `<` on (Nat, Nat, Int, Nat) -/
def lt4 (a b : Nat × Nat × Int × Nat) : Bool :=
  a.1 < b.1 || (a.1 == b.1 && (a.2.1 < b.2.1 || (a.2.1 == b.2.1 && (a.2.2.1 < b.2.2.1 || (a.2.2.1 == b.2.2.1 && a.2.2.2 < b.2.2.2)))))

variable {α : Type} [Scalar α]

/-- `pick_y`: the y vector and, when it is one of the neighbours, its index -/
def pickY (keys : List (Nat × Int)) (cent : List (V3 α)) : Option (V3 α × Option Nat) :=
  match firstUnique keys with
  | some i => some (cent.getD i vzero, some i)
  | none =>
    if keys.length = 2 then some (cent.getD 0 vzero, some 0)
    else
      let m := mean cent
      if lt (norm m) yPrec then none else some (m, none)

/-- the candidate `pick_z` selects, projected onto the plane orthogonal to `y`; unmasked neighbours:
(connectivity, identifier, centred coordinate, |long angle|) -/
def pickZRaw (cand : List (Nat × Int × V3 α × α)) (y : V3 α) : Option (V3 α) :=
  let tagged := cand.zipIdx.map (fun p => (truncNat (div p.1.2.2.2 zPrec), p.1.1, p.1.2.1, p.2))
  let sorted := sortByLt lt4 tagged
  match firstUnique (sorted.map (fun t => (t.1, t.2.1))) with
  | some k =>
    let zi := (sorted.getD k (0, 0, 0, 0)).2.2.2
    some (projectToPlane ((cand.getD zi (0, 0, vzero, zero)).2.2.1) y)
  | none => none

/-- `pick_z`: an atom on the y-axis has no direction orthogonal to `y` (its projection is the zero vector -
round-off noise in floating point) and cannot define `z` -/
def pickZ (cand : List (Nat × Int × V3 α × α)) (y : V3 α) : Option (V3 α) :=
  match pickZRaw cand y with
  | some z => if lt (norm z) eps then none else some z
  | none => none

/-- `stereo_indicators_from_shell`: one code per neighbour, in the order given.
`nbrs`: (connectivity code, identifier, centred coordinate) sorted by (code, identifier). -/
def stereoIndicators (nbrs : List (Nat × Int × V3 α)) : List Int :=
  let n := nbrs.length
  if n = 0 then [] else
  let cent := nbrs.map (·.2.2)
  let overlap := cent.map isZero
  match pickY (nbrs.map (fun t => (t.1, t.2.1))) cent with
  | none => List.replicate n 0
  | some (y, yInd) =>
    let halfPi := div pi two
    -- long_angle = pi/2 - angle(v, y); snap |.| < EPS to 0
    let la := cent.map (fun v => let a := Scalar.sub halfPi (angle v y); if lt (Scalar.abs a) eps then zero else a)
    let longSign : List Int := la.map (fun a => let s := sign a; if s = 0 then 1 else s)
    let longAbs := la.map Scalar.abs
    let mask := (List.range n).map (fun i => !(overlap.getD i false) && (yInd != some i))
    let cand := (List.range n).filterMap (fun i =>
      if mask.getD i false then
        (nbrs[i]?).map (fun t => (t.1, t.2.1, t.2.2, longAbs.getD i zero)) else none)
    let quad : List Int :=
      match pickZ cand y with
      | none => List.replicate n 0
      | some z =>
        (List.range n).map (fun i =>
          let v := cent.getD i vzero
          let lat := projectToPlane v y
          let afz := if yInd = some i then zero else signedAngle lat z y
          let latAngle := mod2pi (Scalar.add afz (div pi (ofNat 4)))
          let q : Int := 2 + (truncNat (div (mul latAngle (ofNat 4)) (mul two pi)) : Nat)
          q * longSign.getD i 1)
    let cone := div pi (ofNat Gen.POLAR_CONE_DEN)
    (List.range n).map (fun i =>
      if overlap.getD i false then 0
      else if lt (Scalar.sub halfPi (longAbs.getD i zero)) cone then longSign.getD i 1
      else quad.getD i 0)

/-! ## the `Float` instance -/

instance : Scalar Float where
  add := (· + ·)
  sub := (· - ·)
  mul := (· * ·)
  div := (· / ·)
  neg := fun a => -a
  sqrt := Float.sqrt
  acos := Float.acos
  ofNat := Float.ofNat
  lt := fun a b => a < b
  le := fun a b => a ≤ b
  beq := fun a b => a == b
  truncNat := fun a => a.floor.toUInt64.toNat
  pi := Float.ofBits Gen.PI_BITS
  eps := Float.ofBits Gen.EPS_BITS
  yPrec := Float.ofBits Gen.Y_AXIS_PRECISION_BITS
  zPrec := Float.ofBits Gen.Z_AXIS_PRECISION_BITS

end E3fpVerif
