import E3fpVerif.Gen.Decisions
/-!
# Model of `ConformerGenerator.filter_conformers` and of the generator object's target resolution

Energies and the RMSD between pool conformers are inputs (RDKit's force fields and `GetBestRMS`);
what is modelled is e3fp's logic: the energy sort, the accept / reject loop (always accept the
lowest; stop accepting at `first`; energy window; RMSD cutoff against every accepted conformer), and
the values reported alongside.
-/
namespace E3fpVerif

/-- insert index `i` into a list of indices sorted by energy (stable) -/
def insertByEnergy (E : Nat → Rat) (i : Nat) : List Nat → List Nat
  | [] => [i]
  | j :: js => if E i < E j then i :: j :: js else j :: insertByEnergy E i js

/-- `np.argsort(energies)` (ties keep index order) -/
def argsortE (E : Nat → Rat) (n : Nat) : List Nat := (List.range n).foldr (insertByEnergy E) []

structure FilterOut where
  accepted : List Nat
  energies : List Rat
  rmsds : List (List Rat)
  deriving Repr, DecidableEq

/-- the energy-window test: `energies <= energies[lowest] + max_energy_diff` fails -/
def outsideWindow (E : Nat → Rat) (window : Option Rat) (low fit : Nat) : Bool :=
  match window with
  | some w => !(decide (E fit ≤ E low + w))
  | none => false

/-- some accepted conformer is closer than the cutoff -/
def tooClose (rmsd : Nat → Nat → Rat) (cutoff : Rat) (acc : List Nat) (fit : Nat) : Bool :=
  acc.any (fun a => decide (rmsd a fit < cutoff))

/-- the accept / reject loop over the pool in energy order -/
def filterLoop (E : Nat → Rat) (rmsd : Nat → Nat → Rat) (first : Nat) (cutoff : Rat) (window : Option Rat) :
    List Nat → List Nat → List Nat
  | [], acc => acc
  | fit :: rest, acc =>
    match acc with
    | [] => filterLoop E rmsd first cutoff window rest [fit]
    | low :: _ =>
      if acc.length ≥ first then filterLoop E rmsd first cutoff window rest acc
      else if outsideWindow E window low fit then filterLoop E rmsd first cutoff window rest acc
      else if tooClose rmsd cutoff acc fit then filterLoop E rmsd first cutoff window rest acc
      else filterLoop E rmsd first cutoff window rest (acc ++ [fit])

/-- `filter_conformers`: accepted pool indices in energy order, their energies, their RMSD matrix -/
def filterConformers (n : Nat) (E : Nat → Rat) (rmsd : Nat → Nat → Rat) (first : Nat) (cutoff : Rat) (window : Option Rat) : FilterOut :=
  let acc := filterLoop E rmsd first cutoff window (argsortE E n) []
  { accepted := acc, energies := acc.map E,
    rmsds := acc.map (fun a => acc.map (fun b => if a = b then 0 else rmsd a b)) }

/-- the documented reading of `get_num_conformers`: 50 / 200 / 300 conformers for fewer than 8, 8 to 12, more than 12
rotatable bonds.  The function the model *runs* is `Gen.genNumConf`, translated from the source on every check;
`Props/C13.genNumConf_spec` proves the two equal. -/
def autoNumConf (rotatable : Nat) : Nat := if rotatable < 8 then 50 else if rotatable ≤ 12 then 200 else 300

/-- target and `first` as resolved for one molecule -/
def resolveTargets (numConf first : Int) (rotatable : Nat) : Nat × Nat :=
  let target := if numConf = -1 then Gen.genNumConf rotatable else numConf.toNat
  (target, if first = -1 then target else first.toNat)

/-! ## the generator *object*: options set by `__init__`, per-molecule targets written by `embed_molecule`
and read by `filter_conformers` / reported by `generate_conformers` -/

structure CGen where
  numConf : Int            -- `self.num_conf`  (option; -1 = automatic)
  first : Int              -- `self.first`     (option; -1 = all)
  pool : Nat               -- `self.pool_multiplier`
  maxConformers : Int      -- `self.max_conformers`   (state)
  firstConformers : Int    -- `self.first_conformers` (state)
  deriving Repr, DecidableEq

/-- `ConformerGenerator.__init__` (arguments already validated: -1 or positive) -/
def CGen.new (numConf first : Int) (pool : Nat) : CGen := ⟨numConf, first, pool, numConf, first⟩

/-- the bookkeeping of `embed_molecule` for a molecule with `rot` rotatable bonds: the new object state and the number of
conformers asked of RDKit's embedding -/
def CGen.embed (g : CGen) (rot : Nat) : CGen × Int :=
  let mx : Int := if g.numConf = -1 then (Gen.genNumConf rot : Nat) else g.numConf
  let fc : Int := if g.first = -1 then mx else g.first
  ({ g with maxConformers := mx, firstConformers := fc }, mx * g.pool)

/-- what one `generate_conformers` call uses: (pool size requested, target reported, `first` used by the filter) -/
def CGen.generate (g : CGen) (rot : Nat) : CGen × (Int × Int × Int) :=
  let (g', n) := g.embed rot
  (g', (n, g'.maxConformers, g'.firstConformers))

/-- a history of molecules (by rotatable-bond count) through one generator object -/
def CGen.runMols (g : CGen) : List Nat → CGen × List (Int × Int × Int)
  | [] => (g, [])
  | r :: rs =>
    let (g1, a) := g.generate r
    let (g2, as) := g1.runMols rs
    (g2, a :: as)

end E3fpVerif
