/-!
# Model of `ConformerGenerator.filter_conformers` and of the generator object's target resolution

Energies and the RMSD between pool conformers are inputs (RDKit's force fields and `GetBestRMS`);
what is modelled is e3fp's logic: the energy sort, the accept / reject loop (always accept the
lowest; stop accepting at `first`; energy window; RMSD cutoff against every accepted conformer), and
the values reported alongside.
-/
namespace E3fpVerif

/-- insert index `i` into a list of indices sorted by energy (stable) -/
def insertByEnergy (E : Nat → Rat) (i : Nat) : List Nat → List Nat
  | [] => [i]
  | j :: js => if E i < E j then i :: j :: js else j :: insertByEnergy E i js

/-- `np.argsort(energies)` (ties keep index order) -/
def argsortE (E : Nat → Rat) (n : Nat) : List Nat := (List.range n).foldr (insertByEnergy E) []

structure FilterOut where
  accepted : List Nat
  energies : List Rat
  rmsds : List (List Rat)
  deriving Repr, DecidableEq

/-- the energy-window test: `energies <= energies[lowest] + max_energy_diff` fails -/
def outsideWindow (E : Nat → Rat) (window : Option Rat) (low fit : Nat) : Bool :=
  match window with
  | some w => !(decide (E fit ≤ E low + w))
  | none => false

/-- some accepted conformer is closer than the cutoff -/
def tooClose (rmsd : Nat → Nat → Rat) (cutoff : Rat) (acc : List Nat) (fit : Nat) : Bool :=
  acc.any (fun a => decide (rmsd a fit < cutoff))

/-- the accept / reject loop over the pool in energy order -/
def filterLoop (E : Nat → Rat) (rmsd : Nat → Nat → Rat) (first : Nat) (cutoff : Rat) (window : Option Rat) :
    List Nat → List Nat → List Nat
  | [], acc => acc
  | fit :: rest, acc =>
    match acc with
    | [] => filterLoop E rmsd first cutoff window rest [fit]
    | low :: _ =>
      if acc.length ≥ first then filterLoop E rmsd first cutoff window rest acc
      else if outsideWindow E window low fit then filterLoop E rmsd first cutoff window rest acc
      else if tooClose rmsd cutoff acc fit then filterLoop E rmsd first cutoff window rest acc
      else filterLoop E rmsd first cutoff window rest (acc ++ [fit])

/-- `filter_conformers`: accepted pool indices in energy order, their energies, their RMSD matrix -/
def filterConformers (n : Nat) (E : Nat → Rat) (rmsd : Nat → Nat → Rat) (first : Nat) (cutoff : Rat) (window : Option Rat) : FilterOut :=
  let acc := filterLoop E rmsd first cutoff window (argsortE E n) []
  { accepted := acc, energies := acc.map E,
    rmsds := acc.map (fun a => acc.map (fun b => if a = b then 0 else rmsd a b)) }

/-- `get_num_conformers` -/
def autoNumConf (rotatable : Nat) : Nat := if rotatable < 8 then 50 else if rotatable ≤ 12 then 200 else 300

/-- target and `first` as resolved for one molecule (never stored back on the generator) -/
def resolveTargets (numConf first : Int) (rotatable : Nat) : Nat × Nat :=
  let target := if numConf = -1 then autoNumConf rotatable else numConf.toNat
  (target, if first = -1 then target else first.toNat)

end E3fpVerif
