import E3fpVerif.Model.FpObj
import E3fpVerif.Model.Pipeline
/-!
# Model of `fingerprint.generate.fprints_dict_from_mol` (without saving)

The function every high-level entry point goes through (`fprints_from_mol`, `fprints_from_sdf`,
`fprints_from_smiles`, the batch runner): **one** `Fingerprinter` object is created, the conformers
are run on it in storage order until the `first` cut-off, and after each run the fingerprint at each
level key is fetched, named `<molecule>_<conformer index>` through `MolItemName` and appended to the
list of its key.  Any exception inside the loop makes the function return `{}`.

`entryRun` mirrors that loop on the object model of `Model/FpObj.lean` (identity-driven resets,
molecule-scoped caches); `entrySpec` is what the property says the result is: for every level key,
the list over the first `N` conformers of the fingerprint a *fresh* fingerprinter computes, with its
conformer name.  `Props/C14Entry.lean` proves them equal.
-/
namespace E3fpVerif

/-- a named fingerprint -/
structure NamedFp where
  fp : Fp
  name : Option (List Char)
  deriving DecidableEq, Repr

/-- the per-level dictionary, in key order of first insertion -/
abbrev LevelDict := List (Int × List NamedFp)

/-- `dict.setdefault(k, []).append(x)` on an insertion-ordered dict -/
def dictAppend (d : LevelDict) (k : Int) (x : NamedFp) : LevelDict :=
  match d with
  | [] => [(k, [x])]
  | (a, l) :: rest => if a = k then (a, l ++ [x]) :: rest else (a, l) :: dictAppend rest k x

/-- the fingerprints of one finished run at every level key, appended to the dictionary; `none` when
fetching one of them raises -/
def collectLevels (o : Opts) (s : FState) (keys : List Int) (name : Option (List Char)) (j : Nat) (d : LevelDict) :
    Option LevelDict :=
  keys.foldl (fun acc k =>
    match acc with
    | none => none
    | some d' =>
      match fingerprintAt o s (some k) none [] with
      | .ok f => some (dictAppend d' k { fp := f, name := name.map (fun n => confName n j) })
      | .error _ => none) (some d)

/-- the conformer loop: `geos` are the conformers still to be processed, `j` the index of the first
of them, `f` the (one) fingerprinter object, `mid` the identity of the molecule object handed to
every `run(conf, mol)` -/
def entryLoop (mid : Nat) (m : MolG) (keys : List Int) (name : Option (List Char)) :
    List Geo → Nat → FpObj → LevelDict → Option LevelDict
  | [], _, _, d => some d
  | g :: rest, j, f, d =>
    let r := f.run (some mid) m g
    match r.2, r.1.state with
    | .ok (), some s =>
      match collectLevels f.o s keys name j d with
      | some d' => entryLoop mid m keys name rest (j + 1) r.1 d'
      | none => none
    | _, _ => none

/-- `fprints_dict_from_mol(mol, bits, level, …, first, all_iters)`; `.error` is the constructor's own
exception (raised outside the `try`), `.ok none` the `{}` returned after a failure inside the loop -/
def entryRun (o : Opts) (mid : Nat) (m : MolG) (geos : List Geo) (name : Option (List Char)) (first : Int)
    (allIters : Bool) : Except Err (Option LevelDict) :=
  if o.level = -1 && !o.removeDup then .error .other
  else .ok (entryLoop mid m (levelKeys o.level allIters) name (geos.take (firstN first geos.length)) 0 (FpObj.new o) [])

/-- what the property says: for every level key, over the first `N` conformers in order, the
fingerprint at that level of a fresh fingerprinter run on the conformer, named by its index -/
def entrySpec (o : Opts) (m : MolG) (geos : List Geo) (name : Option (List Char)) (first : Int) (allIters : Bool) :
    Option LevelDict :=
  let n := firstN first geos.length
  if n = 0 then some []
  else
    (levelKeys o.level allIters).mapM (fun k =>
      ((List.range n).mapM (fun j =>
        match runFp o m (geos.getD j ⟨fun _ _ _ => false, fun _ _ => []⟩) with
        | .ok s =>
          match fingerprintAt o s (some k) none [] with
          | .ok f => some ({ fp := f, name := name.map (fun nm => confName nm j) } : NamedFp)
          | .error _ => none
        | .error _ => none)).map (fun l => (k, l)))

end E3fpVerif
