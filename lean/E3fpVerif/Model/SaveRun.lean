import E3fpVerif.Model.Batch
import E3fpVerif.Model.Pipeline
/-!
# The save step of `fprints_dict_from_mol` (one molecule, its output files)

With `save=True` the fingerprints of a molecule go to `<out_dir_base><level>/<name><ext>` (or
`<out_dir_base>_complete/…` for level -1); with all-iterations output there is one file per level
`0 … level`.  The molecule is *skipped* (nothing computed, nothing written, `{}` returned) exactly when
**all** of its files exist and `overwrite` is off; otherwise every one of its files is (re)written
with the freshly computed fingerprints of that level.  Paths are `(directory key, molecule name)`.
-/
namespace E3fpVerif

/-- directory suffix of an output file: the level key (`-1` is the `_complete` directory) -/
abbrev OutPath := Int × String

abbrev OFS (κ : Type) := List (OutPath × κ)

def ofsGet {κ : Type} (fs : OFS κ) (p : OutPath) : Option κ := (fs.find? (fun e => e.1 = p)).map Prod.snd
def ofsPut {κ : Type} (fs : OFS κ) (p : OutPath) (c : κ) : OFS κ := (p, c) :: fs.filter (fun e => e.1 ≠ p)

/-- the files of one molecule: one per level key of the result dictionary -/
def outFiles (name : String) (level : Int) (allIters : Bool) : List OutPath :=
  (levelKeys level allIters).map (fun k => (k, name))

/-- write the per-level results, in key order -/
def writeAll {κ : Type} (fs : OFS κ) (name : String) : List (Int × κ) → OFS κ
  | [] => fs
  | (k, c) :: rest => writeAll (ofsPut fs (k, name) c) name rest

/-- all of the molecule's files exist and `overwrite` is off: the molecule is skipped -/
def skipSave {κ : Type} (fs : OFS κ) (name : String) (level : Int) (allIters overwrite : Bool) : Bool :=
  (outFiles name level allIters).all (fun p => (ofsGet fs p).isSome) && !overwrite

/-- the dictionary a successful call returns: one entry per level key -/
def resultDict {κ : Type} (level : Int) (allIters : Bool) (f : Int → κ) : List (Int × κ) :=
  (levelKeys level allIters).map (fun k => (k, f k))

/-- `fprints_dict_from_mol(..., save=True)`: `fresh` is the per-level result of fingerprinting (`none`: it failed).
Returns the new file system and the returned dictionary (`[]` for `{}`). -/
def saveMol {κ : Type} (fs : OFS κ) (name : String) (level : Int) (allIters overwrite : Bool)
    (fresh : Option (Int → κ)) : OFS κ × List (Int × κ) :=
  if skipSave fs name level allIters overwrite then (fs, [])
  else
    match fresh with
    | none => (fs, [])
    | some f => (writeAll fs name (resultDict level allIters f), resultDict level allIters f)

end E3fpVerif
