import E3fpVerif.Model.Fprint
/-!
# Model of `e3fp.fingerprint.db.FingerprintDatabase`

The database keeps the representation the code has: the CSR matrix as a list of rows of stored
`(column, value)` entries in storage order (explicit zeros and unsorted rows are representable,
because `from_array` accepts them), the list of fingerprint names, the name → rows index *as a
separately maintained map* (insertion ordered, built incrementally by `update_names_map`), and the
property columns.  `Spec` at the bottom is the abstract view: a list of rows.
-/
namespace E3fpVerif

/-- a property value (one cell of a property column) -/
inductive PVal
  | int (i : Int) | float (q : Rat) | bool (b : Bool) | str (s : String)
  deriving DecidableEq, Repr, Inhabited

abbrev Row := List (Nat × Rat)

structure Db where
  fpType : Kind
  level : Int
  name : Option String
  /-- `None` until the first addition -/
  array : Option (List Row)
  bits : Nat
  fpNames : List (Option String)
  /-- `fp_names_to_indices`, insertion ordered -/
  namesMap : List (Option String × List Nat)
  props : List (String × List PVal)
  deriving DecidableEq, Repr, Inhabited

/-- a fingerprint as handed to `add_fingerprints`: content, name, properties -/
structure FpIn where
  fp : Fp
  name : Option String
  props : List (String × PVal)
  deriving DecidableEq, Repr, Inhabited

def Db.new (k : Kind) (level : Int) (name : Option String) : Db :=
  { fpType := k, level := level, name := name, array := none, bits := 0, fpNames := [], namesMap := [], props := [] }

def Db.fpNum (db : Db) : Nat := match db.array with | none => 0 | some a => a.length

/-- value stored for a count `v` in an array of the kind's dtype (`astype`) -/
def castVal (k : Kind) (v : Rat) : Rat :=
  match k with
  | .bit => if v = 0 then 0 else 1
  | .count => truncQ v
  | .float => v

/-- `fprint.to_vector(sparse=True, dtype=db dtype)` as a row -/
def fpRow (k : Kind) (f : Fp) : Row := f.idx.map (fun i => (i, castVal k (f.count i)))

/-- `dict[name].append(i)` on an insertion-ordered dict -/
def mapAppend (m : List (Option String × List Nat)) (nm : Option String) (i : Nat) : List (Option String × List Nat) :=
  match m with
  | [] => [(nm, [i])]
  | (k, v) :: rest => if k = nm then (k, v ++ [i]) :: rest else (k, v) :: mapAppend rest nm i

/-- `update_names_map(new_names, offset)` -/
def updateNamesMap (m : List (Option String × List Nat)) (names : List (Option String)) (offset : Nat) :
    List (Option String × List Nat) :=
  (names.zipIdx).foldl (fun acc p => mapAppend acc p.1 (p.2 + offset)) m

def mapLookup (m : List (Option String × List Nat)) (nm : Option String) : Option (List Nat) :=
  match m with
  | [] => none
  | (k, v) :: rest => if k = nm then some v else mapLookup rest nm

def propLookup (ps : List (String × PVal)) (k : String) : Option PVal :=
  match ps with
  | [] => none
  | (a, v) :: rest => if a = k then some v else propLookup rest k

def colLookup (ps : List (String × List PVal)) (k : String) : Option (List PVal) :=
  match ps with
  | [] => none
  | (a, v) :: rest => if a = k then some v else colLookup rest k

/-- `dict[k] = v` on an insertion-ordered dict -/
def colSet (ps : List (String × List PVal)) (k : String) (v : List PVal) : List (String × List PVal) :=
  match ps with
  | [] => [(k, v)]
  | (a, w) :: rest => if a = k then (a, v) :: rest else (a, w) :: colSet rest k v

/-- the length every fingerprint of a batch must have -/
def Db.expectedBits (db : Db) (fps : List FpIn) : Nat :=
  if db.fpNum > 0 then db.bits else (fps.head?.map (·.fp.bits)).getD 0

/-- the property columns every fingerprint of a batch must provide: the database's own columns as soon
as it has rows *or columns* (columns of length 0 declared on a still empty database count), otherwise
those of the first fingerprint of the batch -/
def Db.expectedProps (db : Db) (fps : List FpIn) : List String :=
  if db.fpNum > 0 ∨ db.props ≠ [] then db.props.map Prod.fst else (fps.head?.map (fun f => f.props.map Prod.fst)).getD []

def Db.badLevel (db : Db) (fps : List FpIn) : Bool := fps.any (fun f => f.fp.level != db.level)
def Db.badBits (db : Db) (fps : List FpIn) : Bool := fps.any (fun f => f.fp.bits != db.expectedBits fps)
def Db.badProps (db : Db) (fps : List FpIn) : Bool :=
  fps.any (fun f => (db.expectedProps fps).any (fun k => (propLookup f.props k).isNone))

/-- the state after an accepted addition: matrix, names, name index (offset append), properties -/
def Db.addOk (db : Db) (fps : List FpIn) : Db :=
  let names := fps.map (·.name)
  { db with array := some ((db.array.getD []) ++ fps.map (fun f => fpRow db.fpType f.fp)),
            bits := db.expectedBits fps,
            fpNames := db.fpNames ++ names,
            namesMap := updateNamesMap db.namesMap names db.fpNum,
            props := (db.expectedProps fps).foldl (fun acc k =>
              colSet acc k ((colLookup db.props k).getD [] ++ fps.map (fun f => (propLookup f.props k).getD (.int 0))))
              db.props }

/-- `add_fingerprints`: every check happens before the first mutation; a refusal returns the
database unchanged together with the error. -/
def Db.add (db : Db) (fps : List FpIn) : Db × Option Err :=
  if fps.isEmpty then (db, some .index)
  else if db.badLevel fps then (db, some .value)
  else if db.badBits fps then (db, some .bitsValue)
  else if db.badProps fps then (db, some .key)
  else (db.addOk fps, none)

/-- `from_array` -/
def Db.fromArray (rows : List Row) (bits : Nat) (names : List (Option String)) (k : Kind) (level : Int)
    (name : Option String) (props : List (String × List PVal)) : Db × Option Err :=
  let db : Db := { fpType := k, level := level, name := name,
                   array := some (rows.map (fun r => r.map (fun p => (p.1, castVal k p.2)))), bits := bits,
                   fpNames := names, namesMap := updateNamesMap [] names 0, props := [] }
  -- update_props with check_length
  let rec go (acc : Db) (ps : List (String × List PVal)) : Db × Option Err :=
    match ps with
    | [] => (acc, none)
    | (k, v) :: rest =>
      if v.length ≠ acc.fpNames.length then (acc, some .value)
      else go { acc with props := colSet acc.props k v } rest
  go db props

/-- the fingerprint of row `i`, with its name and properties (`_get_fprint_at_index`) -/
def Db.fprintAt (db : Db) (i : Nat) : Except Err FpIn :=
  match db.array with
  | none => .error .index
  | some a =>
    match a[i]? with
    | none => .error .index
    | some r =>
      match fromSparse db.fpType r db.bits db.level with
      | .error e => .error e
      | .ok f => .ok { fp := f, name := (db.fpNames[i]?).getD none,
                       props := db.props.filterMap (fun p => (p.2[i]?).map (fun v => (p.1, v))) }

/-- `db[i]` with Python's negative indexing -/
def Db.getIndex (db : Db) (i : Int) : Except Err FpIn :=
  let n : Int := db.fpNum
  if i ≥ n ∨ i < -n then .error .index
  else db.fprintAt (if i < 0 then (i + n).toNat else i.toNat)

/-- `db[name]` : every row carrying the name, in row order; `[]` for an absent name; the
database itself is not changed (the function returns no new state). -/
def Db.getName (db : Db) (nm : String) : Except Err (List FpIn) :=
  ((mapLookup db.namesMap (some nm)).getD []).mapM db.fprintAt

/-- `get_subset(names)` -/
def Db.subset (db : Db) (names : List String) (newName : Option String) : Except Err Db :=
  if names.any (fun nm => (mapLookup db.namesMap (some nm)).isNone) then .error .value
  else
    let pairs := names.flatMap (fun nm => ((mapLookup db.namesMap (some nm)).getD []).map (fun i => (i, nm)))
    if pairs.isEmpty then .error .value
    else
      let a := db.array.getD []
      let rows := pairs.map (fun p => (a[p.1]?).getD [])
      let props := db.props.map (fun c => (c.1, pairs.filterMap (fun p => c.2[p.1]?)))
      match Db.fromArray rows db.bits (pairs.map (fun p => some p.2)) db.fpType db.level newName props with
      | (d, none) => .ok d
      | (_, some e) => .error e

/-- `as_type(T, copy=True)` / `__copy__` -/
def Db.asType (db : Db) (k : Kind) : Except Err Db :=
  match db.array with
  | none => .error .other     -- `None.dtype`
  | some a =>
    match Db.fromArray a db.bits db.fpNames k db.level db.name db.props with
    | (d, none) => .ok d
    | (_, some e) => .error e

/-- sum the values of equal columns and sort the row (`sum_duplicates`) -/
def sumDuplicates (r : Row) : Row :=
  (uniq (r.map Prod.fst)).map (fun j => (j, sumQ ((r.filter (fun p => p.1 = j)).map Prod.snd)))

/-- `fold(bits, fp_type, name)` -/
def Db.fold (db : Db) (bits : Nat) (k : Option Kind) (newName : Option String) : Except Err Db :=
  match db.array with
  | none => .error .type    -- `bits > None`
  | some a =>
    if bits > db.bits then .error .bitsValue
    else if !(isPow2Multiple db.bits bits) then .error .bitsValue
    else
      let k' := k.getD db.fpType
      -- the sum is taken in the source dtype (for a bit database: logical or)
      let folded := a.map (fun r => (sumDuplicates (r.map (fun p => (Gen.dbFoldIndex p.1 bits, p.2)))).map
                                      (fun p => (p.1, castVal db.fpType p.2)))
      match Db.fromArray folded bits db.fpNames k' db.level (newName <|> db.name) db.props with
      | (d, none) => .ok d
      | (_, some e) => .error e

/-- `concat(dbs)` -/
def Db.concat (dbs : List Db) : Except Err Db :=
  match dbs with
  | [] => .error .index
  | d0 :: _ =>
    if dbs.any (fun d => d.level != d0.level) then .error .type
    else if dbs.any (fun d => (d.array.map (fun _ => d.bits)) != (d0.array.map (fun _ => d0.bits))) then .error .type
    else if dbs.any (fun d => d.fpType != d0.fpType) then .error .type
    else if dbs.any (fun d => d.array.isNone) then .error .other
    else
      let rows := dbs.flatMap (fun d => d.array.getD [])
      let names := dbs.flatMap (·.fpNames)
      let keys := dbs.foldl (fun acc d => d.props.foldl (fun acc2 c => if acc2.contains c.1 then acc2 else acc2 ++ [c.1]) acc) ([] : List String)
      let props := keys.map (fun k => (k, dbs.flatMap (fun d => (colLookup d.props k).getD [])))
      if props.any (fun c => c.2.length ≠ rows.length) then .error .value
      else .ok { fpType := d0.fpType, level := d0.level, name := none, array := some rows, bits := d0.bits,
                 fpNames := names, namesMap := updateNamesMap [] names 0, props := props }

/-- `set_prop(key, vals)` -/
def Db.setProp (db : Db) (k : String) (v : List PVal) : Db × Option Err :=
  if v.length ≠ db.fpNames.length then (db, some .value) else ({ db with props := colSet db.props k v }, none)

/-- `update_props(dict)`: all lengths are checked before the first column is replaced -/
def Db.badCols (db : Db) (ps : List (String × List PVal)) : Bool :=
  ps.any (fun c => decide (c.2.length ≠ db.fpNames.length))

def Db.updateProps (db : Db) (ps : List (String × List PVal)) : Db × Option Err :=
  if db.badCols ps then (db, some .value)
  else (ps.foldl (fun acc c => { acc with props := colSet acc.props c.1 c.2 }) db, none)

/-- `__setstate__(__getstate__())`: the name index is rebuilt -/
def Db.pickleRoundTrip (db : Db) : Db := { db with namesMap := updateNamesMap [] db.fpNames 0 }

/-- `load(savez(db))` for a non-empty database -/
def Db.savezLoad (db : Db) : Except Err Db :=
  match db.array with
  | none => .error .other
  | some a =>
    match Db.fromArray a db.bits db.fpNames db.fpType db.level db.name db.props with
    | (d, none) => .ok d
    | (_, some e) => .error e

/-- canonical content of a row: sorted `(column, value)` without explicit zeros -/
def rowContent (r : Row) : Row := (sumDuplicates r).filter (fun p => decide (p.2 ≠ 0))

/-- `db == other` -/
def Db.eq (a b : Db) : Bool :=
  a.fpType == b.fpType && a.level == b.level && (a.array.map (fun _ => a.bits)) == (b.array.map (fun _ => b.bits)) &&
  a.fpNum == b.fpNum &&
  (a.namesMap.all (fun p => mapLookup b.namesMap p.1 == some p.2) && b.namesMap.all (fun p => mapLookup a.namesMap p.1 == some p.2)) &&
  (match a.array, b.array with
   | none, none => true
   | some x, some y => x.map rowContent == y.map rowContent
   | _, _ => false)

/-- `savetxt`: one line per row -/
def bitstringOfRow (bits : Nat) (r : Row) : List Bool := (List.range bits).map (fun j => r.any (fun p => p.1 == j))

/-- one line of `savetxt`: the bit string of the row, then (when names are requested) a blank and the name -/
def savetxtLine (bits : Nat) (withNames : Bool) (r : Row) (nm : Option String) : List Char :=
  (bitstringOfRow bits r).map (fun b => if b then '1' else '0') ++
    (if withNames then ' ' :: (nm.getD "None").toList else [])

/-- `savetxt`: one line per row, in row order -/
def Db.savetxtLines (db : Db) (withNames : Bool) : List (List Char) :=
  ((db.array.getD []).zip db.fpNames).map (fun p => savetxtLine db.bits withNames p.1 p.2)

/-! ## abstract view -/

/-- the rows of a database as fingerprints with names and properties -/
def Db.abs (db : Db) : List (Except Err FpIn) := (List.range db.fpNum).map db.fprintAt

end E3fpVerif
