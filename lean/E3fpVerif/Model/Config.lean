/-!
# Configuration values: printing with `str()`, parsing with `ast.literal_eval` (fallback: the raw text)
-/
namespace E3fpVerif

/-- a typed option value; floats are kept as their Python `repr` -/
inductive CVal
  | int (i : Int) | float (r : String) | bool (b : Bool) | none | str (s : String)
  deriving DecidableEq, Repr, Inhabited

/-- what the constructors themselves identify: a missing energy window is `None` or any negative
number; an unbounded level is `None` or `-1` -/
def normalise (opt : String) (v : CVal) : CVal :=
  if opt = "max_energy_diff" then
    match v with
    | .int i => if i < 0 then .none else v
    | .float r => if r.toList.head? = some (Char.ofNat 45) then .none else v
    | _ => v
  else if opt = "level" then
    match v with
    | .none => .int (-1)
    | _ => v
  else v

/-! ## decimal text of integers (`str(int)` / `int(text)`) -/

def digitChar (d : Nat) : Char := Char.ofNat (48 + d)

/-- decimal digits, most significant first (structural on a fuel that always suffices) -/
def natDigitsAux : Nat → Nat → List Char
  | 0, n => [digitChar (n % 10)]
  | fuel + 1, n => if n < 10 then [digitChar n] else natDigitsAux fuel (n / 10) ++ [digitChar (n % 10)]

def natDigits (n : Nat) : List Char := natDigitsAux n n

def charDigit? (c : Char) : Option Nat :=
  if 48 ≤ c.toNat ∧ c.toNat ≤ 57 then some (c.toNat - 48) else none

def digitsNat? (cs : List Char) : Option Nat :=
  if cs = [] then none
  else cs.foldl (fun acc c => match acc, charDigit? c with
    | some a, some d => some (10 * a + d)
    | _, _ => none) (some 0)

def showInt (i : Int) : List Char :=
  if i < 0 then '-' :: natDigits i.natAbs else natDigits i.natAbs

/-- `str(value)` -/
def showVal : CVal → List Char
  | .int i => showInt i
  | .float r => r.toList
  | .bool true => "True".toList
  | .bool false => "False".toList
  | .none => "None".toList
  | .str s => s.toList

def isFloatText (cs : List Char) : Bool :=
  -- [-]digits.digits[e[+-]digits] | [-]digits e[+-]digits   (what repr(float) produces for finite values)
  let body := match cs with | '-' :: r => r | r => r
  let isD := fun (c : Char) => (charDigit? c).isSome
  let intPart := body.takeWhile isD
  let rest := body.dropWhile isD
  if intPart = [] then false else
  let (frac, rest2, hasDot) := match rest with
    | '.' :: r => (r.takeWhile isD, r.dropWhile isD, true)
    | r => ([], r, false)
  let okFrac := !hasDot || frac ≠ []
  match rest2 with
  | [] => hasDot && okFrac
  | 'e' :: r =>
    let r' := match r with | '+' :: x => x | '-' :: x => x | x => x
    okFrac && r' ≠ [] && r'.all isD
  | _ => false

/-- `ast.literal_eval(text)` with fallback to the text, on the fragment `showVal` produces -/
def parseVal (cs : List Char) : CVal :=
  if cs = "True".toList then .bool true
  else if cs = "False".toList then .bool false
  else if cs = "None".toList then .none
  else
    match cs with
    | '-' :: r => (match digitsNat? r with
        | some n => .int (-(n : Int))
        | none => if isFloatText cs then .float (String.mk cs) else .str (String.mk cs))
    | _ => (match digitsNat? cs with
        | some n => .int n
        | none => if isFloatText cs then .float (String.mk cs) else .str (String.mk cs))

end E3fpVerif
