import E3fpVerif.Model.Metrics
/-!
# Model of the dispatch in `e3fp.fingerprint.metrics.__init__`

`tanimoto / dice / soergel / cosine / pearson (A, B=None)` accept fingerprints and databases in any
combination: lengths must agree; if either operand is a database the other is wrapped in a one-row
database (of its own kind and level); the binary measures first cast databases to the bit kind; two
fingerprints go to `fprint_metrics`, databases to `array_metrics` on their matrices.
-/
namespace E3fpVerif

inductive Measure | tanimoto | dice | soergel | cosine | pearson
  deriving DecidableEq, Repr, Inhabited

/-- an operand: a fingerprint or a database -/
inductive Item
  | fp (f : Fp)
  | db (d : Db)
  deriving Repr, Inhabited

def Item.bits : Item → Option Nat
  | .fp f => some f.bits
  | .db d => d.array.map (fun _ => d.bits)

/-- a similarity value: exact, or `num / sqrt rad` -/
inductive Sim
  | q (v : Rat)
  | root (num rad : Rat)
  deriving DecidableEq, Repr, Inhabited

/-- `_check_item(item, fp_type, force_db)` -/
def checkItem (fpType : Option Kind) (forceDb : Bool) : Item → Except Err Item
  | .fp f =>
    if forceDb then
      let k := fpType.getD f.kind
      match (Db.new k f.level none).add [⟨f, none, []⟩] with
      | (d, none) => .ok (.db d)
      | (_, some e) => .error e
    else .ok (.fp f)
  | .db d =>
    match fpType with
    | some k => if k = d.fpType then .ok (.db d) else (d.asType k).map .db
    | none => .ok (.db d)

/-- `_check_item_pair(A, B, fp_type)` -/
def checkPair (fpType : Option Kind) (a : Item) (b : Option Item) : Except Err (Item × Item) := do
  match b with
  | some b' => if a.bits ≠ b'.bits then throw .bitsValue
  | none => pure ()
  let force := match a, b with
    | .db _, _ => true
    | _, some (.db _) => true
    | _, _ => false
  let a' ← checkItem fpType force a
  match b with
  | none => return (a', a')
  | some b' => return (a', ← checkItem fpType force b')

def simFp (m : Measure) (f g : Fp) : Sim :=
  match m with
  | .tanimoto => .q (fpTanimoto f g)
  | .dice => .q (fpDice f g)
  | .soergel => .q (fpSoergel f g)
  | .cosine => let p := fpCosine f g; .root p.1 p.2
  | .pearson => let p := fpPearson f g; .root p.1 p.2

def simRows (m : Measure) (bits : Nat) (x y : Row) : Sim :=
  match m with
  | .tanimoto => .q (arrTanimoto x y)
  | .dice => .q (arrDice x y)
  | .soergel => .q (arrSoergelSparse x y)
  | .cosine => let p := arrCosine x y; .root p.1 p.2
  | .pearson => let p := arrPearson bits x y; .root p.1 p.2

/-- the public functions: a scalar for two fingerprints, otherwise the matrix rows × rows -/
def metricDispatch (m : Measure) (a : Item) (b : Option Item) : Except Err (Sum Sim (List (List Sim))) := do
  let fpType := match m with
    | .tanimoto | .dice => some Kind.bit
    | _ => none
  let (a', b') ← checkPair fpType a b
  match a', b' with
  | .fp f, .fp g => return .inl (simFp m f g)
  | .db x, .db y =>
    let rx := x.array.getD []
    let ry := y.array.getD []
    return .inr (rx.map (fun r => ry.map (fun s => simRows m x.bits r s)))
  | _, _ => throw .type

end E3fpVerif
