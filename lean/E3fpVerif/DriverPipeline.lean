import E3fpVerif.Codec
import E3fpVerif.Model.Pipeline
namespace E3fpVerif
open Lean

def pipelineOp (op : String) (j : Json) : Except String Json := do
  match op with
  | "pipe.plan" =>
    let name ← jOpt jStr (jFieldD j "name")
    let n ← jNat (← jField j "nconf")
    let first ← jInt (← jField j "first")
    let level ← jInt (← jField j "level")
    let allIters ← jBool (← jField j "all_iters")
    let sel ← jOpt jInt (jFieldD j "select")
    let cnt := firstN first n
    let names : List Json := (List.range cnt).map (fun i => match name with
      | some nm => Json.str (String.mk (confName nm.toList i))
      | none => Json.null)
    let keys := levelKeys level allIters
    return okJ (Json.mkObj [("n", natJ cnt), ("names", Json.arr names.toArray),
      ("keys", Json.arr (keys.map (fun (k : Int) => Json.num (JsonNumber.fromInt k))).toArray),
      ("selected", match selectLevel keys sel with | some k => Json.num (JsonNumber.fromInt k) | none => Json.null)])
  | _ => .error s!"unknown op {op}"

end E3fpVerif
