import E3fpVerif.Codec
import E3fpVerif.Model.Pipeline
import E3fpVerif.Model.SaveRun
namespace E3fpVerif
open Lean

def pipelineOp (op : String) (j : Json) : Except String Json := do
  match op with
  | "pipe.plan" =>
    let name ← jOpt jStr (jFieldD j "name")
    let n ← jNat (← jField j "nconf")
    let first ← jInt (← jField j "first")
    let level ← jInt (← jField j "level")
    let allIters ← jBool (← jField j "all_iters")
    let sel ← jOpt jInt (jFieldD j "select")
    let cnt := firstN first n
    let names : List Json := (List.range cnt).map (fun i => match name with
      | some nm => Json.str (String.mk (confName nm.toList i))
      | none => Json.null)
    let keys := levelKeys level allIters
    return okJ (Json.mkObj [("n", natJ cnt), ("names", Json.arr names.toArray),
      ("keys", Json.arr (keys.map (fun (k : Int) => Json.num (JsonNumber.fromInt k))).toArray),
      ("selected", match selectLevel keys sel with | some k => Json.num (JsonNumber.fromInt k) | none => Json.null)])
  | "pipe.save_run" =>
    -- the save step of fprints_dict_from_mol on a file system holding `pre` (level key, content tag) for this molecule
    let name ← jStr (← jField j "name")
    let level ← jInt (← jField j "level")
    let allIters ← jBool (← jField j "all_iters")
    let overwrite ← jBool (← jField j "overwrite")
    let ok ← jBool (← jField j "ok")
    let pre ← jList (jPair jInt jStr) (← jField j "pre")
    let fs : OFS String := pre.map (fun p => ((p.1, name), p.2))
    let (fs', dict) := saveMol fs name level allIters overwrite (if ok then some (fun _ => "fresh") else none)
    return okJ (Json.mkObj [
      ("files", Json.arr (fs'.map (fun e => Json.arr #[Json.num (JsonNumber.fromInt e.1.1), Json.str e.2])).toArray),
      ("returned", Json.arr (dict.map (fun e => Json.num (JsonNumber.fromInt e.1))).toArray)])
  | _ => .error s!"unknown op {op}"

end E3fpVerif
