import E3fpVerif.Codec
import E3fpVerif.Model.Conformer
namespace E3fpVerif
open Lean

def conformerOp (op : String) (j : Json) : Except String Json := do
  match op with
  | "conf.filter" =>
    let n ← jNat (← jField j "n")
    let es ← jList jRat (← jField j "energies")
    let pairs ← jList (fun p => do
      match ← jArr p with
      | [a, b, v] => return (← jNat a, ← jNat b, ← jRat v)
      | _ => .error "rmsd triple expected") (← jField j "rmsd")
    let first ← jNat (← jField j "first")
    let cutoff ← jRat (← jField j "cutoff")
    let window ← jOpt jRat (jFieldD j "window")
    let E := fun i => es.getD i 0
    -- the RMSD oracle: the recorded value of the ordered pair (accepted, candidate); a pair the real loop never asked for is `missing`
    let look := fun (a b : Nat) => (pairs.find? (fun t => t.1 = a ∧ t.2.1 = b)).map (·.2.2)
    let rmsd := fun a b => (look a b).getD ((look b a).getD 1000000)
    let out := filterConformers n E rmsd first cutoff window
    return okJ (Json.mkObj [("accepted", natsToJson out.accepted), ("energies", Json.arr (out.energies.map ratToJson).toArray),
      ("rmsds", Json.arr (out.rmsds.map (fun r => Json.arr (r.map ratToJson).toArray)).toArray)])
  | "conf.gen_hist" =>
    -- one generator object, a history of molecules given by their rotatable-bond counts
    let g := CGen.new (← jInt (← jField j "num_conf")) (← jInt (← jField j "first")) (← jNat (← jField j "pool"))
    let rots ← jList jNat (← jField j "rots")
    let (_, out) := g.runMols rots
    return okJ (Json.arr (out.map (fun t => Json.arr #[Json.num t.1, Json.num t.2.1, Json.num t.2.2])).toArray)
  | _ => .error s!"unknown op {op}"

end E3fpVerif
