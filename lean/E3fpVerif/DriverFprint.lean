import E3fpVerif.Codec
/-! Driver operations on fingerprints. -/
namespace E3fpVerif
open Lean

def jSetOp (j : Json) : Except String SetOp := do
  match ← jStr j with
  | "or" => .ok .or | "add" => .ok .add | "and" => .ok .and | "sub" => .ok .sub | "xor" => .ok .xor
  | s => .error s!"bad setop {s}"

def jCM (j : Json) : Except String CountsMethod :=
  match j with
  | .null => .ok .sum
  | .str "sum" => .ok .sum | .str "max" => .ok .max | .str "min" => .ok .min
  | _ => .error "bad counts_method"

def foldMapsJson (f : Fp) (bits method : Nat) : Json := Json.mkObj [
  ("unfold", Json.arr ((f.unfoldMap bits method).map (fun p => Json.arr #[Json.num ((p.1 : Nat) : Int), natsToJson p.2])).toArray),
  ("fold", Json.arr ((f.foldMap bits method).map (fun p => Json.arr #[Json.num ((p.1 : Nat) : Int), Json.num (p.2 : Int)])).toArray)]

def optFpJson : Option Fp → Json | none => .null | some f => fpToJson f

def fprintOp (op : String) (j : Json) : Except String Json := do
  match op with
  | "fp.new" =>
    let k ← jKind (← jField j "kind")
    let ix ← jOpt (jList jNat) (jFieldD j "indices")
    let c ← jOpt jCnt (jFieldD j "counts")
    let bits ← jNat (← jField j "bits")
    let level ← jInt (← jField j "level")
    match k with
    | .bit => return exJ fpToJson (mkBit (ix.getD []) bits level)
    | _ => return exJ fpToJson (mkCount k ix c bits level)
  | "fp.from_fingerprint" =>
    return exJ fpToJson (fromFingerprint (← jKind (← jField j "kind")) (← jFp (← jField j "fp")))
  | "fp.fold" =>
    let f ← jFp (← jField j "fp")
    let bits ← jNat (← jField j "bits")
    let method ← jNat (← jField j "method")
    let cm ← jCM (jFieldD j "counts_method")
    match f.fold bits method cm with
    | .ok g => return okJ (Json.mkObj [("fp", fpToJson g), ("maps", foldMapsJson f bits method)])
    | .error e => return errJ e
  | "fp.eq" =>
    return exJ (fun b => Json.bool b) ((← jFp (← jField j "a")).eq (← jFp (← jField j "b")))
  | "fp.ne" =>
    return exJ (fun b => Json.bool b) ((← jFp (← jField j "a")).ne (← jFp (← jField j "b")))
  | "fp.setop" =>
    return exJ fpToJson (Fp.setOp (← jSetOp (← jField j "o")) (← jFp (← jField j "a")) (← jFp (← jField j "b")))
  | "fp.addsub" =>
    return exJ fpToJson (Fp.addSub (← jInt (← jField j "sign")) (← jFp (← jField j "a")) (← jFp (← jField j "b")))
  | "fp.mul" => return exJ fpToJson ((← jFp (← jField j "a")).mul (← jRat (← jField j "x")))
  | "fp.div" => return exJ fpToJson ((← jFp (← jField j "a")).div (← jRat (← jField j "x")))
  | "fp.floordiv" => return exJ fpToJson ((← jFp (← jField j "a")).floordiv (← jRat (← jField j "x")))
  | "fp.add_batch" =>
    return exJ optFpJson (addBatch (← jList jFp (← jField j "fps")) (← jOpt (jList jRat) (jFieldD j "weights")))
  | "fp.mean_batch" =>
    return exJ optFpJson (meanBatch (← jList jFp (← jField j "fps")) (← jOpt (jList jRat) (jFieldD j "weights")))
  | "fp.to_dense" =>
    return okJ (Json.arr (((← jFp (← jField j "fp")).toDense).map ratToJson).toArray)
  | "fp.from_dense" =>
    return exJ fpToJson (fromDense (← jKind (← jField j "kind")) (← jList jRat (← jField j "v")) (← jInt (← jField j "level")))
  | "fp.from_sparse" =>
    return exJ fpToJson (fromSparse (← jKind (← jField j "kind")) (← jCnt (← jField j "stored"))
      (← jNat (← jField j "bits")) (← jInt (← jField j "level")))
  | "fp.to_bitstring" =>
    return okJ (Json.str (String.mk (((← jFp (← jField j "fp")).toBitstring).map (fun b => if b then '1' else '0'))))
  | "fp.from_bitstring" =>
    let s ← jStr (← jField j "s")
    return exJ fpToJson (fromBitstring (← jKind (← jField j "kind")) (s.toList.map (· != '0')) (← jInt (← jField j "level")))
  | "fp.to_rdkit" =>
    let r := (← jFp (← jField j "fp")).toRdkit
    return okJ (Json.arr #[Json.num ((r.1 : Nat) : Int), natsToJson r.2])
  | "fp.from_rdkit" =>
    return exJ fpToJson (fromRdkit (← jKind (← jField j "kind")) (← jNat (← jField j "nbits")) (← jList jNat (← jField j "on")))
  | "fp.rt_dense" =>
    let f ← jFp (← jField j "fp")
    return exJ fpToJson (fromDense f.kind f.toDense f.level)
  | "fp.rt_bitstring" =>
    let f ← jFp (← jField j "fp")
    return exJ fpToJson (fromBitstring f.kind f.toBitstring f.level)
  | "fp.rt_rdkit" =>
    let f ← jFp (← jField j "fp")
    return exJ fpToJson (fromRdkit f.kind f.toRdkit.1 f.toRdkit.2)
  | "fp.pickle" => return okJ (fpToJson ((← jFp (← jField j "fp")).pickleRoundTrip))
  | _ => .error s!"unknown op {op}"

end E3fpVerif
