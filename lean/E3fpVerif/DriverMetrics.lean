import E3fpVerif.DriverDb
import E3fpVerif.Model.Metrics
import E3fpVerif.Model.MetricsDispatch
import E3fpVerif.Model.Csr
import E3fpVerif.Model.MetricsCounts
namespace E3fpVerif
open Lean

def qJ (q : Rat) : Json := Json.mkObj [("q", ratToJson q)]
def pairJ (p : Rat × Rat) : Json := Json.mkObj [("num", ratToJson p.1), ("rad", ratToJson p.2)]

def jMeasure (s : String) : Except String Measure :=
  match s with
  | "tanimoto" => .ok .tanimoto | "dice" => .ok .dice | "soergel" => .ok .soergel
  | "cosine" => .ok .cosine | "pearson" => .ok .pearson
  | _ => .error "bad measure"

/-- an operand: {"fp": <fingerprint>} or {"db": {"kind", "level", "fps": [<fingerprint>…]}} -/
def jItem (j : Json) : Except String Item := do
  if let .ok f := j.getObjVal? "fp" then return .fp (← jFp f)
  let d ← jField j "db"
  let k ← jKind (← jField d "kind")
  let lvl ← jInt (← jField d "level")
  let fps ← jList jFp (← jField d "fps")
  let r := (Db.new k lvl none).add (fps.map (fun f => (⟨f, none, []⟩ : FpIn)))
  match r.2 with
  | none => return .db r.1
  | some _ => .error "cannot build database operand"

def simJ : Sim → Json
  | .q v => qJ v
  | .root n r => pairJ (n, r)

def jCsr (j : Json) : Except String Csr := do
  return { data := ← jList jRat (← jField j "data"), indices := ← jList jNat (← jField j "indices"),
           indptr := ← jList jNat (← jField j "indptr") }

def metricsOp (op : String) (j : Json) : Except String Json := do
  if op == "met.csr_soergel" then
    -- the sparse Soergel kernel on raw CSR arrays (Model/Csr: the index-walking loop itself)
    let X ← jCsr (← jField j "X"); let Y ← jCsr (← jField j "Y")
    return okJ (Json.arr ((X.soergel Y).map (fun r => Json.arr (r.map ratToJson).toArray)).toArray)
  let m ← jStr (← jField j "m")
  match op with
  | "met.dispatch" =>
    let mm ← jMeasure m
    let a ← jItem (← jField j "a")
    let b ← jOpt jItem (jFieldD j "b")
    match metricDispatch mm a b with
    | .error e => return errJ e
    | .ok (.inl s) => return okJ (Json.mkObj [("scalar", simJ s)])
    | .ok (.inr rows) => return okJ (Json.mkObj [("matrix", Json.arr (rows.map (fun r => Json.arr (r.map simJ).toArray)).toArray)])
  | "met.fp" =>
    let a ← jFp (← jField j "a"); let b ← jFp (← jField j "b")
    match m with
    | "tanimoto" => return okJ (qJ (fpTanimoto a b))
    | "dice" => return okJ (qJ (fpDice a b))
    | "soergel" => return okJ (qJ (fpSoergel a b))
    | "cosine" => return okJ (pairJ (fpCosine a b))
    | "pearson" => return okJ (pairJ (fpPearson a b))
    | _ => .error "bad measure"
  | "met.arr" =>
    let x ← jRow (← jField j "x"); let y ← jRow (← jField j "y")
    let b ← jNat (← jField j "bits")
    let dense ← jBool (← jField j "dense")
    match m with
    | "tanimoto" => return okJ (qJ (arrTanimoto x y))
    | "dice" => return okJ (qJ (arrDice x y))
    | "soergel" =>
      if dense then return okJ (qJ (arrSoergelDense ((List.range b).map (rowVal x)) ((List.range b).map (rowVal y))))
      else return okJ (qJ (arrSoergelSparse x y))
    | "cosine" => return okJ (pairJ (arrCosine x y))
    | "pearson" => return okJ (pairJ (arrPearson b x y))
    | _ => .error "bad measure"
  | "met.def" =>
    let x ← jRow (← jField j "x"); let y ← jRow (← jField j "y")
    let b ← jNat (← jField j "bits")
    match m with
    | "tanimoto" => return okJ (qJ (tanimotoDef x y))
    | "dice" => return okJ (qJ (diceDef x y))
    | "soergel" => return okJ (qJ (soergelDef x y))
    | "cosine" => return okJ (pairJ (cosineDef x y))
    | "pearson" => return okJ (pairJ (pearsonDef b x y))
    | _ => .error "bad measure"
  | "met.counts" =>
    -- two 0/1 rows known only by |A|, |B|, |A ∩ B| and the row length (Props/C06Counts: the definitions' values)
    let k : Counts := ⟨← jNat (← jField j "a"), ← jNat (← jField j "b"), ← jNat (← jField j "c")⟩
    let b ← jNat (← jField j "bits")
    match m with
    | "tanimoto" => return okJ (qJ (tanimotoC k))
    | "dice" => return okJ (qJ (diceC k))
    | "soergel" => return okJ (qJ (tanimotoC k))
    | "cosine" => return okJ (pairJ (cosineC k))
    | "pearson" => return okJ (pairJ (pearsonC b k))
    | _ => .error "bad measure"
  | _ => .error s!"unknown op {op}"

end E3fpVerif
