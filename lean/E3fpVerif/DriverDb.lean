import E3fpVerif.Codec
import E3fpVerif.Model.Db
import Std.Data.HashMap
/-! Driver operations on databases (stateful: a store of live databases by id). -/
namespace E3fpVerif
open Lean

def pvalToJson : PVal → Json
  | .int i => Json.mkObj [("i", Json.num i)]
  | .float q => Json.mkObj [("f", ratToJson q)]
  | .bool b => Json.mkObj [("b", Json.bool b)]
  | .str s => Json.mkObj [("s", Json.str s)]

def jPVal (j : Json) : Except String PVal := do
  if let .ok v := j.getObjVal? "i" then return .int (← jInt v)
  if let .ok v := j.getObjVal? "f" then return .float (← jRat v)
  if let .ok v := j.getObjVal? "b" then return .bool (← jBool v)
  if let .ok v := j.getObjVal? "s" then return .str (← jStr v)
  .error "bad pval"

def optStrJ : Option String → Json | none => .null | some s => .str s
def jOptStr (j : Json) : Except String (Option String) := jOpt jStr j

def insertSortedBy {α} (lt : α → α → Bool) (x : α) : List α → List α
  | [] => [x]
  | y :: ys => if lt x y then x :: y :: ys else y :: insertSortedBy lt x ys
def sortBy {α} (lt : α → α → Bool) (l : List α) : List α := l.foldr (insertSortedBy lt) []

def rowJ (r : Row) : Json :=
  Json.arr ((sortBy (fun (a b : Nat × Rat) => a.1 < b.1) r).map (fun p => Json.arr #[natJ p.1, ratToJson p.2])).toArray

def jRow (j : Json) : Except String Row := jList (jPair jNat jRat) j

def optStrKey : Option String → String | none => "\x00none" | some s => "s:" ++ s

def dbToJson (db : Db) : Json := Json.mkObj [
  ("kind", kindToString db.fpType), ("level", Json.num db.level), ("name", optStrJ db.name),
  ("bits", match db.array with | none => .null | some _ => natJ db.bits),
  ("n", natJ db.fpNum),
  ("rows", Json.arr ((db.array.getD []).map rowJ).toArray),
  ("fp_names", Json.arr (db.fpNames.map optStrJ).toArray),
  ("names_map", Json.arr ((sortBy (fun (a b : Option String × List Nat) => optStrKey a.1 < optStrKey b.1) db.namesMap).map
      (fun p => Json.arr #[optStrJ p.1, natsToJson p.2])).toArray),
  ("props", Json.arr ((sortBy (fun (a b : String × List PVal) => a.1 < b.1) db.props).map
      (fun p => Json.arr #[Json.str p.1, Json.arr (p.2.map pvalToJson).toArray])).toArray)]

def fpInToJson (f : FpIn) : Json := Json.mkObj [
  ("fp", fpToJson f.fp), ("name", optStrJ f.name),
  ("props", Json.arr ((sortBy (fun (a b : String × PVal) => a.1 < b.1) f.props).map (fun p => Json.arr #[Json.str p.1, pvalToJson p.2])).toArray)]

def jFpIn (j : Json) : Except String FpIn := do
  return { fp := ← jFp (← jField j "fp"), name := ← jOptStr (jFieldD j "name"),
           props := ← jList (jPair jStr jPVal) (jFieldD j "props" |> fun x => if x == .null then Json.arr #[] else x) }

def jCols (j : Json) : Except String (List (String × List PVal)) :=
  if j == .null then .ok [] else jList (jPair jStr (jList jPVal)) j

abbrev Store := Std.HashMap String Db

def getDb (st : Store) (j : Json) (k : String := "id") : Except String Db := do
  let id ← jStr (← jField j k)
  match st.get? id with
  | some d => .ok d
  | none => .error s!"no db {id}"

def stateRes (d : Db × Option Err) : Json :=
  match d.2 with
  | none => okJ (dbToJson d.1)
  | some e => Json.mkObj [("err", errToString e), ("db", dbToJson d.1)]

def putRes (st : Store) (out : String) (r : Except Err Db) : Store × Json :=
  match r with
  | .ok d => (st.insert out d, okJ (dbToJson d))
  | .error e => (st, errJ e)

def dbOp (st : Store) (op : String) (j : Json) : Except String (Store × Json) := do
  match op with
  | "db.new" =>
    let id ← jStr (← jField j "id")
    let d := Db.new (← jKind (← jField j "kind")) (← jInt (← jField j "level")) (← jOptStr (jFieldD j "name"))
    return (st.insert id d, okJ (dbToJson d))
  | "db.add" =>
    let id ← jStr (← jField j "id")
    let d ← getDb st j
    let r := d.add (← jList jFpIn (← jField j "fps"))
    return (st.insert id r.1, stateRes r)
  | "db.from_array" =>
    let id ← jStr (← jField j "id")
    let r := Db.fromArray (← jList jRow (← jField j "rows")) (← jNat (← jField j "bits"))
      (← jList jOptStr (← jField j "names")) (← jKind (← jField j "kind")) (← jInt (← jField j "level"))
      (← jOptStr (jFieldD j "name")) (← jCols (jFieldD j "props"))
    match r.2 with
    | none => return (st.insert id r.1, okJ (dbToJson r.1))
    | some e => return (st, errJ e)
  | "db.get_index" =>
    return (st, exJ fpInToJson ((← getDb st j).getIndex (← jInt (← jField j "i"))))
  | "db.get_name" =>
    return (st, exJ (fun l => Json.arr (l.map fpInToJson).toArray) ((← getDb st j).getName (← jStr (← jField j "nm"))))
  | "db.subset" =>
    return putRes st (← jStr (← jField j "out")) ((← getDb st j).subset (← jList jStr (← jField j "names")) (← jOptStr (jFieldD j "name")))
  | "db.as_type" =>
    return putRes st (← jStr (← jField j "out")) ((← getDb st j).asType (← jKind (← jField j "kind")))
  | "db.fold" =>
    return putRes st (← jStr (← jField j "out")) ((← getDb st j).fold (← jNat (← jField j "bits"))
      (← jOpt jKind (jFieldD j "kind")) (← jOptStr (jFieldD j "name")))
  | "db.concat" =>
    let ids ← jList jStr (← jField j "ids")
    let dbs ← ids.mapM (fun id => match st.get? id with | some d => Except.ok d | none => .error s!"no db {id}")
    return putRes st (← jStr (← jField j "out")) (Db.concat dbs)
  | "db.set_prop" =>
    let id ← jStr (← jField j "id")
    let r := (← getDb st j).setProp (← jStr (← jField j "key")) (← jList jPVal (← jField j "vals"))
    return (st.insert id r.1, stateRes r)
  | "db.update_props" =>
    let id ← jStr (← jField j "id")
    let r := (← getDb st j).updateProps (← jCols (← jField j "props"))
    return (st.insert id r.1, stateRes r)
  | "db.pickle" =>
    return putRes st (← jStr (← jField j "out")) (.ok (← getDb st j).pickleRoundTrip)
  | "db.savez_load" =>
    return putRes st (← jStr (← jField j "out")) ((← getDb st j).savezLoad)
  | "db.eq" =>
    return (st, okJ (Json.bool ((← getDb st j "a").eq (← getDb st j "b"))))
  | "db.dump" => return (st, okJ (dbToJson (← getDb st j)))
  | "db.drop" => return (st.erase (← jStr (← jField j "id")), okJ .null)
  | "db.reset" => return ({}, okJ .null)
  | "db.savetxt" =>
    let d ← getDb st j
    let withNames ← jBool (← jField j "with_names")
    let lines := ((d.array.getD []).zip d.fpNames).map (fun p =>
      String.mk ((bitstringOfRow d.bits p.1).map (fun b => if b then '1' else '0')) ++
        (if withNames then " " ++ (p.2.getD "None") else ""))
    return (st, okJ (Json.arr (lines.map Json.str).toArray))
  | _ => .error s!"unknown op {op}"

end E3fpVerif
