import E3fpVerif.Codec
import E3fpVerif.Model.DbHist
/-! Driver operations on databases (stateful: a store of live databases by id). -/
namespace E3fpVerif
open Lean

def pvalToJson : PVal → Json
  | .int i => Json.mkObj [("i", Json.num i)]
  | .float q => Json.mkObj [("f", ratToJson q)]
  | .bool b => Json.mkObj [("b", Json.bool b)]
  | .str s => Json.mkObj [("s", Json.str s)]

def jPVal (j : Json) : Except String PVal := do
  if let .ok v := j.getObjVal? "i" then return .int (← jInt v)
  if let .ok v := j.getObjVal? "f" then return .float (← jRat v)
  if let .ok v := j.getObjVal? "b" then return .bool (← jBool v)
  if let .ok v := j.getObjVal? "s" then return .str (← jStr v)
  .error "bad pval"

def optStrJ : Option String → Json | none => .null | some s => .str s
def jOptStr (j : Json) : Except String (Option String) := jOpt jStr j

def insertSortedBy {α} (lt : α → α → Bool) (x : α) : List α → List α
  | [] => [x]
  | y :: ys => if lt x y then x :: y :: ys else y :: insertSortedBy lt x ys
def sortBy {α} (lt : α → α → Bool) (l : List α) : List α := l.foldr (insertSortedBy lt) []

def rowJ (r : Row) : Json :=
  Json.arr ((sortBy (fun (a b : Nat × Rat) => a.1 < b.1) r).map (fun p => Json.arr #[natJ p.1, ratToJson p.2])).toArray

def jRow (j : Json) : Except String Row := jList (jPair jNat jRat) j

def optStrKey : Option String → String | none => "\x00none" | some s => "s:" ++ s

def dbToJson (db : Db) : Json := Json.mkObj [
  ("kind", kindToString db.fpType), ("level", Json.num db.level), ("name", optStrJ db.name),
  ("bits", match db.array with | none => .null | some _ => natJ db.bits),
  ("n", natJ db.fpNum),
  ("rows", Json.arr ((db.array.getD []).map rowJ).toArray),
  ("fp_names", Json.arr (db.fpNames.map optStrJ).toArray),
  ("names_map", Json.arr ((sortBy (fun (a b : Option String × List Nat) => optStrKey a.1 < optStrKey b.1) db.namesMap).map
      (fun p => Json.arr #[optStrJ p.1, natsToJson p.2])).toArray),
  ("props", Json.arr ((sortBy (fun (a b : String × List PVal) => a.1 < b.1) db.props).map
      (fun p => Json.arr #[Json.str p.1, Json.arr (p.2.map pvalToJson).toArray])).toArray)]

def fpInToJson (f : FpIn) : Json := Json.mkObj [
  ("fp", fpToJson f.fp), ("name", optStrJ f.name),
  ("props", Json.arr ((sortBy (fun (a b : String × PVal) => a.1 < b.1) f.props).map (fun p => Json.arr #[Json.str p.1, pvalToJson p.2])).toArray)]

def jFpIn (j : Json) : Except String FpIn := do
  return { fp := ← jFp (← jField j "fp"), name := ← jOptStr (jFieldD j "name"),
           props := ← jList (jPair jStr jPVal) (jFieldD j "props" |> fun x => if x == .null then Json.arr #[] else x) }

def jCols (j : Json) : Except String (List (String × List PVal)) :=
  if j == .null then .ok [] else jList (jPair jStr (jList jPVal)) j

/-- the live databases twice: the operational model's pool and the list-of-rows specification's
pool (`Model/DbHist.lean`).  Every mutating op goes through `stepOp` *and* `specStep`; the two must
give the same answer and `absPool` of the first must equal the second, otherwise the driver
reports an error (a run-time instance of `Props/C05Hist.history_refines`). -/
structure Store where
  pool : Pool := []
  spec : SPool := []

def getDb (st : Store) (j : Json) (k : String := "id") : Except String Db := do
  let id ← jStr (← jField j k)
  match st.pool.get? id with
  | some d => .ok d
  | none => .error s!"no db {id}"

def getSpec (st : Store) (j : Json) (k : String := "id") : Except String SDb := do
  let id ← jStr (← jField j k)
  match st.spec.get? id with
  | some d => .ok d
  | none => .error s!"no spec db {id}"

def stateRes (d : Db × Option Err) : Json :=
  match d.2 with
  | none => okJ (dbToJson d.1)
  | some e => Json.mkObj [("err", errToString e), ("db", dbToJson d.1)]

/-- run one history op on both pools; `show` names the database whose dump is the answer and says
whether a refusal still reports the (unchanged) state -/
def histStep (st : Store) (op : DbOp) (show_ : String) (withState : Bool) : Except String (Store × Json) :=
  match stepOp st.pool op, specStep st.spec op with
  | some (p, a), some (sp, a') =>
    if a != a' then .error s!"specification answers {repr a'} but the model answers {repr a}"
    else if absPool p != sp then .error "model pool and specification pool differ after the step"
    else
      let st' : Store := { pool := p, spec := sp }
      match a with
      | none =>
        match p.get? show_ with
        | some d => .ok (st', okJ (dbToJson d))
        | none => .error s!"no db {show_} after the step"
      | some e =>
        if withState then
          match p.get? show_ with
          | some d => .ok (st', Json.mkObj [("err", errToString e), ("db", dbToJson d)])
          | none => .error s!"no db {show_} after the step"
        else .ok (st', errJ e)
  | none, none => .error "operation on a database that is not live"
  | _, _ => .error "model and specification disagree on which databases are live"

def sameRead {α : Type} [BEq α] (what : String) (m s : Except Err α) : Except String Unit :=
  match m, s with
  | .ok x, .ok y => if x == y then .ok () else .error s!"{what}: specification and model return different values"
  | .error e, .error e' => if e == e' then .ok () else .error s!"{what}: specification and model raise different errors"
  | _, _ => .error s!"{what}: one of specification and model raises"

instance : BEq FpIn := ⟨fun a b => decide (a = b)⟩

def dbOp (st : Store) (op : String) (j : Json) : Except String (Store × Json) := do
  match op with
  | "db.new" =>
    let id ← jStr (← jField j "id")
    histStep st (.new id (← jKind (← jField j "kind")) (← jInt (← jField j "level")) (← jOptStr (jFieldD j "name"))) id false
  | "db.add" =>
    let id ← jStr (← jField j "id")
    histStep st (.add id (← jList jFpIn (← jField j "fps"))) id true
  | "db.from_array" =>
    let id ← jStr (← jField j "id")
    histStep st (.fromArray id (← jList jRow (← jField j "rows")) (← jNat (← jField j "bits"))
      (← jList jOptStr (← jField j "names")) (← jKind (← jField j "kind")) (← jInt (← jField j "level"))
      (← jOptStr (jFieldD j "name")) (← jCols (jFieldD j "props"))) id false
  | "db.get_index" =>
    let i ← jInt (← jField j "i")
    let r := (← getDb st j).getIndex i
    sameRead "db[i]" r ((← getSpec st j).getIndex i)
    return (st, exJ fpInToJson r)
  | "db.get_name" =>
    let nm ← jStr (← jField j "nm")
    let r := (← getDb st j).getName nm
    sameRead "db[name]" r ((← getSpec st j).getName nm)
    return (st, exJ (fun l => Json.arr (l.map fpInToJson).toArray) r)
  | "db.subset" =>
    let out ← jStr (← jField j "out")
    histStep st (.subset (← jStr (← jField j "id")) out (← jList jStr (← jField j "names")) (← jOptStr (jFieldD j "name"))) out false
  | "db.as_type" =>
    let out ← jStr (← jField j "out")
    histStep st (.asType (← jStr (← jField j "id")) out (← jKind (← jField j "kind"))) out false
  | "db.fold" =>
    let out ← jStr (← jField j "out")
    histStep st (.fold (← jStr (← jField j "id")) out (← jNat (← jField j "bits"))
      (← jOpt jKind (jFieldD j "kind")) (← jOptStr (jFieldD j "name"))) out false
  | "db.concat" =>
    let out ← jStr (← jField j "out")
    histStep st (.concat (← jList jStr (← jField j "ids")) out) out false
  | "db.set_prop" =>
    let id ← jStr (← jField j "id")
    histStep st (.setProp id (← jStr (← jField j "key")) (← jList jPVal (← jField j "vals"))) id true
  | "db.update_props" =>
    let id ← jStr (← jField j "id")
    histStep st (.updateProps id (← jCols (← jField j "props"))) id true
  | "db.pickle" =>
    let out ← jStr (← jField j "out")
    histStep st (.pickle (← jStr (← jField j "id")) out) out false
  | "db.savez_load" =>
    let out ← jStr (← jField j "out")
    histStep st (.savezLoad (← jStr (← jField j "id")) out) out false
  | "db.eq" =>
    return (st, okJ (Json.bool ((← getDb st j "a").eq (← getDb st j "b"))))
  | "db.dump" => return (st, okJ (dbToJson (← getDb st j)))
  | "db.drop" =>
    let id ← jStr (← jField j "id")
    return ({ pool := st.pool.filter (fun e => e.1 != id), spec := st.spec.filter (fun e => e.1 != id) }, okJ .null)
  | "db.reset" => return ({}, okJ .null)
  | "db.savetxt" =>
    let d ← getDb st j
    let withNames ← jBool (← jField j "with_names")
    return (st, okJ (Json.arr ((d.savetxtLines withNames).map (fun l => Json.str (String.mk l))).toArray))
  | _ => .error s!"unknown op {op}"

end E3fpVerif
