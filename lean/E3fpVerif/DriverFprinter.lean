import E3fpVerif.Codec
import E3fpVerif.Model.Fprinter
import E3fpVerif.Model.FpObj
import E3fpVerif.Model.Entry
namespace E3fpVerif
open Lean

def jFloatBits (j : Json) : Except String Float := do
  let n ← jNat j
  return Float.ofBits (UInt64.ofNat n)

def jAtomInfo (j : Json) : Except String AtomInfo := do
  return { idx := ← jNat (← jField j "idx"), atomicNum := ← jNat (← jField j "z"), degree := ← jNat (← jField j "deg"),
           invD := ← jList jInt (← jField j "invD"), invR := ← jList jInt (← jField j "invR") }

def jTriple (j : Json) : Except String (Nat × Nat × Nat) := do
  match ← jArr j with
  | [a, b, c] => return (← jNat a, ← jNat b, ← jNat c)
  | _ => .error "triple expected"

def jMol (j : Json) : Except String MolG := do
  return { atoms := ← jList jAtomInfo (← jField j "atoms"), bonds := ← jList jTriple (← jField j "bonds") }

def jOpts (j : Json) : Except String Opts := do
  return { bits := ← jNat (← jField j "bits"), level := ← jInt (← jField j "level"),
           stereo := ← jBool (← jField j "stereo"), counts := ← jBool (← jField j "counts"),
           includeDisconnected := ← jBool (← jField j "include_disconnected"),
           rdkitInvariants := ← jBool (← jField j "rdkit_invariants"),
           excludeFloating := ← jBool (← jField j "exclude_floating"),
           removeDup := ← jBool (← jField j "remove_duplicate_substructs") }

def jCoords (j : Json) : Except String (List (Nat × V3 Float)) :=
  jList (fun r => do
    match ← jArr r with
    | [i, x, y, z] => return (← jNat i, (⟨← jFloatBits x, ← jFloatBits y, ← jFloatBits z⟩ : V3 Float))
    | _ => .error "coord row expected") j

def coordFn (cs : List (Nat × V3 Float)) (a : Nat) : V3 Float :=
  match cs.find? (fun p => p.1 = a) with
  | some p => p.2
  | none => ⟨0, 0, 0⟩

def shellJ (s : GShell) : Json := Json.arr #[natJ s.atom, Json.num s.ident, natsToJson s.sub]

def ltShellOut (a b : GShell) : Bool := a.atom < b.atom || (a.atom == b.atom && a.ident < b.ident)

def levelsJ (s : FState) : Json :=
  Json.arr (s.levelShells.map (fun l => Json.arr ((sortByLt ltShellOut l).map shellJ).toArray)).toArray

def namedFpJ (x : NamedFp) : Json :=
  Json.arr #[fpToJson x.fp, (match x.name with | some n => Json.str (String.mk n) | none => Json.null)]

def entryJ (e : Int × List NamedFp) : Json :=
  Json.arr #[Json.num (JsonNumber.fromInt e.1), Json.arr (e.2.map namedFpJ).toArray]

def fprinterOp (op : String) (j : Json) : Except String Json := do
  match op with
  | "fpr.run" =>
    let o ← jOpts (← jField j "opts")
    let m ← jMol (← jField j "mol")
    let cs ← jCoords (← jField j "coords")
    let mult ← jFloatBits (← jField j "mult")
    let g : Geo := Geo.ofCoords mult (coordFn cs)
    match runFp o m g with
    | .error e => return errJ e
    | .ok s =>
      let qs ← jArr (jFieldD j "queries" |> fun x => if x == .null then Json.arr #[] else x)
      let fps ← qs.mapM (fun q => do
        let lvl ← jOpt jInt (jFieldD q "level")
        let bits ← jOpt jNat (jFieldD q "bits")
        let mask ← (if jFieldD q "mask" == .null then pure [] else jList jNat (jFieldD q "mask"))
        return Json.mkObj [("fp", exJ fpToJson (fingerprintAt o s lvl bits mask)),
                           ("shells", Json.arr ((sortByLt ltShellOut (shellsAt s lvl mask)).map shellJ).toArray)])
      return okJ (Json.mkObj [("current", natJ s.currentLevel), ("levels", levelsJ s), ("queries", Json.arr fps.toArray),
                              ("atoms", natsToJson (retained o m))])
  | "fpo.hist" =>
    let o ← jOpts (← jField j "opts")
    let mols ← jList jMol (← jField j "mols")
    let confs ← jList (fun c => do return (← jNat (← jField c "mol"), ← jCoords (← jField c "coords"))) (← jField j "confs")
    let mult ← jFloatBits (← jField j "mult")
    let runs ← jArr (← jField j "runs")
    let mut f := FpObj.new o
    let mut outs : Array Json := #[]
    for r in runs do
      let ci ← jNat (← jField r "conf")
      let mid ← jOpt jNat (jFieldD r "mid")
      let (mi, cs) := confs.getD ci (0, [])
      let m := mols.getD mi ⟨[], []⟩
      let g : Geo := Geo.ofCoords mult (coordFn cs)
      let (f', res) := f.run mid m g
      f := f'
      match res, f'.state with
      | .ok (), some s =>
        let qs ← jArr (jFieldD r "queries" |> fun x => if x == .null then Json.arr #[] else x)
        let fps ← qs.mapM (fun q => do
          let lvl ← jOpt jInt (jFieldD q "level")
          let bits ← jOpt jNat (jFieldD q "bits")
          let mask ← (if jFieldD q "mask" == .null then pure [] else jList jNat (jFieldD q "mask"))
          return Json.mkObj [("fp", exJ fpToJson (fingerprintAt o s lvl bits mask)),
                             ("shells", Json.arr ((sortByLt ltShellOut (shellsAt s lvl mask)).map shellJ).toArray)])
        outs := outs.push (okJ (Json.mkObj [("current", natJ s.currentLevel), ("levels", levelsJ s), ("queries", Json.arr fps.toArray),
                              ("atoms", natsToJson f'.atoms)]))
      | .error e, _ => outs := outs.push (errJ e)
      | _, _ => outs := outs.push (errJ .other)
    return okJ (Json.arr outs)
  | "fpo.entry" =>
    -- `fprints_dict_from_mol` without saving: the conformer loop on one reused fingerprinter object
    let o ← jOpts (← jField j "opts")
    let m ← jMol (← jField j "mol")
    let confs ← jList jCoords (← jField j "confs")
    let mult ← jFloatBits (← jField j "mult")
    let name ← jOpt jStr (jFieldD j "name")
    let first ← jInt (← jField j "first")
    let allIters ← jBool (← jField j "all_iters")
    let geos : List Geo := confs.map (fun cs => Geo.ofCoords mult (coordFn cs))
    match entryRun o 0 m geos (name.map String.toList) first allIters with
    | .error e => return errJ e
    | .ok none => return okJ .null
    | .ok (some d) =>
      return okJ (Json.arr (d.map entryJ).toArray)
  | "fpr.hash" => return okJ (Json.num (murmur Gen.MMH3_SEED (← jList jInt (← jField j "words"))))
  | _ => .error s!"unknown op {op}"

end E3fpVerif
