import E3fpVerif.Lemmas.RealScalar
/-!
# Rigid motions of `V3 ℝ` and how every function of `Model/Geom.lean` transforms under them
-/
namespace E3fpVerif
namespace Rigid
open RealScalar E3fpVerif.V3

/-- a real 3×3 matrix, written out -/
structure Mat3 where
  r11 : ℝ
  r12 : ℝ
  r13 : ℝ
  r21 : ℝ
  r22 : ℝ
  r23 : ℝ
  r31 : ℝ
  r32 : ℝ
  r33 : ℝ

/-- matrix times vector -/
def rot (R : Mat3) (v : V3 ℝ) : V3 ℝ :=
  ⟨R.r11 * v.x + R.r12 * v.y + R.r13 * v.z,
   R.r21 * v.x + R.r22 * v.y + R.r23 * v.z,
   R.r31 * v.x + R.r32 * v.y + R.r33 * v.z⟩

/-- `Rᵀ R = 1`: the columns are orthonormal -/
structure Orth (R : Mat3) : Prop where
  h11 : R.r11 * R.r11 + R.r21 * R.r21 + R.r31 * R.r31 = 1
  h22 : R.r12 * R.r12 + R.r22 * R.r22 + R.r32 * R.r32 = 1
  h33 : R.r13 * R.r13 + R.r23 * R.r23 + R.r33 * R.r33 = 1
  h12 : R.r11 * R.r12 + R.r21 * R.r22 + R.r31 * R.r32 = 0
  h13 : R.r11 * R.r13 + R.r21 * R.r23 + R.r31 * R.r33 = 0
  h23 : R.r12 * R.r13 + R.r22 * R.r23 + R.r32 * R.r33 = 0

def det (R : Mat3) : ℝ :=
  R.r11 * (R.r22 * R.r33 - R.r23 * R.r32) - R.r12 * (R.r21 * R.r33 - R.r23 * R.r31)
    + R.r13 * (R.r21 * R.r32 - R.r22 * R.r31)

/-- rotate (or reflect), then translate -/
noncomputable def move (R : Mat3) (t : V3 ℝ) (v : V3 ℝ) : V3 ℝ := V3.add (rot R v) t

theorem v3_ext {u v : V3 ℝ} (hx : u.x = v.x) (hy : u.y = v.y) (hz : u.z = v.z) : u = v := by
  cases u; cases v; simp_all

/-! ## linearity -/

theorem rot_sub (R : Mat3) (a b : V3 ℝ) : rot R (V3.sub a b) = V3.sub (rot R a) (rot R b) := by
  apply v3_ext <;> simp [rot, V3.sub] <;> ring

theorem rot_add (R : Mat3) (a b : V3 ℝ) : rot R (V3.add a b) = V3.add (rot R a) (rot R b) := by
  apply v3_ext <;> simp [rot, V3.add] <;> ring

theorem rot_smul (R : Mat3) (c : ℝ) (a : V3 ℝ) : rot R (V3.smul c a) = V3.smul c (rot R a) := by
  apply v3_ext <;> simp [rot, V3.smul] <;> ring

theorem rot_sdiv (R : Mat3) (a : V3 ℝ) (c : ℝ) : rot R (V3.sdiv a c) = V3.sdiv (rot R a) c := by
  apply v3_ext <;> simp [rot, V3.sdiv] <;> ring

theorem rot_vzero (R : Mat3) : rot R (V3.vzero : V3 ℝ) = V3.vzero := by
  apply v3_ext <;> simp [rot, V3.vzero]

theorem sub_move (R : Mat3) (t a b : V3 ℝ) :
    V3.sub (move R t a) (move R t b) = rot R (V3.sub a b) := by
  apply v3_ext <;> simp [move, rot, V3.sub, V3.add] <;> ring

/-! ## metric invariants -/

theorem dot_rot {R : Mat3} (hR : Orth R) (u v : V3 ℝ) :
    V3.dot (rot R u) (rot R v) = V3.dot u v := by
  obtain ⟨h11, h22, h33, h12, h13, h23⟩ := hR
  simp only [V3.dot, rot, add_def, mul_def]
  linear_combination (u.x * v.x) * h11 + (u.y * v.y) * h22 + (u.z * v.z) * h33
    + (u.x * v.y + u.y * v.x) * h12 + (u.x * v.z + u.z * v.x) * h13 + (u.y * v.z + u.z * v.y) * h23

theorem norm_rot {R : Mat3} (hR : Orth R) (u : V3 ℝ) : V3.norm (rot R u) = V3.norm u := by
  simp only [V3.norm, dot_rot hR]

theorem dist_rot {R : Mat3} (hR : Orth R) (u v : V3 ℝ) :
    V3.dist (rot R u) (rot R v) = V3.dist u v := by
  simp only [V3.dist, ← rot_sub, dot_rot hR]

theorem dist_move {R : Mat3} (hR : Orth R) (t u v : V3 ℝ) :
    V3.dist (move R t u) (move R t v) = V3.dist u v := by
  simp only [V3.dist, sub_move, dot_rot hR]

/-- multiplicativity of the determinant, in triple-product form; no orthogonality needed -/
theorem triple_rot (R : Mat3) (n u v : V3 ℝ) :
    V3.dot (rot R n) (V3.cross (rot R u) (rot R v)) = det R * V3.dot n (V3.cross u v) := by
  simp only [V3.dot, V3.cross, rot, det, add_def, mul_def, sub_def]
  ring

theorem isZero_iff (u : V3 ℝ) : V3.isZero u = true ↔ u.x = 0 ∧ u.y = 0 ∧ u.z = 0 := by
  simp [V3.isZero, and_assoc]

theorem isZero_rot {R : Mat3} (hR : Orth R) (u : V3 ℝ) :
    V3.isZero (rot R u) = V3.isZero u := by
  rw [Bool.eq_iff_iff, isZero_iff, isZero_iff]
  constructor
  · rintro ⟨hx, hy, hz⟩
    have h := dot_rot hR u u
    simp only [V3.dot, hx, hy, hz, add_def, mul_def] at h
    have h0 : u.x * u.x + u.y * u.y + u.z * u.z = 0 := by linarith
    have hx2 := mul_self_nonneg u.x
    have hy2 := mul_self_nonneg u.y
    have hz2 := mul_self_nonneg u.z
    refine ⟨?_, ?_, ?_⟩ <;> apply mul_self_eq_zero.mp <;> linarith
  · rintro ⟨hx, hy, hz⟩
    simp [rot, hx, hy, hz]

theorem asUnit_rot {R : Mat3} (hR : Orth R) (u : V3 ℝ) :
    V3.asUnit (rot R u) = rot R (V3.asUnit u) := by
  simp only [V3.asUnit, dot_rot hR]
  split
  · rfl
  · rw [rot_sdiv]

theorem projectToPlane_rot {R : Mat3} (hR : Orth R) (v n : V3 ℝ) :
    V3.projectToPlane (rot R v) (rot R n) = rot R (V3.projectToPlane v n) := by
  simp only [V3.projectToPlane, asUnit_rot hR, dot_rot hR, rot_sub, rot_smul]

theorem angle_rot {R : Mat3} (hR : Orth R) (v ref : V3 ℝ) :
    V3.angle (rot R v) (rot R ref) = V3.angle v ref := by
  simp only [V3.angle, asUnit_rot hR, dot_rot hR, isZero_rot hR]

theorem signedAngle_rot {R : Mat3} (hR : Orth R) (hdet : det R = 1) (v ref n : V3 ℝ) :
    V3.signedAngle (rot R v) (rot R ref) (rot R n) = V3.signedAngle v ref n := by
  simp only [V3.signedAngle, asUnit_rot hR, dot_rot hR, isZero_rot hR, triple_rot, hdet, one_mul]

/-- under an improper isometry (`det R = -1`) the signed angle is the one measured against the
opposite normal: handedness flips, nothing else changes -/
theorem signedAngle_rot_improper {R : Mat3} (hR : Orth R) (hdet : det R = -1) (v ref n : V3 ℝ) :
    V3.signedAngle (rot R v) (rot R ref) (rot R n) = V3.signedAngle v ref (V3.smul (-1) n) := by
  have h : ∀ w : V3 ℝ, V3.dot (V3.smul (-1) n) w = -1 * V3.dot n w := by
    intro w
    simp only [V3.dot, V3.smul, add_def, mul_def]
    ring
  simp only [V3.signedAngle, asUnit_rot hR, dot_rot hR, isZero_rot hR, triple_rot, hdet, h]

theorem foldl_add_rot (R : Mat3) (vs : List (V3 ℝ)) (acc : V3 ℝ) :
    (vs.map (rot R)).foldl V3.add (rot R acc) = rot R (vs.foldl V3.add acc) := by
  induction vs generalizing acc with
  | nil => rfl
  | cons a as ih => simp only [List.map_cons, List.foldl_cons, ← rot_add, ih]

theorem mean_rot (R : Mat3) (vs : List (V3 ℝ)) :
    V3.mean (vs.map (rot R)) = rot R (V3.mean vs) := by
  have h := foldl_add_rot R vs V3.vzero
  rw [rot_vzero] at h
  simp only [V3.mean, List.length_map, h, rot_sdiv]

/-! ## the choice of axes and the stereo codes -/

theorem getD_map_rot (R : Mat3) (l : List (V3 ℝ)) (i : Nat) :
    (l.map (rot R)).getD i V3.vzero = rot R (l.getD i V3.vzero) := by
  simp only [List.getD_eq_getElem?_getD, List.getElem?_map]
  cases l[i]? with
  | none => simp [rot_vzero]
  | some v => rfl

theorem pickY_rot {R : Mat3} (hR : Orth R) (keys : List (Nat × Int)) (cent : List (V3 ℝ)) :
    pickY keys (cent.map (rot R)) = (pickY keys cent).map (fun p => (rot R p.1, p.2)) := by
  unfold pickY
  cases firstUnique keys with
  | some i => simp only [getD_map_rot, Option.map_some]
  | none =>
    simp only [getD_map_rot, mean_rot, norm_rot hR]
    split
    · rfl
    · split <;> rfl

/-- the map a rotation induces on `pickZ` candidates -/
def candMap (R : Mat3) (c : Nat × Int × V3 ℝ × ℝ) : Nat × Int × V3 ℝ × ℝ := (c.1, c.2.1, rot R c.2.2.1, c.2.2.2)

theorem getD_candMap (R : Mat3) (cand : List (Nat × Int × V3 ℝ × ℝ)) (i : Nat) :
    (cand.map (candMap R)).getD i (0, 0, V3.vzero, Scalar.zero)
      = candMap R (cand.getD i (0, 0, V3.vzero, Scalar.zero)) := by
  simp only [List.getD_eq_getElem?_getD, List.getElem?_map]
  cases cand[i]? with
  | none => simp [candMap, rot_vzero]
  | some v => rfl

theorem pickZRaw_rot {R : Mat3} (hR : Orth R) (cand : List (Nat × Int × V3 ℝ × ℝ)) (y : V3 ℝ) :
    pickZRaw (cand.map (candMap R)) (rot R y) = (pickZRaw cand y).map (rot R) := by
  unfold pickZRaw
  have htag : ((cand.map (candMap R)).zipIdx.map
        (fun p => (Scalar.truncNat (Scalar.div p.1.2.2.2 Scalar.zPrec), p.1.1, p.1.2.1, p.2)))
      = (cand.zipIdx.map (fun p => (Scalar.truncNat (Scalar.div p.1.2.2.2 Scalar.zPrec), p.1.1, p.1.2.1, p.2))) := by
    rw [List.zipIdx_map, List.map_map]
    rfl
  simp only [htag]
  split
  · rename_i k hk
    simp only [Option.map_some]
    rw [getD_candMap, ← projectToPlane_rot hR]
    rfl
  · rfl

/-- `pickZ` is `pickZRaw` followed by the guard against a (numerically) vanishing projection -/
theorem pickZ_eq_raw {α : Type} [Scalar α] (cand : List (Nat × Int × V3 α × α)) (y : V3 α) :
    pickZ cand y = (pickZRaw cand y).bind (fun z => if Scalar.lt (V3.norm z) Scalar.eps then none else some z) := by
  unfold pickZ
  cases pickZRaw cand y <;> rfl

/-- the guard of `pickZ` looks at the length of the projection only: it is invariant under every
orthogonal map (proper or not) -/
theorem pickZ_rot {R : Mat3} (hR : Orth R) (cand : List (Nat × Int × V3 ℝ × ℝ)) (y : V3 ℝ) :
    pickZ (cand.map (candMap R)) (rot R y) = (pickZ cand y).map (rot R) := by
  rw [pickZ_eq_raw, pickZ_eq_raw, pickZRaw_rot hR]
  cases pickZRaw cand y with
  | none => rfl
  | some z =>
    simp only [Option.map_some, Option.bind_some, norm_rot hR]
    split <;> rfl

theorem firstUnique_singleton {κ : Type} [DecidableEq κ] (k : κ) : firstUnique [k] = some 0 := by
  simp [firstUnique, List.zipIdx]

/-- a single candidate is selected -/
theorem pickZRaw_singleton (c : Nat × Int × V3 ℝ × ℝ) (y : V3 ℝ) :
    pickZRaw [c] y = some (V3.projectToPlane c.2.2.1 y) := by
  unfold pickZRaw
  have hs : sortByLt lt4 ([c].zipIdx.map
        (fun p => (Scalar.truncNat (Scalar.div p.1.2.2.2 Scalar.zPrec), p.1.1, p.1.2.1, p.2)))
      = [(Scalar.truncNat (Scalar.div c.2.2.2 Scalar.zPrec), c.1, c.2.1, 0)] := rfl
  simp only [hs, List.map_cons, List.map_nil, firstUnique_singleton]
  rfl

/-- … and defines the z axis unless its projection is shorter than `EPS` -/
theorem pickZ_singleton (c : Nat × Int × V3 ℝ × ℝ) (y : V3 ℝ) :
    pickZ [c] y = if Scalar.lt (V3.norm (V3.projectToPlane c.2.2.1 y)) Scalar.eps then none
      else some (V3.projectToPlane c.2.2.1 y) := by
  rw [pickZ_eq_raw, pickZRaw_singleton]
  rfl


def nbrMap (R : Mat3) (t : Nat × Int × V3 ℝ) : Nat × Int × V3 ℝ := (t.1, t.2.1, rot R t.2.2)


/-! ### `stereoIndicators`, cut into named pieces (each `rfl`-equal to the corresponding `let`) -/

noncomputable def laOf (cent : List (V3 ℝ)) (y : V3 ℝ) : List ℝ :=
  cent.map (fun v =>
    let a := Scalar.sub (Scalar.div Scalar.pi Scalar.two) (V3.angle v y)
    if Scalar.lt (Scalar.abs a) Scalar.eps then Scalar.zero else a)

noncomputable def candOf (nbrs : List (Nat × Int × V3 ℝ)) (overlap : List Bool) (yInd : Option Nat)
    (longAbs : List ℝ) : List (Nat × Int × V3 ℝ × ℝ) :=
  let n := nbrs.length
  let mask := (List.range n).map (fun i => !(overlap.getD i false) && (yInd != some i))
  (List.range n).filterMap (fun i =>
    if mask.getD i false then
      (nbrs[i]?).map (fun t => (t.1, t.2.1, t.2.2, longAbs.getD i Scalar.zero)) else none)

noncomputable def quadOf (n : Nat) (cent : List (V3 ℝ)) (y : V3 ℝ) (yInd : Option Nat) (longSign : List Int)
    (zopt : Option (V3 ℝ)) : List Int :=
  match zopt with
  | none => List.replicate n 0
  | some z =>
    (List.range n).map (fun i =>
      let v := cent.getD i V3.vzero
      let lat := V3.projectToPlane v y
      let afz := if yInd = some i then Scalar.zero else V3.signedAngle lat z y
      let latAngle := V3.mod2pi (Scalar.add afz (Scalar.div Scalar.pi (Scalar.ofNat 4)))
      let q : Int := 2 + (Scalar.truncNat (Scalar.div (Scalar.mul latAngle (Scalar.ofNat 4)) (Scalar.mul Scalar.two Scalar.pi)) : Nat)
      q * longSign.getD i 1)

noncomputable def stereoBody (nbrs : List (Nat × Int × V3 ℝ)) (y : V3 ℝ) (yInd : Option Nat) : List Int :=
  let n := nbrs.length
  let cent := nbrs.map (·.2.2)
  let overlap := cent.map V3.isZero
  let halfPi : ℝ := Scalar.div Scalar.pi Scalar.two
  let la := laOf cent y
  let longSign : List Int := la.map (fun a => let s := Scalar.sign a; if s = 0 then 1 else s)
  let longAbs := la.map Scalar.abs
  let cand := candOf nbrs overlap yInd longAbs
  let quad := quadOf n cent y yInd longSign (pickZ cand y)
  let cone : ℝ := Scalar.div Scalar.pi (Scalar.ofNat Gen.POLAR_CONE_DEN)
  (List.range n).map (fun i =>
    if overlap.getD i false then 0
    else if Scalar.lt (Scalar.sub halfPi (longAbs.getD i Scalar.zero)) cone then longSign.getD i 1
    else quad.getD i 0)

theorem stereoIndicators_eq (nbrs : List (Nat × Int × V3 ℝ)) :
    stereoIndicators nbrs =
      if nbrs.length = 0 then [] else
      match pickY (nbrs.map (fun t => (t.1, t.2.1))) (nbrs.map (·.2.2)) with
      | none => List.replicate nbrs.length 0
      | some (y, yInd) => stereoBody nbrs y yInd := by
  unfold stereoIndicators
  simp only []
  split
  · rfl
  · cases pickY (nbrs.map (fun t => (t.1, t.2.1))) (nbrs.map (·.2.2)) with
    | none => rfl
    | some p =>
      obtain ⟨y, yInd⟩ := p
      simp only [stereoBody, laOf, candOf, quadOf]
      generalize pickZ _ y = zopt
      cases zopt <;> rfl


theorem laOf_rot {R : Mat3} (hR : Orth R) (cent : List (V3 ℝ)) (y : V3 ℝ) :
    laOf (cent.map (rot R)) (rot R y) = laOf cent y := by
  simp only [laOf, List.map_map]
  congr 1
  funext v
  simp only [Function.comp, angle_rot hR]

theorem candOf_rot (R : Mat3) (nbrs : List (Nat × Int × V3 ℝ)) (overlap : List Bool) (yInd : Option Nat)
    (longAbs : List ℝ) :
    candOf (nbrs.map (nbrMap R)) overlap yInd longAbs = (candOf nbrs overlap yInd longAbs).map (candMap R) := by
  simp only [candOf, List.length_map, List.map_filterMap, List.getElem?_map]
  congr 1
  funext i
  split
  · cases nbrs[i]? <;> rfl
  · rfl

theorem quadOf_rot {R : Mat3} (hR : Orth R) (hdet : det R = 1) (n : Nat) (cent : List (V3 ℝ)) (y : V3 ℝ)
    (yInd : Option Nat) (longSign : List Int) (zopt : Option (V3 ℝ)) :
    quadOf n (cent.map (rot R)) (rot R y) yInd longSign (zopt.map (rot R)) = quadOf n cent y yInd longSign zopt := by
  cases zopt with
  | none => rfl
  | some z =>
    simp only [quadOf, Option.map_some, getD_map_rot, projectToPlane_rot hR, signedAngle_rot hR hdet]

theorem stereoBody_rot {R : Mat3} (hR : Orth R) (hdet : det R = 1) (nbrs : List (Nat × Int × V3 ℝ)) (y : V3 ℝ)
    (yInd : Option Nat) :
    stereoBody (nbrs.map (nbrMap R)) (rot R y) yInd = stereoBody nbrs y yInd := by
  have hcent : (nbrs.map (nbrMap R)).map (·.2.2) = (nbrs.map (·.2.2)).map (rot R) := by
    simp only [List.map_map]; rfl
  have hov : ((nbrs.map (·.2.2)).map (rot R)).map V3.isZero = (nbrs.map (·.2.2)).map V3.isZero := by
    rw [List.map_map]
    congr 1
    funext v
    exact isZero_rot hR v
  simp only [stereoBody, hcent, hov, laOf_rot hR, candOf_rot, pickZ_rot hR, quadOf_rot hR hdet, List.length_map]

theorem stereoIndicators_rot {R : Mat3} (hR : Orth R) (hdet : det R = 1) (nbrs : List (Nat × Int × V3 ℝ)) :
    stereoIndicators (nbrs.map (nbrMap R)) = stereoIndicators nbrs := by
  have hcent : (nbrs.map (nbrMap R)).map (·.2.2) = (nbrs.map (·.2.2)).map (rot R) := by
    simp only [List.map_map]; rfl
  have hkeys : (nbrs.map (nbrMap R)).map (fun t => (t.1, t.2.1)) = nbrs.map (fun t => (t.1, t.2.1)) := by
    simp only [List.map_map]; rfl
  rw [stereoIndicators_eq, stereoIndicators_eq, hcent, hkeys, pickY_rot hR, List.length_map]
  split
  · rfl
  · cases pickY (nbrs.map (fun t => (t.1, t.2.1))) (nbrs.map (·.2.2)) with
    | none => rfl
    | some p =>
      obtain ⟨y, yInd⟩ := p
      exact stereoBody_rot hR hdet nbrs y yInd

end Rigid
end E3fpVerif
