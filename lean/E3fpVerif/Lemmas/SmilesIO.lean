import E3fpVerif.Model.SmilesIO
/-!
# Facts about the SMILES-file model (`Model/SmilesIO.lean`)

* `splitWs` (Python's `str.split()`): skipping whitespace, cutting a token off the front;
* `ltChars` is a strict total order on `List Char`;
* `insertItem` / `sortItems`: a permutation of the input; for pairwise distinct names the result is
  strictly increasing in the names, and a strictly increasing list is a fixed point;
* `dictSet` / `dictGet`: a list with pairwise distinct keys is a finite map (`dictGet` = membership),
  invariant under permutation; folding `dictSet` over records with fresh distinct names appends them.
-/
namespace E3fpVerif

/-- a (possibly empty) run of whitespace -/
def AllWs (w : List Char) : Prop := ∀ c ∈ w, isWs c = true

instance (w : List Char) : Decidable (AllWs w) := by unfold AllWs; infer_instance

/-! ## `splitWs` -/

theorem reverse_isEmpty_false (t : List Char) (h : t ≠ []) : t.reverse.isEmpty = false := by
  rw [List.isEmpty_reverse]
  cases t with
  | nil => exact absurd rfl h
  | cons a t => rfl

theorem splitWsAux_nonws (t rest cur : List Char) (h : ∀ c ∈ t, isWs c = false) :
    splitWsAux (t ++ rest) cur = splitWsAux rest (t.reverse ++ cur) := by
  induction t generalizing cur with
  | nil => rfl
  | cons c t ih =>
    have hc : isWs c = false := h c (List.mem_cons_self)
    have ht : ∀ c ∈ t, isWs c = false := fun x hx => h x (List.mem_cons_of_mem _ hx)
    simp only [List.cons_append, splitWsAux, hc, Bool.false_eq_true, ↓reduceIte, ih (c :: cur) ht,
      List.reverse_cons, List.append_assoc, List.nil_append]

theorem splitWsAux_ws_nil (w rest : List Char) (h : AllWs w) :
    splitWsAux (w ++ rest) [] = splitWsAux rest [] := by
  induction w with
  | nil => rfl
  | cons c w ih =>
    have hc : isWs c = true := h c (List.mem_cons_self)
    have hw : AllWs w := fun x hx => h x (List.mem_cons_of_mem _ hx)
    simp only [List.cons_append, splitWsAux, hc, ↓reduceIte, List.isEmpty_nil, ih hw]

/-- leading whitespace is ignored -/
theorem splitWs_ws_append (w rest : List Char) (h : AllWs w) : splitWs (w ++ rest) = splitWs rest :=
  splitWsAux_ws_nil w rest h

theorem splitWs_nil : splitWs [] = [] := rfl

/-- only whitespace: no fields -/
theorem splitWs_ws (w : List Char) (h : AllWs w) : splitWs w = [] := by
  have := splitWs_ws_append w [] h
  rwa [List.append_nil] at this

/-- a token followed by a non-empty run of whitespace is cut off as the first field -/
theorem splitWs_token_ws_append (t w rest : List Char) (ht : Token t) (hw : AllWs w) (hne : w ≠ []) :
    splitWs (t ++ w ++ rest) = t :: splitWs rest := by
  obtain ⟨tne, tns⟩ := ht
  cases w with
  | nil => exact absurd rfl hne
  | cons c w =>
    have hc : isWs c = true := hw c (List.mem_cons_self)
    have hw' : AllWs w := fun x hx => hw x (List.mem_cons_of_mem _ hx)
    unfold splitWs
    rw [List.append_assoc, splitWsAux_nonws t _ [] tns]
    have hre : t.reverse.isEmpty = false := reverse_isEmpty_false t tne
    simp only [List.cons_append, splitWsAux, hc, ↓reduceIte, hre, Bool.false_eq_true,
      List.append_nil, List.reverse_reverse, splitWsAux_ws_nil w rest hw']

/-- a token at the end of the text is the last field -/
theorem splitWs_token' (t : List Char) (ht : Token t) : splitWs t = [t] := by
  obtain ⟨tne, tns⟩ := ht
  unfold splitWs
  have := splitWsAux_nonws t [] [] tns
  rw [List.append_nil] at this
  rw [this]
  have hre : t.reverse.isEmpty = false := reverse_isEmpty_false t tne
  simp only [splitWsAux, hre, Bool.false_eq_true, ↓reduceIte, List.append_nil, List.reverse_reverse]

/-! ## `ltChars` is a strict total order -/

theorem ltChars_irrefl (a : List Char) : ltChars a a = false := by
  induction a with
  | nil => rfl
  | cons x xs ih =>
    simp only [ltChars, ih, Bool.and_false, Bool.or_false, decide_eq_false_iff_not]
    exact Char.lt_irrefl x

theorem ltChars_trans (a b c : List Char) (hab : ltChars a b = true) (hbc : ltChars b c = true) :
    ltChars a c = true := by
  induction a generalizing b c with
  | nil =>
    cases b with
    | nil => simp only [ltChars, Bool.false_eq_true] at hab
    | cons y ys =>
      cases c with
      | nil => simp only [ltChars, Bool.false_eq_true] at hbc
      | cons z zs => rfl
  | cons x xs ih =>
    cases b with
    | nil => simp only [ltChars, Bool.false_eq_true] at hab
    | cons y ys =>
      cases c with
      | nil => simp only [ltChars, Bool.false_eq_true] at hbc
      | cons z zs =>
        simp only [ltChars, Bool.or_eq_true, decide_eq_true_eq, Bool.and_eq_true, beq_iff_eq] at hab hbc ⊢
        rcases hab with h1 | ⟨h1, h1'⟩
        · rcases hbc with h2 | ⟨h2, _⟩
          · exact Or.inl (Char.lt_trans h1 h2)
          · subst h2; exact Or.inl h1
        · subst h1
          rcases hbc with h2 | ⟨h2, h2'⟩
          · exact Or.inl h2
          · exact Or.inr ⟨h2, ih ys zs h1' h2'⟩

theorem ltChars_asymm (a b : List Char) (hab : ltChars a b = true) : ltChars b a = false := by
  cases h : ltChars b a with
  | false => rfl
  | true =>
    have := ltChars_trans a b a hab h
    rw [ltChars_irrefl] at this
    exact absurd this (by decide)

theorem ltChars_total (a b : List Char) (hne : a ≠ b) : ltChars a b = true ∨ ltChars b a = true := by
  induction a generalizing b with
  | nil =>
    cases b with
    | nil => exact absurd rfl hne
    | cons y ys => exact Or.inl rfl
  | cons x xs ih =>
    cases b with
    | nil => exact Or.inr rfl
    | cons y ys =>
      simp only [ltChars, Bool.or_eq_true, decide_eq_true_eq, Bool.and_eq_true, beq_iff_eq]
      by_cases hxy : x = y
      · subst hxy
        have hne' : xs ≠ ys := fun h => hne (by rw [h])
        rcases ih ys hne' with h | h
        · exact Or.inl (Or.inr ⟨rfl, h⟩)
        · exact Or.inr (Or.inr ⟨rfl, h⟩)
      · have : x < y ∨ y < x := by grind
        rcases this with h | h
        · exact Or.inl (Or.inl h)
        · exact Or.inr (Or.inl h)

theorem ltChars_ne (a b : List Char) (hab : ltChars a b = true) : a ≠ b := by
  intro h; subst h; rw [ltChars_irrefl] at hab; exact absurd hab (by decide)

/-! ## `insertItem`, `sortItems` -/

abbrev Item := List Char × List Char

theorem insertItem_perm (x : Item) (l : List Item) : (insertItem x l).Perm (x :: l) := by
  induction l with
  | nil => exact List.Perm.refl _
  | cons y ys ih =>
    unfold insertItem
    split
    · exact List.Perm.refl _
    · exact (List.Perm.cons y ih).trans (List.Perm.swap x y ys)

theorem sortItems_cons (x : Item) (l : List Item) : sortItems (x :: l) = insertItem x (sortItems l) := rfl

theorem sortItems_perm (d : List Item) : (sortItems d).Perm d := by
  induction d with
  | nil => exact List.Perm.refl _
  | cons x xs ih =>
    rw [sortItems_cons]
    exact (insertItem_perm x _).trans (List.Perm.cons x ih)

/-- strictly increasing names -/
def SortedItems (l : List Item) : Prop := l.Pairwise (fun a b => ltChars a.1 b.1 = true)

theorem insertItem_sorted (x : Item) (l : List Item) (hs : SortedItems l) (hx : ∀ y ∈ l, y.1 ≠ x.1) :
    SortedItems (insertItem x l) := by
  induction l with
  | nil => exact List.pairwise_singleton _ _
  | cons y ys ih =>
    unfold SortedItems at hs ih ⊢
    rw [List.pairwise_cons] at hs
    unfold insertItem
    split
    · rename_i hlt
      rw [List.pairwise_cons]
      refine ⟨?_, List.pairwise_cons.mpr hs⟩
      intro z hz
      rcases List.mem_cons.mp hz with rfl | hz
      · exact hlt
      · exact ltChars_trans _ _ _ hlt (hs.1 z hz)
    · rename_i hlt
      have hyx : ltChars y.1 x.1 = true := by
        rcases ltChars_total y.1 x.1 (hx y List.mem_cons_self) with h | h
        · exact h
        · exact absurd h hlt
      rw [List.pairwise_cons]
      refine ⟨?_, ih hs.2 (fun z hz => hx z (List.mem_cons_of_mem _ hz))⟩
      intro z hz
      rcases List.mem_cons.mp ((insertItem_perm x ys).mem_iff.mp hz) with rfl | hz
      · exact hyx
      · exact hs.1 z hz

/-- for pairwise distinct names the sorted items are strictly increasing in the names -/
theorem sortItems_sorted (d : List Item) (hnd : (d.map Prod.fst).Nodup) : SortedItems (sortItems d) := by
  induction d with
  | nil => exact List.Pairwise.nil
  | cons x xs ih =>
    rw [List.map_cons, List.nodup_cons] at hnd
    rw [sortItems_cons]
    refine insertItem_sorted x _ (ih hnd.2) ?_
    intro y hy heq
    have hy' : y ∈ xs := (sortItems_perm xs).mem_iff.mp hy
    exact hnd.1 (heq ▸ List.mem_map_of_mem hy')

/-- a strictly increasing list is already sorted -/
theorem sortItems_of_sorted (l : List Item) (hs : SortedItems l) : sortItems l = l := by
  induction l with
  | nil => rfl
  | cons x xs ih =>
    unfold SortedItems at hs ih
    rw [List.pairwise_cons] at hs
    rw [sortItems_cons, ih hs.2]
    cases xs with
    | nil => rfl
    | cons y ys =>
      unfold insertItem
      rw [if_pos (hs.1 y List.mem_cons_self)]

theorem sortItems_idem (d : List Item) (hnd : (d.map Prod.fst).Nodup) :
    sortItems (sortItems d) = sortItems d :=
  sortItems_of_sorted _ (sortItems_sorted d hnd)

theorem sortItems_keys_perm (d : List Item) : ((sortItems d).map Prod.fst).Perm (d.map Prod.fst) :=
  (sortItems_perm d).map _

theorem sortItems_keys_nodup (d : List Item) (hnd : (d.map Prod.fst).Nodup) :
    ((sortItems d).map Prod.fst).Nodup :=
  (sortItems_keys_perm d).nodup_iff.mpr hnd

/-- sorting depends only on the set of items (for pairwise distinct names) -/
theorem sorted_eq_of_perm (l₁ l₂ : List Item) (h₁ : SortedItems l₁) (h₂ : SortedItems l₂)
    (hp : l₁.Perm l₂) : l₁ = l₂ := by
  induction l₁ generalizing l₂ with
  | nil => exact (List.Perm.nil_eq hp)
  | cons x xs ih =>
    cases l₂ with
    | nil => exact absurd hp.symm (List.Perm.nil_eq · |> fun h => by cases h)
    | cons y ys =>
      unfold SortedItems at h₁ h₂ ih
      rw [List.pairwise_cons] at h₁ h₂
      have hxy : x = y := by
        have hx : x ∈ y :: ys := hp.mem_iff.mp List.mem_cons_self
        have hy : y ∈ x :: xs := hp.mem_iff.mpr List.mem_cons_self
        rcases List.mem_cons.mp hx with h | hx
        · exact h
        · rcases List.mem_cons.mp hy with h | hy
          · exact h.symm
          · have a := h₁.1 y hy
            have b := h₂.1 x hx
            rw [ltChars_asymm _ _ a] at b
            exact absurd b (by decide)
      subst hxy
      rw [ih ys h₁.2 h₂.2 (List.Perm.cons_inv hp)]

theorem sortItems_eq_of_perm (d₁ d₂ : List Item) (hnd : (d₁.map Prod.fst).Nodup) (hp : d₁.Perm d₂) :
    sortItems d₁ = sortItems d₂ := by
  have hnd₂ : (d₂.map Prod.fst).Nodup := (hp.map Prod.fst).nodup_iff.mp hnd
  exact sorted_eq_of_perm _ _ (sortItems_sorted d₁ hnd) (sortItems_sorted d₂ hnd₂)
    ((sortItems_perm d₁).trans (hp.trans (sortItems_perm d₂).symm))

/-! ## `dictGet`, `dictSet` -/

theorem dictGet_eq_none (d : List Item) (n : List Char) (h : n ∉ d.map Prod.fst) : dictGet d n = none := by
  induction d with
  | nil => rfl
  | cons e es ih =>
    obtain ⟨k, v⟩ := e
    rw [List.map_cons, List.mem_cons, not_or] at h
    unfold dictGet
    rw [if_neg (fun hk => h.1 hk.symm)]
    exact ih h.2

theorem dictGet_isSome_iff (d : List Item) (n : List Char) : (dictGet d n).isSome = true ↔ n ∈ d.map Prod.fst := by
  induction d with
  | nil => simp only [dictGet, Option.isSome_none, Bool.false_eq_true, List.map_nil, List.not_mem_nil]
  | cons e es ih =>
    obtain ⟨k, v⟩ := e
    unfold dictGet
    by_cases hk : k = n
    · subst hk
      simp only [↓reduceIte, Option.isSome_some, List.map_cons, List.mem_cons, true_or]
    · rw [if_neg hk, ih, List.map_cons, List.mem_cons]
      exact ⟨Or.inr, fun h => h.resolve_left (fun h' => hk h'.symm)⟩

/-- a list with pairwise distinct keys is a finite map: lookup is membership -/
theorem dictGet_eq_some_iff (d : List Item) (hnd : (d.map Prod.fst).Nodup) (n v : List Char) :
    dictGet d n = some v ↔ (n, v) ∈ d := by
  induction d with
  | nil => simp only [dictGet, List.not_mem_nil, reduceCtorEq]
  | cons e es ih =>
    obtain ⟨k, w⟩ := e
    rw [List.map_cons, List.nodup_cons] at hnd
    unfold dictGet
    by_cases hk : k = n
    · subst hk
      rw [if_pos rfl, List.mem_cons]
      constructor
      · intro h; cases h; exact Or.inl rfl
      · intro h
        rcases h with h | h
        · cases h; rfl
        · exact absurd (List.mem_map_of_mem (f := Prod.fst) h) hnd.1
    · rw [if_neg hk, ih hnd.2, List.mem_cons]
      constructor
      · exact Or.inr
      · intro h
        rcases h with h | h
        · cases h; exact absurd rfl hk
        · exact h

/-- lookup in a finite map does not depend on the storage order -/
theorem dictGet_perm (d₁ d₂ : List Item) (hnd : (d₁.map Prod.fst).Nodup) (hp : d₁.Perm d₂) (n : List Char) :
    dictGet d₁ n = dictGet d₂ n := by
  have hnd₂ : (d₂.map Prod.fst).Nodup := (hp.map Prod.fst).nodup_iff.mp hnd
  cases h : dictGet d₂ n with
  | none =>
    cases h₁ : dictGet d₁ n with
    | none => rfl
    | some v =>
      have := (dictGet_eq_some_iff d₂ hnd₂ n v).mpr (hp.mem_iff.mp ((dictGet_eq_some_iff d₁ hnd n v).mp h₁))
      rw [h] at this; cases this
  | some v =>
    exact (dictGet_eq_some_iff d₁ hnd n v).mpr (hp.mem_iff.mpr ((dictGet_eq_some_iff d₂ hnd₂ n v).mp h))

/-- setting a fresh key appends the item -/
theorem dictSet_fresh (d : List Item) (n s : List Char) (h : n ∉ d.map Prod.fst) :
    dictSet d n s = d ++ [(n, s)] := by
  induction d with
  | nil => rfl
  | cons e es ih =>
    obtain ⟨k, v⟩ := e
    rw [List.map_cons, List.mem_cons, not_or] at h
    unfold dictSet
    rw [if_neg (fun hk => h.1 hk.symm), ih h.2, List.cons_append]

/-- `dictSet` then `dictGet` -/
theorem dictGet_dictSet (d : List Item) (n s m : List Char) :
    dictGet (dictSet d n s) m = if n = m then some s else dictGet d m := by
  induction d with
  | nil =>
    simp only [dictSet, dictGet]
  | cons e es ih =>
    obtain ⟨k, v⟩ := e
    unfold dictSet
    by_cases hk : k = n
    · subst hk
      rw [if_pos rfl]
      unfold dictGet
      by_cases hm : k = m
      · rw [if_pos hm, if_pos hm]
      · rw [if_neg hm, if_neg hm, if_neg hm]
    · rw [if_neg hk]
      unfold dictGet
      by_cases hm : k = m
      · subst hm
        rw [if_pos rfl, if_pos rfl, if_neg (fun h => hk h.symm)]
      · rw [if_neg hm, if_neg hm, ih]

theorem dictSet_keys (d : List Item) (n s : List Char) :
    (dictSet d n s).map Prod.fst = if n ∈ d.map Prod.fst then d.map Prod.fst else d.map Prod.fst ++ [n] := by
  induction d with
  | nil => simp only [dictSet, List.map_cons, List.map_nil, List.not_mem_nil, ↓reduceIte, List.nil_append]
  | cons e es ih =>
    obtain ⟨k, v⟩ := e
    unfold dictSet
    by_cases hk : k = n
    · subst hk
      simp only [↓reduceIte, List.map_cons, List.mem_cons, true_or]
    · rw [if_neg hk, List.map_cons, ih, List.map_cons]
      by_cases hm : n ∈ es.map Prod.fst
      · rw [if_pos hm, if_pos (List.mem_cons_of_mem _ hm)]
      · rw [if_neg hm, if_neg (by rw [List.mem_cons, not_or]; exact ⟨fun h => hk h.symm, hm⟩), List.cons_append]

/-- folding `dictSet` over records with fresh, pairwise distinct names appends them in order -/
theorem foldl_dictSet_nodup (l init : List Item) (hnd : ((init ++ l).map Prod.fst).Nodup) :
    l.foldl (fun acc e => dictSet acc e.1 e.2) init = init ++ l := by
  induction l generalizing init with
  | nil => rw [List.foldl_nil, List.append_nil]
  | cons e es ih =>
    have hnd' : (((init ++ [e]) ++ es).map Prod.fst).Nodup := by
      rw [List.append_assoc, List.singleton_append]; exact hnd
    have hfresh : e.1 ∉ init.map Prod.fst := by
      rw [List.map_append, List.map_cons] at hnd
      have := (List.nodup_append.mp hnd).2.2
      intro hmem
      exact this e.1 hmem e.1 List.mem_cons_self rfl
    rw [List.foldl_cons, dictSet_fresh init e.1 e.2 hfresh, ih (init ++ [e]) hnd', List.append_assoc,
      List.singleton_append]

end E3fpVerif
