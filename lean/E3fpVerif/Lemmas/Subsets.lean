import E3fpVerif.Lemmas.Uniq
/-!
# Counting: a duplicate-free list of ascending sublists of `atoms` has at most `2^|atoms|` entries
-/
namespace E3fpVerif

/-- `p` is a substructure over `atoms`: strictly ascending, members among `atoms` -/
def SubOf (atoms : List Nat) (p : List Nat) : Prop := StrictAsc p ∧ ∀ y ∈ p, y ∈ atoms

theorem card_subsets (atoms : List Nat) (L : List (List Nat)) (hn : L.Nodup)
    (h : ∀ p ∈ L, SubOf atoms p) : L.length ≤ 2 ^ atoms.length := by
  induction atoms generalizing L with
  | nil =>
    have hall : ∀ p ∈ L, p = [] := fun p hp =>
      List.eq_nil_iff_forall_not_mem.2 (fun y hy => by have := (h p hp).2 y hy; simp at this)
    match L, hn, hall with
    | [], _, _ => simp
    | [x], _, _ => simp
    | x :: y :: r, hn, hall =>
      have hx := hall x (by simp)
      have hy := hall y (by simp)
      subst hx hy
      simp at hn
  | cons a as ih =>
    have hlen := List.length_eq_countP_add_countP (fun p : List Nat => p.contains a) (l := L)
    rw [List.countP_eq_length_filter, List.countP_eq_length_filter] at hlen
    -- the lists without `a`
    have h0 : (L.filter (fun p => decide ¬ (p.contains a = true))).length ≤ 2 ^ as.length := by
      apply ih _ (hn.sublist List.filter_sublist)
      intro p hp
      rw [List.mem_filter] at hp
      obtain ⟨hpL, hpa⟩ := hp
      refine ⟨(h p hpL).1, ?_⟩
      intro y hy
      rcases List.mem_cons.1 ((h p hpL).2 y hy) with rfl | hy'
      · simp at hpa; exact absurd hy hpa
      · exact hy'
    -- the lists with `a`, with `a` removed
    have h1 : (L.filter (fun p => p.contains a)).length ≤ 2 ^ as.length := by
      have := ih ((L.filter (fun p => p.contains a)).map (fun p => p.filter (· != a))) ?_ ?_
      · simpa using this
      · rw [List.Nodup, List.pairwise_map]
        refine (hn.sublist List.filter_sublist).imp_of_mem ?_
        intro p q hp hq hpq heq
        apply hpq
        rw [List.mem_filter] at hp hq
        apply strictAsc_ext p q (h p hp.1).1 (h q hq.1).1
        intro x
        by_cases hxa : x = a
        · subst hxa; exact ⟨fun _ => by simpa using hq.2, fun _ => by simpa using hp.2⟩
        · have e1 : x ∈ p.filter (· != a) ↔ x ∈ p := by simp [hxa]
          have e2 : x ∈ q.filter (· != a) ↔ x ∈ q := by simp [hxa]
          rw [← e1, ← e2, heq]
      · intro p' hp'
        rcases List.mem_map.1 hp' with ⟨p, hp, rfl⟩
        rw [List.mem_filter] at hp
        refine ⟨(h p hp.1).1.filter _, ?_⟩
        intro y hy
        rw [List.mem_filter] at hy
        rcases List.mem_cons.1 ((h p hp.1).2 y hy.1) with rfl | hy'
        · simp at hy
        · exact hy'
    rw [List.length_cons, Nat.pow_succ]
    omega

end E3fpVerif
