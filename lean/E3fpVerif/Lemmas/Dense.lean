import E3fpVerif.Lemmas.Binary
/-!
# The dense Soergel double loop equals the definition
-/
namespace E3fpVerif.C06L

/-- one step of `_dense_soergel` -/
def denseStep (acc : Rat × Rat) (p : Rat × Rat) : Rat × Rat :=
  if p.1 - p.2 > 0 then (acc.1 + (p.1 - p.2), acc.2 + p.1) else (acc.1 - (p.1 - p.2), acc.2 + p.2)

theorem denseStep_eq (acc p : Rat × Rat) :
    denseStep acc p = (acc.1 + absQ (p.1 - p.2), acc.2 + maxQ p.1 p.2) := by
  unfold denseStep absQ maxQ
  by_cases h : p.1 - p.2 > 0
  · rw [if_pos h]; refine Prod.ext ?_ ?_ <;> simp only <;> grind
  · rw [if_neg h]; refine Prod.ext ?_ ?_ <;> simp only <;> grind

theorem foldl_denseStep (l : List (Rat × Rat)) (acc : Rat × Rat) :
    l.foldl denseStep acc
      = (acc.1 + sumQ (l.map (fun p => absQ (p.1 - p.2))), acc.2 + sumQ (l.map (fun p => maxQ p.1 p.2))) := by
  induction l generalizing acc with
  | nil => simp only [List.foldl_nil, List.map_nil, sumQ]; refine Prod.ext ?_ ?_ <;> simp only <;> grind
  | cons p ps ih =>
    rw [List.foldl_cons, ih, denseStep_eq]
    simp only [List.map_cons, sumQ]
    refine Prod.ext ?_ ?_ <;> simp only <;> grind

theorem arrSoergelDense_eq (x y : List Rat) :
    arrSoergelDense x y =
      if sumQ ((x.zip y).map (fun p => maxQ p.1 p.2)) = 0 then 0
      else 1 - sumQ ((x.zip y).map (fun p => absQ (p.1 - p.2))) / sumQ ((x.zip y).map (fun p => maxQ p.1 p.2)) := by
  have h := foldl_denseStep (x.zip y) (0, 0)
  unfold arrSoergelDense
  change (let r := (x.zip y).foldl denseStep (0, 0); if r.2 = 0 then 0 else 1 - r.1 / r.2) = _
  simp only [h, Rat.zero_add]

/-- a sum over a list only sees the members where the summand is non-zero -/
theorem sumQ_filter_of_zero (l : List Nat) (p : Nat → Bool) (h : Nat → Rat)
    (hz : ∀ i ∈ l, p i = false → h i = 0) : sumQ (l.map h) = sumQ ((l.filter p).map h) := by
  induction l with
  | nil => rfl
  | cons a as ih =>
    have ih' := ih (fun i hi => hz i (List.mem_cons_of_mem _ hi))
    by_cases hp : p a = true
    · rw [List.filter_cons_of_pos hp]; simp only [List.map_cons, sumQ, ih']
    · rw [List.filter_cons_of_neg hp]
      simp only [List.map_cons, sumQ, ih', hz a (List.mem_cons_self ..) (by simpa using hp)]
      grind

/-- summing over all `b` columns is summing over the stored columns -/
theorem sumQ_range_eq_union (b : Nat) (x y : Row) (g : Rat → Rat → Rat) (g0 : g 0 0 = 0)
    (hb : ∀ i ∈ unionCols x y, i < b) :
    sumQ ((List.range b).map (fun i => g (rowVal x i) (rowVal y i)))
      = sumQ ((unionCols x y).map (fun i => g (rowVal x i) (rowVal y i))) := by
  rw [sumQ_filter_of_zero (List.range b) (fun i => decide (i ∈ unionCols x y))]
  · rw [filter_mem_eq _ _ List.pairwise_lt_range (strictAsc_unionCols x y)
      (fun i hi => List.mem_range.2 (hb i hi))]
  · intro i _ hi
    have hi' : i ∉ unionCols x y := by simpa using hi
    unfold unionCols at hi'
    rw [mem_uniq, List.mem_append, not_or] at hi'
    rw [rowVal_of_not_mem x i hi'.1, rowVal_of_not_mem y i hi'.2, g0]

/-- **dense Soergel = definition**: the dense rows of two sparse rows with all columns below `b` -/
theorem arrSoergelDense_eq_def (b : Nat) (x y : Row)
    (hx : ∀ p ∈ x, p.1 < b) (hy : ∀ p ∈ y, p.1 < b) :
    arrSoergelDense ((List.range b).map (rowVal x)) ((List.range b).map (rowVal y)) = soergelDef x y := by
  have hb : ∀ i ∈ unionCols x y, i < b := by
    intro i hi
    unfold unionCols at hi
    rw [mem_uniq, List.mem_append] at hi
    rcases hi with h | h
    · obtain ⟨p, hp, rfl⟩ := List.mem_map.1 h; exact hx p hp
    · obtain ⟨p, hp, rfl⟩ := List.mem_map.1 h; exact hy p hp
  rw [arrSoergelDense_eq, List.zip_map', List.map_map, List.map_map, soergelDef_eq]
  have e1 := sumQ_range_eq_union b x y maxQ (maxQ_self 0) hb
  have e2 := sumQ_range_eq_union b x y (fun a c => absQ (a - c)) (absQ_self 0) hb
  unfold colSumMax colSumAbs
  rw [← e1, ← e2]
  rfl

end E3fpVerif.C06L
