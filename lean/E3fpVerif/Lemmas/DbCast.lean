import E3fpVerif.Model.Db
/-!
# The dtype cast of a database (`castVal`) is idempotent
-/
namespace E3fpVerif

/-- `int(n) == n` for an integer -/
theorem truncQ_intCast (n : Int) : truncQ (n : Rat) = (n : Rat) := by
  unfold truncQ
  split
  · rw [Rat.floor_intCast]
  · rw [← Rat.intCast_neg, Rat.floor_intCast, Int.neg_neg]

/-- `int(v)` is an integer -/
theorem truncQ_isInt (v : Rat) : ∃ n : Int, truncQ v = (n : Rat) := by
  unfold truncQ; split
  · exact ⟨_, rfl⟩
  · exact ⟨_, rfl⟩

theorem truncQ_idem (v : Rat) : truncQ (truncQ v) = truncQ v := by
  obtain ⟨n, hn⟩ := truncQ_isInt v
  rw [hn, truncQ_intCast]

/-- casting to the dtype of the kind twice is casting once -/
theorem castVal_idem (k : Kind) (v : Rat) : castVal k (castVal k v) = castVal k v := by
  cases k with
  | bit =>
    simp only [castVal]
    by_cases h : v = 0
    · simp [h]
    · simp [h]
  | count => exact truncQ_idem v
  | float => rfl

/-- the values of a bit matrix that are stable under the cast are exactly 0 and 1 -/
theorem castVal_bit_stable (v : Rat) : castVal .bit v = v ↔ v = 0 ∨ v = 1 := by
  simp only [castVal]
  by_cases h : v = 0
  · simp [h]
  · simp only [h, if_false, false_or]
    exact ⟨fun e => e.symm, fun e => e.symm⟩

/-- the values of a count matrix that are stable under the cast are exactly the integers -/
theorem castVal_count_stable (v : Rat) : castVal .count v = v ↔ ∃ n : Int, v = (n : Rat) := by
  simp only [castVal]
  constructor
  · intro e
    obtain ⟨n, hn⟩ := truncQ_isInt v
    exact ⟨n, by rw [← e, hn]⟩
  · rintro ⟨n, rfl⟩; exact truncQ_intCast n

end E3fpVerif
