import E3fpVerif.Lemmas.Digits
/-!
# `str` / `literal_eval` round trips of integer and string option values
-/
namespace E3fpVerif

theorem digitsNat?_True : digitsNat? "True".toList = none := by decide
theorem digitsNat?_False : digitsNat? "False".toList = none := by decide
theorem digitsNat?_None : digitsNat? "None".toList = none := by decide

/-- the decimal text of a natural is none of the literal words -/
theorem natDigits_ne_words (n : Nat) :
    natDigits n ≠ "True".toList ∧ natDigits n ≠ "False".toList ∧ natDigits n ≠ "None".toList := by
  have h := digitsNat_natDigits n
  refine ⟨?_, ?_, ?_⟩ <;> intro e <;> rw [e] at h
  · rw [digitsNat?_True] at h; cases h
  · rw [digitsNat?_False] at h; cases h
  · rw [digitsNat?_None] at h; cases h

theorem parseVal_natDigits (n : Nat) : parseVal (natDigits n) = .int n := by
  obtain ⟨h1, h2, h3⟩ := natDigits_ne_words n
  unfold parseVal
  rw [if_neg h1, if_neg h2, if_neg h3]
  split
  · rename_i r hr
    exact absurd hr (natDigits_head_digit n '-' r (by decide))
  · rw [digitsNat_natDigits]

theorem parseVal_neg_natDigits (n : Nat) : parseVal ('-' :: natDigits n) = .int (-(n : Int)) := by
  unfold parseVal
  have w1 : "True".toList = ['T', 'r', 'u', 'e'] := by decide
  have w2 : "False".toList = ['F', 'a', 'l', 's', 'e'] := by decide
  have w3 : "None".toList = ['N', 'o', 'n', 'e'] := by decide
  rw [if_neg (by rw [w1]; simp), if_neg (by rw [w2]; simp), if_neg (by rw [w3]; simp)]
  simp only [digitsNat_natDigits]

/-- every integer survives `str` then `literal_eval` -/
theorem parseVal_showInt (i : Int) : parseVal (showInt i) = .int i := by
  unfold showInt
  split
  · rw [parseVal_neg_natDigits]
    congr 1
    omega
  · rw [parseVal_natDigits]
    congr 1
    omega

set_option linter.deprecated false in
/-- a string that is not a literal word, a number or a float text comes back as itself -/
theorem parseVal_str (s : String)
    (h1 : s ≠ "True") (h2 : s ≠ "False") (h3 : s ≠ "None")
    (hd : digitsNat? s.toList = none)
    (hneg : ∀ r, s.toList = '-' :: r → digitsNat? r = none)
    (hf : isFloatText s.toList = false) :
    parseVal s.toList = .str s := by
  unfold parseVal
  rw [if_neg (by rwa [String.toList_inj]), if_neg (by rwa [String.toList_inj]), if_neg (by rwa [String.toList_inj])]
  have hs : String.mk s.toList = s := String.ofList_toList
  split
  · rename_i r hr
    rw [hneg r hr]
    simp [hf, hs]
  · rw [hd, hf]
    simp [hs]

set_option linter.deprecated false in
/-- a float `repr` (recognised as float text, not as an integer) comes back as itself -/
theorem parseVal_float (s : String)
    (h1 : s ≠ "True") (h2 : s ≠ "False") (h3 : s ≠ "None")
    (hd : digitsNat? s.toList = none)
    (hneg : ∀ r, s.toList = '-' :: r → digitsNat? r = none)
    (hf : isFloatText s.toList = true) :
    parseVal s.toList = .float s := by
  unfold parseVal
  rw [if_neg (by rwa [String.toList_inj]), if_neg (by rwa [String.toList_inj]), if_neg (by rwa [String.toList_inj])]
  have hs : String.mk s.toList = s := String.ofList_toList
  split
  · rename_i r hr
    rw [hneg r hr]
    simp [hf, hs]
  · rw [hd, hf]
    simp [hs]

end E3fpVerif
