import E3fpVerif.Lemmas.RelabelBasic
import E3fpVerif.Lemmas.RelabelPerm
import E3fpVerif.Lemmas.RelabelTbl
import E3fpVerif.Lemmas.RelabelSub
/-!
# Renumbering the atoms leaves the fingerprint unchanged (C03): the simulation

Two runs of the fingerprinter, one on `(m, g)` with atoms `A`, one on `(m', g')` with atoms `A'`, where
`A'` is a permutation of `A.map π` and connectivity, invariants and geometry are carried along by `π`
(`RCtx`).  The runs are related level by level:

* generator shells correspond one to one (`ShellRel`): centre mapped by `π`, equal identifier,
  substructure mapped elementwise (`SubRel`), interned structural ids related by a partial bijection
  `S` of ids (`TblRel`: the two intern tables hold corresponding keys at related ids);
* `level_shells` correspond as multisets of `(identifier, substructure)` (`IdSubRel` under `PermRel`);
  without duplicate removal even as multisets of shells (`LevelEquiv`);
* `past_substructs` correspond as sets.

Where things live: `MolG.relabel` (RDKit's `RenumberAtoms`), `retained_relabel`, `initIdent_relabel`,
`conn_relabel`, `bonded_relabel` in `RelabelBasic.lean`; `PermRel` and fact (D) in `RelabelPerm.lean`;
the intern tables (`internAll`, `genLevel_eq_map`, `TblRel`, `intern_relabel`) in `RelabelTbl.lean`; the
unary invariant "structurally equal shells have equal substructures" (`UInv`, `union_eq_append`) in
`RelabelSub.lean`; copies of the `dedupSpec`/`unionShells` lemmas of `Lemmas/Fprinter.lean` (which
cannot be imported next to `Lemmas/SortBy.lean`) in `RelabelAux.lean`.  This file: `Geo.Relabels`,
`StereoSym`, `LevelEquiv`, and the simulation.

The model breaks ties by atom index in two places.  In `lt3` (neighbour tuples): handled by the
hypothesis `StereoSym` on the geometry, only needed when `o.stereo = true`.  In `ltShell` (candidate
order for duplicate removal): handled by fact (D), `Rl.dedupSpec_permRel`.
-/
namespace E3fpVerif
open Rl

/-! ## the geometry hypothesis -/

/-- a neighbour tuple `(bond code, identifier, atom)` with the atom renumbered -/
def relTuple (π : Nat → Nat) (t : Nat × Int × Nat) : Nat × Int × Nat := (t.1, t.2.1, π t.2.2)

/-- the `(bond code, identifier, stereo code)` triples `atomTuples` hashes for centre `c` -/
def stereoTriples (g : Geo) (c : Nat) (l : List (Nat × Int × Nat)) : List (Nat × Int × Int) :=
  (l.zip (g.stereo c l)).map (fun p => (p.1.1, p.1.2.1, p.2))

/-- **(S)**: the multiset of `(bond code, identifier, stereo code)` triples does not depend on how ties
between neighbours with equal `(code, identifier)` are ordered, and is equivariant under relabelling:
for tuple lists `l` (atoms `a`) and `l'` (atoms `π a`) that are permutations of each other up to
relabelling and both sorted (by `lt3`, in particular by `(code, identifier)`), the triples agree up to
order. -/
def StereoSym (π : Nat → Nat) (g g' : Geo) : Prop :=
  ∀ c l l', l'.Perm (l.map (relTuple π)) → SortedBy lt3 l → SortedBy lt3 l' →
    (stereoTriples g' (π c) l').Perm (stereoTriples g c l)

/-- the order on `(bond code, identifier)` alone -/
def lt2 (a b : Nat × Int × Nat) : Bool := a.1 < b.1 || (a.1 == b.1 && a.2.1 < b.2.1)

/-- (S) stated for lists sorted by `(code, identifier)` only, ties in any order -/
def StereoSym2 (π : Nat → Nat) (g g' : Geo) : Prop :=
  ∀ c l l', l'.Perm (l.map (relTuple π)) → SortedBy lt2 l → SortedBy lt2 l' →
    (stereoTriples g' (π c) l').Perm (stereoTriples g c l)

theorem sortedBy_lt2_of_lt3 (l : List (Nat × Int × Nat)) (h : SortedBy lt3 l) : SortedBy lt2 l := by
  unfold SortedBy at *
  refine h.imp ?_
  intro a b hab
  simp only [lt3, lt2, Bool.or_eq_false_iff, Bool.and_eq_false_iff, decide_eq_false_iff_not,
    beq_eq_false_iff_ne, ne_eq] at *
  omega

/-- the `(code, identifier)` form of the hypothesis implies the one used below -/
theorem StereoSym2.toSym {π : Nat → Nat} {g g' : Geo} (h : StereoSym2 π g g') : StereoSym π g g' :=
  fun c l l' hp h1 h2 => h c l l' hp (sortedBy_lt2_of_lt3 l h1) (sortedBy_lt2_of_lt3 l' h2)

/-- the geometry `g'` is `g` carried along the renumbering `π` -/
structure Geo.Relabels (π : Nat → Nat) (g g' : Geo) : Prop where
  within : ∀ k a b, g'.within k (π a) (π b) = g.within k a b
  stereo : StereoSym π g g'

/-! ## substructures and shells that correspond -/

/-- `p'` is `p` mapped elementwise by `π` (and re-sorted), and back -/
def SubRel (π πi : Nat → Nat) (p p' : List Nat) : Prop := p' = uniq (p.map π) ∧ p = uniq (p'.map πi)

theorem SubRel.biUnique {π πi : Nat → Nat} {p q p' q' : List Nat} (h1 : SubRel π πi p p') (h2 : SubRel π πi q q') :
    p = q ↔ p' = q' := by
  constructor
  · intro e; rw [h1.1, h2.1, e]
  · intro e; rw [h1.2, h2.2, e]

theorem length_insertU_le (x : Nat) (l : List Nat) : (insertU x l).length ≤ l.length + 1 := by
  induction l with
  | nil => simp [insertU]
  | cons a as ih =>
    unfold insertU
    split
    · simp
    · split
      · simp
      · simp only [List.length_cons]; omega

theorem length_uniq_le (l : List Nat) : (uniq l).length ≤ l.length := by
  induction l with
  | nil => simp [uniq]
  | cons a as ih =>
    have : uniq (a :: as) = insertU a (uniq as) := rfl
    rw [this]
    have := length_insertU_le a (uniq as)
    simp only [List.length_cons]; omega

theorem SubRel.length_eq {π πi : Nat → Nat} {p p' : List Nat} (h : SubRel π πi p p') : p.length = p'.length := by
  have h1 := length_uniq_le (p.map π)
  have h2 := length_uniq_le (p'.map πi)
  rw [← h.1] at h1
  rw [← h.2] at h2
  simp only [List.length_map] at h1 h2
  omega

/-- sorted duplicate-free lists over member sets that correspond under `π` -/
theorem subRel_uniq {π πi : Nat → Nat} (hπ : ∀ a, πi (π a) = a) (l l' : List Nat)
    (h : ∀ x, x ∈ l' ↔ ∃ y ∈ l, x = π y) : SubRel π πi (uniq l) (uniq l') := by
  constructor
  · apply uniq_ext
    intro x
    rw [h x, List.mem_map]
    constructor
    · rintro ⟨y, hy, rfl⟩; exact ⟨y, (mem_uniq y l).2 hy, rfl⟩
    · rintro ⟨y, hy, rfl⟩; exact ⟨y, (mem_uniq y l).1 hy, rfl⟩
  · apply uniq_ext
    intro x
    rw [List.mem_map]
    constructor
    · intro hx
      exact ⟨π x, (mem_uniq _ _).2 ((h _).2 ⟨x, hx, rfl⟩), hπ x⟩
    · rintro ⟨y', hy', rfl⟩
      obtain ⟨y, hy, rfl⟩ := (h y').1 ((mem_uniq _ _).1 hy')
      rw [hπ]; exact hy

theorem SubRel.mem_iff {π πi : Nat → Nat} (hπ : ∀ a, πi (π a) = a) {p p' : List Nat} (h : SubRel π πi p p') (y : Nat) :
    π y ∈ p' ↔ y ∈ p := by
  constructor
  · intro hy
    rw [h.2, mem_uniq, List.mem_map]
    exact ⟨π y, hy, hπ y⟩
  · intro hy
    rw [h.1, mem_uniq, List.mem_map]
    exact ⟨y, hy, rfl⟩

theorem SubRel.exists_of_mem {π πi : Nat → Nat} {p p' : List Nat} (h : SubRel π πi p p') (x : Nat) (hx : x ∈ p') :
    ∃ y ∈ p, x = π y := by
  rw [h.1, mem_uniq, List.mem_map] at hx
  obtain ⟨y, hy, rfl⟩ := hx
  exact ⟨y, hy, rfl⟩

/-- corresponding shells of the two runs -/
structure ShellRel (π πi : Nat → Nat) (S : Nat → Nat → Prop) (x x' : GShell) : Prop where
  atom : x'.atom = π x.atom
  ident : x'.ident = x.ident
  sub : SubRel π πi x.sub x'.sub
  sid : S x.sid x'.sid

theorem ShellRel.mono {π πi : Nat → Nat} {S S₂ : Nat → Nat → Prop} (h : ∀ i j, S i j → S₂ i j) {x x' : GShell}
    (hx : ShellRel π πi S x x') : ShellRel π πi S₂ x x' :=
  ⟨hx.atom, hx.ident, hx.sub, h _ _ hx.sid⟩

/-- what the fingerprint sees of a shell: identifier and substructure -/
def IdSubRel (π πi : Nat → Nat) (x x' : GShell) : Prop := x'.ident = x.ident ∧ SubRel π πi x.sub x'.sub

theorem ShellRel.idSub {π πi : Nat → Nat} {S : Nat → Nat → Prop} {x x' : GShell} (hx : ShellRel π πi S x x') :
    IdSubRel π πi x x' := ⟨hx.ident, hx.sub⟩

/-- **the level-wise relation**: a bijection between the shells of `l` and `l'` along which the centre
is mapped by `π`, the identifier is equal, the substructure is mapped elementwise by `π`, and the
interned structural ids correspond under the partial bijection `S` of ids -/
def LevelEquiv (π πi : Nat → Nat) (S : Nat → Nat → Prop) (l l' : List GShell) : Prop :=
  PermRel (ShellRel π πi S) l l'

/-- substructure sets of corresponding lists correspond -/
theorem permRel_sub_mem {π πi : Nat → Nat} {l l' : List GShell} (h : PermRel (IdSubRel π πi) l l')
    {p p' : List Nat} (hp : SubRel π πi p p') : p ∈ l.map (·.sub) ↔ p' ∈ l'.map (·.sub) := by
  simp only [List.mem_map]
  constructor
  · rintro ⟨x, hx, rfl⟩
    obtain ⟨x', hx', hr⟩ := h.exists_right x hx
    exact ⟨x', hx', ((SubRel.biUnique hr.2 hp).1 rfl)⟩
  · rintro ⟨x', hx', rfl⟩
    obtain ⟨x, hx, hr⟩ := h.exists_left x' hx'
    exact ⟨x, hx, ((SubRel.biUnique hr.2 hp).2 rfl)⟩

/-! ## the two runs: what is assumed of `(m', g', A')` relative to `(m, g, A)` -/

structure RCtx (π πi : Nat → Nat) (o : Opts) (m m' : MolG) (g g' : Geo) (A A' : List Nat) : Prop where
  left : ∀ a, πi (π a) = a
  right : ∀ a, π (πi a) = a
  perm : A'.Perm (A.map π)
  nodup : A.Nodup
  within : ∀ k a b, g'.within k (π a) (π b) = g.within k a b
  conn : ∀ a b, conn m' (π a) (π b) = conn m a b
  bonded : ∀ a b, bonded m' (π a) (π b) = bonded m a b
  init : ∀ a, initIdent o m' (π a) = initIdent o m a
  stereo : o.stereo = true → StereoSym π g g'

section ctx
variable {π πi : Nat → Nat} {o : Opts} {m m' : MolG} {g g' : Geo} {A A' : List Nat}

theorem RCtx.inj (c : RCtx π πi o m m' g g' A A') : ∀ a b, π a = π b → a = b := by
  intro a b h; have := congrArg πi h; rwa [c.left, c.left] at this

theorem RCtx.nodup' (c : RCtx π πi o m m' g g' A A') : A'.Nodup := by
  rw [c.perm.nodup_iff]
  exact List.Nodup.map (fun a b h => c.inj a b h) c.nodup

theorem RCtx.mem' (c : RCtx π πi o m m' g g' A A') (a : Nat) : π a ∈ A' ↔ a ∈ A := by
  rw [c.perm.mem_iff, List.mem_map]
  constructor
  · rintro ⟨b, hb, e⟩; rw [← c.inj _ _ e]; exact hb
  · intro h; exact ⟨a, h, rfl⟩

theorem RCtx.length_eq (c : RCtx π πi o m m' g g' A A') : A'.length = A.length := by
  rw [c.perm.length_eq, List.length_map]

/-- the neighbours correspond -/
theorem nbOf_relabel (c : RCtx π πi o m m' g g' A A') (k a : Nat) :
    (nbOf o m' g' A' k (π a)).Perm ((nbOf o m g A k a).map π) := by
  unfold nbOf
  refine (c.perm.filter _).trans ?_
  rw [List.filter_map]
  apply List.Perm.of_eq
  congr 1
  apply List.filter_congr
  intro b _
  simp only [Function.comp, c.within, c.bonded]
  congr 2
  rw [Bool.eq_iff_iff]
  simp only [bne_iff_ne, ne_eq]
  exact not_congr ⟨c.inj _ _, fun e => by rw [e]⟩

theorem nbOf_subset (o : Opts) (m : MolG) (g : Geo) (A : List Nat) (k a : Nat) : ∀ b ∈ nbOf o m g A k a, b ∈ A :=
  fun _ hb => (List.mem_filter.1 hb).1

/-! ## identifiers -/

def baseTuples (m : MolG) (prev : List GShell) (a : Nat) (nb : List Nat) : List (Nat × Int × Nat) :=
  sortByLt lt3 (nb.map (fun b => (conn m a b, (shellOf prev b).ident, b)))

def hashTuples (o : Opts) (g : Geo) (a : Nat) (base : List (Nat × Int × Nat)) : List (List Int) :=
  if o.stereo then (stereoTriples g a base).map (fun t => [(t.1 : Int), t.2.1, t.2.2])
  else base.map (fun t => [(t.1 : Int), t.2.1])

theorem atomTuples_eq (o : Opts) (m : MolG) (g : Geo) (prev : List GShell) (a : Nat) (nb : List Nat) :
    atomTuples o m g prev a nb =
      if nb = [] then [] else (sortByLt ltIntList (hashTuples o g a (baseTuples m prev a nb))).flatten := by
  unfold atomTuples hashTuples baseTuples stereoTriples
  cases o.stereo
  · rfl
  · simp only [if_true, List.map_map]
    rfl

theorem baseTuples_relabel (c : RCtx π πi o m m' g g' A A') (prev prev' : List GShell)
    (hprev : ∀ b ∈ A, (shellOf prev' (π b)).ident = (shellOf prev b).ident)
    (a : Nat) (nb nb' : List Nat) (hnb : ∀ b ∈ nb, b ∈ A) (hp : nb'.Perm (nb.map π)) :
    (baseTuples m' prev' (π a) nb').Perm ((baseTuples m prev a nb).map (relTuple π)) := by
  unfold baseTuples
  refine (sortByLt_perm _ _).trans ?_
  refine (hp.map _).trans ?_
  refine List.Perm.trans ?_ ((sortByLt_perm lt3 _).map (relTuple π)).symm
  apply List.Perm.of_eq
  rw [List.map_map, List.map_map]
  apply List.map_congr_left
  intro b hb
  simp only [Function.comp, relTuple, c.conn, hprev b (hnb b hb)]

theorem atomTuples_relabel (c : RCtx π πi o m m' g g' A A') (prev prev' : List GShell)
    (hprev : ∀ b ∈ A, (shellOf prev' (π b)).ident = (shellOf prev b).ident)
    (a : Nat) (nb nb' : List Nat) (hnb : ∀ b ∈ nb, b ∈ A) (hp : nb'.Perm (nb.map π)) :
    atomTuples o m' g' prev' (π a) nb' = atomTuples o m g prev a nb := by
  rw [atomTuples_eq, atomTuples_eq]
  have hnil : (nb' = []) ↔ (nb = []) := by
    constructor
    · intro h; subst h
      have := hp.symm.eq_nil
      exact List.map_eq_nil_iff.1 this
    · intro h; subst h; exact hp.eq_nil
  by_cases h0 : nb = []
  · rw [if_pos h0, if_pos (hnil.2 h0)]
  · rw [if_neg h0, if_neg (fun h => h0 (hnil.1 h))]
    congr 1
    have hb := baseTuples_relabel c prev prev' hprev a nb nb' hnb hp
    have hs : SortedBy lt3 (baseTuples m prev a nb) := sortByLt_sorted lt3 lt3_irrefl lt3_trans _
    have hs' : SortedBy lt3 (baseTuples m' prev' (π a) nb') := sortByLt_sorted lt3 lt3_irrefl lt3_trans _
    apply sortByLt_eq_of_perm ltIntList ltIntList_irrefl ltIntList_trans _ _ (fun a _ b _ => ltIntList_trich a b)
    unfold hashTuples
    cases hst : o.stereo
    · simp only [Bool.false_eq_true, if_false]
      refine (hb.map _).trans ?_
      rw [List.map_map]
      exact List.Perm.of_eq rfl
    · simp only [if_true]
      exact (c.stereo hst a _ _ hb hs hs').map _

theorem shellIdent_relabel (c : RCtx π πi o m m' g g' A A') (prev prev' : List GShell)
    (hprev : ∀ b ∈ A, (shellOf prev' (π b)).ident = (shellOf prev b).ident)
    (k a : Nat) (ha : a ∈ A) (nb nb' : List Nat) (hnb : ∀ b ∈ nb, b ∈ A) (hp : nb'.Perm (nb.map π)) :
    shellIdent o m' g' prev' k (π a) nb' = shellIdent o m g prev k a nb := by
  unfold shellIdent
  rw [atomTuples_relabel c prev prev' hprev a nb nb' hnb hp, hprev a ha]

end ctx

/-! ## the generator levels correspond -/

section gen
variable {π πi : Nat → Nat} {o : Opts} {m m' : MolG} {g g' : Geo} {A A' : List Nat}

/-- the id relation after generating level `k` -/
def genS (π : Nat → Nat) (o : Opts) (m m' : MolG) (g g' : Geo) (A A' : List Nat) (prev prev' : List GShell) (k : Nat)
    (t t' : Intern) (S : Nat → Nat → Prop) : Nat → Nat → Prop :=
  extS S π A (internAll t (A.map (genKey o m g A prev k))) (internAll t' (A'.map (genKey o m' g' A' prev' k)))
    (genKey o m g A prev k) (genKey o m' g' A' prev' k)

theorem genS_mono (prev prev' : List GShell) (k : Nat) (t t' : Intern) (S : Nat → Nat → Prop) :
    ∀ i j, S i j → genS π o m m' g g' A A' prev prev' k t t' S i j := fun _ _ h => Or.inl h

/-- **level `k ≥ 1`**: the tables stay related and the generated shells correspond, identifiers included -/
theorem genLevel_relabel (c : RCtx π πi o m m' g g' A A') (S : Nat → Nat → Prop) (t t' : Intern)
    (htbl : TblRel π S t t') (prev prev' : List GShell)
    (hprev : ∀ b ∈ A, ShellRel π πi S (shellOf prev b) (shellOf prev' (π b))) (k : Nat) :
    TblRel π (genS π o m m' g g' A A' prev prev' k t t' S)
      (internAll t (A.map (genKey o m g A prev k))) (internAll t' (A'.map (genKey o m' g' A' prev' k))) ∧
    ∀ a ∈ A, ShellRel π πi (genS π o m m' g g' A A' prev prev' k t t' S)
      (genShellT o m g A prev k (internAll t (A.map (genKey o m g A prev k))) a)
      (genShellT o m' g' A' prev' k (internAll t' (A'.map (genKey o m' g' A' prev' k))) (π a)) := by
  have hk : ∀ a ∈ A, KRel π S (genKey o m g A prev k a) (genKey o m' g' A' prev' k (π a)) := by
    intro a _
    refine ⟨rfl, ?_, ?_⟩
    · intro i hi
      simp only [genKey] at hi
      rw [mem_uniq, List.mem_map] at hi
      obtain ⟨b, hb, rfl⟩ := hi
      refine ⟨(shellOf prev' (π b)).sid, ?_, (hprev b (nbOf_subset _ _ _ _ _ _ b hb)).sid⟩
      simp only [genKey]
      rw [mem_uniq, List.mem_map]
      exact ⟨π b, (nbOf_relabel c k a).mem_iff.2 (List.mem_map.2 ⟨b, hb, rfl⟩), rfl⟩
    · intro j hj
      simp only [genKey] at hj
      rw [mem_uniq, List.mem_map] at hj
      obtain ⟨b', hb', rfl⟩ := hj
      obtain ⟨b, hb, rfl⟩ := List.mem_map.1 ((nbOf_relabel c k a).mem_iff.1 hb')
      refine ⟨(shellOf prev b).sid, ?_, (hprev b (nbOf_subset _ _ _ _ _ _ b hb)).sid⟩
      simp only [genKey]
      rw [mem_uniq, List.mem_map]
      exact ⟨b, hb, rfl⟩
  refine ⟨intern_relabel π c.inj S t t' htbl A A' c.perm _ _ hk
    (fun a _ => strictAsc_uniq _) (fun a _ => strictAsc_uniq _), ?_⟩
  intro a ha
  refine ⟨rfl, ?_, ?_, extS_new ha⟩
  · exact shellIdent_relabel c prev prev' (fun b hb => (hprev b hb).ident) k a ha _ _
      (nbOf_subset _ _ _ _ _ _) (nbOf_relabel c k a)
  · simp only [genShellT]
    apply subRel_uniq c.left
    intro x
    simp only [List.mem_cons, List.mem_flatMap]
    constructor
    · rintro (rfl | ⟨b', hb', hx⟩)
      · exact ⟨a, Or.inl rfl, rfl⟩
      · obtain ⟨b, hb, rfl⟩ := List.mem_map.1 ((nbOf_relabel c k a).mem_iff.1 hb')
        obtain ⟨y, hy, rfl⟩ := (hprev b (nbOf_subset _ _ _ _ _ _ b hb)).sub.exists_of_mem x hx
        exact ⟨y, Or.inr ⟨b, hb, hy⟩, rfl⟩
    · rintro ⟨y, (rfl | ⟨b, hb, hy⟩), rfl⟩
      · exact Or.inl rfl
      · refine Or.inr ⟨π b, (nbOf_relabel c k a).mem_iff.2 (List.mem_map.2 ⟨b, hb, rfl⟩), ?_⟩
        exact ((hprev b (nbOf_subset _ _ _ _ _ _ b hb)).sub.mem_iff c.left y).2 hy

/-- the id relation after level 0 -/
def gen0S (π : Nat → Nat) (A A' : List Nat) : Nat → Nat → Prop :=
  extS (fun _ _ => False) π A (internAll [] (A.map (fun a => ((a, []) : Key))))
    (internAll [] (A'.map (fun a => ((a, []) : Key)))) (fun a => ((a, []) : Key)) (fun a => ((a, []) : Key))

/-- **level 0** -/
theorem genLevel0_relabel (c : RCtx π πi o m m' g g' A A') :
    TblRel π (gen0S π A A') (internAll [] (A.map (fun a => ((a, []) : Key))))
      (internAll [] (A'.map (fun a => ((a, []) : Key)))) ∧
    ∀ a ∈ A, ShellRel π πi (gen0S π A A')
      (gen0ShellT o m (internAll [] (A.map (fun a => ((a, []) : Key)))) a)
      (gen0ShellT o m' (internAll [] (A'.map (fun a => ((a, []) : Key)))) (π a)) := by
  refine ⟨intern_relabel π c.inj _ [] [] (TblRel.empty π) A A' c.perm _ _ ?_ ?_ ?_, ?_⟩
  · intro a _; exact ⟨rfl, by simp, by simp⟩
  · intro a _; exact List.Pairwise.nil
  · intro a _; exact List.Pairwise.nil
  · intro a ha
    refine ⟨rfl, c.init a, ?_, extS_new ha⟩
    exact ⟨rfl, by simp [gen0ShellT, c.left, uniq_singleton]⟩

end gen

/-! ## list helpers for the step -/

/-- a list with one shell per atom is recovered by looking its atoms up -/
theorem map_shellOf_self (l : List GShell) (hn : (l.map (·.atom)).Nodup) :
    (l.map (·.atom)).map (shellOf l) = l := by
  induction l with
  | nil => rfl
  | cons x xs ih =>
    rw [List.map_cons, List.nodup_cons] at hn
    rw [List.map_cons, List.map_cons]
    congr 1
    · simp [shellOf]
    · conv_rhs => rw [← ih hn.2]
      apply List.map_congr_left
      intro b hb
      have hne : x.atom ≠ b := fun e => hn.1 (e ▸ hb)
      simp [shellOf, hne]

/-- with pairwise structurally different new shells, the union keeps exactly the new shells that are
structurally different from all old ones -/
theorem unionShells_eq_filter (old new : List GShell) (h : new.Pairwise (fun a b => a.sid ≠ b.sid)) :
    unionShells old new = old ++ new.filter (fun z => !old.any (fun x => x.sid == z.sid)) := by
  induction new generalizing old with
  | nil => simp [unionShells_nil]
  | cons s rest ih =>
    rw [List.pairwise_cons] at h
    rw [unionShells_cons, List.filter_cons]
    by_cases hs : old.any (fun x => x.sid == s.sid) = true
    · simp only [hs, if_true, Bool.not_true, Bool.false_eq_true, if_false]
      exact ih old h.2
    · have hs' : old.any (fun x => x.sid == s.sid) = false := by simpa using hs
      rw [hs']
      simp only [Bool.false_eq_true, if_false, Bool.not_false, if_true]
      rw [ih _ h.2, List.append_assoc, List.singleton_append]
      congr 2
      apply List.filter_congr
      intro z hz
      have hne : s.sid ≠ z.sid := h.1 z hz
      simp [List.any_append, hne]

/-- the shells generated at one level are pairwise structurally different -/
theorem genShellT_sid_pairwise (o : Opts) (m : MolG) (g : Geo) (A : List Nat) (hA : A.Nodup) (prev : List GShell)
    (k : Nat) (t : Intern) :
    (A.map (genShellT o m g A prev k (internAll t (A.map (genKey o m g A prev k))))).Pairwise
      (fun a b => a.sid ≠ b.sid) := by
  rw [List.pairwise_map]
  refine hA.imp_of_mem ?_
  intro a b ha _ hab e
  have hm : genKey o m g A prev k a ∈ internAll t (A.map (genKey o m g A prev k)) :=
    (mem_internAll _ _ _).2 (Or.inr (List.mem_map.2 ⟨a, ha, rfl⟩))
  have := idxOf_inj hm e
  exact hab (congrArg Prod.fst this)

theorem getD_beyond {α} (L : List α) (d : α) (k : Nat) (h : L.length ≤ k) : L.getD k d = d := by
  simp [List.getD_eq_getElem?_getD, List.getElem?_eq_none h]

/-! ## accepting the shells of a level: sort, duplicate filter, union -/

section accept
variable {π πi : Nat → Nat}

/-- **the accept step**: corresponding generated shells are sorted, filtered and merged into
corresponding `level_shells` entries; fact (D) covers the order of ties in the duplicate filter -/
theorem accept_relabel (o : Opts) (S₂ : Nat → Nat → Prop) (hbi : BiUnique S₂)
    (shells shells' : List GShell) (hsh : PermRel (ShellRel π πi S₂) shells shells')
    (hpw : shells.Pairwise (fun a b => a.sid ≠ b.sid)) (hpw' : shells'.Pairwise (fun a b => a.sid ≠ b.sid))
    (prevLS prevLS' : List GShell) (past past' : List (List Nat))
    (hpast : ∀ p p', SubRel π πi p p' → (p ∈ past ↔ p' ∈ past'))
    (hls : PermRel (IdSubRel π πi) prevLS prevLS')
    (hlsS : o.removeDup = false → PermRel (ShellRel π πi S₂) prevLS prevLS')
    (hun : o.removeDup = true → unionShells prevLS (dedupSpec past (sortByLt ltShell shells))
      = prevLS ++ dedupSpec past (sortByLt ltShell shells))
    (hun' : o.removeDup = true → unionShells prevLS' (dedupSpec past' (sortByLt ltShell shells'))
      = prevLS' ++ dedupSpec past' (sortByLt ltShell shells')) :
    PermRel (IdSubRel π πi) (unionShells prevLS (stepAcc o past (sortByLt ltShell shells)))
      (unionShells prevLS' (stepAcc o past' (sortByLt ltShell shells'))) ∧
    (o.removeDup = false →
      PermRel (ShellRel π πi S₂) (unionShells prevLS (stepAcc o past (sortByLt ltShell shells)))
        (unionShells prevLS' (stepAcc o past' (sortByLt ltShell shells')))) ∧
    (∀ p p', SubRel π πi p p' →
      (p ∈ stepPast o past (sortByLt ltShell shells) ↔ p' ∈ stepPast o past' (sortByLt ltShell shells'))) := by
  have hsorted : PermRel (ShellRel π πi S₂) (sortByLt ltShell shells) (sortByLt ltShell shells') :=
    (hsh.perm_left (sortByLt_perm ltShell shells).symm).perm_right (sortByLt_perm ltShell shells').symm
  have hsortedI : PermRel (IdSubRel π πi) (sortByLt ltShell shells) (sortByLt ltShell shells') :=
    hsorted.mono (fun _ _ _ _ h => h.idSub)
  have hsym : ∀ {x y : GShell}, x.sid ≠ y.sid → y.sid ≠ x.sid := fun h => h.symm
  have hspw := ((sortByLt_perm ltShell shells).pairwise_iff hsym).2 hpw
  have hspw' := ((sortByLt_perm ltShell shells').pairwise_iff hsym).2 hpw'
  cases hd : o.removeDup
  · -- no duplicate removal: every structurally new shell is kept
    have hacc : ∀ past l, stepAcc o past l = l := by intro past l; simp [stepAcc, hd]
    have hpst : ∀ past l, stepPast o past l = past := by intro past l; simp [stepPast, hd]
    rw [hacc, hacc, hpst, hpst, unionShells_eq_filter _ _ hspw, unionShells_eq_filter _ _ hspw']
    have hold := hlsS hd
    have hmain : PermRel (ShellRel π πi S₂)
        (prevLS ++ (sortByLt ltShell shells).filter (fun z => !prevLS.any (fun x => x.sid == z.sid)))
        (prevLS' ++ (sortByLt ltShell shells').filter (fun z => !prevLS'.any (fun x => x.sid == z.sid))) := by
      apply hold.append
      apply hsorted.filter
      intro z _ z' _ hz
      congr 1
      apply PermRel.any_eq _ _ _ hold
      intro x _ x' _ hx
      rw [Bool.eq_iff_iff, beq_iff_eq, beq_iff_eq]
      exact hbi _ _ _ _ hx.sid hz.sid
    exact ⟨hmain.mono (fun _ _ _ _ h => h.idSub), fun _ => hmain, hpast⟩
  · -- duplicate removal: the union is an append, and (D) relates the accepted shells
    have hacc : ∀ past l, stepAcc o past l = dedupSpec past l := by intro past l; simp [stepAcc, hd]
    have hpst : ∀ past l, stepPast o past l = past ++ (dedupSpec past l).map (·.sub) := by
      intro past l; simp [stepPast, hd]
    rw [hacc, hacc, hpst, hpst, hun hd, hun' hd]
    have hD : PermRel (IdSubRel π πi) (dedupSpec past (sortByLt ltShell shells))
        (dedupSpec past' (sortByLt ltShell shells')) :=
      dedupSpec_permRel (SubRel π πi) (fun _ _ _ _ h1 h2 => SubRel.biUnique h1 h2) past past' hpast _ _ hsortedI
        (sortByLt_ltShell_ident_sorted _) (sortByLt_ltShell_ident_sorted _)
    refine ⟨hls.append hD, (fun h => by cases h), ?_⟩
    intro p p' hp
    rw [mem_past_dedupSpec, mem_past_dedupSpec, hpast p p' hp, permRel_sub_mem hsortedI hp]

end accept

/-! ## the simulation relation on states -/

/-- the two runs are in corresponding states (`S`: the partial bijection of structural ids so far) -/
structure StRel (π πi : Nat → Nat) (o : Opts) (A : List Nat) (S : Nat → Nat → Prop) (s s' : FState) : Prop where
  tbl : TblRel π S s.tbl s'.tbl
  genLen : s'.gen.length = s.gen.length
  gen : ∀ a ∈ A, ShellRel π πi S (shellOf (s.gen.getLastD []) a) (shellOf (s'.gen.getLastD []) (π a))
  lsLen : s'.levelShells.length = s.levelShells.length
  ls : ∀ k, PermRel (IdSubRel π πi) (s.levelShells.getD k []) (s'.levelShells.getD k [])
  lsS : o.removeDup = false →
    LevelEquiv π πi S (s.levelShells.getLastD []) (s'.levelShells.getLastD [])
  past : ∀ p p', SubRel π πi p p' → (p ∈ s.past ↔ p' ∈ s'.past)

section sim
variable {π πi : Nat → Nat} {o : Opts} {m m' : MolG} {g g' : Geo} {A A' : List Nat}

/-- one shell per atom on both sides, corresponding atom by atom: the lists correspond -/
theorem gen_permRel (c : RCtx π πi o m m' g g' A A') {S : Nat → Nat → Prop} (l l' : List GShell)
    (hA : l.map (·.atom) = A) (hA' : l'.map (·.atom) = A')
    (h : ∀ a ∈ A, ShellRel π πi S (shellOf l a) (shellOf l' (π a))) : PermRel (ShellRel π πi S) l l' := by
  have e : l = A.map (shellOf l) := by
    have := map_shellOf_self l (by rw [hA]; exact c.nodup)
    rw [hA] at this; exact this.symm
  have e' : l' = A'.map (shellOf l') := by
    have := map_shellOf_self l' (by rw [hA']; exact c.nodup')
    rw [hA'] at this; exact this.symm
  rw [e, e']
  exact PermRel.of_map A A' π c.perm _ _ h

theorem initState_eq (o : Opts) (m : MolG) (A : List Nat) :
    initState o m A = { tbl := (genLevel0 o m A []).1, gen := [(genLevel0 o m A []).2],
                        levelShells := [(genLevel0 o m A []).2], past := (genLevel0 o m A []).2.map (·.sub) } := by
  unfold initState; rfl

/-- the states after level 0 correspond -/
theorem init_relabel (c : RCtx π πi o m m' g g' A A') :
    StRel π πi o A (gen0S π A A') (initState o m A) (initState o m' A') := by
  obtain ⟨htbl, hsh⟩ := genLevel0_relabel c
  have hPR : PermRel (ShellRel π πi (gen0S π A A'))
      (A.map (gen0ShellT o m (internAll [] (A.map (fun a => ((a, []) : Key))))))
      (A'.map (gen0ShellT o m' (internAll [] (A'.map (fun a => ((a, []) : Key)))))) :=
    PermRel.of_map A A' π c.perm _ _ hsh
  rw [initState_eq, initState_eq, genLevel0_eq_map, genLevel0_eq_map]
  refine ⟨htbl, rfl, ?_, rfl, ?_, fun _ => hPR, ?_⟩
  · intro a ha
    simp only [List.getLastD_cons, List.getLastD_nil]
    rw [shellOf_map _ (fun _ => rfl) A a ha, shellOf_map _ (fun _ => rfl) A' (π a) ((c.mem' a).2 ha)]
    exact hsh a ha
  · intro k
    cases k with
    | zero => exact hPR.mono (fun _ _ _ _ h => h.idSub)
    | succ k => exact PermRel.nil _
  · intro p p' hp
    exact permRel_sub_mem (hPR.mono (fun _ _ _ _ h => h.idSub)) hp

/-- **one step**: both runs stop, or both continue into corresponding states -/
theorem step_relabel (c : RCtx π πi o m m' g g' A A') (S : Nat → Nat → Prop) (s s' : FState)
    (h : StRel π πi o A S s s') (subOf subOf' : Nat → List Nat)
    (hu : UInv o A subOf s) (hu' : UInv o A' subOf' s') :
    (stepState o m g A s = none ∧ stepState o m' g' A' s' = none) ∨
    ∃ r r' S₂, stepState o m g A s = some r ∧ stepState o m' g' A' s' = some r' ∧ StRel π πi o A S₂ r r' := by
  have hcur : s'.currentLevel = s.currentLevel := by unfold FState.currentLevel; rw [h.genLen]
  have hgenPR : PermRel (ShellRel π πi S) (s.gen.getLastD []) (s'.gen.getLastD []) :=
    gen_permRel c _ _ hu.genAtoms hu'.genAtoms h.gen
  have hall : (s'.gen.getLastD []).all (fun x => x.sub.length == A'.length)
      = (s.gen.getLastD []).all (fun x => x.sub.length == A.length) := by
    symm
    apply PermRel.all_eq _ _ _ hgenPR
    intro x _ x' _ hr
    rw [hr.sub.length_eq, c.length_eq]
  -- the generated level
  obtain ⟨htbl2, hsh2⟩ := genLevel_relabel c S s.tbl s'.tbl h.tbl (s.gen.getLastD []) (s'.gen.getLastD []) h.gen
    (s.currentLevel + 1)
  have hg := genLevel_eq_map o m g A (s.gen.getLastD []) (s.currentLevel + 1) s.tbl
  have hg' := genLevel_eq_map o m' g' A' (s'.gen.getLastD []) (s.currentLevel + 1) s'.tbl
  have hPR : PermRel (ShellRel π πi
        (genS π o m m' g g' A A' (s.gen.getLastD []) (s'.gen.getLastD []) (s.currentLevel + 1) s.tbl s'.tbl S))
      (genLevel o m g A (s.gen.getLastD []) (s.currentLevel + 1) s.tbl).2
      (genLevel o m' g' A' (s'.gen.getLastD []) (s.currentLevel + 1) s'.tbl).2 := by
    rw [hg, hg']
    exact PermRel.of_map A A' π c.perm _ _ hsh2
  have hpw : (genLevel o m g A (s.gen.getLastD []) (s.currentLevel + 1) s.tbl).2.Pairwise
      (fun a b => a.sid ≠ b.sid) := by
    rw [hg]; exact genShellT_sid_pairwise o m g A c.nodup _ _ _
  have hpw' : (genLevel o m' g' A' (s'.gen.getLastD []) (s.currentLevel + 1) s'.tbl).2.Pairwise
      (fun a b => a.sid ≠ b.sid) := by
    rw [hg']; exact genShellT_sid_pairwise o m' g' A' c.nodup' _ _ _
  have hlsPrev : PermRel (IdSubRel π πi) (s.levelShells.getLastD []) (s'.levelShells.getLastD []) := by
    rw [getLastD_eq_getD, getLastD_eq_getD, h.lsLen]; exact h.ls _
  have hun := union_eq_append o m g A subOf s hu
  have hun' := union_eq_append o m' g' A' subOf' s' hu'
  rw [hcur] at hun'
  obtain ⟨hA1, hA2, hA3⟩ := accept_relabel o _ htbl2.bi _ _ hPR hpw hpw' (s.levelShells.getLastD [])
    (s'.levelShells.getLastD []) s.past s'.past h.past hlsPrev
    (fun hd => (h.lsS hd).mono (fun _ _ _ _ hx => hx.mono (genS_mono _ _ _ _ _ _))) hun hun'
  have hlen := hA1.length_eq
  have hplen := hlsPrev.length_eq
  rw [stepState_eq', stepState_eq', hcur, hall]
  by_cases h1 : (decide (o.level ≠ -1) && decide ((s.currentLevel : Int) ≥ o.level)) = true
  · left; simp only [h1, if_true, and_self]
  · simp only [h1, Bool.false_eq_true, if_false]
    by_cases h2 : (o.removeDup && (s.gen.getLastD []).all (fun x => x.sub.length == A.length)) = true
    · left; simp only [h2, if_true, and_self]
    · simp only [h2, Bool.false_eq_true, if_false]
      rw [← hlen, ← hplen]
      by_cases h3 : (unionShells (s.levelShells.getLastD []) (stepAcc o s.past (sortByLt ltShell
          (genLevel o m g A (s.gen.getLastD []) (s.currentLevel + 1) s.tbl).2))).length
          = (s.levelShells.getLastD []).length
      · left; simp only [h3, if_true, and_self]
      · right
        simp only [h3, if_false]
        refine ⟨_, _, genS π o m m' g g' A A' (s.gen.getLastD []) (s'.gen.getLastD []) (s.currentLevel + 1)
          s.tbl s'.tbl S, rfl, rfl, ?_⟩
        refine ⟨?_, ?_, ?_, ?_, ?_, ?_, hA3⟩
        · simp only [hg, hg']; exact htbl2
        · simp only [List.length_append, h.genLen, List.length_singleton]
        · intro a ha
          simp only [getLastD_append_singleton, hg, hg']
          rw [shellOf_map _ (fun _ => rfl) A a ha, shellOf_map _ (fun _ => rfl) A' (π a) ((c.mem' a).2 ha)]
          exact hsh2 a ha
        · simp only [List.length_append, h.lsLen, List.length_singleton]
        · intro k
          simp only
          rcases Nat.lt_trichotomy k s.levelShells.length with hk | hk | hk
          · rw [getD_append_lt _ _ _ _ hk, getD_append_lt _ _ _ _ (by rw [h.lsLen]; exact hk)]
            exact h.ls k
          · subst hk
            rw [getD_append_eq]
            have := getD_append_eq s'.levelShells (unionShells (s'.levelShells.getLastD []) (stepAcc o s'.past
              (sortByLt ltShell (genLevel o m' g' A' (s'.gen.getLastD []) (s.currentLevel + 1) s'.tbl).2))) []
            rw [h.lsLen] at this
            rw [this]
            exact hA1
          · rw [getD_beyond _ _ _ (by simp only [List.length_append, List.length_singleton]; omega),
              getD_beyond _ _ _ (by simp only [List.length_append, List.length_singleton, h.lsLen]; omega)]
            exact PermRel.nil _
        · intro hd
          simp only [getLastD_append_singleton]
          exact hA2 hd

end sim

/-! ## the whole run -/

section run
variable {π πi : Nat → Nat} {o : Opts} {m m' : MolG} {g g' : Geo} {A A' : List Nat}

theorem iterate_relabel (c : RCtx π πi o m m' g g' A A') (n : Nat) :
    ∀ (S : Nat → Nat → Prop) (s s' : FState) (subOf subOf' : Nat → List Nat),
      StRel π πi o A S s s' → UInv o A subOf s → UInv o A' subOf' s' →
      ∃ S₂, StRel π πi o A S₂ (iterate o m g A n s) (iterate o m' g' A' n s') := by
  induction n with
  | zero => intro S s s' _ _ h _ _; exact ⟨S, h⟩
  | succ n ih =>
    intro S s s' subOf subOf' h hu hu'
    rcases step_relabel c S s s' h subOf subOf' hu hu' with ⟨h1, h2⟩ | ⟨r, r', S₂, h1, h2, hr⟩
    · refine ⟨S, ?_⟩
      simp only [iterate, h1, h2]
      exact h
    · obtain ⟨sub2, hu2⟩ := uinv_step o m g A subOf s r hu h1
      obtain ⟨sub2', hu2'⟩ := uinv_step o m' g' A' subOf' s' r' hu' h2
      simp only [iterate, h1, h2]
      exact ih S₂ r r' sub2 sub2' hr hu2 hu2'

/-- the context of a renumbered molecule -/
theorem rctx_relabel (π πi : Nat → Nat) (hl : ∀ a, πi (π a) = a) (hr : ∀ a, π (πi a) = a) (o : Opts) (m : MolG)
    (hm : (m.atoms.map (·.idx)).Nodup) (g g' : Geo)
    (hw : ∀ k a b, g'.within k (π a) (π b) = g.within k a b) (hs : o.stereo = true → StereoSym π g g') :
    RCtx π πi o m (m.relabel π) g g' (retained o m) (retained o (m.relabel π)) := by
  have hinj : ∀ a b, π a = π b → a = b := by
    intro a b h; have := congrArg πi h; rwa [hl, hl] at this
  exact ⟨hl, hr, retained_relabel o m π, retained_nodup o m hm, hw, conn_relabel π hinj m, bonded_relabel π hinj m,
    initIdent_relabel π hinj o m hm, hs⟩

/-- **the runs correspond**: same error, or final states related by the simulation relation -/
theorem runFp_relabel_core (π πi : Nat → Nat) (hl : ∀ a, πi (π a) = a) (hr : ∀ a, π (πi a) = a) (o : Opts) (m : MolG)
    (hm : (m.atoms.map (·.idx)).Nodup) (g g' : Geo)
    (hw : ∀ k a b, g'.within k (π a) (π b) = g.within k a b) (hs : o.stereo = true → StereoSym π g g') :
    (∀ e, runFp o m g = .error e → runFp o (m.relabel π) g' = .error e) ∧
    (∀ s, runFp o m g = .ok s → ∃ s' S, runFp o (m.relabel π) g' = .ok s' ∧
      StRel π πi o (retained o m) S s s') := by
  have c := rctx_relabel π πi hl hr o m hm g g' hw hs
  have hnil : retained o (m.relabel π) = [] ↔ retained o m = [] := by
    constructor
    · intro h
      have := c.length_eq
      rw [h] at this
      exact List.length_eq_zero_iff.1 this.symm
    · intro h
      have := c.length_eq
      rw [h] at this
      exact List.length_eq_zero_iff.1 this
  unfold runFp
  rw [relabel_bonds_any]
  by_cases h1 : (decide (o.level = -1) && !o.removeDup) = true
  · simp only [h1, if_true]
    exact ⟨fun e h => h, fun s h => by cases h⟩
  · simp only [h1, Bool.false_eq_true, if_false]
    by_cases h2 : m.bonds.any (fun e => e.2.2 = 0) = true
    · simp only [h2, if_true]
      exact ⟨fun e h => h, fun s h => by cases h⟩
    · simp only [h2, Bool.false_eq_true, if_false]
      by_cases h3 : retained o m = []
      · simp only [h3, hnil.2 h3, if_true]
        exact ⟨fun e h => h, fun s h => by cases h⟩
      · have h3' : ¬ retained o (m.relabel π) = [] := fun h => h3 (hnil.1 h)
        rw [if_neg h3, if_neg h3']
        refine ⟨(fun e h => by cases h), ?_⟩
        intro s hs'
        injection hs' with hs'
        subst hs'
        obtain ⟨sub0, hu0⟩ := uinv_init o m (retained o m)
        obtain ⟨sub0', hu0'⟩ := uinv_init o (m.relabel π) (retained o (m.relabel π))
        rw [c.length_eq]
        obtain ⟨S, hS⟩ := iterate_relabel c (if o.level = -1 then 2 ^ (retained o m).length + 1 else o.level.toNat)
          _ _ _ sub0 sub0' (init_relabel c) hu0 hu0'
        exact ⟨_, S, rfl, hS⟩

/-! ## reading the fingerprint off corresponding states -/

theorem fromIndices_perm (k : Kind) (ids ids' : List Nat) (hp : ids'.Perm ids) (bits : Nat) (lvl : Int) :
    fromIndices k ids' none bits lvl = fromIndices k ids none bits lvl := by
  have h1 : ids'.any (fun i => decide (i ≥ bits)) = ids.any (fun i => decide (i ≥ bits)) := hp.any_eq
  have h2 : uniq ids' = uniq ids := uniq_ext _ _ (fun x => hp.mem_iff)
  have h3 : ∀ i, ids'.count i = ids.count i := fun i => hp.count_eq i
  cases k <;> simp only [fromIndices, mkBit, mkCount, h1, h2, h3]

theorem resolveLevel_relabel {S : Nat → Nat → Prop} {s s' : FState} (h : StRel π πi o A S s s') (req : Option Int) :
    resolveLevel s' req = resolveLevel s req := by
  unfold resolveLevel FState.currentLevel
  rw [h.genLen, h.lsLen]

/-- the shells selected for a level and a (renumbered) mask correspond -/
theorem shellsAt_relabel (hl : ∀ a, πi (π a) = a) {S : Nat → Nat → Prop} {s s' : FState}
    (h : StRel π πi o A S s s') (req : Option Int) (mask : List Nat) :
    PermRel (IdSubRel π πi) (shellsAt s req mask) (shellsAt s' req (mask.map π)) := by
  unfold shellsAt
  rw [resolveLevel_relabel h]
  apply (h.ls _).filter
  intro x _ x' _ hx
  congr 1
  rw [Bool.eq_iff_iff, List.any_eq_true, List.any_eq_true]
  constructor
  · rintro ⟨y, hy, hm⟩
    refine ⟨π y, (hx.2.mem_iff hl y).2 hy, ?_⟩
    rw [List.contains_iff_mem] at hm ⊢
    exact List.mem_map.2 ⟨y, hm, rfl⟩
  · rintro ⟨y', hy', hm⟩
    obtain ⟨y, hy, rfl⟩ := hx.2.exists_of_mem y' hy'
    refine ⟨y, hy, ?_⟩
    rw [List.contains_iff_mem] at hm ⊢
    obtain ⟨z, hz, e⟩ := List.mem_map.1 hm
    have : z = y := by have := congrArg πi e; rwa [hl, hl] at this
    rw [← this]; exact hz

/-- **equal fingerprints** from corresponding states, for every requested level, folding and mask -/
theorem fingerprintAt_relabel (hl : ∀ a, πi (π a) = a) {S : Nat → Nat → Prop} {s s' : FState}
    (h : StRel π πi o A S s s') (req : Option Int) (bits : Option Nat) (mask : List Nat) :
    fingerprintAt o s' req bits (mask.map π) = fingerprintAt o s req bits mask := by
  unfold fingerprintAt
  have hp := (shellsAt_relabel hl h req mask).map_perm
    (fun x => (Gen.signedToUnsigned x.ident (Gen.BITS : Nat)).toNat)
    (fun x => (Gen.signedToUnsigned x.ident (Gen.BITS : Nat)).toNat)
    (fun x _ x' _ hx => by rw [hx.1])
  simp only []
  rw [fromIndices_perm _ _ _ hp]

/-- the per-level statement in the form of the property: identifiers with substructures mapped back -/
theorem levelShells_relabel {S : Nat → Nat → Prop} {s s' : FState} (h : StRel π πi o A S s s') (k : Nat) :
    ((s'.levelShells.getD k []).map (fun x => (x.ident, uniq (x.sub.map πi)))).Perm
      ((s.levelShells.getD k []).map (fun x => (x.ident, x.sub))) := by
  apply (h.ls k).map_perm (fun x => (x.ident, x.sub)) (fun x => (x.ident, uniq (x.sub.map πi)))
  intro x _ x' _ hx
  rw [hx.1, ← hx.2.2]

end run

/-! ## the same statements on `genLevel0` / `genLevel` / `stepState` themselves -/

section named
variable {π πi : Nat → Nat} {o : Opts} {m m' : MolG} {g g' : Geo} {A A' : List Nat}

/-- level 0: the intern tables correspond and the generated shells are `LevelEquiv` -/
theorem genLevel0_levelEquiv (c : RCtx π πi o m m' g g' A A') :
    TblRel π (gen0S π A A') (genLevel0 o m A []).1 (genLevel0 o m' A' []).1 ∧
    LevelEquiv π πi (gen0S π A A') (genLevel0 o m A []).2 (genLevel0 o m' A' []).2 := by
  obtain ⟨h1, h2⟩ := genLevel0_relabel c
  rw [genLevel0_eq_map, genLevel0_eq_map]
  exact ⟨h1, PermRel.of_map A A' π c.perm _ _ h2⟩

/-- level `k ≥ 1`: from related tables and corresponding previous shells, the intern tables correspond
and the generated shells are `LevelEquiv` (in particular their identifiers are equal) -/
theorem genLevel_levelEquiv (c : RCtx π πi o m m' g g' A A') (S : Nat → Nat → Prop) (t t' : Intern)
    (htbl : TblRel π S t t') (prev prev' : List GShell)
    (hprev : ∀ b ∈ A, ShellRel π πi S (shellOf prev b) (shellOf prev' (π b))) (k : Nat) :
    TblRel π (genS π o m m' g g' A A' prev prev' k t t' S)
      (genLevel o m g A prev k t).1 (genLevel o m' g' A' prev' k t').1 ∧
    LevelEquiv π πi (genS π o m m' g g' A A' prev prev' k t t' S)
      (genLevel o m g A prev k t).2 (genLevel o m' g' A' prev' k t').2 := by
  obtain ⟨h1, h2⟩ := genLevel_relabel c S t t' htbl prev prev' hprev k
  rw [genLevel_eq_map, genLevel_eq_map]
  exact ⟨h1, PermRel.of_map A A' π c.perm _ _ h2⟩

/-- the step relation is preserved (`UInv`: the unary run invariant of `Lemmas/RelabelSub.lean`) -/
theorem stepState_relabel (c : RCtx π πi o m m' g g' A A') (S : Nat → Nat → Prop) (s s' : FState)
    (h : StRel π πi o A S s s') (subOf subOf' : Nat → List Nat)
    (hu : UInv o A subOf s) (hu' : UInv o A' subOf' s') :
    (stepState o m g A s = none ∧ stepState o m' g' A' s' = none) ∨
    ∃ r r' S₂, stepState o m g A s = some r ∧ stepState o m' g' A' s' = some r' ∧ StRel π πi o A S₂ r r' :=
  step_relabel c S s s' h subOf subOf' hu hu'

end named

end E3fpVerif
