import E3fpVerif.Model.Metrics
import E3fpVerif.Lemmas.Uniq
/-!
# The two-pointer Soergel merge kernel equals its definition on sorted rows
-/
namespace E3fpVerif.C06L

/-- the columns of a row are strictly ascending (CSR `has_sorted_indices` and no duplicates) -/
def SortedRow (r : Row) : Prop := (r.map Prod.fst).Pairwise (· < ·)

instance (r : Row) : Decidable (SortedRow r) := by unfold SortedRow; infer_instance

/-- all stored values are non-negative -/
def NonnegRow (r : Row) : Prop := ∀ p ∈ r, 0 ≤ p.2

/-! ## `absQ` / `maxQ` -/

theorem absQ_sub_comm (a b : Rat) : absQ (a - b) = absQ (b - a) := by
  unfold absQ; grind
theorem maxQ_comm (a b : Rat) : maxQ a b = maxQ b a := by
  unfold maxQ; grind
theorem absQ_nonneg (a : Rat) : 0 ≤ absQ a := by unfold absQ; grind
theorem absQ_zero_sub (w : Rat) (h : 0 ≤ w) : absQ (0 - w) = w := by unfold absQ; grind
theorem absQ_sub_zero (w : Rat) (h : 0 ≤ w) : absQ (w - 0) = w := by unfold absQ; grind
theorem maxQ_zero_left (w : Rat) (h : 0 ≤ w) : maxQ 0 w = w := by unfold maxQ; grind
theorem maxQ_zero_right (w : Rat) (h : 0 ≤ w) : maxQ w 0 = w := by unfold maxQ; grind
theorem absQ_self (a : Rat) : absQ (a - a) = 0 := by unfold absQ; grind
theorem maxQ_self (a : Rat) : maxQ a a = a := by unfold maxQ; grind

/-! ## `rowVal` on sorted rows -/

@[simp] theorem rowVal_nil (k : Nat) : rowVal [] k = 0 := rfl

theorem rowVal_cons_self (i : Nat) (v : Rat) (xs : Row) : rowVal ((i, v) :: xs) i = v := by
  simp [rowVal, lookupQ]

theorem rowVal_cons_ne (i k : Nat) (v : Rat) (xs : Row) (h : i ≠ k) :
    rowVal ((i, v) :: xs) k = rowVal xs k := by
  simp [rowVal, lookupQ, h]

theorem rowVal_of_not_mem (r : Row) (k : Nat) (h : k ∉ r.map Prod.fst) : rowVal r k = 0 := by
  induction r with
  | nil => rfl
  | cons p ps ih =>
    obtain ⟨i, v⟩ := p
    simp only [List.map_cons, List.mem_cons, not_or] at h
    rw [rowVal_cons_ne i k v ps (fun e => h.1 e.symm)]
    exact ih h.2

/-! ## merged column list -/

/-- merge of two ascending column lists, a common column appearing once -/
def mergeCols : List Nat → List Nat → List Nat
  | [], b => b
  | a, [] => a
  | i :: a, j :: b =>
    if i < j then i :: mergeCols a (j :: b)
    else if j < i then j :: mergeCols (i :: a) b
    else i :: mergeCols a b
termination_by a b => a.length + b.length

theorem uniq_cons (a : Nat) (l : List Nat) : uniq (a :: l) = insertU a (uniq l) := rfl

theorem uniq_cons_of_lt_all (a : Nat) (l : List Nat) (h : ∀ b ∈ l, a < b) :
    uniq (a :: l) = a :: uniq l := by
  rw [uniq_cons, insertU_of_lt_all]
  intro b hb; exact h b ((mem_uniq b l).1 hb)

theorem uniq_append_eq_mergeCols (a b : List Nat) (ha : StrictAsc a) (hb : StrictAsc b) :
    uniq (a ++ b) = mergeCols a b := by
  fun_induction mergeCols a b with
  | case1 b => simpa using uniq_of_strictAsc b hb
  | case2 a hne => simpa using uniq_of_strictAsc a ha
  | case3 i a j b hij ih =>
    have ha' := ha; unfold StrictAsc at ha' hb; rw [List.pairwise_cons] at ha' hb
    rw [← ih ha'.2 (by unfold StrictAsc; exact List.pairwise_cons.2 hb)]
    have : (i :: a) ++ (j :: b) = i :: (a ++ (j :: b)) := rfl
    rw [this]
    apply uniq_cons_of_lt_all
    intro m hm
    rcases List.mem_append.1 hm with h | h
    · exact ha'.1 m h
    · rcases List.mem_cons.1 h with rfl | h
      · exact hij
      · exact Nat.lt_trans hij (hb.1 m h)
  | case4 i a j b hij hji ih =>
    have hb' := hb; unfold StrictAsc at ha hb'; rw [List.pairwise_cons] at ha hb'
    rw [← ih (by unfold StrictAsc; exact List.pairwise_cons.2 ha) hb'.2]
    have : uniq ((i :: a) ++ (j :: b)) = uniq (j :: ((i :: a) ++ b)) := by
      apply uniq_ext; intro x; simp only [List.mem_append, List.mem_cons]; grind
    rw [this]
    apply uniq_cons_of_lt_all
    intro m hm
    rcases List.mem_append.1 hm with h | h
    · rcases List.mem_cons.1 h with rfl | h
      · exact hji
      · exact Nat.lt_trans hji (ha.1 m h)
    · exact hb'.1 m h
  | case5 i a j b hij hji ih =>
    have hij' : i = j := by omega
    subst hij'
    unfold StrictAsc at ha hb; rw [List.pairwise_cons] at ha hb
    rw [← ih ha.2 hb.2]
    have : uniq ((i :: a) ++ (i :: b)) = uniq (i :: (a ++ b)) := by
      apply uniq_ext; intro x; simp only [List.mem_append, List.mem_cons]; grind
    rw [this]
    apply uniq_cons_of_lt_all
    intro m hm
    rcases List.mem_append.1 hm with h | h
    · exact ha.1 m h
    · exact hb.1 m h

theorem unionCols_eq_mergeCols (x y : Row) (hx : SortedRow x) (hy : SortedRow y) :
    unionCols x y = mergeCols (x.map Prod.fst) (y.map Prod.fst) :=
  uniq_append_eq_mergeCols _ _ hx hy

@[simp] theorem mergeCols_nil_left (b : List Nat) : mergeCols [] b = b := by simp [mergeCols]
@[simp] theorem mergeCols_nil_right (a : List Nat) : mergeCols a [] = a := by
  cases a <;> simp [mergeCols]

theorem mem_mergeCols (m : Nat) (a b : List Nat) : m ∈ mergeCols a b ↔ m ∈ a ∨ m ∈ b := by
  fun_induction mergeCols a b with
  | case1 b => simp
  | case2 a hne => simp
  | case3 i a j b hij ih => simp only [List.mem_cons, ih]; grind
  | case4 i a j b hij hji ih => simp only [List.mem_cons, ih]; grind
  | case5 i a j b hij hji ih => simp only [List.mem_cons, ih]; grind

/-! ## specification of the merge kernel -/

/-- `Σ_{i ∈ cols} |x_i − y_i|` -/
def colSumAbs (x y : Row) (cols : List Nat) : Rat :=
  sumQ (cols.map (fun i => absQ (rowVal x i - rowVal y i)))
/-- `Σ_{i ∈ cols} max x_i y_i` -/
def colSumMax (x y : Row) (cols : List Nat) : Rat :=
  sumQ (cols.map (fun i => maxQ (rowVal x i) (rowVal y i)))

theorem map_rowVal_congr_left (i : Nat) (v : Rat) (xs y : Row) (cols : List Nat)
    (h : ∀ k ∈ cols, i ≠ k) (g : Rat → Rat → Rat) :
    cols.map (fun k => g (rowVal ((i, v) :: xs) k) (rowVal y k))
      = cols.map (fun k => g (rowVal xs k) (rowVal y k)) :=
  List.map_congr_left (fun k hk => by rw [rowVal_cons_ne i k v xs (h k hk)])

theorem map_rowVal_congr_right (j : Nat) (w : Rat) (x ys : Row) (cols : List Nat)
    (h : ∀ k ∈ cols, j ≠ k) (g : Rat → Rat → Rat) :
    cols.map (fun k => g (rowVal x k) (rowVal ((j, w) :: ys) k))
      = cols.map (fun k => g (rowVal x k) (rowVal ys k)) :=
  List.map_congr_left (fun k hk => by rw [rowVal_cons_ne j k w ys (h k hk)])

theorem colSumAbs_cons_left (i : Nat) (v : Rat) (xs y : Row) (cols : List Nat)
    (h : ∀ k ∈ cols, i ≠ k) : colSumAbs ((i, v) :: xs) y cols = colSumAbs xs y cols := by
  unfold colSumAbs
  rw [map_rowVal_congr_left i v xs y cols h (fun a b => absQ (a - b))]
theorem colSumAbs_cons_right (j : Nat) (w : Rat) (x ys : Row) (cols : List Nat)
    (h : ∀ k ∈ cols, j ≠ k) : colSumAbs x ((j, w) :: ys) cols = colSumAbs x ys cols := by
  unfold colSumAbs
  rw [map_rowVal_congr_right j w x ys cols h (fun a b => absQ (a - b))]
theorem colSumMax_cons_left (i : Nat) (v : Rat) (xs y : Row) (cols : List Nat)
    (h : ∀ k ∈ cols, i ≠ k) : colSumMax ((i, v) :: xs) y cols = colSumMax xs y cols := by
  unfold colSumMax
  rw [map_rowVal_congr_left i v xs y cols h maxQ]
theorem colSumMax_cons_right (j : Nat) (w : Rat) (x ys : Row) (cols : List Nat)
    (h : ∀ k ∈ cols, j ≠ k) : colSumMax x ((j, w) :: ys) cols = colSumMax x ys cols := by
  unfold colSumMax
  rw [map_rowVal_congr_right j w x ys cols h maxQ]

theorem colSumAbs_cons (x y : Row) (k : Nat) (cols : List Nat) :
    colSumAbs x y (k :: cols) = absQ (rowVal x k - rowVal y k) + colSumAbs x y cols := rfl
theorem colSumMax_cons (x y : Row) (k : Nat) (cols : List Nat) :
    colSumMax x y (k :: cols) = maxQ (rowVal x k) (rowVal y k) + colSumMax x y cols := rfl

theorem SortedRow.tail {p : Nat × Rat} {r : Row} (h : SortedRow (p :: r)) : SortedRow r := by
  unfold SortedRow at *; rw [List.map_cons, List.pairwise_cons] at h; exact h.2
theorem SortedRow.head_lt {p : Nat × Rat} {r : Row} (h : SortedRow (p :: r)) :
    ∀ k ∈ r.map Prod.fst, p.1 < k := by
  unfold SortedRow at *; rw [List.map_cons, List.pairwise_cons] at h; exact h.1
theorem NonnegRow.tail {p : Nat × Rat} {r : Row} (h : NonnegRow (p :: r)) : NonnegRow r :=
  fun q hq => h q (List.mem_cons_of_mem _ hq)
theorem NonnegRow.head {p : Nat × Rat} {r : Row} (h : NonnegRow (p :: r)) : 0 ≤ p.2 :=
  h p (List.mem_cons_self ..)

/-- **recursive specification**: on rows with strictly ascending columns and non-negative values the
two-pointer merge returns `(Σ |x_i − y_i|, Σ max x_i y_i)` over the merged column list -/
theorem mergeSD_spec_rec (x y : Row) (hx : SortedRow x) (hy : SortedRow y)
    (nx : NonnegRow x) (ny : NonnegRow y) :
    mergeSD x y = (colSumAbs x y (mergeCols (x.map Prod.fst) (y.map Prod.fst)),
                   colSumMax x y (mergeCols (x.map Prod.fst) (y.map Prod.fst))) := by
  fun_induction mergeSD x y with
  | case1 => simp [colSumAbs, colSumMax, sumQ]
  | case2 j w ys r ih =>
    have hw : 0 ≤ w := ny.head
    have hne : ∀ k ∈ ys.map Prod.fst, j ≠ k := fun k hk => Nat.ne_of_lt (hy.head_lt k hk)
    have ih' := ih hx hy.tail nx ny.tail
    simp only [r, List.map_nil, mergeCols_nil_left] at *
    simp only [List.map_cons]
    rw [colSumAbs_cons, colSumMax_cons, colSumAbs_cons_right _ _ _ _ _ hne,
      colSumMax_cons_right _ _ _ _ _ hne, rowVal_cons_self, rowVal_nil, absQ_zero_sub w hw,
      maxQ_zero_left w hw, ih']
    simp only [Rat.add_comm]
  | case3 i v xs r ih =>
    have hv : 0 ≤ v := nx.head
    have hne : ∀ k ∈ xs.map Prod.fst, i ≠ k := fun k hk => Nat.ne_of_lt (hx.head_lt k hk)
    have ih' := ih hx.tail hy nx.tail ny
    simp only [r, List.map_nil, mergeCols_nil_right] at *
    simp only [List.map_cons]
    rw [colSumAbs_cons, colSumMax_cons, colSumAbs_cons_left _ _ _ _ _ hne,
      colSumMax_cons_left _ _ _ _ _ hne, rowVal_cons_self, rowVal_nil, absQ_sub_zero v hv,
      maxQ_zero_right v hv, ih']
    simp only [Rat.add_comm]
  | case4 i v xs j w ys hij r ih =>
    have hv : 0 ≤ v := nx.head
    have ih' := ih hx.tail hy nx.tail ny
    have hne : ∀ k ∈ mergeCols (xs.map Prod.fst) (((j, w) :: ys).map Prod.fst), i ≠ k := by
      intro k hk
      rcases (mem_mergeCols _ _ _).1 hk with h | h
      · exact Nat.ne_of_lt (hx.head_lt k h)
      · rcases List.mem_cons.1 h with rfl | h
        · exact Nat.ne_of_lt hij
        · have := hy.head_lt k h; simp only at this; omega
    have hy0 : rowVal ((j, w) :: ys) i = 0 := by
      apply rowVal_of_not_mem
      intro h
      rcases List.mem_cons.1 h with e | h
      · simp only at e; omega
      · have := hy.head_lt i h; simp only at this; omega
    simp only [r] at *
    rw [List.map_cons (l := xs), List.map_cons (l := ys), mergeCols, if_pos hij,
      ← List.map_cons (f := Prod.fst) (a := (j, w)) (l := ys)]
    rw [colSumAbs_cons, colSumMax_cons, colSumAbs_cons_left _ _ _ _ _ hne,
      colSumMax_cons_left _ _ _ _ _ hne, rowVal_cons_self, hy0, absQ_sub_zero v hv,
      maxQ_zero_right v hv, ih']
    simp only [Rat.add_comm]
  | case5 i v xs j w ys hij hji r ih =>
    have hw : 0 ≤ w := ny.head
    have ih' := ih hx hy.tail nx ny.tail
    have hne : ∀ k ∈ mergeCols (((i, v) :: xs).map Prod.fst) (ys.map Prod.fst), j ≠ k := by
      intro k hk
      rcases (mem_mergeCols _ _ _).1 hk with h | h
      · rcases List.mem_cons.1 h with rfl | h
        · exact Nat.ne_of_lt hji
        · have := hx.head_lt k h; simp only at this; omega
      · exact Nat.ne_of_lt (hy.head_lt k h)
    have hx0 : rowVal ((i, v) :: xs) j = 0 := by
      apply rowVal_of_not_mem
      intro h
      rcases List.mem_cons.1 h with e | h
      · simp only at e; omega
      · have := hx.head_lt j h; simp only at this; omega
    simp only [r] at *
    rw [List.map_cons (l := xs), List.map_cons (l := ys), mergeCols, if_neg hij, if_pos hji,
      ← List.map_cons (f := Prod.fst) (a := (i, v)) (l := xs)]
    rw [colSumAbs_cons, colSumMax_cons, colSumAbs_cons_right _ _ _ _ _ hne,
      colSumMax_cons_right _ _ _ _ _ hne, rowVal_cons_self, hx0, absQ_zero_sub w hw,
      maxQ_zero_left w hw, ih']
    simp only [Rat.add_comm]
  | case6 i v xs j w ys hij hji r hpos ih =>
    have e : i = j := by omega
    subst e
    have ih' := ih hx.tail hy.tail nx.tail ny.tail
    have hne : ∀ k ∈ mergeCols (xs.map Prod.fst) (ys.map Prod.fst), i ≠ k := by
      intro k hk
      rcases (mem_mergeCols _ _ _).1 hk with h | h
      · exact Nat.ne_of_lt (hx.head_lt k h)
      · exact Nat.ne_of_lt (hy.head_lt k h)
    simp only [r] at *
    rw [List.map_cons (l := xs), List.map_cons (l := ys), mergeCols, if_neg hij, if_neg hji]
    rw [colSumAbs_cons, colSumMax_cons, colSumAbs_cons_left _ _ _ _ _ hne,
      colSumMax_cons_left _ _ _ _ _ hne, colSumAbs_cons_right _ _ _ _ _ hne,
      colSumMax_cons_right _ _ _ _ _ hne, rowVal_cons_self, rowVal_cons_self, ih']
    have h1 : absQ (v - w) = v - w := by unfold absQ; grind
    have h2 : maxQ v w = v := by unfold maxQ; grind
    rw [h1, h2]
    simp only [Rat.add_comm]
  | case7 i v xs j w ys hij hji r hpos ih =>
    have e : i = j := by omega
    subst e
    have ih' := ih hx.tail hy.tail nx.tail ny.tail
    have hne : ∀ k ∈ mergeCols (xs.map Prod.fst) (ys.map Prod.fst), i ≠ k := by
      intro k hk
      rcases (mem_mergeCols _ _ _).1 hk with h | h
      · exact Nat.ne_of_lt (hx.head_lt k h)
      · exact Nat.ne_of_lt (hy.head_lt k h)
    simp only [r] at *
    rw [List.map_cons (l := xs), List.map_cons (l := ys), mergeCols, if_neg hij, if_neg hji]
    rw [colSumAbs_cons, colSumMax_cons, colSumAbs_cons_left _ _ _ _ _ hne,
      colSumMax_cons_left _ _ _ _ _ hne, colSumAbs_cons_right _ _ _ _ _ hne,
      colSumMax_cons_right _ _ _ _ _ hne, rowVal_cons_self, rowVal_cons_self, ih']
    have h1 : absQ (v - w) = -(v - w) := by unfold absQ; grind
    have h2 : maxQ v w = w := by unfold maxQ; grind
    rw [h1, h2]
    refine Prod.ext ?_ ?_ <;> simp only <;> grind

/-- **`mergeSD_spec`**: the merge kernel computes the two sums of the Soergel definition -/
theorem mergeSD_spec (x y : Row) (hx : SortedRow x) (hy : SortedRow y)
    (nx : NonnegRow x) (ny : NonnegRow y) :
    (mergeSD x y).1 = sumQ ((unionCols x y).map (fun i => absQ (rowVal x i - rowVal y i))) ∧
    (mergeSD x y).2 = sumQ ((unionCols x y).map (fun i => maxQ (rowVal x i) (rowVal y i))) := by
  rw [mergeSD_spec_rec x y hx hy nx ny, unionCols_eq_mergeCols x y hx hy]
  exact ⟨rfl, rfl⟩

/-- the merge kernel is symmetric, on all rows -/
theorem mergeSD_symm (x y : Row) : mergeSD x y = mergeSD y x := by
  fun_induction mergeSD x y with
  | case1 => simp [mergeSD]
  | case2 j w ys r ih => rw [mergeSD.eq_3]; simp only [r, ih]
  | case3 i v xs r ih => rw [mergeSD.eq_2]; simp only [r, ih]
  | case4 i v xs j w ys hij r ih =>
    rw [mergeSD.eq_4, if_neg (by omega), if_pos hij]; simp only [r, ih]
  | case5 i v xs j w ys hij hji r ih =>
    rw [mergeSD.eq_4, if_pos hji]; simp only [r, ih]
  | case6 i v xs j w ys hij hji r hpos ih =>
    rw [mergeSD.eq_4, if_neg hji, if_neg hij]; simp only [r, ih] at *
    have : ¬ (w - v > 0) := by grind
    rw [if_neg this]
    refine Prod.ext ?_ ?_ <;> simp only <;> grind
  | case7 i v xs j w ys hij hji r hpos ih =>
    rw [mergeSD.eq_4, if_neg hji, if_neg hij]; simp only [r, ih] at *
    by_cases h : w - v > 0
    · rw [if_pos h]; refine Prod.ext ?_ ?_ <;> simp only <;> grind
    · rw [if_neg h]; refine Prod.ext ?_ ?_ <;> simp only <;> grind

/-! ## `sortRow` -/

theorem flatMap_congr_mem {α β : Type} (l : List α) (f g : α → List β) (h : ∀ a ∈ l, f a = g a) :
    l.flatMap f = l.flatMap g := by
  induction l with
  | nil => rfl
  | cons a as ih =>
    simp only [List.flatMap_cons]
    rw [h a (List.mem_cons_self ..), ih (fun b hb => h b (List.mem_cons_of_mem _ hb))]

theorem flatMap_filter_cols (r : Row) (h : SortedRow r) :
    (r.map Prod.fst).flatMap (fun j => r.filter (fun p => p.1 = j)) = r := by
  induction r with
  | nil => rfl
  | cons p ps ih =>
    have hlt := h.head_lt
    simp only [List.map_cons, List.flatMap_cons]
    have h1 : (p :: ps).filter (fun q => q.1 = p.1) = [p] := by
      rw [List.filter_cons_of_pos (by simp)]
      congr 1
      apply List.filter_eq_nil_iff.2
      intro q hq
      have := hlt q.1 (List.mem_map_of_mem hq)
      simp; omega
    have h2 : (ps.map Prod.fst).flatMap (fun j => (p :: ps).filter (fun q => q.1 = j))
        = (ps.map Prod.fst).flatMap (fun j => ps.filter (fun q => q.1 = j)) := by
      apply flatMap_congr_mem
      intro j hj
      have := hlt j hj
      rw [List.filter_cons_of_neg (by simp; omega)]
    rw [h1, h2, ih h.tail]; rfl

/-- sorting a row whose columns are already strictly ascending returns the row -/
theorem sortRow_of_sorted (r : Row) (h : SortedRow r) : sortRow r = r := by
  unfold sortRow rowCols
  rw [uniq_of_strictAsc _ h]
  exact flatMap_filter_cols r h

/-! ## Soergel with an empty operand -/

theorem unionCols_comm (x y : Row) : unionCols x y = unionCols y x := by
  unfold unionCols; apply uniq_ext; intro i; simp only [List.mem_append]; exact Or.comm

theorem rowVal_nonneg (r : Row) (h : NonnegRow r) (k : Nat) : 0 ≤ rowVal r k := by
  induction r with
  | nil => simp
  | cons p ps ih =>
    obtain ⟨i, v⟩ := p
    by_cases e : i = k
    · subst e; rw [rowVal_cons_self]; exact h.head
    · rw [rowVal_cons_ne i k v ps e]; exact ih h.tail

theorem soergelDef_eq (x y : Row) :
    soergelDef x y = if colSumMax x y (unionCols x y) = 0 then 0
      else 1 - colSumAbs x y (unionCols x y) / colSumMax x y (unionCols x y) := rfl

theorem colSum_nil_left (y : Row) (hy : NonnegRow y) (cols : List Nat) :
    colSumAbs [] y cols = colSumMax [] y cols := by
  unfold colSumAbs colSumMax
  congr 1
  exact List.map_congr_left (fun k _ => by
      rw [rowVal_nil, absQ_zero_sub _ (rowVal_nonneg y hy k), maxQ_zero_left _ (rowVal_nonneg y hy k)])

theorem soergelDef_nil_left (y : Row) (hy : NonnegRow y) : soergelDef [] y = 0 := by
  rw [soergelDef_eq, colSum_nil_left y hy]
  split
  · rfl
  · rename_i h; grind

theorem soergelDef_symm (x y : Row) : soergelDef x y = soergelDef y x := by
  unfold soergelDef
  rw [unionCols_comm x y]
  have e1 : (unionCols y x).map (fun i => maxQ (rowVal x i) (rowVal y i))
      = (unionCols y x).map (fun i => maxQ (rowVal y i) (rowVal x i)) :=
    List.map_congr_left (fun k _ => maxQ_comm _ _)
  have e2 : (unionCols y x).map (fun i => absQ (rowVal x i - rowVal y i))
      = (unionCols y x).map (fun i => absQ (rowVal y i - rowVal x i)) :=
    List.map_congr_left (fun k _ => absQ_sub_comm _ _)
  simp only [e1, e2]

theorem soergelDef_nil_right (x : Row) (hx : NonnegRow x) : soergelDef x [] = 0 := by
  rw [soergelDef_symm]; exact soergelDef_nil_left x hx

end E3fpVerif.C06L
