import E3fpVerif.Model.Entry
/-!
# Lemmas for the entry-point property (`Props/C14Entry.lean`)

`Option`-valued `List.mapM`, the insertion-ordered dictionary `dictAppend`, and the effect of
`collectLevels` on a dictionary whose keys are exactly the level keys (or which is still empty).
-/
namespace E3fpVerif

/-! ## `List.mapM` in `Option` -/

theorem omapM_nil {α β : Type} (f : α → Option β) : ([] : List α).mapM f = some [] := rfl

theorem omapM_cons {α β : Type} (f : α → Option β) (a : α) (l : List α) :
    (a :: l).mapM f =
      (match f a with
       | none => none
       | some b => match l.mapM f with
         | none => none
         | some bs => some (b :: bs)) := by
  rw [List.mapM_cons]
  cases f a with
  | none => rfl
  | some b => cases l.mapM f <;> rfl

theorem omapM_some_map {α β : Type} (f : α → Option β) (g : α → β) (l : List α)
    (h : ∀ x ∈ l, f x = some (g x)) : l.mapM f = some (l.map g) := by
  induction l with
  | nil => rfl
  | cons a l ih =>
    rw [omapM_cons, h a (by simp), ih (fun x hx => h x (by simp [hx]))]
    rfl

theorem omapM_none_of_mem {α β : Type} (f : α → Option β) (l : List α) (x : α) (hx : x ∈ l)
    (h : f x = none) : l.mapM f = none := by
  induction l with
  | nil => cases hx
  | cons a l ih =>
    rw [omapM_cons]
    rcases List.mem_cons.1 hx with rfl | hx
    · rw [h]
    · rw [ih hx]; cases f a <;> rfl

theorem omapM_congr {α β : Type} (f f' : α → Option β) (l : List α)
    (h : ∀ x ∈ l, f x = f' x) : l.mapM f = l.mapM f' := by
  induction l with
  | nil => rfl
  | cons a l ih =>
    rw [omapM_cons, omapM_cons, h a (by simp), ih (fun x hx => h x (by simp [hx]))]

/-- characterisation of success -/
theorem omapM_eq_some {α β : Type} (f : α → Option β) (l : List α) (r : List β) :
    l.mapM f = some r ↔ l.map f = r.map some := by
  induction l generalizing r with
  | nil =>
    rw [omapM_nil]
    constructor
    · intro h; cases h; rfl
    · intro h; cases r with
      | nil => rfl
      | cons b bs => cases h
  | cons a l ih =>
    rw [omapM_cons]
    constructor
    · intro h
      cases hfa : f a with
      | none => rw [hfa] at h; cases h
      | some b =>
        rw [hfa] at h
        cases hl : l.mapM f with
        | none => rw [hl] at h; cases h
        | some bs =>
          rw [hl] at h
          cases h
          rw [List.map_cons, List.map_cons, hfa, (ih bs).1 hl]
    · intro h
      cases r with
      | nil => cases h
      | cons b bs =>
        rw [List.map_cons, List.map_cons] at h
        injection h with h1 h2
        rw [h1, (ih bs).2 h2]

theorem omapM_length {α β : Type} (f : α → Option β) (l : List α) (r : List β)
    (h : l.mapM f = some r) : r.length = l.length := by
  have := congrArg List.length ((omapM_eq_some f l r).1 h)
  simpa using this.symm

theorem omapM_getElem {α β : Type} (f : α → Option β) (l : List α) (r : List β)
    (h : l.mapM f = some r) (i : Nat) (hl : i < l.length) (hr : i < r.length) : f l[i] = some r[i] := by
  have h' := (omapM_eq_some f l r).1 h
  have : (l.map f)[i]'(by simpa using hl) = (r.map some)[i]'(by simpa using hr) := by
    simp only [h']
  simpa using this

theorem omapM_take {α β : Type} (f : α → Option β) (l : List α) (r : List β) (n : Nat)
    (h : l.mapM f = some r) : (l.take n).mapM f = some (r.take n) := by
  rw [omapM_eq_some] at h ⊢
  rw [List.map_take, List.map_take, h]

theorem omapM_mem {α β : Type} (f : α → Option β) (l : List α) (r : List β)
    (h : l.mapM f = some r) (y : β) (hy : y ∈ r) : ∃ x ∈ l, f x = some y := by
  have h' := (omapM_eq_some f l r).1 h
  have : some y ∈ l.map f := by rw [h']; exact List.mem_map.2 ⟨y, hy, rfl⟩
  obtain ⟨x, hx, hfx⟩ := List.mem_map.1 this
  exact ⟨x, hx, hfx⟩

/-- a pointwise consequence carries over to the collected lists -/
theorem omapM_map_of_imp {α β γ : Type} (f : α → Option β) (f' : α → Option γ) (G : β → γ) (l : List α)
    (himp : ∀ x ∈ l, ∀ y, f x = some y → f' x = some (G y)) (r : List β)
    (h : l.mapM f = some r) : l.mapM f' = some (r.map G) := by
  induction l generalizing r with
  | nil => rw [omapM_nil] at h; cases h; rfl
  | cons a l ih =>
    rw [omapM_cons] at h
    cases hfa : f a with
    | none => rw [hfa] at h; cases h
    | some b =>
      rw [hfa] at h
      cases hl : l.mapM f with
      | none => rw [hl] at h; cases h
      | some bs =>
        rw [hl] at h
        cases h
        rw [omapM_cons, himp a (by simp) b hfa, ih (fun x hx => himp x (by simp [hx])) bs hl]
        rfl

theorem omapM_isSome {α β : Type} (f : α → Option β) (l : List α)
    (h : ∀ x ∈ l, (f x).isSome = true) : (l.mapM f).isSome = true := by
  induction l with
  | nil => rfl
  | cons a l ih =>
    obtain ⟨b, hb⟩ := Option.isSome_iff_exists.1 (h a (by simp))
    obtain ⟨bs, hbs⟩ := Option.isSome_iff_exists.1 (ih (fun x hx => h x (by simp [hx])))
    rw [omapM_cons, hb, hbs]
    rfl

/-! ## one cell of the result -/

/-- the named fingerprint at key `k` of a finished run on conformer `j` -/
def fpCell (o : Opts) (s : FState) (name : Option (List Char)) (j : Nat) (k : Int) : Option NamedFp :=
  match fingerprintAt o s (some k) none [] with
  | .ok f => some { fp := f, name := name.map (fun n => confName n j) }
  | .error _ => none

/-- the same from a fresh fingerprinter run on the geometry `p.1`, conformer index `p.2` -/
def specCell (o : Opts) (m : MolG) (name : Option (List Char)) (k : Int) (p : Geo × Nat) : Option NamedFp :=
  match runFp o m p.1 with
  | .ok s => fpCell o s name p.2 k
  | .error _ => none

theorem specCell_ok (o : Opts) (m : MolG) (name : Option (List Char)) (k : Int) (g : Geo) (j : Nat) (s : FState)
    (h : runFp o m g = .ok s) : specCell o m name k (g, j) = fpCell o s name j k := by
  unfold specCell; simp only [h]

theorem specCell_err (o : Opts) (m : MolG) (name : Option (List Char)) (k : Int) (g : Geo) (j : Nat) (e : Err)
    (h : runFp o m g = .error e) : specCell o m name k (g, j) = none := by
  unfold specCell; simp only [h]

theorem specCell_some (o : Opts) (m : MolG) (name : Option (List Char)) (k : Int) (g : Geo) (j : Nat)
    (x : NamedFp) (h : specCell o m name k (g, j) = some x) :
    ∃ s, runFp o m g = .ok s ∧ fingerprintAt o s (some k) none [] = .ok x.fp ∧
      x.name = name.map (fun n => confName n j) := by
  unfold specCell at h
  split at h
  · rename_i s hs
    unfold fpCell at h
    split at h
    · rename_i f hf
      cases h
      exact ⟨s, hs, hf, rfl⟩
    · cases h
  · cases h

/-! ## `dictAppend` -/

theorem dictAppend_absent (A : LevelDict) (k : Int) (x : NamedFp) (h : ∀ p ∈ A, p.1 ≠ k) :
    dictAppend A k x = A ++ [(k, [x])] := by
  induction A with
  | nil => rfl
  | cons p A ih =>
    obtain ⟨a, l⟩ := p
    have ha : ¬ a = k := h (a, l) (by simp)
    simp only [dictAppend, ha, if_false, List.cons_append]
    rw [ih (fun p hp => h p (by simp [hp]))]

theorem dictAppend_present (A B : LevelDict) (k : Int) (c : List NamedFp) (x : NamedFp)
    (h : ∀ p ∈ A, p.1 ≠ k) : dictAppend (A ++ (k, c) :: B) k x = A ++ (k, c ++ [x]) :: B := by
  induction A with
  | nil => simp [dictAppend]
  | cons p A ih =>
    obtain ⟨a, l⟩ := p
    have ha : ¬ a = k := h (a, l) (by simp)
    simp only [List.cons_append, dictAppend, ha, if_false]
    rw [ih (fun p hp => h p (by simp [hp]))]

/-! ## `collectLevels` -/

/-- one step of the fold of `collectLevels` -/
def colStep (o : Opts) (s : FState) (name : Option (List Char)) (j : Nat) (acc : Option LevelDict) (k : Int) :
    Option LevelDict :=
  match acc with
  | none => none
  | some d' =>
    match fpCell o s name j k with
    | some x => some (dictAppend d' k x)
    | none => none

theorem collectLevels_eq (o : Opts) (s : FState) (keys : List Int) (name : Option (List Char)) (j : Nat)
    (d : LevelDict) : collectLevels o s keys name j d = keys.foldl (colStep o s name j) (some d) := by
  unfold collectLevels
  congr 1
  funext acc k
  unfold colStep fpCell
  cases acc with
  | none => rfl
  | some d' => cases fingerprintAt o s (some k) none [] <;> rfl

theorem colStep_foldl_none (o : Opts) (s : FState) (name : Option (List Char)) (j : Nat) (keys : List Int) :
    keys.foldl (colStep o s name j) none = none := by
  induction keys with
  | nil => rfl
  | cons k ks ih => exact ih

/-- a failing key makes the whole collection fail -/
theorem collectLevels_none (o : Opts) (s : FState) (keys : List Int) (name : Option (List Char)) (j : Nat)
    (d : LevelDict) (k : Int) (hk : k ∈ keys) (h : fpCell o s name j k = none) :
    collectLevels o s keys name j d = none := by
  rw [collectLevels_eq]
  induction keys generalizing d with
  | nil => cases hk
  | cons a ks ih =>
    rw [List.foldl_cons]
    rcases List.mem_cons.1 hk with rfl | hk
    · simp only [colStep, h]; exact colStep_foldl_none o s name j ks
    · cases hc : fpCell o s name j a with
      | none => simp only [colStep, hc]; exact colStep_foldl_none o s name j ks
      | some x => simp only [colStep, hc]; exact ih _ hk

/-- on a dictionary that has every key: each list grows by the key's cell -/
theorem colStep_foldl_present (o : Opts) (s : FState) (name : Option (List Char)) (j : Nat)
    (col : Int → List NamedFp) (post : List Int) (A : LevelDict)
    (hA : ∀ k ∈ post, ∀ p ∈ A, p.1 ≠ k) (hnd : post.Nodup)
    (hall : ∀ k ∈ post, (fpCell o s name j k).isSome = true) :
    post.foldl (colStep o s name j) (some (A ++ post.map (fun k => (k, col k))))
      = some (A ++ post.map (fun k => (k, col k ++ (fpCell o s name j k).toList))) := by
  induction post generalizing A with
  | nil => rfl
  | cons k ks ih =>
    obtain ⟨v, hv⟩ := Option.isSome_iff_exists.1 (hall k (by simp))
    rw [List.foldl_cons, List.map_cons]
    simp only [colStep, hv]
    rw [dictAppend_present A _ k (col k) v (hA k (by simp))]
    have hnd' := List.nodup_cons.1 hnd
    have := ih (A ++ [(k, col k ++ [v])])
      (by
        intro k' hk' p hp
        rcases List.mem_append.1 hp with hp | hp
        · exact hA k' (by simp [hk']) p hp
        · simp only [List.mem_singleton] at hp
          subst hp
          intro he
          have he' : k = k' := he
          subst he'; exact hnd'.1 hk')
      hnd'.2 (fun k' hk' => hall k' (by simp [hk']))
    simp only [List.append_assoc, List.singleton_append] at this
    rw [this]
    simp [hv]

/-- on the empty dictionary (more generally, one with none of the keys): each key is inserted -/
theorem colStep_foldl_absent (o : Opts) (s : FState) (name : Option (List Char)) (j : Nat)
    (post : List Int) (A : LevelDict)
    (hA : ∀ k ∈ post, ∀ p ∈ A, p.1 ≠ k) (hnd : post.Nodup)
    (hall : ∀ k ∈ post, (fpCell o s name j k).isSome = true) :
    post.foldl (colStep o s name j) (some A)
      = some (A ++ post.map (fun k => (k, (fpCell o s name j k).toList))) := by
  induction post generalizing A with
  | nil => simp
  | cons k ks ih =>
    obtain ⟨v, hv⟩ := Option.isSome_iff_exists.1 (hall k (by simp))
    rw [List.foldl_cons, List.map_cons]
    simp only [colStep, hv]
    rw [dictAppend_absent A k v (hA k (by simp))]
    have hnd' := List.nodup_cons.1 hnd
    rw [ih (A ++ [(k, [v])])
      (by
        intro k' hk' p hp
        rcases List.mem_append.1 hp with hp | hp
        · exact hA k' (by simp [hk']) p hp
        · simp only [List.mem_singleton] at hp
          subst hp
          intro he
          have he' : k = k' := he
          subst he'; exact hnd'.1 hk')
      hnd'.2 (fun k' hk' => hall k' (by simp [hk']))]
    simp

/-- the dictionary is either still empty or has exactly the keys `keys`, key `k` holding `col k` -/
def DictShape (keys : List Int) (d : LevelDict) (col : Int → List NamedFp) : Prop :=
  d = keys.map (fun k => (k, col k)) ∨ (d = [] ∧ ∀ k, col k = [])

/-- **`collectLevels` on a well-shaped dictionary** appends each key's fingerprint to the key's list -/
theorem collectLevels_shape (o : Opts) (s : FState) (keys : List Int) (name : Option (List Char)) (j : Nat)
    (d : LevelDict) (col : Int → List NamedFp) (hnd : keys.Nodup) (hd : DictShape keys d col)
    (hall : ∀ k ∈ keys, (fpCell o s name j k).isSome = true) :
    collectLevels o s keys name j d
      = some (keys.map (fun k => (k, col k ++ (fpCell o s name j k).toList))) := by
  rw [collectLevels_eq]
  rcases hd with rfl | ⟨rfl, hcol⟩
  · have := colStep_foldl_present o s name j col keys [] (by intro _ _ p hp; cases hp) hnd hall
    simpa using this
  · have := colStep_foldl_absent o s name j keys [] (by intro _ _ p hp; cases hp) hnd hall
    simpa [hcol] using this

end E3fpVerif
